import PkgModel.SpecifierSet
import PkgProofs.Lemmas.Ord
/-!
# Lemmas about the SpecifierSet model

1. the `frozenset` layer: `insert` / `fromList` / `union` keep keys distinct, their key sets are unions,
   re-inserting is absorbed (`foldl_insert_foldl`);
2. `Except` plumbing and the pure ("no member raises") readings of `anyPre`, `allContain`,
   `Spec.filter`, `filterChain`, `emptyLoop`;
3. sorting: `sortBy` is a sorted permutation, hence permutation invariant for a total antisymmetric order;
4. `splitOn` / `join`.
-/
namespace SSet
open Py V S

/-! ## 0. `Except` plumbing -/

@[simp] theorem ok_bind {α β} (a : α) (f : α → R β) : (Except.ok a >>= f) = f a := rfl
@[simp] theorem error_bind {α β} (e : String) (f : α → R β) : ((Except.error e : R α) >>= f) = Except.error e := rfl
@[simp] theorem pure_eq_ok {α} (a : α) : (pure a : R α) = Except.ok a := rfl

instance {ε α} [DecidableEq ε] [DecidableEq α] : DecidableEq (Except ε α)
  | .ok a, .ok b => if h : a = b then isTrue (by rw [h]) else isFalse (by intro e; injection e with e; exact h e)
  | .error a, .error b => if h : a = b then isTrue (by rw [h]) else isFalse (by intro e; injection e with e; exact h e)
  | .ok _, .error _ => isFalse (by intro e; cases e)
  | .error _, .ok _ => isFalse (by intro e; cases e)

/-- two duplicate-free lists, one inside the other and not shorter, have the same elements -/
theorem subset_of_length_le {α} [DecidableEq α] :
    ∀ (a b : List α), a.Nodup → b.Nodup → a ⊆ b → b.length ≤ a.length → b ⊆ a
  | [], b, _, _, _, hl => by cases b <;> simp_all
  | x :: a', b, ha, hb, hs, hl => by
    have hx : x ∈ b := hs (by simp)
    have ha' := List.nodup_cons.mp ha
    have hs' : a' ⊆ b.erase x := by
      intro y hy
      have hyb : y ∈ b := hs (by simp [hy])
      have hne : y ≠ x := by rintro rfl; exact ha'.1 hy
      exact (List.mem_erase_of_ne hne).mpr hyb
    have hl' : (b.erase x).length ≤ a'.length := by
      rw [List.length_erase_of_mem hx]; simp only [List.length_cons] at hl; omega
    have ih := subset_of_length_le a' (b.erase x) ha'.2 (hb.erase x) hs' hl'
    intro y hy
    by_cases hyx : y = x
    · simp [hyx]
    · exact List.mem_cons_of_mem _ (ih ((List.mem_erase_of_ne hyx).mpr hy))

/-! ## 1. the frozenset layer -/

def keys (l : List Member) : List CKey := l.map fun m => key m.1

@[simp] theorem keys_nil : keys [] = [] := rfl
@[simp] theorem keys_append (a b : List Member) : keys (a ++ b) = keys a ++ keys b := by simp [keys]
@[simp] theorem keys_cons (m : Member) (l : List Member) : keys (m :: l) = key m.1 :: keys l := rfl

theorem hasKey_iff (l : List Member) (k : CKey) : hasKey l k = true ↔ k ∈ keys l := by
  simp only [hasKey, keys, List.any_eq_true, List.mem_map, beq_iff_eq]

theorem hasKey_false_iff (l : List Member) (k : CKey) : hasKey l k = false ↔ k ∉ keys l := by
  rw [← hasKey_iff]; simp

theorem insert_of_mem {l : List Member} {m : Member} (h : key m.1 ∈ keys l) : insert l m = l := by
  simp [insert, (hasKey_iff l _).mpr h]

theorem insert_of_not_mem {l : List Member} {m : Member} (h : key m.1 ∉ keys l) : insert l m = l ++ [m] := by
  simp [insert, (hasKey_false_iff l _).mpr h]

theorem mem_keys_insert (l : List Member) (m : Member) (k : CKey) :
    k ∈ keys (insert l m) ↔ k ∈ keys l ∨ k = key m.1 := by
  by_cases h : key m.1 ∈ keys l
  · rw [insert_of_mem h]
    constructor
    · exact Or.inl
    · rintro (h' | rfl)
      · exact h'
      · exact h
  · rw [insert_of_not_mem h]; simp

theorem mem_keys_foldl (ms l : List Member) (k : CKey) :
    k ∈ keys (ms.foldl insert l) ↔ k ∈ keys l ∨ k ∈ keys ms := by
  induction ms generalizing l with
  | nil => simp
  | cons m ms ih =>
    simp only [List.foldl_cons, ih, mem_keys_insert, keys_cons, List.mem_cons]
    constructor
    · rintro ((h | h) | h)
      · exact Or.inl h
      · exact Or.inr (Or.inl h)
      · exact Or.inr (Or.inr h)
    · rintro (h | h | h)
      · exact Or.inl (Or.inl h)
      · exact Or.inl (Or.inr h)
      · exact Or.inr h

theorem mem_keys_fromList (ms : List Member) (k : CKey) : k ∈ keys (fromList ms) ↔ k ∈ keys ms := by
  simp [fromList, mem_keys_foldl]

theorem mem_keys_union (a b : List Member) (k : CKey) : k ∈ keys (union a b) ↔ k ∈ keys a ∨ k ∈ keys b := by
  simp [union, mem_keys_foldl]

theorem nodup_insert {l : List Member} (m : Member) (h : (keys l).Nodup) : (keys (insert l m)).Nodup := by
  by_cases hm : key m.1 ∈ keys l
  · rwa [insert_of_mem hm]
  · rw [insert_of_not_mem hm, keys_append]
    refine List.nodup_append.mpr ⟨h, by simp [keys], ?_⟩
    intro a ha b hb
    simp only [keys, List.map_cons, List.map_nil, List.mem_singleton] at hb
    subst hb
    intro hab; subst hab; exact hm ha

theorem nodup_foldl (ms : List Member) {l : List Member} (h : (keys l).Nodup) :
    (keys (ms.foldl insert l)).Nodup := by
  induction ms generalizing l with
  | nil => exact h
  | cons m ms ih => exact ih (nodup_insert m h)

theorem nodup_fromList (ms : List Member) : (keys (fromList ms)).Nodup :=
  nodup_foldl ms (by simp)

theorem nodup_union {a : List Member} (b : List Member) (h : (keys a).Nodup) : (keys (union a b)).Nodup :=
  nodup_foldl b h

/-- members of a set come from the inserted elements -/
theorem mem_insert {l : List Member} {m x : Member} (h : x ∈ insert l m) : x ∈ l ∨ x = m := by
  by_cases hm : key m.1 ∈ keys l
  · rw [insert_of_mem hm] at h; exact Or.inl h
  · rw [insert_of_not_mem hm] at h; simpa using h

theorem mem_foldl {ms l : List Member} {x : Member} (h : x ∈ ms.foldl insert l) : x ∈ l ∨ x ∈ ms := by
  induction ms generalizing l with
  | nil => exact Or.inl h
  | cons m ms ih =>
    rcases ih h with h | h
    · rcases mem_insert h with h | h
      · exact Or.inl h
      · exact Or.inr (by simp [h])
    · exact Or.inr (by simp [h])

theorem subset_insert (l : List Member) (m : Member) : ∀ x ∈ l, x ∈ insert l m := by
  intro x hx
  by_cases hm : key m.1 ∈ keys l
  · rwa [insert_of_mem hm]
  · rw [insert_of_not_mem hm]; simp [hx]

theorem subset_foldl (ms l : List Member) : ∀ x ∈ l, x ∈ ms.foldl insert l := by
  induction ms generalizing l with
  | nil => intro x hx; exact hx
  | cons m ms ih => intro x hx; exact ih _ x (subset_insert l m x hx)

/-- every inserted element is represented by a member with the same key -/
theorem rep_of_mem_keys {l : List Member} {k : CKey} (h : k ∈ keys l) : ∃ x ∈ l, key x.1 = k := by
  simp only [keys, List.mem_map] at h
  exact h

/-- `foldl insert X (insert Y m) = insert (foldl insert X Y) m` -/
theorem foldl_insert_insert (X Y : List Member) (m : Member) :
    (insert Y m).foldl insert X = insert (Y.foldl insert X) m := by
  by_cases hm : key m.1 ∈ keys Y
  · rw [insert_of_mem hm]
    exact (insert_of_mem ((mem_keys_foldl Y X _).mpr (Or.inr hm))).symm
  · rw [insert_of_not_mem hm, List.foldl_append]; rfl

/-- re-inserting an already deduplicated collection is the same as inserting the raw one -/
theorem foldl_insert_foldl (X Y B : List Member) :
    (B.foldl insert Y).foldl insert X = B.foldl insert (Y.foldl insert X) := by
  induction B generalizing Y with
  | nil => rfl
  | cons m B ih =>
    simp only [List.foldl_cons]
    rw [ih (insert Y m), foldl_insert_insert]

theorem union_fromList (A B : List Member) : union (fromList A) (fromList B) = fromList (A ++ B) := by
  simp only [union, fromList, List.foldl_append]
  have := foldl_insert_foldl (A.foldl insert []) [] B
  simpa using this

/-! ## 2. pure readings under "no member raises" -/

/-- the member's `.prereleases` is defined (it raises `InvalidVersion` only for `===<text that is no version>`) -/
def PreOk (m : Member) : Prop := ∃ b, m.1.prereleases m.2 = .ok b
/-- comparing the member's version with `v` is defined -/
def CmpOk (m : Member) (v : Ver) : Prop := ∃ b, m.1.compare v = .ok b

/-- value of `.prereleases` (when defined) -/
def mpre (m : Member) : Bool := match m.1.prereleases m.2 with | .ok b => b | .error _ => false
/-- value of the operator comparison (when defined) -/
def mcmp (m : Member) (v : Ver) : Bool := match m.1.compare v with | .ok b => b | .error _ => false

theorem PreOk.eq {m : Member} (h : PreOk m) : m.1.prereleases m.2 = .ok (mpre m) := by
  obtain ⟨b, hb⟩ := h; simp [mpre, hb]
theorem CmpOk.eq {m : Member} {v : Ver} (h : CmpOk m v) : m.1.compare v = .ok (mcmp m v) := by
  obtain ⟨b, hb⟩ := h; simp [mcmp, hb]

/-- `.prereleases` never raises (since C03-fix-3 the text of `===` need not be a version) -/
theorem preOk (m : Member) : PreOk m := by
  obtain ⟨sp, ov⟩ := m
  unfold PreOk Spec.prereleases
  cases ov with
  | some b => exact ⟨b, rfl⟩
  | none =>
    simp only
    split
    · split
      · exact ⟨_, rfl⟩
      · exact ⟨_, rfl⟩
    · exact ⟨_, rfl⟩

/-- `Specifier.contains` with an explicit setting: the gate, then the operator -/
def accb (m : Member) (b : Bool) (v : Ver) : Bool := !(v.isPre && !b) && mcmp m v

theorem contains_some {m : Member} {v : Ver} (b : Bool) (h : CmpOk m v) :
    m.1.contains m.2 v (some b) = .ok (accb m b v) := by
  simp only [Spec.contains, accb, pure_eq_ok, ok_bind]
  by_cases hg : (v.isPre && !b) = true
  · simp [hg]
  · simp only [hg, Bool.false_eq_true, ↓reduceIte, h.eq]; simp

theorem anyPre_ok {it : List Member} (h : ∀ m ∈ it, PreOk m) : anyPre it = .ok (it.any mpre) := by
  induction it with
  | nil => rfl
  | cons m r ih =>
    have hm := (h m (by simp)).eq
    have hr := ih (fun x hx => h x (by simp [hx]))
    simp only [anyPre, hm, ok_bind, List.any_cons]
    cases mpre m <;> simp [hr]

theorem allContain_ok {it : List Member} {v : Ver} (b : Bool) (h : ∀ m ∈ it, CmpOk m v) :
    allContain v (some b) it = .ok (it.all fun m => accb m b v) := by
  induction it with
  | nil => rfl
  | cons m r ih =>
    have hr := ih (fun x hx => h x (by simp [hx]))
    simp only [allContain, contains_some b (h m (by simp)), ok_bind, List.all_cons]
    cases accb m b v <;> simp [hr]

/-- the effective pre-release setting: call argument, else the override, else (non-empty set) whether some
member enables pre-releases, else nothing -/
def effective (S : SpecSet) (p : Option Bool) : Option Bool :=
  match p with
  | some b => some b
  | none => match S.pre with
    | some b => some b
    | none => if S.specs.isEmpty then none else some (S.specs.any mpre)

theorem prereleases_ok {S : SpecSet} {it : List Member} (hp : it.Perm S.specs) :
    S.prereleases it = .ok (effective S none) := by
  simp only [SpecSet.prereleases, effective]
  cases hS : S.pre with
  | some b => rfl
  | none =>
    by_cases he : S.specs.isEmpty = true
    · simp [he]
    · have : anyPre it = .ok (it.any mpre) := anyPre_ok (fun m _ => preOk m)
      simp [he, this, hp.any_eq]

theorem resolve_ok {S : SpecSet} {it : List Member} (p : Option Bool) (hp : it.Perm S.specs) :
    S.resolve it p = .ok (effective S p) := by
  cases p with
  | some b => rfl
  | none => exact prereleases_ok hp

/-- `SpecifierSet.contains` as a pure function of the member *set* (installed = False) -/
def admits (S : SpecSet) (v : Ver) (p : Option Bool) : Bool :=
  if !(truthy (effective S p)) && v.isPre then false else S.specs.all fun m => mcmp m v

theorem effective_none_empty {S : SpecSet} {p : Option Bool} (h : effective S p = none) : S.specs = [] := by
  unfold effective at h
  cases p with
  | some b => simp at h
  | none =>
    cases hS : S.pre with
    | some b => simp [hS] at h
    | none =>
      simp only [hS] at h
      by_cases he : S.specs.isEmpty = true
      · exact List.isEmpty_iff.mp he
      · simp [he] at h

theorem all_accb_pass {l : List Member} {v : Ver} {b : Bool} (hg : (v.isPre && !b) = false) :
    (l.all fun m => accb m b v) = l.all fun m => mcmp m v := by
  simp [accb, hg]

theorem contains_eq_admits {S : SpecSet} {it : List Member} {v : Ver} (p : Option Bool)
    (hp : it.Perm S.specs) (hc : ∀ m ∈ S.specs, CmpOk m v) :
    S.contains it v p false = .ok (admits S v p) := by
  simp only [SpecSet.contains, resolve_ok p hp, ok_bind, admits, Bool.false_and, Bool.false_eq_true,
    ↓reduceIte, pure_eq_ok]
  by_cases hg : (!(truthy (effective S p)) && v.isPre) = true
  · simp [hg]
  · simp only [hg, Bool.false_eq_true, ↓reduceIte]
    cases he : effective S p with
    | none =>
      have hnil := effective_none_empty he
      have : it = [] := by simpa [hnil] using hp
      simp [this, hnil, allContain]
    | some b =>
      have hg' : (v.isPre && !b) = false := by
        simp only [he, truthy, Option.getD_some] at hg
        cases hv : v.isPre <;> cases b <;> simp_all
      rw [allContain_ok b (fun m hm => hc m (hp.mem_iff.mp hm)), hp.all_eq, all_accb_pass hg']

/-- `contains(installed=True)` on a pre-release candidate whose base version parses to `vb` -/
theorem contains_installed {S : SpecSet} {it : List Member} {v vb : Ver} (p : Option Bool)
    (hp : it.Perm S.specs)
    (hv : v.isPre = true) (hb : version v.base = .ok vb) (hc : ∀ m ∈ S.specs, CmpOk m vb) :
    S.contains it v p true =
      .ok (if truthy (effective S p) then S.specs.all (fun m => mcmp m vb) else false) := by
  simp only [SpecSet.contains, resolve_ok p hp, ok_bind, hv, Bool.and_true, Bool.true_and, ↓reduceIte, hb,
    pure_eq_ok]
  cases he : effective S p with
  | none => simp [truthy]
  | some b =>
    cases b with
    | false => simp [truthy]
    | true =>
      simp only [truthy, Option.getD_some, Bool.not_true, Bool.false_eq_true, ↓reduceIte]
      rw [allContain_ok true (fun m hm => hc m (hp.mem_iff.mp hm)), hp.all_eq]
      congr 1
      apply all_accb_pass; simp

/-! ### `Specifier.filter` -/

theorem filterLoop_some {α} (sp : Spec) (ov : Option Bool) (b : Bool) (items : List (α × Ver)) (y f : List α)
    (h : ∀ x ∈ items, CmpOk (sp, ov) x.2) :
    sp.filterLoop ov (some b) items y f =
      .ok (y ++ (items.filter fun x => accb (sp, ov) b x.2).map (·.1), f) := by
  induction items generalizing y f with
  | nil => simp [Spec.filterLoop]
  | cons x rest ih =>
    obtain ⟨tag, v⟩ := x
    have hv : CmpOk (sp, ov) v := h (tag, v) (by simp)
    have hr := fun y f => ih y f (fun x hx => h x (by simp [hx]))
    have hc : sp.contains ov v (some b) = .ok (accb (sp, ov) b v) := contains_some (m := (sp, ov)) b hv
    simp only [Spec.filterLoop, Option.getD_some, hc, ok_bind, List.filter_cons]
    cases ha : accb (sp, ov) b v with
    | false => simp [hr]
    | true =>
      have hg : (v.isPre && !b) = false := by
        simp only [accb, Bool.and_eq_true, Bool.not_eq_eq_eq_not, Bool.not_true] at ha; exact ha.1
      cases hp : v.isPre with
      | false => simp [hr]
      | true =>
        have hb : b = true := by simpa [hp] using hg
        subst hb
        simp [hr]

theorem filterLoop_none {α} (sp : Spec) (own : Bool) (items : List (α × Ver)) (y f : List α)
    (hown : sp.prereleases none = .ok own) (h : ∀ x ∈ items, CmpOk (sp, none) x.2) :
    sp.filterLoop none none items y f =
      .ok (y ++ (items.filter fun x => mcmp (sp, none) x.2 && !(x.2.isPre && !own)).map (·.1),
           f ++ (items.filter fun x => mcmp (sp, none) x.2 && (x.2.isPre && !own)).map (·.1)) := by
  induction items generalizing y f with
  | nil => simp [Spec.filterLoop]
  | cons x rest ih =>
    obtain ⟨tag, v⟩ := x
    have hv : CmpOk (sp, none) v := h (tag, v) (by simp)
    have hr := fun y f => ih y f (fun x hx => h x (by simp [hx]))
    have hc : sp.contains none v (some true) = .ok (mcmp (sp, none) v) := by
      rw [contains_some (m := (sp, none)) true hv]; simp [accb]
    simp only [Spec.filterLoop, Option.getD_none, hc, ok_bind, List.filter_cons, hown]
    cases hm : mcmp (sp, none) v with
    | false => simp [hr]
    | true =>
      cases hp : v.isPre with
      | false => simp [hr]
      | true => cases own <;> simp [hr]

/-- `Specifier.filter` once the setting is explicit (call argument, else the stored override) -/
theorem spec_filter_some {α} (sp : Spec) (ov pre : Option Bool) (b : Bool) (items : List (α × Ver))
    (hb : (match pre with | some b => some b | none => ov) = some b)
    (h : ∀ x ∈ items, CmpOk (sp, ov) x.2) :
    sp.filter ov pre items = .ok ((items.filter fun x => accb (sp, ov) b x.2).map (·.1)) := by
  cases pre with
  | some c =>
    simp only [Option.some.injEq] at hb; subst hb
    simp [Spec.filter, filterLoop_some sp ov c items [] [] h]
  | none =>
    simp only at hb; subst hb
    simp [Spec.filter, filterLoop_some sp (some b) b items [] [] h]

/-- `Specifier.filter` with no setting at all: the deferred pre-releases come back iff nothing else was yielded -/
theorem spec_filter_none {α} (sp : Spec) (own : Bool) (items : List (α × Ver))
    (hown : sp.prereleases none = .ok own) (h : ∀ x ∈ items, CmpOk (sp, none) x.2) :
    sp.filter none none items =
      .ok (if ((items.filter fun x => mcmp (sp, none) x.2 && !(x.2.isPre && !own)).map (·.1)).isEmpty &&
              !((items.filter fun x => mcmp (sp, none) x.2 && (x.2.isPre && !own)).map (·.1)).isEmpty
           then (items.filter fun x => mcmp (sp, none) x.2 && (x.2.isPre && !own)).map (·.1)
           else (items.filter fun x => mcmp (sp, none) x.2 && !(x.2.isPre && !own)).map (·.1)) := by
  simp only [Spec.filter, filterLoop_none sp own items [] [] hown h, ok_bind, List.nil_append]
  split <;> simp_all

/-! ### the chained member filters of `SpecifierSet.filter` -/

theorem filter_map_pair {α} (items : List (α × Ver)) (P : Ver → Bool) :
    ((items.map fun x => (x, x.2)).filter fun y => P y.2).map (·.1) = items.filter fun x => P x.2 := by
  induction items with
  | nil => rfl
  | cons x r ih =>
    simp only [List.map_cons, List.filter_cons]
    cases P x.2 <;> simp [ih]

theorem filterChain_ok {α} (it : List Member) (b : Bool) (items : List (α × Ver))
    (h : ∀ m ∈ it, ∀ x ∈ items, CmpOk m x.2) :
    filterChain it b items = .ok (items.filter fun x => it.all fun m => accb m b x.2) := by
  induction it generalizing items with
  | nil =>
    simp only [filterChain, List.all_nil, pure_eq_ok]
    exact congrArg _ (List.filter_eq_self.mpr (by simp)).symm
  | cons m r ih =>
    have h1 : ∀ y ∈ items.map (fun x => (x, x.2)), CmpOk (m.1, m.2) y.2 := by
      intro y hy
      simp only [List.mem_map] at hy
      obtain ⟨x, hx, rfl⟩ := hy
      exact h m (by simp) x hx
    have := spec_filter_some m.1 m.2 (some b) b (items.map fun x => (x, x.2)) rfl h1
    simp only [filterChain, this, ok_bind, filter_map_pair items (fun v => accb (m.1, m.2) b v)]
    rw [ih]
    · simp only [List.filter_filter, List.all_cons]
      congr 1
      apply List.filter_congr
      intro x _
      simp [Bool.and_comm]
    · intro m' hm' x hx
      exact h m' (by simp [hm']) x (List.mem_filter.mp hx).1

/-! ### the empty-set branch -/

theorem emptyLoop_fst {α} (p : Option Bool) (items : List (α × Ver)) (fl fo : List α) :
    (emptyLoop p items fl fo).1 = fl ++ (items.filter fun x => !(x.2.isPre && !(truthy p))).map (·.1) := by
  induction items generalizing fl fo with
  | nil => simp [emptyLoop]
  | cons x r ih =>
    obtain ⟨t, v⟩ := x
    simp only [emptyLoop, List.filter_cons]
    cases hd : (v.isPre && !(truthy p)) with
    | false => simp [ih]
    | true =>
      by_cases he : fl.isEmpty = true <;> simp [he, ih]

theorem emptyLoop_snd_all {α} (p : Option Bool) (items : List (α × Ver)) (fo : List α)
    (h : ∀ x ∈ items, (x.2.isPre && !(truthy p)) = true) :
    (emptyLoop p items [] fo).2 = fo ++ items.map (·.1) := by
  induction items generalizing fo with
  | nil => simp [emptyLoop]
  | cons x r ih =>
    obtain ⟨t, v⟩ := x
    have hx := h (t, v) (by simp)
    simp only at hx
    simp only [emptyLoop, hx, ↓reduceIte, List.isEmpty_nil, List.map_cons]
    rw [ih _ (fun y hy => h y (by simp [hy]))]
    simp

/-! ## 3. sorting -/

section sorting
variable {α : Type} (le : α → α → Bool)

theorem insertSorted_perm (x : α) (l : List α) : (insertSorted le x l).Perm (x :: l) := by
  induction l with
  | nil => exact List.Perm.refl _
  | cons y ys ih =>
    simp only [insertSorted]
    split
    · exact List.Perm.refl _
    · exact ((List.Perm.cons y ih).trans (List.Perm.swap x y ys))

theorem sortBy_perm (l : List α) : (sortBy le l).Perm l := by
  induction l with
  | nil => exact List.Perm.refl _
  | cons x xs ih =>
    simp only [sortBy, List.foldr_cons]
    exact (insertSorted_perm le x _).trans (List.Perm.cons x ih)

theorem insertSorted_sorted (htot : ∀ a b, le a b = true ∨ le b a = true)
    (htr : ∀ a b c, le a b = true → le b c = true → le a c = true)
    (x : α) (l : List α) (h : l.Pairwise fun a b => le a b = true) :
    (insertSorted le x l).Pairwise fun a b => le a b = true := by
  induction l with
  | nil => simp [insertSorted]
  | cons y ys ih =>
    simp only [insertSorted]
    have hy := List.pairwise_cons.mp h
    split
    · rename_i hxy
      refine List.pairwise_cons.mpr ⟨?_, h⟩
      intro z hz
      rcases List.mem_cons.mp hz with rfl | hz
      · exact hxy
      · exact htr _ _ _ hxy (hy.1 z hz)
    · rename_i hxy
      have hyx : le y x = true := by
        rcases htot x y with h' | h'
        · exact absurd h' hxy
        · exact h'
      refine List.pairwise_cons.mpr ⟨?_, ih hy.2⟩
      intro z hz
      rcases List.mem_cons.mp ((insertSorted_perm le x ys).mem_iff.mp hz) with rfl | hz
      · exact hyx
      · exact hy.1 z hz

theorem sortBy_sorted (htot : ∀ a b, le a b = true ∨ le b a = true)
    (htr : ∀ a b c, le a b = true → le b c = true → le a c = true) (l : List α) :
    (sortBy le l).Pairwise fun a b => le a b = true := by
  induction l with
  | nil => simp [sortBy]
  | cons x xs ih =>
    simp only [sortBy, List.foldr_cons]
    exact insertSorted_sorted le htot htr x _ ih

/-- `sorted()` of a collection does not depend on the order it is enumerated in -/
theorem sortBy_perm_invariant (htot : ∀ a b, le a b = true ∨ le b a = true)
    (htr : ∀ a b c, le a b = true → le b c = true → le a c = true)
    (hanti : ∀ a b, le a b = true → le b a = true → a = b) {l l' : List α} (hp : l.Perm l') :
    sortBy le l = sortBy le l' := by
  apply List.Perm.eq_of_pairwise (le := fun a b => le a b = true)
  · intro a b _ _ hab hba; exact hanti a b hab hba
  · exact sortBy_sorted le htot htr l
  · exact sortBy_sorted le htot htr l'
  · exact (sortBy_perm le l).trans (hp.trans (sortBy_perm le l').symm)

end sorting

theorem strOrd_eq_lexList : ∀ a b : Str, strOrd a b = Pep440.lexList compare a b
  | [], [] => rfl
  | [], _ :: _ => rfl
  | _ :: _, [] => rfl
  | a :: as, b :: bs => by simp [strOrd, Pep440.lexList, strOrd_eq_lexList as bs]

theorem strOrd_total : O.TotalCmp strOrd := by
  have : strOrd = Pep440.lexList compare := by funext a b; exact strOrd_eq_lexList a b
  rw [this]; exact O.lexList_total O.natCmp

theorem strLe_total (a b : Str) : strLe a b = true ∨ strLe b a = true := by
  simp only [strLe]
  rw [strOrd_total.swap a b]
  cases strOrd a b <;> simp [Ordering.swap]

theorem strLe_antisymm (a b : Str) (h1 : strLe a b = true) (h2 : strLe b a = true) : a = b := by
  simp only [strLe] at h1 h2
  rw [strOrd_total.swap a b] at h2
  apply (strOrd_total.eq_iff a b).mp
  revert h1 h2
  cases strOrd a b <;> simp [Ordering.swap]

theorem strLe_trans (a b c : Str) (h1 : strLe a b = true) (h2 : strLe b c = true) : strLe a c = true := by
  simp only [strLe] at *
  cases hab : strOrd a b with
  | gt => simp [hab] at h1
  | eq => have := (strOrd_total.eq_iff a b).mp hab; subst this; exact h2
  | lt =>
    cases hbc : strOrd b c with
    | gt => simp [hbc] at h2
    | eq => have := (strOrd_total.eq_iff b c).mp hbc; subst this; simp [hab]
    | lt => simp [strOrd_total.trans a b c hab hbc]

theorem sortStr_perm_invariant {l l' : List Str} (hp : l.Perm l') : sortBy strLe l = sortBy strLe l' :=
  sortBy_perm_invariant strLe strLe_total strLe_trans strLe_antisymm hp

/-! ## 4. `split` / `join` -/

theorem splitOn_ne_nil (sep : Nat) (s : Str) : splitOn sep s ≠ [] := by
  cases s with
  | nil => simp [splitOn]
  | cons c cs =>
    simp only [splitOn]
    split
    · simp
    · split <;> simp

theorem splitOn_append (sep : Nat) (a b : Str) :
    splitOn sep (a ++ sep :: b) = splitOn sep a ++ splitOn sep b := by
  induction a with
  | nil => simp [splitOn]
  | cons c cs ih =>
    simp only [List.cons_append, splitOn]
    by_cases hc : (c == sep) = true
    · simp [hc, ih]
    · simp only [hc, Bool.false_eq_true, ↓reduceIte, ih]
      cases h : splitOn sep cs with
      | nil => exact absurd h (splitOn_ne_nil sep cs)
      | cons p ps => simp

theorem splitOn_no_sep (sep : Nat) (s : Str) (h : sep ∉ s) : splitOn sep s = [s] := by
  induction s with
  | nil => rfl
  | cons c cs ih =>
    have hc : (c == sep) = false := by
      simp only [beq_eq_false_iff_ne, ne_eq]; intro e; exact h (by simp [e])
    have := ih (fun hm => h (by simp [hm]))
    simp [splitOn, hc, this]

theorem splitOn_join (sep : Nat) (strs : List Str) (hne : strs ≠ []) (h : ∀ s ∈ strs, sep ∉ s) :
    splitOn sep (join [sep] strs) = strs := by
  induction strs with
  | nil => exact absurd rfl hne
  | cons x xs ih =>
    cases xs with
    | nil => simpa [join] using splitOn_no_sep sep x (h x (by simp))
    | cons y ys =>
      have hx := splitOn_no_sep sep x (h x (by simp))
      have hr := ih (by simp) (fun s hs => h s (by simp [hs]))
      simp only [join, List.append_assoc, List.singleton_append]
      rw [splitOn_append, hx, hr]; rfl

theorem clauses_append (a b : Str) : clauses (a ++ 44 :: b) = clauses a ++ clauses b := by
  simp [clauses, splitOn_append]

theorem parseAll_append (x y : List Str) :
    parseAll (x ++ y) = match parseAll x, parseAll y with
      | some a, some b => some (a ++ b)
      | _, _ => none := by
  induction x with
  | nil => cases h : parseAll y <;> simp [parseAll, h]
  | cons c cs ih =>
    simp only [List.cons_append, parseAll]
    cases hc : parseSpec c with
    | none => simp
    | some sp =>
      simp only [ih]
      cases parseAll cs <;> cases parseAll y <;> simp

/-! ## 5. constructors -/

theorem ofSpecs_ok {ms : List Member} {p : Option Bool} {T : SpecSet} (h : ofSpecs ms p = .ok T) :
    T = ⟨fromList ms, p⟩ ∧ ∀ m ∈ ms, m.1.canonical.isOk = true := by
  unfold ofSpecs at h
  split at h
  · rename_i hall
    refine ⟨by injection h with h; exact h.symm, ?_⟩
    simpa using hall
  · cases h

theorem ofString_ok {s : Str} {p : Option Bool} {T : SpecSet} (h : ofString s p = .ok T) :
    ∃ sps, parseAll (clauses s) = some sps ∧ T = ⟨fromList (sps.map fun sp => (sp, none)), p⟩ ∧
      ∀ sp ∈ sps, sp.canonical.isOk = true := by
  unfold ofString at h
  split at h
  · cases h
  · rename_i sps hs
    obtain ⟨hT, hc⟩ := ofSpecs_ok h
    refine ⟨sps, hs, hT, ?_⟩
    intro sp hsp
    exact hc (sp, none) (List.mem_map.mpr ⟨sp, hsp, rfl⟩)


end SSet
