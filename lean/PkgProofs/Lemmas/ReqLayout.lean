import PkgProofs.Lemmas.ReqClause
/-!
Lemmas for C08: the requirement parser on **any white-space layout** of the PEP 508 grammar — a run of spaces/tabs
at every `wsp*` position, white space after a clause's operator, any spelling of the clauses, parenthesised or bare
clause list, any marker text the stand-alone marker parser accepts.
-/
namespace ReqLayout
open Py Mk Req MkLex MkLexP ReqLex ReqParse ReqClause ReqMk
set_option linter.unusedSimpArgs false

/-! ### white-space runs -/

/-- a run of PEP 508 white space (`wsp*`: spaces and tabs) -/
def WsRun (w : Str) : Prop := ∀ c ∈ w, c = 32 ∨ c = 9
def NoWsHead (k : Str) : Prop := ∀ c, k.head? = some c → c ≠ 9 ∧ c ≠ 32

/-- the previous character after a run: unchanged, or a space / tab -/
def PrevAfter (p p' : Option Nat) : Prop := p' = p ∨ p' = some 32 ∨ p' = some 9

theorem PrevAfter.notWord {p p' : Option Nat} (h : PrevAfter p p') (hp : isWordO p = false) : isWordO p' = false := by
  rcases h with rfl | rfl | rfl
  · exact hp
  · decide
  · decide

theorem PrevAfter.ne61 {p p' : Option Nat} (h : PrevAfter p p') (hp : p ≠ some 61) : p' ≠ some 61 := by
  rcases h with rfl | rfl | rfl
  · exact hp
  · simp
  · simp

theorem wsRun_isWs {w : Str} (h : WsRun w) : ∀ c ∈ w, Mk.isWs c = true := by
  intro c hc
  rw [isWs_iff]
  rcases h c hc with rfl | rfl <;> decide

theorem noWsHead_isWs {k : Str} (h : NoWsHead k) : ∀ c, k.head? = some c → Mk.isWs c = false := by
  intro c hc
  have := h c hc
  cases hw : Mk.isWs c with
  | false => rfl
  | true => rw [isWs_iff] at hw; simp at hw; omega

theorem lastOr_wsRun (w : Str) (hw : WsRun w) (hne : w ≠ []) (p : Option Nat) :
    lastOr w p = some 32 ∨ lastOr w p = some 9 := by
  induction w with
  | nil => exact absurd rfl hne
  | cons c t ih =>
    cases t with
    | nil => rcases hw c (by simp) with rfl | rfl <;> simp [lastOr]
    | cons d t' =>
      rw [lastOr_cons_cons]
      exact ih (fun x hx => hw x (by simp [hx])) (by simp)

/-- `consume("WS")` on a run of white space followed by something else -/
theorem ws_run (w k : Str) (hw : WsRun w) (hk : NoWsHead k) (p : Option Nat) :
    ∃ p', ws ⟨p, w ++ k⟩ = ⟨p', k⟩ ∧ PrevAfter p p' := by
  cases w with
  | nil => exact ⟨p, ws_noop _ (fun c hc => hk c (by simpa using hc)), Or.inl rfl⟩
  | cons c t =>
    have htw : (c :: t ++ k).takeWhile Mk.isWs = c :: t :=
      takeWhile_all_append (c :: t) k (wsRun_isWs hw) (noWsHead_isWs hk)
    have hm : matchWs (c :: t ++ k) = some (c :: t).length := by
      simp only [matchWs, htw]; simp
    refine ⟨lastOr (c :: t) p, ?_, Or.inr (lastOr_wsRun (c :: t) hw (by simp) p)⟩
    simp only [ws, consume, charTS, St.check, matchRule, hm]
    simp

/-- `check("WS")` on a non-empty run -/
theorem check_ws_run (w k : Str) (hw : WsRun w) (hne : w ≠ []) (hk : NoWsHead k) (p : Option Nat) :
    ∃ p', St.check .ws ⟨p, w ++ k⟩ = some (w, ⟨p', k⟩) ∧ (p' = some 32 ∨ p' = some 9) := by
  have htw : (w ++ k).takeWhile Mk.isWs = w := takeWhile_all_append w k (wsRun_isWs hw) (noWsHead_isWs hk)
  have hl : w.length ≠ 0 := by cases w with | nil => exact absurd rfl hne | cons _ _ => simp
  have hm : matchWs (w ++ k) = some w.length := by simp [matchWs, htw, hl]
  refine ⟨lastOr w p, ?_, lastOr_wsRun w hw hne p⟩
  simp [St.check, matchRule, hm]

/-! ### extras, any layout -/

/-- `wa , wb e` repeated: white space before and after every comma -/
def exTail : List (Str × Str × Str) → Str
  | [] => []
  | (wa, wb, e) :: r => wa ++ 44 :: (wb ++ (e ++ exTail r))

def ExItemsOK (items : List (Str × Str × Str)) : Prop :=
  ∀ it ∈ items, WsRun it.1 ∧ WsRun it.2.1 ∧ IdentOK it.2.2

theorem identOK_noWsHead {e : Str} (h : IdentOK e) (k : Str) : NoWsHead (e ++ k) := by
  obtain ⟨c, t, rfl, hc⟩ := identOK_head h
  intro d hd; simp at hd; subst hd
  have := head_not_ws hc; omega

/-- what follows an extra: white space, `,` or `]` -/
theorem stopK_after_extra (items : List (Str × Str × Str)) (hi : ExItemsOK items) (wl : Str) (hwl : WsRun wl) (k : Str) :
    StopK (exTail items ++ (wl ++ 93 :: k)) := by
  intro d hd
  have key : d = 32 ∨ d = 9 ∨ d = 44 ∨ d = 93 := by
    cases items with
    | nil =>
      cases wl with
      | nil => simp [exTail] at hd; exact Or.inr (Or.inr (Or.inr hd.symm))
      | cons c t =>
        simp [exTail] at hd; subst hd
        rcases hwl c (by simp) with h | h
        · exact Or.inl h
        · exact Or.inr (Or.inl h)
    | cons it r =>
      obtain ⟨wa, wb, e⟩ := it
      have hwa := (hi (wa, wb, e) (by simp)).1
      cases wa with
      | nil => simp [exTail] at hd; exact Or.inr (Or.inr (Or.inl hd.symm))
      | cons c t =>
        simp [exTail] at hd; subst hd
        rcases hwa c (by simp) with h | h
        · exact Or.inl h
        · exact Or.inr (Or.inl h)
  rcases key with rfl | rfl | rfl | rfl <;> exact ⟨by decide, by decide⟩

theorem extrasLoop_layout : (items : List (Str × Str × Str)) → ExItemsOK items → (wl : Str) → WsRun wl →
    (fuel : Nat) → items.length < fuel → (acc : List Str) → (p : Option Nat) → (k : Str) →
    ∃ p', extrasLoop fuel acc ⟨p, exTail items ++ (wl ++ 93 :: k)⟩ = .ok (acc ++ items.map (·.2.2), ⟨p', 93 :: k⟩)
  | [], _, wl, hwl, fuel, hf, acc, p, k => by
    cases fuel with
    | zero => simp at hf
    | succ f =>
      obtain ⟨p1, h1, _⟩ := ws_run wl (93 :: k) hwl (by intro c hc; simp at hc; omega) p
      refine ⟨p1, ?_⟩
      have h2 : peekR .identifier ⟨p1, 93 :: k⟩ = false :=
        peek_ident_false _ (by intro d hd; simp at hd; subst hd; decide)
      have h3 : checkR .comma ⟨p1, 93 :: k⟩ = none := checkR_single_miss .comma 44 rfl _ (by simp)
      simp only [extrasLoop, exTail, List.nil_append, h1, h2, h3]
      simp
  | (wa, wb, e) :: r, hi, wl, hwl, fuel, hf, acc, p, k => by
    cases fuel with
    | zero => simp at hf
    | succ f =>
      obtain ⟨hwa, hwb, he⟩ := hi (wa, wb, e) (by simp)
      have hr : ExItemsOK r := fun it hit => hi it (by simp [hit])
      let K := exTail r ++ (wl ++ 93 :: k)
      obtain ⟨p1, h1, _⟩ := ws_run wa (44 :: (wb ++ (e ++ K))) hwa (by intro c hc; simp at hc; omega) p
      have h2 : peekR .identifier ⟨p1, 44 :: (wb ++ (e ++ K))⟩ = false :=
        peek_ident_false _ (by intro d hd; simp at hd; subst hd; decide)
      have h3 := checkR_single_hit .comma 44 rfl p1 (wb ++ (e ++ K))
      obtain ⟨p2, h4, hp2⟩ := ws_run wb (e ++ K) hwb (identOK_noWsHead he K) (some 44)
      have h5 := checkR_ident e he p2 (hp2.notWord (by decide)) K (stopK_after_extra r hr wl hwl k)
      obtain ⟨p', ih⟩ := extrasLoop_layout r hr wl hwl f (by simp at hf; omega) (acc ++ [e]) (lastOr e none) k
      refine ⟨p', ?_⟩
      have e1 : exTail ((wa, wb, e) :: r) ++ (wl ++ 93 :: k) = wa ++ (44 :: (wb ++ (e ++ K))) := by
        simp [exTail, K]
      rw [e1]
      simp only [extrasLoop, h1, h2, h3, h4, h5, Bool.false_eq_true, if_false]
      rw [ih]; simp

/-- the bracketed part: `[ w ]` or `[ w e1 (wa , wb e)* wl ]` -/
def extL (w2 : Str) : Option (Str × List (Str × Str × Str) × Str) → Str
  | none => 91 :: (w2 ++ [93])
  | some (e1, items, wl) => 91 :: (w2 ++ (e1 ++ (exTail items ++ (wl ++ [93]))))

def extNames : Option (Str × List (Str × Str × Str) × Str) → List Str
  | none => []
  | some (e1, items, _) => e1 :: items.map (·.2.2)

def ExtOK : Option (Str × List (Str × Str × Str) × Str) → Prop
  | none => True
  | some (e1, items, wl) => IdentOK e1 ∧ ExItemsOK items ∧ WsRun wl

theorem parseExtras_layout (w2 : Str) (hw2 : WsRun w2) (x : Option (Str × List (Str × Str × Str) × Str)) (hx : ExtOK x)
    (fuel : Nat) (hf : (extNames x).length ≤ fuel) (hf0 : 0 < fuel) (p : Option Nat) (k : Str) :
    parseExtras fuel ⟨p, extL w2 x ++ k⟩ = .ok (extNames x, ⟨some 93, k⟩) := by
  cases x with
  | none =>
    have h0 := checkR_single_hit .lbracket 91 rfl p (w2 ++ 93 :: k)
    obtain ⟨p1, h1, _⟩ := ws_run w2 (93 :: k) hw2 (by intro c hc; simp at hc; omega) (some 91)
    have h2 : checkR .identifier ⟨p1, 93 :: k⟩ = none :=
      checkR_ident_none _ (by intro d hd; simp at hd; subst hd; decide)
    have h3 : ws ⟨p1, 93 :: k⟩ = ⟨p1, 93 :: k⟩ := ws_noop _ (by intro c hc; simp at hc; omega)
    have h4 := checkR_single_hit .rbracket 93 rfl p1 k
    have e1 : extL w2 none ++ k = 91 :: (w2 ++ 93 :: k) := by simp [extL]
    rw [e1]
    simp only [parseExtras, h0, h1, parseExtrasList, h2, bind, Except.bind, h3, h4, pure, Except.pure, extNames]
  | some v =>
    obtain ⟨e1, items, wl⟩ := v
    obtain ⟨he1, hi, hwl⟩ := hx
    let K := exTail items ++ (wl ++ 93 :: k)
    have h0 := checkR_single_hit .lbracket 91 rfl p (w2 ++ (e1 ++ K))
    obtain ⟨p1, h1, hp1⟩ := ws_run w2 (e1 ++ K) hw2 (identOK_noWsHead he1 K) (some 91)
    have h2 := checkR_ident e1 he1 p1 (hp1.notWord (by decide)) K (stopK_after_extra items hi wl hwl k)
    obtain ⟨p', h3⟩ := extrasLoop_layout items hi wl hwl fuel (by simp [extNames] at hf; omega) [e1] (lastOr e1 none) k
    have h4 : ws ⟨p', 93 :: k⟩ = ⟨p', 93 :: k⟩ := ws_noop _ (by intro c hc; simp at hc; omega)
    have h5 := checkR_single_hit .rbracket 93 rfl p' k
    have e2 : extL w2 (some (e1, items, wl)) ++ k = 91 :: (w2 ++ (e1 ++ K)) := by simp [extL, K]
    rw [e2]
    have h3' : extrasLoop fuel [e1] ⟨lastOr e1 none, K⟩ =
        .ok ([e1] ++ items.map (·.2.2), ⟨p', 93 :: k⟩) := h3
    simp only [parseExtras, h0, h1, parseExtrasList, h2, bind, Except.bind, h3', h4, h5, pure, Except.pure, extNames]
    simp

/-! ### clauses, any layout -/

/-- a clause as written: operator, white space, version text -/
structure Cl where
  op : S.Op
  w : Str
  ver : Str

def Cl.text (c : Cl) : Str := c.op.str ++ (c.w ++ c.ver)

/-- the clause is one `Specifier` accepts (with the white space after the operator), reading it as `(op, ver)` -/
def ClOK (c : Cl) : Prop :=
  WsRun c.w ∧ S.parseSpec c.text = some ⟨c.op, c.ver⟩ ∧ 44 ∉ c.ver ∧ (c.op = .arbitrary → c.ver ≠ [])

theorem wsRun_vws {w : Str} (h : WsRun w) : ∀ c ∈ w, V.isWs c = true := by
  intro c hc; rcases h c hc with rfl | rfl <;> decide

theorem dropWhile_all_prefix {p : Nat → Bool} : (w s : Str) → (∀ c ∈ w, p c = true) → (w ++ s).dropWhile p = s.dropWhile p
  | [], _, _ => rfl
  | c :: w, s, h => by
    simp only [List.cons_append, List.dropWhile, h c (by simp)]
    exact dropWhile_all_prefix w s (fun d hd => h d (by simp [hd]))

theorem verForm_ws (m : Nat) (wl l : Bool) (w s : Str) (hw : WsRun w) : verForm m wl l (w ++ s) = verForm m wl l s := by
  simp only [verForm, relScan, dropWhile_all_prefix w s (wsRun_vws hw)]

/-- what may follow a clause: nothing, white space, `,` `;` `)` -/
theorem inert_of_head {k : Str} (h : ∀ c, k.head? = some c → c = 32 ∨ c = 9 ∨ c = 44 ∨ c = 59 ∨ c = 41) : Inert k := by
  intro c hc
  rcases h c hc with rfl | rfl | rfl | rfl | rfl <;> decide

theorem ver_facts (c : Cl) (h : ClOK c) : ∀ x ∈ c.ver, S.isArbChar x = true :=
  ver_chars_of_parse c.text ⟨c.op, c.ver⟩ h.2.1

/-- **SPECIFIER on a clause in any spelling** (white space after the operator, any spelling of the version), in
front of white space, `,`, `;`, `)` or the end; after an `===` clause a `,` must not follow directly (F05) -/
theorem check_clause (c : Cl) (hc : ClOK c) (p : Option Nat) (hp : p ≠ some 61) (k : Str)
    (hk : ∀ d, k.head? = some d → d = 32 ∨ d = 9 ∨ d = 44 ∨ d = 59 ∨ d = 41)
    (harb : c.op = .arbitrary → ∀ d, k.head? = some d → d ≠ 44) :
    ∃ p', checkR .specifier ⟨p, c.text ++ k⟩ = some (c.text, ⟨p', k⟩) := by
  obtain ⟨hw, hps, h44, hne⟩ := hc
  have hin := inert_of_head hk
  refine ⟨lastOr c.text p, ?_⟩
  have hlen : matchSpecifier p (c.text ++ k) = some c.text.length := by
    by_cases ha : c.op = .arbitrary
    · -- `=== w ver`: white space, then the run of non-white-space characters
      have hch := ver_facts c ⟨hw, hps, h44, hne⟩
      have hkna : ∀ d, k.head? = some d → S.isArbChar d = false := by
        intro d hd
        have h1 := hk d hd
        have h2 := harb ha d hd
        rcases h1 with rfl | rfl | rfl | rfl | rfl
        · decide
        · decide
        · exact absurd rfl h2
        · decide
        · decide
      have hdw : ((c.w ++ c.ver ++ k).dropWhile V.isWs).dropWhile S.isArbChar = k := by
        rw [List.append_assoc, dropWhile_all_prefix c.w _ (wsRun_vws hw)]
        obtain ⟨v0, vt, hv⟩ : ∃ v0 vt, c.ver = v0 :: vt := by
          cases hcv : c.ver with
          | nil => exact absurd hcv (hne ha)
          | cons a b => exact ⟨a, b, rfl⟩
        have hv0 : V.isWs v0 = false := by
          have := hch v0 (by rw [hv]; simp)
          simp only [S.isArbChar, Bool.and_eq_true, Bool.not_eq_true'] at this
          exact this.1.1
        have e1 : (c.ver ++ k).dropWhile V.isWs = c.ver ++ k := by rw [hv]; simp [List.dropWhile, hv0]
        rw [e1]
        exact dropWhile_all_append c.ver k hch hkna
      have hgen : ∀ (after k' : Str), (after.dropWhile V.isWs).dropWhile S.isArbChar = k' → k'.length ≤ after.length →
          matchSpecifier p (61 :: 61 :: 61 :: after) = some (3 + after.length - k'.length) := by
        intro after k' hd hl
        cases p with
        | none =>
          simp [matchSpecifier, specOps_eq, specForms_eq, startsWith, guardHolds, endsWith, formRest, verForm_eq_none, hd]
          omega
        | some y =>
          have hy : (y == 61) = false := by
            have : y ≠ 61 := fun e => hp (by rw [e])
            simpa using this
          simp [matchSpecifier, specOps_eq, specForms_eq, startsWith, guardHolds, endsWith, formRest, verForm_eq_none, hd, hy]
          omega
      have := hgen (c.w ++ c.ver ++ k) k hdw (by simp only [List.length_append]; omega)
      simp only [Cl.text, ha, ReqRound.opStr_arb, List.cons_append, List.nil_append, List.append_assoc] at this ⊢
      rw [this]
      simp only [List.length_cons, List.length_append, Option.some.injEq]
      omega
    · obtain ⟨hvh, hvf⟩ := verForm_clause c.text ⟨c.op, c.ver⟩ hps ha
      simp only at hvh hvf
      have hbody : verForm (formOf c.op).1 (formOf c.op).2.1 (formOf c.op).2.2 (c.w ++ (c.ver ++ k)) = some k := by
        rw [verForm_ws _ _ _ c.w _ hw, verForm_app _ _ _ c.ver k hvh hin, hvf]; rfl
      have hb : ∀ x, (c.w ++ (c.ver ++ k)).head? = some x → x ≠ 61 := by
        intro x hx
        cases hcw : c.w with
        | nil =>
          obtain ⟨c0, t0, hc0, hd0⟩ := hvh
          rw [hcw, hc0] at hx; simp at hx; subst hx
          exact (SSet.head_not_eq_not_ws hd0).1
        | cons a b =>
          rw [hcw] at hx; simp at hx; subst hx
          rcases hw a (by rw [hcw]; simp) with rfl | rfl <;> decide
      have := matchSpecifier_op c.op ha p hp (c.w ++ (c.ver ++ k)) hb k hbody
      simp only [Cl.text, List.append_assoc]
      rw [this]
      simp only [List.length_append, Option.some.injEq]
      omega
  simp only [checkR, matchR, hlen]
  simp

/-- `wa , wb clause` repeated -/
def clTail : List (Str × Str × Cl) → Str
  | [] => []
  | (wa, wb, c) :: r => wa ++ 44 :: (wb ++ (c.text ++ clTail r))

/-- the text `_parse_version_many` accumulates for them: tokens and commas, white space dropped -/
def rawTail : List (Str × Str × Cl) → Str
  | [] => []
  | (_, _, c) :: r => 44 :: (c.text ++ rawTail r)

/-- white-space runs, acceptable clauses, and white space between an `===` clause and the comma after it -/
def ClItemsOK (c0 : Cl) : List (Str × Str × Cl) → Prop
  | [] => True
  | (wa, wb, c) :: r => WsRun wa ∧ WsRun wb ∧ ClOK c ∧ (c0.op = .arbitrary → wa ≠ []) ∧ ClItemsOK c r

/-- after the clause list: the end, `;` or `)` -/
def EndK' (K : Str) : Prop := ∀ d, K.head? = some d → d = 59 ∨ d = 41

theorem opStr_head (o : S.Op) : ∃ d t, o.str = d :: t ∧ OpChar d := by
  cases o <;> exact ⟨_, _, rfl, by unfold OpChar; decide⟩

theorem clText_noWsHead (c : Cl) (k : Str) : NoWsHead (c.text ++ k) := by
  obtain ⟨d, t, hd, ho⟩ := opStr_head c.op
  intro x hx
  simp only [Cl.text, hd, List.cons_append, List.head?_cons, Option.some.injEq] at hx
  subst hx; unfold OpChar at ho; omega

theorem after_clause_head (c0 : Cl) (items : List (Str × Str × Cl)) (hi : ClItemsOK c0 items) (wl : Str) (hwl : WsRun wl)
    (K : Str) (hK : EndK' K) :
    (∀ d, (clTail items ++ (wl ++ K)).head? = some d → d = 32 ∨ d = 9 ∨ d = 44 ∨ d = 59 ∨ d = 41) ∧
    (c0.op = .arbitrary → ∀ d, (clTail items ++ (wl ++ K)).head? = some d → d ≠ 44) := by
  cases items with
  | nil =>
    have key : ∀ d, (wl ++ K).head? = some d → d = 32 ∨ d = 9 ∨ d = 59 ∨ d = 41 := by
      intro d hd
      cases wl with
      | nil => rcases hK d (by simpa using hd) with h | h <;> simp [h]
      | cons a b => simp at hd; subst hd; rcases hwl a (by simp) with h | h <;> simp [h]
    constructor
    · intro d hd; rcases key d (by simpa [clTail] using hd) with h | h | h | h <;> simp [h]
    · intro _ d hd; rcases key d (by simpa [clTail] using hd) with h | h | h | h <;> omega
  | cons it r =>
    obtain ⟨wa, wb, c⟩ := it
    obtain ⟨hwa, _, _, harb, _⟩ := hi
    cases wa with
    | nil =>
      constructor
      · intro d hd; simp [clTail] at hd; simp [hd]
      · intro ha; exact absurd rfl (harb ha)
    | cons a b =>
      constructor
      · intro d hd; simp [clTail] at hd; subst hd; rcases hwa a (by simp) with h | h <;> simp [h]
      · intro _ d hd; simp [clTail] at hd; subst hd; rcases hwa a (by simp) with h | h <;> omega

/-- **`_parse_version_many` on a clause list in any layout** -/
theorem versionMany_layout : (items : List (Str × Str × Cl)) → (c : Cl) → ClOK c → ClItemsOK c items → (wl : Str) → WsRun wl →
    (fuel : Nat) → items.length < fuel → (acc : Str) → (p : Option Nat) → p ≠ some 61 → (K : Str) → EndK' K →
    ∃ p', versionMany fuel acc ⟨p, c.text ++ (clTail items ++ (wl ++ K))⟩ = .ok (acc ++ (c.text ++ rawTail items), ⟨p', K⟩)
  | items, c, hc, hi, wl, hwl, fuel, hf, acc, p, hp, K, hK => by
    cases fuel with
    | zero => simp at hf
    | succ f =>
      obtain ⟨hh1, hh2⟩ := after_clause_head c items hi wl hwl K hK
      obtain ⟨p0, h0⟩ := check_clause c hc p hp (clTail items ++ (wl ++ K)) hh1 hh2
      have q1 : peekR .prefixTrail ⟨p0, clTail items ++ (wl ++ K)⟩ = false :=
        peek_prefixTrail_false _ (by intro e; rcases hh1 46 e with h | h | h | h | h <;> omega)
      have q2 : peekR .localTrail ⟨p0, clTail items ++ (wl ++ K)⟩ = false :=
        peek_localTrail_false _ (by intro e; rcases hh1 43 e with h | h | h | h | h <;> omega)
      have hKws : NoWsHead K := by intro d hd; rcases hK d hd with h | h <;> omega
      cases items with
      | nil =>
        obtain ⟨p1, h1, _⟩ := ws_run wl K hwl hKws p0
        have h2 : checkR .comma ⟨p1, K⟩ = none :=
          checkR_single_miss .comma 44 rfl _ (by intro e; rcases hK 44 e with h | h <;> omega)
        refine ⟨p1, ?_⟩
        simp only [clTail, rawTail, List.nil_append, List.append_nil] at h0 q1 q2 ⊢
        simp only [versionMany, h0, q1, q2, h1, h2, Bool.false_eq_true, if_false]
      | cons it r =>
        obtain ⟨wa, wb, c'⟩ := it
        obtain ⟨hwa, hwb, hc', _, hr⟩ := hi
        let R := c'.text ++ (clTail r ++ (wl ++ K))
        have e1 : clTail ((wa, wb, c') :: r) ++ (wl ++ K) = wa ++ (44 :: (wb ++ R)) := by simp [clTail, R]
        rw [e1] at h0 q1 q2
        obtain ⟨p1, h1, _⟩ := ws_run wa (44 :: (wb ++ R)) hwa (by intro d hd; simp at hd; omega) p0
        have h2 := checkR_single_hit .comma 44 rfl p1 (wb ++ R)
        obtain ⟨p2, h3, hp2⟩ := ws_run wb R hwb (clText_noWsHead c' _) (some 44)
        obtain ⟨p', ih⟩ := versionMany_layout r c' hc' hr wl hwl f (by simp at hf; omega) (acc ++ c.text ++ [44]) p2
          (hp2.ne61 (by simp)) K hK
        refine ⟨p', ?_⟩
        rw [e1]
        simp only [versionMany, h0, q1, q2, h1, h2, h3, Bool.false_eq_true, if_false]
        rw [ih]
        simp [rawTail]
  termination_by items => items.length

/-! ### the specifier part -/

/-- nothing, or first clause, the further ones, and the white space after the last -/
abbrev CList := Option (Cl × List (Str × Str × Cl) × Str)

def clText : CList → Str
  | none => []
  | some (c, items, wl) => c.text ++ (clTail items ++ wl)

def clRaw : CList → Str
  | none => []
  | some (c, items, _) => c.text ++ rawTail items

def CListOK : CList → Prop
  | none => True
  | some (c, items, wl) => ClOK c ∧ ClItemsOK c items ∧ WsRun wl

def clLen : CList → Nat
  | none => 0
  | some (_, items, _) => items.length + 1

theorem endK'_noWs {K : Str} (h : EndK' K) : NoWsHead K := by intro d hd; rcases h d hd with h | h <;> omega

/-- the clause list in front of the end, `;` or `)` -/
theorem versionMany_clist (l : CList) (hl : CListOK l) (fuel : Nat) (hf : clLen l < fuel) (p : Option Nat) (hp : p ≠ some 61)
    (K : Str) (hK : EndK' K) :
    ∃ p', versionMany fuel [] ⟨p, clText l ++ K⟩ = .ok (clRaw l, ⟨p', K⟩) := by
  cases l with
  | none =>
    cases fuel with
    | zero => simp [clLen] at hf
    | succ f =>
      refine ⟨p, ?_⟩
      have h3 : checkR .specifier ⟨p, K⟩ = none := by
        simp [checkR, matchR, matchSpecifier_none p K (by intro d hd; rcases hK d hd with h | h <;> omega)]
      simp [clText, clRaw, versionMany, h3]
  | some v =>
    obtain ⟨c, items, wl⟩ := v
    obtain ⟨hc, hi, hwl⟩ := hl
    obtain ⟨p', h⟩ := versionMany_layout items c hc hi wl hwl fuel (by simp [clLen] at hf; omega) [] p hp K hK
    refine ⟨p', ?_⟩
    simpa [clText, clRaw] using h

theorem clText_head (l : CList) (K : Str) (hK : EndK' K) :
    ∀ d, (clText l ++ K).head? = some d → OpChar d ∨ d = 59 ∨ d = 41 := by
  intro d hd
  cases l with
  | none => rcases hK d (by simpa [clText] using hd) with h | h <;> simp [h]
  | some v =>
    obtain ⟨c, items, wl⟩ := v
    obtain ⟨x, t, hx, ho⟩ := opStr_head c.op
    simp [clText, Cl.text, hx] at hd; subst hd; exact Or.inl ho

/-- `_parse_specifier` on a bare clause list -/
theorem parseSpecifier_bare (l : CList) (hl : CListOK l) (fuel : Nat) (hf : clLen l < fuel) (p : Option Nat) (hp : p ≠ some 61)
    (K : Str) (hK : EndK' K) :
    ∃ p', parseSpecifier fuel ⟨p, clText l ++ K⟩ = .ok (clRaw l, ⟨p', K⟩) := by
  have hh := clText_head l K hK
  have h1 : St.check .lparen ⟨p, clText l ++ K⟩ = none :=
    check_lparen_none _ (by intro e; rcases hh 40 e with h | h | h <;> (try unfold OpChar at h) <;> omega)
  have h2 : ws ⟨p, clText l ++ K⟩ = ⟨p, clText l ++ K⟩ :=
    ws_noop _ (by intro d hd; rcases hh d hd with h | h | h <;> (try unfold OpChar at h) <;> omega)
  obtain ⟨p', h3⟩ := versionMany_clist l hl fuel hf p hp K hK
  have h4 : ws ⟨p', K⟩ = ⟨p', K⟩ := ws_noop _ (endK'_noWs hK)
  exact ⟨p', by simp only [parseSpecifier, h1, h2, h3, bind, Except.bind, h4, pure, Except.pure]⟩

/-- `_parse_specifier` on `( w list )` -/
theorem parseSpecifier_paren (w : Str) (hw : WsRun w) (l : CList) (hl : CListOK l) (fuel : Nat) (hf : clLen l < fuel)
    (p : Option Nat) (k : Str) :
    parseSpecifier fuel ⟨p, 40 :: (w ++ (clText l ++ 41 :: k))⟩ = .ok (clRaw l, ⟨some 41, k⟩) := by
  have hK : EndK' (41 :: k) := by intro d hd; simp at hd; exact Or.inr hd.symm
  have h1 : St.check .lparen ⟨p, 40 :: (w ++ (clText l ++ 41 :: k))⟩ = some ([40], ⟨some 40, w ++ (clText l ++ 41 :: k)⟩) := by
    simp [St.check, match_lparen, lastOr]
  obtain ⟨p1, h2, hp1⟩ := ws_run w (clText l ++ 41 :: k) hw
    (by intro d hd; rcases clText_head l _ hK d hd with h | h | h <;> (try unfold OpChar at h) <;> omega) (some 40)
  obtain ⟨p2, h3⟩ := versionMany_clist l hl fuel hf p1 (hp1.ne61 (by simp)) (41 :: k) hK
  have h4 : ws ⟨p2, 41 :: k⟩ = ⟨p2, 41 :: k⟩ := ws_noop _ (by intro d hd; simp at hd; omega)
  have h5 : St.check .rparen ⟨p2, 41 :: k⟩ = some ([41], ⟨some 41, k⟩) := by
    simp [St.check, match_rparen, lastOr]
  simp only [parseSpecifier, h1, h2, h3, bind, Except.bind, h4, h5, pure, Except.pure]

/-! ### the marker part: any text the stand-alone marker parser accepts -/

/-- **`; text` inside a requirement parses to what `Marker(text)`'s parser returns** (before normalisation), and the
text is then exhausted -/
theorem parseReqMarker_text (mtext : Str) (m0 : List M) (h : Mk.parse mtext = .ok m0) (fuel : Nat)
    (hf : 2 * mtext.length + 3 ≤ fuel) (p : Option Nat) :
    ∃ se, parseReqMarker fuel ⟨p, 59 :: mtext⟩ = .ok (m0, se) ∧ peekEnd se = true := by
  unfold Mk.parse parseFull at h
  simp only [bind, Except.bind] at h
  cases hm : parseMarker charTS (fuelFor mtext.length) ⟨none, mtext⟩ with
  | error e => simp [hm] at h
  | ok v =>
    obtain ⟨l, se⟩ := v
    simp only [hm] at h
    cases he : charTS.check .end_ se with
    | none => simp [he] at h
    | some u =>
      simp only [he, pure, Except.pure, Except.ok.injEq] at h
      subst h
      have h1 := ((fuel_enough _).1 _ l se hm).2 fuel hf
      have hsim : Sim ⟨some 59, mtext⟩ ⟨none, mtext⟩ := ⟨rfl, (by decide : isWordO (some 59) = isWordO none)⟩
      rw [← parseMarker_sim fuel _ _ hsim] at h1
      have hn := parseMarker_noWs _ _ l se hm
      have h0 := checkR_single_hit .semicolon 59 rfl p mtext
      refine ⟨se, ?_, ?_⟩
      · simp only [parseReqMarker, h0, h1, noWs_ws se hn]
      · simp only [peekEnd]
        rw [check_charTS] at he
        simp [he]

/-! ### the details -/

/-- what follows the URL -/
inductive UrlTail
  | none                              -- the end
  | ws (w : Str)                      -- trailing white space
  | marker (w : Str) (mtext : Str)    -- white space, `;`, marker text

def UrlTail.text : UrlTail → Str
  | .none => []
  | .ws w => w
  | .marker w mtext => w ++ 59 :: mtext

/-- the specifier part as written -/
inductive SpecL
  | bare (l : CList)
  | paren (w : Str) (l : CList) (w3 : Str)

def SpecL.text : SpecL → Str
  | .bare l => clText l
  | .paren w l w3 => 40 :: (w ++ (clText l ++ 41 :: w3))

def SpecL.raw : SpecL → Str
  | .bare l => clRaw l
  | .paren _ l _ => clRaw l

def SpecL.list : SpecL → CList
  | .bare l => l
  | .paren _ l _ => l

def SpecLOK : SpecL → Prop
  | .bare l => CListOK l
  | .paren w l w3 => WsRun w ∧ CListOK l ∧ WsRun w3

inductive DetailsL
  | url (w : Str) (u : Str) (t : UrlTail)
  | spec (s : SpecL) (m : Option Str)

def markText : Option Str → Str
  | none => []
  | some mtext => 59 :: mtext

def DetailsL.text : DetailsL → Str
  | .url w u t => 64 :: (w ++ (u ++ t.text))
  | .spec s m => s.text ++ markText m

def DetailsL.url? : DetailsL → Str
  | .url _ u _ => u
  | .spec _ _ => []

def DetailsL.raw : DetailsL → Str
  | .url _ _ _ => []
  | .spec s _ => s.raw

def DetailsL.mtext : DetailsL → Option Str
  | .url _ _ (.marker _ mtext) => some mtext
  | .url _ _ _ => none
  | .spec _ m => m

def DetailsLOK : DetailsL → Prop
  | .url w u t => WsRun w ∧ UrlOK u ∧
      (match t with
       | .none => True
       | .ws w' => WsRun w' ∧ w' ≠ []
       | .marker w' _ => WsRun w' ∧ w' ≠ [])
  | .spec s _ => SpecLOK s

def DetailsL.clen : DetailsL → Nat
  | .url _ _ _ => 0
  | .spec s _ => clLen s.list

theorem wsRun_head (w : Str) (hw : WsRun w) (hne : w ≠ []) : ∃ c t, w = c :: t ∧ (c = 32 ∨ c = 9) := by
  cases w with
  | nil => exact absurd rfl hne
  | cons c t => exact ⟨c, t, rfl, hw c (by simp)⟩

/-- **`_parse_requirement_details` on any layout** -/
theorem parseDetails_layout (d : DetailsL) (hd : DetailsLOK d) (m : Option (List M))
    (hm : ∀ mtext, d.mtext = some mtext → ∃ m0, Mk.parse mtext = .ok m0 ∧ m = some m0) (hmn : d.mtext = none → m = none)
    (fuel : Nat) (hf1 : d.clen < fuel) (hf2 : ∀ mtext, d.mtext = some mtext → 2 * mtext.length + 3 ≤ fuel)
    (p : Option Nat) (hp : p ≠ some 61) :
    ∃ se, parseDetails fuel ⟨p, d.text⟩ = .ok (d.url?, d.raw, m, se) ∧ peekEnd se = true := by
  cases d with
  | url w u t =>
    obtain ⟨hw, hu, ht⟩ := hd
    obtain ⟨hune, huch⟩ := hu
    have hunw : ∀ k, NoWsHead (u ++ k) := by
      intro k d hd
      cases u with
      | nil => exact absurd rfl hune
      | cons c t' => simp at hd; subst hd; have := (isUrlChar_iff c).mp (huch c (by simp)); omega
    have h0 := checkR_single_hit .at_ 64 rfl p (w ++ (u ++ t.text))
    obtain ⟨p1, h1, _⟩ := ws_run w (u ++ t.text) hw (hunw _) (some 64)
    cases t with
    | none =>
      have h2 := checkR_url u hune huch p1 [] (by intro d hd; simp at hd)
      have hmnone := hmn rfl
      subst hmnone
      refine ⟨⟨lastOr u none, []⟩, ?_, peekEnd_nil _⟩
      simp only [DetailsL.text, UrlTail.text, List.append_nil] at h0 h1 h2 ⊢
      simp only [parseDetails, h0, h1, h2, peekEnd_nil, if_true, DetailsL.url?, DetailsL.raw]
    | ws w' =>
      obtain ⟨hw', hne'⟩ := ht
      obtain ⟨c, t', hc, hcc⟩ := wsRun_head w' hw' hne'
      have h2 := checkR_url u hune huch p1 w' (by intro d hd; rw [hc] at hd; simp at hd; subst hd; omega)
      have h3 : peekEnd ⟨lastOr u none, w'⟩ = false := by rw [hc]; exact peekEnd_cons _ c t' (by omega)
      obtain ⟨p3, h4, _⟩ := check_ws_run w' [] hw' hne' (by intro d hd; simp at hd) (lastOr u none)
      have hmnone := hmn rfl
      subst hmnone
      refine ⟨⟨p3, []⟩, ?_, peekEnd_nil _⟩
      simp only [DetailsL.text, UrlTail.text] at h0 h1 ⊢
      simp only [List.append_nil] at h4
      simp only [parseDetails, h0, h1, h2, h3, h4, peekEnd_nil, Bool.false_eq_true, if_false, if_true, DetailsL.url?,
        DetailsL.raw]
    | marker w' mtext =>
      obtain ⟨hw', hne'⟩ := ht
      obtain ⟨c, t', hc, hcc⟩ := wsRun_head w' hw' hne'
      obtain ⟨m0, hm0, rfl⟩ := hm mtext rfl
      have h2 := checkR_url u hune huch p1 (w' ++ 59 :: mtext) (by intro d hd; rw [hc] at hd; simp at hd; subst hd; omega)
      have h3 : peekEnd ⟨lastOr u none, w' ++ 59 :: mtext⟩ = false := by
        rw [hc]; exact peekEnd_cons _ c _ (by omega)
      obtain ⟨p3, h4, _⟩ := check_ws_run w' (59 :: mtext) hw' hne' (by intro d hd; simp at hd; omega) (lastOr u none)
      have h5 : peekEnd ⟨p3, 59 :: mtext⟩ = false := peekEnd_cons _ 59 _ (by decide)
      obtain ⟨se, h6, h7⟩ := parseReqMarker_text mtext m0 hm0 fuel (hf2 mtext rfl) p3
      refine ⟨se, ?_, h7⟩
      simp only [DetailsL.text, UrlTail.text] at h0 h1 ⊢
      simp only [parseDetails, h0, h1, h2, h3, h4, h5, Bool.false_eq_true, if_false, bind, Except.bind, h6, pure, Except.pure,
        DetailsL.url?, DetailsL.raw]
  | spec s mt =>
    have hat : ∀ k, (∀ d, k.head? = some d → OpChar d ∨ d = 59 ∨ d = 41 ∨ d = 40) → checkR .at_ ⟨p, k⟩ = none := by
      intro k hk
      exact checkR_single_miss .at_ 64 rfl _ (by intro e; rcases hk 64 e with h | h | h | h <;> (try unfold OpChar at h) <;> omega)
    -- the state after `_parse_specifier`: white space `w3`, then the end or the marker
    have key : ∃ p' w3, WsRun w3 ∧ parseSpecifier fuel ⟨p, s.text ++ markText mt⟩ = .ok (s.raw, ⟨p', w3 ++ markText mt⟩) ∧
        checkR .at_ ⟨p, s.text ++ markText mt⟩ = none := by
      have hKm : EndK' (markText mt) := by
        intro d hd; cases mt with
        | none => simp [markText] at hd
        | some x => simp [markText] at hd; exact Or.inl hd.symm
      cases s with
      | bare l =>
        obtain ⟨p', h⟩ := parseSpecifier_bare l hd fuel hf1 p hp (markText mt) hKm
        refine ⟨p', [], (by intro c hc; cases hc), (by simpa [SpecL.text, SpecL.raw] using h), ?_⟩
        apply hat
        intro d hd'
        rcases clText_head l _ hKm d hd' with h | h | h
        · exact Or.inl h
        · exact Or.inr (Or.inl h)
        · exact Or.inr (Or.inr (Or.inl h))
      | paren w l w3 =>
        obtain ⟨hw, hl, hw3⟩ := hd
        have h := parseSpecifier_paren w hw l hl fuel hf1 p (w3 ++ markText mt)
        refine ⟨some 41, w3, hw3, (by simpa [SpecL.text, SpecL.raw] using h), ?_⟩
        apply hat
        intro d hd'; simp [SpecL.text] at hd'; exact Or.inr (Or.inr (Or.inr hd'.symm))
    obtain ⟨p', w3, hw3, hps, hatn⟩ := key
    have hmw : NoWsHead (markText mt) := by
      intro d hd; cases mt with
      | none => simp [markText] at hd
      | some x => simp [markText] at hd; omega
    obtain ⟨p2, h2, _⟩ := ws_run w3 (markText mt) hw3 hmw p'
    cases mt with
    | none =>
      have hmnone := hmn rfl
      subst hmnone
      refine ⟨⟨p2, []⟩, ?_, peekEnd_nil _⟩
      simp only [markText, List.append_nil] at hps h2 hatn
      simp only [DetailsL.text, markText, List.append_nil, parseDetails, hatn, hps, bind, Except.bind, h2, peekEnd_nil, if_true,
        pure, Except.pure, DetailsL.url?, DetailsL.raw]
    | some mtext =>
      obtain ⟨m0, hm0, rfl⟩ := hm mtext rfl
      have h5 : peekEnd ⟨p2, 59 :: mtext⟩ = false := peekEnd_cons _ 59 _ (by decide)
      obtain ⟨se, h6, h7⟩ := parseReqMarker_text mtext m0 hm0 fuel (hf2 mtext rfl) p2
      refine ⟨se, ?_, h7⟩
      simp only [markText] at hps h2 hatn
      simp only [DetailsL.text, markText, parseDetails, hatn, hps, bind, Except.bind, h2, h5, Bool.false_eq_true, if_false, h6,
        pure, Except.pure, DetailsL.url?, DetailsL.raw]

/-! ### the whole requirement -/

/-- a requirement as written: every `wsp*` position of the grammar carries its run of white space -/
structure Layout where
  w0 : Str
  name : Str
  w1 : Str
  /-- `[ w2 … ] w3` -/
  extras : Option (Str × Option (Str × List (Str × Str × Str) × Str) × Str)
  details : DetailsL

def extrasText : Option (Str × Option (Str × List (Str × Str × Str) × Str) × Str) → Str
  | none => []
  | some (w2, c, w3) => extL w2 c ++ w3

def extrasNames : Option (Str × Option (Str × List (Str × Str × Str) × Str) × Str) → List Str
  | none => []
  | some (_, c, _) => extNames c

def ExtrasOK : Option (Str × Option (Str × List (Str × Str × Str) × Str) × Str) → Prop
  | none => True
  | some (w2, c, w3) => WsRun w2 ∧ ExtOK c ∧ WsRun w3

/-- the string -/
def Layout.render (x : Layout) : Str := x.w0 ++ (x.name ++ (x.w1 ++ (extrasText x.extras ++ x.details.text)))

def Layout.OK (x : Layout) : Prop :=
  WsRun x.w0 ∧ IdentOK x.name ∧ WsRun x.w1 ∧ ExtrasOK x.extras ∧ DetailsLOK x.details

theorem exTail_len : (items : List (Str × Str × Str)) → items.length ≤ (exTail items).length
  | [] => by simp
  | (wa, wb, e) :: r => by have := exTail_len r; simp [exTail]; omega

theorem extNames_len (w2 : Str) (c : Option (Str × List (Str × Str × Str) × Str)) : (extNames c).length ≤ (extL w2 c).length := by
  cases c with
  | none => simp [extNames]
  | some v => obtain ⟨e1, items, wl⟩ := v; have := exTail_len items; simp [extNames, extL]; omega

theorem clTail_len : (items : List (Str × Str × Cl)) → items.length ≤ (clTail items).length
  | [] => by simp
  | (wa, wb, c) :: r => by have := clTail_len r; simp [clTail]; omega

theorem clLen_le (l : CList) : clLen l ≤ (clText l).length + 1 := by
  cases l with
  | none => simp [clLen]
  | some v => obtain ⟨c, items, wl⟩ := v; have := clTail_len items; simp [clLen, clText]; omega

theorem details_bounds (d : DetailsL) : d.clen ≤ d.text.length + 1 ∧ ∀ mtext, d.mtext = some mtext → mtext.length ≤ d.text.length := by
  cases d with
  | url w u t =>
    refine ⟨by simp [DetailsL.clen], ?_⟩
    intro mtext h
    cases t with
    | none => simp [DetailsL.mtext] at h
    | ws w' => simp [DetailsL.mtext] at h
    | marker w' mt => simp [DetailsL.mtext] at h; subst h; simp [DetailsL.text, UrlTail.text]; omega
  | spec s mt =>
    constructor
    · cases s with
      | bare l => have := clLen_le l; simp [DetailsL.clen, SpecL.list, DetailsL.text, SpecL.text]; omega
      | paren w l w3 => have := clLen_le l; simp [DetailsL.clen, SpecL.list, DetailsL.text, SpecL.text]; omega
    · intro mtext h
      simp [DetailsL.mtext] at h; subst h
      simp [DetailsL.text, markText]; omega

theorem details_head (d : DetailsL) (hd : DetailsLOK d) :
    ∀ c, d.text.head? = some c → c = 64 ∨ OpChar c ∨ c = 40 ∨ c = 59 := by
  intro c hc
  cases d with
  | url w u t => simp [DetailsL.text] at hc; exact Or.inl hc.symm
  | spec s mt =>
    have hKm : EndK' (markText mt) := by
      intro d hd; cases mt with
      | none => simp [markText] at hd
      | some x => simp [markText] at hd; exact Or.inl hd.symm
    cases s with
    | paren w l w3 => simp [DetailsL.text, SpecL.text] at hc; exact Or.inr (Or.inr (Or.inl hc.symm))
    | bare l =>
      rcases clText_head l _ hKm c (by simpa [DetailsL.text, SpecL.text] using hc) with h | h | h
      · exact Or.inr (Or.inl h)
      · exact Or.inr (Or.inr (Or.inr h))
      · -- `)` cannot be the first character of the marker part
        exfalso
        cases l with
        | some v =>
          obtain ⟨c0, items, wl⟩ := v
          obtain ⟨x, t, hx, ho⟩ := opStr_head c0.op
          simp [DetailsL.text, SpecL.text, clText, Cl.text, hx] at hc
          subst hc; unfold OpChar at ho; omega
        | none =>
          cases mt with
          | none => simp [DetailsL.text, SpecL.text, clText, markText] at hc
          | some mtx => simp [DetailsL.text, SpecL.text, clText, markText] at hc; omega

/-- **the parser on any layout** returns the parts the text was written from: the name, the URL, the extras in
order, the clause text with the white space between clauses dropped, and the list the stand-alone marker parser
returns for the marker text -/
theorem parseSource_layout (x : Layout) (hx : x.OK) (m : Option (List M))
    (hm : ∀ mtext, x.details.mtext = some mtext → ∃ m0, Mk.parse mtext = .ok m0 ∧ m = some m0)
    (hmn : x.details.mtext = none → m = none) :
    ∃ P, parseSource x.render = .ok P ∧ P.name = x.name ∧ P.url = x.details.url? ∧ P.extras = extrasNames x.extras ∧
      P.specifier = x.details.raw ∧ P.marker = m := by
  obtain ⟨hw0, hn, hw1, hex, hd⟩ := hx
  obtain ⟨c, t, hct, hc, _, hlw⟩ := id hn
  have hlast : lastOr x.name none ≠ some 61 := by
    intro e; rw [e] at hlw
    have : isWord 61 = true := by simpa [isWordO] using hlw
    exact absurd this (by decide)
  have hdh := details_head x.details hd
  have hdnw : NoWsHead x.details.text := by
    intro d hd'; rcases hdh d hd' with h | h | h | h <;> (try unfold OpChar at h) <;> omega
  show ∃ P, parseRequirement (fuelFor x.render.length) ⟨none, x.render⟩ = .ok P ∧ _
  -- fuel
  obtain ⟨hb1, hb2⟩ := details_bounds x.details
  have hlen : x.render.length = x.w0.length + (x.name.length + (x.w1.length + ((extrasText x.extras).length + x.details.text.length))) := by
    simp [Layout.render]
  have hf1 : x.details.clen < fuelFor x.render.length := by unfold fuelFor; omega
  have hf2 : ∀ mtext, x.details.mtext = some mtext → 2 * mtext.length + 3 ≤ fuelFor x.render.length := by
    intro mtext h; have := hb2 mtext h; unfold fuelFor; omega
  have hf3 : (extrasNames x.extras).length ≤ fuelFor x.render.length ∧ 0 < fuelFor x.render.length := by
    constructor
    · cases hxe : x.extras with
      | none => simp [extrasNames]
      | some v =>
        obtain ⟨w2, cc, w3⟩ := v
        have := extNames_len w2 cc
        rw [hxe] at hlen
        simp only [extrasText, extrasNames, List.length_append] at hlen ⊢
        unfold fuelFor; omega
    · unfold fuelFor; omega
  generalize fuelFor x.render.length = fuel at hf1 hf2 hf3
  -- the tail after the name
  have hnameK : StopK (x.w1 ++ (extrasText x.extras ++ x.details.text)) := by
    intro d hd'
    have key : d = 32 ∨ d = 9 ∨ d = 91 ∨ d = 64 ∨ OpChar d ∨ d = 40 ∨ d = 59 := by
      cases hw : x.w1 with
      | cons a b => rw [hw] at hd'; simp at hd'; subst hd'; rcases hw1 a (by rw [hw]; simp) with h | h <;> simp [h]
      | nil =>
        rw [hw] at hd'
        cases hxe : x.extras with
        | some v => obtain ⟨w2, cc, w3⟩ := v; rw [hxe] at hd'; cases cc <;> simp [extrasText, extL] at hd' <;> simp [hd']
        | none =>
          rw [hxe] at hd'
          rcases hdh d (by simpa [extrasText] using hd') with h | h | h | h <;> simp [h]
    rcases key with rfl | rfl | rfl | rfl | h | rfl | rfl
    · exact ⟨by decide, by decide⟩
    · exact ⟨by decide, by decide⟩
    · exact ⟨by decide, by decide⟩
    · exact ⟨by decide, by decide⟩
    · rcases h with rfl | rfl | rfl | rfl | rfl <;> exact ⟨by decide, by decide⟩
    · exact ⟨by decide, by decide⟩
    · exact ⟨by decide, by decide⟩
  obtain ⟨p0, a0, hp0⟩ := ws_run x.w0 (x.name ++ (x.w1 ++ (extrasText x.extras ++ x.details.text))) hw0
    (identOK_noWsHead hn _) none
  have a1 := checkR_ident x.name hn p0 (hp0.notWord rfl) _ hnameK
  have hEnw : NoWsHead (extrasText x.extras ++ x.details.text) := by
    cases hxe : x.extras with
    | none => simpa [extrasText] using hdnw
    | some v => obtain ⟨w2, cc, w3⟩ := v; intro d hd'; cases cc <;> simp [extrasText, extL] at hd' <;> omega
  obtain ⟨p1, a2, hp1⟩ := ws_run x.w1 (extrasText x.extras ++ x.details.text) hw1 hEnw (lastOr x.name none)
  -- the extras
  have a3 : ∃ p2, p2 ≠ some 61 ∧ ∃ w3, WsRun w3 ∧
      parseExtras fuel ⟨p1, extrasText x.extras ++ x.details.text⟩ = .ok (extrasNames x.extras, ⟨p2, w3 ++ x.details.text⟩) := by
    cases hxe : x.extras with
    | none =>
      refine ⟨p1, hp1.ne61 hlast, [], (by intro c hc; cases hc), ?_⟩
      simp only [extrasText, extrasNames, List.nil_append]
      exact parseExtras_none fuel _ (by
        intro e
        rcases hdh 91 e with h | h | h | h <;> (try unfold OpChar at h) <;> omega)
    | some v =>
      obtain ⟨w2, cc, w3⟩ := v
      rw [hxe] at hex hf3
      obtain ⟨hw2, hcc, hw3⟩ := hex
      refine ⟨some 93, (by simp), w3, hw3, ?_⟩
      have := parseExtras_layout w2 hw2 cc hcc fuel hf3.1 hf3.2 p1 (w3 ++ x.details.text)
      simpa [extrasText, extrasNames] using this
  obtain ⟨p2, hp2, w3, hw3, a3⟩ := a3
  obtain ⟨p3, a4, hp3⟩ := ws_run w3 x.details.text hw3 hdnw p2
  obtain ⟨se, a5, a6⟩ := parseDetails_layout x.details hd m hm hmn fuel hf1 hf2 p3 (hp3.ne61 hp2)
  refine ⟨⟨x.name, x.details.url?, extrasNames x.extras, x.details.raw, m⟩, ?_, rfl, rfl, rfl, rfl, rfl⟩
  simp only [parseRequirement, Layout.render, a0, a1, a2, a3, bind, Except.bind, a4, a5, a6, if_true, pure, Except.pure]

/-! ### `Requirement(render x)` -/

def clTexts : CList → List Str
  | none => []
  | some (c, items, _) => c.text :: items.map (·.2.2.text)

/-- the clauses as `Specifier` objects `(operator, version text)` -/
def clSpecs : CList → List S.Spec
  | none => []
  | some (c, items, _) => ⟨c.op, c.ver⟩ :: items.map (fun it => ⟨it.2.2.op, it.2.2.ver⟩)

theorem rawTail_eq_tailS : (items : List (Str × Str × Cl)) → rawTail items = tailS (items.map (·.2.2.text))
  | [] => rfl
  | (wa, wb, c) :: r => by simp [rawTail, tailS, rawTail_eq_tailS r]

theorem clRaw_eq_specS (l : CList) : clRaw l = specS (clTexts l) := by
  cases l with
  | none => rfl
  | some v => obtain ⟨c, items, wl⟩ := v; simp [clRaw, clTexts, specS, rawTail_eq_tailS]

theorem clItems_all (c0 : Cl) : (items : List (Str × Str × Cl)) → ClItemsOK c0 items → ∀ it ∈ items, ClOK it.2.2
  | [], _, it, h => by cases h
  | (wa, wb, c) :: r, hi, it, h => by
    obtain ⟨_, _, hc, _, hr⟩ := hi
    rcases List.mem_cons.mp h with rfl | h
    · exact hc
    · exact clItems_all c r hr it h

theorem lastOr_append_ne (a b : Str) (hb : b ≠ []) (p : Option Nat) : lastOr (a ++ b) p = lastOr b p := by
  induction a with
  | nil => rfl
  | cons x a ih =>
    cases hab : a ++ b with
    | nil => simp at hab; exact absurd hab.2 hb
    | cons y t => rw [List.cons_append, hab, lastOr_cons_cons, ← hab, ih]

theorem getLast?_append_ne (a b : Str) (hb : b ≠ []) : (a ++ b).getLast? = b.getLast? := by
  rw [List.getLast?_append]
  cases h : b.getLast? with
  | none => simp at h; exact absurd h hb
  | some x => rfl

/-- the text of an acceptable clause is one clean piece for `SpecifierSet`: no comma, nothing to strip, not empty -/
theorem clText_clean (c : Cl) (hc : ClOK c) : 44 ∉ c.text ∧ strip c.text = c.text ∧ c.text ≠ [] := by
  obtain ⟨hw, hps, h44, hne⟩ := hc
  have hrt := SSet.parse_roundtrips c.text ⟨c.op, c.ver⟩ hps (fun _ => h44)
  obtain ⟨_, hstrip, _⟩ := C05.Roundtrips.unpack hrt
  obtain ⟨d, t, hd, hws, hsp, hd44⟩ := SSet.Op.str_head c.op
  have hvne : c.ver ≠ [] := by
    by_cases ha : c.op = .arbitrary
    · exact hne ha
    · obtain ⟨⟨c0, t0, hc0, _⟩, _⟩ := verForm_clause c.text ⟨c.op, c.ver⟩ hps ha
      simp only at hc0; rw [hc0]; simp
  refine ⟨?_, ?_, ?_⟩
  · intro hm
    simp only [Cl.text, List.mem_append] at hm
    rcases hm with hm | hm | hm
    · exact SSet.Op.str_no_comma c.op hm
    · rcases hw 44 hm with h | h <;> omega
    · exact h44 hm
  · rw [SSet.strip_eq_stripBy]
    apply SSet.stripBy_eq_self
    · intro x hx; simp only [Cl.text, hd, List.cons_append, List.head?_cons, Option.some.injEq] at hx; subst hx; exact hsp
    · intro x hx
      -- the last character is the last character of `op ++ ver`, which `strip` leaves alone
      have h1 : (c.op.str ++ c.ver).getLast? = some x := by
        have e1 : c.text = (c.op.str ++ c.w) ++ c.ver := by simp [Cl.text]
        rw [e1, getLast?_append_ne _ _ hvne] at hx
        rw [getLast?_append_ne _ _ hvne]; exact hx
      have h2 := SSet.stripBy_last isSpacePy (c.op.str ++ c.ver) x
      rw [← SSet.strip_eq_stripBy] at h2
      simp only [S.Spec.str] at hstrip
      rw [hstrip] at h2
      exact h2 h1
  · simp [Cl.text, hd]

theorem parseAll_texts (l : CList) (hl : CListOK l) : parseAll (clTexts l) = some (clSpecs l) := by
  cases l with
  | none => rfl
  | some v =>
    obtain ⟨c, items, wl⟩ := v
    obtain ⟨hc, hi, _⟩ := hl
    have hall := clItems_all c items hi
    have hrest : ∀ (its : List (Str × Str × Cl)), (∀ it ∈ its, ClOK it.2.2) →
        parseAll (its.map (·.2.2.text)) = some (its.map (fun it => (⟨it.2.2.op, it.2.2.ver⟩ : S.Spec))) := by
      intro its hits
      induction its with
      | nil => rfl
      | cons it r ih =>
        have h1 := (hits it (by simp)).2.1
        have h2 := ih (fun y hy => hits y (by simp [hy]))
        simp only [parseAll] at h2
        simp only [List.map_cons, parseAll, SSet.parseAll, h1, h2]
    have h2 := hrest items hall
    simp only [parseAll] at h2
    simp only [clTexts, clSpecs, parseAll, SSet.parseAll, hc.2.1, h2]

theorem mkSpecSet_raw (l : CList) (hl : CListOK l) : mkSpecSet (clRaw l) = .ok (specSet (clSpecs l)) := by
  have hclean : ∀ c ∈ clTexts l, 44 ∉ c ∧ strip c = c ∧ c ≠ [] := by
    cases l with
    | none => intro c hc; cases hc
    | some v =>
      obtain ⟨c0, items, wl⟩ := v
      obtain ⟨hc0, hi, _⟩ := hl
      intro c hc
      simp only [clTexts, List.mem_cons, List.mem_map] at hc
      rcases hc with rfl | ⟨it, hit, rfl⟩
      · exact clText_clean c0 hc0
      · exact clText_clean it.2.2 (clItems_all c0 items hi it hit)
  have hcl := ReqRound.clauses_specS (clTexts l) (fun c hc => (hclean c hc).1) (fun c hc => (hclean c hc).2.1)
    (fun c hc => (hclean c hc).2.2)
  have hall : ((clSpecs l).all fun sp => (ckey sp).isSome) = true := by
    rw [List.all_eq_true]; intro sp _; exact ReqWf.ckey_isSome sp
  simp only [mkSpecSet, clRaw_eq_specS, hcl, parseAll_texts l hl, hall, if_true]

/-- what the text means: the requirement `Requirement.__init__` builds from the parts -/
def Layout.sem (x : Layout) (m : Option (List M)) : Requirement :=
  { name := x.name
    url := if x.details.url?.isEmpty then none else some x.details.url?
    extras := dedup (extrasNames x.extras)
    spec := match x.details with
      | .url _ _ _ => []
      | .spec s _ => specSet (clSpecs s.list)
    marker := m.map (normalizeExtra Req.X) }

/-- **`parse ∘ render = sem`, for every white-space layout.**  A requirement written with any run of spaces and
tabs at every `wsp*` position of the PEP 508 grammar (around the name, inside and after the brackets, around every
comma, after every operator, inside the parentheses, around `@`, before `;`), its clause list bare or parenthesised,
every clause in any spelling `Specifier` accepts, the marker any text `Marker` accepts, is parsed to exactly: the name;
the set of the extras; the `SpecifierSet` of exactly those clauses; the URL; the `Marker` of the marker text.
(`Layout.OK` excludes only the class of finding F05: an `===` clause with the comma directly behind it.) -/
theorem parse_render (x : Layout) (hx : x.OK) (m : Option (List M))
    (hm : ∀ mtext, x.details.mtext = some mtext → ∃ m0, Mk.parse mtext = .ok m0 ∧ m = some m0)
    (hmn : x.details.mtext = none → m = none) :
    Req.parse x.render = .ok (x.sem m) := by
  obtain ⟨P, hP, e1, e2, e3, e4, e5⟩ := parseSource_layout x hx m hm hmn
  have hms : mkSpecSet x.details.raw = .ok (match x.details with
      | .url _ _ _ => []
      | .spec s _ => specSet (clSpecs s.list)) := by
    cases hd : x.details with
    | url w u t => simp only [DetailsL.raw]; exact ReqRound.mkSpecSet_nil
    | spec s mt =>
      have hok : DetailsLOK x.details := hx.2.2.2.2
      rw [hd] at hok
      cases s with
      | bare l => exact mkSpecSet_raw l hok
      | paren w l w3 => exact mkSpecSet_raw l hok.2.1
  simp only [Req.parse, hP, bind, Except.bind, ofParsed, e1, e2, e3, e4, e5, hms, pure, Except.pure, Layout.sem]
end ReqLayout
