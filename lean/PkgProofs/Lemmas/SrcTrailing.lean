import PkgModel.Version
import PkgModel.PyObj
import PkgProofs.Lemmas.PyRt
import PkgProofs.Lemmas.SrcLoops
/-!
# Trailing zeros of a release by an index loop walking back from the end (x4)

`while k > 0 and r[k - 1] == 0: k -= 1` (`_cmpkey`) and `while k > 1 and not r[k - 1]: k -= 1` (`_TrimmedRelease.release`)
as instances of `PyRt.whileEnd`: the index they stop at cuts the model's `dropTrailingZeros` / `trimRelease`.
-/
namespace Src
open PyRt Py V

theorem fuelOf_succ' (l : List PyVal) : fuelOf l = (4 * sizeL l + 15) + 1 := by simp [fuelOf]

/-! ### trailing zeros by an index loop walking back from the end -/

/-- the loop test `k > 0 and r[k - 1] == 0` on the index -/
def tzC (r : List Nat) : PyVal → Bool
  | .int (Int.ofNat (j + 1)) => r.getD j 1 == 0
  | _ => false
def tzS : PyVal → PyVal
  | .int k => .int (k - 1)
  | x => x
def tzM : PyVal → Nat
  | .int k => k.toNat
  | _ => 0
def tzI (r : List Nat) (s : PyVal) : Prop := ∃ k : Nat, k ≤ r.length ∧ s = .int k

theorem tzC_zero (r : List Nat) : tzC r (.int ((0 : Nat) : Int)) = false := by rfl
theorem tzC_succ (r : List Nat) (k : Nat) : tzC r (.int ((k + 1 : Nat) : Int)) = (r.getD k 1 == 0) := by rfl
theorem tzS_succ (k : Nat) : tzS (.int ((k + 1 : Nat) : Int)) = .int ((k : Nat) : Int) := by
  simp only [tzS]; congr 1; omega

theorem dropTrailingZeros_snoc_zero (l : List Nat) : dropTrailingZeros (l ++ [0]) = dropTrailingZeros l := by
  simp [dropTrailingZeros]
theorem dropTrailingZeros_snoc_nz (l : List Nat) (x : Nat) (h : x ≠ 0) : dropTrailingZeros (l ++ [x]) = l ++ [x] := by
  simp [dropTrailingZeros, h]

theorem tz_end (r : List Nat) : ∀ (n k : Nat), k ≤ n → k ≤ r.length →
    ∃ j : Nat, whileEnd (tzC r) tzS n (.int ((k : Nat) : Int)) = .int ((j : Nat) : Int) ∧ r.take j = dropTrailingZeros (r.take k) := by
  intro n
  induction n with
  | zero => intro k hk _; have : k = 0 := by omega
            subst this; exact ⟨0, rfl, by simp [dropTrailingZeros]⟩
  | succ n ih =>
    intro k hk hlen
    cases k with
    | zero => exact ⟨0, by simp only [whileEnd, tzC_zero]; rfl, by simp [dropTrailingZeros]⟩
    | succ k =>
      have hk' : k < r.length := by omega
      have htake : r.take (k + 1) = r.take k ++ [r[k]] := by
        rw [List.take_add_one]; simp [List.getElem?_eq_getElem hk']
      have hget : r.getD k 1 = r[k] := by simp [List.getD_eq_getElem?_getD, List.getElem?_eq_getElem hk']
      by_cases hz : r[k] = 0
      · have hc : tzC r (.int ((k + 1 : Nat) : Int)) = true := by rw [tzC_succ, hget, hz]; rfl
        obtain ⟨j, h1, h2⟩ := ih k (by omega) (by omega)
        refine ⟨j, ?_, ?_⟩
        · simp only [whileEnd, hc, if_true, tzS_succ]; exact h1
        · rw [h2, htake, hz, dropTrailingZeros_snoc_zero]
      · have hc : tzC r (.int ((k + 1 : Nat) : Int)) = false := by
          rw [tzC_succ, hget]; simpa using hz
        refine ⟨k + 1, by simp only [whileEnd, hc]; rfl, ?_⟩
        rw [htake, dropTrailingZeros_snoc_nz _ _ hz]


theorem getitem_tuple_nat (l : List PyVal) (i : Nat) (h : i < l.length) :
    getitem (.tuple l) (.int i) = .ok (l.getD i .none) := by
  simp [getitem, asInt, normIndex, h]



/-! ### keeping at least one component -/

/-- the loop test `k > 1 and not r[k - 1]` on the index -/
def trC (r : List Nat) : PyVal → Bool
  | .int (Int.ofNat (j + 2)) => r.getD (j + 1) 1 == 0
  | _ => false

theorem trC_zero (r : List Nat) : trC r (.int ((0 : Nat) : Int)) = false := by rfl
theorem trC_one (r : List Nat) : trC r (.int ((1 : Nat) : Int)) = false := by rfl
theorem trC_succ (r : List Nat) (k : Nat) : trC r (.int ((k + 2 : Nat) : Int)) = (r.getD (k + 1) 1 == 0) := by rfl

theorem trimRelease_snoc_zero (l : List Nat) (h : l ≠ []) : trimRelease (l ++ [0]) = trimRelease l := by
  simp only [trimRelease, dropTrailingZeros_snoc_zero]
  cases hd : dropTrailingZeros l with
  | nil => cases l with
    | nil => exact absurd rfl h
    | cons a as => simp
  | cons a as => rfl
theorem trimRelease_snoc_nz (l : List Nat) (x : Nat) (h : x ≠ 0) : trimRelease (l ++ [x]) = l ++ [x] := by
  simp only [trimRelease, dropTrailingZeros_snoc_nz _ _ h]
  cases l <;> simp

theorem tr_end (r : List Nat) : ∀ (n k : Nat), k ≤ n → k ≤ r.length →
    ∃ j : Nat, whileEnd (trC r) tzS n (.int ((k : Nat) : Int)) = .int ((j : Nat) : Int) ∧ r.take j = trimRelease (r.take k) := by
  intro n
  induction n with
  | zero => intro k hk _; have : k = 0 := by omega
            subst this; exact ⟨0, rfl, by simp [trimRelease, dropTrailingZeros]⟩
  | succ n ih =>
    intro k hk hlen
    match k with
    | 0 => exact ⟨0, by simp only [whileEnd, trC_zero]; rfl, by simp [trimRelease, dropTrailingZeros]⟩
    | 1 =>
      refine ⟨1, by simp only [whileEnd, trC_one]; rfl, ?_⟩
      cases r with
      | nil => simp at hlen
      | cons x xs =>
        by_cases hx : x = 0
        · simp [trimRelease, dropTrailingZeros, hx]
        · simp [trimRelease, dropTrailingZeros, hx]
    | k + 2 =>
      have hk' : k + 1 < r.length := by omega
      have htake : r.take (k + 2) = r.take (k + 1) ++ [r[k + 1]] := by
        rw [List.take_add_one]; simp [List.getElem?_eq_getElem hk']
      have hget : r.getD (k + 1) 1 = r[k + 1] := by simp [List.getD_eq_getElem?_getD, List.getElem?_eq_getElem hk']
      have hne : r.take (k + 1) ≠ [] := by
        cases r with
        | nil => simp at hk'
        | cons a as => simp
      by_cases hz : r[k + 1] = 0
      · have hc : trC r (.int ((k + 2 : Nat) : Int)) = true := by rw [trC_succ, hget, hz]; rfl
        obtain ⟨j, h1, h2⟩ := ih (k + 1) (by omega) (by omega)
        refine ⟨j, ?_, ?_⟩
        · simp only [whileEnd, hc, if_true]
          have : tzS (.int ((k + 2 : Nat) : Int)) = .int ((k + 1 : Nat) : Int) := tzS_succ (k + 1)
          rw [this]; exact h1
        · rw [h2, htake, hz, trimRelease_snoc_zero _ hne]
      · have hc : trC r (.int ((k + 2 : Nat) : Int)) = false := by
          rw [trC_succ, hget]; simpa using hz
        refine ⟨k + 2, by simp only [whileEnd, hc]; rfl, ?_⟩
        rw [htake, trimRelease_snoc_nz _ _ hz]

theorem sizeL_ofNats (r : List Nat) : sizeL (r.map ofNat) = r.length := by
  induction r with
  | nil => rfl
  | cons a as ih => simp [sizeL, size, ofNat, ih]; omega

end Src
