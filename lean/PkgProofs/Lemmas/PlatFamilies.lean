import PkgProofs.Lemmas.PlatLists
namespace PlatL
open Py Tags Plat PlatSpec TagL

/-! ### macOS -/

theorem tLt_pair (x y a b : Nat) : tLt [x, y] [a, b] = !verLe (a, b) (x, y) := by
  unfold tLt
  rw [tupLt_pair]
  simp only [verLe]
  rcases Nat.lt_trichotomy a x with h | h | h
  · have e : (a == x) = false := by simp; omega
    have e' : (x == a) = false := by simp; omega
    simp [h, e, e']
  · subst h; simp
  · have e : (a == x) = false := by simp; omega
    have e' : (x == a) = false := by simp; omega
    have : ¬ a < x := by omega
    have : ¬ x > a := by omega
    simp [*]

theorem macFormats_eq (x y : Nat) (cpu : Str) : macBinaryFormats [x, y] cpu = macFormatsSpec (x, y) cpu := by
  unfold macBinaryFormats macFormatsSpec
  simp only [tLt_pair]
  obtain ⟨b1, hb1⟩ : ∃ b, verLe (10, 4) (x, y) = b := ⟨_, rfl⟩
  obtain ⟨b2, hb2⟩ : ∃ b, verLe (x, y) (10, 5) = b := ⟨_, rfl⟩
  obtain ⟨b3, hb3⟩ : ∃ b, verLe (x, y) (10, 6) = b := ⟨_, rfl⟩
  by_cases h1 : cpu = sX86_64
  · subst h1
    have : macFormatTable.lookup sX86_64 = some (some (10, 4), none, [sX86_64, sIntel, sFat64, sFat32, sUniversal2, sUniversal]) := by decide
    rw [this]
    simp only [hb1, hb2, hb3]
    cases b1 <;> cases b2 <;> cases b3 <;> first | decide | rfl | (simp; decide)
  by_cases h2 : cpu = sI386
  · subst h2
    have : macFormatTable.lookup sI386 = some (some (10, 4), none, [sI386, sIntel, sFat32, sFat, sUniversal]) := by decide
    rw [this]
    simp only [hb1, hb2, hb3]
    cases b1 <;> cases b2 <;> cases b3 <;> first | decide | rfl | (simp; decide)
  by_cases h3 : cpu = sPpc64
  · subst h3
    have : macFormatTable.lookup sPpc64 = some (some (10, 4), some (10, 5), [sPpc64, sFat64, sUniversal]) := by decide
    rw [this]
    simp only [hb1, hb2, hb3]
    cases b1 <;> cases b2 <;> cases b3 <;> first | decide | rfl | (simp; decide)
  by_cases h4 : cpu = sPpc
  · subst h4
    have : macFormatTable.lookup sPpc = some (none, some (10, 6), [sPpc, sFat32, sFat, sUniversal]) := by decide
    rw [this]
    simp only [hb1, hb2, hb3]
    cases b1 <;> cases b2 <;> cases b3 <;> first | decide | rfl | (simp; decide)
  by_cases h5 : cpu = sArm64
  · subst h5
    have : macFormatTable.lookup sArm64 = some (none, none, [sArm64, sUniversal2]) := by decide
    rw [this]
    simp only [hb1, hb2, hb3]
    cases b1 <;> cases b2 <;> cases b3 <;> first | decide | rfl | (simp; decide)
  by_cases h6 : cpu = sIntel
  · subst h6
    have : macFormatTable.lookup sIntel = some (none, none, [sIntel, sUniversal]) := by decide
    rw [this]
    simp only [hb1, hb2, hb3]
    cases b1 <;> cases b2 <;> cases b3 <;> first | decide | rfl | (simp; decide)
  have e1 : (cpu == sX86_64) = false := by simpa using h1
  have e2 : (cpu == sI386) = false := by simpa using h2
  have e3 : (cpu == sPpc64) = false := by simpa using h3
  have e4 : (cpu == sPpc) = false := by simpa using h4
  have e5 : (cpu == sArm64) = false := by simpa using h5
  have e6 : (cpu == sIntel) = false := by simpa using h6
  have : macFormatTable.lookup cpu = none := by
    simp [macFormatTable, List.lookup, e1, e2, e3, e4, e5, e6]
  simp [this, e1, e2, e3, e4, e5, e6]

theorem flatMap_single {α β} (l : List α) (f : α → β) : l.flatMap (fun a => [f a]) = l.map f := by
  induction l with
  | nil => rfl
  | cons a t ih => simp [List.flatMap_cons, ih]

theorem descending_zero (hi : Nat) : descending 0 hi = rangeDown (hi + 1) 0 := descending_eq 0 hi

/-- **mac_platforms = spec** for explicit `(version, arch)` arguments (any macOS version, any architecture string) -/
theorem mac_eq_spec (verStr cpu compat0 : Str) (is32 : Bool) (a b : Nat) (arch : Str) :
    macPlatforms verStr cpu compat0 is32 (some (a, b)) (some arch) = .ok (macSpec (a, b) arch) := by
  unfold macPlatforms macPlatformsL macSpec
  simp only [tLe, tLt_pair, Bool.not_not, verLe, List.getD_cons_zero]
  rcases Nat.lt_trichotomy a 10 with h | h | h
  · have e1 : (a == 10) = false := by simp; omega
    have e2 : (a == 11) = false := by simp; omega
    have e3 : (10 == a) = false := by simp; omega
    have e4 : (11 == a) = false := by simp; omega
    have n1 : ¬ 10 < a := by omega
    have n2 : ¬ 11 < a := by omega
    have n3 : ¬ a = 10 := by omega
    have n4 : ¬ a ≥ 11 := by omega
    simp [e1, e2, e3, e4, n1, n2, n3, n4]
  · subst h
    simp only [macFormats_eq, descending_zero]
    simp
  · have e3 : (10 == a) = false := by simp; omega
    have n1 : 10 < a := h
    have n3 : ¬ a = 10 := by omega
    have n4 : a ≥ 11 := h
    have hge : (decide (11 < a) || (11 == a) && decide (0 ≤ b)) = true := by
      rcases Nat.lt_or_ge 11 a with h' | h'
      · simp [h']
      · have : a = 11 := by omega
        subst this; simp
    have hlt : (decide (a < 11) || (a == 11) && decide (b < 0)) = false := by
      have : ¬ a < 11 := by omega
      simp [this]
    simp only [e3, n1, n3, n4, hge, hlt, macFormats_eq, decide_true, Bool.true_or, Bool.false_and, Bool.or_false,
      Bool.and_false, Bool.false_eq_true, if_false, if_true, ge_iff_le, List.nil_append]
    have d1 : rangeDown (a + 1) 11 = descending 11 a := (descending_eq 11 a).symm
    have d2 : rangeDown 17 4 = descending 4 16 := (descending_eq 4 16).symm
    rw [d1, d2]
    by_cases hx : arch = sX86_64
    · subst hx; simp
    · have : (arch == sX86_64) = false := by simpa using hx
      simp only [hx, this, if_false, Bool.false_eq_true, flatMap_single]
      simp

/-! ### iOS -/

/-- **ios_platforms = spec** for explicit `(version, multiarch)` arguments -/
theorem ios_eq_spec (release probeMa : Str) (a b : Nat) (ma : Str) :
    iosPlatforms release probeMa (some (a, b)) (some ma) = .ok (iosSpec (a, b) ma) := by
  unfold iosPlatforms iosPlatformsL iosSpec
  have hmap : (ma.map fun c => if c == 45 then 95 else c) = (ma.map fun c => if c = 45 then 95 else c) := by
    apply List.map_congr_left; intro c _; by_cases h : c = 45 <;> simp [h]
  by_cases h : a < 12
  · simp [h]
  · have d0 : descending 0 b = b :: rangeDown b 0 := by
      rw [descending_eq, rangeDown]; simp
    have d1 : descending 12 (a - 1) = rangeDown a 12 := by
      rw [descending_eq]; congr 1; omega
    have d2 : descending 0 iosMaxMinor = rangeDown 10 0 := by rw [descending_eq]; rfl
    simp only [h, if_false, d0, d1, d2, hmap, List.map_cons, List.cons_append]

/-! ### musl -/

theorem musl_eq_spec (cfg : LCfg) (archs : List Str) (V : Nat × Nat) (h : getMuslVersion cfg = some V) :
    musllinuxTags cfg archs = musllinuxSpec V archs := by
  obtain ⟨M, m⟩ := V
  unfold musllinuxTags musllinuxSpec
  simp only [h, descending_eq]

theorem musl_absent (cfg : LCfg) (archs : List Str) (h : getMuslVersion cfg = none) : musllinuxTags cfg archs = [] := by
  simp [musllinuxTags, h]

/-! ### version strings -/

/-- `_parse_glibc_version` reads back a rendered `M.m`, whatever follows (as long as it does not continue the number) -/
theorem glibc_parse_render (M m : Nat) (junk : Str) (hj : ∀ c, junk.head? = some c → isDigit c = false) :
    parseGlibcVersion (dec M ++ 46 :: (dec m ++ junk)) = ((M : Int), (m : Int)) := by
  unfold parseGlibcVersion
  have h1 : spanDigits (dec M ++ 46 :: (dec m ++ junk)) = (dec M, 46 :: (dec m ++ junk)) :=
    spanDigits_dec M _ (by intro c hc; simp at hc; subst hc; decide)
  have h2 : spanDigits (dec m ++ junk) = (dec m, junk) := spanDigits_dec m junk hj
  have e1 : (dec M).isEmpty = false := by
    cases hd : dec M with
    | nil => exact absurd hd (dec_ne_nil M)
    | cons _ _ => rfl
  have e2 : (dec m).isEmpty = false := by
    cases hd : dec m with
    | nil => exact absurd hd (dec_ne_nil m)
    | cons _ _ => rfl
  simp only [h1, h2, e1, e2, Bool.false_eq_true, if_false, undec_dec]

end PlatL
