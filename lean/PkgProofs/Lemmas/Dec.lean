import PkgModel.Py
/-! decimal rendering / scanning lemmas -/
namespace Py

theorem undecAux_append (acc : Nat) (s t : Str) :
    undecAux (s ++ t) acc = undecAux t (undecAux s acc) := by
  induction s generalizing acc with
  | nil => rfl
  | cons c cs ih => simp only [List.cons_append, undecAux]; exact ih _

theorem decAux_spec (fuel n : Nat) (acc : Str) (h : n < fuel) :
    ∃ ds, decAux fuel n acc = ds ++ acc ∧ ds ≠ [] ∧ (∀ c ∈ ds, isDigit c = true) ∧
      (∀ a, undecAux ds a = a * 10 ^ ds.length + n) ∧ (n ≠ 0 → ds.head? ≠ some 48) := by
  induction fuel generalizing n acc with
  | zero => omega
  | succ f ih =>
    unfold decAux
    split
    · rename_i hn
      refine ⟨[48 + n], by simp, by simp, ?_, ?_, ?_⟩
      · intro c hc; simp at hc; subst hc; simp [isDigit]; omega
      · intro a; simp [undecAux]
      · intro h0; simp; omega
    · rename_i hn
      have hlt : n / 10 < f := by omega
      obtain ⟨ds, h1, h2, h3, h4, h5⟩ := ih (n / 10) ((48 + n % 10) :: acc) hlt
      refine ⟨ds ++ [48 + n % 10], by simp [h1], by simp, ?_, ?_, ?_⟩
      · intro c hc; simp at hc; rcases hc with hc | hc
        · exact h3 c hc
        · subst hc; simp [isDigit]; omega
      · intro a; rw [undecAux_append, h4]; simp [undecAux, Nat.pow_succ]
        have := Nat.div_add_mod n 10
        rw [Nat.add_mul, Nat.mul_assoc]; omega
      · intro _
        have : n / 10 ≠ 0 := by omega
        have := h5 this
        cases ds with
        | nil => exact absurd rfl h2
        | cons d ds' => simpa using this

theorem dec_digits (n : Nat) : ∀ c ∈ dec n, isDigit c = true := by
  obtain ⟨ds, h1, _, h3, _, _⟩ := decAux_spec (n + 1) n [] (by omega)
  simp [dec, h1]; exact h3

theorem dec_ne_nil (n : Nat) : dec n ≠ [] := by
  obtain ⟨ds, h1, h2, _, _, _⟩ := decAux_spec (n + 1) n [] (by omega)
  simp [dec, h1]; exact h2

theorem undec_dec (n : Nat) : undec (dec n) = n := by
  obtain ⟨ds, h1, _, _, h4, _⟩ := decAux_spec (n + 1) n [] (by omega)
  simp [dec, undec, h1, h4]

theorem dec_inj {m n : Nat} (h : dec m = dec n) : m = n := by
  rw [← undec_dec m, ← undec_dec n, h]

theorem spanDigits_append (ds rest : Str) (hd : ∀ c ∈ ds, isDigit c = true)
    (hr : ∀ c, rest.head? = some c → isDigit c = false) :
    spanDigits (ds ++ rest) = (ds, rest) := by
  induction ds with
  | nil =>
    cases rest with
    | nil => rfl
    | cons c cs => simp [spanDigits, hr c rfl]
  | cons d ds ih =>
    have hd' : ∀ c ∈ ds, isDigit c = true := fun c hc => hd c (by simp [hc])
    simp [spanDigits, hd d (by simp), ih hd']

theorem spanDigits_dec (n : Nat) (rest : Str)
    (hr : ∀ c, rest.head? = some c → isDigit c = false) :
    spanDigits (dec n ++ rest) = (dec n, rest) :=
  spanDigits_append _ _ (dec_digits n) hr

end Py
