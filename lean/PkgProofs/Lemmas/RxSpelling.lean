import PkgProofs.Lemmas.RxKinds
import PkgProofs.Lemmas.SpellBasic
/-!
# The spec regex `Pep440Rx.version` describes exactly the renderings of `Spelling`s

Generic in the class table (`RxK.Ctx`): for any table consistent with `kindCI`,
`M ctx (Pep440Rx.version kinds) s ↔ ∃ sp, Spelling.Valid sp ∧ Spelling.render sp = s`.
One lemma per grammar component (`M_digits`, `M_release`, `M_group`, `M_post`, `M_local`, …), then
the assembly; the single ambiguity of the grammar (`1.0a-1`) is resolved in `valid_of_grammar`.
-/
namespace RxK
open Rx Py V Spelling

theorem kp_sep : KP [Kinds.dot, Kinds.dash, Kinds.under] isSep :=
  KP.of_low (by decide) (by decide +kernel) (by intro cp h; simp [isSep]; omega)

theorem kp_ws : KP [Kinds.ws] isSpace :=
  KP.of_low (by decide) (by decide +kernel) (by intro cp h; simp [isSpace]; omega)

/-- `match o with | some x => p x | none => true` -/
def optOk {X : Type} (p : X → Bool) : Option X → Bool
  | some x => p x
  | none => true

namespace Ctx
variable (ctx : Ctx)

theorem M_opt_render {a s} {X : Type} (P : X → Bool) (rend : X → Str)
    (h : ∀ p, ctx.M a p ↔ ∃ x, P x = true ∧ rend x = p) :
    ctx.M (opt a) s ↔ ∃ o : Option X, optOk P o = true ∧ optR rend o = s := by
  rw [M_opt]
  constructor
  · rintro (rfl | hm)
    · exact ⟨none, rfl, rfl⟩
    · obtain ⟨x, hx, rfl⟩ := (h s).mp hm
      exact ⟨some x, hx, rfl⟩
  · rintro ⟨o, ho, rfl⟩
    cases o with
    | none => exact Or.inl rfl
    | some x => exact Or.inr ((h _).mpr ⟨x, ho, rfl⟩)

/-! ### components -/

theorem M_digits {s} : ctx.M (Pep440Rx.digits ctx.kinds) s ↔ digitsOk s = true := by
  rw [Pep440Rx.digits, Pep440Rx.D, ctx.M_plus_K kp_digit, digitsOk_iff]

theorem M_ws {s} : ctx.M (R.star (Pep440Rx.wsp ctx.kinds)) s ↔ s.all isSpace = true := by
  rw [Pep440Rx.wsp, ctx.M_star_K kp_ws]; simp [List.all_eq_true]

theorem M_optsep {s} : ctx.M (opt (Pep440Rx.sepc ctx.kinds)) s ↔ ∃ sep : Sep, sep.render = s := by
  rw [M_opt, Pep440Rx.sepc, ctx.M_K' kp_sep]
  constructor
  · rintro (rfl | ⟨c, rfl, hc⟩)
    · exact ⟨.none, rfl⟩
    · simp only [isSep, Bool.or_eq_true, beq_iff_eq] at hc
      rcases hc with (rfl | rfl) | rfl
      · exact ⟨.dash, rfl⟩
      · exact ⟨.under, rfl⟩
      · exact ⟨.dot, rfl⟩
  · rintro ⟨sep, rfl⟩
    cases sep
    · exact Or.inl rfl
    all_goals exact Or.inr ⟨_, rfl, by decide⟩

theorem M_optdigits {s} : ctx.M (opt (Pep440Rx.digits ctx.kinds)) s ↔
    ∃ o : Option Digits, optOk digitsOk o = true ∧ o.getD [] = s := by
  rw [M_opt, M_digits]
  constructor
  · rintro (rfl | h)
    · exact ⟨none, rfl, rfl⟩
    · exact ⟨some s, h, rfl⟩
  · rintro ⟨o, ho, rfl⟩
    cases o with
    | none => exact Or.inl rfl
    | some d => exact Or.inr ho

theorem M_v {s} : ctx.M (opt (Pep440Rx.w ctx.kinds "v")) s ↔
    ∃ o : Option Nat, optOk (fun c => lowerAscii c == 118) o = true ∧ optR (fun c => [c]) o = s := by
  apply ctx.M_opt_render
  · intro p
    rw [Pep440Rx.w, ctx.M_word "v" (by decide)]
    constructor
    · intro h
      cases p with
      | nil => simp [lowerStr, ofString] at h
      | cons c t =>
        have : ofString "v" = [118] := by decide
        simp only [lowerStr, this, List.map_cons, List.cons.injEq, List.map_eq_nil_iff] at h
        obtain ⟨h1, rfl⟩ := h
        exact ⟨c, by simp [h1], rfl⟩
    · rintro ⟨c, hc, rfl⟩
      simp only [beq_iff_eq] at hc
      have : ofString "v" = [118] := by decide
      simp [lowerStr, hc, this]

theorem M_epoch {s} : ctx.M (Pep440Rx.epoch ctx.kinds) s ↔
    ∃ o : Option Digits, optOk digitsOk o = true ∧ optR (fun d => d ++ [33]) o = s := by
  rw [Pep440Rx.epoch]
  apply ctx.M_opt_render
  · intro p
    simp only [Kinds.seq, M_cat, M_digits, ctx.M_K' kp_bang]
    constructor
    · rintro ⟨u, v, rfl, hu, c, rfl, hc⟩
      simp only [beq_iff_eq] at hc; subst hc
      exact ⟨u, hu, rfl⟩
    · rintro ⟨d, hd, rfl⟩
      exact ⟨d, [33], rfl, hd, 33, rfl, by decide⟩

theorem relRender_eq (ds : List Digits) : relRender ds = (ds.map fun d => 46 :: d).flatten := by
  induction ds with
  | nil => rfl
  | cons d ds ih => simp [relRender, ih]

theorem M_dotdigits (p : Str) : ctx.M (.cat (Kinds.K ctx.kinds [Kinds.dot]) (Pep440Rx.digits ctx.kinds)) p ↔
    ∃ d : Digits, digitsOk d = true ∧ (46 :: d) = p := by
  simp only [M_cat, M_digits, ctx.M_K' kp_dot]
  constructor
  · rintro ⟨u, v, rfl, ⟨c, rfl, hc⟩, hv⟩
    simp only [beq_iff_eq] at hc; subst hc
    exact ⟨v, hv, rfl⟩
  · rintro ⟨d, hd, rfl⟩
    exact ⟨[46], d, rfl, ⟨46, rfl, by decide⟩, hd⟩

theorem M_release {s} : ctx.M (Pep440Rx.release ctx.kinds) s ↔
    ∃ (d : Digits) (ds : List Digits), digitsOk d = true ∧ ds.all digitsOk = true ∧ d ++ relRender ds = s := by
  rw [Pep440Rx.release]
  simp only [Kinds.seq, M_cat, M_digits]
  simp only [ctx.M_star_render (fun d : Digits => digitsOk d = true) (fun d => 46 :: d) ctx.M_dotdigits]
  constructor
  · rintro ⟨u, v, rfl, hu, ds, hds, rfl⟩
    exact ⟨u, ds, hu, by simpa [List.all_eq_true] using hds, by rw [relRender_eq]⟩
  · rintro ⟨d, ds, hd, hds, rfl⟩
    exact ⟨d, _, rfl, hd, ds, by simpa [List.all_eq_true] using hds, (relRender_eq ds).symm⟩

/-- `[-_.]? word [-_.]? digits?` for any word list whose alternation is described by `text` -/
theorem M_group {W : Type} (wordsRx : R) (text : W → Str)
    (hw : ∀ x, ctx.M wordsRx x ↔ ∃ k : W, lowerStr x = text k) {s} :
    ctx.M (Kinds.seq [opt (Pep440Rx.sepc ctx.kinds), wordsRx, opt (Pep440Rx.sepc ctx.kinds),
      opt (Pep440Rx.digits ctx.kinds)]) s ↔ ∃ g : Group W, g.ok text = true ∧ g.render = s := by
  simp only [Kinds.seq, M_cat, M_optsep, M_optdigits, hw]
  constructor
  · rintro ⟨_, _, rfl, ⟨sep1, rfl⟩, word, _, rfl, ⟨k, hk⟩, _, _, rfl, ⟨sep2, rfl⟩, o, ho, rfl⟩
    refine ⟨⟨sep1, k, word, sep2, o⟩, ?_, rfl⟩
    simp only [Group.ok, Bool.and_eq_true, beq_iff_eq]
    exact ⟨hk, by cases o <;> simp [optOk] at ho ⊢ <;> exact ho⟩
  · rintro ⟨⟨sep1, k, word, sep2, o⟩, hg, rfl⟩
    simp only [Group.ok, Bool.and_eq_true, beq_iff_eq] at hg
    exact ⟨_, _, rfl, ⟨sep1, rfl⟩, word, _, rfl, ⟨k, hg.1⟩, _, _, rfl, ⟨sep2, rfl⟩, o,
      by have h2 := hg.2; cases o <;> simp [optOk] at h2 ⊢ <;> exact h2, rfl⟩

theorem M_preL (x : Str) : ctx.M (Pep440Rx.preL ctx.kinds) x ↔ ∃ k : PreWord, lowerStr x = k.text := by
  simp only [Pep440Rx.preL, List.map, Kinds.alts, M_alt, Pep440Rx.w,
    ctx.M_word "alpha" (by decide), ctx.M_word "a" (by decide), ctx.M_word "beta" (by decide),
    ctx.M_word "b" (by decide), ctx.M_word "preview" (by decide), ctx.M_word "pre" (by decide),
    ctx.M_word "c" (by decide), ctx.M_word "rc" (by decide)]
  constructor
  · rintro (h | h | h | h | h | h | h | h)
    · exact ⟨.alpha, h⟩
    · exact ⟨.a, h⟩
    · exact ⟨.beta, h⟩
    · exact ⟨.b, h⟩
    · exact ⟨.preview, h⟩
    · exact ⟨.pre, h⟩
    · exact ⟨.c, h⟩
    · exact ⟨.rc, h⟩
  · rintro ⟨k, h⟩
    cases k <;> simp only [PreWord.text] at h <;> simp [h]

theorem M_postL (x : Str) : ctx.M (Pep440Rx.postL ctx.kinds) x ↔ ∃ k : PostWord, lowerStr x = k.text := by
  simp only [Pep440Rx.postL, List.map, Kinds.alts, M_alt, Pep440Rx.w,
    ctx.M_word "post" (by decide), ctx.M_word "rev" (by decide), ctx.M_word "r" (by decide)]
  constructor
  · rintro (h | h | h)
    · exact ⟨.post, h⟩
    · exact ⟨.rev, h⟩
    · exact ⟨.r, h⟩
  · rintro ⟨k, h⟩
    cases k <;> simp only [PostWord.text] at h <;> simp [h]

theorem M_devL (x : Str) : ctx.M (Pep440Rx.w ctx.kinds "dev") x ↔ ∃ _k : Unit, lowerStr x = devText := by
  rw [Pep440Rx.w, ctx.M_word "dev" (by decide)]
  exact ⟨fun h => ⟨(), h⟩, fun ⟨_, h⟩ => h⟩

theorem M_pre {s} : ctx.M (Pep440Rx.pre ctx.kinds) s ↔ ∃ g : Group PreWord, g.ok PreWord.text = true ∧ g.render = s :=
  ctx.M_group _ _ ctx.M_preL

theorem M_dev {s} : ctx.M (Pep440Rx.dev ctx.kinds) s ↔
    ∃ g : Group Unit, g.ok (fun _ => devText) = true ∧ g.render = s :=
  ctx.M_group _ _ ctx.M_devL

theorem M_post {s} : ctx.M (Pep440Rx.post ctx.kinds) s ↔ ∃ p : Post, p.ok = true ∧ p.render = s := by
  rw [Pep440Rx.post]
  simp only [Kinds.alts, M_alt, ctx.M_group _ _ ctx.M_postL]
  simp only [Kinds.seq, M_cat, M_digits, ctx.M_K' kp_dash]
  constructor
  · rintro (⟨u, v, rfl, ⟨c, rfl, hc⟩, hv⟩ | ⟨g, hg, rfl⟩)
    · simp only [beq_iff_eq] at hc; subst hc
      exact ⟨.implicit v, hv, rfl⟩
    · exact ⟨.spelled g, hg, rfl⟩
  · rintro ⟨p, hp, rfl⟩
    cases p with
    | implicit n => exact Or.inl ⟨[45], n, rfl, ⟨45, rfl, by decide⟩, hp⟩
    | spelled g => exact Or.inr ⟨g, hp, rfl⟩

theorem restRender_eq (r : List (Sep × Str)) : restRender r = (r.map fun p => p.1.render ++ p.2).flatten := by
  induction r with
  | nil => rfl
  | cons p r ih => obtain ⟨a, b⟩ := p; simp [restRender, ih]

theorem M_seg {s} : ctx.M (Rx.plus (Pep440Rx.alnum ctx.kinds)) s ↔ segOk s = true := by
  rw [Pep440Rx.alnum, ctx.M_plus_K kp_alnum]
  simp [segOk]

theorem M_local {s} : ctx.M (Pep440Rx.localLabel ctx.kinds) s ↔ ∃ l : Local, l.ok = true ∧ l.render = s := by
  have hpart : ∀ q, ctx.M (.cat (Pep440Rx.sepc ctx.kinds) (Rx.plus (Pep440Rx.alnum ctx.kinds))) q ↔
      ∃ p : Sep × Str, (p.1 != Sep.none && segOk p.2) = true ∧ p.1.render ++ p.2 = q := by
    intro q
    simp only [M_cat, M_seg, Pep440Rx.sepc, ctx.M_K' kp_sep]
    constructor
    · rintro ⟨u, v, rfl, ⟨c, rfl, hc⟩, hv⟩
      simp only [isSep, Bool.or_eq_true, beq_iff_eq] at hc
      rcases hc with (rfl | rfl) | rfl
      · exact ⟨(.dash, v), by simpa using hv, rfl⟩
      · exact ⟨(.under, v), by simpa using hv, rfl⟩
      · exact ⟨(.dot, v), by simpa using hv, rfl⟩
    · rintro ⟨⟨sep, x⟩, hp, rfl⟩
      simp only [Bool.and_eq_true, bne_iff_ne, ne_eq] at hp
      cases sep
      · exact absurd rfl hp.1
      all_goals exact ⟨_, x, rfl, ⟨_, rfl, by decide⟩, hp.2⟩
  rw [Pep440Rx.localLabel]
  simp only [Kinds.seq, M_cat, M_seg, ctx.M_K' kp_plus]
  simp only [ctx.M_star_render (fun p : Sep × Str => (p.1 != Sep.none && segOk p.2) = true)
    (fun p => p.1.render ++ p.2) hpart]
  constructor
  · rintro ⟨_, _, rfl, ⟨c, rfl, hc⟩, first, _, rfl, hf, rest, hrest, rfl⟩
    simp only [beq_iff_eq] at hc; subst hc
    refine ⟨⟨first, rest⟩, ?_, by simp [Local.render, restRender_eq]⟩
    simp only [Local.ok, Bool.and_eq_true, List.all_eq_true]
    exact ⟨hf, fun p hp => by simpa using hrest p hp⟩
  · rintro ⟨⟨first, rest⟩, hl, rfl⟩
    simp only [Local.ok, Bool.and_eq_true, List.all_eq_true] at hl
    exact ⟨[43], _, rfl, ⟨43, rfl, by decide⟩, first, _, rfl, hl.1, rest,
      fun p hp => by simpa using hl.2 p hp, (restRender_eq rest).symm⟩

end Ctx

/-! ### assembly -/

/-- `Valid` without the disambiguation clause: the trees of the Appendix B grammar -/
def Grammar (sp : Spelling) : Bool :=
  sp.ws1.all isSpace && sp.ws2.all isSpace &&
  optOk (fun c => lowerAscii c == 118) sp.v &&
  optOk digitsOk sp.epoch &&
  digitsOk sp.rel0 && sp.rels.all digitsOk &&
  optOk (Group.ok PreWord.text) sp.pre &&
  optOk Post.ok sp.post &&
  optOk (Group.ok (fun _ => devText)) sp.dev &&
  optOk Local.ok sp.loc

theorem valid_eq (sp : Spelling) : Valid sp = (Grammar sp && !ambiguous sp) := by
  obtain ⟨ws1, v, ep, rel0, rels, pre, post, dev, loc, ws2⟩ := sp
  cases v <;> cases ep <;> cases pre <;> cases post <;> cases dev <;> cases loc <;> rfl

/-- the ambiguous tree `word` + `-N` has the same rendering as the tree where `-N` is the word's number -/
theorem valid_of_grammar (sp : Spelling) (h : Grammar sp = true) :
    ∃ sq : Spelling, Valid sq = true ∧ render sq = render sp := by
  by_cases ha : ambiguous sp = true
  · obtain ⟨ws1, v, ep, rel0, rels, pre, post, dev, loc, ws2⟩ := sp
    simp only [ambiguous] at ha
    cases pre with
    | none => simp at ha
    | some g =>
      cases post with
      | none => simp at ha
      | some p =>
        cases p with
        | spelled _ => simp at ha
        | implicit n =>
          simp only [Group.bare, Bool.and_eq_true, beq_iff_eq, Option.isNone_iff_eq_none] at ha
          obtain ⟨sep1, k, word, sep2, num⟩ := g
          simp only at ha
          obtain ⟨rfl, rfl⟩ := ha
          simp only [Grammar, Bool.and_eq_true, optOk, Group.ok, Post.ok, beq_iff_eq] at h
          obtain ⟨⟨⟨⟨⟨⟨⟨⟨⟨hws1, hws2⟩, hv⟩, hep⟩, hrel0⟩, hrels⟩, hpre'⟩, hpost'⟩, hdev'⟩, hloc'⟩ := h
          refine ⟨⟨ws1, v, ep, rel0, rels, some ⟨sep1, k, word, .dash, some n⟩, none, dev, loc, ws2⟩, ?_, ?_⟩
          · rw [valid_eq]
            simp only [Grammar, Bool.and_eq_true, optOk, Group.ok, beq_iff_eq, ambiguous, Bool.not_eq_true']
            exact ⟨⟨⟨⟨⟨⟨⟨⟨⟨⟨hws1, hws2⟩, hv⟩, hep⟩, hrel0⟩, hrels⟩, hpre'.1, hpost'⟩, trivial⟩, hdev'⟩, hloc'⟩, trivial⟩
          · simp [render, optR, Group.render, Post.render, Sep.render]
  · exact ⟨sp, by rw [valid_eq, h]; simpa using ha, rfl⟩

namespace Ctx
variable (ctx : Ctx)

theorem M_version_grammar {s} :
    ctx.M (Pep440Rx.version ctx.kinds) s ↔ ∃ sp : Spelling, Grammar sp = true ∧ render sp = s := by
  have hpre := fun s => ctx.M_opt_render (s := s) (Group.ok PreWord.text) Group.render (fun p => ctx.M_pre)
  have hpost := fun s => ctx.M_opt_render (s := s) Post.ok Post.render (fun p => ctx.M_post)
  have hdev := fun s => ctx.M_opt_render (s := s) (Group.ok (fun _ : Unit => devText)) Group.render (fun p => ctx.M_dev)
  have hloc := fun s => ctx.M_opt_render (s := s) Local.ok Local.render (fun p => ctx.M_local)
  rw [Pep440Rx.version]
  simp only [Kinds.seq, M_cat, M_ws, M_v, M_epoch, M_release, hpre, hpost, hdev, hloc]
  constructor
  · rintro ⟨ws1, _, rfl, hws1, _, _, rfl, ⟨v, hv, rfl⟩, _, _, rfl, ⟨ep, hep, rfl⟩, _, _, rfl,
      ⟨rel0, rels, hrel0, hrels, rfl⟩, _, _, rfl, ⟨pre, hpre', rfl⟩, _, _, rfl, ⟨post, hpost', rfl⟩,
      _, _, rfl, ⟨dev, hdev', rfl⟩, _, ws2, rfl, ⟨loc, hloc', rfl⟩, hws2⟩
    refine ⟨⟨ws1, v, ep, rel0, rels, pre, post, dev, loc, ws2⟩, ?_, by simp [render]⟩
    simp only [Grammar, Bool.and_eq_true]
    exact ⟨⟨⟨⟨⟨⟨⟨⟨⟨hws1, hws2⟩, hv⟩, hep⟩, hrel0⟩, hrels⟩, hpre'⟩, hpost'⟩, hdev'⟩, hloc'⟩
  · rintro ⟨⟨ws1, v, ep, rel0, rels, pre, post, dev, loc, ws2⟩, hg, rfl⟩
    simp only [Grammar, Bool.and_eq_true] at hg
    obtain ⟨⟨⟨⟨⟨⟨⟨⟨⟨hws1, hws2⟩, hv⟩, hep⟩, hrel0⟩, hrels⟩, hpre'⟩, hpost'⟩, hdev'⟩, hloc'⟩ := hg
    exact ⟨ws1, _, rfl, hws1, _, _, rfl, ⟨v, hv, rfl⟩, _, _, rfl, ⟨ep, hep, rfl⟩, _, _, by simp,
      ⟨rel0, rels, hrel0, hrels, rfl⟩, _, _, rfl, ⟨pre, hpre', rfl⟩, _, _, rfl, ⟨post, hpost', rfl⟩,
      _, _, rfl, ⟨dev, hdev', rfl⟩, _, ws2, rfl, ⟨loc, hloc', rfl⟩, hws2⟩

/-- **the spec regex accepts exactly the renderings of valid spellings** -/
theorem M_version_iff_spelling {s} :
    ctx.M (Pep440Rx.version ctx.kinds) s ↔ ∃ sp : Spelling, Valid sp = true ∧ render sp = s := by
  rw [M_version_grammar]
  constructor
  · rintro ⟨sp, hg, rfl⟩; exact valid_of_grammar sp hg
  · rintro ⟨sp, hv, rfl⟩
    rw [valid_eq, Bool.and_eq_true] at hv
    exact ⟨sp, hv.1, rfl⟩

end Ctx
end RxK
