import PkgModel.Spec.Pep440
/-! Total comparison functions are closed under lexicographic constructions -/
namespace O
open Pep440 (lexList)

structure TotalCmp {α : Type} (c : α → α → Ordering) : Prop where
  eq_iff : ∀ a b, c a b = .eq ↔ a = b
  swap : ∀ a b, c b a = (c a b).swap
  trans : ∀ a b d, c a b = .lt → c b d = .lt → c a d = .lt

theorem TotalCmp.refl {α} {c : α → α → Ordering} (h : TotalCmp c) (a : α) : c a a = .eq :=
  (h.eq_iff a a).mpr rfl

theorem TotalCmp.gt_iff {α} {c : α → α → Ordering} (h : TotalCmp c) (a b : α) :
    c a b = .gt ↔ c b a = .lt := by
  rw [h.swap a b]; cases c a b <;> simp [Ordering.swap]

theorem natCmp : TotalCmp (compare : Nat → Nat → Ordering) where
  eq_iff a b := by simp [Nat.compare_eq_eq]
  swap a b := by rw [Nat.compare_swap]
  trans a b d := by
    simp only [Nat.compare_eq_lt]; omega

/-- lexicographic pair -/
def lexPair {α β} (c1 : α → α → Ordering) (c2 : β → β → Ordering) (x y : α × β) : Ordering :=
  (c1 x.1 y.1).then (c2 x.2 y.2)

theorem lexPair_total {α β} {c1 : α → α → Ordering} {c2 : β → β → Ordering}
    (h1 : TotalCmp c1) (h2 : TotalCmp c2) : TotalCmp (lexPair c1 c2) where
  eq_iff := by
    rintro ⟨a1, a2⟩ ⟨b1, b2⟩
    simp only [lexPair, Prod.mk.injEq]
    have e1 := h1.eq_iff a1 b1; have e2 := h2.eq_iff a2 b2
    cases h : c1 a1 b1 <;> simp_all [Ordering.then]
  swap := by
    rintro ⟨a1, a2⟩ ⟨b1, b2⟩
    simp only [lexPair]
    rw [h1.swap a1 b1, h2.swap a2 b2]
    cases c1 a1 b1 <;> simp [Ordering.then, Ordering.swap]
  trans := by
    rintro ⟨a1, a2⟩ ⟨b1, b2⟩ ⟨d1, d2⟩
    simp only [lexPair]
    intro hab hbd
    cases h : c1 a1 b1 with
    | gt => simp [h, Ordering.then] at hab
    | lt =>
      cases h' : c1 b1 d1 with
      | gt => simp [h', Ordering.then] at hbd
      | lt => simp [h1.trans _ _ _ h h', Ordering.then]
      | eq => have := (h1.eq_iff _ _).mp h'; subst this; simp [h, Ordering.then]
    | eq =>
      have := (h1.eq_iff _ _).mp h; subst this
      cases h' : c1 a1 d1 with
      | gt => simp [h', Ordering.then] at hbd
      | lt => simp [Ordering.then]
      | eq =>
        simp [h, Ordering.then] at hab
        simp [h', Ordering.then] at hbd
        simp [Ordering.then, h2.trans _ _ _ hab hbd]

theorem lexList_total {α} {c : α → α → Ordering} (h : TotalCmp c) : TotalCmp (lexList c) where
  eq_iff := by
    intro a
    induction a with
    | nil => intro b; cases b <;> simp [lexList]
    | cons x xs ih =>
      intro b; cases b with
      | nil => simp [lexList]
      | cons y ys =>
        simp only [lexList, List.cons.injEq]
        have e1 := h.eq_iff x y; have e2 := ih ys
        cases hc : c x y <;> simp_all [Ordering.then]
  swap := by
    intro a
    induction a with
    | nil => intro b; cases b <;> simp [lexList, Ordering.swap]
    | cons x xs ih =>
      intro b; cases b with
      | nil => simp [lexList, Ordering.swap]
      | cons y ys =>
        simp only [lexList]
        rw [h.swap x y, ih ys]
        cases c x y <;> simp [Ordering.then, Ordering.swap]
  trans := by
    intro a
    induction a with
    | nil =>
      intro b d hab hbd
      cases b with
      | nil => simp [lexList] at hab
      | cons y ys => cases d with
        | nil => simp [lexList] at hbd
        | cons z zs => simp [lexList]
    | cons x xs ih =>
      intro b d hab hbd
      cases b with
      | nil => simp [lexList] at hab
      | cons y ys =>
        cases d with
        | nil => simp [lexList] at hbd
        | cons z zs =>
          simp only [lexList] at hab hbd ⊢
          cases h1 : c x y with
          | gt => simp [h1, Ordering.then] at hab
          | lt =>
            cases h2 : c y z with
            | gt => simp [h2, Ordering.then] at hbd
            | lt => simp [h.trans _ _ _ h1 h2, Ordering.then]
            | eq => have := (h.eq_iff _ _).mp h2; subst this; simp [h1, Ordering.then]
          | eq =>
            have := (h.eq_iff _ _).mp h1; subst this
            cases h2 : c x z with
            | gt => simp [h2, Ordering.then] at hbd
            | lt => simp [Ordering.then]
            | eq =>
              simp [h1, Ordering.then] at hab
              simp [h2, Ordering.then] at hbd
              simp [Ordering.then, ih _ _ hab hbd]

end O
