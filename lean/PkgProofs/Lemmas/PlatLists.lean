import PkgProofs.Lemmas.TagLists
import PkgModel.Spec.Platform
namespace PlatL
open Py Tags Plat PlatSpec TagL

theorem descending_eq (lo hi : Nat) : descending lo hi = rangeDown (hi + 1) lo := by
  rw [rangeDown_eq]; rfl

theorem mem_rangeDown {hi lo k : Nat} : k ∈ rangeDown hi lo ↔ lo ≤ k ∧ k < hi := by
  rw [rangeDown_eq]; exact mem_olderMinors

theorem mem_descending {lo hi k : Nat} : k ∈ descending lo hi ↔ lo ≤ k ∧ k ≤ hi := by
  rw [descending_eq, mem_rangeDown]; omega

theorem downFrom_nonpos (hi lo : Int) (h : hi ≤ lo) : downFrom hi lo = [] := by
  have : (hi - lo).toNat = 0 := by omega
  simp [downFrom, this]

theorem downFrom_pos (hi lo : Int) (h : lo < hi) : downFrom hi lo = hi :: downFrom (hi - 1) lo := by
  have : (hi - lo).toNat = (hi - 1 - lo).toNat + 1 := by omega
  simp only [downFrom, this, List.range_succ_eq_map, List.map_cons, List.map_map]
  congr 1
  · simp
  · apply List.map_congr_left
    intro k _
    simp only [Function.comp, Nat.succ_eq_add_one]
    omega

theorem downFrom_nat (h l : Nat) :
    downFrom (h : Int) ((l : Int) - 1) = (rangeDown (h + 1) l).map (fun (k : Nat) => (k : Int)) := by
  induction h with
  | zero =>
    by_cases hl : l = 0
    · subst hl
      rw [downFrom_pos _ _ (by omega), downFrom_nonpos _ _ (by omega)]
      simp [rangeDown]
    · rw [downFrom_nonpos _ _ (by omega)]
      have : ¬ l ≤ 0 := by omega
      simp [rangeDown, this]
  | succ h ih =>
    by_cases hl : l ≤ h + 1
    · rw [downFrom_pos _ _ (by omega)]
      have : ((h + 1 : Nat) : Int) - 1 = (h : Int) := by omega
      rw [this, ih]
      conv => rhs; rw [rangeDown]
      simp [hl]
    · rw [downFrom_nonpos _ _ (by omega)]
      conv => rhs; rw [rangeDown]
      simp [hl]

theorem fmtInt_nat (n : Nat) : fmtInt (n : Int) = dec n := by
  have : ¬ ((n : Int) < 0) := by omega
  simp [fmtInt, this]

/-! ### the regenerated legacy map is the PEP table -/

theorem legacy_lookup (v : Nat × Nat) : Gen.TagTables.legacyManylinuxMap.lookup v = legacyName v := by
  obtain ⟨a, b⟩ := v
  by_cases h1 : (a, b) = (2, 17)
  · rw [h1]; decide
  by_cases h2 : (a, b) = (2, 12)
  · rw [h2]; decide
  by_cases h3 : (a, b) = (2, 5)
  · rw [h3]; decide
  have e1 : ((a, b) == ((2, 17) : Nat × Nat)) = false := by simpa using h1
  have e2 : ((a, b) == ((2, 12) : Nat × Nat)) = false := by simpa using h2
  have e3 : ((a, b) == ((2, 5) : Nat × Nat)) = false := by simpa using h3
  simp [Gen.TagTables.legacyManylinuxMap, legacyName, pep513, pep571, pep599, List.lookup, e1, e2, e3]

theorem legacyAlias_nat (a b : Nat) : legacyAlias ((a : Int), (b : Int)) = legacyName (a, b) := by
  have h1 : ¬ ((a : Int) < 0) := by omega
  have h2 : ¬ ((b : Int) < 0) := by omega
  simp [legacyAlias, h1, h2, legacy_lookup]

/-! ### policy -/

theorem pairLt_nat (a b c d : Nat) :
    pairLt ((a : Int), (b : Int)) ((c : Int), (d : Int)) = (decide (a < c) || (a == c && decide (b < d))) := by
  have e : ((a : Int) == (c : Int)) = (a == c) := by
    by_cases h : a = c
    · subst h; simp
    · have : ¬ ((a : Int) = (c : Int)) := by omega
      simp [h, this]
  simp [pairLt, e]

/-- on the versions the generator visits (never newer than the running glibc) `_is_compatible` is the policy's verdict -/
theorem isCompatible_eq (cfg : LCfg) (arch : Str) (G v : Nat × Nat)
    (hG : getGlibcVersion cfg.confstr cfg.ctypesVersion = ((G.1 : Int), (G.2 : Int)))
    (hle : v.1 < G.1 ∨ (v.1 = G.1 ∧ v.2 ≤ G.2)) :
    isCompatible cfg arch ((v.1 : Int), (v.2 : Int)) = policyAllows cfg.policy v arch := by
  have hlt : pairLt ((G.1 : Int), (G.2 : Int)) ((v.1 : Int), (v.2 : Int)) = false := by
    rw [pairLt_nat]
    rcases hle with h | ⟨h1, h2⟩
    · have : ¬ G.1 < v.1 := by omega
      have e : (G.1 == v.1) = false := by simp; omega
      simp [this, e]
    · have : ¬ G.1 < v.1 := by omega
      have : ¬ G.2 < v.2 := by omega
      simp [*]
  unfold isCompatible policyAllows
  rw [hG, hlt]
  simp only [Bool.false_eq_true, if_false]
  cases cfg.policy with
  | absent => rfl
  | func dflt rules =>
    simp only [Int.toNat_natCast]
    cases rules.lookup (v.1, v.2, arch) with
    | none => cases dflt <;> rfl
    | some r => cases r <;> rfl
  | legacy m1 m2010 m2014 =>
    obtain ⟨a, b⟩ := v
    have e : ∀ (x y : Nat) (X Y : Int), X = (x : Int) → Y = (y : Int) →
        ((((a : Int), (b : Int)) : Int × Int) == (X, Y)) = decide ((a, b) = (x, y)) := by
      intro x y X Y hX hY
      subst hX hY
      simp only [Prod.mk.injEq]
      by_cases h : a = x ∧ b = y
      · obtain ⟨rfl, rfl⟩ := h; simp
      · have : ¬ (((a : Int), (b : Int)) = ((x : Int), (y : Int))) := by
          intro hh; simp only [Prod.mk.injEq] at hh; omega
        simp [h, this]
    have e5 := e 2 5 2 5 rfl rfl; have e12 := e 2 12 2 12 rfl rfl; have e17 := e 2 17 2 17 rfl rfl
    simp only [e5, e12, e17]
    by_cases h5 : (a, b) = (2, 5)
    · simp [h5]; cases m1 <;> simp
    by_cases h12 : (a, b) = (2, 12)
    · simp [h12]; cases m2010 <;> simp
    by_cases h17 : (a, b) = (2, 17)
    · simp [h17]; cases m2014 <;> simp
    simp [h5, h12, h17]

/-! ### manylinux: model = spec -/

theorem flatMap_congr' {α β} {l : List α} {f g : α → List β} (h : ∀ x ∈ l, f x = g x) :
    l.flatMap f = l.flatMap g := by
  induction l with
  | nil => rfl
  | cons a t ih =>
    simp only [List.flatMap_cons]
    rw [h a (by simp), ih (fun x hx => h x (by simp [hx]))]

theorem flatMap_map' {α β γ} (l : List α) (f : α → β) (g : β → List γ) :
    (l.map f).flatMap g = l.flatMap (fun a => g (f a)) := by
  induction l with
  | nil => rfl
  | cons a t ih => simp only [List.map_cons, List.flatMap_cons, ih]

/-- one version's contribution in the statement's sequence -/
def bodySpec (allowed : Nat × Nat → Str → Bool) (a : Str) (v : Nat × Nat) : List Str :=
  if allowed v a then
    pep600Tag v a :: (match legacyName v with | some l => [l ++ us ++ a] | none => [])
  else []

/-- one version's contribution in the code (two independent `if _is_compatible` tests) -/
def bodyModel (cfg : LCfg) (arch : Str) (v : Int × Int) : List Str :=
  (if isCompatible cfg arch v then [sManylinux_ ++ fmtInt v.1 ++ us ++ fmtInt v.2 ++ us ++ arch] else [])
  ++ (match legacyAlias v with
      | some l => if isCompatible cfg arch v then [l ++ us ++ arch] else []
      | none => [])

theorem bodyModel_eq (cfg : LCfg) (arch : Str) (G v : Nat × Nat)
    (hG : getGlibcVersion cfg.confstr cfg.ctypesVersion = ((G.1 : Int), (G.2 : Int)))
    (hle : v.1 < G.1 ∨ (v.1 = G.1 ∧ v.2 ≤ G.2)) :
    bodyModel cfg arch ((v.1 : Int), (v.2 : Int)) = bodySpec (policyAllows cfg.policy) arch v := by
  unfold bodyModel bodySpec
  rw [isCompatible_eq cfg arch G v hG hle, legacyAlias_nat]
  simp only [fmtInt_nat, pep600Tag]
  cases policyAllows cfg.policy v arch <;> cases legacyName v <;> simp

theorem lastGlibcMinor_cast (M : Int) : lastGlibcMinor M = (((lastGlibcMinor M).toNat : Nat) : Int) := by
  unfold lastGlibcMinor
  cases Gen.TagTables.lastGlibcMinorTable.lookup M.toNat <;> simp

/-- the glibc floor of an architecture as the exclusive bound the code uses -/
theorem tooOld_eq (arch : Str) :
    (if arch == sX86_64 || arch == sI686 then ((2, 4) : Int × Int) else (2, 16)) =
      ((2 : Int), (((glibcFloor arch).2 : Nat) : Int) - 1) ∧ (glibcFloor arch).1 = 2 := by
  unfold glibcFloor
  by_cases h : arch = sX86_64 ∨ arch = sI686
  · have : (arch == sX86_64 || arch == sI686) = true := by
      rcases h with h | h <;> simp [h]
    simp [h, this]
  · have : (arch == sX86_64 || arch == sI686) = false := by
      simp only [not_or] at h
      simp [h.1, h.2]
    simp [h, this]

/-- the inner two loops (majors, minors) of `_manylinux.platform_tags` for one architecture, on naturals -/
theorem majors_loop (G : Nat × Nat) (h2 : 2 ≤ G.1) (fm : Nat)
    (F : Int × Int → List Str) :
    (((G.1 : Int), (G.2 : Int)) :: (downFrom ((G.1 : Int) - 1) 1).map fun major => (major, lastGlibcMinor major)).flatMap
      (fun gmax =>
        (downFrom gmax.2 (if gmax.1 == (2 : Int) then ((fm : Int) - 1) else -1)).flatMap fun minor => F (gmax.1, minor))
    = (descending 2 G.1).flatMap fun (M : Nat) =>
        (descending (if M = 2 then fm else 0) (if M = G.1 then G.2 else (lastGlibcMinor M).toNat)).flatMap
          fun (m : Nat) => F ((M : Int), (m : Int)) := by
  -- the majors
  have hmaj : downFrom ((G.1 : Int) - 1) 1 = (rangeDown G.1 2).map (fun (k : Nat) => (k : Int)) := by
    have e1 : (G.1 : Int) - 1 = ((G.1 - 1 : Nat) : Int) := by omega
    have e2 : (1 : Int) = ((2 : Nat) : Int) - 1 := by omega
    rw [e1, e2, downFrom_nat]
    congr 2; omega
  have hdesc : descending 2 G.1 = G.1 :: rangeDown G.1 2 := by
    rw [descending_eq, rangeDown]; simp [h2]
  rw [hmaj, hdesc]
  simp only [List.map_map, List.flatMap_cons, flatMap_map']
  -- per-major minor ranges
  have hminor : ∀ (M hi : Nat),
      downFrom (hi : Int) (if ((M : Int) == (2 : Int)) = true then ((fm : Int) - 1) else -1)
        = (descending (if M = 2 then fm else 0) hi).map (fun (k : Nat) => (k : Int)) := by
    intro M hi
    by_cases hM : M = 2
    · subst hM
      have : (((2 : Nat) : Int) == (2 : Int)) = true := by decide
      simp only [this, if_true]
      rw [downFrom_nat, descending_eq]
    · have : ((M : Int) == (2 : Int)) = false := by
        have : ¬ ((M : Int) = 2) := by omega
        simpa using this
      simp only [this, Bool.false_eq_true, if_false, hM]
      have e : (-1 : Int) = ((0 : Nat) : Int) - 1 := by omega
      rw [e, downFrom_nat, descending_eq]
  congr 1
  · rw [hminor G.1 G.2, flatMap_map']
    simp
  · apply flatMap_congr'
    intro M hM
    have hlt : M < G.1 := (mem_rangeDown.mp hM).2
    have hne : M ≠ G.1 := by omega
    simp only [Function.comp, hne, if_false]
    rw [lastGlibcMinor_cast (M : Int), hminor M (lastGlibcMinor (M : Int)).toNat, flatMap_map']
    rw [← lastGlibcMinor_cast (M : Int)]

theorem flatMap_flatMap' {α β γ} (l : List α) (f : α → List β) (g : β → List γ) :
    (l.flatMap f).flatMap g = l.flatMap (fun a => (f a).flatMap g) := by
  induction l with
  | nil => rfl
  | cons a t ih => simp only [List.flatMap_cons, List.flatMap_append, ih]

/-- the statement's sequence for one architecture, as nested loops over majors and minors -/
theorem spec_arch_loop (G : Nat × Nat) (a : Str) (allowed : Nat × Nat → Str → Bool) (last : Nat → Nat) :
    ((glibcVersionsDown G (glibcFloor a) last).flatMap fun v =>
        if allowed v a then
          pep600Tag v a :: (match legacyName v with | some l => [l ++ us ++ a] | none => [])
        else [])
    = (descending 2 G.1).flatMap fun (M : Nat) =>
        (descending (if M = 2 then (glibcFloor a).2 else 0) (if M = G.1 then G.2 else last M)).flatMap
          fun (m : Nat) => bodySpec allowed a (M, m) := by
  have hf1 : (glibcFloor a).1 = 2 := (tooOld_eq a).2
  unfold glibcVersionsDown
  rw [flatMap_flatMap', hf1]
  apply flatMap_congr'
  intro M _
  rw [flatMap_map']
  rfl

/-- **manylinux: model = spec** for every architecture list, every glibc version with major ≥ 2, every policy
    module behaviour and every executable (through `haveCompatibleAbi`). -/
theorem manylinux_eq_spec (cfg : LCfg) (archs : List Str) (G : Nat × Nat)
    (hG : getGlibcVersion cfg.confstr cfg.ctypesVersion = ((G.1 : Int), (G.2 : Int))) (h2 : 2 ≤ G.1) :
    manylinuxTags cfg archs =
      manylinuxSpec G archs (policyAllows cfg.policy) (haveCompatibleAbi cfg archs)
        (fun M => (lastGlibcMinor M).toNat) := by
  unfold manylinuxTags manylinuxSpec
  cases haveCompatibleAbi cfg archs
  · simp
  · simp only [Bool.not_true, Bool.false_eq_true, if_false, hG]
    apply flatMap_congr'
    intro arch _
    refine Eq.trans ?_ (spec_arch_loop G arch (policyAllows cfg.policy) (fun M => (lastGlibcMinor M).toNat)).symm
    obtain ⟨ht, _⟩ := tooOld_eq arch
    have hloop := majors_loop G h2 (glibcFloor arch).2 (bodyModel cfg arch)
    simp only [ht]
    refine Eq.trans hloop ?_
    apply flatMap_congr'
    intro M hM
    apply flatMap_congr'
    intro m hm
    have hMle : M ≤ G.1 := (mem_descending.mp hM).2
    have hmle := (mem_descending.mp hm).2
    apply bodyModel_eq cfg arch G (M, m) hG
    by_cases hMG : M = G.1
    · right; simp only [hMG, if_true] at hmle; exact ⟨hMG, hmle⟩
    · left; show M < G.1; omega

end PlatL
