import PkgModel.Cache
/-!
# C20 — results are deterministic, history-independent and leave inputs untouched

In a pure functional model determinism and "arguments are not modified" hold by construction, so
what is *proved* here is the part that is not free:

* `cache_transparent` — a probe behind `functools.lru_cache` answers exactly what the uncached probe
  would, for every call history and every cache size, as long as the probe itself is a function of
  its argument (the runtime part — that the OS answers the same — cannot be a theorem).
* iteration-order invariance of everything that walks a `frozenset`/`dict` is proved next to the
  models that iterate (see `C05.*perm*`, `C06.set_filter_is_filter`, `C17.errors_are_exactly_offenders`),
  and is listed in this property's evidence once those modules are merged.
-/
namespace C20
open Cache

/-- cache invariant: every stored value is what the wrapped function returns for that argument -/
def Sound {α β} (f : α → β) (s : State α β) : Prop := ∀ p ∈ s.entries, p.2 = f p.1

theorem lookup_sound {α β} [DecidableEq α] (f : α → β) (l : List (α × β)) (a : α) (v : β)
    (h : ∀ p ∈ l, p.2 = f p.1) (hl : lookup a l = some v) : v = f a := by
  induction l with
  | nil => simp [lookup] at hl
  | cons p rest ih =>
    obtain ⟨k, w⟩ := p
    simp only [lookup] at hl
    split at hl
    · rename_i hk; subst hk
      have := h (k, w) (by simp); simp at hl; subst hl; exact this
    · exact ih (fun q hq => h q (by simp [hq])) hl

theorem erase_subset {α β} [DecidableEq α] (a : α) (l : List (α × β)) : ∀ p ∈ erase a l, p ∈ l := by
  induction l with
  | nil => simp [erase]
  | cons q rest ih =>
    obtain ⟨k, w⟩ := q
    intro p hp
    simp only [erase] at hp
    split at hp
    · simp [hp]
    · simp only [List.mem_cons] at hp ⊢
      rcases hp with hp | hp
      · exact Or.inl hp
      · exact Or.inr (ih p hp)

theorem call_sound {α β} [DecidableEq α] (maxsize : Nat) (f : α → β) (s : State α β) (a : α)
    (h : Sound f s) : (call maxsize f s a).2 = f a ∧ Sound f (call maxsize f s a).1 := by
  unfold call
  cases hl : lookup a s.entries with
  | some v =>
    have hv := lookup_sound f s.entries a v h hl
    refine ⟨hv, ?_⟩
    intro p hp
    simp only [List.mem_cons] at hp
    rcases hp with hp | hp
    · subst hp; exact hv
    · exact h p (erase_subset a _ p hp)
  | none =>
    refine ⟨rfl, ?_⟩
    intro p hp
    have := List.mem_of_mem_take hp
    simp only [List.mem_cons] at this
    rcases this with hp' | hp'
    · subst hp'; rfl
    · exact h p hp'

/-- **Cache transparency.** For every history of calls (any arguments, any repetitions, any cache size,
eviction included) the cached probe returns what the uncached probe returns. -/
theorem cache_transparent {α β} [DecidableEq α] (maxsize : Nat) (f : α → β) (calls : List α) :
    run maxsize f empty calls = calls.map f := by
  suffices h : ∀ (s : State α β), Sound f s → run maxsize f s calls = calls.map f from
    h empty (by intro p hp; simp [empty] at hp)
  induction calls with
  | nil => intro s _; rfl
  | cons a as ih =>
    intro s hs
    obtain ⟨h1, h2⟩ := call_sound maxsize f s a hs
    simp only [run, List.map_cons]
    rw [h1, ih _ h2]

/-- the answer to the last call does not depend on what was called before it -/
theorem history_independent {α β} [DecidableEq α] (maxsize : Nat) (f : α → β) (h₁ h₂ : List α) (a : α) :
    (run maxsize f empty (h₁ ++ [a])).getLast? = (run maxsize f empty (h₂ ++ [a])).getLast? := by
  simp [cache_transparent]

-- non-vacuity: a history with a repeat and an eviction (maxsize 1)
example : run 1 (fun n : Nat => n * n) empty [3, 4, 3, 3] = [9, 16, 9, 9] := by decide

end C20
