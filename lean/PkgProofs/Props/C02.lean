import PkgProofs.Lemmas.ScanTrim
import PkgProofs.Lemmas.SpellSound
import PkgProofs.Props.C01
/-!
# C02 — Version components and normal forms are faithful and canonical

Model: `V.scan` (the hand-written scanner for `Version._regex` + `Version.__init__`), `Ver.str`,
`Ver.public`, `Ver.base`, `trimRelease` (`_TrimmedRelease`), `Ver.canon` / `canonicalizeVersion`
(`packaging.utils.canonicalize_version`, both dispatch arms, including the re-parse of `str(version)`).

`WF v` (`PkgProofs/Lemmas/ScanBasic.lean`) is the explicit, decidable predicate of the values the
scanner can produce (`scan_wf`); all round-trip theorems hold for every such value — unbounded
release length, component magnitude and local label.
-/
namespace C02
open V Py

/-! ### 1. `str` is a normal form: it scans back to the same components -/

/-- everything `Version(s)` produces is well formed -/
theorem scan_wf (s : Str) (v : Ver) (h : scan s = some v) : WF v := V.scan_wf s v h

/-- **`Version(str(v))` has identical components**, for every well-formed `v` -/
theorem scan_str (v : Ver) (h : WF v) : scan v.str = some v := V.scan_str v h

/-- `str` is injective on well-formed values: different components never render alike -/
theorem str_inj (v w : Ver) (hv : WF v) (hw : WF w) (h : v.str = w.str) : v = w := by
  have h1 := scan_str v hv
  rw [h, scan_str w hw] at h1
  exact (Option.some.inj h1).symm

/-- parsing `str(Version(s))` again gives identical components and the same string -/
theorem str_idempotent (s : Str) (v : Ver) (h : scan s = some v) :
    scan v.str = some v ∧ ∀ w, scan v.str = some w → w.str = v.str := by
  have := scan_str v (scan_wf s v h)
  refine ⟨this, fun w hw => ?_⟩
  rw [this] at hw; rw [← Option.some.inj hw]

/-- the value read from `Version.public` -/
def noLocal (v : Ver) : Ver := { v with loc := none }
/-- the value read from `Version.base_version` -/
def baseOnly (v : Ver) : Ver := { epoch := v.epoch, release := v.release, pre := none, post := none, dev := none, loc := none }

theorem public_eq_str_noLocal (v : Ver) : v.public = (noLocal v).str := by
  rw [str_eq, public_eq]; simp [noLocal, locS, Ver.base]

theorem base_eq_str_baseOnly (v : Ver) : v.base = (baseOnly v).str := by
  rw [str_eq]; simp [baseOnly, locS, preS, postS, devS, Ver.base]

/-- `Version(v.public)` is `v` without its local label -/
theorem scan_public (v : Ver) (h : WF v) : scan v.public = some { v with loc := none } := by
  rw [public_eq_str_noLocal]
  apply scan_str
  simp only [WF, Ver.wf, Bool.and_eq_true] at h ⊢
  exact ⟨h.1, rfl⟩

/-- `Version(v.base_version)` keeps exactly epoch and release -/
theorem scan_base (v : Ver) (h : WF v) :
    scan v.base = some { epoch := v.epoch, release := v.release, pre := none, post := none, dev := none, loc := none } := by
  rw [base_eq_str_baseOnly]
  apply scan_str
  simp only [WF, Ver.wf, Bool.and_eq_true] at h ⊢
  exact ⟨h.1, rfl⟩

/-! ### 2. `canonicalize_version` -/

/-- `_TrimmedRelease`: the value whose `str` is the canonical form -/
def trimV (v : Ver) : Ver := { v with release := trimRelease v.release }

theorem trimV_wf (v : Ver) (h : WF v) : WF (trimV v) := by
  simp only [WF, Ver.wf, Bool.and_eq_true, trimV] at h ⊢
  refine ⟨?_, h.2⟩
  have := trimRelease_ne_nil v.release (by simpa using h.1)
  simpa using this

/-- on a `Version` object the re-parse of `str(version)` succeeds, and the result is the `str` of the
value with its release trimmed -/
theorem canon_obj (v : Ver) (h : WF v) : v.canon true = some (trimV v).str ∧ v.canon false = some v.str := by
  simp [Ver.canon, scan_str v h, trimV]

/-- the string arm and the `Version` arm agree -/
theorem canon_arms_agree (s : Str) (v : Ver) (b : Bool) (h : scan s = some v) :
    canonicalizeVersion s b = v.canon b := by
  simp [canonicalizeVersion, h]

/-- non-versions are returned unchanged, whatever the flag -/
theorem canon_passthrough (s : Str) (b : Bool) (h : scan s = none) : canonicalizeVersion s b = some s := by
  simp [canonicalizeVersion, h]

/-- with `strip_trailing_zero=False` the canonical form is `str(Version(s))` -/
theorem canon_nostrip_eq_str (s : Str) (v : Ver) (h : scan s = some v) :
    canonicalizeVersion s false = some v.str := by
  simp [canonicalizeVersion, h, Ver.canon]

/-- the inner `_TrimmedRelease(str(version))` never raises `InvalidVersion`: neither arm can fail -/
theorem canon_never_raises (s : Str) (b : Bool) : (canonicalizeVersion s b).isSome = true := by
  cases h : scan s with
  | none => simp [canonicalizeVersion, h]
  | some v =>
    have hw := scan_wf s v h
    cases b <;> simp [canonicalizeVersion, h, (canon_obj v hw).1, (canon_obj v hw).2]

theorem canon_obj_never_raises (v : Ver) (h : WF v) (b : Bool) : (v.canon b).isSome = true := by
  cases b <;> simp [(canon_obj v h).1, (canon_obj v h).2]

theorem cmpkey_trimV (v : Ver) : cmpkey (trimV v) = cmpkey v := by
  rw [cmpkey_eq_iff]; simp [trimV, dtz_trim]

theorem trimV_idem (v : Ver) : trimV (trimV v) = trimV v := by
  simp [trimV, trimRelease_idem]

/-- the canonical form is the `str` of an equal version (made explicit: `trimV v` or `v`) -/
theorem canon_value (s : Str) (v : Ver) (b : Bool) (h : scan s = some v) :
    canonicalizeVersion s b = some (if b then trimV v else v).str := by
  have hw := scan_wf s v h
  cases b <;> simp [canon_arms_agree s v _ h, (canon_obj v hw).1, (canon_obj v hw).2]

/-- **parses back to an equal version** (both flag values) -/
theorem canon_parses_back (s : Str) (v : Ver) (b : Bool) (h : scan s = some v) :
    ∃ c w, canonicalizeVersion s b = some c ∧ scan c = some w ∧ w.eq v = true := by
  have hw := scan_wf s v h
  refine ⟨_, (if b then trimV v else v), canon_value s v b h, ?_, ?_⟩
  · cases b
    · exact scan_str v hw
    · exact scan_str _ (trimV_wf v hw)
  · rw [C01.eq_iff_key_eq]
    cases b
    · rfl
    · exact cmpkey_trimV v

/-- **idempotent** (both flag values, versions and non-versions alike) -/
theorem canon_idem (s c : Str) (b : Bool) (h : canonicalizeVersion s b = some c) :
    canonicalizeVersion c b = some c := by
  cases hs : scan s with
  | none =>
    rw [canon_passthrough s b hs] at h
    rw [← Option.some.inj h]; exact canon_passthrough s b hs
  | some v =>
    have hw := scan_wf s v hs
    rw [canon_value s v b hs] at h
    have hc := Option.some.inj h
    subst hc
    cases b
    · have h1 : scan (if false = true then trimV v else v).str = some v := by simpa using scan_str v hw
      rw [canon_value _ v false h1]
    · have h1 : scan (if true = true then trimV v else v).str = some (trimV v) := by
        simpa using scan_str _ (trimV_wf v hw)
      rw [canon_value _ (trimV v) true h1]
      simp [trimV_idem]

/-- the two flag values compose: stripping after not stripping is stripping -/
theorem canon_strip_after_nostrip (s c : Str) (v : Ver) (h : scan s = some v)
    (hc : canonicalizeVersion s false = some c) : canonicalizeVersion c true = canonicalizeVersion s true := by
  have hw := scan_wf s v h
  rw [canon_value s v false h] at hc
  have := Option.some.inj hc; subst this
  have h1 : scan (if false = true then trimV v else v).str = some v := by simpa using scan_str v hw
  rw [canon_value _ v true h1, canon_value s v true h]

/-! ### 3. The canonical string is a complete invariant of version equality -/

/-- on `Version` objects: **equal versions ⇔ identical canonical strings** -/
theorem canon_complete_invariant (v w : Ver) (hv : WF v) (hw : WF w) :
    v.canon true = w.canon true ↔ v.eq w = true := by
  rw [(canon_obj v hv).1, (canon_obj w hw).1, C01.eq_iff_key_eq, cmpkey_eq_iff]
  have hrv : v.release ≠ [] := by
    simp only [WF, Ver.wf, Bool.and_eq_true] at hv; simpa using hv.1
  have hrw : w.release ≠ [] := by
    simp only [WF, Ver.wf, Bool.and_eq_true] at hw; simpa using hw.1
  constructor
  · intro h
    have := str_inj _ _ (trimV_wf v hv) (trimV_wf w hw) (Option.some.inj h)
    simp only [trimV, Ver.mk.injEq] at this
    obtain ⟨h1, h2, h3, h4, h5, h6⟩ := this
    refine ⟨h1, ?_, h3, h4, h5, h6⟩
    rw [← dtz_trim v.release, h2, dtz_trim]
  · rintro ⟨h1, h2, h3, h4, h5, h6⟩
    have ht := trim_of_dtz _ _ hrv hrw h2
    have : trimV v = trimV w := by
      obtain ⟨e, r, pre, post, dev, loc⟩ := v
      obtain ⟨e', r', pre', post', dev', loc'⟩ := w
      simp only [trimV, Ver.mk.injEq] at *
      exact ⟨h1, ht, h3, h4, h5, h6⟩
    rw [this]

/-- on strings: two version strings compare equal exactly when their canonical strings are identical -/
theorem canon_complete_invariant_str (s t : Str) (v w : Ver) (hs : scan s = some v) (ht : scan t = some w) :
    canonicalizeVersion s true = canonicalizeVersion t true ↔ v.eq w = true := by
  rw [canon_arms_agree s v true hs, canon_arms_agree t w true ht]
  exact canon_complete_invariant v w (scan_wf s v hs) (scan_wf t w ht)

/-- with `strip_trailing_zero=False` the invariant is finer: identical strings ⇔ identical components -/
theorem canon_nostrip_invariant (s t : Str) (v w : Ver) (hs : scan s = some v) (ht : scan t = some w) :
    canonicalizeVersion s false = canonicalizeVersion t false ↔ v = w := by
  rw [canon_nostrip_eq_str s v hs, canon_nostrip_eq_str t w ht]
  constructor
  · intro h; exact str_inj v w (scan_wf s v hs) (scan_wf t w ht) (Option.some.inj h)
  · intro h; rw [h]

/-! ### 4. Derived attributes -/

/-- `str` is `public`, then `+local` when there is a local label; `public` is `base_version` followed by
the pre/post/dev suffixes in that order -/
theorem str_parts (v : Ver) :
    v.str = v.public ++ (match v.localStr with | some l => 43 :: l | none => []) ∧
    v.public = v.base ++ (preS v.pre ++ (postS v.post ++ devS v.dev)) := ⟨rfl, public_eq v⟩

/-- `Version.public` as the code computes it — `str(self).split("+", 1)[0]` — is the model's `public` -/
theorem public_is_split (v : Ver) (h : WF v) : (splitOn 43 v.str).head? = some v.public := V.public_is_split v h

theorem flags (v : Ver) :
    v.isPre = (v.pre.isSome || v.dev.isSome) ∧ v.isPost = v.post.isSome ∧ v.isDev = v.dev.isSome := by
  simp [Ver.isPre, Ver.isPost, Ver.isDev, Bool.or_comm]

/-- major/minor/micro are the first three release components, read as 0 when missing -/
theorem major_minor_micro (a b c : Nat) (rest : List Nat) (v : Ver) :
    (v.release = [a] → v.major = a ∧ v.minor = 0 ∧ v.micro = 0) ∧
    (v.release = [a, b] → v.major = a ∧ v.minor = b ∧ v.micro = 0) ∧
    (v.release = a :: b :: c :: rest → v.major = a ∧ v.minor = b ∧ v.micro = c) := by
  refine ⟨?_, ?_, ?_⟩ <;> intro h <;> simp [Ver.major, Ver.minor, Ver.micro, h]

/-! ### 5. Components are the PEP 440 reading under every alternate spelling

`Spelling` (`PkgModel/Spec/Spelling.lean`) is the parse tree of the Appendix B grammar with every free
choice recorded; `render` writes it out, `meaning` is the PEP 440 reading, `normalise` the normal form. -/

/-- **every valid spelling is accepted and read as its PEP 440 meaning** — white space, `v`, leading zeros,
alternate words in any letter case, every optional separator, implicit numbers, implicit post-release,
local-label separators and case -/
theorem scan_render (sp : Spelling.Spelling) (h : Spelling.Valid sp = true) :
    scan (Spelling.render sp) = some (Spelling.meaning sp) := Spelling.scan_render sp h

/-- **nothing else is accepted, and nothing is read differently**: every accepted string is the rendering of a
valid spelling, and the components are that spelling's meaning -/
theorem scan_sound (s : Str) (v : Ver) (h : scan s = some v) :
    ∃ sp : Spelling.Spelling, Spelling.Valid sp = true ∧ Spelling.render sp = s ∧ Spelling.meaning sp = v :=
  Spelling.scan_sound s v h

/-- the two together: `Version(s)` succeeds exactly on renderings of valid spellings, and its components are the
meaning of *every* valid spelling of `s` (so the meaning of a string does not depend on how it is parsed) -/
theorem components_are_pep440_reading (s : Str) :
    (∀ v, scan s = some v ↔ ∃ sp, Spelling.Valid sp = true ∧ Spelling.render sp = s ∧ Spelling.meaning sp = v) := by
  intro v
  constructor
  · exact scan_sound s v
  · rintro ⟨sp, hv, rfl, rfl⟩; exact scan_render sp hv

/-- **`str` is the PEP 440 normal form**: `str(Version(s))` is the rendering of the normalised spelling, which
is itself a valid spelling with the same meaning -/
theorem str_is_normal_form (sp : Spelling.Spelling) (h : Spelling.Valid sp = true) :
    (Spelling.meaning sp).str = Spelling.render (Spelling.normalise sp) ∧
    Spelling.Valid (Spelling.normalise sp) = true ∧
    Spelling.meaning (Spelling.normalise sp) = Spelling.meaning sp :=
  ⟨Spelling.str_is_normal_form sp, Spelling.normalise_valid sp h, Spelling.meaning_normalise sp h⟩

/-- two spellings with the same meaning are equal versions with the same `str` and the same canonical string;
two spellings of equal versions have the same canonical string -/
theorem spelling_independent (sp sq : Spelling.Spelling) (hp : Spelling.Valid sp = true) (hq : Spelling.Valid sq = true)
    (he : (Spelling.meaning sp).eq (Spelling.meaning sq) = true) :
    canonicalizeVersion (Spelling.render sp) true = canonicalizeVersion (Spelling.render sq) true :=
  (canon_complete_invariant_str _ _ _ _ (scan_render sp hp) (scan_render sq hq)).mpr he

/-! ### 6. Non-vacuity -/

def ex1 : Ver := { epoch := 1, release := [1, 0, 0], pre := some (.rc, 2), post := some 3, dev := some 4,
                   loc := some [.str (ofString "abc"), .num 1] }
def ex2 : Ver := { ex1 with release := [1] }

example : WF ex1 := by decide
example : ex1.str = ofString "1!1.0.0rc2.post3.dev4+abc.1" := by decide
example : scan (ofString " v1!01.0.0-C.2_R3dev-4+AbC_01 ") = some ex1 := by decide
example : ex1.canon true = some (ofString "1!1rc2.post3.dev4+abc.1") ∧ ex1.eq ex2 = true ∧ ex1 ≠ ex2 := by decide
example : canonicalizeVersion (ofString "1.0-") true = some (ofString "1.0-") ∧ scan (ofString "1.0-") = none := by decide
-- a local segment that is not well formed (upper case / all digits as a string) does not round-trip
example : scan ({ ex1 with loc := some [.str (ofString "A")] }).str ≠ some { ex1 with loc := some [.str (ofString "A")] } := by decide
example : scan ({ ex1 with loc := some [.str (ofString "7")] }).str ≠ some { ex1 with loc := some [.str (ofString "7")] } := by decide
-- the engine's greedy reading of `letter -N`
example : (scan (ofString "1.0a-1")).map (fun v => (v.pre, v.post)) = some (some (.a, 1), none) := by decide

def sp1 : Spelling.Spelling :=
  { ws1 := [32], v := some 86, epoch := some (ofString "01"), rel0 := (ofString "1"), rels := [ofString "00"],
    pre := some ⟨.dash, .c, ofString "C", .none, none⟩,
    post := some (.spelled ⟨.dot, .rev, ofString "rEv", .none, none⟩),
    dev := some ⟨.under, (), ofString "DEV", .dash, some (ofString "03")⟩,
    loc := some ⟨ofString "AbC", [(.dash, ofString "01")]⟩, ws2 := [10] }
example : Spelling.Valid sp1 = true := by decide
example : Spelling.render sp1 = ofString " V01!1.00-C.rEv_DEV-03+AbC-01\n" := by decide
example : Spelling.render (Spelling.normalise sp1) = ofString "1!1.0rc0.post0.dev3+abc.1" := by decide
-- the excluded tree `1.0a` + `-1`: the engine reads the same string as pre-release number 1
example : Spelling.Valid { sp1 with pre := some ⟨.none, .a, [97], .none, none⟩, post := some (.implicit [49]) } = false := by decide

end C02
