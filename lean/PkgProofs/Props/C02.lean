import PkgProofs.Lemmas.ScanTrim
import PkgProofs.Props.C01
/-!
# C02 — Version components and normal forms are faithful and canonical

Model: `V.scan` (the hand-written scanner for `Version._regex` + `Version.__init__`), `Ver.str`,
`Ver.public`, `Ver.base`, `trimRelease` (`_TrimmedRelease`), `Ver.canon` / `canonicalizeVersion`
(`packaging.utils.canonicalize_version`, both dispatch arms, including the re-parse of `str(version)`).

`WF v` (`PkgProofs/Lemmas/ScanBasic.lean`) is the explicit, decidable predicate of the values the
scanner can produce (`scan_wf`); all round-trip theorems hold for every such value — unbounded
release length, component magnitude and local label.
-/
namespace C02
open V Py

/-! ### 1. `str` is a normal form: it scans back to the same components -/

/-- everything `Version(s)` produces is well formed -/
theorem scan_wf (s : Str) (v : Ver) (h : scan s = some v) : WF v := V.scan_wf s v h

/-- **`Version(str(v))` has identical components**, for every well-formed `v` -/
theorem scan_str (v : Ver) (h : WF v) : scan v.str = some v := V.scan_str v h

/-- `str` is injective on well-formed values: different components never render alike -/
theorem str_inj (v w : Ver) (hv : WF v) (hw : WF w) (h : v.str = w.str) : v = w := by
  have h1 := scan_str v hv
  rw [h, scan_str w hw] at h1
  exact (Option.some.inj h1).symm

/-- parsing `str(Version(s))` again gives identical components and the same string -/
theorem str_idempotent (s : Str) (v : Ver) (h : scan s = some v) :
    scan v.str = some v ∧ ∀ w, scan v.str = some w → w.str = v.str := by
  have := scan_str v (scan_wf s v h)
  refine ⟨this, fun w hw => ?_⟩
  rw [this] at hw; rw [← Option.some.inj hw]

/-- the value read from `Version.public` -/
def noLocal (v : Ver) : Ver := { v with loc := none }
/-- the value read from `Version.base_version` -/
def baseOnly (v : Ver) : Ver := { epoch := v.epoch, release := v.release, pre := none, post := none, dev := none, loc := none }

theorem public_eq_str_noLocal (v : Ver) : v.public = (noLocal v).str := by
  rw [str_eq, public_eq]; simp [noLocal, locS, Ver.base]

theorem base_eq_str_baseOnly (v : Ver) : v.base = (baseOnly v).str := by
  rw [str_eq]; simp [baseOnly, locS, preS, postS, devS, Ver.base]

/-- `Version(v.public)` is `v` without its local label -/
theorem scan_public (v : Ver) (h : WF v) : scan v.public = some { v with loc := none } := by
  rw [public_eq_str_noLocal]
  apply scan_str
  simp only [WF, Ver.wf, Bool.and_eq_true] at h ⊢
  exact ⟨h.1, rfl⟩

/-- `Version(v.base_version)` keeps exactly epoch and release -/
theorem scan_base (v : Ver) (h : WF v) :
    scan v.base = some { epoch := v.epoch, release := v.release, pre := none, post := none, dev := none, loc := none } := by
  rw [base_eq_str_baseOnly]
  apply scan_str
  simp only [WF, Ver.wf, Bool.and_eq_true] at h ⊢
  exact ⟨h.1, rfl⟩

end C02
