import PkgModel.Version
/-!
# C02 — Version components and normal forms are faithful and canonical
-/
namespace C02
open V Py

/-- non-versions are returned unchanged, whatever the flag -/
theorem canon_passthrough (s : Str) (b : Bool) (h : scan s = none) : canonicalizeVersion s b = some s := by
  simp [canonicalizeVersion, h]

/-- with `strip_trailing_zero=False` the canonical form is `str(Version(s))` -/
theorem canon_nostrip_eq_str (s : Str) (v : Ver) (h : scan s = some v) :
    canonicalizeVersion s false = some v.str := by
  simp [canonicalizeVersion, h, Ver.canon]

end C02
