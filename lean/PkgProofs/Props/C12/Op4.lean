import PkgModel.Spec.Pep440Rx
import PkgModel.Generated.SpecifierRx
import PkgProofs.Lemmas.RxSound
/-! C12: bisimulation certificate for the specifier language of operator slot 4 (own module so that
the eight kernel evaluations run in parallel) -/
namespace C12
open Rx
set_option maxRecDepth 100000 in
theorem op4_cert :
    equiv1 Gen.SpecifierRx.nClasses 80000 Gen.SpecifierRx.rxOp4
      (Pep440Rx.clauseFor Gen.SpecifierRx.kinds (Gen.SpecifierRx.opNames.getD 4 "")) = true := by
  decide +kernel
end C12
