import PkgModel.Spec.Pep440Rx
import PkgModel.Generated.SpecifierRx
import PkgProofs.Lemmas.RxSound
/-! C12: bisimulation certificate for the specifier language of operator slot 1 (own module so that
the eight kernel evaluations run in parallel) -/
namespace C12
open Rx
set_option maxRecDepth 100000 in
theorem op1_cert :
    equiv1 Gen.SpecifierRx.nClasses 80000 Gen.SpecifierRx.rxOp1
      (Pep440Rx.clauseFor Gen.SpecifierRx.kinds (Gen.SpecifierRx.opNames.getD 1 "")) = true := by
  decide +kernel
end C12
