import PkgModel.Spec.Pep440Rx
import PkgModel.Generated.VersionRx
import PkgProofs.Lemmas.RxSound
/-! C12: bisimulation certificate for the version language -/
namespace C12
open Rx
set_option maxRecDepth 100000 in
theorem version_cert :
    equiv1 Gen.VersionRx.nClasses 40000 Gen.VersionRx.rx (Pep440Rx.version Gen.VersionRx.kinds) = true := by
  decide +kernel
end C12
