import PkgModel.Marker
import PkgModel.Spec.Pep508
/-!
# C09 — Marker string form is canonical and round-trips
-/
namespace C09
open Py Mk Pep508

end C09
