import PkgProofs.Lemmas.MarkerFormat
import PkgProofs.Lemmas.MarkerLexParse
import PkgProofs.Lemmas.MarkerWf
import PkgProofs.Lemmas.MarkerEval
/-!
# C09 — Marker string form is canonical and round-trips

Model: `Mk.str` (= `_format_marker`), `Node.serialize`, `Mk.normalizeExtra` (= `_normalize_extra_values`),
`Mk.eq` / `Mk.hashKey`, `Mk.parseFull` (the parser, generic in the token stream), `Mk.pyStrLit`,
`Mk.processEnvVar`.  The model is the code with the proposed repairs C09-fix-1…4 applied; on the
unrepaired code `format_preserves_grouping`, `literal_quote_safe` and `extra_normalised_everywhere`
are false (witnesses: findings_proposed/C09.json; the laws of harness/props/C09.py fail there).

Granularity.  `str_is_spelled_tokens` shows that `str m` is the spelling (single spaces, none inside
parentheses) of the token-level format `fmtToksL m true`, which runs the same recursion as
`_format_marker`.  Section 2 states the round trip for the parser run on that token sequence (`parseToks`,
the same generic recursive-descent code as on characters) under the weakest hypotheses; section 2b lifts it
to the **character level** (`Mk.parse`, i.e. the context-sensitive tokenizer with the regenerated rules,
`\b` and all): `str_roundtrip_char`, for markers whose variables are the canonical names, whose operators
are the ten marker operators and whose literals are plain and contain at most one kind of quote.
-/
namespace C09
open Py Mk Pep508 MkParse MkFmt MkLex MkLexP MkWf
set_option linter.unusedSimpArgs false

/-! ### 1. `str` and the token-level format -/

/-- `str(marker)` is the token sequence of `_format_marker`, spelled with one space between tokens and none
inside parentheses — for every marker list whatsoever -/
theorem str_is_spelled_tokens (m : List M) : str m = spell (fmtToksL m true) := str_eq_spell m

/-! ### 2. Round trip -/

/-- **`str` parses back** (token level).  For every marker list that denotes a formula — any nesting, any
redundant single-element lists, i.e. everything the parser can produce — with plain literals: the parser
accepts the printed form, and the result prints identically (so `str ∘ parse ∘ str = str`: idempotence). -/
theorem format_parses_back (m : List M) (f : Formula) (h : formulaOf m = some f) (hp : ∀ a ∈ atomsL m, PlainAtom a) :
    ∃ m', parseToks (fmtToksL m true) = .ok m' ∧ fmtToksL m' true = fmtToksL m true ∧ str m' = str m := by
  refine ⟨nfTop m, ?_, ?_, ?_⟩
  · rw [fmtToksL_true]
    exact parse_print (nfTop m) f (by rw [formulaOf, fOfL_nfTop]; exact h) (by rw [atomsL_nfTop]; exact hp)
  · rw [fmtToksL_true, fmtToksL_true, nfTop_idem]
  · rw [str_eq_spell, str_eq_spell, fmtToksL_true, fmtToksL_true, nfTop_idem]

/-- **`str` preserves the grouping**: the re-parsed marker denotes the same formula, hence evaluates
identically under every valuation of the comparisons (every environment, by C07). -/
theorem format_preserves_grouping (m : List M) (f : Formula) (h : formulaOf m = some f) (hp : ∀ a ∈ atomsL m, PlainAtom a) :
    ∃ m', parseToks (fmtToksL m true) = .ok m' ∧ formulaOf m' = formulaOf m ∧
      ∀ ν : Atom → Res Bool, evalMarkers ν m' = evalMarkers ν m := by
  refine ⟨nfTop m, ?_, by rw [formulaOf, fOfL_nfTop]; rfl, ?_⟩
  · rw [fmtToksL_true]
    exact parse_print (nfTop m) f (by rw [formulaOf, fOfL_nfTop]; exact h) (by rw [atomsL_nfTop]; exact hp)
  · intro ν
    have h' : formulaOf (nfTop m) = some f := by rw [formulaOf, fOfL_nfTop]; exact h
    unfold evalMarkers
    rw [MkEval.list_eq ν _ f h', MkEval.list_eq ν _ f h]

/-- **every comparison is preserved** — variable, operator and literal, in order -/
theorem literal_preserved (m : List M) (f : Formula) (h : formulaOf m = some f) (hp : ∀ a ∈ atomsL m, PlainAtom a) :
    ∃ m', parseToks (fmtToksL m true) = .ok m' ∧ atomsL m' = atomsL m := by
  refine ⟨nfTop m, ?_, atomsL_nfTop m⟩
  rw [fmtToksL_true]
  exact parse_print (nfTop m) f (by rw [formulaOf, fOfL_nfTop]; exact h) (by rw [atomsL_nfTop]; exact hp)

/-- redundant outer parentheses do not change the string (hence not equality, not the hash) -/
theorem outer_parentheses_dropped (l : List M) : str [.list l] = str l ∧ str [.list [.list l]] = str l := by
  exact ⟨by unfold str; rw [fmtL], by unfold str; rw [fmtL, fmtL]⟩

/-! ### 2b. Round trip at character level -/

/-- **`str` parses back, character level.**  For every marker list that denotes a formula (any nesting, any
redundant single-element lists) over canonical comparisons: the real entry point — tokenizer and parser
on the characters of `str m` — returns the normal form of `m`, which prints identically (idempotence),
denotes the same formula (grouping preserved) and has the same comparisons (literals preserved). -/
theorem str_roundtrip_char (m : List M) (f : Formula) (h : formulaOf m = some f) (hc : ∀ a ∈ atomsL m, CanonAtom a) :
    ∃ m', parse (str m) = .ok m' ∧ str m' = str m ∧ formulaOf m' = formulaOf m ∧ atomsL m' = atomsL m ∧
      ∀ ν : Atom → Res Bool, evalMarkers ν m' = evalMarkers ν m := by
  have h' : formulaOf (nfTop m) = some f := by rw [formulaOf, fOfL_nfTop]; exact h
  refine ⟨nfTop m, ?_, ?_, by rw [formulaOf, fOfL_nfTop]; rfl, atomsL_nfTop m, ?_⟩
  · rw [str_eq_spell, fmtToksL_true]
    exact parse_spell_print (nfTop m) f h' (by rw [atomsL_nfTop]; exact hc)
  · rw [str_eq_spell, str_eq_spell, fmtToksL_true, fmtToksL_true, nfTop_idem]
  · intro ν
    unfold evalMarkers
    rw [MkEval.list_eq ν _ f h', MkEval.list_eq ν _ f h]

mutual
theorem normM_fixed (X : Ext) : (m : M) → (∀ a ∈ atomsM m, normAtom X a = a) → normM X m = m
  | .atom a, h => by simp [normM, h a (by simp [atomsM])]
  | .bool s, _ => by simp [normM]
  | .list l, h => by simp only [normM]; rw [normalize_fixed X l (fun a ha => h a (by simpa [atomsM] using ha))]
theorem normalize_fixed (X : Ext) : (l : List M) → (∀ a ∈ atomsL l, normAtom X a = a) → normalizeExtra X l = l
  | [], _ => by simp [normalizeExtra]
  | m :: ms, h => by
    simp only [normalizeExtra]
    rw [normM_fixed X m (fun a ha => h a (by simp [atomsL, ha])), normalize_fixed X ms (fun a ha => h a (by simp [atomsL, ha]))]
end

/-- **`Marker(str(m))` is a marker equal to `m`**, character level, through `Marker.__init__` (parse, then
`_normalize_extra_values`): for a constructed marker (its comparisons are already normalised) the result
prints identically — so it is equal, hashes alike, denotes the same formula and evaluates identically. -/
theorem marker_roundtrip_char (X : Ext) (m : List M) (f : Formula) (h : formulaOf m = some f)
    (hc : ∀ a ∈ atomsL m, CanonAtom a) (hn : ∀ a ∈ atomsL m, normAtom X a = a) :
    ∃ m', mkMarker X (str m) = .ok m' ∧ eq m' m = true ∧ hashKey m' = hashKey m ∧ formulaOf m' = formulaOf m ∧
      ∀ ν : Atom → Res Bool, evalMarkers ν m' = evalMarkers ν m := by
  obtain ⟨m', h1, h2, h3, h4, h5⟩ := str_roundtrip_char m f h hc
  refine ⟨m', ?_, by simp [eq, h2], by simp [hashKey, h2], h3, h5⟩
  unfold mkMarker
  rw [h1]
  simp only [Except.map]
  rw [normalize_fixed X m' (by rw [h4]; exact hn)]

/-! ### 3. Quoting (character level) -/

/-- **the delimiter chosen by `Value.serialize` does not occur in the value**: on the serialised literal,
followed by anything, the `QUOTED_STRING` rule matches exactly the literal, and `literal_eval` returns
the value — for every plain value that does not contain both quote characters (a value obtained from a
PEP 508 string contains at most one of them). -/
theorem literal_quote_safe (s rest : Str) (hq : ¬ (s.contains 34 = true ∧ s.contains 39 = true)) :
    matchQuoted ((Node.val s).serialize ++ rest) = some (s.length + 2) ∧
    ((Node.val s).serialize.drop 1).dropLast = s := by
  have hqc : Gen.MarkerTok.quoteChars = [39, 34] := by decide
  by_cases hc : s.contains 34 = true
  · have h39 : s.contains 39 = false := by
      cases h : s.contains 39 with
      | true => exact absurd ⟨hc, h⟩ hq
      | false => rfl
    have e : (Node.val s).serialize = [39] ++ s ++ [39] := by
      show (if s.contains 34 then [39] ++ s ++ [39] else [34] ++ s ++ [34]) = _
      rw [if_pos hc]
    rw [e]
    refine ⟨?_, by simp⟩
    have := indexOf?_append 39 s rest h39
    simp [matchQuoted, hqc, List.findSome?, this]
  · have h34 : s.contains 34 = false := by simpa using hc
    have e : (Node.val s).serialize = [34] ++ s ++ [34] := by
      show (if s.contains 34 then [39] ++ s ++ [39] else [34] ++ s ++ [34]) = _
      rw [if_neg hc]
    rw [e]
    refine ⟨?_, by simp⟩
    have := indexOf?_append 34 s rest h34
    simp [matchQuoted, hqc, List.findSome?, this]

theorem literal_eval_roundtrip (s : Str) (h : PlainStr s) : pyStrLit (Node.val s).serialize = .ok s :=
  pyStrLit_serialize s h

/-! ### 4. Names compared with `extra` are normalised at every position -/

mutual
theorem atomsM_norm (X : Ext) : (m : M) → atomsM (normM X m) = (atomsM m).map (normAtom X)
  | .atom a => by simp [normM, atomsM]
  | .bool s => by simp [normM, atomsM]
  | .list l => by simp only [normM, atomsM]; exact atomsL_norm X l
theorem atomsL_norm (X : Ext) : (l : List M) → atomsL (normalizeExtra X l) = (atomsL l).map (normAtom X)
  | [] => by simp [normalizeExtra, atomsL]
  | m :: ms => by simp [normalizeExtra, atomsL, atomsM_norm X m, atomsL_norm X ms]
end

/-- **every comparison of the constructed marker that involves `extra` carries the normalised name**,
whatever its position and nesting depth, on either side -/
theorem extra_normalised_everywhere (X : Ext) (l : List M) (a : Atom) (ha : a ∈ atomsL (normalizeExtra X l)) :
    (isExtraVar a.lhs = true → ∃ s, a.rhs = .val (X.canonName s)) ∧
    (isExtraVar a.lhs = false → isExtraVar a.rhs = true → ∃ s, a.lhs = .val (X.canonName s)) := by
  rw [atomsL_norm] at ha
  obtain ⟨b, _, rfl⟩ := List.mem_map.mp ha
  unfold normAtom
  by_cases h1 : isExtraVar b.lhs = true
  · simp only [h1, if_true]
    exact ⟨fun _ => ⟨_, rfl⟩, fun h => by simp [h1] at h⟩
  · by_cases h2 : isExtraVar b.rhs = true
    · simp only [h1, h2, if_true, Bool.false_eq_true, if_false]
      exact ⟨fun h => by simp [isExtraVar] at h, fun _ _ => ⟨_, rfl⟩⟩
    · simp only [h1, h2, Bool.false_eq_true, if_false]
      refine ⟨fun h => ?_, fun _ h => ?_⟩ <;> simp_all

/-- two spellings of a name compared with `extra` give the same comparison (either side) -/
theorem extra_spelling_normalised (X : Ext) (op s s' : Str) (h : X.canonName s = X.canonName s') :
    normAtom X ⟨.var s_extra, op, .val s⟩ = normAtom X ⟨.var s_extra, op, .val s'⟩ ∧
    normAtom X ⟨.val s, op, .var s_extra⟩ = normAtom X ⟨.val s', op, .var s_extra⟩ := by
  simp [normAtom, isExtraVar, Node.value, h]

theorem normAtom_idem (X : Ext) (hc : ∀ s, X.canonName (X.canonName s) = X.canonName s) (a : Atom) :
    normAtom X (normAtom X a) = normAtom X a := by
  obtain ⟨l, o, r⟩ := a
  cases l with
  | var k =>
    by_cases hk : (k == s_extra) = true
    · simp [normAtom, isExtraVar, hk, Node.value, hc]
    · cases r with
      | var k' =>
        by_cases hk' : (k' == s_extra) = true
        · simp [normAtom, isExtraVar, hk, hk', Node.value, hc]
        · simp [normAtom, isExtraVar, hk, hk']
      | val s => simp [normAtom, isExtraVar, hk]
  | val s =>
    cases r with
    | var k' =>
      by_cases hk' : (k' == s_extra) = true
      · simp [normAtom, isExtraVar, hk', Node.value, hc]
      · simp [normAtom, isExtraVar, hk']
    | val s' => simp [normAtom, isExtraVar]

mutual
theorem normM_idem (X : Ext) (hc : ∀ s, X.canonName (X.canonName s) = X.canonName s) : (m : M) → normM X (normM X m) = normM X m
  | .atom a => by simp [normM, normAtom_idem X hc a]
  | .bool s => by simp [normM]
  | .list l => by simp only [normM]; rw [normalize_idem X hc l]
/-- normalising twice is normalising once (so `Marker(str(m))` normalises nothing new) -/
theorem normalize_idem (X : Ext) (hc : ∀ s, X.canonName (X.canonName s) = X.canonName s) :
    (l : List M) → normalizeExtra X (normalizeExtra X l) = normalizeExtra X l
  | [] => by simp [normalizeExtra]
  | m :: ms => by simp only [normalizeExtra]; rw [normM_idem X hc m, normalize_idem X hc ms]
end

/-! ### 4b. Every constructed marker round-trips -/

/-- the literals of a comparison are plain (no backslash, CR, LF, NUL, surrogate) and contain at most one
kind of quote — true of every literal written with PEP 508 string characters -/
def LitOK (a : Atom) : Prop :=
  (∀ s, a.lhs = .val s → PlainStr s ∧ ¬ (s.contains 34 = true ∧ s.contains 39 = true)) ∧
  (∀ s, a.rhs = .val s → PlainStr s ∧ ¬ (s.contains 34 = true ∧ s.contains 39 = true))

theorem canonAtom_of (a : Atom) (h1 : VarOpCanon a) (h2 : LitOK a) : CanonAtom a := by
  obtain ⟨l, o, r⟩ := a
  obtain ⟨v1, v2, v3⟩ := h1
  obtain ⟨l1, l2⟩ := h2
  refine ⟨?_, v3, ?_⟩
  · cases l with
    | var s => exact v1 s rfl
    | val s => exact l1 s rfl
  · cases r with
    | var s => exact v2 s rfl
    | val s => exact l2 s rfl

theorem varOpCanon_norm (X : Ext) (a : Atom) (h : VarOpCanon a) : VarOpCanon (normAtom X a) := by
  obtain ⟨v1, v2, v3⟩ := h
  unfold normAtom
  by_cases h1 : isExtraVar a.lhs = true
  · simp only [h1, if_true]
    exact ⟨v1, (fun s hs => by cases hs), v3⟩
  · by_cases h2 : isExtraVar a.rhs = true
    · simp only [h1, h2, if_true, Bool.false_eq_true, if_false]
      exact ⟨(fun s hs => by cases hs), v2, v3⟩
    · simp only [h1, h2, Bool.false_eq_true, if_false]
      exact ⟨v1, v2, v3⟩

/-- **Every constructed marker round-trips** (character level, through `Marker.__init__`).  Whatever text
`Marker(src)` accepted — any layout, nesting, spelling of variables — if the literals of the resulting marker
are written with PEP 508 string characters, then `Marker(str(m))` succeeds and yields a marker that is equal
to `m`, hashes alike, denotes the same formula and evaluates identically under every valuation. -/
theorem constructed_marker_roundtrip (X : Ext) (hc : ∀ s, X.canonName (X.canonName s) = X.canonName s)
    (src : Str) (m : List M) (h : mkMarker X src = .ok m) (hl : ∀ a ∈ atomsL m, LitOK a) :
    ∃ m', mkMarker X (str m) = .ok m' ∧ eq m' m = true ∧ hashKey m' = hashKey m ∧ formulaOf m' = formulaOf m ∧
      ∀ ν : Atom → Res Bool, evalMarkers ν m' = evalMarkers ν m := by
  unfold mkMarker at h
  cases hp : parse src with
  | error e => simp [hp, Except.map] at h
  | ok l =>
    simp only [hp, Except.map, Except.ok.injEq] at h
    subst h
    obtain ⟨hf, hv⟩ := parse_wf src l hp
    obtain ⟨f, hf⟩ := Option.isSome_iff_exists.mp hf
    have hf' : formulaOf (normalizeExtra X l) = some (MkParse.Formula.map (normAtom X) f) := by
      have := fOfL_norm X l
      rw [show fOfL l = some f from hf] at this
      simpa [formulaOf] using this
    have hatoms := atomsL_norm X l
    refine marker_roundtrip_char X _ _ hf' ?_ ?_
    · intro a ha
      refine canonAtom_of a ?_ (hl a ha)
      rw [hatoms] at ha
      obtain ⟨b, hb, rfl⟩ := List.mem_map.mp ha
      exact varOpCanon_norm X b (hv b hb)
    · intro a ha
      rw [hatoms] at ha
      obtain ⟨b, _, rfl⟩ := List.mem_map.mp ha
      exact normAtom_idem X hc b

/-! ### 5. Equality and hash -/

/-- `Marker.__eq__` is equality of the strings -/
theorem eq_iff_same_str (a b : List M) : eq a b = true ↔ str a = str b := by simp [eq]

theorem eq_equivalence : (∀ a, eq a a = true) ∧ (∀ a b, eq a b = eq b a) ∧
    (∀ a b c, eq a b = true → eq b c = true → eq a c = true) := by
  refine ⟨fun a => by simp [eq], fun a b => ?_, fun a b c h1 h2 => ?_⟩
  · unfold Mk.eq
    by_cases h : str a = str b
    · rw [h]
    · have h' : ¬ str b = str a := fun e => h e.symm
      have e1 : (str a == str b) = false := by simpa using h
      have e2 : (str b == str a) = false := by simpa using h'
      rw [e1, e2]
  · simp only [eq_iff_same_str] at *; rw [h1, h2]

/-- equal markers have equal hash keys, and conversely -/
theorem hash_agrees (a b : List M) : eq a b = true ↔ hashKey a = hashKey b := by simp [eq, hashKey]

/-- markers that print the same token sequence denote the same formula and evaluate identically -/
theorem same_tokens_same_eval (a b : List M) (fa fb : Formula) (ha : formulaOf a = some fa) (hb : formulaOf b = some fb)
    (h : fmtToksL a true = fmtToksL b true) (pa : ∀ x ∈ atomsL a, PlainAtom x) (pb : ∀ x ∈ atomsL b, PlainAtom x) :
    fa = fb ∧ ∀ ν : Atom → Res Bool, evalMarkers ν a = evalMarkers ν b := by
  obtain ⟨ma, e1, e2, _⟩ := format_preserves_grouping a fa ha pa
  obtain ⟨mb, f1, f2, _⟩ := format_preserves_grouping b fb hb pb
  rw [h, f1] at e1
  have : mb = ma := by injection e1
  subst this
  have hf : fa = fb := by rw [ha] at e2; rw [hb] at f2; rw [e2] at f2; injection f2
  subst hf
  refine ⟨rfl, fun ν => ?_⟩
  unfold evalMarkers
  rw [MkEval.list_eq ν _ _ ha, MkEval.list_eq ν _ _ hb]

/-! ### 6. One spelling per variable -/

def canonicalVars : List Str :=
  [[112, 121, 116, 104, 111, 110, 95, 118, 101, 114, 115, 105, 111, 110], s_pfv, [111, 115, 95, 110, 97, 109, 101],
   [115, 121, 115, 95, 112, 108, 97, 116, 102, 111, 114, 109], [112, 108, 97, 116, 102, 111, 114, 109, 95, 114, 101, 108, 101, 97, 115, 101],
   [112, 108, 97, 116, 102, 111, 114, 109, 95, 115, 121, 115, 116, 101, 109], [112, 108, 97, 116, 102, 111, 114, 109, 95, 118, 101, 114, 115, 105, 111, 110],
   [112, 108, 97, 116, 102, 111, 114, 109, 95, 109, 97, 99, 104, 105, 110, 101], s_platform_python_implementation,
   [105, 109, 112, 108, 101, 109, 101, 110, 116, 97, 116, 105, 111, 110, 95, 110, 97, 109, 101],
   [105, 109, 112, 108, 101, 109, 101, 110, 116, 97, 116, 105, 111, 110, 95, 118, 101, 114, 115, 105, 111, 110], s_extra]

/-- **one spelling for each variable**: every word of the `VARIABLE` token rule (regenerated from the source)
is mapped by `process_env_var` to one of twelve names, each of which is itself accepted and is a fixed point
— so `str` never shows a dotted or aliased spelling, and re-parsing it changes nothing. -/
theorem one_spelling_per_variable :
    (∀ w ∈ Gen.MarkerTok.rVariable.2.1, ∃ c ∈ canonicalVars, processEnvVar w = .var c) ∧
    (∀ c ∈ canonicalVars, c ∈ Gen.MarkerTok.rVariable.2.1 ∧ processEnvVar c = .var c) := by
  decide


/-! ### Non-vacuity -/
section Examples

def os_name : Str := [111, 115, 95, 110, 97, 109, 101]
def b1 : Atom := ⟨.var os_name, s_eq, .val [120]⟩                 -- os_name == "x"
def b2 : Atom := ⟨.var os_name, s_eq, .val [97, 34, 98]⟩          -- os_name == 'a"b'
def b3 : Atom := ⟨.var s_extra, s_eq, .val [70, 111, 111, 95, 66, 97, 114]⟩   -- extra == "Foo_Bar"
/-- `b1 and ((b2 or b3))` as the parser builds it: a doubly parenthesised group in second position -/
def m0 : List M := [.atom b1, .bool s_and, .list [.list [.atom b2, .bool s_or, .atom b3]]]
def X0 : Ext := ⟨fun _ _ _ => none, fun s => (s.map lowerAscii).map fun c => if c == 95 then 45 else c⟩

example : formulaOf m0 = some (.and (.atom b1) (.or (.atom b2) (.atom b3))) := by decide
example : ∀ a ∈ atomsL m0, PlainAtom a := by decide
/-- the group keeps its parentheses, the literal with `"` is delimited by `'`:
`os_name == "x" and (os_name == 'a"b' or extra == "Foo_Bar")` -/
example : str m0 = [111,115,95,110,97,109,101,32,61,61,32,34,120,34,32,97,110,100,32,40,111,115,95,110,97,109,101,32,61,61,32,
    39,97,34,98,39,32,111,114,32,101,120,116,114,97,32,61,61,32,34,70,111,111,95,66,97,114,34,41] := by decide
example : parseToks (fmtToksL m0 true) = .ok [.atom b1, .bool s_and, .list [.atom b2, .bool s_or, .atom b3]] := by rfl
/-- the character-level parser accepts the string form and prints it identically -/
example : (parse (str m0)).toOption.map str = some (str m0) := by decide +kernel
/-- `extra == "Foo_Bar"` inside the nested group is normalised to `foo-bar` -/
example : atomsL (normalizeExtra X0 m0) = [b1, b2, ⟨.var s_extra, s_eq, .val [102, 111, 111, 45, 98, 97, 114]⟩] := by decide
example : ¬ ((([97, 34, 98] : Str).contains 34 = true) ∧ (([97, 34, 98] : Str).contains 39 = true)) := by decide
example : ∀ a ∈ atomsL m0, CanonAtom a := by decide
example : ∀ a ∈ atomsL (normalizeExtra X0 m0), normAtom X0 a = a := by decide

end Examples

/-! ### Why the repairs are needed: the unrepaired functions fail these statements

`Old.fmtL` is `_format_marker` before C09-fix-1 (the short cut calls itself with the default `first=True`),
`Old.serialize` is `Value.serialize` before C09-fix-3 (always `"`), `Old.normalizeExtra` is
`_normalize_extra_values` before C09-fix-2 (only `results[0]`, only if it is a tuple). -/
namespace Old

mutual
def fmtM : M → Bool → List Tok
  | .atom a, _ => atomToks a
  | .bool s, _ => [(.boolop, s)]
  | .list l, first => fmtL l first
def fmtL : List M → Bool → List Tok
  | [.atom a], _ => atomToks a
  | [.list l], _ => fmtL l true
  | [], first => wrapT first []
  | [.bool s], first => wrapT first [(.boolop, s)]
  | m₁ :: m₂ :: ms, first => wrapT first (fmtM m₁ false ++ (fmtM m₂ false ++ fmtEach ms))
def fmtEach : List M → List Tok
  | [] => []
  | m :: ms => fmtM m false ++ fmtEach ms
end

/-- witness (DESIGN §8 row 10): the old format of `b1 and ((b2 or b3))` parses back to `(b1 and b2) or b3` -/
theorem old_format_loses_grouping :
    (parseToks (fmtL m0 true)).toOption.map formulaOf = some (some (.or (.and (.atom b1) (.atom b2)) (.atom b3))) ∧
    formulaOf m0 = some (.and (.atom b1) (.or (.atom b2) (.atom b3))) := by
  constructor <;> decide

def serialize (s : Str) : Str := [34] ++ s ++ [34]

/-- witness (row 12): with a fixed `"` delimiter the literal `a"b` is cut short by the tokenizer -/
theorem old_quote_truncates : matchQuoted (serialize [97, 34, 98]) = some 3 := by decide

def normalizeExtra (X : Ext) : List M → List M
  | .atom a :: rest => .atom (normAtom X a) :: rest
  | l => l

/-- witness (row 11): only the first tuple was normalised -/
theorem old_extra_not_normalised :
    atomsL (normalizeExtra X0 m0) = [b1, b2, b3] ∧ atomsL (Mk.normalizeExtra X0 m0) ≠ [b1, b2, b3] := by
  constructor <;> decide

end Old

end C09
