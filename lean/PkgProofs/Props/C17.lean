import PkgModel.Spec.Metadata
import PkgProofs.Lemmas.Assoc
/-!
# C17 — Metadata validation accepts exactly field-valid, version-consistent metadata
-/
namespace C17
open Py Gen.Meta Meta MetaSpec

/-! ### 1. generated tables -/

/-- the `added=` of every descriptor is the version the specification introduced the field in -/
theorem gating_table : ∀ f : Field, f.added = introducedIn f := by
  intro f; cases f <;> decide +kernel

theorem versions_table : validVersions = knownVersions := by decide +kernel

theorem fieldOfRaw_rawName : ∀ f : Field, fieldOfRaw f.rawName = some f := by
  intro f; cases f <;> decide +kernel

theorem fieldOfRaw_eq {k : Str} {f : Field} (h : fieldOfRaw k = some f) : f.rawName = k := by
  have := List.find?_some h
  simpa using this

/-- field tables: raw names and header names are pairwise distinct, the header name of a field is its key in
`_EMAIL_TO_RAW_MAPPING` (which has no other entries), string / list / dict fields and `keywords` partition
the fields, the required attributes are the three, and exactly the modelled fields have a `_process_` method -/
theorem tables_consistent :
    (Field.all.map Field.rawName).Nodup ∧ (Field.all.map Field.emailName).Nodup ∧
    (∀ f : Field, aget f.emailName emailToRaw = some f.rawName) ∧
    emailToRaw.length = Field.all.length ∧
    (∀ f : Field, [stringFields.contains f.rawName, listFields.contains f.rawName, dictFields.contains f.rawName,
        f.rawName == Field.keywords.rawName].count true = 1) ∧
    requiredAttrs = [Field.metadata_version.rawName, Field.name.rawName, Field.version.rawName] ∧
    (∀ (o : Oracle) (f : Field), (process o f).isSome = converters.contains f.rawName) := by
  refine ⟨by decide +kernel, by decide +kernel, ?_, by decide +kernel, ?_, by decide +kernel, ?_⟩
  · intro f; cases f <;> decide +kernel
  · intro f; cases f <;> decide +kernel
  · intro o f; cases f <;> simp only [process, Option.isSome_some, Option.isSome_none] <;> decide +kernel

theorem ageOf_added (f : Field) : ∃ i, ageOf f.added = some i := by
  have : (ageOf f.added).isSome = true := by cases f <;> decide +kernel
  exact Option.isSome_iff_exists.mp this

/-! ### 2. the converters accept exactly the individually valid values -/

def okE {ε α} : Except ε α → Bool
  | .ok _ => true
  | .error _ => false

theorem okE_map {ε α β} (f : α → β) (x : Except ε α) : okE (x.map f) = okE x := by cases x <;> rfl

theorem okE_ite {ε α} (c : Bool) (a : α) (e : ε) : okE (if c = true then Except.ok a else Except.error e) = c := by
  cases c <;> rfl

theorem isRequired_cases (f : Field) :
    isRequired f = (match f with | .metadata_version | .name | .version => true | _ => false) := by
  cases f <;> decide +kernel

theorem mapVerdicts_ok (fld : Str) (p : Str → Verdict) (l : List Str) :
    okE (mapVerdicts fld p l) = l.all fun s => Verdict.isOk (p s) := by
  induction l with
  | nil => rfl
  | cons s r ih =>
    simp only [mapVerdicts, List.all_cons]
    cases hp : p s with
    | ok c => simp only [okE_map, ih, Verdict.isOk, Bool.true_and]
    | bad => simp only [okE, Verdict.isOk, Bool.false_and]
    | esc c => simp only [okE, Verdict.isOk, Bool.false_and]

theorem oneVerdict_ok (fld : Str) (v : Verdict) (k : Str → Val) : okE (oneVerdict fld v k) = Verdict.isOk v := by
  cases v <;> rfl

theorem ct_bool (a b c d e : Bool) :
    (if (!a || !b) = true then false else if (!c) = true then false else if (d && !e) = true then false else true)
      = (a && b && c && (!d || e)) := by
  cases a <;> cases b <;> cases c <;> cases d <;> cases e <;> rfl

theorem ctype_ok (o : Oracle) (fld s : Str) : okE (procContentType o fld (.str s)) = ctValid o s := by
  simp only [procContentType, ctValid]
  cases o.ctype s with
  | esc c => rfl
  | bad => rfl
  | parsed ct cs var => simp only [okE_ite, ctypeOk, bne, ct_bool]

theorem okE_ok {ε α} (a : α) : okE (Except.ok a : Except ε α) = true := rfl
theorem okE_error {ε α} (e : ε) : okE (Except.error e : Except ε α) = false := rfl
theorem isEmpty_eq_decide {α} [DecidableEq α] (s : List α) : s.isEmpty = decide (s = []) := by cases s <;> simp
theorem all_decide {α} (p : α → Bool) (l : List α) : decide (∀ x, x ∈ l → p x = true) = l.all p := by
  induction l with
  | nil => simp
  | cons a r ih => simp [← ih]

/-- **the model's converter succeeds exactly on the values the specification calls valid**
(for every oracle and every value, also ill-typed ones) -/
theorem conv_ok_iff_valid (o : Oracle) (f : Field) (ov : Option Val) : okE (conv o f ov) = Valid o f ov := by
  have hv := versions_table
  rcases ov with _ | v
  · cases f <;> simp [conv, isRequired_cases, process, Valid, okE_ok, okE_error, procMetadataVersion, procName, procVersion]
  · cases v <;> cases f <;>
      simp [conv, isRequired_cases, process, Valid, okE_ok, okE_error, apply_ite okE, procMetadataVersion, procName, procVersion,
        procSummary, ctype_ok, procDynamic, procProvidesExtra, procRequiresPython, procRequiresDist,
        procLicenseExpression, procLicenseFiles, tyErr, okE_map, mapVerdicts_ok, oneVerdict_ok, hv,
        isEmpty_eq_decide, all_decide] <;>
      simp [procContentType, tyErr, okE_error]

theorem mapVerdicts_invalid {fld : Str} {p : Str → Verdict} {l : List Str} {n : Str}
    (h : mapVerdicts fld p l = .error (.invalid n)) : n = fld := by
  induction l with
  | nil => cases h
  | cons s r ih =>
    simp only [mapVerdicts] at h
    cases hp : p s with
    | ok c =>
      rw [hp] at h
      cases hr : mapVerdicts fld p r with
      | ok x => rw [hr] at h; cases h
      | error e => rw [hr] at h; simp only [Except.map] at h; cases h; exact ih hr
    | bad => rw [hp] at h; cases h; rfl
    | esc c => rw [hp] at h; cases h

theorem oneVerdict_invalid {fld : Str} {v : Verdict} {k : Str → Val} {n : Str}
    (h : oneVerdict fld v k = .error (.invalid n)) : n = fld := by
  cases v <;> simp only [oneVerdict] at h <;> cases h; rfl

theorem map_invalid {x : Except Exc (List Str)} {n : Str} (h : x.map Val.list = .error (.invalid n)) :
    x = .error (.invalid n) := by
  cases x with
  | ok a => cases h
  | error e => simpa [Except.map] using h

theorem proc_invalid (o : Oracle) (f : Field) (p : Val → Except Exc Val) (hp : process o f = some p) (v : Val) (n : Str)
    (h : p v = .error (.invalid n)) : n = f.emailName := by
  cases f <;> simp only [process, Option.some.injEq, reduceCtorEq] at hp <;> subst hp <;> cases v <;>
    simp only [procMetadataVersion, procName, procVersion, procSummary, procContentType, procDynamic,
      procProvidesExtra, procRequiresPython, procRequiresDist, procLicenseExpression, procLicenseFiles, tyErr,
      Except.error.injEq, Exc.invalid.injEq, reduceCtorEq] at h <;>
    first
    | exact h.symm
    | exact oneVerdict_invalid h
    | exact mapVerdicts_invalid (map_invalid h)
    | (split at h <;> first
        | exact oneVerdict_invalid h
        | (cases h; rfl)
        | cases h
        | (split at h <;> first | (cases h; rfl) | cases h))

/-- an `InvalidMetadata` raised by a converter names the field's header name -/
theorem conv_invalid_name {o : Oracle} {f : Field} {ov : Option Val} {n : Str}
    (h : conv o f ov = .error (.invalid n)) : n = f.emailName := by
  simp only [conv] at h
  split at h
  · cases hp : process o f with
    | some p => rw [hp] at h; exact proc_invalid o f p hp _ n h
    | none => rw [hp] at h; cases h
  · cases h

/-! ### 3. attribute reads: the cache invariant and history independence -/

/-- what reading attribute `k` of an instance built from `data` returns — a function of `data` alone -/
def readOf (o : Oracle) (data : Dict) (k : Str) : Except Exc Val :=
  match fieldOfRaw k with
  | some f => conv o f (aget k data)
  | none => if instanceResolvable.contains k then .ok .none else .error attrErr

/-- the invariant of `⟨_raw, __dict__⟩`: every key is either still raw and uncached with its original value,
or converted, cached with the converted original value and gone from `_raw` -/
def Inv (o : Oracle) (data : Dict) (st : St) : Prop :=
  ∀ k, (aget k st.cache = none ∧ aget k st.raw = aget k data) ∨
       (∃ f v, fieldOfRaw k = some f ∧ aget k st.cache = some v ∧ conv o f (aget k data) = .ok v ∧ aget k st.raw = none)

theorem inv_init (o : Oracle) (data : Dict) : Inv o data { raw := data, cache := [] } :=
  fun _ => .inl ⟨rfl, rfl⟩

theorem getattr_spec {o : Oracle} {data : Dict} {st : St} (hi : Inv o data st) (k : Str) :
    (getattr o k st).1 = readOf o data k ∧ Inv o data (getattr o k st).2 := by
  unfold getattr readOf
  rcases hi k with ⟨hc, hr⟩ | ⟨f, v, hf, hc, hv, hr⟩
  · rw [hc]
    cases hf : fieldOfRaw k with
    | none => simp only; split <;> exact ⟨rfl, hi⟩
    | some f =>
      have hk := fieldOfRaw_eq hf
      simp only [descGet, hk, hr]
      cases hv : conv o f (aget k data) with
      | error e => exact ⟨rfl, hi⟩
      | ok v =>
        refine ⟨rfl, fun k' => ?_⟩
        by_cases e : k' = k
        · subst e
          exact .inr ⟨f, v, hf, aget_aset_self _ _ _, hv, aget_adel_self _ _⟩
        · simp only [aget_aset_ne e, aget_adel_ne e]
          exact hi k'
  · rw [hc, hf]
    exact ⟨hv.symm, hi⟩

theorem reads_spec {o : Oracle} {data : Dict} (hs : List Str) :
    ∀ {st : St}, Inv o data st → (reads o hs st).1 = hs.map (readOf o data) ∧ Inv o data (reads o hs st).2 := by
  induction hs with
  | nil => intro st hi; exact ⟨rfl, hi⟩
  | cons k r ih =>
    intro st hi
    obtain ⟨h1, h2⟩ := getattr_spec hi k
    obtain ⟨h3, h4⟩ := ih h2
    simp only [reads, List.map_cons, h1, h3, true_and]
    exact h4

/-! ### 4. the validation loop is a fold of stateless per-key verdicts -/

inductive KV where
  | fine
  | offender (n : Str)
  | escape (c : Str)
  deriving DecidableEq

def KV.ofRead : Except Exc Val → KV
  | .ok _ => .fine
  | .error (.invalid n) => .offender n
  | .error (.escape c) => .escape c

/-- what the loop body does with key `k`, as a function of the caller's dict alone -/
def verdictOf (o : Oracle) (data : Dict) (age : Option Nat) (k : Str) : KV :=
  match fieldOfRaw k with
  | none => .offender k
  | some f =>
    match age with
    | none => KV.ofRead (conv o f (aget k data))
    | some a =>
      match ageOf f.added with
      | none => .escape (ofString "ValueError")
      | some fa => if fa > a then .offender f.emailName else KV.ofRead (conv o f (aget k data))

def KV.toStep : KV → Except Str (Option Str)
  | .fine => .ok none
  | .offender n => .ok (some n)
  | .escape c => .error c

theorem checkKey_spec {o : Oracle} {data : Dict} {st : St} (hi : Inv o data st) (age : Option Nat) (k : Str) :
    (checkKey o age k st).1 = (verdictOf o data age k).toStep ∧ Inv o data (checkKey o age k st).2 := by
  obtain ⟨h1, h2⟩ := getattr_spec hi k
  have hread : ∀ f, fieldOfRaw k = some f →
      ((match getattr o k st with
        | (.ok _, st') => ((.ok none : Except Str (Option Str)), st')
        | (.error (.invalid n), st') => (.ok (some n), st')
        | (.error (.escape c), st') => (.error c, st')).1 = (KV.ofRead (conv o f (aget k data))).toStep) ∧
      Inv o data (match getattr o k st with
        | (.ok _, st') => ((.ok none : Except Str (Option Str)), st')
        | (.error (.invalid n), st') => (.ok (some n), st')
        | (.error (.escape c), st') => (.error c, st')).2 := by
    intro f hf
    have hro : readOf o data k = conv o f (aget k data) := by simp only [readOf, hf]
    rw [hro] at h1
    rcases hg : getattr o k st with ⟨r, st'⟩
    rw [hg] at h1 h2
    simp only at h1 h2
    subst h1
    cases hc : conv o f (aget k data) with
    | ok v => exact ⟨rfl, h2⟩
    | error e => cases e <;> exact ⟨rfl, h2⟩
  unfold checkKey verdictOf
  cases hf : fieldOfRaw k with
  | none => exact ⟨rfl, hi⟩
  | some f =>
    cases age with
    | none => exact hread f hf
    | some a =>
      simp only
      cases ageOf f.added with
      | none => exact ⟨rfl, hi⟩
      | some fa =>
        simp only
        split
        · exact ⟨rfl, hi⟩
        · exact hread f hf

/-- first escape wins; offenders are appended in order -/
def collect : List KV → List Str → Except Str (List Str)
  | [], errs => .ok errs
  | .fine :: r, errs => collect r errs
  | .offender n :: r, errs => collect r (errs ++ [n])
  | .escape c :: _, _ => .error c

theorem loop_spec {o : Oracle} {data : Dict} (age : Option Nat) (ks : List Str) :
    ∀ {st : St} (errs : List Str), Inv o data st →
      (loop o age ks st errs).map (·.2) = collect (ks.map (verdictOf o data age)) errs ∧
      ∀ st' e, loop o age ks st errs = .ok (st', e) → Inv o data st' := by
  induction ks with
  | nil => intro st errs hi; exact ⟨rfl, by intro st' e h; cases h; exact hi⟩
  | cons k r ih =>
    intro st errs hi
    obtain ⟨h1, h2⟩ := checkKey_spec hi age k
    rcases hc : checkKey o age k st with ⟨res, st1⟩
    rw [hc] at h1 h2
    simp only at h1 h2
    simp only [loop, hc, List.map_cons]
    cases hv : verdictOf o data age k with
    | fine =>
      rw [hv] at h1; simp only [KV.toStep] at h1; subst h1
      simpa only [collect] using ih errs h2
    | offender n =>
      rw [hv] at h1; simp only [KV.toStep] at h1; subst h1
      simpa only [collect] using ih (errs ++ [n]) h2
    | escape c =>
      rw [hv] at h1; simp only [KV.toStep] at h1; subst h1
      exact ⟨rfl, by intro st' e h; cases h⟩

/-! ### 5. `from_raw` as a function of the caller's dict -/

def mvErrs (data : Dict) : List Str :=
  if (declared data).isSome then [] else [Field.metadata_version.emailName]

def declaredAge (data : Dict) : Option Nat := (declared data).bind ageOf

theorem ageOf_eq_ageIn (v : Str) : ageOf v = ageIn v := by
  simp only [ageOf, ageIn, versions_table]

def declaredOf (ov : Option Val) : Option Str :=
  match ov with
  | some (.str s) => if knownVersions.contains s then some s else none
  | _ => none

theorem declared_eq (data : Dict) : declared data = declaredOf (aget mvKey data) := rfl

theorem prologue_match (ov : Option Val) (st1 : St) :
    (match (procMetadataVersion Field.metadata_version.emailName (ov.getD .none), st1) with
      | (.ok (.str s), st1) => (.ok (ageOf s, [], st1) : Except Str (Option Nat × List Str × St))
      | (.ok _, st1) => .ok (none, [], st1)
      | (.error (.invalid n), st1) => .ok (none, [n], st1)
      | (.error (.escape c), _) => .error c) =
    .ok ((declaredOf ov).bind ageOf,
         (if (declaredOf ov).isSome then [] else [Field.metadata_version.emailName]), st1) := by
  rcases ov with _ | v
  · simp [procMetadataVersion, declaredOf]
  · cases v with
    | str s =>
      simp only [Option.getD_some, procMetadataVersion, versions_table, declaredOf]
      by_cases hc : s ∈ knownVersions <;> simp [hc]
    | none => simp [procMetadataVersion, declaredOf]
    | list l => simp [procMetadataVersion, declaredOf]
    | dict d => simp [procMetadataVersion, declaredOf]

theorem prologue_spec (o : Oracle) (data : Dict) :
    ∃ st1, Inv o data st1 ∧
      prologue o { raw := data, cache := [] } = .ok (declaredAge data, mvErrs data, st1) := by
  obtain ⟨h1, h2⟩ := getattr_spec (inv_init o data) mvKey
  have hro : readOf o data mvKey =
      procMetadataVersion Field.metadata_version.emailName ((aget mvKey data).getD .none) := by
    have : fieldOfRaw mvKey = some .metadata_version := fieldOfRaw_rawName .metadata_version
    simp only [readOf, this, conv, isRequired_cases, process, Bool.true_or, if_true]
  rcases hg : getattr o mvKey { raw := data, cache := [] } with ⟨r, st1⟩
  rw [hg] at h1 h2
  simp only at h1 h2
  refine ⟨st1, h2, ?_⟩
  rw [hro] at h1
  subst h1
  simp only [prologue, hg, declaredAge, mvErrs, declared_eq]
  exact prologue_match (aget mvKey data) st1

/-- the observable part of an outcome -/
def kind : Outcome → Except Str (List Str)
  | .ok _ => .ok []
  | .group es => .ok es
  | .raised c => .error c

/-- **`from_raw` is the fold of the per-key verdicts along the iteration order** -/
theorem fromRaw_kind (o : Oracle) (ks : List Str) (data : Dict) :
    kind (fromRaw o ks data true) =
      collect (ks.map (verdictOf o data (declaredAge data))) (mvErrs data) := by
  obtain ⟨st1, hi, hp⟩ := prologue_spec o data
  obtain ⟨hl, _⟩ := loop_spec (declaredAge data) ks (mvErrs data) hi
  simp only [fromRaw, Bool.not_true, Bool.false_eq_true, if_false, hp]
  rw [← hl]
  cases loop o (declaredAge data) ks st1 (mvErrs data) with
  | error c => rfl
  | ok r =>
    obtain ⟨st, es⟩ := r
    cases es <;> rfl

theorem fromRaw_inv {o : Oracle} {ks : List Str} {data : Dict} {v : Bool} {st : St}
    (h : fromRaw o ks data v = .ok st) : Inv o data st := by
  cases v with
  | false =>
    simp only [fromRaw, Bool.not_false, if_true, Outcome.ok.injEq] at h
    subst h; exact inv_init o data
  | true =>
    obtain ⟨st1, hi, hp⟩ := prologue_spec o data
    obtain ⟨_, hl⟩ := loop_spec (declaredAge data) ks (mvErrs data) hi
    simp only [fromRaw, Bool.not_true, Bool.false_eq_true, if_false, hp] at h
    cases hr : loop o (declaredAge data) ks st1 (mvErrs data) with
    | error c => rw [hr] at h; cases h
    | ok r =>
      obtain ⟨st', es⟩ := r
      rw [hr] at h
      cases es with
      | nil => simp only [Outcome.ok.injEq] at h; subst h; exact hl _ _ hr
      | cons e es => cases h

theorem fromRaw_group_ne_nil {o : Oracle} {ks : List Str} {data : Dict} {v : Bool} {es : List Str}
    (h : fromRaw o ks data v = .group es) : es ≠ [] := by
  cases v with
  | false => simp only [fromRaw, Bool.not_false, if_true, reduceCtorEq] at h
  | true =>
    obtain ⟨st1, hi, hp⟩ := prologue_spec o data
    simp only [fromRaw, Bool.not_true, Bool.false_eq_true, if_false, hp] at h
    cases hr : loop o (declaredAge data) ks st1 (mvErrs data) with
    | error c => rw [hr] at h; cases h
    | ok r =>
      obtain ⟨st', es'⟩ := r
      rw [hr] at h
      cases es' with
      | nil => cases h
      | cons e es' => simp only [Outcome.group.injEq] at h; subst h; exact List.cons_ne_nil _ _

def KV.name : KV → Option Str
  | .offender n => some n
  | _ => none

theorem collect_noescape {vs : List KV} (h : ∀ v ∈ vs, ∀ c, v ≠ .escape c) (errs : List Str) :
    collect vs errs = .ok (errs ++ vs.filterMap KV.name) := by
  induction vs generalizing errs with
  | nil => simp [collect]
  | cons v r ih =>
    have hr : ∀ v ∈ r, ∀ c, v ≠ .escape c := fun v hv => h v (List.mem_cons_of_mem _ hv)
    cases v with
    | fine => simp only [collect, ih hr, List.filterMap_cons, KV.name]
    | offender n => simp only [collect, ih hr, List.filterMap_cons, KV.name, List.append_assoc, List.singleton_append]
    | escape c => exact absurd rfl (h _ (List.mem_cons_self) c)

theorem collect_error {vs : List KV} {errs : List Str} {c : Str} (h : collect vs errs = .error c) :
    KV.escape c ∈ vs := by
  induction vs generalizing errs with
  | nil => cases h
  | cons v r ih =>
    cases v with
    | fine => exact List.mem_cons_of_mem _ (ih h)
    | offender n => exact List.mem_cons_of_mem _ (ih h)
    | escape c' => simp only [collect, Except.error.injEq] at h; subst h; exact List.mem_cons_self

theorem collect_ok_nil {vs : List KV} {errs : List Str} :
    collect vs errs = .ok [] ↔ errs = [] ∧ ∀ v ∈ vs, v = .fine := by
  induction vs generalizing errs with
  | nil => simp [collect]
  | cons v r ih =>
    cases v with
    | fine => simp only [collect, ih, List.mem_cons, forall_eq_or_imp, true_and]
    | offender n => simp [collect, ih]
    | escape c => simp [collect]

/-! ### 6. the property theorems -/

theorem required_eq : requiredAttrs = [Field.metadata_version.rawName, Field.name.rawName, Field.version.rawName] :=
  tables_consistent.2.2.2.2.2.1

theorem mem_fieldsToCheck (data : Dict) (k : Str) : k ∈ fieldsToCheck data ↔ InScope data k := by
  simp only [fieldsToCheck, List.mem_filter, mem_dedup, List.mem_append, required_eq, List.mem_cons,
    List.not_mem_nil, or_false, bne_iff_ne, ne_eq, InScope, mvKey]
  constructor
  · rintro ⟨h | h | h | h, hne⟩
    · exact ⟨.inl h, hne⟩
    · exact absurd h hne
    · exact ⟨.inr (.inl h), hne⟩
    · exact ⟨.inr (.inr h), hne⟩
  · rintro ⟨h | h | h, hne⟩
    · exact ⟨.inl h, hne⟩
    · exact ⟨.inr (.inr (.inl h)), hne⟩
    · exact ⟨.inr (.inr (.inr h)), hne⟩

theorem declared_some_iff (data : Dict) (mv : Str) :
    declared data = some mv ↔ aget mvKey data = some (.str mv) ∧ mv ∈ knownVersions := by
  rw [declared_eq]
  cases aget mvKey data with
  | none => simp [declaredOf]
  | some v =>
    cases v with
    | str s =>
      by_cases hc : s ∈ knownVersions
      · simp only [declaredOf, List.contains_iff_mem, hc, if_true, Option.some.injEq, Val.str.injEq]
        constructor
        · rintro rfl; exact ⟨rfl, hc⟩
        · rintro ⟨rfl, _⟩; rfl
      · simp only [declaredOf, List.contains_iff_mem, hc, if_false, Option.some.injEq, Val.str.injEq, reduceCtorEq, false_iff]
        rintro ⟨rfl, h⟩; exact hc h
    | none => simp [declaredOf]
    | list l => simp [declaredOf]
    | dict d => simp [declaredOf]

theorem ofRead_fine_iff (r : Except Exc Val) : KV.ofRead r = .fine ↔ okE r = true := by
  cases r with
  | ok v => simp [KV.ofRead, okE]
  | error e => cases e <;> simp [KV.ofRead, okE]

theorem gated_iff (f : Field) (mv : Str) (a fa : Nat) (ha : ageOf mv = some a) (hfa : ageOf f.added = some fa) :
    oldEnough f mv = decide (fa ≤ a) := by
  simp only [oldEnough, ← gating_table, ← ageOf_eq_ageIn, ha, hfa]

/-- per key: the loop adds nothing for `k` exactly when `k` is a known field, old enough, and valid -/
theorem verdict_fine_iff (o : Oracle) (data : Dict) (k mv : Str) (hd : declared data = some mv) :
    verdictOf o data (declaredAge data) k = .fine ↔
      ∃ f, fieldOfRaw k = some f ∧ oldEnough f mv = true ∧ Valid o f (aget k data) = true := by
  obtain ⟨_, hmem⟩ := (declared_some_iff data mv).mp hd
  obtain ⟨a, ha⟩ := indexOf_isSome_of_mem (versions_table ▸ hmem : mv ∈ validVersions)
  have hage : declaredAge data = some a := by simp only [declaredAge, hd, Option.bind_some]; exact ha
  unfold verdictOf
  rw [hage]
  cases hf : fieldOfRaw k with
  | none => simp
  | some f =>
    obtain ⟨fa, hfa⟩ := ageOf_added f
    simp only [hfa, Option.some.injEq, exists_eq_left', gated_iff f mv a fa ha hfa, decide_eq_true_eq,
      ← conv_ok_iff_valid]
    by_cases hgt : fa > a
    · simp only [hgt, if_true, reduceCtorEq, false_iff, not_and]
      intro h; omega
    · simp only [hgt, if_false, ofRead_fine_iff]
      constructor
      · intro h; exact ⟨by omega, h⟩
      · exact fun h => h.2

/-- **C17, acceptance.**  With validation, `from_raw` succeeds exactly on the dicts the statement describes —
for every oracle (behaviour of the component parsers) and every iteration order of `fields_to_check`. -/
theorem from_raw_ok_iff (o : Oracle) (ks : List Str) (data : Dict) (hp : ks.Perm (fieldsToCheck data)) :
    (∃ st, fromRaw o ks data true = .ok st) ↔ Acceptable o data := by
  have hk := fromRaw_kind o ks data
  have hmem : ∀ k, k ∈ ks ↔ InScope data k := fun k => (hp.mem_iff).trans (mem_fieldsToCheck data k)
  constructor
  · rintro ⟨st, h⟩
    rw [h] at hk
    obtain ⟨he, hall⟩ := collect_ok_nil.mp hk.symm
    have hsome : (declared data).isSome = true := by
      by_cases hs : (declared data).isSome = true
      · exact hs
      · simp only [mvErrs, hs, if_false, reduceCtorEq, Bool.false_eq_true] at he
    obtain ⟨mv, hd⟩ := Option.isSome_iff_exists.mp hsome
    obtain ⟨hget, hin⟩ := (declared_some_iff data mv).mp hd
    refine ⟨mv, hget, hin, fun k hsc => ?_⟩
    have := hall _ (List.mem_map_of_mem ((hmem k).mpr hsc))
    exact (verdict_fine_iff o data k mv hd).mp this
  · rintro ⟨mv, hget, hin, hall⟩
    have hd : declared data = some mv := (declared_some_iff data mv).mpr ⟨hget, hin⟩
    have hc : collect (ks.map (verdictOf o data (declaredAge data))) (mvErrs data) = .ok [] := by
      apply collect_ok_nil.mpr
      refine ⟨by simp only [mvErrs, hd, Option.isSome_some, if_true], fun v hv => ?_⟩
      obtain ⟨k, hk', rfl⟩ := List.mem_map.mp hv
      exact (verdict_fine_iff o data k mv hd).mpr (hall k ((hmem k).mp hk'))
    rw [hc] at hk
    cases hr : fromRaw o ks data true with
    | ok st => exact ⟨st, rfl⟩
    | group es =>
      rw [hr] at hk; simp only [kind, Except.ok.injEq] at hk
      exact absurd hk (fromRaw_group_ne_nil hr)
    | raised c => rw [hr] at hk; cases hk

/-- no converter lets an undocumented exception through for a value of `data` (the C11 obligation of the
component parsers, stated on the dict at hand) -/
def NoEscape (o : Oracle) (data : Dict) : Prop :=
  ∀ k f, fieldOfRaw k = some f → ∀ c, conv o f (aget k data) ≠ .error (.escape c)

theorem verdict_ne_escape {o : Oracle} {data : Dict} (hne : NoEscape o data) (age : Option Nat) (k c : Str) :
    verdictOf o data age k ≠ .escape c := by
  unfold verdictOf
  cases hf : fieldOfRaw k with
  | none => simp
  | some f =>
    have hr : KV.ofRead (conv o f (aget k data)) ≠ .escape c := by
      cases hc : conv o f (aget k data) with
      | ok v => simp [KV.ofRead]
      | error e =>
        cases e with
        | invalid n => simp [KV.ofRead]
        | escape c' =>
          simp only [KV.ofRead, ne_eq, KV.escape.injEq]
          rintro rfl; exact hne k f hf _ hc
    obtain ⟨fa, hfa⟩ := ageOf_added f
    cases age with
    | none => exact hr
    | some a =>
      simp only [hfa]
      split
      · simp
      · exact hr

/-- the name the loop reports for `k` is the one the specification assigns -/
theorem verdict_name_eq {o : Oracle} {data : Dict} (hne : NoEscape o data) (k : Str) :
    KV.name (verdictOf o data (declaredAge data) k) = offenderOf o data k := by
  unfold verdictOf offenderOf
  cases hf : fieldOfRaw k with
  | none => rfl
  | some f =>
    have hr : KV.name (KV.ofRead (conv o f (aget k data))) =
        if Valid o f (aget k data) = true then none else some f.emailName := by
      rw [← conv_ok_iff_valid]
      cases hc : conv o f (aget k data) with
      | ok v => simp [KV.ofRead, KV.name, okE]
      | error e =>
        cases e with
        | invalid n => simp [KV.ofRead, KV.name, okE, conv_invalid_name hc]
        | escape c => exact absurd hc (hne k f hf c)
    cases hd : declared data with
    | none => simpa only [declaredAge, hd, Option.bind_none] using hr
    | some mv =>
      obtain ⟨_, hmem⟩ := (declared_some_iff data mv).mp hd
      obtain ⟨a, ha⟩ := indexOf_isSome_of_mem (versions_table ▸ hmem : mv ∈ validVersions)
      obtain ⟨fa, hfa⟩ := ageOf_added f
      have hage : declaredAge data = some a := by simp only [declaredAge, hd, Option.bind_some]; exact ha
      simp only [hage, hfa, gated_iff f mv a fa ha hfa]
      by_cases hgt : fa > a
      · have : ¬ fa ≤ a := by omega
        simp [hgt, this, KV.name]
      · have : fa ≤ a := by omega
        simp only [hgt, if_false, this, decide_true, Bool.not_true, Bool.false_eq_true]
        exact hr

/-- **C17, error reporting.**  When validation fails (and no component lets an undocumented exception through),
the `ExceptionGroup` names exactly the offending fields of the specification — as a multiset, for every
iteration order of the `frozenset`. -/
theorem errors_are_exactly_offenders (o : Oracle) (ks : List Str) (data : Dict) (es : List Str)
    (hp : ks.Perm (fieldsToCheck data)) (hne : NoEscape o data)
    (h : fromRaw o ks data true = .group es) : es.Perm (offenders o data) := by
  have hk := fromRaw_kind o ks data
  rw [h, collect_noescape (fun v hv c => by
    obtain ⟨k, _, rfl⟩ := List.mem_map.mp hv
    exact verdict_ne_escape hne _ k c)] at hk
  simp only [kind, Except.ok.injEq] at hk
  subst hk
  simp only [offenders, mvErrs, List.filterMap_map]
  apply List.Perm.append_left
  have : (KV.name ∘ verdictOf o data (declaredAge data)) = offenderOf o data :=
    funext fun k => verdict_name_eq hne k
  rw [this]
  exact hp.filterMap _

/-- under the same hypothesis the outcome is never anything but success or the group -/
theorem never_raises_if_components_clean (o : Oracle) (ks : List Str) (data : Dict) (hne : NoEscape o data) (c : Str) :
    fromRaw o ks data true ≠ .raised c := by
  intro h
  have hk := fromRaw_kind o ks data
  rw [h] at hk
  obtain ⟨k, _, hv⟩ := List.mem_map.mp (collect_error hk.symm)
  exact verdict_ne_escape hne _ k c hv

/-- conversely, whatever escapes from `from_raw` escaped from a converter of one of the visited keys -/
theorem raises_only_from_components (o : Oracle) (ks : List Str) (data : Dict) (c : Str)
    (h : fromRaw o ks data true = .raised c) :
    ∃ k ∈ ks, ∃ f, fieldOfRaw k = some f ∧ conv o f (aget k data) = .error (.escape c) := by
  have hk := fromRaw_kind o ks data
  rw [h] at hk
  obtain ⟨k, hks, hv⟩ := List.mem_map.mp (collect_error hk.symm)
  refine ⟨k, hks, ?_⟩
  unfold verdictOf at hv
  cases hf : fieldOfRaw k with
  | none => rw [hf] at hv; cases hv
  | some f =>
    rw [hf] at hv
    refine ⟨f, rfl, ?_⟩
    have hr : KV.ofRead (conv o f (aget k data)) = .escape c → conv o f (aget k data) = .error (.escape c) := by
      cases conv o f (aget k data) with
      | ok v => intro h; cases h
      | error e => cases e <;> intro h <;> simp only [KV.ofRead, KV.escape.injEq, reduceCtorEq] at h; subst h; rfl
    obtain ⟨fa, hfa⟩ := ageOf_added f
    cases hage : declaredAge data with
    | none => rw [hage] at hv; exact hr hv
    | some a =>
      rw [hage] at hv
      simp only [hfa] at hv
      split at hv
      · cases hv
      · exact hr hv

/-- some component parser / standard-library call answers with the undocumented exception `c` -/
def OracleEsc (o : Oracle) (c : Str) : Prop :=
  ∃ s, o.name s = .esc c ∨ o.version s = .esc c ∨ o.spec s = .esc c ∨ o.req s = .esc c ∨ o.lic s = .esc c
    ∨ o.ctype s = .esc c

/-- `RawMetadata` typing of a value for a field (`None` is tolerated everywhere) -/
def typedOk (f : Field) : Val → Bool
  | .none => true
  | .str _ => stringFields.contains f.rawName
  | .list _ => listFields.contains f.rawName || f.rawName == Field.keywords.rawName
  | .dict _ => dictFields.contains f.rawName

theorem mapVerdicts_escape {fld : Str} {p : Str → Verdict} {l : List Str} {c : Str}
    (h : mapVerdicts fld p l = .error (.escape c)) : ∃ s, p s = .esc c := by
  induction l with
  | nil => cases h
  | cons s r ih =>
    simp only [mapVerdicts] at h
    cases hp : p s with
    | ok c' =>
      rw [hp] at h
      cases hr : mapVerdicts fld p r with
      | ok x => rw [hr] at h; cases h
      | error e => rw [hr] at h; simp only [Except.map] at h; cases h; exact ih hr
    | bad => rw [hp] at h; cases h
    | esc c' => rw [hp] at h; cases h; exact ⟨s, hp⟩

theorem map_escape {x : Except Exc (List Str)} {c : Str} (h : x.map Val.list = .error (.escape c)) :
    x = .error (.escape c) := by
  cases x with
  | ok a => cases h
  | error e => simpa [Except.map] using h

theorem oneVerdict_escape {fld : Str} {v : Verdict} {k : Str → Val} {c : Str}
    (h : oneVerdict fld v k = .error (.escape c)) : v = .esc c := by
  cases v <;> simp only [oneVerdict] at h <;> cases h; rfl

theorem esc_name {o : Oracle} {c s : Str} (h : o.name s = .esc c) : OracleEsc o c := ⟨s, .inl h⟩
theorem esc_version {o : Oracle} {c s : Str} (h : o.version s = .esc c) : OracleEsc o c := ⟨s, .inr (.inl h)⟩
theorem esc_spec {o : Oracle} {c s : Str} (h : o.spec s = .esc c) : OracleEsc o c := ⟨s, .inr (.inr (.inl h))⟩
theorem esc_req {o : Oracle} {c s : Str} (h : o.req s = .esc c) : OracleEsc o c := ⟨s, .inr (.inr (.inr (.inl h)))⟩
theorem esc_lic {o : Oracle} {c s : Str} (h : o.lic s = .esc c) : OracleEsc o c :=
  ⟨s, .inr (.inr (.inr (.inr (.inl h))))⟩
theorem esc_ctype {o : Oracle} {c s : Str} (h : o.ctype s = .esc c) : OracleEsc o c :=
  ⟨s, .inr (.inr (.inr (.inr (.inr h))))⟩

/-- on a `RawMetadata`-typed value a converter can only escape with what a component raised -/
theorem conv_escape_from_component {o : Oracle} {f : Field} {v : Val} {c : Str} (ht : typedOk f v = true)
    (h : conv o f (some v) = .error (.escape c)) : OracleEsc o c := by
  simp only [conv, Option.getD_some] at h
  split at h
  · cases hp : process o f with
    | none => rw [hp] at h; cases h
    | some p =>
      rw [hp] at h
      cases f <;> simp only [process, Option.some.injEq, reduceCtorEq] at hp <;> subst hp <;> cases v <;>
        first
        | (simp only [typedOk] at ht; exact absurd ht (by decide +kernel))
        | (rename_i hcond; exact absurd hcond (by decide +kernel))
        | skip
      all_goals
        simp only [procMetadataVersion, procName, procVersion, procSummary, procContentType, procDynamic,
          procProvidesExtra, procRequiresPython, procRequiresDist, procLicenseExpression, procLicenseFiles] at h
      all_goals first
        | (cases h; done)
        | exact esc_spec (oneVerdict_escape h)
        | exact esc_lic (oneVerdict_escape h)
        | (obtain ⟨s, hs⟩ := mapVerdicts_escape (map_escape h); first | exact esc_name hs | exact esc_req hs)
        | (split at h
           all_goals first
             | (cases h; done)
             | exact esc_name (oneVerdict_escape h)
             | exact esc_version (oneVerdict_escape h)
             | (rename_i hc; cases h; exact esc_ctype hc)
             | (split at h <;> cases h))
  · cases h

/-- a `RawMetadata`-typed dict and components that never raise an undocumented exception: `from_raw` answers
with success or the `ExceptionGroup`, never with anything else -/
theorem typed_clean_no_escape (o : Oracle) (data : Dict)
    (ht : ∀ k f v, fieldOfRaw k = some f → aget k data = some v → typedOk f v = true)
    (hc : ∀ c, ¬ OracleEsc o c) : NoEscape o data := by
  intro k f hf c h
  cases hv : aget k data with
  | some v => rw [hv] at h; exact hc c (conv_escape_from_component (ht k f v hf hv) h)
  | none =>
    rw [hv] at h
    have : conv o f (some .none) = .error (.escape c) := by simpa only [conv, Option.getD] using h
    exact hc c (conv_escape_from_component (f := f) (v := .none) rfl this)

/-! ### 7. attribute reads -/

/-- **C17, history independence.**  On an instance obtained from `from_raw` (validated or not), after *any*
sequence of attribute reads, reading `k` returns what the converter makes of the caller's original value —
the same value (or the same exception) every time, in every order. -/
theorem reads_history_independent (o : Oracle) (ks : List Str) (data : Dict) (v : Bool) (st : St)
    (h : fromRaw o ks data v = .ok st) (hs : List Str) (k : Str) :
    (getattr o k (reads o hs st).2).1 = readOf o data k ∧ (reads o hs st).1 = hs.map (readOf o data) := by
  obtain ⟨h1, h2⟩ := reads_spec hs (fromRaw_inv h)
  exact ⟨(getattr_spec h2 k).1, h1⟩

/-- the state after any history still satisfies the cache invariant (so `_raw` and `__dict__` partition the keys) -/
theorem reads_keep_invariant (o : Oracle) (ks : List Str) (data : Dict) (v : Bool) (st : St)
    (h : fromRaw o ks data v = .ok st) (hs : List Str) : Inv o data (reads o hs st).2 :=
  (reads_spec hs (fromRaw_inv h)).2

/-- **absent optional fields read as `None`**, whatever was read before -/
theorem absent_optional_none (o : Oracle) (ks : List Str) (data : Dict) (v : Bool) (st : St)
    (h : fromRaw o ks data v = .ok st) (hs : List Str) (k : Str) (f : Field)
    (hf : fieldOfRaw k = some f) (hopt : isRequired f = false) (habs : aget k data = none) :
    (getattr o k (reads o hs st).2).1 = .ok .none := by
  rw [(reads_history_independent o ks data v st h hs k).1]
  simp only [readOf, hf, conv, habs, Option.getD_none, hopt, Bool.false_or, bne_self_eq_false,
    Bool.false_eq_true, if_false]

/-- enriched attributes are what the component parser returns (its canonical string form), e.g. -/
theorem enriched_version (o : Oracle) (data : Dict) (s c : Str) (hs : s ≠ [])
    (hv : aget Field.version.rawName data = some (.str s)) (ho : o.version s = .ok c) :
    readOf o data Field.version.rawName = .ok (.str c) := by
  have : s.isEmpty = false := by cases s <;> simp_all
  simp [readOf, fieldOfRaw_rawName, conv, hv, isRequired_cases, process, procVersion, this, ho, oneVerdict]

theorem enriched_requires_python (o : Oracle) (data : Dict) (s c : Str)
    (hv : aget Field.requires_python.rawName data = some (.str s)) (ho : o.spec s = .ok c) :
    readOf o data Field.requires_python.rawName = .ok (.str c) := by
  simp [readOf, fieldOfRaw_rawName, conv, hv, isRequired_cases, process, procRequiresPython, ho, oneVerdict]

theorem enriched_license_expression (o : Oracle) (data : Dict) (s c : Str)
    (hv : aget Field.license_expression.rawName data = some (.str s)) (ho : o.lic s = .ok c) :
    readOf o data Field.license_expression.rawName = .ok (.str c) := by
  simp [readOf, fieldOfRaw_rawName, conv, hv, isRequired_cases, process, procLicenseExpression, ho, oneVerdict]

/-- **C17, laziness.**  `validate=False` defers exactly the per-field verdict of the validating loop to
attribute access: for a known field that the declared version does not exclude (or when no valid version is
declared), what the loop records for `k` is what reading `k` on the lazy instance does, after any history. -/
theorem lazy_same_errors (o : Oracle) (ks : List Str) (data : Dict) (hs : List Str) (k : Str) (f : Field)
    (hf : fieldOfRaw k = some f) (hold : ∀ mv, declared data = some mv → oldEnough f mv = true) :
    ∃ st, fromRaw o ks data false = .ok st ∧
      verdictOf o data (declaredAge data) k = KV.ofRead (getattr o k (reads o hs st).2).1 := by
  refine ⟨{ raw := data, cache := [] }, by simp [fromRaw], ?_⟩
  obtain ⟨_, h2⟩ := reads_spec (o := o) hs (inv_init o data)
  rw [(getattr_spec h2 k).1]
  simp only [verdictOf, readOf, hf]
  cases hd : declared data with
  | none => simp only [declaredAge, hd, Option.bind_none]
  | some mv =>
    obtain ⟨_, hmem⟩ := (declared_some_iff data mv).mp hd
    obtain ⟨a, ha⟩ := indexOf_isSome_of_mem (versions_table ▸ hmem : mv ∈ validVersions)
    obtain ⟨fa, hfa⟩ := ageOf_added f
    have hage : declaredAge data = some a := by simp only [declaredAge, hd, Option.bind_some]; exact ha
    have := hold mv hd
    rw [gated_iff f mv a fa ha hfa, decide_eq_true_eq] at this
    have hgt : ¬ fa > a := by omega
    simp only [hage, hfa, hgt, if_false]

/-- … and the error deferred to access is one of those the validating constructor reports -/
theorem lazy_error_in_group (o : Oracle) (ks : List Str) (data : Dict) (es : List Str) (k n : Str) (f : Field)
    (hne : NoEscape o data) (hk : k ∈ ks) (hf : fieldOfRaw k = some f)
    (hold : ∀ mv, declared data = some mv → oldEnough f mv = true)
    (hg : fromRaw o ks data true = .group es)
    (hread : readOf o data k = .error (.invalid n)) : n ∈ es := by
  obtain ⟨st, _, hv⟩ := lazy_same_errors o ks data [] k f hf hold
  simp only [reads] at hv
  have hst : st = { raw := data, cache := [] } := by
    have : fromRaw o ks data false = .ok { raw := data, cache := [] } := by simp [fromRaw]
    rename_i h; rw [this] at h; cases h; rfl
  subst hst
  rw [(getattr_spec (inv_init o data) k).1, hread] at hv
  have hkk := fromRaw_kind o ks data
  rw [hg, collect_noescape (fun v hv c => by
    obtain ⟨k, _, rfl⟩ := List.mem_map.mp hv
    exact verdict_ne_escape hne _ k c)] at hkk
  simp only [kind, Except.ok.injEq] at hkk
  subst hkk
  apply List.mem_append_right
  exact List.mem_filterMap.mpr ⟨_, List.mem_map_of_mem hk, by rw [hv]; rfl⟩

/-- `from_email`: unparsed keys are reported first and alone, otherwise it is `from_raw` of the parsed dict -/
theorem from_email_spec (o : Oracle) (ks : List Str) (raw : Dict) (unparsed : List Str) :
    fromEmail o ks raw unparsed true = (if unparsed = [] then fromRaw o ks raw true else .group unparsed) ∧
    fromEmail o ks raw unparsed false = fromRaw o ks raw false := by
  cases unparsed <;> simp [fromEmail]

/-! ### 8. non-vacuity: concrete oracles and dicts on which the hypotheses hold and the outcomes differ -/

deriving instance DecidableEq for Except

theorem ok_of_kind_nil {o : Oracle} {ks : List Str} {data : Dict}
    (h : kind (fromRaw o ks data true) = .ok []) : ∃ st, fromRaw o ks data true = .ok st := by
  cases hr : fromRaw o ks data true with
  | ok st => exact ⟨st, rfl⟩
  | group es => rw [hr] at h; simp only [kind, Except.ok.injEq] at h; exact absurd h (fromRaw_group_ne_nil hr)
  | raised c => rw [hr] at h; cases h

namespace Ex
/-- a small component world: name `foo`, versions `1.0` / ` 1.0` (canonical `1.0`), `boom` makes the version
parser raise an undocumented `ValueError` -/
def o1 : Oracle where
  name s := if s = ofString "foo" then .ok s else .bad
  version s := if s = ofString "1.0" ∨ s = ofString " 1.0" then .ok (ofString "1.0")
               else if s = ofString "boom" then .esc (ofString "ValueError") else .bad
  spec s := .ok s
  req s := .ok s
  lic _ := .bad
  ctype s := .parsed s none none
  lower s := s
  posixAbs _ := false
  winAbs _ := false
  winPosix s := s

def good : Dict :=
  [(ofString "name", .str (ofString "foo")), (ofString "metadata_version", .str (ofString "2.1")),
   (ofString "version", .str (ofString " 1.0")), (ofString "summary", .str (ofString "hi")),
   (ofString "provides_extra", .list [ofString "foo"])]

/-- Version missing, `dynamic` too new for 1.2, two-line summary, unknown key -/
def bad : Dict :=
  [(ofString "name", .str (ofString "foo")), (ofString "metadata_version", .str (ofString "1.2")),
   (ofString "bogus", .str (ofString "x")), (ofString "dynamic", .list []),
   (ofString "summary", .str (ofString "a\nb"))]

def boom : Dict := (ofString "version", Val.str (ofString "boom")) :: good

example : Acceptable o1 good :=
  (from_raw_ok_iff o1 _ good (List.Perm.refl _)).mp (ok_of_kind_nil (by decide +kernel))

example : ¬ Acceptable o1 bad := fun h => by
  obtain ⟨st, hst⟩ := (from_raw_ok_iff o1 (fieldsToCheck bad).reverse bad (List.reverse_perm _)).mpr h
  have : kind (fromRaw o1 (fieldsToCheck bad).reverse bad true) ≠ .ok [] := by decide +kernel
  exact this (by rw [hst]; rfl)

/-- the group for `bad`, visiting the keys in reverse order, and the specification's offenders -/
example : kind (fromRaw o1 (fieldsToCheck bad).reverse bad true) =
    .ok [ofString "version", ofString "summary", ofString "dynamic", ofString "bogus"] ∧
    offenders o1 bad = [ofString "bogus", ofString "dynamic", ofString "summary", ofString "version"] := by
  decide +kernel

/-- an undocumented exception of a component does escape (so `NoEscape` is a real hypothesis) … -/
example : kind (fromRaw o1 (fieldsToCheck boom) boom true) = .error (ofString "ValueError") := by decide +kernel

/-- … and it is satisfiable: an oracle that never escapes, on typed dicts -/
def o2 : Oracle := { o1 with version := fun s => if s = ofString "1.0" then .ok s else .bad }
example : ∀ c, ¬ OracleEsc o2 c := by
  rintro c ⟨s, h | h | h | h | h | h⟩ <;> simp only [o2, o1] at h <;> (repeat' split at h) <;> cases h

/-- reads with repeats on the lazy instance: conversion happens once, absent optional is `None` -/
example : (reads o1 [ofString "version", ofString "license", ofString "version", ofString "name"]
      { raw := good, cache := [] }).1
    = [.ok (.str (ofString "1.0")), .ok .none, .ok (.str (ofString "1.0")), .ok (.str (ofString "foo"))] := by
  decide +kernel
end Ex
end C17
