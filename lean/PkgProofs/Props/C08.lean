import PkgProofs.Lemmas.ReqLayout
import PkgProofs.Lemmas.ReqSSet
/-!
# C08 — Requirement parsing decomposes PEP 508 strings faithfully

Theorems about `Req` (`PkgModel/Requirement.lean`), the model the correspondence runs:

1. `str_roundtrip` — **character level**: for every well-formed requirement `r` (`ReqRound.Wf`), the real entry point
   (tokenizer, recursive descent, `Requirement.__init__`) run on `str r` returns a requirement that is equal to `r`,
   hashes alike and prints identically.
2. `url_xor_spec` — a parsed requirement never has both a URL and clauses.
4. `eq_is_pep503_and_spec_eq`, `eq_equivalence` — what `==` compares.
5. `extras_as_set` — order / repetition of extras is irrelevant to `==`, hash and `str`.
6. `hash_agrees` — `==` implies the same hash key.
3. `marker_after_url_needs_ws` — the URL is a maximal run of non-white-space characters; a marker exists only behind
   white space after it.
7. `requirement_marker_eq_marker` — the marker part is `Marker(text)` of the text after the semicolon.
8. `parse_wf`, `requirement_roundtrip` — every accepted requirement is well formed and round-trips through `str`
   (only hypothesis: the marker's literals are PEP 508 strings).
9. `parse_render` — `parse (render x) = sem x` for **every white-space layout** `x` of the grammar.
-/
namespace C08
open Py Mk Req ReqLex ReqParse ReqL ReqRound ReqWf ReqLayout
set_option linter.unusedSimpArgs false

/-! ### 1. `str` parses back (character level) -/

/-- **`Requirement(str(r))` is a requirement equal to `r`, with the same hash key and the same string**, for every
well-formed `r`: tokenizer and parser run on the characters of the canonical layout
`name[e1,e2]c1,c2@ url ; marker`. -/
theorem str_roundtrip (r : Requirement) (h : Wf r) :
    ∃ r', Req.parse (Req.str r) = .ok r' ∧ Req.eq r' r = true ∧ Req.str r' = Req.str r ∧ Req.hashKey r' = Req.hashKey r := by
  obtain ⟨h1, h2, h3⟩ := reparsed_props r (fun u hu => (h.url u hu).2)
  exact ⟨reparsed r, parse_str r h, h1, h2, h3⟩

/-- `str` is idempotent through the parser: `str(Requirement(str(r))) = str(r)` -/
theorem str_idempotent (r : Requirement) (h : Wf r) : (Req.parse (Req.str r)).toOption.map Req.str = some (Req.str r) := by
  obtain ⟨r', h1, _, h2, _⟩ := str_roundtrip r h
  simp [h1, Except.toOption, h2]

/-! ### 2. A URL and a version list are mutually exclusive -/

theorem parseDetails_xor (fuel : Nat) (st : St) (url spec : Str) (m : Option (List M)) (st' : St)
    (h : parseDetails fuel st = .ok (url, spec, m, st')) : url = [] ∨ spec = [] := by
  unfold parseDetails at h
  split at h
  · right
    split at h
    · cases h
    · split at h
      · cases h; rfl
      · split at h
        · cases h
        · split at h
          · cases h; rfl
          · simp only [bind, Except.bind] at h
            split at h
            · cases h
            · cases h; rfl
  · left
    simp only [bind, Except.bind] at h
    split at h
    · cases h
    · split at h
      · cases h; rfl
      · split at h
        · cases h
        · cases h; rfl

/-- **a parsed requirement never has both a URL and version clauses** -/
theorem url_xor_spec (src : Str) (r : Requirement) (h : Req.parse src = .ok r) : r.url = none ∨ r.spec = [] := by
  obtain ⟨P, spec, hP, hs, _, hu, _, hsp, _⟩ := parse_inv src r h
  obtain ⟨_, _, st3, _, _, hd, _⟩ := parseSource_inv src P hP
  rcases parseDetails_xor _ _ _ _ _ _ hd with e | e
  · left; rw [hu, e]; rfl
  · right; rw [e, mkSpecSet_nil] at hs; cases hs; exact hsp

/-! ### 4. Equality: names per PEP 503, extras and clauses as sets, URL, marker string -/

/-- **`==` on requirements** is: equal canonical names, the same set of extras, the same set of clause keys
(`Specifier` equality), the same URL, and markers with the same string form (or both absent) -/
theorem eq_is_pep503_and_spec_eq (a b : Requirement) :
    Req.eq a b = true ↔
      Names.canon a.name = Names.canon b.name ∧ (∀ x, x ∈ a.extras ↔ x ∈ b.extras) ∧
      (∀ k, k ∈ a.spec.map key ↔ k ∈ b.spec.map key) ∧ a.url = b.url ∧
      (match a.marker, b.marker with
       | none, none => True
       | some m, some n => Mk.str m = Mk.str n
       | _, _ => False) := by
  have hm : markerEq a.marker b.marker = true ↔ (match a.marker, b.marker with
       | none, none => True
       | some m, some n => Mk.str m = Mk.str n
       | _, _ => False) := by
    cases a.marker <;> cases b.marker <;> simp [markerEq, Mk.eq]
  simp only [Req.eq, Bool.and_eq_true, beq_iff_eq, setEq_iff, specEq_iff, hm, and_assoc]

theorem markerEq_refl (m : Option (List M)) : markerEq m m = true := by
  cases m <;> simp [markerEq, Mk.eq]

/-- `==` is an equivalence relation -/
theorem eq_equivalence : (∀ a, Req.eq a a = true) ∧ (∀ a b, Req.eq a b = true → Req.eq b a = true) ∧
    (∀ a b c, Req.eq a b = true → Req.eq b c = true → Req.eq a c = true) := by
  refine ⟨fun a => ?_, fun a b h => ?_, fun a b c h1 h2 => ?_⟩
  · rw [eq_is_pep503_and_spec_eq]
    refine ⟨rfl, fun _ => Iff.rfl, fun _ => Iff.rfl, rfl, ?_⟩
    cases a.marker <;> simp
  · rw [eq_is_pep503_and_spec_eq] at h ⊢
    obtain ⟨h1, h2, h3, h4, h5⟩ := h
    refine ⟨h1.symm, fun x => (h2 x).symm, fun k => (h3 k).symm, h4.symm, ?_⟩
    revert h5
    cases a.marker <;> cases b.marker <;> simp
    exact fun e => e.symm
  · rw [eq_is_pep503_and_spec_eq] at h1 h2 ⊢
    obtain ⟨a1, a2, a3, a4, a5⟩ := h1
    obtain ⟨b1, b2, b3, b4, b5⟩ := h2
    refine ⟨a1.trans b1, fun x => (a2 x).trans (b2 x), fun k => (a3 k).trans (b3 k), a4.trans b4, ?_⟩
    revert a5 b5
    cases a.marker <;> cases b.marker <;> cases c.marker <;> simp
    exact fun e1 e2 => e1.trans e2

/-! ### 6. Equal requirements hash alike -/

/-- **`a == b` implies `hash(a) == hash(b)`**: the tuple that is hashed is the same -/
theorem hash_agrees (a b : Requirement) (h : Req.eq a b = true) : Req.hashKey a = Req.hashKey b := by
  rw [eq_is_pep503_and_spec_eq] at h
  obtain ⟨h1, h2, h3, h4, h5⟩ := h
  have e1 := sorted_dedup_congr h2
  have e2 := sorted_dedup_congr h3
  have e3 : a.marker.map Mk.hashKey = b.marker.map Mk.hashKey := by
    revert h5
    cases a.marker <;> cases b.marker <;> simp [Mk.hashKey]
  simp only [Req.hashKey, h1, e1, e2, h4, e3]

/-! ### 5. Extras are a set -/

/-- **order and repetition of the extras in the source are irrelevant**: two parse results that differ only in the
list of extras, with the same elements, give requirements that are equal, hash alike and print identically -/
theorem extras_as_set (P Q : Parsed) (hn : P.name = Q.name) (hu : P.url = Q.url) (hs : P.specifier = Q.specifier)
    (hm : P.marker = Q.marker) (he : ∀ x, x ∈ P.extras ↔ x ∈ Q.extras) (r : Requirement) (h : ofParsed P = .ok r) :
    ∃ q, ofParsed Q = .ok q ∧ Req.eq r q = true ∧ Req.hashKey r = Req.hashKey q ∧ Req.str r = Req.str q := by
  unfold ofParsed at h ⊢
  simp only [bind, Except.bind] at h ⊢
  rw [← hs]
  cases hsp : mkSpecSet P.specifier with
  | error e => simp [hsp] at h
  | ok spec =>
    simp only [hsp, pure, Except.pure, Except.ok.injEq] at h ⊢
    subst h
    refine ⟨_, rfl, ?_, ?_, ?_⟩
    · rw [eq_is_pep503_and_spec_eq]
      refine ⟨by simp [hn], fun x => by simp [mem_dedup, he x], fun _ => Iff.rfl, by simp [hu], ?_⟩
      simp only [hm]
      cases Q.marker <;> simp
    · have e1 : sortBy strLe (dedup (dedup P.extras)) = sortBy strLe (dedup (dedup Q.extras)) :=
        sorted_dedup_congr (fun x => by simp [mem_dedup, he x])
      simp only [Req.hashKey, hn, e1, hu, hm]
    · have e1 : sortBy strLe (dedup P.extras) = sortBy strLe (dedup Q.extras) := sorted_dedup_congr he
      have e2 : (dedup P.extras).isEmpty = (dedup Q.extras).isEmpty := by
        have h1 := sortBy_isEmpty strLe (dedup P.extras)
        have h2 := sortBy_isEmpty strLe (dedup Q.extras)
        rw [← h1, ← h2, e1]
      simp only [Req.str, sortedExtras, hn, e1, e2, hu, hm]

/-! ### 3. A marker after a URL needs separating white space -/

/-- **the URL runs up to the next space or tab (or the end); a marker is only recognised behind such white space.**
`src = pre ++ url ++ post`, `url` is non-empty and free of space and tab, `post` is empty or starts with a space or
tab, and when the requirement has a marker `post` is not empty.  So in `name @ https://h/p;os_name=="a"` the `;…`
is part of the URL (`Examples.glued_semicolon`). -/
theorem marker_after_url_needs_ws (src : Str) (r : Requirement) (u : Str) (h : Req.parse src = .ok r) (hu : r.url = some u) :
    u ≠ [] ∧ (∀ x ∈ u, x ≠ 32 ∧ x ≠ 9) ∧ ∃ pre post, src = pre ++ u ++ post ∧
      (∀ c, post.head? = some c → c = 32 ∨ c = 9) ∧ (r.marker.isSome = true → post ≠ []) :=
  url_then_ws src r u h hu

/-! ### 7. The marker part is the stand-alone marker of the same text -/

/-- **`Requirement(src).marker` equals `Marker(text)`** for the text after the semicolon: the source splits as
`pre ++ ";" ++ text` such that the stand-alone entry point (`Mk.mkMarker`: tokenizer, marker parser with its own
recursion budget, `_normalize_extra_values`) returns exactly the requirement's marker list — hence the same `str`,
`==`, hash and evaluation. -/
theorem requirement_marker_eq_marker (src : Str) (r : Requirement) (m : List M) (h : Req.parse src = .ok r)
    (hm : r.marker = some m) : ∃ pre text, src = pre ++ 59 :: text ∧ Mk.mkMarker Req.X text = .ok m :=
  marker_eq_marker src r m h hm

/-! ### 8. Every accepted requirement is well formed, hence round-trips -/

/-- **what `Requirement(src)` establishes**: name and extras are identifiers ending in a word character, the extras
are a set, the members of the specifier set have pairwise different keys and each is a clean clause that parses back
to itself, a URL excludes clauses and is a non-empty run of non-white-space characters, the marker denotes a formula
over canonical variable names and operators and is already normalised -/
theorem parse_wf (src : Str) (r : Requirement) (h : Req.parse src = .ok r) :
    IdentOK r.name ∧ (∀ e ∈ r.extras, IdentOK e) ∧ r.extras.Nodup ∧ (r.spec.map key).Nodup ∧
    (∀ sp ∈ r.spec, SSet.roundtrips sp = true ∧ (ckey sp).isSome = true) ∧
    (∀ u, r.url = some u → UrlOK u ∧ r.spec = []) ∧
    (∀ m, r.marker = some m → (∃ f, Pep508.formulaOf m = some f) ∧ (∀ a ∈ MkParse.atomsL m, MkWf.VarOpCanon a) ∧
      ∀ a ∈ MkParse.atomsL m, normAtom Req.X a = a) := by
  obtain ⟨P, spec, hP, hs, hname, _, hex, hspec, _⟩ := parse_inv src r h
  obtain ⟨st1, st2, st3, _, he, _, _⟩ := parseSource_inv src P hP
  refine ⟨?_, ?_, ?_, ?_, ?_, ?_, ?_⟩
  · rw [hname]; exact name_identOK src P hP
  · intro e hmem
    rw [hex, mem_dedup] at hmem
    exact parseExtras_idents _ _ _ _ he e hmem
  · rw [hex]; exact nodup_dedup _
  · obtain ⟨sps, _, rfl⟩ := mkSpecSet_inv _ _ hs
    rw [hspec]; exact specSet_nodup sps
  · intro sp hsp
    rw [hspec] at hsp
    exact ⟨(members_roundtrip _ _ hs sp hsp).1, ckey_isSome sp⟩
  · intro u hu
    obtain ⟨h1, h2, _⟩ := marker_after_url_needs_ws src r u h hu
    refine ⟨⟨h1, fun x hx => (isUrlChar_iff x).mpr ?_⟩, ?_⟩
    · have := h2 x hx; omega
    · rcases url_xor_spec src r h with e | e
      · rw [e] at hu; cases hu
      · exact e
  · intro m hm; exact marker_wf src r m h hm

/-- **every accepted requirement round-trips through its string** (character level): `Requirement(str(r))` succeeds and
is equal to `r`, with the same hash key and the same string — provided the clauses are found again by the SPECIFIER
rule (`TokExact`, and their text is free of white space, `;`, `)`) and the marker's literals are written with PEP 508
string characters (`C09.LitOK`).  Everything else is established by `parse_wf`. -/
theorem parsed_roundtrip (src : Str) (r : Requirement) (h : Req.parse src = .ok r)
    (hcl : ∀ sp ∈ r.spec, (∀ x ∈ sp.ver, S.isArbChar x = true) ∧ (sp.op ≠ .arbitrary → TokExact sp.str))
    (hlit : ∀ m, r.marker = some m → ∀ a ∈ MkParse.atomsL m, C09.LitOK a) :
    ∃ r', Req.parse (Req.str r) = .ok r' ∧ Req.eq r' r = true ∧ Req.str r' = Req.str r ∧ Req.hashKey r' = Req.hashKey r := by
  obtain ⟨w1, w2, w3, w4, w5, w6, w7⟩ := parse_wf src r h
  refine str_roundtrip r ⟨w1, w2, w3, ?_, w4, w6, ?_⟩
  · intro sp hsp
    obtain ⟨hrt, hk⟩ := w5 sp hsp
    obtain ⟨h44, hstrip, hparse⟩ := C05.Roundtrips.unpack hrt
    refine ⟨⟨?_, hstrip, hparse, (hcl sp hsp).2⟩, hk⟩
    intro x hx
    refine ⟨(hcl sp hsp).1 x hx, ?_⟩
    intro e; subst e
    exact h44 (by simp [S.Spec.str, hx])
  · intro m hm
    obtain ⟨hf, hv, hn⟩ := w7 m hm
    exact ⟨⟨hf, fun a ha => C09.canonAtom_of a (hv a ha) (hlit m hm a ha)⟩, hn⟩

/-- **every accepted requirement round-trips through its string**, the only hypothesis being that the marker's
literals are written with PEP 508 string characters: whatever text `Requirement(src)` accepted — any white space
layout, parenthesised clause list, any spelling of the clauses, of the variables, any order and repetition of extras —
`Requirement(str(r))` succeeds, is equal to `r`, has the same hash key and the same string. -/
theorem requirement_roundtrip (src : Str) (r : Requirement) (h : Req.parse src = .ok r)
    (hlit : ∀ m, r.marker = some m → ∀ a ∈ MkParse.atomsL m, C09.LitOK a) :
    ∃ r', Req.parse (Req.str r) = .ok r' ∧ Req.eq r' r = true ∧ Req.str r' = Req.str r ∧ Req.hashKey r' = Req.hashKey r := by
  refine parsed_roundtrip src r h ?_ hlit
  obtain ⟨P, spec, _, hs, _, _, _, hspec, _⟩ := parse_inv src r h
  intro sp hsp
  rw [hspec] at hsp
  obtain ⟨_, c, _, hp⟩ := members_roundtrip _ _ hs sp hsp
  exact ⟨ReqClause.ver_chars_of_parse c sp hp, ReqClause.tokExact_of_parse c sp hp⟩

/-! ### 10. `Requirement.specifier` is the `SpecifierSet` of the clause text -/

/-- **the specifier set a requirement holds is `SpecifierSet(clause text)` of the SpecifierSet model** (C05/C06):
same members, no `prereleases` override anywhere; `InvalidSpecifier` becomes `InvalidRequirement` -/
theorem specifier_is_specifierset (s : Str) :
    (match SSet.ofString s none with
     | .ok T => mkSpecSet s = .ok (T.specs.map (·.1)) ∧ T.pre = none ∧ ∀ m ∈ T.specs, m.2 = none
     | .error e => (e = "InvalidSpecifier" ∧ mkSpecSet s = .error .invalidRequirement) ∨
                   (e = "InvalidVersion" ∧ mkSpecSet s = .error .rawInvalidVersion)) :=
  ReqSSet.mkSpecSet_eq_sset s

/-! ### 9. Any white-space layout (the stretch goal) -/

/-- **`parse (render x) = sem x` for every white-space layout `x`** of the PEP 508 grammar (see `ReqLayout.parse_render`
for the definitions: `Layout` carries a run of spaces/tabs at every `wsp*` position, `render` writes it out, `sem` is
the requirement built from the parts: name, set of extras, `SpecifierSet` of exactly the clauses, URL, `Marker` of the
marker text).  Excluded by `Layout.OK`: an `===` clause with the comma directly behind it (finding F05). -/
theorem parse_render (x : Layout) (hx : x.OK) (m : Option (List M))
    (hm : ∀ mtext, x.details.mtext = some mtext → ∃ m0, Mk.parse mtext = .ok m0 ∧ m = some m0)
    (hmn : x.details.mtext = none → m = none) :
    Req.parse x.render = .ok (x.sem m) :=
  ReqLayout.parse_render x hx m hm hmn

/-! ### Non-vacuity: the hypotheses are satisfiable, the conclusions are not trivial -/
namespace Examples

/-- the exception a construction ends in (`none`: it succeeds) -/
def errOf {α} : Req.Res α → Option Req.Err
  | .error e => some e
  | .ok _ => none

/-- any layout: white space everywhere, parenthesised list, repeated extras, three clause spellings, a marker with
an `extra` comparison that is normalised -/
def src0 : Str := ofString " Foo.Bar [ b , a,b ] ( >= 1.0a1 , === x ,!=2.* ) ; os_name == 'a' or extra == 'X_y' "
def can0 : Str := ofString "Foo.Bar[a,b]!=2.*,===x,>=1.0a1; os_name == \"a\" or extra == \"x-y\""

example : (Req.parse src0).toOption.map Req.str = some can0 := by decide +kernel
/-- … and the canonical string parses to a requirement with the same string (instance of `requirement_roundtrip`) -/
example : (Req.parse can0).toOption.map Req.str = some can0 := by decide +kernel
/-- the hypothesis of `requirement_roundtrip` holds for it: the literals `a`, `x-y` are PEP 508 strings -/
def a1 : Atom := ⟨.var (ofString "os_name"), ofString "==", .val (ofString "a")⟩
def a2 : Atom := ⟨.var (ofString "extra"), ofString "==", .val (ofString "x-y")⟩
example : ((Req.parse src0).toOption.bind (·.marker)).map MkParse.atomsL = some [a1, a2] := by decide +kernel
example : ∀ a ∈ [a1, a2], C09.LitOK a := by
  intro a ha
  simp only [List.mem_cons, List.mem_nil_iff, or_false] at ha
  rcases ha with rfl | rfl
  · exact ⟨(fun s hs => by cases hs), (fun s hs => by cases hs; exact ⟨by decide, by decide⟩)⟩
  · exact ⟨(fun s hs => by cases hs), (fun s hs => by cases hs; exact ⟨by decide, by decide⟩)⟩

/-- a URL requirement with a marker: white space separates them; no clauses (`url_xor_spec`, `marker_after_url_needs_ws`) -/
def srcU : Str := ofString "n[x] @ https://h/p?a=b ; os_name=='a'"
example : (Req.parse srcU).toOption.map (fun r => (r.url, r.spec.length, r.marker.isSome)) =
    some (some (ofString "https://h/p?a=b"), 0, true) := by decide +kernel
example : (Req.parse srcU).toOption.map Req.str = some (ofString "n[x]@ https://h/p?a=b ; os_name == \"a\"") := by
  decide +kernel

/-- `;` glued to the URL belongs to the URL: no marker is recognised -/
def glued : Str := ofString "n @ https://h/p;os_name=='a'"
theorem glued_semicolon : (Req.parse glued).toOption.map (fun r => (r.url, r.marker.isSome)) =
    some (some (ofString "https://h/p;os_name=='a'"), false) := by decide +kernel

/-- a URL followed by a clause is rejected -/
example : errOf (Req.parse (ofString "n @ https://h/p >=1")) = some .invalidRequirement := by decide +kernel

/-- names equal per PEP 503, extras in another order and repeated, a clause respelled with a trailing zero, the marker
respelled: equal, and the hash keys agree (`eq_is_pep503_and_spec_eq`, `extras_as_set`, `hash_agrees`) -/
example : (do
    let a ← Req.parse (ofString "Foo.Bar[a,b]>=1.0;os_name=='a'")
    let b ← Req.parse (ofString "foo_bar [b,a,b] >= 1.0.0 ; (os.name == \"a\")")
    pure (Req.eq a b, decide (Req.hashKey a = Req.hashKey b))).toOption = some (true, true) := by decide +kernel
/-- extras are compared as written; a different clause is a different requirement -/
example : (do
    let a ← Req.parse (ofString "n[a]>=1.0")
    let b ← Req.parse (ofString "n[A]>=1.0")
    let c ← Req.parse (ofString "n[a]>=1.1")
    pure (Req.eq a b, Req.eq a c)).toOption = some (false, false) := by decide +kernel

/-- the marker part is the stand-alone marker of the text after the semicolon (`requirement_marker_eq_marker`) -/
example : ((Req.parse (ofString "n>=1 ;  (extra=='A_b')")).toOption.bind (·.marker)).map MkParse.atomsL =
    (Mk.mkMarker Req.X (ofString "  (extra=='A_b')")).toOption.map MkParse.atomsL := by decide +kernel

/-! #### the two known findings, in the model -/

/-- F05: an `===` clause directly followed by `,` and white space — the SPECIFIER token swallows the comma, the rest is
no continuation; without the white space the same list is accepted -/
theorem f05_rejected : errOf (Req.parse (ofString "name ===1.0, >=2")) = some .invalidRequirement ∧
    (Req.parse (ofString "name ===1.0,>=2")).toOption.map Req.str = some (ofString "name===1.0,>=2") := by
  constructor <;> decide +kernel

/-- F06: two spellings of equal clauses: the requirements are equal and hash alike, but their strings differ (the set
keeps the member that was supplied first) -/
theorem f06_str_depends_on_order : (do
    let a ← Req.parse (ofString "n==1.0,==1.0.0")
    let b ← Req.parse (ofString "n==1.0.0,==1.0")
    pure (Req.eq a b, decide (Req.hashKey a = Req.hashKey b), Req.str a, Req.str b)).toOption =
      some (true, true, ofString "n==1.0", ofString "n==1.0.0") := by decide +kernel

/-- the trail errors of `_parse_version_many` -/
example : errOf (Req.parse (ofString "x>=1.0.*")) = some .invalidRequirement ∧
    errOf (Req.parse (ofString "x>=1.0+local")) = some .invalidRequirement ∧
    errOf (Req.parse (ofString "x~=1")) = some .invalidRequirement := by
  refine ⟨?_, ?_, ?_⟩ <;> decide +kernel

/-- the generated SPECIFIER rule is literally the body of `Specifier._regex` (the pattern C12 proves equal to the
PEP 440 clause language); if the source changes this fails to compile -/
theorem specifier_rule_tied : Gen.ReqTok.specTied = true ∧ Gen.ReqTok.supported = true := by decide


/-! #### a layout for `parse_render` -/

def sp : Str := [32]
def c1 : Cl := ⟨.ge, sp, ofString "1.0a1"⟩
def c2 : Cl := ⟨.arbitrary, sp, ofString "x"⟩
def c3 : Cl := ⟨.ne, [], ofString "2.*"⟩
/-- ` Foo.Bar [ b , a ] ( >= 1.0a1 , === x ,!=2.* ) ; os_name == 'a'` -/
def lay : Layout :=
  { w0 := sp, name := ofString "Foo.Bar", w1 := sp,
    extras := some (sp, some (ofString "b", [(sp, sp, ofString "a")], sp), sp),
    details := .spec (.paren sp (some (c1, [(sp, sp, c2), (sp, [], c3)], sp)) sp) (some (ofString " os_name == 'a'")) }

example : lay.render = ofString " Foo.Bar [ b , a ] ( >= 1.0a1 , === x ,!=2.* ) ; os_name == 'a'" := by decide

theorem wsRun_sp : WsRun sp := by intro c hc; simp [sp] at hc; exact Or.inl hc
theorem wsRun_nil : WsRun [] := by intro c hc; cases hc

theorem identOK_of (s : Str) (c : Nat) (t : Str) (h : s = c :: t) (h1 : isIdentHead c = true)
    (h2 : t.all isIdentTail = true) (h3 : isWordO (lastOr s none) = true) : IdentOK s :=
  ⟨c, t, h, h1, fun x hx => List.all_eq_true.mp h2 x hx, h3⟩

/-- the layout satisfies the hypotheses of `parse_render` -/
theorem lay_ok : lay.OK := by
  refine ⟨wsRun_sp, identOK_of _ 70 _ rfl (by decide) (by decide) (by decide), wsRun_sp, ⟨wsRun_sp, ⟨?_, ?_, wsRun_sp⟩, wsRun_sp⟩, ?_⟩
  · exact identOK_of _ 98 _ rfl (by decide) (by decide) (by decide)
  · intro it hit
    simp only [List.mem_cons, List.mem_nil_iff, or_false] at hit
    subst hit
    exact ⟨wsRun_sp, wsRun_sp, identOK_of _ 97 _ rfl (by decide) (by decide) (by decide)⟩
  · refine ⟨wsRun_sp, ⟨?_, ⟨wsRun_sp, wsRun_sp, ?_, (fun h => by cases h), wsRun_sp, wsRun_nil, ?_, (fun _ => by decide), trivial⟩, wsRun_sp⟩, wsRun_sp⟩
    · exact ⟨wsRun_sp, by decide +kernel, by decide, fun h => by cases h⟩
    · exact ⟨wsRun_sp, by decide +kernel, by decide, fun _ => by decide⟩
    · exact ⟨wsRun_nil, by decide +kernel, by decide, fun h => by cases h⟩

/-- and the marker text is one `Marker` accepts -/
example : (Mk.parse (ofString " os_name == 'a'")).toOption.map MkParse.atomsL = some [a1] := by decide +kernel

end Examples
end C08
