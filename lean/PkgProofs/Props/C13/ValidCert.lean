import PkgModel.Spec.Names
import PkgModel.Generated.NameValidRx
import PkgProofs.Lemmas.RxSound
import PkgProofs.Props.C13.Dfa
/-! C13: kernel-evaluated certificates for `_validate_regex` (regenerated from the source) -/
namespace C13
open Rx

theorem valid_classes_verified :
    Kinds.consistent Kinds.kindCS Gen.NameValidRx.nClasses Gen.NameValidRx.kinds Gen.NameValidRx.ranges = true := by
  decide +kernel

set_option maxRecDepth 100000 in
/-- bisimulation with the spec regex "letter/digit, then optionally (letters/digits/separators)* letter/digit" -/
theorem validate_cert :
    equiv1 Gen.NameValidRx.nClasses 4000 Gen.NameValidRx.rx (NameSpec.validRx Gen.NameValidRx.kinds) = true := by
  decide +kernel

set_option maxRecDepth 100000 in
/-- simulation by the three-state automaton `δV` -/
theorem valid_sim :
    simulates Gen.NameValidRx.nClasses Gen.NameValidRx.kinds δV FV 0 Gen.NameValidRx.rx 4000 = true := by
  decide +kernel

end C13
