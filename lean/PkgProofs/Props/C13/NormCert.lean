import PkgModel.Generated.NormalizedRx
import PkgModel.Spec.Names
import PkgProofs.Lemmas.RxSound
import PkgProofs.Props.C13.Dfa
/-! C13: kernel-evaluated certificates for `_normalized_regex` (regenerated from the source) -/
namespace C13
open Rx

theorem normalized_classes_verified :
    Kinds.consistent Kinds.kindCS Gen.NormalizedRx.nClasses Gen.NormalizedRx.kinds Gen.NormalizedRx.ranges = true := by
  decide +kernel

set_option maxRecDepth 100000 in
/-- bisimulation with the spec regex "runs of lower-case letters/digits separated by single dashes" -/
theorem normalized_cert :
    equiv1 Gen.NormalizedRx.nClasses 4000 Gen.NormalizedRx.rx (NameSpec.normalizedRx Gen.NormalizedRx.kinds) = true := by
  decide +kernel

set_option maxRecDepth 100000 in
/-- simulation by the three-state automaton `δN` -/
theorem normalized_sim :
    simulates Gen.NormalizedRx.nClasses Gen.NormalizedRx.kinds δN FN 0 Gen.NormalizedRx.rx 4000 = true := by
  decide +kernel

end C13
