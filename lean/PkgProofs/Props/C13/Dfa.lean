import PkgModel.Names
import PkgModel.Spec.Names
import PkgProofs.Lemmas.RxDfa
import PkgProofs.Lemmas.Names
/-!
C13: the two name languages as hand-written deterministic automata over character kinds, and what
their runs compute on code points.  (Proof devices: the property theorems are stated with the
predicates of `PkgModel/Spec/Names.lean`.)
-/
namespace C13
open Py Rx

/-- kinds of ASCII letters and digits (`Kinds.kindCS`: digit 1, lower 2..27, upper 43..68) -/
def alnumK (k : Nat) : Bool := k == 1 || (2 ≤ k && k ≤ 27) || (43 ≤ k && k ≤ 68)
def lowK (k : Nat) : Bool := k == 1 || (2 ≤ k && k ≤ 27)
def sepK (k : Nat) : Bool := k == 28 || k == 29 || k == 30

/-- valid names: 0 start, 1 after a letter/digit (accepting), 2 after a separator, 3 dead -/
def δV (q k : Nat) : Nat :=
  match q with
  | 0 => if alnumK k then 1 else 3
  | 1 => if alnumK k then 1 else if sepK k then 2 else 3
  | 2 => if alnumK k then 1 else if sepK k then 2 else 3
  | _ => 3
def FV (q : Nat) : Bool := q == 1

/-- normalised names: 0 start, 1 after a lower-case letter/digit (accepting), 2 after a dash, 3 dead -/
def δN (q k : Nat) : Nat :=
  match q with
  | 0 => if lowK k then 1 else 3
  | 1 => if lowK k then 1 else if k == 29 then 2 else 3
  | 2 => if lowK k then 1 else 3
  | _ => 3
def FN (q : Nat) : Bool := q == 1

theorem kindCS_ge (cp : Nat) (h : 128 ≤ cp) : Kinds.kindCS cp = Kinds.other := by
  unfold Kinds.kindCS Kinds.kindCI
  repeat rw [if_neg (by simp only [Bool.and_eq_true, Bool.or_eq_true, decide_eq_true_eq, beq_iff_eq]; omega)]

theorem kind_facts_ascii : ∀ c, c < 128 →
    alnumK (Kinds.kindCS c) = NameSpec.alnum c ∧ sepK (Kinds.kindCS c) = NameSpec.isSep c ∧
    lowK (Kinds.kindCS c) = (isLowerAscii c || isDigit c) ∧ ((Kinds.kindCS c == 29) = (c == 45)) := by
  decide +kernel

theorem kind_facts (c : Nat) :
    alnumK (Kinds.kindCS c) = NameSpec.alnum c ∧ sepK (Kinds.kindCS c) = NameSpec.isSep c ∧
    lowK (Kinds.kindCS c) = (isLowerAscii c || isDigit c) ∧ ((Kinds.kindCS c == 29) = (c == 45)) := by
  by_cases h : c < 128
  · exact kind_facts_ascii c h
  · rw [kindCS_ge c (by omega)]
    have h1 : NameSpec.alnum c = false := by
      simp [NameSpec.alnum, isDigit, isLowerAscii, isUpperAscii]; omega
    have h2 : NameSpec.isSep c = false := by
      simp [NameSpec.isSep]; omega
    have h3 : (isLowerAscii c || isDigit c) = false := by
      simp [isDigit, isLowerAscii]; omega
    have h4 : (c == 45) = false := by simp; omega
    rw [h1, h2, h3, h4]; decide

/-! ### what the runs compute -/

/-- letter, digit or separator -/
def okc (c : Nat) : Bool := NameSpec.alnum c || NameSpec.isSep c

/-- the last character is a letter or digit (`dflt` for the empty string) -/
def lastAlnum (dflt : Bool) : Str → Bool
  | [] => dflt
  | c :: r => lastAlnum (NameSpec.alnum c) r

def runV (q : Nat) (s : Str) : Bool := runK δV FV q (s.map Kinds.kindCS)
def runN (q : Nat) (s : Str) : Bool := runK δN FN q (s.map Kinds.kindCS)

theorem runV_dead (s : Str) : runV 3 s = false := by
  induction s with
  | nil => rfl
  | cons c r ih => simpa [runV, runK, δV] using ih

theorem runN_dead (s : Str) : runN 3 s = false := by
  induction s with
  | nil => rfl
  | cons c r ih => simpa [runN, runK, δN] using ih

theorem runV_cons (q c : Nat) (r : Str) : runV q (c :: r) = runV (δV q (Kinds.kindCS c)) r := rfl
theorem runN_cons (q c : Nat) (r : Str) : runN q (c :: r) = runN (δN q (Kinds.kindCS c)) r := rfl

theorem runV_12 (s : Str) :
    runV 1 s = (s.all okc && lastAlnum true s) ∧ runV 2 s = (s.all okc && lastAlnum false s) := by
  induction s with
  | nil => exact ⟨rfl, rfl⟩
  | cons c r ih =>
    obtain ⟨ka, ks, _, _⟩ := kind_facts c
    simp only [runV_cons, δV, ka, ks, List.all_cons, lastAlnum, okc]
    cases ha : NameSpec.alnum c <;> cases hs : NameSpec.isSep c <;>
      simp [ih.1, ih.2, runV_dead]

theorem getLast_alnum (d : Nat) (r : Str) :
    ∃ x, (d :: r).getLast? = some x ∧ NameSpec.alnum x = lastAlnum (NameSpec.alnum d) r := by
  induction r generalizing d with
  | nil => exact ⟨d, rfl, rfl⟩
  | cons e r' ih => rw [List.getLast?_cons_cons]; exact ih e

/-- the automaton for valid names computes the spec predicate -/
theorem runV_eq_valid (s : Str) : runV 0 s = NameSpec.validName s := by
  cases s with
  | nil => rfl
  | cons c r =>
    obtain ⟨ka, _, _, _⟩ := kind_facts c
    obtain ⟨x, hx, hl⟩ := getLast_alnum c r
    simp only [runV_cons, δV, ka, NameSpec.validName, List.all_cons, List.head?_cons, hx, hl]
    cases ha : NameSpec.alnum c
    · simp [runV_dead]
    · simp only [ite_true, (runV_12 r).1, Bool.true_or, Bool.true_and, Bool.and_true]
      rfl

theorem runN_12 (s : Str) :
    runN 1 s = (s.all okc && lastAlnum true s && Names.G s false) ∧
    runN 2 s = (s.all okc && lastAlnum false s && Names.G s true) := by
  induction s with
  | nil => exact ⟨rfl, rfl⟩
  | cons c r ih =>
    obtain ⟨_, _, kl, kd⟩ := kind_facts c
    simp only [runN_cons, δN, kl, kd, List.all_cons, lastAlnum, Names.G, Names.isSep_eq_spec]
    by_cases hlow : (isLowerAscii c || isDigit c) = true
    · have h1 : NameSpec.alnum c = true := by
        simp only [NameSpec.alnum, isLowerAscii, isDigit, isUpperAscii, Bool.or_eq_true, Bool.and_eq_true,
          decide_eq_true_eq] at hlow ⊢
        omega
      have h2 : NameSpec.isSep c = false := by
        simp only [NameSpec.isSep, isLowerAscii, isDigit, Bool.or_eq_true, Bool.and_eq_true,
          decide_eq_true_eq, Bool.or_eq_false_iff, beq_eq_false_iff_ne] at hlow ⊢
        omega
      have h3 : (lowerAscii c == c) = true := by
        simp only [lowerAscii, isUpperAscii, isLowerAscii, isDigit, Bool.or_eq_true, Bool.and_eq_true,
          decide_eq_true_eq, beq_iff_eq] at hlow ⊢
        split <;> omega
      simp [hlow, h1, h2, h3, okc, ih.1]
    · simp only [Bool.not_eq_true] at hlow
      by_cases hd : c = 45
      · subst hd
        simp [NameSpec.isSep, NameSpec.alnum, isLowerAscii, isDigit, isUpperAscii, okc, ih.2, runN_dead]
      · have hd' : (c == 45) = false := by simp [hd]
        simp only [hlow, hd', Bool.false_eq_true, ite_false, runN_dead]
        -- not lower-case, not a dash: an upper-case letter fails `G`, `_`/`.` fail `c == 45`, the rest fail `okc`
        cases hs : NameSpec.isSep c
        · cases ha : NameSpec.alnum c
          · simp [okc, ha, hs]
          · have h3 : (lowerAscii c == c) = false := by
              simp only [NameSpec.alnum, lowerAscii, isUpperAscii, isLowerAscii, isDigit, Bool.or_eq_true,
                Bool.and_eq_true, decide_eq_true_eq, Bool.or_eq_false_iff, Bool.and_eq_false_iff,
                decide_eq_false_iff_not, beq_eq_false_iff_ne] at hlow ha ⊢
              split <;> omega
            simp [h3]
        · simp

/-- the automaton for normalised names computes "valid and a fixed point of `canonicalize_name`" -/
theorem runN_eq_normalized (s : Str) : runN 0 s = (NameSpec.validName s && (Names.canon s == s)) := by
  cases hv : NameSpec.validName s
  · -- not valid: the run rejects
    rw [← runV_eq_valid] at hv
    cases s with
    | nil => rfl
    | cons c r =>
      obtain ⟨ka, _, kl, _⟩ := kind_facts c
      simp only [runV_cons, δV, ka] at hv
      simp only [runN_cons, δN, kl, Bool.false_and]
      by_cases hlow : (isLowerAscii c || isDigit c) = true
      · have h1 : NameSpec.alnum c = true := by
          simp only [NameSpec.alnum, isLowerAscii, isDigit, isUpperAscii, Bool.or_eq_true, Bool.and_eq_true,
            decide_eq_true_eq] at hlow ⊢
          omega
        simp only [h1, ite_true, (runV_12 r).1] at hv
        simp only [hlow, ite_true, (runN_12 r).1, hv, Bool.false_and]
      · simp only [Bool.not_eq_true] at hlow
        simp [hlow, runN_dead]
  · -- valid, hence ASCII: `canon s == s` is the scan `G`
    have hascii : ∀ c ∈ s, c < 128 := by
      intro c hc
      simp only [NameSpec.validName, Bool.and_eq_true, List.all_eq_true] at hv
      have := hv.1.1 c hc
      simp only [NameSpec.alnum, NameSpec.isSep, isDigit, isLowerAscii, isUpperAscii, Bool.or_eq_true,
        Bool.and_eq_true, decide_eq_true_eq, beq_iff_eq] at this
      omega
    rw [Names.canon_fixed_iff s hascii, Bool.true_and]
    rw [← runV_eq_valid] at hv
    cases s with
    | nil => simp [runV, runK, FV] at hv
    | cons c r =>
      obtain ⟨ka, _, kl, _⟩ := kind_facts c
      simp only [runV_cons, δV, ka] at hv
      cases ha : NameSpec.alnum c
      · simp [ha, runV_dead] at hv
      · simp only [ha, ite_true, (runV_12 r).1] at hv
        have hsep : NameSpec.isSep c = false := by
          simp only [NameSpec.alnum, NameSpec.isSep, isDigit, isLowerAscii, isUpperAscii, Bool.or_eq_true,
            Bool.and_eq_true, decide_eq_true_eq, Bool.or_eq_false_iff, beq_eq_false_iff_ne] at ha ⊢
          omega
        simp only [runN_cons, δN, kl, Names.G, Names.isSep_eq_spec, hsep, Bool.false_eq_true, ite_false]
        by_cases hlow : (isLowerAscii c || isDigit c) = true
        · have h3 : (lowerAscii c == c) = true := by
            simp only [lowerAscii, isUpperAscii, isLowerAscii, isDigit, Bool.or_eq_true, Bool.and_eq_true,
              decide_eq_true_eq, beq_iff_eq] at hlow ⊢
            split <;> omega
          simp [hlow, h3, (runN_12 r).1, hv]
        · simp only [Bool.not_eq_true] at hlow
          have h3 : (lowerAscii c == c) = false := by
            simp only [NameSpec.alnum, lowerAscii, isUpperAscii, isLowerAscii, isDigit, Bool.or_eq_true,
              Bool.and_eq_true, decide_eq_true_eq, Bool.or_eq_false_iff, Bool.and_eq_false_iff,
              decide_eq_false_iff_not, beq_eq_false_iff_ne] at hlow ha ⊢
            split <;> omega
          simp [hlow, h3, runN_dead]

/-! ### the canonical form of a valid name is valid -/

theorem alnum_facts (c : Nat) (h : NameSpec.alnum c = true) :
    c < 128 ∧ NameSpec.isSep c = false ∧ NameSpec.alnum (lowerAscii c) = true := by
  simp only [NameSpec.alnum, NameSpec.isSep, lowerAscii, isDigit, isLowerAscii, isUpperAscii, Bool.or_eq_true,
    Bool.and_eq_true, decide_eq_true_eq, Bool.or_eq_false_iff, beq_eq_false_iff_ne] at h ⊢
  refine ⟨by omega, by omega, ?_⟩
  split <;> omega

theorem validName_cons (c : Nat) (r : Str) :
    NameSpec.validName (c :: r) = (NameSpec.alnum c && (r.all okc && lastAlnum true r)) := by
  rw [← runV_eq_valid, runV_cons]
  obtain ⟨ka, _, _, _⟩ := kind_facts c
  simp only [δV, ka]
  cases ha : NameSpec.alnum c
  · simp [runV_dead]
  · simp [(runV_12 r).1]

theorem canon_tail_valid (s : Str) :
    ((s.all okc && lastAlnum true s) = true →
      ((Names.lower (Names.collapseAux s false)).all okc && lastAlnum true (Names.lower (Names.collapseAux s false))) = true) ∧
    ((s.all okc && lastAlnum false s) = true →
      ((Names.lower (Names.collapseAux s true)).all okc && lastAlnum false (Names.lower (Names.collapseAux s true))) = true) := by
  induction s with
  | nil => simp [Names.collapseAux, Names.lower, lastAlnum]
  | cons c r ih =>
    have h45 : Names.lowerCp 45 = [45] := Names.lowerCp_sep 45 (by decide)
    cases ha : NameSpec.alnum c
    · -- a separator (or the hypotheses are false)
      cases hs : NameSpec.isSep c
      · simp [okc, ha, hs]
      · have hs' : Names.isSep c = true := by rw [Names.isSep_eq_spec]; exact hs
        constructor
        · intro h
          simp only [List.all_cons, okc, ha, hs, Bool.false_or, Bool.true_and, lastAlnum] at h
          have := ih.2 (by simpa [okc] using h)
          simp only [Names.collapseAux, hs', ite_true, Bool.false_eq_true, ite_false, Names.lower_cons, h45,
            List.singleton_append, List.all_cons, lastAlnum]
          simpa [okc, NameSpec.alnum, NameSpec.isSep, isDigit, isLowerAscii, isUpperAscii] using this
        · intro h
          simp only [List.all_cons, okc, ha, hs, Bool.false_or, Bool.true_and, lastAlnum] at h
          have := ih.2 (by simpa [okc] using h)
          simpa [Names.collapseAux, hs'] using this
    · obtain ⟨hlt, hs, hal⟩ := alnum_facts c ha
      have hs' : Names.isSep c = false := by rw [Names.isSep_eq_spec]; exact hs
      have hl : Names.lowerCp c = [lowerAscii c] := by simp [Names.lowerCp, hlt]
      have step : ∀ b, Names.lower (Names.collapseAux (c :: r) b) = lowerAscii c :: Names.lower (Names.collapseAux r false) := by
        intro b; simp [Names.collapseAux, hs', Names.lower_cons, hl]
      constructor
      · intro h
        simp only [List.all_cons, okc, ha, Bool.true_or, Bool.true_and, lastAlnum] at h
        have := ih.1 (by simpa [okc] using h)
        rw [step]
        simpa [okc, hal, lastAlnum] using this
      · intro h
        simp only [List.all_cons, okc, ha, Bool.true_or, Bool.true_and, lastAlnum] at h
        have := ih.1 (by simpa [okc] using h)
        rw [step]
        simpa [okc, hal, lastAlnum] using this

theorem canon_valid (n : Str) (h : NameSpec.validName n = true) : NameSpec.validName (Names.canon n) = true := by
  cases n with
  | nil => simp [NameSpec.validName] at h
  | cons c r =>
    rw [validName_cons] at h
    simp only [Bool.and_eq_true] at h
    obtain ⟨hlt, hs, hal⟩ := alnum_facts c h.1
    have hs' : Names.isSep c = false := by rw [Names.isSep_eq_spec]; exact hs
    have hl : Names.lowerCp c = [lowerAscii c] := by simp [Names.lowerCp, hlt]
    have : Names.canon (c :: r) = lowerAscii c :: Names.lower (Names.collapseAux r false) := by
      simp [Names.canon, Names.collapse, Names.collapseAux, hs', Names.lower_cons, hl]
    rw [this, validName_cons, hal, Bool.true_and]
    exact (canon_tail_valid r).1 (by simpa using h.2)

end C13
