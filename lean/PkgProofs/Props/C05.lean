import PkgProofs.Lemmas.SpecSet
import PkgProofs.Lemmas.SpecAlike
import PkgProofs.Lemmas.SpecReadable
import PkgProofs.Lemmas.SpecRoundtrip
/-!
# C05 — SpecifierSet is the conjunction of its specifiers; `&` is intersection; `str` round trip

Model: `PkgModel/SpecifierSet.lean` (`SSet`).  The `frozenset` of members is a list deduplicated by
`Specifier.__eq__` (key `_canonical_spec`, first inserted kept); every function that iterates it takes
the iteration order `it` explicitly and the theorems hold **for every permutation** `it` of the members.

The one recurring hypothesis, satisfiable (see the examples), is about *members raising*:
* `CmpOk m v` — comparing member `m` with candidate `v` does not raise (the raise sites left in `Spec.compare`
  are re-parses of rendered versions and `_version_join` of an empty list; unreachable for constructor-built
  members and parsed candidates, which the correspondence samples).
"Equal specifiers match alike" (needed because a set keeps one of several equal members) is no hypothesis: it is
`SSet.equal_specs_match_alike`, proved for every operator from C02's invariants of `canonicalize_version`
(true for `===` since C05-fix-1 and for `~=` since C03-fix-1).  Hashing a member never raises
(`SSet.canonical_isOk`).
-/
namespace C05
open Py V S SSet


/-- what the constructors establish: members are pairwise non-equal as `Specifier`s -/
def WF (T : SpecSet) : Prop := (keys T.specs).Nodup

/-- a member's answer with pre-releases enabled, as `Specifier.contains(v, prereleases=True)` gives it -/
theorem member_contains_true {m : Member} {v : Ver} (h : CmpOk m v) :
    m.1.contains m.2 v (some true) = .ok (mcmp m v) := by
  rw [contains_some true h]; simp [accb]

/-! ## constructors -/

/-- building a set from `Specifier` objects never raises (hashing is total) -/
theorem ofSpecs_total (ms : List Member) (p : Option Bool) : ofSpecs ms p = .ok ⟨fromList ms, p⟩ := by
  have : (ms.all fun m => m.1.canonical.isOk) = true := List.all_eq_true.mpr (fun m _ => canonical_isOk m.1)
  simp [ofSpecs, this]

/-- `SpecifierSet(str)` raises only `InvalidSpecifier`, and exactly when a clause is not a specifier -/
theorem ofString_total (s : Str) (p : Option Bool) :
    SSet.ofString s p = match parseAll (clauses s) with
      | none => .error "InvalidSpecifier"
      | some sps => .ok ⟨fromList (sps.map fun sp => (sp, none)), p⟩ := by
  unfold SSet.ofString
  cases parseAll (clauses s) with
  | none => rfl
  | some sps => exact ofSpecs_total _ p

theorem ofSpecs_wf {ms : List Member} {p : Option Bool} {T : SpecSet} (h : ofSpecs ms p = .ok T) : WF T := by
  rw [(ofSpecs_ok h).1]; exact nodup_fromList ms

theorem ofString_wf {s : Str} {p : Option Bool} {T : SpecSet} (h : SSet.ofString s p = .ok T) : WF T := by
  obtain ⟨sps, _, hT, _⟩ := ofString_ok h
  rw [hT]; exact nodup_fromList _

theorem and_ok {a b r : SpecSet} (h : a.and b = .ok r) :
    r.specs = union a.specs b.specs ∧ combinePre a.pre b.pre = some r.pre := by
  unfold SpecSet.and at h
  split at h
  · rename_i p hp
    injection h with h
    subst h
    exact ⟨rfl, hp⟩
  · cases h

theorem and_wf {a b r : SpecSet} (ha : WF a) (h : a.and b = .ok r) : WF r := by
  rw [WF, (and_ok h).1]; exact nodup_union _ ha

/-! ## 1. conjunction -/

/-- **With pre-releases enabled (by the call argument or by the override), a set matches a candidate exactly
when every member specifier matches it** — for every iteration order of the frozenset. -/
theorem contains_is_all (T : SpecSet) (it : List Member) (v : Ver) (p : Option Bool)
    (hen : p = some true ∨ (p = none ∧ T.pre = some true))
    (hp : it.Perm T.specs) (hc : ∀ m ∈ T.specs, CmpOk m v) :
    ∃ b, T.contains it v p false = .ok b ∧
      (b = true ↔ ∀ m ∈ T.specs, m.1.contains m.2 v (some true) = .ok true) := by
  have heff : effective T p = some true := by
    rcases hen with rfl | ⟨rfl, hT⟩
    · rfl
    · simp [effective, hT]
  refine ⟨_, contains_eq_admits p hp hc, ?_⟩
  simp only [admits, heff, truthy, Option.getD_some, Bool.not_true, Bool.false_and, Bool.false_eq_true,
    ↓reduceIte, List.all_eq_true]
  constructor
  · intro h m hm; rw [member_contains_true (hc m hm), h m hm]
  · intro h m hm
    have := h m hm
    rw [member_contains_true (hc m hm)] at this
    injection this

/-- the answer does not depend on the iteration order -/
theorem contains_perm_invariant (T : SpecSet) (it it' : List Member) (v : Ver) (p : Option Bool)
    (hp : it.Perm T.specs) (hp' : it'.Perm T.specs) (hc : ∀ m ∈ T.specs, CmpOk m v) :
    T.contains it v p false = T.contains it' v p false := by
  rw [contains_eq_admits p hp hc, contains_eq_admits p hp' hc]

/-- **the empty set matches everything** (pre-releases enabled; any override) -/
theorem empty_matches_all (pre : Option Bool) (v : Ver) :
    (⟨[], pre⟩ : SpecSet).contains [] v (some true) false = .ok true := rfl

/-- a string holding only commas and white space is the empty set -/
theorem ofString_empty (s : Str) (p : Option Bool) (h : clauses s = []) : SSet.ofString s p = .ok ⟨[], p⟩ := by
  simp [SSet.ofString, h, parseAll, ofSpecs, fromList]

example : clauses (Py.ofString " , ,\t,") = [] := by decide

/-! ## 2. order / spacing / duplication of the clauses -/

/-- "equal specifiers match alike", for the members at hand -/
def MatchAlike (A B : List Member) : Prop :=
  ∀ a ∈ A, ∀ b ∈ B, key a.1 = key b.1 → ∀ v, a.1.compare v = b.1.compare v

theorem all_mcmp_congr {A B : List Member} {v : Ver}
    (h1 : ∀ a ∈ A, ∃ b ∈ B, mcmp a v = mcmp b v) (h2 : ∀ b ∈ B, ∃ a ∈ A, mcmp b v = mcmp a v) :
    (A.all fun m => mcmp m v) = B.all fun m => mcmp m v := by
  rw [Bool.eq_iff_iff]
  simp only [List.all_eq_true]
  constructor
  · intro h b hb
    obtain ⟨a, ha, e⟩ := h2 b hb
    rw [e]; exact h a ha
  · intro h a ha
    obtain ⟨b, hb, e⟩ := h1 a ha
    rw [e]; exact h b hb

theorem mcmp_of_alike {a b : Member} {v : Ver} (h : a.1.compare v = b.1.compare v) : mcmp a v = mcmp b v := by
  simp [mcmp, h]

/-- "equal specifiers match alike" holds for all members: `SSet.equal_specs_match_alike` -/
theorem matchAlike_all (A B : List Member) : MatchAlike A B :=
  fun a _ b _ hk v => equal_specs_match_alike a.1 b.1 hk v

/-- every inserted element has a key-equal representative in the frozenset, which is itself one of the inserted -/
theorem rep_in_fromList {l : List Member} {m : Member} (hm : m ∈ l) :
    ∃ m' ∈ fromList l, m' ∈ l ∧ key m'.1 = key m.1 := by
  have : key m.1 ∈ keys (fromList l) := (mem_keys_fromList l _).mpr (List.mem_map.mpr ⟨m, hm, rfl⟩)
  obtain ⟨m', hm', hk⟩ := rep_of_mem_keys this
  refine ⟨m', hm', ?_, hk⟩
  rcases mem_foldl (l := []) hm' with h | h
  · cases h
  · exact h

theorem fromList_sub {l : List Member} {m : Member} (h : m ∈ fromList l) : m ∈ l := by
  rcases mem_foldl (l := []) h with h | h
  · cases h
  · exact h

/-- **Sets built from clause lists with the same members up to `Specifier` equality — in any order, spacing
(absorbed by parsing) and duplication — match the same candidates**, for all iteration orders and overrides. -/
theorem clause_order_dup_invariant (l₁ l₂ : List Member) (p₁ p₂ : Option Bool)
    (hk : ∀ k, k ∈ keys l₁ ↔ k ∈ keys l₂)
    (it₁ it₂ : List Member) (h₁ : it₁.Perm (fromList l₁)) (h₂ : it₂.Perm (fromList l₂))
    (v : Ver) (hc₁ : ∀ m ∈ l₁, CmpOk m v) :
    (⟨fromList l₁, p₁⟩ : SpecSet).contains it₁ v (some true) false =
    (⟨fromList l₂, p₂⟩ : SpecSet).contains it₂ v (some true) false := by
  have hal : MatchAlike l₁ l₂ := matchAlike_all _ _
  have hc₂ : ∀ m ∈ l₂, CmpOk m v := by
    intro m hm
    have : key m.1 ∈ keys l₁ := (hk _).mpr (List.mem_map.mpr ⟨m, hm, rfl⟩)
    obtain ⟨a, ha, hka⟩ := rep_of_mem_keys this
    obtain ⟨b, hb⟩ := hc₁ a ha
    exact ⟨b, by rw [← hal a ha m hm hka v]; exact hb⟩
  rw [contains_eq_admits (S := ⟨fromList l₁, p₁⟩) (some true) h₁
        (fun m hm => hc₁ m (fromList_sub hm)),
      contains_eq_admits (S := ⟨fromList l₂, p₂⟩) (some true) h₂
        (fun m hm => hc₂ m (fromList_sub hm))]
  simp only [admits, effective, truthy, Option.getD_some, Bool.not_true, Bool.false_and, Bool.false_eq_true,
    ↓reduceIte]
  congr 1
  apply all_mcmp_congr
  · intro a ha
    have ha' := fromList_sub ha
    have : key a.1 ∈ keys l₂ := (hk _).mp (List.mem_map.mpr ⟨a, ha', rfl⟩)
    obtain ⟨b0, hb0, hkb⟩ := rep_of_mem_keys this
    obtain ⟨b, hb, hbl, hkb'⟩ := rep_in_fromList hb0
    exact ⟨b, hb, mcmp_of_alike (hal a ha' b hbl (by rw [hkb', hkb]) v)⟩
  · intro b hb
    have hb' := fromList_sub hb
    have : key b.1 ∈ keys l₁ := (hk _).mpr (List.mem_map.mpr ⟨b, hb', rfl⟩)
    obtain ⟨a0, ha0, hka⟩ := rep_of_mem_keys this
    obtain ⟨a, ha, hal', hka'⟩ := rep_in_fromList ha0
    exact ⟨a, ha, (mcmp_of_alike (hal a hal' b hb' (by rw [hka', hka]) v)).symm⟩

/-! ## 3. `&` -/

theorem union_sub {a b : List Member} {m : Member} (h : m ∈ union a b) : m ∈ a ∨ m ∈ b := mem_foldl h

theorem rep_in_union {a b : List Member} {m : Member} (hm : m ∈ a ∨ m ∈ b) :
    ∃ m' ∈ union a b, key m'.1 = key m.1 := by
  have : key m.1 ∈ keys (union a b) := by
    rw [mem_keys_union]
    rcases hm with h | h
    · exact Or.inl (List.mem_map.mpr ⟨m, h, rfl⟩)
    · exact Or.inr (List.mem_map.mpr ⟨m, h, rfl⟩)
  exact rep_of_mem_keys this

/-- **`a & b` matches exactly the candidates matched by both** (pre-releases enabled), for all iteration
orders of the three sets -/
theorem and_is_inter (a b r : SpecSet) (h : a.and b = .ok r)
    (ita itb itr : List Member) (ha : ita.Perm a.specs) (hb : itb.Perm b.specs) (hr : itr.Perm r.specs)
    (v : Ver) (hca : ∀ m ∈ a.specs, CmpOk m v) (hcb : ∀ m ∈ b.specs, CmpOk m v) :
    ∃ x y, a.contains ita v (some true) false = .ok x ∧ b.contains itb v (some true) false = .ok y ∧
      r.contains itr v (some true) false = .ok (x && y) := by
  have hal : MatchAlike (a.specs ++ b.specs) (a.specs ++ b.specs) := matchAlike_all _ _
  have hspecs := (and_ok h).1
  have hcr : ∀ m ∈ r.specs, CmpOk m v := by
    intro m hm; rw [hspecs] at hm
    rcases union_sub hm with h' | h'
    · exact hca m h'
    · exact hcb m h'
  refine ⟨_, _, contains_eq_admits (some true) ha hca,
    contains_eq_admits (some true) hb hcb, ?_⟩
  rw [contains_eq_admits (some true) hr hcr]
  simp only [admits, effective, truthy, Option.getD_some, Bool.not_true, Bool.false_and, Bool.false_eq_true,
    ↓reduceIte]
  congr 1
  rw [← List.all_append, hspecs]
  apply all_mcmp_congr
  · intro m hm
    refine ⟨m, ?_, rfl⟩
    rcases union_sub hm with h' | h' <;> simp [h']
  · intro m hm
    have hm' : m ∈ a.specs ∨ m ∈ b.specs := by simpa using hm
    obtain ⟨m', hm'u, hk⟩ := rep_in_union hm'
    refine ⟨m', hm'u, mcmp_of_alike ?_⟩
    have : m' ∈ a.specs ++ b.specs := by
      rcases union_sub hm'u with h' | h' <;> simp [h']
    exact hal m hm m' this hk.symm v

/-- the override of `a & b`: an explicit override is carried over, contradictory ones are refused -/
theorem and_override_table (a b : SpecSet) :
    a.and b = match a.pre, b.pre with
      | none, none => .ok ⟨union a.specs b.specs, none⟩
      | none, some y => .ok ⟨union a.specs b.specs, some y⟩
      | some x, none => .ok ⟨union a.specs b.specs, some x⟩
      | some x, some y => if x = y then .ok ⟨union a.specs b.specs, some x⟩ else .error "ValueError" := by
  unfold SpecSet.and
  cases a.pre with
  | none => cases b.pre <;> rfl
  | some x => cases b.pre with
    | none => rfl
    | some y => cases x <;> cases y <;> rfl

/-- the `ValueError` is raised exactly for `True` with `False` -/
theorem and_error_iff (a b : SpecSet) :
    (∃ e, a.and b = .error e) ↔ ∃ x y, a.pre = some x ∧ b.pre = some y ∧ x ≠ y := by
  rw [and_override_table]
  cases a.pre with
  | none => cases b.pre <;> simp
  | some x => cases b.pre with
    | none => simp
    | some y => cases x <;> cases y <;> simp

theorem combinePre_comm (x y : Option Bool) : combinePre x y = combinePre y x := by
  cases x with
  | none => cases y with
    | none => rfl
    | some y => rfl
  | some x => cases y with
    | none => rfl
    | some y => cases x <;> cases y <;> rfl

/-- `==` on frozensets of pairwise non-equal members is equality of the key sets -/
theorem eq_iff {a b : SpecSet} (ha : WF a) (hb : WF b) :
    a.eq b = true ↔ ∀ k, k ∈ keys a.specs ↔ k ∈ keys b.specs := by
  simp only [SpecSet.eq, Bool.and_eq_true, beq_iff_eq, List.all_eq_true, hasKey_iff]
  constructor
  · rintro ⟨hlen, hsub⟩
    have hsub' : keys a.specs ⊆ keys b.specs := by
      intro k hk
      obtain ⟨m, hm, rfl⟩ := rep_of_mem_keys hk
      exact hsub m hm
    have hlen' : (keys b.specs).length ≤ (keys a.specs).length := by simp [keys, hlen]
    intro k
    exact ⟨fun hk => hsub' hk, fun hk => subset_of_length_le _ _ ha hb hsub' hlen' hk⟩
  · intro h
    have hperm : (keys a.specs).Perm (keys b.specs) := (List.perm_ext_iff_of_nodup ha hb).mpr h
    refine ⟨by simpa [keys] using hperm.length_eq, ?_⟩
    intro m hm
    exact (h _).mp (List.mem_map.mpr ⟨m, hm, rfl⟩)

/-- `hash` is a symmetric function of the member keys, so equal sets hash alike -/
theorem eq_hash {a b : SpecSet} (ha : WF a) (hb : WF b) (h : a.eq b = true) : a.hashKey.Perm b.hashKey :=
  (List.perm_ext_iff_of_nodup ha hb).mpr ((eq_iff ha hb).mp h)

theorem eq_refl {a : SpecSet} (ha : WF a) : a.eq a = true := (eq_iff ha ha).mpr (fun _ => Iff.rfl)
theorem eq_symm {a b : SpecSet} (ha : WF a) (hb : WF b) (h : a.eq b = true) : b.eq a = true :=
  (eq_iff hb ha).mpr (fun k => ((eq_iff ha hb).mp h k).symm)
theorem eq_trans {a b c : SpecSet} (ha : WF a) (hb : WF b) (hc : WF c) (h1 : a.eq b = true) (h2 : b.eq c = true) :
    a.eq c = true :=
  (eq_iff ha hc).mpr (fun k => ((eq_iff ha hb).mp h1 k).trans ((eq_iff hb hc).mp h2 k))

/-- **`&` is commutative** up to `==` (same members as a set, same hash key, same override); either both
sides raise or neither does -/
theorem and_comm (a b : SpecSet) (ha : WF a) (hb : WF b) :
    (∀ r, a.and b = .ok r → ∃ r', b.and a = .ok r' ∧ r.eq r' = true ∧ r.pre = r'.pre ∧ r.len = r'.len ∧
        r.hashKey.Perm r'.hashKey) ∧
    (∀ e, a.and b = .error e → b.and a = .error e) := by
  constructor
  · intro r h
    obtain ⟨hs, hp⟩ := and_ok h
    rw [combinePre_comm] at hp
    refine ⟨⟨union b.specs a.specs, r.pre⟩, by simp [SpecSet.and, hp], ?_⟩
    have hwr : WF r := and_wf ha h
    have hwr' : WF (⟨union b.specs a.specs, r.pre⟩ : SpecSet) := nodup_union _ hb
    have heq : r.eq ⟨union b.specs a.specs, r.pre⟩ = true := by
      rw [eq_iff hwr hwr']
      intro k; simp only [hs, mem_keys_union]; exact Or.comm
    refine ⟨heq, rfl, ?_, eq_hash hwr hwr' heq⟩
    have := (eq_hash hwr hwr' heq).length_eq
    simpa [SpecSet.hashKey, SpecSet.len] using this
  · intro e h
    unfold SpecSet.and at h ⊢
    rw [combinePre_comm b.pre a.pre]
    cases hc : combinePre a.pre b.pre with
    | some q => rw [hc] at h; cases h
    | none => rw [hc] at h; exact h

/-- commutativity, extensionally: `a & b` and `b & a` match the same candidates (pre-releases enabled) -/
theorem and_comm_ext (a b r r' : SpecSet) (h : a.and b = .ok r) (h' : b.and a = .ok r')
    (it it' : List Member) (hr : it.Perm r.specs) (hr' : it'.Perm r'.specs)
    (v : Ver) (hca : ∀ m ∈ a.specs, CmpOk m v) (hcb : ∀ m ∈ b.specs, CmpOk m v) :
    r.contains it v (some true) false = r'.contains it' v (some true) false := by
  obtain ⟨x, y, hx, hy, hxy⟩ := and_is_inter a b r h a.specs b.specs it (List.Perm.refl _) (List.Perm.refl _) hr v hca hcb
  obtain ⟨y', x', hy', hx', hyx⟩ := and_is_inter b a r' h' b.specs a.specs it' (List.Perm.refl _) (List.Perm.refl _) hr' v hcb hca
  rw [hx] at hx'; rw [hy] at hy'
  injection hx' with hx'; injection hy' with hy'
  rw [hxy, hyx, ← hx', ← hy', Bool.and_comm]

theorem combinePre_assoc (x y z : Option Bool) :
    (combinePre x y).bind (fun xy => combinePre xy z) = (combinePre y z).bind (fun yz => combinePre x yz) := by
  cases x with
  | none => cases y with
    | none => cases z <;> rfl
    | some y => cases z with
      | none => rfl
      | some z => cases y <;> cases z <;> rfl
  | some x => cases y with
    | none => cases z with
      | none => rfl
      | some z => cases x <;> cases z <;> rfl
    | some y => cases z with
      | none => cases x <;> cases y <;> rfl
      | some z => cases x <;> cases y <;> cases z <;> rfl

/-- **`&` is associative**, exactly: both groupings give the *same* model value (same kept representatives,
same override) or both raise -/
theorem and_assoc (a b c : SpecSet) :
    (a.and b >>= fun ab => ab.and c) = (b.and c >>= fun bc => a.and bc) := by
  have hu : union (union a.specs b.specs) c.specs = union a.specs (union b.specs c.specs) := by
    simp only [union]; exact (foldl_insert_foldl a.specs b.specs c.specs).symm
  have hp := combinePre_assoc a.pre b.pre c.pre
  unfold SpecSet.and
  cases hab : combinePre a.pre b.pre with
  | none =>
    simp only [hab, Option.bind_none] at hp
    cases hbc : combinePre b.pre c.pre with
    | none => rfl
    | some q =>
      simp only [hbc, Option.bind_some] at hp
      simp [← hp]
  | some q =>
    simp only [hab, Option.bind_some] at hp
    cases hbc : combinePre b.pre c.pre with
    | none =>
      simp only [hbc, Option.bind_none] at hp
      simp [hp]
    | some q' =>
      simp only [hbc, Option.bind_some] at hp
      simp only [ok_bind, hp, hu]

/-- **`a & b` equals the set parsed from the concatenated clauses**, exactly (same kept representatives) -/
theorem and_eq_parse_concat (sa sb : Str) (pa pb q : Option Bool) (A B : SpecSet)
    (ha : SSet.ofString sa pa = .ok A) (hb : SSet.ofString sb pb = .ok B) (hq : combinePre pa pb = some q) :
    SSet.ofString (sa ++ 44 :: sb) q = A.and B := by
  obtain ⟨xs, hxs, hA, hcA⟩ := ofString_ok ha
  obtain ⟨ys, hys, hB, hcB⟩ := ofString_ok hb
  have hall : ((xs ++ ys).map fun sp => ((sp, none) : Member)).all (fun m => m.1.canonical.isOk) = true := by
    simp only [List.all_eq_true, List.mem_map, List.mem_append]
    rintro m ⟨sp, hsp | hsp, rfl⟩
    · exact hcA sp hsp
    · exact hcB sp hsp
  simp only [SSet.ofString, clauses_append, parseAll_append, hxs, hys, ofSpecs, hall, ↓reduceIte]
  subst hA; subst hB
  simp only [SpecSet.and, hq, List.map_append, union_fromList]

/-! ## 4. `str` -/

/-- **`str` does not depend on the iteration order of the frozenset** -/
theorem str_perm_invariant (T : SpecSet) (it it' : List Member) (h : it.Perm it') : T.str it = T.str it' := by
  simp only [SpecSet.str]
  rw [sortStr_perm_invariant (h.map fun m => m.1.str)]

/-- the member's own string is a single clean clause that parses back to the member: the model's decidable
`SSet.roundtrips`, which the driver evaluates on every constructed set (`rt=` in `set.parse`) -/
def Roundtrips (sp : Spec) : Prop := roundtrips sp = true

instance (sp : Spec) : Decidable (Roundtrips sp) := by unfold Roundtrips; infer_instance

theorem Roundtrips.unpack {sp : Spec} (h : Roundtrips sp) :
    44 ∉ sp.str ∧ strip sp.str = sp.str ∧ parseSpec sp.str = some sp := by
  simp only [Roundtrips, roundtrips, Bool.and_eq_true, Bool.not_eq_eq_eq_not, Bool.not_true,
    List.contains_eq_mem, decide_eq_false_iff_not, beq_iff_eq] at h
  exact ⟨h.1.1, h.1.2, h.2⟩

theorem Op.str_ne_nil (o : S.Op) : o.str ≠ [] := by cases o <;> decide

theorem parseAll_map_str (l : List Spec) (h : ∀ sp ∈ l, parseSpec sp.str = some sp) :
    parseAll (l.map Spec.str) = some l := by
  induction l with
  | nil => rfl
  | cons sp r ih =>
    simp [parseAll, h sp (by simp), ih (fun x hx => h x (by simp [hx]))]

/-- `sorted(str(s) for s in it)` is `map str` of the members sorted by their strings -/
theorem sort_map_str (it : List Member) :
    ∃ srt : List Member, srt.Perm it ∧ sortBy strLe (it.map fun m => m.1.str) = srt.map fun m => m.1.str := by
  induction it with
  | nil => exact ⟨[], List.Perm.refl _, rfl⟩
  | cons m r ih =>
    obtain ⟨srt, hp, hs⟩ := ih
    have e : sortBy strLe ((m :: r).map fun m => m.1.str) =
        insertSorted strLe m.1.str (sortBy strLe (r.map fun m => m.1.str)) := rfl
    rw [e, hs]
    -- inserting into a mapped list = mapping an insertion
    have : ∀ l : List Member, ∃ l' : List Member, l'.Perm (m :: l) ∧
        insertSorted strLe m.1.str (l.map fun m => m.1.str) = l'.map fun m => m.1.str := by
      intro l
      induction l with
      | nil => exact ⟨[m], List.Perm.refl _, rfl⟩
      | cons y ys ihy =>
        obtain ⟨l', hl', he⟩ := ihy
        simp only [List.map_cons, insertSorted]
        split
        · exact ⟨m :: y :: ys, List.Perm.refl _, rfl⟩
        · exact ⟨y :: l', (List.Perm.cons y hl').trans (List.Perm.swap m y ys), by simp [he]⟩
    obtain ⟨l', hl', he⟩ := this srt
    exact ⟨l', hl'.trans (List.Perm.cons m hp), he⟩

/-- **`str()` parses back to an equal set** (and is a fixed point: the re-parsed set prints the same string),
for every iteration order, provided every member's own string is a clean single clause that parses back to it
(`Roundtrips`; it fails exactly for `===` members whose text contains a comma — see
`str_does_not_parse_back_with_comma`). -/
theorem str_parses_back (T : SpecSet) (hwf : WF T) (it : List Member) (hp : it.Perm T.specs)
    (hrt : ∀ m ∈ T.specs, Roundtrips m.1) :
    ∃ T', SSet.ofString (T.str it) none = .ok T' ∧ T'.eq T = true ∧ T'.len = T.len ∧
      ∀ it', it'.Perm T'.specs → T'.str it' = T.str it := by
  have hcan : ∀ m ∈ T.specs, m.1.canonical.isOk = true := fun m _ => canonical_isOk m.1
  obtain ⟨srt, hsp, hsort⟩ := sort_map_str it
  have hsrtT : srt.Perm T.specs := hsp.trans hp
  have hmem : ∀ m ∈ srt, m ∈ T.specs := fun m hm => hsrtT.mem_iff.mp hm
  -- the clause list of the printed string is the sorted member strings
  have hcl : clauses (T.str it) = srt.map fun m => m.1.str := by
    simp only [SpecSet.str, hsort, clauses]
    by_cases hnil : srt = []
    · subst hnil; decide
    · rw [splitOn_join 44 _ (by simpa using hnil)]
      · rw [List.map_map]
        have h1 : ∀ m ∈ srt, (strip ∘ fun m : Member => m.1.str) m = m.1.str := fun m hm => (hrt m (hmem m hm)).unpack.2.1
        rw [List.map_congr_left h1]
        apply List.filter_eq_self.mpr
        intro s hs
        obtain ⟨m, _, rfl⟩ := List.mem_map.mp hs
        have : m.1.str ≠ [] := by
          simp only [Spec.str, ne_eq, List.append_eq_nil_iff, not_and]
          intro h; exact absurd h (Op.str_ne_nil _)
        simpa using this
      · intro s hs
        obtain ⟨m, hm, rfl⟩ := List.mem_map.mp hs
        exact (hrt m (hmem m hm)).unpack.1
  have hparse : parseAll (clauses (T.str it)) = some (srt.map (·.1)) := by
    rw [hcl]
    have := parseAll_map_str (srt.map (·.1)) (by
      intro sp hsp'
      obtain ⟨m, hm, rfl⟩ := List.mem_map.mp hsp'
      exact (hrt m (hmem m hm)).unpack.2.2)
    rw [List.map_map] at this
    exact this
  obtain ⟨ms, hms⟩ : ∃ ms : List Member, ms = (srt.map (·.1)).map fun sp => (sp, none) := ⟨_, rfl⟩
  have hall : ms.all (fun m => m.1.canonical.isOk) = true := by
    simp only [hms, List.all_eq_true, List.mem_map]
    rintro m ⟨sp, ⟨m0, hm0, rfl⟩, rfl⟩
    exact hcan m0 (hmem m0 hm0)
  have hkeys : keys ms = keys srt := by simp [hms, keys, List.map_map]
  refine ⟨⟨fromList ms, none⟩, by simp only [SSet.ofString, hparse, ofSpecs, ← hms, hall, ↓reduceIte], ?_⟩
  have hwf' : WF (⟨fromList ms, none⟩ : SpecSet) := nodup_fromList ms
  have heq : (⟨fromList ms, none⟩ : SpecSet).eq T = true := by
    rw [eq_iff hwf' hwf]
    intro k
    simp only [mem_keys_fromList, hkeys]
    exact (hsrtT.map fun m => key m.1).mem_iff
  -- keys of `ms` are already distinct, so nothing is dropped and the strings are the same multiset
  have hnd : (keys ms).Nodup := by
    rw [hkeys]; unfold WF keys at hwf; unfold keys; exact (hsrtT.map fun m => key m.1).nodup_iff.mpr hwf
  have hfl : ∀ (l acc : List Member), (keys (acc ++ l)).Nodup → l.foldl SSet.insert acc = acc ++ l := by
    intro l
    induction l with
    | nil => intro acc _; simp
    | cons x xs ih =>
      intro acc hn
      have hx : key x.1 ∉ keys acc := by
        simp only [keys_append, keys_cons] at hn
        have := (List.nodup_append.mp hn).2.2
        intro hmem'; exact this _ hmem' _ (by simp) rfl
      rw [List.foldl_cons, insert_of_not_mem hx, ih (acc ++ [x]) (by simpa using hn)]
      simp
  have hfrom : fromList ms = ms := by simpa [fromList] using hfl ms [] (by simpa using hnd)
  refine ⟨heq, ?_, ?_⟩
  · show (fromList ms).length = T.specs.length
    rw [hfrom, hms]; simp [hsrtT.length_eq]
  · intro it' hit'
    simp only [SpecSet.str]
    congr 1
    apply sortStr_perm_invariant
    have h1 : (it'.map fun m => m.1.str).Perm (ms.map fun m => m.1.str) := by
      rw [hfrom] at hit'; exact hit'.map _
    have h2 : (ms.map fun m : Member => m.1.str) = srt.map fun m => m.1.str := by simp [hms, List.map_map]
    rw [h2] at h1
    exact h1.trans ((hsp.map _))

/-! ## 5. equal sets match alike; everything from strings, no hypothesis left

`CmpOk` is discharged by C03 (`SSet.cmpOk_of_readable`): a member that `Specifier.__init__` can produce,
compared with a candidate that `Version()` can produce, never raises. -/

theorem fromList_of_nodup (l : List Member) (h : (keys l).Nodup) : fromList l = l := by
  have hfl : ∀ (l acc : List Member), (keys (acc ++ l)).Nodup → l.foldl SSet.insert acc = acc ++ l := by
    intro l
    induction l with
    | nil => intro acc _; simp
    | cons x xs ih =>
      intro acc hn
      have hx : key x.1 ∉ keys acc := by
        simp only [keys_append, keys_cons] at hn
        have := (List.nodup_append.mp hn).2.2
        intro hmem'; exact this _ hmem' _ (by simp) rfl
      rw [List.foldl_cons, insert_of_not_mem hx, ih (acc ++ [x]) (by simpa using hn)]
      simp
  simpa [fromList] using hfl l [] (by simpa using h)

/-- **sets that are `==` match the same candidates** (pre-releases enabled), whatever their overrides,
iteration orders and the spelling of their members -/
theorem eq_sets_match_alike (T₁ T₂ : SpecSet) (h₁ : WF T₁) (h₂ : WF T₂) (heq : T₁.eq T₂ = true)
    (it₁ it₂ : List Member) (hp₁ : it₁.Perm T₁.specs) (hp₂ : it₂.Perm T₂.specs)
    (v : Ver) (hc : ∀ m ∈ T₁.specs, CmpOk m v) :
    T₁.contains it₁ v (some true) false = T₂.contains it₂ v (some true) false := by
  have hk := (eq_iff h₁ h₂).mp heq
  have := clause_order_dup_invariant T₁.specs T₂.specs T₁.pre T₂.pre hk it₁ it₂
    (by rw [fromList_of_nodup _ h₁]; exact hp₁) (by rw [fromList_of_nodup _ h₂]; exact hp₂) v hc
  rw [fromList_of_nodup _ h₁, fromList_of_nodup _ h₂] at this
  exact this

/-- conjunction, from strings: for every set parsed from a string and every candidate `Version()` accepts -/
theorem contains_is_all_of_strings (s : Str) (pre : Option Bool) (T : SpecSet) (hT : SSet.ofString s pre = .ok T)
    (cs : Str) (c : Ver) (hc : scan cs = some c) (it : List Member) (hp : it.Perm T.specs) (p : Option Bool)
    (hen : p = some true ∨ (p = none ∧ T.pre = some true)) :
    ∃ b, T.contains it c p false = .ok b ∧
      (b = true ↔ ∀ m ∈ T.specs, m.1.contains m.2 c (some true) = .ok true) :=
  contains_is_all T it c p hen hp
    (fun m hm => cmpOk_of_readable (ofString_readable hT m hm) (C02.scan_wf cs c hc))

/-- order / spacing / duplication, from strings: two strings whose clauses are the same up to `Specifier`
equality give sets that are `==` and match the same candidates -/
theorem clause_order_dup_invariant_of_strings (s₁ s₂ : Str) (p₁ p₂ : Option Bool) (T₁ T₂ : SpecSet)
    (h₁ : SSet.ofString s₁ p₁ = .ok T₁) (h₂ : SSet.ofString s₂ p₂ = .ok T₂)
    (sps₁ sps₂ : List Spec) (hs₁ : parseAll (clauses s₁) = some sps₁) (hs₂ : parseAll (clauses s₂) = some sps₂)
    (hk : ∀ k, k ∈ sps₁.map key ↔ k ∈ sps₂.map key)
    (it₁ it₂ : List Member) (hp₁ : it₁.Perm T₁.specs) (hp₂ : it₂.Perm T₂.specs)
    (cs : Str) (c : Ver) (hc : scan cs = some c) :
    T₁.eq T₂ = true ∧ T₁.contains it₁ c (some true) false = T₂.contains it₂ c (some true) false := by
  have hw₁ := ofString_wf h₁
  have hw₂ := ofString_wf h₂
  have heq : T₁.eq T₂ = true := by
    rw [eq_iff hw₁ hw₂]
    obtain ⟨x₁, hx₁, hT₁, _⟩ := ofString_ok h₁
    obtain ⟨x₂, hx₂, hT₂, _⟩ := ofString_ok h₂
    rw [hs₁] at hx₁; rw [hs₂] at hx₂
    injection hx₁ with hx₁; injection hx₂ with hx₂
    subst hx₁ hx₂ hT₁ hT₂
    intro k
    rw [mem_keys_fromList, mem_keys_fromList]
    have e : ∀ l : List Spec, keys (l.map fun sp => ((sp, none) : Member)) = l.map key := by
      intro l; simp [keys, List.map_map, Function.comp_def]
    rw [e, e]
    exact hk k
  exact ⟨heq, eq_sets_match_alike T₁ T₂ hw₁ hw₂ heq it₁ it₂ hp₁ hp₂ c
    (fun m hm => cmpOk_of_readable (ofString_readable h₁ m hm) (C02.scan_wf cs c hc))⟩

/-- intersection, from strings -/
theorem and_is_inter_of_strings (sa sb : Str) (pa pb : Option Bool) (A B R : SpecSet)
    (hA : SSet.ofString sa pa = .ok A) (hB : SSet.ofString sb pb = .ok B) (h : A.and B = .ok R)
    (ita itb itr : List Member) (ha : ita.Perm A.specs) (hb : itb.Perm B.specs) (hr : itr.Perm R.specs)
    (cs : Str) (c : Ver) (hc : scan cs = some c) :
    ∃ x y, A.contains ita c (some true) false = .ok x ∧ B.contains itb c (some true) false = .ok y ∧
      R.contains itr c (some true) false = .ok (x && y) :=
  and_is_inter A B R h ita itb itr ha hb hr c
    (fun m hm => cmpOk_of_readable (ofString_readable hA m hm) (C02.scan_wf cs c hc))
    (fun m hm => cmpOk_of_readable (ofString_readable hB m hm) (C02.scan_wf cs c hc))

/-! ### `str` round trip, from strings

`SSet.parse_roundtrips`: everything `Specifier.__init__` accepts prints to a clean clause that parses back to
it, unless it is an `===` clause whose text contains a comma.  A clause taken from a `SpecifierSet` string cannot
contain a comma, so for string-built sets the round trip holds without any hypothesis. -/

theorem splitOn_pieces_no_sep (sep : Nat) (s : Str) : ∀ piece ∈ splitOn sep s, sep ∉ piece := by
  induction s with
  | nil => intro piece hp; simp [splitOn] at hp; subst hp; simp
  | cons c cs ih =>
    intro piece hp
    simp only [splitOn] at hp
    by_cases hc : (c == sep) = true
    · simp only [hc, ↓reduceIte, List.mem_cons] at hp
      rcases hp with rfl | hp
      · simp
      · exact ih piece hp
    · simp only [hc, Bool.false_eq_true, ↓reduceIte] at hp
      cases hsp : splitOn sep cs with
      | nil => exact absurd hsp (splitOn_ne_nil sep cs)
      | cons q qs =>
        rw [hsp] at hp ih
        simp only [List.mem_cons] at hp
        rcases hp with rfl | hp
        · intro hm
          rcases List.mem_cons.mp hm with e | hm
          · exact hc (by simp [e])
          · exact ih q (by simp) hm
        · exact ih piece (by simp [hp])

theorem clauses_no_comma (s : Str) : ∀ c ∈ clauses s, 44 ∉ c := by
  intro c hc
  simp only [clauses, List.mem_filter, List.mem_map] at hc
  obtain ⟨⟨piece, hp, rfl⟩, _⟩ := hc
  intro hm
  exact splitOn_pieces_no_sep 44 s piece hp (stripBy_subset isSpacePy piece 44 hm)

theorem takeOp_subset {t r : Str} {op : S.Op} (h : takeOp t = some (op, r)) : ∀ x ∈ r, x ∈ t := by
  unfold takeOp at h
  split at h <;> simp only [Option.some.injEq, Prod.mk.injEq, reduceCtorEq] at h <;>
    (try (obtain ⟨_, rfl⟩ := h; intro x hx; simp [hx]))

/-- the text of a parsed `===` clause consists of characters of the clause -/
theorem parse_arbitrary_subset {c : Str} {sp : Spec} (h : parseSpec c = some sp) (harb : sp.op = .arbitrary) :
    ∀ x ∈ sp.ver, x ∈ c := by
  unfold parseSpec at h
  split at h
  · cases h
  · rename_i op r hto
    simp only at h
    by_cases ho : op = .arbitrary
    · subst ho
      simp only [beq_self_eq_true, ↓reduceIte] at h
      split at h
      · injection h with h; subst h
        intro x hx
        have h1 := stripBy_subset isSpacePy _ x hx
        have h2 := stripBy_subset isWs _ x h1
        have h3 := takeOp_subset hto x h2
        exact (List.dropWhile_suffix isWs).subset h3
      · cases h
    · have hne : (op == Op.arbitrary) = false := by simp [ho]
      simp only [hne, Bool.false_eq_true, ↓reduceIte] at h
      split at h
      · split at h
        · injection h with h; subst h; exact absurd harb ho
        · cases h
      · cases h

/-- every member of a set parsed from a string prints to a clause that parses back to it -/
theorem ofString_roundtrips {s : Str} {p : Option Bool} {T : SpecSet} (h : SSet.ofString s p = .ok T) :
    ∀ m ∈ T.specs, Roundtrips m.1 := by
  obtain ⟨sps, hs, hT, _⟩ := ofString_ok h
  subst hT
  intro m hm
  have hm' := fromList_sub hm
  obtain ⟨sp, hsp, rfl⟩ := List.mem_map.mp hm'
  obtain ⟨c, hc, hp⟩ := parseAll_mem hs sp hsp
  exact parse_roundtrips c sp hp (fun harb hmem => clauses_no_comma s c hc (parse_arbitrary_subset hp harb 44 hmem))

/-- **`str()` of a set parsed from a string parses back to an equal set and is a fixed point** — for every
iteration order, no hypothesis -/
theorem str_parses_back_of_strings (s : Str) (p : Option Bool) (T : SpecSet) (hT : SSet.ofString s p = .ok T)
    (it : List Member) (hp : it.Perm T.specs) :
    ∃ T', SSet.ofString (T.str it) none = .ok T' ∧ T'.eq T = true ∧ T'.len = T.len ∧
      ∀ it', it'.Perm T'.specs → T'.str it' = T.str it :=
  str_parses_back T (ofString_wf hT) it hp (ofString_roundtrips hT)

/-- the same for `a & b` of two such sets -/
theorem str_parses_back_and_of_strings (sa sb : Str) (pa pb : Option Bool) (A B R : SpecSet)
    (hA : SSet.ofString sa pa = .ok A) (hB : SSet.ofString sb pb = .ok B) (h : A.and B = .ok R)
    (it : List Member) (hp : it.Perm R.specs) :
    ∃ T', SSet.ofString (R.str it) none = .ok T' ∧ T'.eq R = true ∧ T'.len = R.len ∧
      ∀ it', it'.Perm T'.specs → T'.str it' = R.str it := by
  refine str_parses_back R (and_wf (ofString_wf hA) h) it hp ?_
  intro m hm
  rw [(and_ok h).1] at hm
  rcases union_sub hm with h' | h'
  · exact ofString_roundtrips hA m h'
  · exact ofString_roundtrips hB m h'

/-- a set built from `Specifier` objects: the round trip holds iff no `===` member contains a comma
(the hypothesis named in the property's design; `str_does_not_parse_back_with_comma` is the witness) -/
theorem str_parses_back_of_parsed (T : SpecSet) (hwf : WF T) (it : List Member) (hp : it.Perm T.specs)
    (hparsed : ∀ m ∈ T.specs, ∃ c, parseSpec c = some m.1)
    (hcomma : ∀ m ∈ T.specs, m.1.op = .arbitrary → 44 ∉ m.1.ver) :
    ∃ T', SSet.ofString (T.str it) none = .ok T' ∧ T'.eq T = true ∧ T'.len = T.len ∧
      ∀ it', it'.Perm T'.specs → T'.str it' = T.str it :=
  str_parses_back T hwf it hp (fun m hm => by
    obtain ⟨c, hc⟩ := hparsed m hm
    exact parse_roundtrips c m.1 hc (hcomma m hm))

/-! ## non-vacuity and the recorded corner -/

private def sp (s : String) : Spec := (parseSpec (Py.ofString s)).getD ⟨.eq, []⟩
private def ver (s : String) : Ver := (scan (Py.ofString s)).getD ⟨0, [], none, none, none, none⟩

/-- a three-clause set with a respelled duplicate: `>=1.0, <2, >= 1.0.0` keeps two members -/
example : (SSet.ofString (Py.ofString ">=1.0, <2 ,>=1.0.0") none).map (·.len) = .ok 2 := by decide
example : (SSet.ofString (Py.ofString ">=1.0, <2 ,>=1.0.0") none).map (fun T => T.str T.specs) =
    .ok (Py.ofString "<2,>=1.0") := by decide
example : Roundtrips (sp ">=1.0") ∧ Roundtrips (sp "===1.0") ∧ Roundtrips (sp "==1.*") := by decide
example : CmpOk (sp "~=1.0", none) (ver "1.5") ∧ mcmp (sp "~=1.0", none) (ver "1.5") = true := by
  refine ⟨⟨true, by decide⟩, by decide⟩
example : key (sp "==1.0") = key (sp "==1.0.0") ∧ sp "==1.0" ≠ sp "==1.0.0" := by decide
example : key (sp "===1.0") ≠ key (sp "===1.0.0") ∧ key (sp "===1.0A") = key (sp "===1.0a") := by decide
example : (SSet.ofString (Py.ofString "==1.0") (some true) >>= fun a =>
           SSet.ofString (Py.ofString "==1.0") (some false) >>= fun b => a.and b).toBool = false := by decide

/-- DESIGN §8 row 21 (known finding): a member `===1,0` makes `str()` unparsable -/
theorem str_does_not_parse_back_with_comma :
    let T : SpecSet := ⟨[(⟨.arbitrary, Py.ofString "1,0"⟩, none)], none⟩
    SSet.ofString (T.str T.specs) none = .error "InvalidSpecifier" ∧ ¬ Roundtrips (⟨.arbitrary, Py.ofString "1,0"⟩) := by
  decide

/-- DESIGN §8 row 22 / C20 finding F02 (not a C05 violation: each string is deterministic for its object and
parses back to an equal set): which of two equal-but-differently-spelled clauses is printed depends on the
order they were supplied in -/
theorem str_depends_on_supply_order :
    (SSet.ofString (Py.ofString "==1.0,==1.0.0") none).map (fun T => T.str T.specs) = .ok (Py.ofString "==1.0") ∧
    (SSet.ofString (Py.ofString "==1.0.0,==1.0") none).map (fun T => T.str T.specs) = .ok (Py.ofString "==1.0.0") := by
  decide

end C05
