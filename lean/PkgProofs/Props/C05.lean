import PkgModel.SpecifierSet
namespace C05
end C05
