import PkgModel.Names
import PkgModel.Spec.Names
import PkgProofs.Lemmas.Names
import PkgProofs.Lemmas.RxDfa
import PkgProofs.Props.C13.Dfa
import PkgProofs.Props.C13.ValidCert
import PkgProofs.Props.C13.NormCert
/-!
# C13 — name normalisation is PEP 503; `is_normalized_name` is its fixed-point test

The model (`PkgModel/Names.lean`) is what the correspondence runs: `canon` (= `canonicalize_name`),
`canonicalizeName · true` (= `validate=True`), `isNormalized` (= `is_normalized_name`).  The two
patterns `_validate_regex` and `_normalized_regex`, the separator set of `_canonicalize_regex` and the
`str.lower` table are regenerated from the working tree / the interpreter on every run, so every theorem
below is re-checked against what the source says now.

All statements are for **every** string of code points (`cp < 0x110000` is what a Python `str` is).
-/
namespace C13
open Py Rx Names

/-! ### the regenerated data is what the hand-written part assumes -/

theorem tables_as_modelled :
    Gen.NameTables.canonStructureOk = true ∧ Gen.NameTables.separators = [45, 46, 95] ∧
    Gen.NameValidRx.supported = true ∧ Gen.NormalizedRx.supported = true := by decide

/-! ### folding -/

/-- **refinement**: `canonicalize_name(n)` = "lower-case, every maximal run of `-_.` becomes one `-`"
(the spec cuts `n` into maximal groups; the code scans left to right). -/
theorem canon_is_fold (n : Str) : canon n = NameSpec.fold lowerCp n := canon_eq_fold n

theorem canon_idem (n : Str) : canon (canon n) = canon n := by
  have h1 : lower (canon n) = canon n := by unfold canon; exact lower_idem _
  rw [canon_eq_collapse_lower (canon n), h1, canon_eq_collapse_lower n, collapse_idem]

/-- two names have the same canonical form exactly when they are equal after folding -/
theorem canon_eq_iff_fold_eq (n m : Str) :
    canon n = canon m ↔ NameSpec.fold lowerCp n = NameSpec.fold lowerCp m := by
  rw [canon_is_fold, canon_is_fold]

example : canon (ofString "Foo__.Bar") = canon (ofString "foo-bar") := by decide
example : canon (ofString "Foo__.Bar") ≠ canon (ofString "foobar") := by decide

/-- the groups the spec cuts a name into are exactly its maximal runs: they concatenate to the name, each is
non-empty and of one sort (all separators / no separator), and neighbours are of different sorts -/
theorem runs_are_maximal (n : Str) :
    (NameSpec.chunks NameSpec.isSep n).flatten = n ∧
    (∀ ch ∈ NameSpec.chunks NameSpec.isSep n, ∃ d e, ch = d :: e ∧ ∀ x ∈ e, NameSpec.isSep x = NameSpec.isSep d) ∧
    Alternating NameSpec.isSep (NameSpec.chunks NameSpec.isSep n) :=
  ⟨chunks_flatten _ n, chunks_homogeneous _ n, chunks_alternating _ n⟩

/-- in the output every separator is a `-` and no two separators are adjacent
(`Collapsed s false`: scanning `s`, a separator must be `-` and must not follow a separator) -/
theorem runs_collapsed (n : Str) : Collapsed (canon n) false = true := by
  rw [canon_eq_collapse_lower]
  exact (collapsed_collapseAux (lower n)).2

example : canon (ofString "a-_.b..C") = ofString "a-b-c" := by decide

/-! ### the language accepted with `validate=True` -/

/-- the generated `_validate_regex` and the spec regex "ASCII letter/digit, optionally followed by
(letters/digits/`-_.`)* and a letter/digit" accept the same strings — end anchor included -/
theorem validate_language (s : Str) (hs : ∀ cp ∈ s, cp < 0x110000) :
    accepts Gen.NameValidRx.ranges Gen.NameValidRx.rx s =
    accepts Gen.NameValidRx.ranges (NameSpec.validRx Gen.NameValidRx.kinds) s := by
  have ht : tiles Gen.NameValidRx.nClasses 0 Gen.NameValidRx.ranges = true := by
    have := valid_classes_verified
    simp only [Kinds.consistent, Bool.and_eq_true] at this; exact this.1.2
  exact accepts_congr1 ht validate_cert s hs

/-- `_validate_regex.match(n)` succeeds iff `n` is a core-metadata name: non-empty, only ASCII letters,
digits and `-_.`, first and last character a letter or digit -/
theorem validName_iff_spec (n : Str) (hn : ∀ cp ∈ n, cp < 0x110000) :
    validName n = NameSpec.validName n := by
  unfold validName
  rw [accepts_eq_runK valid_classes_verified (fun cp h => kindCS_ge cp h) valid_sim n hn]
  exact runV_eq_valid n

/-- `canonicalize_name(n, validate=True)`: `InvalidName` unless `n` is a valid name, else the fold -/
theorem validate_accepts_iff (n : Str) (hn : ∀ cp ∈ n, cp < 0x110000) :
    canonicalizeName n true = if NameSpec.validName n then some (NameSpec.fold lowerCp n) else none := by
  unfold canonicalizeName
  rw [validName_iff_spec n hn, canon_is_fold]
  cases NameSpec.validName n <;> simp

example : canonicalizeName (ofString "Foo.Bar") true = some (ofString "foo-bar") := by decide
example : canonicalizeName (ofString "foo\n") true = none := by decide
example : canonicalizeName [0x17F] true = none := by decide          -- 'ſ'
example : canonicalizeName (ofString "-foo") true = none := by decide

/-! ### `is_normalized_name` -/

/-- **`is_normalized_name(n)` is true exactly when `n` is a valid name and `canonicalize_name(n) == n`** -/
theorem normalized_iff_valid_fixed_point (n : Str) (hn : ∀ cp ∈ n, cp < 0x110000) :
    isNormalized n = (NameSpec.validName n && (canon n == n)) := by
  unfold isNormalized
  rw [accepts_eq_runK normalized_classes_verified (fun cp h => kindCS_ge cp h) normalized_sim n hn]
  exact runN_eq_normalized n

/-- the generated `_normalized_regex` and the spec regex "runs of `[a-z0-9]` separated by single dashes"
accept the same strings -/
theorem normalized_language (s : Str) (hs : ∀ cp ∈ s, cp < 0x110000) :
    accepts Gen.NormalizedRx.ranges Gen.NormalizedRx.rx s =
    accepts Gen.NormalizedRx.ranges (NameSpec.normalizedRx Gen.NormalizedRx.kinds) s := by
  have ht : tiles Gen.NormalizedRx.nClasses 0 Gen.NormalizedRx.ranges = true := by
    have := normalized_classes_verified
    simp only [Kinds.consistent, Bool.and_eq_true] at this; exact this.1.2
  exact accepts_congr1 ht normalized_cert s hs

/-- the same against the spec's own wording -/
theorem normalized_iff_spec (n : Str) (hn : ∀ cp ∈ n, cp < 0x110000) :
    isNormalized n = NameSpec.normalized lowerCp n := by
  rw [normalized_iff_valid_fixed_point n hn, NameSpec.normalized, canon_is_fold]

example : isNormalized (ofString "foo-bar") = true := by decide
example : isNormalized (ofString "a--b") = false := by decide
example : isNormalized (ofString "foo\n") = false := by decide
example : isNormalized (ofString "Foo") = false := by decide

theorem valid_ascii (n : Str) (h : NameSpec.validName n = true) : ∀ c ∈ n, c < 128 := by
  intro c hc
  simp only [NameSpec.validName, Bool.and_eq_true, List.all_eq_true] at h
  have := h.1.1 c hc
  simp only [NameSpec.alnum, NameSpec.isSep, isDigit, isLowerAscii, isUpperAscii, Bool.or_eq_true,
    Bool.and_eq_true, decide_eq_true_eq, beq_iff_eq] at this
  omega

theorem canon_ascii (n : Str) (h : ∀ c ∈ n, c < 128) : ∀ c ∈ canon n, c < 128 := by
  have h1 := collapseAux_ascii n false h
  intro c hc
  unfold canon collapse lower at hc
  simp only [List.mem_flatMap] at hc
  obtain ⟨a, ha, hca⟩ := hc
  have := h1 a ha
  simp only [lowerCp, this, ite_true, List.mem_singleton] at hca
  subst hca
  simp only [lowerAscii]
  cases hu : isUpperAscii a
  · simpa using this
  · simp only [isUpperAscii, Bool.and_eq_true, decide_eq_true_eq] at hu
    simp only [ite_true]; omega

/-- in particular: the canonical form of every valid name is accepted by `is_normalized_name` -/
theorem canon_of_valid_is_normalized (n : Str) (h : NameSpec.validName n = true) :
    isNormalized (canon n) = true := by
  have hasc := canon_ascii n (valid_ascii n h)
  rw [normalized_iff_valid_fixed_point (canon n) (fun c hc => by have := hasc c hc; omega),
    canon_valid n h, canon_idem]
  simp

example : NameSpec.validName (ofString "Foo_.-Bar9") = true := by decide

end C13
