import PkgModel.Names
import PkgModel.Spec.Names
namespace C13
end C13
