import PkgProofs.Props.C01
import PkgProofs.Props.C05
import PkgProofs.Props.C09
import PkgProofs.Props.C14
/-!
# C10 — equality is an equivalence, agrees with hash, and implies same behaviour

One section per public value type.  `==` of each type is modelled next to the type
(`V.Ver.eq` via `_cmpkey`; `Specifier` via `_canonical_spec` = `SSet.key`; `SpecifierSet` via the
frozenset of member keys; `Marker` via `str`; `Tag` via the lower-cased triple; `Requirement` in C08),
and the hash is an uninterpreted function of the key that `__hash__` hashes.
-/
namespace C10
open Py V S

/-! ## Version -/

theorem version_eq_equivalence :
    (∀ a : Ver, a.eq a = true) ∧ (∀ a b : Ver, a.eq b = true → b.eq a = true) ∧
    (∀ a b c : Ver, a.eq b = true → b.eq c = true → a.eq c = true) := C01.eq_equivalence

theorem version_eq_hash {H : Type} (hash : Key → H) (a b : Ver) (h : a.eq b = true) :
    hash (cmpkey a) = hash (cmpkey b) := C01.hash_agrees hash a b h

/-- equal versions are interchangeable in every comparison, on either side -/
theorem version_eq_interchangeable (a b c : Ver) (h : a.eq b = true) :
    a.lt c = b.lt c ∧ a.le c = b.le c ∧ a.eq c = b.eq c ∧ a.gt c = b.gt c ∧ a.ge c = b.ge c ∧
    c.lt a = c.lt b ∧ c.le a = c.le b ∧ c.eq a = c.eq b := by
  have hk := (C01.eq_iff_key_eq a b).mp h
  simp only [Ver.lt, Ver.le, Ver.eq, Ver.gt, Ver.ge, hk, and_self]

/-! ## Specifier: `==` is equality of `_canonical_spec` -/

def specEq (a b : Spec) : Bool := SSet.key a == SSet.key b

theorem spec_eq_equivalence :
    (∀ a, specEq a a = true) ∧ (∀ a b, specEq a b = true → specEq b a = true) ∧
    (∀ a b c, specEq a b = true → specEq b c = true → specEq a c = true) := by
  refine ⟨fun a => by simp [specEq], fun a b h => ?_, fun a b c h1 h2 => ?_⟩
  · simp only [specEq, beq_iff_eq] at *; exact h.symm
  · simp only [specEq, beq_iff_eq] at *; exact h1.trans h2

/-- `__hash__` hashes the very key `__eq__` compares; the key can always be computed (no exception) -/
theorem spec_eq_hash {H : Type} (hash : SSet.CKey → H) (a b : Spec) (h : specEq a b = true) :
    hash (SSet.key a) = hash (SSet.key b) ∧ a.canonical.isOk = true := by
  simp only [specEq, beq_iff_eq] at h
  exact ⟨by rw [h], SSet.canonical_isOk a⟩

/-- **equal specifiers match the same candidates** — every operator, every candidate; with the same
stored override also through the pre-release gate and `prereleases=None` -/
theorem spec_eq_same_contains (a b : Spec) (h : specEq a b = true) (v : Ver) :
    a.compare v = b.compare v ∧
    (∀ ov pre, (a.op = .arbitrary → a.ver = b.ver) → a.contains ov v pre = b.contains ov v pre) := by
  simp only [specEq, beq_iff_eq] at h
  have hc := SSet.equal_specs_match_alike a b h v
  refine ⟨hc, fun ov pre harb => ?_⟩
  have hp := SSet.equal_specs_same_prereleases a b h ov harb
  simp only [Spec.contains, hc, hp]

/-! ## SpecifierSet -/

theorem set_eq_equivalence {a b c : SSet.SpecSet} (ha : C05.WF a) (hb : C05.WF b) (hc : C05.WF c) :
    a.eq a = true ∧ (a.eq b = true → b.eq a = true) ∧ (a.eq b = true → b.eq c = true → a.eq c = true) :=
  ⟨C05.eq_refl ha, C05.eq_symm ha hb, C05.eq_trans ha hb hc⟩

theorem set_eq_hash {a b : SSet.SpecSet} (ha : C05.WF a) (hb : C05.WF b) (h : a.eq b = true) :
    a.hashKey.Perm b.hashKey := C05.eq_hash ha hb h

/-- equal sets match the same candidates, whatever order each frozenset is iterated in -/
theorem set_eq_same_contains (T₁ T₂ : SSet.SpecSet) (h₁ : C05.WF T₁) (h₂ : C05.WF T₂) (heq : T₁.eq T₂ = true)
    (it₁ it₂ : List SSet.Member) (hp₁ : it₁.Perm T₁.specs) (hp₂ : it₂.Perm T₂.specs)
    (v : Ver) (hc : ∀ m ∈ T₁.specs, SSet.CmpOk m v) :
    T₁.contains it₁ v (some true) false = T₂.contains it₂ v (some true) false :=
  C05.eq_sets_match_alike T₁ T₂ h₁ h₂ heq it₁ it₂ hp₁ hp₂ v hc

/-! ## Marker: `==` and `hash` go through `str` -/

theorem marker_eq_equivalence : (∀ a : List Mk.M, Mk.eq a a = true) ∧ (∀ a b : List Mk.M, Mk.eq a b = Mk.eq b a) ∧
    (∀ a b c : List Mk.M, Mk.eq a b = true → Mk.eq b c = true → Mk.eq a c = true) := C09.eq_equivalence

theorem marker_eq_hash (a b : List Mk.M) : Mk.eq a b = true ↔ Mk.hashKey a = Mk.hashKey b := C09.hash_agrees a b

/-! ## Tag -/

/-- whatever `hash` is, `Tag.__eq__` (hash short-cut first, then the three fields) is field equality -/
theorem tag_eq_iff (h : Str × Str × Str → Nat) (t u : Fn.Tag) : Fn.Tag.eq h t u = true ↔ t = u := C14.tag_eq_iff h t u

theorem tag_eq_equivalence (h : Str × Str × Str → Nat) :
    (∀ t : Fn.Tag, Fn.Tag.eq h t t = true) ∧ (∀ t u : Fn.Tag, Fn.Tag.eq h t u = true → Fn.Tag.eq h u t = true) ∧
    (∀ t u w : Fn.Tag, Fn.Tag.eq h t u = true → Fn.Tag.eq h u w = true → Fn.Tag.eq h t w = true) := by
  refine ⟨fun t => (tag_eq_iff h t t).mpr rfl, fun t u e => ?_, fun t u w e1 e2 => ?_⟩
  · exact (tag_eq_iff h u t).mpr ((tag_eq_iff h t u).mp e).symm
  · exact (tag_eq_iff h t w).mpr (((tag_eq_iff h t u).mp e1).trans ((tag_eq_iff h u w).mp e2))

/-- equal tags have equal fields, equal hash keys and the same string -/
theorem tag_eq_same_fields (h : Str × Str × Str → Nat) (t u : Fn.Tag) (e : Fn.Tag.eq h t u = true) :
    t.key = u.key ∧ t = u := by
  have := (tag_eq_iff h t u).mp e
  exact ⟨by rw [this], this⟩

-- non-vacuity: equal for a non-obvious reason
example : specEq ⟨.eq, ofString "1.0"⟩ ⟨.eq, ofString "1.0.0"⟩ = true := by decide +kernel
example : specEq ⟨.arbitrary, ofString "1.0"⟩ ⟨.arbitrary, ofString "1.0.0"⟩ = false := by decide +kernel
example : specEq ⟨.compatible, ofString "1.0"⟩ ⟨.compatible, ofString "1.0.0"⟩ = false := by decide +kernel

end C10
