import PkgProofs.Lemmas.VerOrd
import PkgProofs.Lemmas.Pad
/-!
# C01 — Version comparison is the PEP 440 total order

Model: `V.cmpkey` (= `_cmpkey`) and the six rich comparisons computed through Python's tuple
comparison protocol with the sentinels' own method tables (`PkgModel/Version.lean`).
Spec: `Pep440.cmp` (`PkgModel/Spec/Pep440.lean`).

All theorems quantify over arbitrary `Ver` values: unbounded release length, component
magnitudes and local-segment lists.
-/
namespace C01
open V O Py Pep440

/-- the one order all six operators are induced by -/
def ord (a b : Ver) : Ordering := keyOrd (cmpkey a) (cmpkey b)

/-! ### 1. The six operators agree with one `Ordering` (and never reach `TypeError`) -/

theorem ops_agree (a b : Ver) :
    a.lt b = sat .lt (ord a b) ∧ a.le b = sat .le (ord a b) ∧
    a.gt b = sat .gt (ord a b) ∧ a.ge b = sat .ge (ord a b) := by
  simp only [Ver.lt, Ver.le, Ver.gt, Ver.ge, ord, keyCmp_ord, and_self]

theorem eq_agrees (a b : Ver) :
    a.eq b = (ord a b == .eq) ∧ a.ne b = !(ord a b == .eq) := by
  simp only [Ver.eq, Ver.ne, ord, keyEq_ord, and_self]

/-! ### 2. That order is a total order on keys -/

def toTup (k : Key) := (k.epoch, k.release, k.pre, k.post, k.dev, k.loc)

theorem toTup_inj {k l : Key} (h : toTup k = toTup l) : k = l := by
  cases k; cases l; simp only [toTup, Prod.mk.injEq] at h
  obtain ⟨h1, h2, h3, h4, h5, h6⟩ := h; subst h1 h2 h3 h4 h5 h6; rfl

theorem TotalCmp.comap {α β} {c : β → β → Ordering} (h : TotalCmp c) (f : α → β)
    (hf : ∀ x y, f x = f y → x = y) : TotalCmp (fun x y => c (f x) (f y)) where
  eq_iff a b := by
    constructor
    · intro e; exact hf _ _ ((h.eq_iff _ _).mp e)
    · intro e; subst e; exact (h.eq_iff _ _).mpr rfl
  swap a b := h.swap _ _
  trans a b d := h.trans _ _ _

theorem preOrd_total : TotalCmp preOrd := by
  have := TotalCmp.comap (lexPair_total natCmp natCmp) (fun p : PreL × Nat => (p.1.rank, p.2))
    (by rintro ⟨a, b⟩ ⟨c, d⟩ h; simp only [Prod.mk.injEq] at h; rw [(rank_inj a c).mp h.1, h.2])
  exact this

theorem ksegOrd_total : TotalCmp ksegOrd where
  eq_iff a b := by
    cases a <;> cases b <;> simp [ksegOrd]
    exact (lexList_total natCmp).eq_iff _ _
  swap a b := by
    cases a <;> cases b <;> simp [ksegOrd, Ordering.swap]
    · exact natCmp.swap _ _
    · exact (lexList_total natCmp).swap _ _
  trans a b d := by
    cases a <;> cases b <;> cases d <;> simp [ksegOrd]
    · exact natCmp.trans _ _ _
    · exact (lexList_total natCmp).trans _ _ _

theorem keyOrd_total : TotalCmp keyOrd := by
  have h := TotalCmp.comap
    (lexPair_total natCmp <| lexPair_total (lexList_total natCmp) <|
      lexPair_total (extOrd_total preOrd_total) <| lexPair_total (extOrd_total natCmp) <|
      lexPair_total (extOrd_total natCmp) (extOrd_total (lexList_total ksegOrd_total)))
    toTup (fun _ _ => toTup_inj)
  exact h

/-! ### 3. … and it is the PEP 440 order (refinement: model = spec) -/

theorem rel_eq_pad (a b : List Nat) :
    lexList compare (dropTrailingZeros a) (dropTrailingZeros b) = padCmp a b := by
  have h1 := Pd.strip_eq_stripS a; have h2 := Pd.strip_eq_stripS b
  simp only [Pd.strip] at h1 h2
  rw [h1, h2, Pd.pad_eq_strip]

/-- what the `pre` slot of the key encodes: (phase, pre number) -/
def slotPhase : Ext (PreL × Nat) → Nat × Nat
  | .negInf => (0, 0)
  | .val (l, n) => (l.rank + 1, n)
  | .posInf => (4, 0)

theorem slotPhase_key (v : Ver) : slotPhase (cmpkey v).pre = (phase v, preNum v) := by
  obtain ⟨e, r, pre, post, dev, loc⟩ := v
  cases pre with
  | none => cases post <;> cases dev <;> simp [cmpkey, slotPhase, phase, preNum]
  | some p => obtain ⟨l, n⟩ := p; cases l <;> simp [cmpkey, slotPhase, phase, preNum, PreL.rank]

theorem cmp_succ (a b : Nat) : compare (a + 1) (b + 1) = compare a b := by
  rcases Nat.lt_trichotomy a b with h | h | h
  · rw [Nat.compare_eq_lt.mpr h, Nat.compare_eq_lt.mpr (by omega)]
  · rw [Nat.compare_eq_eq.mpr h, Nat.compare_eq_eq.mpr (by omega)]
  · rw [Nat.compare_eq_gt.mpr h, Nat.compare_eq_gt.mpr (by omega)]

theorem rank_lt4 (l : PreL) : compare (l.rank + 1) 4 = .lt := by
  cases l <;> simp [PreL.rank, Nat.compare_eq_lt]
theorem rank_gt0 (l : PreL) : compare (l.rank + 1) 0 = .gt := by
  cases l <;> simp [PreL.rank, Nat.compare_eq_gt]
theorem four_gt_rank (l : PreL) : compare 4 (l.rank + 1) = .gt := by
  cases l <;> simp [PreL.rank, Nat.compare_eq_gt]
theorem zero_lt_rank (l : PreL) : compare 0 (l.rank + 1) = .lt := by
  cases l <;> simp [PreL.rank, Nat.compare_eq_lt]

theorem pre_slot (x y : Ext (PreL × Nat)) :
    extOrd preOrd x y =
      (compare (slotPhase x).1 (slotPhase y).1).then (compare (slotPhase x).2 (slotPhase y).2) := by
  cases x with
  | negInf => cases y with
    | negInf => simp [extOrd, slotPhase, Ordering.then]
    | val q => obtain ⟨l, n⟩ := q; simp [extOrd, slotPhase, zero_lt_rank, Ordering.then]
    | posInf => simp [extOrd, slotPhase, Ordering.then]; decide
  | val p =>
    obtain ⟨l, n⟩ := p
    cases y with
    | negInf => simp [extOrd, slotPhase, rank_gt0, Ordering.then]
    | val q => obtain ⟨l', n'⟩ := q; simp [extOrd, slotPhase, preOrd, cmp_succ]
    | posInf => simp [extOrd, slotPhase, rank_lt4, Ordering.then]
  | posInf => cases y with
    | negInf => simp [extOrd, slotPhase, Ordering.then]; decide
    | val q => obtain ⟨l, n⟩ := q; simp [extOrd, slotPhase, four_gt_rank, Ordering.then]
    | posInf => simp [extOrd, slotPhase, Ordering.then]

theorem post_slot (a b : Ver) : extOrd compare (cmpkey a).post (cmpkey b).post = postCmp a.post b.post := by
  cases ha : a.post <;> cases hb : b.post <;> simp [cmpkey, ha, hb, extOrd, postCmp]

theorem dev_slot (a b : Ver) : extOrd compare (cmpkey a).dev (cmpkey b).dev = devCmp a.dev b.dev := by
  cases ha : a.dev <;> cases hb : b.dev <;> simp [cmpkey, ha, hb, extOrd, devCmp]

theorem ksegOrd_eq_segCmp : ksegOrd = segCmp := by
  funext x y; cases x <;> cases y <;> rfl

theorem loc_slot (a b : Ver) :
    extOrd (lexList ksegOrd) (cmpkey a).loc (cmpkey b).loc = localCmp a.loc b.loc := by
  cases ha : a.loc <;> cases hb : b.loc <;> simp [cmpkey, ha, hb, extOrd, localCmp, ksegOrd_eq_segCmp]

/-- **Refinement.** The order induced by `_cmpkey` and the tuple protocol is the PEP 440 order. -/
theorem cmp_eq_pep440 (a b : Ver) : ord a b = Pep440.cmp a b := by
  have hp := pre_slot (cmpkey a).pre (cmpkey b).pre
  rw [slotPhase_key a, slotPhase_key b] at hp
  simp only [ord, keyOrd, Pep440.cmp, hp, post_slot, dev_slot, loc_slot]
  have hr : lexList compare (cmpkey a).release (cmpkey b).release = padCmp a.release b.release := by
    simp only [cmpkey]; exact rel_eq_pad _ _
  have he : (cmpkey a).epoch = a.epoch ∧ (cmpkey b).epoch = b.epoch := ⟨rfl, rfl⟩
  rw [hr, he.1, he.2]
  cases compare a.epoch b.epoch <;> cases padCmp a.release b.release <;>
    cases compare (phase a) (phase b) <;> simp [Ordering.then]

/-! ### 4. Consequences stated on the six Python operators -/

/-- exactly one of `a < b`, `a == b`, `a > b` -/
theorem trichotomy (a b : Ver) :
    (a.lt b = true ∧ a.eq b = false ∧ a.gt b = false) ∨
    (a.lt b = false ∧ a.eq b = true ∧ a.gt b = false) ∨
    (a.lt b = false ∧ a.eq b = false ∧ a.gt b = true) := by
  obtain ⟨h1, _, h3, _⟩ := ops_agree a b
  obtain ⟨h5, _⟩ := eq_agrees a b
  rw [h1, h3, h5]
  cases ord a b <;> simp [sat]

theorem lt_trans (a b c : Ver) (h1 : a.lt b = true) (h2 : b.lt c = true) : a.lt c = true := by
  rw [(ops_agree _ _).1] at *
  have h1' : ord a b = .lt := by revert h1; cases ord a b <;> simp [sat]
  have h2' : ord b c = .lt := by revert h2; cases ord b c <;> simp [sat]
  have := keyOrd_total.trans _ _ _ h1' h2'
  simp only [ord] at *; rw [this]; rfl

theorem eq_iff_key_eq (a b : Ver) : a.eq b = true ↔ cmpkey a = cmpkey b := by
  rw [(eq_agrees a b).1, ← keyOrd_total.eq_iff]
  simp only [ord]; cases keyOrd (cmpkey a) (cmpkey b) <;> simp

theorem eq_equivalence :
    (∀ a : Ver, a.eq a = true) ∧
    (∀ a b : Ver, a.eq b = true → b.eq a = true) ∧
    (∀ a b c : Ver, a.eq b = true → b.eq c = true → a.eq c = true) := by
  refine ⟨fun a => (eq_iff_key_eq a a).mpr rfl, fun a b h => ?_, fun a b c h1 h2 => ?_⟩
  · exact (eq_iff_key_eq b a).mpr ((eq_iff_key_eq a b).mp h).symm
  · exact (eq_iff_key_eq a c).mpr (((eq_iff_key_eq a b).mp h1).trans ((eq_iff_key_eq b c).mp h2))

/-- `hash(v) = hash(v._key)`: whatever `hash` does on keys, equal versions hash alike -/
theorem hash_agrees {H : Type} (hash : Key → H) (a b : Ver) (h : a.eq b = true) :
    hash (cmpkey a) = hash (cmpkey b) := by
  rw [(eq_iff_key_eq a b).mp h]

/-- `<=` is total, transitive, and antisymmetric up to `==`; `!=`, `>=`, `>` are the derived relations -/
theorem le_total_preorder :
    (∀ a b : Ver, a.le b = true ∨ b.le a = true) ∧
    (∀ a b c : Ver, a.le b = true → b.le c = true → a.le c = true) ∧
    (∀ a b : Ver, a.le b = true → b.le a = true → a.eq b = true) ∧
    (∀ a b : Ver, a.ne b = !a.eq b) ∧ (∀ a b : Ver, a.ge b = b.le a) ∧ (∀ a b : Ver, a.gt b = b.lt a) ∧
    (∀ a b : Ver, a.le b = (a.lt b || a.eq b)) := by
  have sw : ∀ a b : Ver, ord b a = (ord a b).swap := fun a b => keyOrd_total.swap _ _
  refine ⟨?_, ?_, ?_, ?_, ?_, ?_, ?_⟩
  · intro a b; rw [(ops_agree a b).2.1, (ops_agree b a).2.1, sw a b]
    cases ord a b <;> simp [sat, Ordering.swap]
  · intro a b c; rw [(ops_agree a b).2.1, (ops_agree b c).2.1, (ops_agree a c).2.1]
    intro h1 h2
    cases hab : ord a b with
    | gt => rw [hab] at h1; simp [sat] at h1
    | eq =>
      have : cmpkey a = cmpkey b := (keyOrd_total.eq_iff _ _).mp hab
      simp only [ord, this] at *; exact h2
    | lt =>
      cases hbc : ord b c with
      | gt => rw [hbc] at h2; simp [sat] at h2
      | eq =>
        have : cmpkey b = cmpkey c := (keyOrd_total.eq_iff _ _).mp hbc
        simp only [ord, ← this] at *; rw [hab]; rfl
      | lt => have := keyOrd_total.trans _ _ _ hab hbc; simp only [ord] at *; rw [this]; rfl
  · intro a b; rw [(ops_agree a b).2.1, (ops_agree b a).2.1, (eq_agrees a b).1, sw a b]
    cases ord a b <;> simp [sat, Ordering.swap]
  · intro a b; rw [(eq_agrees a b).1, (eq_agrees a b).2]
  · intro a b; rw [(ops_agree a b).2.2.2, (ops_agree b a).2.1, sw a b]
    cases ord a b <;> simp [sat, Ordering.swap]
  · intro a b; rw [(ops_agree a b).2.2.1, (ops_agree b a).1, sw a b]
    cases ord a b <;> simp [sat, Ordering.swap]
  · intro a b; rw [(ops_agree a b).2.1, (ops_agree a b).1, (eq_agrees a b).1]
    cases ord a b <;> simp [sat]

/-- the spec order itself is a total preorder whose equivalence is "same key" -/
theorem spec_total :
    (∀ a b : Ver, Pep440.cmp b a = (Pep440.cmp a b).swap) ∧
    (∀ a b c : Ver, Pep440.cmp a b = .lt → Pep440.cmp b c = .lt → Pep440.cmp a c = .lt) ∧
    (∀ a b : Ver, Pep440.cmp a b = .eq ↔ cmpkey a = cmpkey b) := by
  simp only [← cmp_eq_pep440]
  exact ⟨fun a b => keyOrd_total.swap _ _, fun a b c => keyOrd_total.trans _ _ _,
         fun a b => keyOrd_total.eq_iff _ _⟩

/-- **Sorting gives one answer.**  Two lists that are permutations of each other and both sorted by
`<=` have the same comparison keys position by position (so they are point-wise `==`). -/
theorem sorted_unique (l₁ l₂ : List Ver) (hp : l₁.Perm l₂)
    (h₁ : l₁.Pairwise (fun a b => a.le b = true)) (h₂ : l₂.Pairwise (fun a b => a.le b = true)) :
    l₁.map cmpkey = l₂.map cmpkey := by
  let le : Key → Key → Prop := fun k l => sat .le (keyOrd k l) = true
  have conv : ∀ l : List Ver, l.Pairwise (fun a b => a.le b = true) → (l.map cmpkey).Pairwise le := by
    intro l h
    rw [List.pairwise_map]
    exact h.imp (fun {a b} hab => by rw [(ops_agree a b).2.1] at hab; exact hab)
  apply List.Perm.eq_of_pairwise (le := le) _ (conv _ h₁) (conv _ h₂) (hp.map _)
  intro k l _ _ hkl hlk
  apply (keyOrd_total.eq_iff k l).mp
  simp only [le] at hkl hlk
  rw [keyOrd_total.swap k l] at hlk
  revert hkl hlk; cases keyOrd k l <;> simp [sat, Ordering.swap]

/-! ### 5. Non-vacuity and the tie-breaks named in the property text -/

def mk (rel : List Nat) (pre : Option (PreL × Nat) := none) (post dev : Option Nat := none)
    (loc : Option (List LSeg) := none) (epoch : Nat := 0) : Ver :=
  { epoch := epoch, release := rel, pre := pre, post := post, dev := dev, loc := loc }

-- 1.0.post1.dev0 < 1.0.post1 ; 1.0+a < 1.0+1 ; 1!1.0 == 1!1 ; 1.0.dev0 < 1.0a0 < 1.0 < 1.0.post0
example : (mk [1,0] (post := some 1) (dev := some 0)).lt (mk [1,0] (post := some 1)) = true := by decide
example : (mk [1,0] (loc := some [.str [97]])).lt (mk [1,0] (loc := some [.num 1])) = true := by decide
example : (mk [1,0] (epoch := 1)).eq (mk [1] (epoch := 1)) = true := by decide
example : (mk [1,0] (dev := some 0)).lt (mk [1,0] (pre := some (.a, 0))) = true ∧
          (mk [1,0] (pre := some (.a, 0))).lt (mk [1,0]) = true ∧
          (mk [1,0]).lt (mk [1,0] (post := some 0)) = true := by decide
example : ([mk [1], mk [2]] : List Ver).Pairwise (fun a b => a.le b = true) := by decide

end C01
