import PkgProofs.Lemmas.PlatFamilies
import PkgProofs.Lemmas.PlatNodup
import PkgProofs.Lemmas.ElfBytes
import PkgProofs.Lemmas.PlatMusl
/-!
# C16 — platform tag sequences match the platform's real compatibility range; the ELF / libc probes decode what is encoded

Model: `Plat.manylinuxTags`, `musllinuxTags`, `macPlatforms`, `iosPlatforms`, `parseGlibcVersion` (`PkgModel/Platform.lean`)
and `Elf.parse` / `Elf.interpreter` (`PkgModel/Elf.lean`) — the functions the correspondence check runs against
`packaging._manylinux`, `_musllinux`, `tags`, `_elffile`.
Spec: `PlatSpec.*` (`PkgModel/Spec/Platform.lean`), ELF encoders `Elf.encodeHeader` / `encodePHeader`.
-/
namespace C16
open Py Tags Plat PlatSpec PlatL Elf

/-! ### 1. manylinux -/

/-- the table regenerated from `_LEGACY_MANYLINUX_MAP` is exactly the PEP 513 / 571 / 599 constants of the spec -/
theorem legacy_map_is_peps (v : Nat × Nat) : Gen.TagTables.legacyManylinuxMap.lookup v = legacyName v :=
  legacy_lookup v

/-- **manylinux: model = spec**, for every architecture list, every glibc version `G` with major ≥ 2 (as decoded from the
    libc probes), every policy-module behaviour and every executable -/
theorem manylinux_eq_spec (cfg : LCfg) (archs : List Str) (G : Nat × Nat)
    (hG : getGlibcVersion cfg.confstr cfg.ctypesVersion = ((G.1 : Int), (G.2 : Int))) (h2 : 2 ≤ G.1) :
    manylinuxTags cfg archs =
      manylinuxSpec G archs (policyAllows cfg.policy) (haveCompatibleAbi cfg archs)
        (fun M => (lastGlibcMinor M).toNat) :=
  PlatL.manylinux_eq_spec cfg archs G hG h2

example : getGlibcVersion (some (ofString "glibc 2.17")) none = ((2 : Int), (17 : Int)) := by decide

/-- no glibc (`(-1, -1)`): nothing -/
theorem no_glibc_empty (cfg : LCfg) (archs : List Str)
    (hG : getGlibcVersion cfg.confstr cfg.ctypesVersion = (-1, -1)) : manylinuxTags cfg archs = [] := by
  unfold manylinuxTags
  cases haveCompatibleAbi cfg archs
  · simp
  · simp only [hG, Bool.not_true, Bool.false_eq_true, if_false]
    have h1 : downFrom ((-1 : Int) - 1) 1 = [] := downFrom_nonpos _ _ (by omega)
    have h2 : ∀ c : Bool, ((-1 : Int) == (if c = true then ((2, 4) : Int × Int) else (2, 16)).1) = false := by
      intro c; cases c <;> decide
    have h3 : downFrom (-1 : Int) (-1) = [] := downFrom_nonpos _ _ (by omega)
    simp only [h1, List.map_nil, List.flatMap_cons, List.flatMap_nil, List.append_nil, h2, Bool.false_eq_true,
      if_false, h3]
    induction archs with
    | nil => rfl
    | cons a t ih => simp only [List.flatMap_cons, ih, List.append_nil]

/-- nothing is emitted when the interpreter's ABI is incompatible -/
theorem abi_incompatible_empty (cfg : LCfg) (archs : List Str) (h : haveCompatibleAbi cfg archs = false) :
    manylinuxTags cfg archs = [] := by
  simp [manylinuxTags, h]

/-- a vetoed (version, architecture) contributes neither its PEP 600 tag nor its legacy alias -/
theorem veto_omits (allowed : Nat × Nat → Str → Bool) (a : Str) (v : Nat × Nat) (h : allowed v a = false) :
    bodySpec allowed a v = [] := by
  simp [bodySpec, h]

/-- an allowed version with a legacy name contributes exactly the PEP 600 tag immediately followed by the alias … -/
theorem legacy_alias_adjacent_body (allowed : Nat × Nat → Str → Bool) (a : Str) (v : Nat × Nat) (l : Str)
    (h : allowed v a = true) (hl : legacyName v = some l) :
    bodySpec allowed a v = [pep600Tag v a, l ++ us ++ a] := by
  simp [bodySpec, h, hl]

theorem mem_glibcVersionsDown {G floor : Nat × Nat} {last : Nat → Nat} {v : Nat × Nat} :
    v ∈ glibcVersionsDown G floor last ↔
      (floor.1 ≤ v.1 ∧ v.1 ≤ G.1) ∧ (if v.1 = floor.1 then floor.2 else 0) ≤ v.2 ∧
        v.2 ≤ (if v.1 = G.1 then G.2 else last v.1) := by
  obtain ⟨M, m⟩ := v
  simp only [glibcVersionsDown, List.mem_flatMap, List.mem_map, mem_descending, Prod.mk.injEq]
  constructor
  · rintro ⟨M', hM, m', hm, rfl, rfl⟩; exact ⟨hM, hm⟩
  · rintro ⟨hM, hm⟩; exact ⟨M, hM, m, hm, rfl, rfl⟩

/-- … and in the whole sequence the alias sits immediately after its PEP 600 tag -/
theorem legacy_alias_adjacent (G : Nat × Nat) (archs : List Str) (allowed : Nat × Nat → Str → Bool) (last : Nat → Nat)
    (a : Str) (v : Nat × Nat) (l : Str) (ha : a ∈ archs) (hv : v ∈ glibcVersionsDown G (glibcFloor a) last)
    (h : allowed v a = true) (hl : legacyName v = some l) :
    ∃ pre post, manylinuxSpec G archs allowed true last = pre ++ [pep600Tag v a, l ++ us ++ a] ++ post := by
  obtain ⟨a1, a2, rfl⟩ := List.append_of_mem ha
  obtain ⟨v1, v2, hv'⟩ := List.append_of_mem hv
  have hspec : manylinuxSpec G (a1 ++ a :: a2) allowed true last =
      (a1 ++ a :: a2).flatMap fun a => (glibcVersionsDown G (glibcFloor a) last).flatMap (bodySpec allowed a) := rfl
  rw [hspec, List.flatMap_append, List.flatMap_cons, hv', List.flatMap_append, List.flatMap_cons,
    legacy_alias_adjacent_body allowed a v l h hl]
  refine ⟨(a1.flatMap fun a => (glibcVersionsDown G (glibcFloor a) last).flatMap (bodySpec allowed a))
      ++ v1.flatMap (bodySpec allowed a),
    v2.flatMap (bodySpec allowed a)
      ++ (a2.flatMap fun a => (glibcVersionsDown G (glibcFloor a) last).flatMap (bodySpec allowed a)), ?_⟩
  simp only [List.append_assoc]

/-- every tag belongs to an architecture of the list and to a version between that architecture's floor and the running
    glibc: **nothing newer than the running system, nothing below the floor** -/
theorem manylinux_within_range (G : Nat × Nat) (archs : List Str) (allowed : Nat × Nat → Str → Bool) (ok : Bool)
    (last : Nat → Nat) (t : Str) (ht : t ∈ manylinuxSpec G archs allowed ok last) :
    ∃ a ∈ archs, ∃ v : Nat × Nat, allowed v a = true ∧
      (v.1 < G.1 ∨ (v.1 = G.1 ∧ v.2 ≤ G.2)) ∧
      ((glibcFloor a).1 < v.1 ∨ ((glibcFloor a).1 = v.1 ∧ (glibcFloor a).2 ≤ v.2)) ∧
      (t = pep600Tag v a ∨ ∃ l, legacyName v = some l ∧ t = l ++ us ++ a) := by
  unfold manylinuxSpec at ht
  cases ok
  · simp at ht
  · simp only [Bool.not_true, Bool.false_eq_true, if_false, List.mem_flatMap] at ht
    obtain ⟨a, ha, v, hv, htv⟩ := ht
    have hr := mem_glibcVersionsDown.mp hv
    by_cases hal : allowed v a = true
    · refine ⟨a, ha, v, hal, ?_, ?_, ?_⟩
      · by_cases h : v.1 = G.1
        · right; simpa [h] using hr.2.2
        · left; omega
      · by_cases h : v.1 = (glibcFloor a).1
        · right; exact ⟨h.symm, by simpa [h] using hr.2.1⟩
        · left; omega
      · simp only [hal, if_true, List.mem_cons] at htv
        rcases htv with rfl | htv
        · left; rfl
        · right
          cases hl : legacyName v with
          | none => simp [hl] at htv
          | some l => simp only [hl, List.mem_singleton] at htv; exact ⟨l, rfl, htv⟩
    · simp [hal] at htv

/-! ### 2. musllinux, macOS, iOS -/

theorem musl_eq_spec (cfg : LCfg) (archs : List Str) (V : Nat × Nat) (h : getMuslVersion cfg = some V) :
    musllinuxTags cfg archs = musllinuxSpec V archs := PlatL.musl_eq_spec cfg archs V h

theorem musl_absent_empty (cfg : LCfg) (archs : List Str) (h : getMuslVersion cfg = none) :
    musllinuxTags cfg archs = [] := PlatL.musl_absent cfg archs h

theorem mac_eq_spec (verStr cpu compat0 : Str) (is32 : Bool) (a b : Nat) (arch : Str) :
    macPlatforms verStr cpu compat0 is32 (some (a, b)) (some arch) = .ok (macSpec (a, b) arch) :=
  PlatL.mac_eq_spec verStr cpu compat0 is32 a b arch

theorem mac_formats_eq_table (x y : Nat) (cpu : Str) : macBinaryFormats [x, y] cpu = macFormatsSpec (x, y) cpu :=
  macFormats_eq x y cpu

theorem ios_eq_spec (release probeMa : Str) (a b : Nat) (ma : Str) :
    iosPlatforms release probeMa (some (a, b)) (some ma) = .ok (iosSpec (a, b) ma) :=
  PlatL.ios_eq_spec release probeMa a b ma

theorem mem_iosSpec {v : Nat × Nat} {ma t : Str} :
    t ∈ iosSpec v ma ↔ 12 ≤ v.1 ∧ ∃ A k, t = iosTag A k (ma.map fun c => if c = 45 then 95 else c) ∧
      ((A = v.1 ∧ k ≤ v.2) ∨ (12 ≤ A ∧ A < v.1 ∧ k ≤ iosMaxMinor)) := by
  unfold iosSpec
  by_cases h : v.1 < 12
  · simp [h]; omega
  · simp only [h, if_false, List.mem_append, List.mem_map, List.mem_flatMap, mem_descending]
    constructor
    · rintro (⟨k, hk, rfl⟩ | ⟨A, hA, k, hk, rfl⟩)
      · exact ⟨by omega, v.1, k, rfl, Or.inl ⟨rfl, hk.2⟩⟩
      · exact ⟨by omega, A, k, rfl, Or.inr ⟨hA.1, by omega, hk.2⟩⟩
    · rintro ⟨_, A, k, rfl, (⟨rfl, hk⟩ | ⟨h1, h2, h3⟩)⟩
      · exact Or.inl ⟨k, ⟨Nat.zero_le _, hk⟩, rfl⟩
      · exact Or.inr ⟨A, ⟨h1, by omega⟩, k, ⟨Nat.zero_le _, h3⟩, rfl⟩

/-
Full statement (does NOT hold, see `ios_superset_fails_above_9`):
  (a, b) ≤ (a', b') → every tag of iosSpec (a, b) ma is a tag of iosSpec (a', b') ma.
Proved: the same when the older system's minor is at most 9 (`iosMaxMinor`), the highest minor the code enumerates
for a previous major series (DESIGN §8 row 23; no iOS release has had a minor above 8).
-/
theorem ios_newer_superset_partial (a b a' b' : Nat) (ma : Str) (hle : a < a' ∨ (a = a' ∧ b ≤ b'))
    (hb : b ≤ iosMaxMinor) : ∀ t ∈ iosSpec (a, b) ma, t ∈ iosSpec (a', b') ma := by
  intro t ht
  rw [mem_iosSpec] at ht ⊢
  obtain ⟨h12, A, k, rfl, hc⟩ := ht
  refine ⟨by simp only at h12 ⊢; omega, A, k, rfl, ?_⟩
  simp only at hc ⊢
  rcases hc with ⟨rfl, hk⟩ | ⟨h1, h2, h3⟩
  · rcases hle with h | ⟨rfl, h⟩
    · right; exact ⟨h12, h, by omega⟩
    · left; exact ⟨rfl, by omega⟩
  · right; exact ⟨h1, by omega, h3⟩

/-- the negation at a witness: iOS 14.10 offers `ios_14_10_*`, iOS 15.0 does not -/
theorem ios_superset_fails_above_9 :
    ¬ (∀ t ∈ iosSpec (14, 10) (ofString "arm64"), t ∈ iosSpec (15, 0) (ofString "arm64")) := by
  intro h
  have h1 : iosTag 14 10 (ofString "arm64") ∈ iosSpec (14, 10) (ofString "arm64") := by decide
  have h2 : iosTag 14 10 (ofString "arm64") ∉ iosSpec (15, 0) (ofString "arm64") := by decide
  exact h2 (h _ h1)

/-- nothing newer than the running system, nothing older than 12.0 -/
theorem ios_within_range (v : Nat × Nat) (ma t : Str) (ht : t ∈ iosSpec v ma) :
    ∃ A k, t = iosTag A k (ma.map fun c => if c = 45 then 95 else c) ∧ 12 ≤ A ∧ (A < v.1 ∨ (A = v.1 ∧ k ≤ v.2)) := by
  obtain ⟨h12, A, k, rfl, hc⟩ := mem_iosSpec.mp ht
  refine ⟨A, k, rfl, ?_, ?_⟩ <;> rcases hc with ⟨rfl, hk⟩ | ⟨h1, h2, _⟩ <;> first | omega | (right; exact ⟨rfl, hk⟩) | (left; exact h2)

/-! ### 5. A newer system offers a superset (same architecture list, same version regime) -/

theorem mem_manylinuxSpec {G : Nat × Nat} {archs : List Str} {allowed : Nat × Nat → Str → Bool} {last : Nat → Nat}
    {t : Str} :
    t ∈ manylinuxSpec G archs allowed true last ↔
      ∃ a ∈ archs, ∃ v ∈ glibcVersionsDown G (glibcFloor a) last, allowed v a = true ∧
        (t = pep600Tag v a ∨ ∃ l, legacyName v = some l ∧ t = l ++ us ++ a) := by
  have hspec : manylinuxSpec G archs allowed true last =
      archs.flatMap fun a => (glibcVersionsDown G (glibcFloor a) last).flatMap (bodySpec allowed a) := rfl
  rw [hspec]
  simp only [List.mem_flatMap]
  constructor
  · rintro ⟨a, ha, v, hv, ht⟩
    refine ⟨a, ha, v, hv, ?_⟩
    unfold bodySpec at ht
    by_cases hal : allowed v a = true
    · refine ⟨hal, ?_⟩
      simp only [hal, if_true, List.mem_cons] at ht
      rcases ht with rfl | ht
      · exact Or.inl rfl
      · right
        cases hl : legacyName v with
        | none => simp [hl] at ht
        | some l => simp only [hl, List.mem_singleton] at ht; exact ⟨l, rfl, ht⟩
    · simp [hal] at ht
  · rintro ⟨a, ha, v, hv, hal, ht⟩
    refine ⟨a, ha, v, hv, ?_⟩
    unfold bodySpec
    simp only [hal, if_true, List.mem_cons]
    rcases ht with rfl | ⟨l, hl, rfl⟩
    · exact Or.inl rfl
    · right; simp [hl]

/-- manylinux: a newer glibc of the same major series offers every tag the older one offers
    (same architecture list, same policy, compatible ABI) -/
theorem manylinux_newer_superset (G G' : Nat × Nat) (archs : List Str) (allowed : Nat × Nat → Str → Bool)
    (last : Nat → Nat) (h1 : G.1 = G'.1) (h2 : G.2 ≤ G'.2) :
    ∀ t ∈ manylinuxSpec G archs allowed true last, t ∈ manylinuxSpec G' archs allowed true last := by
  intro t ht
  rw [mem_manylinuxSpec] at ht ⊢
  obtain ⟨a, ha, v, hv, hr⟩ := ht
  refine ⟨a, ha, v, ?_, hr⟩
  rw [mem_glibcVersionsDown] at hv ⊢
  obtain ⟨⟨hv1, hv2⟩, hv3, hv4⟩ := hv
  refine ⟨⟨hv1, by omega⟩, hv3, ?_⟩
  by_cases h : v.1 = G.1
  · have h' : v.1 = G'.1 := by omega
    simp only [h, if_true] at hv4
    simp only [h', if_true]; omega
  · have h' : ¬ v.1 = G'.1 := by omega
    simpa [h, h'] using hv4

theorem mem_musllinuxSpec {V : Nat × Nat} {archs : List Str} {t : Str} :
    t ∈ musllinuxSpec V archs ↔ ∃ a ∈ archs, ∃ k, k ≤ V.2 ∧ t = sMusllinux_ ++ dec V.1 ++ us ++ dec k ++ us ++ a := by
  simp only [musllinuxSpec, List.mem_flatMap, List.mem_map, mem_descending]
  constructor
  · rintro ⟨a, ha, k, hk, rfl⟩; exact ⟨a, ha, k, hk.2, rfl⟩
  · rintro ⟨a, ha, k, hk, rfl⟩; exact ⟨a, ha, k, ⟨Nat.zero_le _, hk⟩, rfl⟩

/-- musllinux: newest first down to `M.0`; a newer musl of the same major offers a superset; nothing newer than running -/
theorem musl_newer_superset (M m m' : Nat) (archs : List Str) (h : m ≤ m') :
    ∀ t ∈ musllinuxSpec (M, m) archs, t ∈ musllinuxSpec (M, m') archs := by
  intro t ht
  rw [mem_musllinuxSpec] at ht ⊢
  obtain ⟨a, ha, k, hk, rfl⟩ := ht
  exact ⟨a, ha, k, by simp only at hk ⊢; omega, rfl⟩

theorem mem_macSpec_10 {m : Nat} {arch t : Str} :
    t ∈ macSpec (10, m) arch ↔ ∃ k, k ≤ m ∧ ∃ f ∈ macFormatsSpec (10, k) arch, t = macTag 10 k f := by
  simp only [macSpec, if_true, List.mem_flatMap, List.mem_map, mem_descending]
  constructor
  · rintro ⟨k, hk, f, hf, rfl⟩; exact ⟨k, hk.2, f, hf, rfl⟩
  · rintro ⟨k, hk, f, hf, rfl⟩; exact ⟨k, ⟨Nat.zero_le _, hk⟩, f, hf, rfl⟩

/-- macOS 10.x regime: a newer 10.m' offers every tag of 10.m -/
theorem mac_newer_superset_10 (m m' : Nat) (arch : Str) (h : m ≤ m') :
    ∀ t ∈ macSpec (10, m) arch, t ∈ macSpec (10, m') arch := by
  intro t ht
  rw [mem_macSpec_10] at ht ⊢
  obtain ⟨k, hk, r⟩ := ht
  exact ⟨k, by omega, r⟩

/-- macOS 11+ regime: a newer major offers every tag of an older one (minor releases do not matter) -/
theorem mac_newer_superset_11 (M m M' m' : Nat) (arch : Str) (h11 : 11 ≤ M) (h : M ≤ M') :
    ∀ t ∈ macSpec (M, m) arch, t ∈ macSpec (M', m') arch := by
  intro t ht
  have e1 : ¬ M = 10 := by omega
  have e2 : ¬ M' = 10 := by omega
  have g1 : M ≥ 11 := h11
  have g2 : M' ≥ 11 := by omega
  simp only [macSpec, e1, e2, g1, g2, if_true, if_false, List.mem_append, List.mem_flatMap, List.mem_map,
    mem_descending] at ht ⊢
  rcases ht with ⟨A, hA, f, hf, rfl⟩ | r
  · exact Or.inl ⟨A, ⟨hA.1, by omega⟩, f, hf, rfl⟩
  · exact Or.inr r


/-- model level: two glibc systems with the same policy module and a compatible interpreter, the newer one of the same
    major series, same architecture list — the newer system's manylinux tags contain the older one's -/
theorem manylinux_newer_superset_model (cfg cfg' : LCfg) (archs : List Str) (G G' : Nat × Nat)
    (hG : getGlibcVersion cfg.confstr cfg.ctypesVersion = ((G.1 : Int), (G.2 : Int)))
    (hG' : getGlibcVersion cfg'.confstr cfg'.ctypesVersion = ((G'.1 : Int), (G'.2 : Int)))
    (h2 : 2 ≤ G.1) (h1 : G.1 = G'.1) (hle : G.2 ≤ G'.2)
    (hpol : policyAllows cfg.policy = policyAllows cfg'.policy)
    (hok : haveCompatibleAbi cfg' archs = true) :
    ∀ t ∈ manylinuxTags cfg archs, t ∈ manylinuxTags cfg' archs := by
  intro t ht
  rw [manylinux_eq_spec cfg archs G hG h2] at ht
  rw [manylinux_eq_spec cfg' archs G' hG' (by omega), hok, ← hpol]
  cases hc : haveCompatibleAbi cfg archs
  · simp [hc, manylinuxSpec] at ht
  · rw [hc] at ht
    exact manylinux_newer_superset G G' archs _ _ h1 hle t ht

/-! ### 6. No duplicates -/

/-- manylinux (model level): no tag is listed twice when the architecture list has no repeats -/
theorem manylinux_nodup (cfg : LCfg) (archs : List Str) (G : Nat × Nat)
    (hG : getGlibcVersion cfg.confstr cfg.ctypesVersion = ((G.1 : Int), (G.2 : Int))) (h2 : 2 ≤ G.1)
    (ha : archs.Nodup) : (manylinuxTags cfg archs).Nodup := by
  rw [manylinux_eq_spec cfg archs G hG h2]
  exact PlatL.manylinux_nodup G archs _ _ _ ha

theorem musl_nodup (cfg : LCfg) (archs : List Str) (ha : archs.Nodup) : (musllinuxTags cfg archs).Nodup := by
  cases h : getMuslVersion cfg with
  | none => rw [musl_absent_empty cfg archs h]; exact List.nodup_nil
  | some V => rw [musl_eq_spec cfg archs V h]; exact PlatL.musl_nodup V archs ha

/-- macOS (model level, explicit arguments): the result is a list without duplicates -/
theorem mac_nodup (verStr cpu compat0 : Str) (is32 : Bool) (a b : Nat) (arch : Str) :
    ∃ l, macPlatforms verStr cpu compat0 is32 (some (a, b)) (some arch) = .ok l ∧ l.Nodup :=
  ⟨_, mac_eq_spec verStr cpu compat0 is32 a b arch, PlatL.mac_nodup (a, b) arch⟩

theorem ios_nodup (release probeMa : Str) (a b : Nat) (ma : Str) :
    ∃ l, iosPlatforms release probeMa (some (a, b)) (some ma) = .ok l ∧ l.Nodup :=
  ⟨_, ios_eq_spec release probeMa a b ma, PlatL.ios_nodup (a, b) ma⟩

/-! ### 3. ELF header, program headers, PT_INTERP -/

/-- **decode ∘ encode = id** for the ELF header in all four class × byte-order layouts, for arbitrary field values
    (that fit their fields) and whatever follows the header -/
theorem elf_decode_encode (l : Layout) (h : EHeader) (hf : Fits l h) (rest : Bytes) :
    parse (encodeHeader l h ++ rest) = some
      { capacity := l.cls, encoding := l.data, machine := h.machine, flags := h.flags, phoff := h.phoff,
        phentsize := h.phentsize, phnum := h.phnum, le := l.le, pSizes := pSizesOf l, pIdx := pIdxOf l } :=
  parse_encodeHeader l h hf rest

example : Fits ⟨true, false⟩ ⟨List.replicate 10 7, 2, 62, 1, 2 ^ 64 - 1, 2 ^ 64 - 1, 5, 2 ^ 32 - 1, 64, 56, 65535⟩ := by
  constructor <;> decide

/-- a program header decodes to what was encoded, through the layout's own index triple -/
theorem ph_decode_encode (l : Layout) (p : PHeader) (hp : PFits l p) :
    ∃ d, unpack l.le (pSizesOf l) (encodePHeader l p) = some d ∧
      d.getD (pIdxOf l).1 0 = p.ptype ∧ d.getD (pIdxOf l).2.1 0 = p.offset ∧ d.getD (pIdxOf l).2.2 0 = p.filesz :=
  unpack_encodePHeader l p hp

/-- the interpreter is the (NUL-stripped) content designated by the **first** readable PT_INTERP entry -/
theorem interp_is_first_pt_interp (f : Bytes) (x : Header) (k : Nat) (hk : k < x.phnum)
    (hs : ∀ j < k, Skipped f x j) (d : List Nat) (hd : entryAt f x k = some d) (h3 : d.getD x.pIdx.1 0 = 3)
    (hpos : x.phoff + x.phentsize * k ≤ ssizeMax)
    (hoff : d.getD x.pIdx.2.1 0 ≤ ssizeMax) (hsz : d.getD x.pIdx.2.2 0 ≤ ssizeMax) :
    interpreter f x = .ok (some (stripNul (readAt f (d.getD x.pIdx.2.1 0) (d.getD x.pIdx.2.2 0)))) :=
  interp_first f x k hk hs d hd h3 hpos hoff hsz

theorem interp_none_without_pt_interp (f : Bytes) (x : Header) (hs : ∀ j < x.phnum, Skipped f x j) :
    interpreter f x = .ok none := interp_none f x hs

/-! ### 4. libc version strings -/

theorem glibc_parse_render (M m : Nat) (junk : Str) (hj : ∀ c, junk.head? = some c → isDigit c = false) :
    parseGlibcVersion (dec M ++ 46 :: (dec m ++ junk)) = ((M : Int), (m : Int)) :=
  PlatL.glibc_parse_render M m junk hj

/-- **`_parse_musl_version` reads back what the musl loader prints**: a first line starting with `musl` (anything
without a line break after it, e.g. ` libc (x86_64)`), a second line `Version M.m` followed by anything that does not
continue the minor number — the patch level, trailing blanks, `\r\n`, the usage lines — for every `M`, `m`. -/
theorem musl_parse_render (f : Str) (hf : ∀ x ∈ f, isLineBreak x = false) (M m : Nat) (junk : Str)
    (hj : ∀ c, junk.head? = some c → isDigit c = false) :
    parseMuslVersion (sMusl ++ f ++ 10 :: (sVersionSp ++ dec M ++ 46 :: (dec m ++ junk))) = some (M, m) :=
  PlatL.musl_parse_render f hf M m junk hj

/-- the hypotheses are satisfiable by the loader's actual banner -/
example : (∀ x ∈ ofString " libc (x86_64)", isLineBreak x = false) ∧
    (∀ c, (ofString ".2\nDynamic Program Loader").head? = some c → isDigit c = false) := by decide

example : parseGlibcVersion (ofString "2.20-2014.11") = (2, 20) := by decide
example : parseMuslVersion (ofString "musl libc (x86_64)\nVersion 1.2.2\nDynamic Program Loader") = some (1, 2) := by decide

end C16
