import PkgModel.Platform
import PkgModel.Spec.Platform
namespace C16
end C16
