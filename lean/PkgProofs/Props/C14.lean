import PkgModel.Filenames
import PkgModel.Spec.Filenames
namespace C14
end C14
