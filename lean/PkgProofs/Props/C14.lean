import PkgModel.Filenames
import PkgModel.Spec.Filenames
import PkgProofs.Lemmas.Filenames
import PkgProofs.Lemmas.ScanStr
import PkgProofs.Props.C13.Dfa
/-!
# C14 — wheel and sdist filenames decode to what they encode; `parse_tag`; `Tag` case-insensitivity

The model (`PkgModel/Filenames.lean`) keeps the code's own string manipulation.  `Fn.parseWheel_spec`
(in `Lemmas/Filenames.lean`) first shows that, on **every** string, this manipulation is the positional
reading of the dash-free parts (`decodeParts`); the round trips and the rejection lemmas are read off it.
The character tables (`\w`-class of the name pattern, `\d` of the build pattern, complement of `.`, the
anchor kind, `str.lower`) are regenerated from the source / the interpreter; `Fn.tables_as_modelled`
pins what the proofs use of them.
-/
deriving instance DecidableEq for Except

namespace C14
open Py Fn

/-- a compressed tag set: at least one component, none containing `-` or `.` -/
def TagSetWF (l : List Str) : Prop := l ≠ [] ∧ ∀ x ∈ l, 45 ∉ x ∧ 46 ∉ x

/-- an optional build tag `(number, suffix)`: the suffix has no `-`, no newline and does not start with a digit -/
def BuildWF : Option (Nat × Str) → Prop
  | none => True
  | some (_, s) => 45 ∉ s ∧ 10 ∉ s ∧ ∀ c, s.head? = some c → isDigit c = false

/-- the cartesian product of the three tag sets, as `Tag`s -/
def product (py abi plat : List Str) : List Tag :=
  py.flatMap fun i => abi.flatMap fun a => plat.map fun p => mkTag i a p

theorem tagSet_no_dash (l : List Str) (h : TagSetWF l) : 45 ∉ FnSpec.tagSet l := by
  intro hm
  rcases mem_join [46] 45 l hm with h' | ⟨p, hp, hx⟩
  · simp at h'
  · exact (h.2 p hp).1 hx

theorem splitOn_tagSet (l : List Str) (h : TagSetWF l) : splitOn 46 (FnSpec.tagSet l) = l :=
  splitOn_join 46 l h.1 (fun p hp => (h.2 p hp).2)

theorem tagProduct_tagSets (py abi plat : List Str) (h1 : TagSetWF py) (h2 : TagSetWF abi) (h3 : TagSetWF plat) :
    tagProduct (FnSpec.tagSet py) (FnSpec.tagSet abi) (FnSpec.tagSet plat) = product py abi plat := by
  unfold tagProduct product
  rw [splitOn_tagSet py h1, splitOn_tagSet abi h2, splitOn_tagSet plat h3]

/-- the escaped form of a valid name passes the project-name test -/
theorem escaped_name_ok (name : Str) (h : NameSpec.validName name = true) :
    hasDunder (FnSpec.escapeName Names.lowerCp name) = false ∧ nameOk (FnSpec.escapeName Names.lowerCp name) = true := by
  rw [escapeName_eq]
  constructor
  · apply hasDunder_esc _ false
    rw [Names.canon_eq_collapse_lower]
    exact (Names.collapsed_collapseAux (Names.lower name)).2
  · rw [nameOk_all]
    simp only [List.all_map, List.all_eq_true, Function.comp]
    intro c hc
    have hv := C13.canon_valid name h
    simp only [NameSpec.validName, Bool.and_eq_true, List.all_eq_true] at hv
    have hok := hv.1.1 c hc
    have hlt : c < 128 := by
      simp only [NameSpec.alnum, NameSpec.isSep, isDigit, isLowerAscii, isUpperAscii, Bool.or_eq_true,
        Bool.and_eq_true, decide_eq_true_eq, beq_iff_eq] at hok
      omega
    exact nameChar_esc_ascii c hlt hok

/-- **wheel round trip**: the file name assembled per the binary-distribution format from a valid project
name, a well-formed version, an optional build tag and three tag sets is parsed back to the PEP 503 name,
the same version, the build pair and the cartesian product of the tag sets. -/
theorem wheel_roundtrip (name : Str) (v : V.Ver) (build : Option (Nat × Str)) (py abi plat : List Str)
    (hname : NameSpec.validName name = true) (hv : V.WF v) (hb : BuildWF build)
    (hpy : TagSetWF py) (habi : TagSetWF abi) (hplat : TagSetWF plat) :
    parseWheel (FnSpec.assembleWheel Names.lowerCp name v build py abi plat) =
      .ok ⟨Names.canon name, v, build, product py abi plat⟩ := by
  have hE := escapeName_no_dash name
  have hV := str_no_dash v hv
  have h1 := tagSet_no_dash py hpy
  have h2 := tagSet_no_dash abi habi
  have h3 := tagSet_no_dash plat hplat
  obtain ⟨hd, hok⟩ := escaped_name_ok name hname
  have hname' : (hasDunder (FnSpec.escapeName Names.lowerCp name) || !nameOk (FnSpec.escapeName Names.lowerCp name)) = false := by
    simp [hd, hok]
  unfold FnSpec.assembleWheel
  cases build with
  | none =>
    show parseWheel (join [45] [_, _, _, _, _] ++ whl) = _
    rw [parseWheel_five _ _ _ _ _ hE hV h1 h2 h3]
    simp only [decodeCore, hname', Bool.false_eq_true, ite_false, V.scan_str v hv, canon_escapeName,
      tagProduct_tagSets py abi plat hpy habi hplat]
  | some b =>
    obtain ⟨n, s⟩ := b
    simp only [BuildWF] at hb
    have hB : 45 ∉ dec n ++ s := by
      simp only [List.mem_append, not_or]; exact ⟨dec_no_dash n, hb.1⟩
    show parseWheel (join [45] [_, _, dec n ++ s, _, _, _] ++ whl) = _
    rw [parseWheel_six _ _ _ _ _ _ hE hV hB h1 h2 h3]
    simp only [decodeCore, hname', Bool.false_eq_true, ite_false, V.scan_str v hv, canon_escapeName,
      tagProduct_tagSets py abi plat hpy habi hplat, parseBuild_dec n s hb.2.2 hb.2.1]

/-- "exactly the cartesian product": membership in the parsed tag list -/
theorem mem_product (py abi plat : List Str) (t : Tag) :
    t ∈ product py abi plat ↔ ∃ i ∈ py, ∃ a ∈ abi, ∃ p ∈ plat, t = mkTag i a p := by
  simp only [product, List.mem_flatMap, List.mem_map]
  constructor
  · rintro ⟨i, hi, a, ha, p, hp, rfl⟩; exact ⟨i, hi, a, ha, p, hp, rfl⟩
  · rintro ⟨i, hi, a, ha, p, hp, rfl⟩; exact ⟨i, hi, a, ha, p, hp, rfl⟩

-- the hypotheses are satisfiable by a non-trivial value, and the theorem computes
example :
    parseWheel (FnSpec.assembleWheel Names.lowerCp (ofString "Foo.Bar_baz")
      ⟨1, [2, 0], some (.rc, 1), some 2, none, some [.str (ofString "abc"), .num 5]⟩ (some (7, ofString "_x"))
      [ofString "py2", ofString "PY3"] [ofString "none"] [ofString "any"]) =
    .ok ⟨ofString "foo-bar-baz", ⟨1, [2, 0], some (.rc, 1), some 2, none, some [.str (ofString "abc"), .num 5]⟩,
      some (7, ofString "_x"),
      [mkTag (ofString "py2") (ofString "none") (ofString "any"), mkTag (ofString "py3") (ofString "none") (ofString "any")]⟩ := by
  decide +kernel

/-! ### sdist -/

theorem endsWith_zip_not_targz (s : Str) : endsWith (s ++ zip) targz = false := by
  simp [endsWith, zip, targz, startsWith]

/-- **sdist round trip**: `{name part}-{version}{.tar.gz|.zip}` is parsed back to the PEP 503 name of the name
part — whatever spelling of the name the file uses, dashes included — and the same version. -/
theorem sdist_roundtrip (namePart : Str) (v : V.Ver) (ext : Str) (hv : V.WF v) (hext : ext = targz ∨ ext = zip) :
    parseSdist (FnSpec.assembleSdist namePart v ext) = .ok (Names.canon namePart, v) := by
  have hV := str_no_dash v hv
  unfold FnSpec.assembleSdist parseSdist
  rcases hext with rfl | rfl
  · have e1 : endsWith (namePart ++ [45] ++ v.str ++ targz) targz = true := endsWith_append _ _
    have e2 : (namePart ++ [45] ++ v.str ++ targz).take ((namePart ++ [45] ++ v.str ++ targz).length - 7)
        = namePart ++ 45 :: v.str := by
      have := take_append_suffix (namePart ++ [45] ++ v.str) targz
      simpa [targz] using this
    simp only [e1, ite_true, e2, rpartition_append 45 namePart v.str hV, V.scan_str v hv]
  · have e0 : endsWith (namePart ++ [45] ++ v.str ++ zip) targz = false := endsWith_zip_not_targz _
    have e1 : endsWith (namePart ++ [45] ++ v.str ++ zip) zip = true := endsWith_append _ _
    have e2 : (namePart ++ [45] ++ v.str ++ zip).take ((namePart ++ [45] ++ v.str ++ zip).length - 4)
        = namePart ++ 45 :: v.str := by
      have := take_append_suffix (namePart ++ [45] ++ v.str) zip
      simpa [zip] using this
    simp only [e0, e1, ite_true, Bool.false_eq_true, ite_false, e2, rpartition_append 45 namePart v.str hV,
      V.scan_str v hv]

/-- in particular for the escaped spelling of the source-distribution format -/
theorem sdist_roundtrip_escaped (name : Str) (v : V.Ver) (ext : Str) (hv : V.WF v) (hext : ext = targz ∨ ext = zip) :
    parseSdist (FnSpec.assembleSdist (FnSpec.escapeName Names.lowerCp name) v ext) = .ok (Names.canon name, v) := by
  rw [sdist_roundtrip _ v ext hv hext, canon_escapeName]

example : parseSdist (FnSpec.assembleSdist (ofString "Foo-Bar.baz") ⟨0, [1, 0], none, some 1, none, none⟩ targz)
    = .ok (ofString "foo-bar-baz", ⟨0, [1, 0], none, some 1, none, none⟩) := by decide +kernel

/-! ### tags -/

/-- `Tag.__eq__` is equality of the three lower-cased fields, whatever `hash` is -/
theorem tag_eq_iff (h : Str × Str × Str → Nat) (t u : Tag) : Tag.eq h t u = true ↔ t = u := by
  obtain ⟨i, a, p⟩ := t
  obtain ⟨i', a', p'⟩ := u
  simp only [Tag.eq, Tag.key, Bool.and_eq_true, beq_iff_eq, Tag.mk.injEq]
  constructor
  · rintro ⟨⟨⟨_, h3⟩, h2⟩, h1⟩; exact ⟨h1, h2, h3⟩
  · rintro ⟨rfl, rfl, rfl⟩; simp

/-- **Tag fields are case-insensitive**: two tags are equal (and have the same hash key) exactly when their
arguments agree after lower-casing; the stored fields are the lower-cased arguments -/
theorem tag_case_insensitive (i a p i' a' p' : Str) :
    (mkTag i a p = mkTag i' a' p' ↔
      Names.lower i = Names.lower i' ∧ Names.lower a = Names.lower a' ∧ Names.lower p = Names.lower p') ∧
    ((mkTag i a p).key = (mkTag i' a' p').key ↔ mkTag i a p = mkTag i' a' p') := by
  simp [mkTag, Tag.key]

theorem tag_fields_lower (i a p : Str) : mkTag (Names.lower i) (Names.lower a) (Names.lower p) = mkTag i a p := by
  simp [mkTag, Names.lower_idem]

example : mkTag (ofString "CP39") (ofString "Abi3") (ofString "MacOSX_10_9_X86_64") =
    mkTag (ofString "cp39") (ofString "abi3") (ofString "macosx_10_9_x86_64") := by decide
example : mkTag (ofString "cp39") (ofString "abi3") (ofString "any") ≠
    mkTag (ofString "cp39") (ofString "none") (ofString "any") := by decide

/-- lower-casing never creates a separator character -/
theorem lower_sep_mem (s : Str) (x : Nat) (hx : Names.isSep x = true) (h : x ∈ Names.lower s) : x ∈ s := by
  unfold Names.lower at h
  simp only [List.mem_flatMap] at h
  obtain ⟨c, hc, hxc⟩ := h
  cases hs : Names.isSep c
  · have := ((Names.good1_iff x).mp ((Names.lowerCp_nonsep c hs).2 x hxc)).1
    rw [hx] at this; exact absurd this (by simp)
  · rw [Names.lowerCp_sep c hs] at hxc
    simp only [List.mem_singleton] at hxc
    subst hxc; exact hc

/-- **`parse_tag(str(t)) == {t}`** for a tag whose arguments contain neither `-` nor `.` -/
theorem parse_tag_str (i a p : Str) (hi : 45 ∉ i ∧ 46 ∉ i) (ha : 45 ∉ a ∧ 46 ∉ a) (hp : 45 ∉ p ∧ 46 ∉ p) :
    parseTag (mkTag i a p).str = some [mkTag i a p] := by
  have nd : ∀ s : Str, 45 ∉ s → 45 ∉ Names.lower s := fun s h hm => h (lower_sep_mem s 45 (by decide) hm)
  have nt : ∀ s : Str, 46 ∉ s → 46 ∉ Names.lower s := fun s h hm => h (lower_sep_mem s 46 (by decide) hm)
  have hstr : (mkTag i a p).str = join [45] [Names.lower i, Names.lower a, Names.lower p] := by
    simp [Tag.str, mkTag, join, List.append_assoc]
  rw [hstr, parseTag_three _ _ _ (nd i hi.1) (nd a ha.1) (nd p hp.1)]
  unfold tagProduct
  rw [splitOn_nosep 46 _ (nt i hi.2), splitOn_nosep 46 _ (nt a ha.2), splitOn_nosep 46 _ (nt p hp.2)]
  simp [mkTag, Names.lower_idem]

example : parseTag (mkTag (ofString "PY3") (ofString "none") (ofString "Any")).str
    = some [mkTag (ofString "py3") (ofString "none") (ofString "any")] := by decide

/-! ### rejections — each damage kind yields `InvalidWheelFilename` / `InvalidSdistFilename` -/

/-- every failure of the model is one of the five `InvalidWheelFilename` sites: the bare `ValueError` of
`parse_tag` is unreachable from `parse_wheel_filename` -/
theorem decodeCore_ne_raw (n v : Str) (b : Option Str) (py abi plat : Str) :
    decodeCore n v b py abi plat ≠ .error .rawTag := by
  unfold decodeCore
  by_cases hname : (hasDunder n || !nameOk n) = true
  · simp [hname]
  · cases hs : V.scan v
    · simp [hname]
    · cases b with
      | none => simp [hname]
      | some bs => cases hb : parseBuild bs <;> simp [hname, hb]

theorem wheel_never_raw (f : Str) : parseWheel f ≠ .error .rawTag := by
  rw [parseWheel_spec]
  split
  · generalize splitOn 45 (f.take (f.length - 4)) = parts
    unfold decodeParts
    split
    · exact decodeCore_ne_raw _ _ _ _ _ _
    · exact decodeCore_ne_raw _ _ _ _ _ _
    · simp
  · simp

/-- wrong extension -/
theorem reject_wrong_extension (f : Str) (h : endsWith f whl = false) : parseWheel f = .error .ext := by
  rw [parseWheel_spec, h]; rfl

/-- wrong number of dash-separated parts -/
theorem reject_wrong_parts (stem : Str) (h4 : stem.count 45 ≠ 4) (h5 : stem.count 45 ≠ 5) :
    parseWheel (stem ++ whl) = .error .parts := by
  unfold parseWheel
  have : (stem.count 45 != 4 && stem.count 45 != 5) = true := by simp [h4, h5]
  simp only [endsWith_append, Bool.not_true, Bool.false_eq_true, ite_false, stem_eq, this, ite_true]

/-- the parts of a file name with the right extension and number of parts -/
def stemOf (n v : Str) (b : Option Str) (py abi plat : Str) : Str :=
  match b with
  | none => join [45] [n, v, py, abi, plat]
  | some b => join [45] [n, v, b, py, abi, plat]

theorem parse_stemOf (n v : Str) (b : Option Str) (py abi plat : Str) (hn : 45 ∉ n) (hv : 45 ∉ v)
    (hb : ∀ x, b = some x → 45 ∉ x) (h1 : 45 ∉ py) (h2 : 45 ∉ abi) (h3 : 45 ∉ plat) :
    parseWheel (stemOf n v b py abi plat ++ whl) = decodeCore n v b py abi plat := by
  cases b with
  | none => exact parseWheel_five n v py abi plat hn hv h1 h2 h3
  | some x => exact parseWheel_six n v x py abi plat hn hv (hb x rfl) h1 h2 h3

/-- non-escaped project name: a `__`, or a character outside the project-name class -/
theorem reject_bad_name (n v : Str) (b : Option Str) (py abi plat : Str) (hn : 45 ∉ n) (hv : 45 ∉ v)
    (hb : ∀ x, b = some x → 45 ∉ x) (h1 : 45 ∉ py) (h2 : 45 ∉ abi) (h3 : 45 ∉ plat)
    (hbad : hasDunder n = true ∨ ∃ c ∈ n, nameChar c = false) :
    parseWheel (stemOf n v b py abi plat ++ whl) = .error .name := by
  rw [parse_stemOf n v b py abi plat hn hv hb h1 h2 h3]
  have : (hasDunder n || !nameOk n) = true := by
    rcases hbad with h | ⟨c, hc, hcn⟩
    · simp [h]
    · have : nameOk n = false := by
        rw [nameOk_all]
        cases hh : n.all nameChar
        · rfl
        · rw [List.all_eq_true] at hh; rw [hh c hc] at hcn; exact absurd hcn (by simp)
      simp [this]
  simp [decodeCore, this]

/-- invalid version -/
theorem reject_bad_version (n v : Str) (b : Option Str) (py abi plat : Str) (hn : 45 ∉ n) (hv : 45 ∉ v)
    (hb : ∀ x, b = some x → 45 ∉ x) (h1 : 45 ∉ py) (h2 : 45 ∉ abi) (h3 : 45 ∉ plat)
    (hbad : V.scan v = none) :
    ∃ e, parseWheel (stemOf n v b py abi plat ++ whl) = .error e ∧ (e = .name ∨ e = .version) := by
  rw [parse_stemOf n v b py abi plat hn hv hb h1 h2 h3]
  unfold decodeCore
  split
  · exact ⟨_, rfl, Or.inl rfl⟩
  · simp only [hbad]; exact ⟨_, rfl, Or.inr rfl⟩

/-- a build tag that does not start with an (ASCII) digit — the empty build tag included -/
theorem reject_bad_build (n v bt py abi plat : Str) (hn : 45 ∉ n) (hv : 45 ∉ v) (hb : 45 ∉ bt)
    (h1 : 45 ∉ py) (h2 : 45 ∉ abi) (h3 : 45 ∉ plat)
    (hbad : ∀ c, bt.head? = some c → isDigit c = false) :
    ∃ e, parseWheel (stemOf n v (some bt) py abi plat ++ whl) = .error e ∧ (e = .name ∨ e = .version ∨ e = .build) := by
  rw [parse_stemOf n v (some bt) py abi plat hn hv (by intro x hx; cases hx; exact hb) h1 h2 h3]
  unfold decodeCore
  split
  · exact ⟨_, rfl, Or.inl rfl⟩
  · split
    · exact ⟨_, rfl, Or.inr (Or.inl rfl)⟩
    · simp only [parseBuild_none bt hbad]; exact ⟨_, rfl, Or.inr (Or.inr rfl)⟩

example : parseWheel (ofString "foo-1.0-x1-py3-none-any.whl") = .error .build := by decide +kernel
example : parseWheel (ofString "foo-1.0-py3-none-any.zip") = .error .ext := by decide +kernel
example : parseWheel (ofString "foo-1.0-py3-none.whl") = .error .parts := by decide +kernel
example : parseWheel (ofString "foo__bar-1.0-py3-none-any.whl") = .error .name := by decide +kernel
example : parseWheel (ofString "foo\n-1.0-py3-none-any.whl") = .error .name := by decide +kernel
example : parseWheel (ofString "foo-1.0.x-py3-none-any.whl") = .error .version := by decide +kernel
example : parseWheel ((ofString "foo-1.0-") ++ [0x661] ++ (ofString "-py3-none-any.whl")) = .error .build := by
  decide +kernel

/-- sdist: wrong extension -/
theorem sdist_reject_extension (f : Str) (h1 : endsWith f targz = false) (h2 : endsWith f zip = false) :
    parseSdist f = .error .ext := by
  simp [parseSdist, h1, h2]

/-- sdist: no dash between name and version -/
theorem sdist_reject_no_dash (stem ext : Str) (hext : ext = targz ∨ ext = zip) (h : 45 ∉ stem) :
    parseSdist (stem ++ ext) = .error .nodash := by
  unfold parseSdist
  rcases hext with rfl | rfl
  · have e2 : (stem ++ targz).take ((stem ++ targz).length - 7) = stem := by
      simp [targz]
    simp only [endsWith_append, ite_true, e2, rpartition_nosep 45 stem h]
  · have e2 : (stem ++ zip).take ((stem ++ zip).length - 4) = stem := by
      simp [zip]
    simp only [endsWith_zip_not_targz, endsWith_append, ite_true, Bool.false_eq_true, ite_false, e2,
      rpartition_nosep 45 stem h]

/-- sdist: invalid version after the last dash -/
theorem sdist_reject_version (namePart vs ext : Str) (hext : ext = targz ∨ ext = zip) (hv : 45 ∉ vs)
    (hbad : V.scan vs = none) : parseSdist (namePart ++ 45 :: vs ++ ext) = .error .version := by
  unfold parseSdist
  rcases hext with rfl | rfl
  · have e2 : (namePart ++ 45 :: vs ++ targz).take ((namePart ++ 45 :: vs ++ targz).length - 7) = namePart ++ 45 :: vs := by
      have := take_append_suffix (namePart ++ 45 :: vs) targz; simpa [targz] using this
    simp only [endsWith_append, ite_true, e2, rpartition_append 45 namePart vs hv, hbad]
  · have e2 : (namePart ++ 45 :: vs ++ zip).take ((namePart ++ 45 :: vs ++ zip).length - 4) = namePart ++ 45 :: vs := by
      have := take_append_suffix (namePart ++ 45 :: vs) zip; simpa [zip] using this
    simp only [endsWith_zip_not_targz, endsWith_append, ite_true, Bool.false_eq_true, ite_false, e2,
      rpartition_append 45 namePart vs hv, hbad]

example : parseSdist (ofString "foo-1.0.tgz") = .error .ext := by decide
example : parseSdist (ofString "foo_1.0.zip") = .error .nodash := by decide
example : parseSdist (ofString "foo-bar.tar.gz") = .error .version := by decide +kernel

end C14
