import PkgProofs.Props.C08
import PkgProofs.Props.C12Scan
/-!
# C12, last sentence — a clause inside a requirement string and `Specifier`

"… and a clause is accepted inside a requirement string exactly when `Specifier` accepts it."

Both directions are corollaries of the C08 parser theorems (the SPECIFIER token rule is the regenerated
`Gen.ReqTok`; `C08.Examples.specifier_rule_tied` says its text is the body of `Specifier._regex`, the pattern whose language the
certificates of `C12.specifier_language` fix):

* `specifier_clause_accepted_in_requirement` (⇐): every clause `Specifier` accepts — in any spelling, with any white
  space after the operator — is accepted behind any project name, in a bare or a parenthesised list, and the requirement
  holds exactly the member `Specifier` reads (`S.parseSpec`).  Excluded, as in `C08.parse_render`: an `===` text that is
  empty or contains a comma (finding F48; inside a requirement a comma ends the clause).
* `requirement_members_are_specifier_clauses` (⇒): whatever text `Requirement` accepted, every member of its specifier
  set is what `Specifier` reads from one of the comma-separated pieces of the clause text the parser collected, so a
  clause `Specifier` rejects is never a member; and `rejected_clause_rejects_requirement`: if `Specifier` rejects one of
  the pieces, the requirement is rejected.

Partial: that the collected clause text (`Parsed.specifier`) is the *substring* of the source between the name/extras
and the marker is proved for layouts (`ReqLayout.parseSource_layout`), not for arbitrary rejected texts; there the link
is the `clause_in_requirement_iff_specifier` law and the `parse` correspondence of C08.
-/
namespace C12
open Py Mk Req ReqLex ReqParse ReqL ReqRound ReqWf ReqLayout

/-- the requirement `name <w> clause` -/
def bareLayout (name w : Str) (c : Cl) : Layout :=
  { w0 := [], name := name, w1 := w, extras := none, details := .spec (.bare (some (c, [], []))) none }

/-- the requirement `name <w> ( <w2> clause <w3> )` -/
def parenLayout (name w w2 w3 : Str) (c : Cl) : Layout :=
  { w0 := [], name := name, w1 := w, extras := none, details := .spec (.paren w2 (some (c, [], w3)) []) none }

theorem bareLayout_ok (name w : Str) (c : Cl) (hn : IdentOK name) (hw : WsRun w) (hc : ClOK c) :
    (bareLayout name w c).OK := by
  refine ⟨?_, hn, hw, trivial, ?_⟩
  · intro d hd; cases hd
  · exact ⟨hc, trivial, by intro d hd; cases hd⟩

theorem parenLayout_ok (name w w2 w3 : Str) (c : Cl) (hn : IdentOK name) (hw : WsRun w) (hw2 : WsRun w2)
    (hw3 : WsRun w3) (hc : ClOK c) : (parenLayout name w w2 w3 c).OK := by
  refine ⟨?_, hn, hw, trivial, ?_⟩
  · intro d hd; cases hd
  · exact ⟨hw2, ⟨hc, trivial, hw3⟩, by intro d hd; cases hd⟩

/-- what the requirement must hold: the name and the one member `Specifier` reads from the clause -/
def expected (name : Str) (c : Cl) : Requirement :=
  { name := name, url := none, extras := [], spec := specSet [⟨c.op, c.ver⟩], marker := none }

/-- **(⇐) a clause `Specifier` accepts is accepted inside a requirement string**, bare … -/
theorem specifier_clause_accepted_in_requirement (name w : Str) (c : Cl) (hn : IdentOK name) (hw : WsRun w)
    (hc : ClOK c) :
    Req.parse (name ++ (w ++ c.text)) = .ok (expected name c) := by
  have h := ReqLayout.parse_render (bareLayout name w c) (bareLayout_ok name w c hn hw hc) none
    (by intro mt hmt; simp [bareLayout, DetailsL.mtext] at hmt) (fun _ => rfl)
  simpa [bareLayout, Layout.render, Layout.sem, extrasText, DetailsL.text, SpecL.text, clText, clTail, markText,
    DetailsL.url?, extrasNames, clSpecs, SpecL.list, expected, dedup] using h

/-- … **and parenthesised**, with any white space inside the parentheses -/
theorem specifier_clause_accepted_in_parentheses (name w w2 w3 : Str) (c : Cl) (hn : IdentOK name) (hw : WsRun w)
    (hw2 : WsRun w2) (hw3 : WsRun w3) (hc : ClOK c) :
    Req.parse (name ++ (w ++ 40 :: (w2 ++ (c.text ++ (w3 ++ [41]))))) = .ok (expected name c) := by
  have h := ReqLayout.parse_render (parenLayout name w w2 w3 c) (parenLayout_ok name w w2 w3 c hn hw hw2 hw3 hc) none
    (by intro mt hmt; simp [parenLayout, DetailsL.mtext] at hmt) (fun _ => rfl)
  simpa [parenLayout, Layout.render, Layout.sem, extrasText, DetailsL.text, SpecL.text, clText, clTail, markText,
    DetailsL.url?, extrasNames, clSpecs, SpecL.list, expected, dedup] using h

/-- **(⇒) the members of an accepted requirement's specifier set are clauses `Specifier` accepts**: each is what
`S.parseSpec` (the scanner `C12.parseSpec_accepts_iff_source_regex` ties to `Specifier._regex`) reads from one of the
comma-separated pieces of the clause text the parser collected from the source. -/
theorem requirement_members_are_specifier_clauses (src : Str) (r : Requirement) (h : Req.parse src = .ok r) :
    ∃ P, parseSource src = .ok P ∧ ∀ sp ∈ r.spec, ∃ c ∈ SSet.clauses P.specifier, S.parseSpec c = some sp := by
  obtain ⟨P, spec, hP, hs, _, _, _, hspec, _⟩ := parse_inv src r h
  refine ⟨P, hP, ?_⟩
  intro sp hsp
  rw [hspec] at hsp
  exact (members_roundtrip _ _ hs sp hsp).2

theorem parseAll_none_of_mem {l : List Str} {c : Str} (hc : c ∈ l) (hn : S.parseSpec c = none) :
    SSet.parseAll l = none := by
  induction l with
  | nil => cases hc
  | cons d ds ih =>
    rcases List.mem_cons.mp hc with rfl | hmem
    · simp [SSet.parseAll, hn]
    · cases hd : S.parseSpec d with
      | none => simp [SSet.parseAll, hd]
      | some sp => simp [SSet.parseAll, hd, ih hmem]

/-- **(⇒, contrapositive) a clause `Specifier` rejects makes the requirement rejected**: if one of the comma-separated
pieces of the clause text the parser collected is not a `Specifier` clause, `Requirement(src)` raises. -/
theorem rejected_clause_rejects_requirement (src : Str) (P : Parsed) (hP : parseSource src = .ok P) (c : Str)
    (hc : c ∈ SSet.clauses P.specifier) (hn : S.parseSpec c = none) : ∀ r, Req.parse src ≠ .ok r := by
  intro r h
  obtain ⟨P', spec, hP', hs, _⟩ := parse_inv src r h
  rw [hP] at hP'; cases hP'
  obtain ⟨sps, hall, _⟩ := mkSpecSet_inv _ _ hs
  have hnone : SSet.parseAll (SSet.clauses P.specifier) = none := parseAll_none_of_mem hc hn
  exact absurd (hnone.symm.trans hall) (by simp)

/-- … stated with the pattern regenerated from the working tree: a piece of the collected clause text that
`Specifier._regex` (as `Gen.SpecifierRx.rx`, through the verified matcher) does not accept makes `Requirement(src)` raise -/
theorem source_regex_rejects_then_requirement_rejects (src : Str) (P : Parsed) (hP : parseSource src = .ok P) (c : Str)
    (hc : c ∈ SSet.clauses P.specifier) (hu : ∀ cp ∈ c, cp < 0x110000)
    (hr : Rx.accepts Gen.SpecifierRx.ranges Gen.SpecifierRx.rx c = false) : ∀ r, Req.parse src ≠ .ok r := by
  have h := C12.parseSpec_accepts_iff_source_regex c hu
  rw [hr] at h
  have hn : S.parseSpec c = none := by
    cases hp : S.parseSpec c with
    | none => rfl
    | some sp => rw [hp] at h; cases h
  exact rejected_clause_rejects_requirement src P hP c hc hn

/-- … and every member of an accepted requirement was read from a piece the regenerated pattern accepts -/
theorem requirement_members_match_source_regex (src : Str) (r : Requirement) (h : Req.parse src = .ok r) :
    ∃ P, parseSource src = .ok P ∧ ∀ sp ∈ r.spec, ∃ c ∈ SSet.clauses P.specifier, S.parseSpec c = some sp ∧
      ((∀ cp ∈ c, cp < 0x110000) → Rx.accepts Gen.SpecifierRx.ranges Gen.SpecifierRx.rx c = true) := by
  obtain ⟨P, hP, hm⟩ := requirement_members_are_specifier_clauses src r h
  refine ⟨P, hP, fun sp hsp => ?_⟩
  obtain ⟨c, hc, hp⟩ := hm sp hsp
  refine ⟨c, hc, hp, fun hu => ?_⟩
  have := C12.parseSpec_accepts_iff_source_regex c hu
  rw [hp] at this
  exact this.symm

/-! the hypotheses are satisfiable: `name >= 1.0` / `name ( ~= 1.0a1 )`, and a rejected piece -/
def exCl : Cl := ⟨.ge, [32], ofString "1.0"⟩
theorem exCl_ok : ClOK exCl := by
  refine ⟨?_, by decide +kernel, by decide, by intro h; cases h⟩
  show WsRun [32]
  exact C08.Examples.wsRun_sp
example : Req.parse (ofString "name >= 1.0") = .ok (expected (ofString "name") exCl) :=
  specifier_clause_accepted_in_requirement (ofString "name") [32] exCl
    (C08.Examples.identOK_of _ 110 _ rfl (by decide) (by decide) (by decide)) C08.Examples.wsRun_sp exCl_ok
example : (parseSource (ofString "name ===1.0,abc")).toOption.map (fun P => SSet.clauses P.specifier) =
    some [ofString "===1.0", ofString "abc"] ∧ S.parseSpec (ofString "abc") = none := by decide +kernel

end C12
