import PkgModel.Spec.Pep440Rx
import PkgModel.Generated.VersionRx
import PkgModel.Generated.SpecifierRx
import PkgProofs.Lemmas.RxSound
import PkgProofs.Props.C12.Version
import PkgProofs.Props.C12.Op0
import PkgProofs.Props.C12.Op1
import PkgProofs.Props.C12.Op2
import PkgProofs.Props.C12.Op3
import PkgProofs.Props.C12.Op4
import PkgProofs.Props.C12.Op5
import PkgProofs.Props.C12.Op6
import PkgProofs.Props.C12.Op7
/-!
# C12 — the accepted version and specifier languages are exactly PEP 440's

`Gen.VersionRx` / `Gen.SpecifierRx` are regenerated from `Version._regex` / `Specifier._regex` of the
working tree on every run (atoms measured from CPython's `re` over all code points).  The theorems
below are therefore re-checked against what the source says now; they decide acceptance for **all
finite strings over Unicode** through the finite class partition, not by sampling.
-/
namespace C12
open Rx

/-! ### the generated class tables tile the code space and carry the spec's character kinds -/
theorem version_classes_verified :
    Kinds.consistent Kinds.kindCI Gen.VersionRx.nClasses Gen.VersionRx.kinds Gen.VersionRx.ranges = true := by
  decide +kernel

theorem specifier_classes_verified :
    Kinds.consistent Kinds.kindCI Gen.SpecifierRx.nClasses Gen.SpecifierRx.kinds Gen.SpecifierRx.ranges = true := by
  decide +kernel

theorem translator_supported : Gen.VersionRx.supported = true ∧ Gen.SpecifierRx.supported = true := by decide

/-! ### bisimulation certificates

`C12.version_cert` and `C12.op0_cert … op7_cert` (one module each, kernel-evaluated in parallel) state
`equiv1 … = true`: a fuel-bounded search for a bisimulation between the generated and the spec regex
succeeded; `Rx.equiv1_sound` turns that into language equality. -/

theorem operators_are_pep440s :
    Gen.SpecifierRx.nOps = 8 ∧ Gen.SpecifierRx.opNames = Pep440Rx.specOps := by decide

/-- the generated specifier regex is the union of its per-operator parts, and so is the spec -/
theorem specifier_union (w : List Nat) (hw : ∀ c ∈ w, c < Gen.SpecifierRx.nClasses) :
    Matches Gen.SpecifierRx.rx w ↔ Matches (Pep440Rx.specifier Gen.SpecifierRx.kinds) w := by
  have h0 := equiv1_sound op0_cert w hw
  have h1 := equiv1_sound op1_cert w hw
  have h2 := equiv1_sound op2_cert w hw
  have h3 := equiv1_sound op3_cert w hw
  have h4 := equiv1_sound op4_cert w hw
  have h5 := equiv1_sound op5_cert w hw
  have h6 := equiv1_sound op6_cert w hw
  have h7 := equiv1_sound op7_cert w hw
  have hn := operators_are_pep440s.2
  simp only [hn, Pep440Rx.specOps, List.getD_cons_zero, List.getD_cons_succ] at h0 h1 h2 h3 h4 h5 h6 h7
  simp only [Gen.SpecifierRx.rx, Pep440Rx.specifier, Pep440Rx.specOps, List.map, Kinds.alts, m_alt,
    h0, h1, h2, h3, h4, h5, h6, h7]

/-! ### the property -/

/-- `Version` accepts a string iff it is in the PEP 440 Appendix B language — every string of code points. -/
theorem version_language (s : List Nat) (hs : ∀ cp ∈ s, cp < 0x110000) :
    accepts Gen.VersionRx.ranges Gen.VersionRx.rx s =
    accepts Gen.VersionRx.ranges (Pep440Rx.version Gen.VersionRx.kinds) s := by
  have ht : tiles Gen.VersionRx.nClasses 0 Gen.VersionRx.ranges = true := by
    have := version_classes_verified
    simp only [Kinds.consistent, Bool.and_eq_true] at this; exact this.1.2
  exact accepts_congr1 ht version_cert s hs

/-- `Specifier` accepts a string iff it is one operator followed by a form that operator permits. -/
theorem specifier_language (s : List Nat) (hs : ∀ cp ∈ s, cp < 0x110000) :
    accepts Gen.SpecifierRx.ranges Gen.SpecifierRx.rx s =
    accepts Gen.SpecifierRx.ranges (Pep440Rx.specifier Gen.SpecifierRx.kinds) s := by
  have ht : tiles Gen.SpecifierRx.nClasses 0 Gen.SpecifierRx.ranges = true := by
    have := specifier_classes_verified
    simp only [Kinds.consistent, Bool.and_eq_true] at this; exact this.1.2
  obtain ⟨w, hw, hall⟩ := classify_total ht s hs
  simp only [accepts, hw]
  have := specifier_union w hall
  rw [← matchB_iff, ← matchB_iff] at this
  cases h1 : matchB Gen.SpecifierRx.rx w <;>
    cases h2 : matchB (Pep440Rx.specifier Gen.SpecifierRx.kinds) w <;> simp_all

/-- the same statements on class words, in terms of the declarative semantics -/
theorem version_language_matches (w : List Nat) (hw : ∀ c ∈ w, c < Gen.VersionRx.nClasses) :
    Matches Gen.VersionRx.rx w ↔ Matches (Pep440Rx.version Gen.VersionRx.kinds) w :=
  equiv1_sound version_cert w hw

theorem specifier_language_matches (w : List Nat) (hw : ∀ c ∈ w, c < Gen.SpecifierRx.nClasses) :
    Matches Gen.SpecifierRx.rx w ↔ Matches (Pep440Rx.specifier Gen.SpecifierRx.kinds) w :=
  specifier_union w hw

end C12
