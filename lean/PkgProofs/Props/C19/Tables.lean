import PkgModel.License
import PkgModel.Spec.Spdx
/-!
# C19 — facts about the regenerated tables (kernel-evaluated on every change of the source)
-/
namespace C19
open Py Lic

abbrev Entry := Gen.SpdxTables.Entry

/-- characters an SPDX identifier in the tables may consist of: `[A-Za-z0-9.+-]` -/
def idChar (c : Nat) : Bool := isAlnumAscii c || c == 46 || c == 45 || c == 43

/-- per entry: the key is the ASCII lower-case of the id; the id is non-empty and has only identifier
characters (so no space, no parenthesis, no non-ASCII); the key is not an operator word and does not
start with `licenseref-` -/
def entryOk (e : Entry) : Bool :=
  e.1 == lowerStr e.2.1 && !e.2.1.isEmpty && e.2.1.all idChar &&
  !(e.1 == kOr || e.1 == kAnd || e.1 == kWith) && !startsWith e.1 kRefLower

def keys (t : List Entry) : List Str := t.map (·.1)

def distinct : List Str → Bool
  | [] => true
  | k :: ks => !ks.contains k && distinct ks

/-- strictly increasing in code-point order -/
def increasing : List Str → Bool
  | a :: b :: r => strLt a b && increasing (b :: r)
  | _ => true

/-- keys are distinct: checked in linear time when the table is sorted (it is, today), pairwise otherwise -/
def distinctKeys (ks : List Str) : Bool := increasing ks || distinct ks

/-- a licence key ending in `+` is a shorter key plus `+`, and so is its id (the code strips one `+`
before the look-up, the statement reads `X+` as an identifier of its own) -/
def plusClosed (t : List Entry) : Bool :=
  t.all fun e => !(endsWith e.1 [43]) ||
    (match t.lookup e.1.dropLast with
     | some (id, _) => id ++ [43] == e.2.1
     | none => false)

/-- exception ids never end in `+` -/
def noPlusEnd (t : List Entry) : Bool := t.all fun e => !(endsWith e.1 [43])

theorem licenses_entries_ok : Gen.SpdxTables.licenses.all entryOk = true := by decide +kernel
theorem exceptions_entries_ok : Gen.SpdxTables.exceptions.all entryOk = true := by decide +kernel
theorem licenses_distinct : distinctKeys (keys Gen.SpdxTables.licenses) = true := by decide +kernel
theorem exceptions_distinct : distinctKeys (keys Gen.SpdxTables.exceptions) = true := by decide +kernel
theorem licenses_plus_closed : plusClosed Gen.SpdxTables.licenses = true := by decide +kernel

/-- the one hand-modelled regular expression is the one in the source: `^[A-Za-z0-9.-]+$`, flags `re.UNICODE` -/
theorem refPattern_is_modelled :
    Gen.SpdxTables.licenseRefPattern = [94, 91, 65, 45, 90, 97, 45, 122, 48, 45, 57, 46, 45, 93, 43, 36] ∧
    Gen.SpdxTables.licenseRefFlags = 32 := by decide

/-- `str.translate(_ASCII_LOWER)` is `Py.lowerStr`: the table maps exactly `A`–`Z` to `a`–`z` -/
theorem asciiLower_is_modelled :
    (Gen.SpdxTables.asciiLowerMap.all fun p => isUpperAscii p.1 && p.2 == p.1 + 32) = true ∧
    ((List.range 26).all fun i => Gen.SpdxTables.asciiLowerMap.lookup (65 + i) == some (97 + i)) = true := by
  decide +kernel

end C19
