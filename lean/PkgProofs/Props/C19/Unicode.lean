import PkgModel.License
/-!
# C19 — facts about the interpreter's white-space table (`str.isspace`), kernel-evaluated
-/
namespace C19
open Py Lic

/-- the white-space table contains the ASCII separators, no parenthesis, no ASCII letter/digit/`.`/`-`/`+` -/
theorem spaces_ok :
    isSpace 32 = true ∧ isSpace 9 = true ∧ isSpace 10 = true ∧ isSpace 40 = false ∧ isSpace 41 = false ∧
    (Gen.SpdxUnicode.spaces.all fun c => !(isAlnumAscii c || c == 46 || c == 45 || c == 43)) = true := by decide +kernel

end C19
