import PkgModel.License
/-!
# C19 — facts about the interpreter's Unicode slices (`str.isspace`, `str.lower`), kernel-evaluated
-/
namespace C19
open Py Lic

/-! ### the interpreter's Unicode slices -/

/-- every non-ASCII entry of the `str.lower` table: the source is ≥ 128 and is not white space; the image
contains no white space, no parenthesis, and — except for U+212A KELVIN SIGN, whose image is `k` — at
least one non-ASCII code point -/
def lowerEntryOk (p : Nat × List Nat) : Bool :=
  128 ≤ p.1 && !isSpace p.1 && !p.2.isEmpty &&
  p.2.all (fun c => !isSpace c && c != 40 && c != 41) &&
  (p.2.any (fun c => 128 ≤ c) || (p.1 == 0x212A && p.2 == [107]))

theorem lower_table_ok : Gen.SpdxUnicode.lower.all lowerEntryOk = true := by decide +kernel

/-- the white-space table contains the ASCII separators, no parenthesis, no ASCII letter/digit/`.`/`-`/`+` -/
theorem spaces_ok :
    isSpace 32 = true ∧ isSpace 9 = true ∧ isSpace 10 = true ∧ isSpace 40 = false ∧ isSpace 41 = false ∧
    (Gen.SpdxUnicode.spaces.all fun c => !(isAlnumAscii c || c == 46 || c == 45 || c == 43)) = true := by decide +kernel

end C19
