import PkgProofs.Props.C03
/-! # C04 — specifier operators obey their algebraic laws -/
namespace C04
end C04
