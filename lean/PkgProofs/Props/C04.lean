import PkgProofs.Props.C03
import PkgProofs.Lemmas.AdmitsLaws
/-!
# C04 — specifier operators obey their algebraic laws

The ten laws of the statement, as theorems about the model's comparison functions (`S.compare…`, the code
paths of `Specifier._compare_*`), for every candidate `scan` can return and every clause text the grammar
admits.  They are obtained from the refinement lemmas of C03 (model = `Pep440.admits`) and the corresponding
laws of `Pep440.admits` (`Lemmas/AdmitsLaws.lean`); law 1 holds by the very definition of `_compare_not_equal`.
`===` is exempt from laws 3 and 4 (it is string equality: `===1.0` must tell `1.0` from `1.0.0` and from `1.0+x`).
-/
namespace C04
open V Py S Pep440 C03

/-- 1. `!=V` matches exactly what `==V` does not (with or without `.*`, whatever the text) -/
theorem ne_is_not_eq (c : Ver) (raw : Str) :
    compareNotEqual c raw = (compareEqual c raw).map (fun b => !b) := by
  simp only [compareNotEqual, bind, Except.bind, pure, Except.pure, Except.map]

/-- the text of the `==P.*` clause that `~=V` stands for: V's epoch and release minus its last component -/
def prefixText (v : Ver) : Str := dec v.epoch ++ [33] ++ renderRelease v.release.dropLast ++ [46, 42]

/-- 2. `~=V` matches exactly the intersection of `>=V` and the corresponding `==` prefix match -/
theorem compat_is_ge_and_prefix (c v : Ver) (raw : Str) (wc : WF c) (hv : scan raw = some v)
    (hloc : v.loc = none) (h2 : 2 ≤ v.release.length) :
    ∃ a b, compareGE c raw = .ok a ∧ compareEqual c (prefixText v) = .ok b ∧
      compareCompatible c raw = .ok (a && b) := by
  obtain ⟨r0, ns, hr⟩ : ∃ r0 ns, v.release.dropLast = r0 :: ns := by
    cases h : v.release.dropLast with
    | nil => have := congrArg List.length h; simp at this; omega
    | cons a as => exact ⟨a, as, rfl⟩
  have hp := scan_epoch_release v.epoch r0 ns
  have hw := eq_wild_eq_spec c _ _ wc hp ⟨rfl, rfl, rfl, rfl⟩
  refine ⟨admits .ge v false raw c,
    admits .eq ⟨v.epoch, r0 :: ns, none, none, none, none⟩ true
      (dec v.epoch ++ [33] ++ renderRelease (r0 :: ns) ++ [46, 42]) c,
    ge_eq_spec c v raw wc hv, ?_, ?_⟩
  · simp only [prefixText, hr]; exact hw
  · rw [compat_eq_spec c v raw wc hv hloc h2,
      AL.compat_split v raw (dec v.epoch ++ [33] ++ renderRelease (r0 :: ns) ++ [46, 42]) c, hr]

/-- 3. candidates that compare equal (other spelling, trailing zeros) get the same answer from every operator
other than `===` -/
theorem respects_version_eq (sp : Spec) (v : Ver) (wild : Bool) (hcl : Clause sp v wild) (hop : sp.op ≠ .arbitrary)
    (c c' : Ver) (wc : WF c) (wc' : WF c') (h : c.eq c' = true) : sp.compare c = sp.compare c' := by
  rw [compare_eq_spec sp v wild c hcl wc, compare_eq_spec sp v wild c' hcl wc',
    AL.admits_key sp.op hop v wild sp.ver c c' ((C01.eq_iff_key_eq c c').mp h)]

/-- 4. a clause without local label gives the same answer for a candidate with and without its local label
(every operator other than `===`) -/
theorem local_blind (sp : Spec) (v : Ver) (wild : Bool) (hcl : Clause sp v wild) (hop : sp.op ≠ .arbitrary)
    (hloc : v.loc = none) (c : Ver) (wc : WF c) : sp.compare c = sp.compare (pub c) := by
  rw [compare_eq_spec sp v wild c hcl wc, compare_eq_spec sp v wild (pub c) hcl (wf_pub c wc),
    AL.admits_local_blind sp.op hop v hloc wild sp.ver c]

theorem pub_le_pub (c c' : Ver) (h : c.le c' = true) : (pub c).le (pub c') = true := by
  rw [le_cmp] at h ⊢
  rw [AL.cmp_split c c'] at h
  revert h; cases cmp (pub c) (pub c') <;> simp [isGT, Ordering.then]

/-- 5. `>=V` is upward closed in the version order -/
theorem ge_up_closed (c c' v : Ver) (raw : Str) (wc : WF c) (wc' : WF c') (hv : scan raw = some v)
    (hm : compareGE c raw = .ok true) (hle : c.le c' = true) : compareGE c' raw = .ok true := by
  rw [ge_eq_spec c v raw wc hv] at hm
  rw [ge_eq_spec c' v raw wc' hv]
  congr 1
  have h1 : admits .ge v false raw c = true := by injection hm
  simp only [admits] at h1 ⊢
  rw [← ge_cmp] at h1 ⊢
  have hvle : v.le (pub c) = true := by rw [← (C01.le_total_preorder.2.2.2.2.1 (pub c) v)]; exact h1
  have := C01.le_total_preorder.2.1 v (pub c) (pub c') hvle (pub_le_pub c c' hle)
  rw [C01.le_total_preorder.2.2.2.2.1 (pub c') v]; exact this

/-- 6. `<=V` is downward closed in the version order -/
theorem le_down_closed (c c' v : Ver) (raw : Str) (wc : WF c) (wc' : WF c') (hv : scan raw = some v)
    (hm : compareLE c' raw = .ok true) (hle : c.le c' = true) : compareLE c raw = .ok true := by
  rw [le_eq_spec c' v raw wc' hv] at hm
  rw [le_eq_spec c v raw wc hv]
  congr 1
  have h1 : admits .le v false raw c' = true := by injection hm
  simp only [admits] at h1 ⊢
  rw [← le_cmp] at h1 ⊢
  exact C01.le_total_preorder.2.1 (pub c) (pub c') v (pub_le_pub c c' hle) h1

/-- 7. `>=V` and `<=V` together cover every version -/
theorem ge_or_le (c v : Ver) (raw : Str) (wc : WF c) (hv : scan raw = some v) :
    ∃ a b, compareGE c raw = .ok a ∧ compareLE c raw = .ok b ∧ (a || b) = true :=
  ⟨_, _, ge_eq_spec c v raw wc hv, le_eq_spec c v raw wc hv, AL.ge_or_le v raw c⟩

/-- 8. `<V` is contained in `<=V` -/
theorem lt_sub_le (c v : Ver) (raw : Str) (wc : WF c) (hv : scan raw = some v)
    (hm : compareLT c raw = .ok true) : compareLE c raw = .ok true := by
  rw [lt_eq_spec c v raw wc hv] at hm
  rw [le_eq_spec c v raw wc hv]
  congr 1
  exact AL.lt_sub_le v raw c (by injection hm)

/-- 9. `>V` is contained in `>=V` -/
theorem gt_sub_ge (c v : Ver) (raw : Str) (wc : WF c) (hv : scan raw = some v) (hloc : v.loc = none)
    (hm : compareGT c raw = .ok true) : compareGE c raw = .ok true := by
  rw [gt_eq_spec c v raw wc hv] at hm
  rw [ge_eq_spec c v raw wc hv]
  congr 1
  exact AL.gt_sub_ge v hloc raw c (by injection hm)

/-- 10. `<V` and `>V` never match V (in any spelling) or a local version of V -/
theorem lt_gt_exclude_V_and_its_locals (c v : Ver) (raw : Str) (wc : WF c) (hv : scan raw = some v)
    (hloc : v.loc = none) (hV : (pub c).eq v = true) :
    compareLT c raw = .ok false ∧ compareGT c raw = .ok false := by
  rw [eq_cmp] at hV
  have := AL.strict_exclude_V v hloc raw c hV
  rw [lt_eq_spec c v raw wc hv, gt_eq_spec c v raw wc hv, this.1, this.2]
  exact ⟨rfl, rfl⟩

/-! ### non-vacuity, and why `===` is exempt -/

-- equal candidates in different spellings: 1.0 and 1.0.0 (both well formed, `==` true)
example : (C03.mk [1, 0]).eq (C03.mk [1, 0, 0]) = true ∧ WF (C03.mk [1, 0]) ∧ WF (C03.mk [1, 0, 0]) := by decide
-- `===1.0` tells them apart, and tells 1.0 from 1.0+x: string equality
example : okTrue ((⟨.arbitrary, ofString "1.0"⟩ : Spec).compare (C03.mk [1, 0])) = true ∧
          okFalse ((⟨.arbitrary, ofString "1.0"⟩ : Spec).compare (C03.mk [1, 0, 0])) = true ∧
          okFalse ((⟨.arbitrary, ofString "1.0"⟩ : Spec).compare (C03.mk [1, 0] (loc := some [.str [120]]))) = true := by
  decide +kernel
-- law 2 on `~=2.2.post3`: the prefix clause is `==0!2.*`
example : prefixText (C03.mk [2, 2] (post := some 3)) = ofString "0!2.*" := by decide +kernel
-- law 10: `1.0.0+x` is a local version of `1.0`
example : (pub (C03.mk [1, 0, 0] (loc := some [.str [120]]))).eq (C03.mk [1, 0]) = true := by decide
-- law 5 hypotheses are satisfiable: `>=1.0` matches 1.0 and 1.0 <= 1.1a1
example : compareGE (C03.mk [1, 0]) (ofString "1.0") = .ok true ∧
          (C03.mk [1, 0]).le (C03.mk [1, 1] (pre := some (.a, 1))) = true := by
  constructor
  · rw [ge_eq_spec (C03.mk [1, 0]) (C03.mk [1, 0]) (ofString "1.0") (by decide) (by decide +kernel)]
    congr 1
    rw [show admits .ge (C03.mk [1, 0]) false (ofString "1.0") (C03.mk [1, 0]) = (pub (C03.mk [1, 0])).ge (C03.mk [1, 0]) from
      (ge_cmp _ _).symm]
    decide
  · decide

end C04
