import PkgModel.SpecifierSet
namespace C06
end C06
