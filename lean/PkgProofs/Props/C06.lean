import PkgProofs.Lemmas.SpecSet
import PkgProofs.Lemmas.SpecReadable
/-!
# C06 — pre-release gating and `filter()` follow the PEP 440 policy

Model: `S.Spec.prereleases / contains / filter` (`PkgModel/Specifier.lean`) and
`SSet.SpecSet.prereleases / contains / filter` (`PkgModel/SpecifierSet.lean`); items passed to `filter` are
`(tag, version)` pairs, the tag standing for the identity of the object passed in, so "the very objects, in
input order" is literal.  The mutable `.prereleases` attribute is the state machine `SSet.Ev / runHist`.
Every set theorem holds **for every iteration order** `it` of the frozenset.

`CmpOk m v` ("comparing member `m` with `v` does not raise") is the only recurring hypothesis; `.prereleases`
itself is total since C03-fix-3 (`SSet.preOk`).  Section 6 removes it: for sets parsed from strings (specifiers
from `Specifier(str)`) and candidates `Version()` accepts it is a theorem of C03 (`SSet.cmpOk_of_readable`).
-/
namespace C06
open Py V S SSet

/-- is the answer `True` (and not `False` or an exception) -/
def isOkTrue : R Bool → Bool
  | .ok true => true
  | _ => false

/-- "the specifier itself names a pre-release": what `.prereleases` auto-detects without an override -/
def names (sp : Spec) : Bool := mpre (sp, none)

theorem mpre_override (sp : Spec) (b : Bool) : mpre (sp, some b) = b := rfl

/-- `!=` never enables pre-releases -/
theorem names_ne (sp : Spec) (h : sp.op = .ne) : names sp = false := by
  simp [names, mpre, Spec.prereleases, h]

/-- other operators do iff their version (a trailing `.*` of `==` removed) is a pre-release or dev release -/
theorem names_iff (sp : Spec) (h : sp.op ≠ .ne) :
    names sp = match scan (if sp.op == .eq && endsWith sp.ver [46, 42] then sp.ver.take (sp.ver.length - 2) else sp.ver) with
      | some v => v.isPre
      | none => false := by
  have hne : (sp.op != Op.ne) = true := by simp [h]
  simp only [names, mpre, Spec.prereleases, hne, ↓reduceIte]
  generalize scan _ = r
  cases r <;> rfl

/-- the effective setting of a single specifier: call argument, else stored override, else auto-detection -/
def specEffective (sp : Spec) (ov p : Option Bool) : Bool :=
  match p with
  | some b => b
  | none => match ov with
    | some b => b
    | none => names sp

theorem spec_contains_eq (sp : Spec) (ov p : Option Bool) (v : Ver) :
    sp.contains ov v p = if v.isPre && !(specEffective sp ov p) then .ok false else sp.compare v := by
  unfold Spec.contains specEffective
  cases p with
  | some b => simp
  | none =>
    simp only [(preOk (sp, ov)).eq, ok_bind]
    cases ov with
    | some b => simp [mpre_override]
    | none => simp [names]

/-! ## 1. the gate -/

/-- **a pre-release candidate is matched by a specifier only if pre-releases are enabled** -/
theorem spec_gate (sp : Spec) (ov p : Option Bool) (v : Ver)
    (h : sp.contains ov v p = .ok true) (hv : v.isPre = true) : specEffective sp ov p = true := by
  rw [spec_contains_eq] at h
  cases he : specEffective sp ov p with
  | true => rfl
  | false => simp [hv, he] at h

/-- **a pre-release candidate is matched by a set only if pre-releases are enabled — by the call argument, else
by the set's override, else because a member enables them** (a member enables them through its own override or
by naming a pre-release, `!=` never does: `names_ne`, `names_iff`) -/
theorem gate (T : SpecSet) (it : List Member) (v : Ver) (p : Option Bool) (inst : Bool)
    (hp : it.Perm T.specs) (h : T.contains it v p inst = .ok true) (hv : v.isPre = true) :
    p = some true ∨ (p = none ∧ T.pre = some true) ∨
    (p = none ∧ T.pre = none ∧ ∃ m ∈ T.specs, mpre m = true) := by
  simp only [SpecSet.contains, resolve_ok p hp, ok_bind, hv, Bool.and_true] at h
  have ht : truthy (effective T p) = true := by
    cases ht : truthy (effective T p) with
    | true => rfl
    | false => simp [ht] at h
  unfold effective at ht
  cases p with
  | some b => simp [truthy] at ht; exact Or.inl (by rw [ht])
  | none =>
    right
    cases hT : T.pre with
    | some b => simp [hT, truthy] at ht; exact Or.inl ⟨rfl, by rw [ht]⟩
    | none =>
      right
      refine ⟨rfl, rfl, ?_⟩
      simp only [hT] at ht
      by_cases he : T.specs.isEmpty = true
      · simp [he, truthy] at ht
      · simp only [he, Bool.false_eq_true, ↓reduceIte, truthy, Option.getD_some, List.any_eq_true] at ht
        exact ht

/-- conversely, when not enabled a pre-release candidate is rejected outright -/
theorem gate_rejects (T : SpecSet) (it : List Member) (v : Ver) (p : Option Bool) (inst : Bool)
    (hp : it.Perm T.specs) (hv : v.isPre = true) (hoff : truthy (effective T p) = false) :
    T.contains it v p inst = .ok false := by
  simp [SpecSet.contains, resolve_ok p hp, hv, hoff]

/-! ## 2. final releases are unaffected; enabling never removes a match -/

theorem spec_final_unaffected (sp : Spec) (ov p : Option Bool) (v : Ver) (hv : v.isPre = false) :
    sp.contains ov v p = sp.compare v := by
  rw [spec_contains_eq]; simp [hv]

theorem allContain_final (it : List Member) (v : Ver) (p q : Option Bool) (hv : v.isPre = false) :
    allContain v p it = allContain v q it := by
  induction it with
  | nil => rfl
  | cons m r ih =>
    simp only [allContain, spec_final_unaffected m.1 m.2 p v hv, spec_final_unaffected m.1 m.2 q v hv, ih]

/-- **non-pre-release candidates are unaffected by the setting** (call argument, override, `installed`) -/
theorem final_unaffected (T : SpecSet) (it : List Member) (v : Ver) (p q : Option Bool) (i j : Bool)
    (pre' : Option Bool) (hp : it.Perm T.specs) (hv : v.isPre = false) :
    T.contains it v p i = (⟨T.specs, pre'⟩ : SpecSet).contains it v q j := by
  simp only [SpecSet.contains, resolve_ok p hp, resolve_ok (S := ⟨T.specs, pre'⟩) q hp, ok_bind, hv,
    Bool.and_false, Bool.false_eq_true, ↓reduceIte, pure_eq_ok]
  exact allContain_final it v _ _ hv

theorem spec_enable_monotone (sp : Spec) (ov p : Option Bool) (v : Ver)
    (h : sp.contains ov v p = .ok true) : sp.contains ov v (some true) = .ok true := by
  rw [spec_contains_eq] at h ⊢
  simp only [specEffective, Bool.not_true, Bool.and_false, Bool.false_eq_true, ↓reduceIte]
  split at h
  · cases h
  · exact h

theorem allContain_true {it : List Member} {v : Ver} {p : Option Bool} (h : allContain v p it = .ok true) :
    ∀ m ∈ it, m.1.contains m.2 v p = .ok true := by
  induction it with
  | nil => intro m hm; cases hm
  | cons x r ih =>
    simp only [allContain] at h
    cases hx : x.1.contains x.2 v p with
    | error e => simp [hx] at h
    | ok b =>
      cases b with
      | false => simp [hx] at h
      | true =>
        simp only [hx, ok_bind, ↓reduceIte] at h
        intro m hm
        rcases List.mem_cons.mp hm with rfl | hm
        · exact hx
        · exact ih h m hm

theorem allContain_of_all {it : List Member} {v : Ver} {p : Option Bool}
    (h : ∀ m ∈ it, m.1.contains m.2 v p = .ok true) : allContain v p it = .ok true := by
  induction it with
  | nil => rfl
  | cons x r ih =>
    simp only [allContain, h x (by simp), ok_bind, ↓reduceIte]
    exact ih (fun m hm => h m (by simp [hm]))

/-- **enabling pre-releases never removes a match** (no hypothesis on raising: the premise already says no
member raised) -/
theorem enable_monotone (T : SpecSet) (it : List Member) (v : Ver) (p : Option Bool) (inst : Bool)
    (h : T.contains it v p inst = .ok true) : T.contains it v (some true) inst = .ok true := by
  unfold SpecSet.contains at h ⊢
  cases hr : T.resolve it p with
  | error e => rw [hr] at h; cases h
  | ok eff =>
    rw [hr] at h
    have hres : T.resolve it (some true) = .ok (some true) := rfl
    rw [hres]
    simp only [ok_bind] at h ⊢
    have hg' : (!(truthy (some true)) && v.isPre) = false := by simp [truthy]
    rw [if_neg (by rw [hg']; simp)]
    by_cases hg : (!(truthy eff) && v.isPre) = true
    · rw [if_pos hg] at h; cases h
    · rw [if_neg hg] at h
      by_cases hiv : (inst && v.isPre) = true
      · rw [if_pos hiv] at h ⊢
        cases hb : version v.base with
        | error e => (try rw [hb] at h); cases h
        | ok item =>
          (try rw [hb] at h)
          simp only [ok_bind] at h ⊢
          exact allContain_of_all (fun m hm => spec_enable_monotone m.1 m.2 eff item (allContain_true h m hm))
      · rw [if_neg hiv] at h ⊢
        simp only [pure_eq_ok, ok_bind] at h ⊢
        exact allContain_of_all (fun m hm => spec_enable_monotone m.1 m.2 eff v (allContain_true h m hm))

/-- enabling through the override is the same as enabling through the call -/
theorem override_true_eq_call_true (T : SpecSet) (it : List Member) (v : Ver) (inst : Bool) :
    (⟨T.specs, some true⟩ : SpecSet).contains it v none inst = T.contains it v (some true) inst := by
  simp [SpecSet.contains, SpecSet.resolve, SpecSet.prereleases]

/-! ## 3. `filter` -/

theorem isOkTrue_ok (b : Bool) : isOkTrue (.ok b) = b := by cases b <;> rfl

/-- **Non-empty set: `filter(xs, p)` returns exactly the items `contains(·, p)` accepts — the very objects, in
input order — for every iteration order of the frozenset (both in `filter` and in `contains`).** -/
theorem set_filter_is_filter {α} (T : SpecSet) (hne : T.specs ≠ []) (it it' : List Member)
    (hp : it.Perm T.specs) (hp' : it'.Perm T.specs) (p : Option Bool) (items : List (α × Ver))
    (hc : ∀ m ∈ T.specs, ∀ x ∈ items, CmpOk m x.2) :
    T.filter it p items =
      .ok ((items.filter fun x => isOkTrue (T.contains it' x.2 p false)).map (·.1)) := by
  have hne' : T.specs.isEmpty = false := by cases h : T.specs with
    | nil => exact absurd h hne
    | cons _ _ => rfl
  have hch := filterChain_ok it (truthy (effective T p)) items
    (fun m hm x hx => hc m (hp.mem_iff.mp hm) x hx)
  simp only [SpecSet.filter, resolve_ok p hp, ok_bind, hne', Bool.not_false, ↓reduceIte, hch, pure_eq_ok]
  congr 2
  apply List.filter_congr
  intro x hx
  rw [contains_eq_admits p hp' (fun m hm => hc m hm x hx), isOkTrue_ok, hp.all_eq]
  simp only [admits]
  cases hg : (!(truthy (effective T p)) && x.2.isPre) with
  | false =>
    simp only [Bool.false_eq_true, ↓reduceIte]
    apply all_accb_pass
    cases h1 : truthy (effective T p) <;> cases h2 : x.2.isPre <;> simp_all
  | true =>
    simp only [↓reduceIte, List.all_eq_false]
    cases h : T.specs with
    | nil => exact absurd h hne
    | cons m r =>
      refine ⟨m, by simp, ?_⟩
      have h1 : truthy (effective T p) = false := by cases h1 : truthy (effective T p) <;> simp_all
      have h2 : x.2.isPre = true := by cases h2 : x.2.isPre <;> simp_all
      simp [accb, h1, h2]

/-- **A single `Specifier`: `filter` returns exactly what `contains` accepts under the same argument, except
that a specifier for which pre-releases are neither enabled (argument, override, own version) nor explicitly
disabled (argument, override) returns the matching pre-releases if and only if no final release matched.**
(Full statement; true since C06-fix-1 — before, an explicit `prereleases=False` override still fell back.) -/
theorem spec_filter_fallback {α} (sp : Spec) (ov p : Option Bool) (items : List (α × Ver))
    (hc : ∀ x ∈ items, CmpOk (sp, ov) x.2) :
    sp.filter ov p items = .ok (
      let acc := fun q => (items.filter fun x => isOkTrue (sp.contains ov x.2 q)).map (·.1)
      if p = none ∧ ov = none ∧ names sp = false then
        (if acc none = [] then acc (some true) else acc none)
      else acc p) := by
  have hacc : ∀ q x, x ∈ items → isOkTrue (sp.contains ov x.2 q) =
      (!(x.2.isPre && !(specEffective sp ov q)) && mcmp (sp, ov) x.2) := by
    intro q x hx
    rw [spec_contains_eq]
    cases hg : (x.2.isPre && !(specEffective sp ov q)) with
    | true => simp [isOkTrue]
    | false => simp [(hc x hx).eq, isOkTrue_ok]
  have hfc : ∀ q, (items.filter fun x => isOkTrue (sp.contains ov x.2 q)) =
      items.filter fun x => (!(x.2.isPre && !(specEffective sp ov q)) && mcmp (sp, ov) x.2) :=
    fun q => List.filter_congr (fun x hx => hacc q x hx)
  simp only [hfc]
  by_cases hrecv : p = none ∧ ov = none ∧ names sp = false
  · obtain ⟨rfl, rfl, hn⟩ := hrecv
    have hown : sp.prereleases none = .ok false := by
      have := (preOk (sp, none)).eq; simp only [names] at hn; rw [hn] at this; exact this
    rw [spec_filter_none sp false items hown hc]
    -- Y = matching finals, F = matching pre-releases, A = everything matching
    have eY1 : (fun x : α × Ver => mcmp (sp, none) x.2 && !(x.2.isPre && !false)) =
        fun x => !x.2.isPre && mcmp (sp, none) x.2 := by
      funext x; cases x.2.isPre <;> cases mcmp (sp, none) x.2 <;> rfl
    have eF1 : (fun x : α × Ver => mcmp (sp, none) x.2 && (x.2.isPre && !false)) =
        fun x => x.2.isPre && mcmp (sp, none) x.2 := by
      funext x; cases x.2.isPre <;> cases mcmp (sp, none) x.2 <;> rfl
    have eY2 : (fun x : α × Ver => !(x.2.isPre && !(specEffective sp none none)) && mcmp (sp, none) x.2) =
        fun x => !x.2.isPre && mcmp (sp, none) x.2 := by
      funext x; simp [specEffective, hn]
    have eA : (fun x : α × Ver => !(x.2.isPre && !(specEffective sp none (some true))) && mcmp (sp, none) x.2) =
        fun x => mcmp (sp, none) x.2 := by
      funext x; simp [specEffective]
    simp only [eY1, eF1, eY2, eA, true_and, hn, and_self, ↓reduceIte]
    by_cases hynil : (items.filter fun x => (!x.2.isPre && mcmp (sp, none) x.2)) = []
    · -- no final release matched: every matching item is a pre-release
      have hall : (items.filter fun x => x.2.isPre && mcmp (sp, none) x.2) =
          items.filter fun x => mcmp (sp, none) x.2 := by
        apply List.filter_congr
        intro x hx
        have := List.filter_eq_nil_iff.mp hynil x hx
        cases h1 : x.2.isPre <;> cases h2 : mcmp (sp, none) x.2 <;> simp_all
      rw [hynil, hall]
      simp only [List.map_nil, List.isEmpty_nil, Bool.true_and, ↓reduceIte]
      cases hA : (items.filter fun x => mcmp (sp, none) x.2).map (·.1) with
      | nil => rfl
      | cons a r => rfl
    · have hne : ((items.filter fun x => (!x.2.isPre && mcmp (sp, none) x.2)).map (·.1)) ≠ [] := by
        simpa using hynil
      rw [if_neg hne]
      cases hY : (items.filter fun x => (!x.2.isPre && mcmp (sp, none) x.2)).map (·.1) with
      | nil => exact absurd hY hne
      | cons a r => rfl
  · simp only [hrecv, ↓reduceIte]
    -- an explicit setting, or auto-detection says yes
    by_cases hex : (match p with | some b => some b | none => ov) = none
    · -- p = none, ov = none, names sp = true
      have hp0 : p = none := by cases p <;> simp_all
      have ho0 : ov = none := by subst hp0; simpa using hex
      subst hp0; subst ho0
      have hn : names sp = true := by
        cases h : names sp with
        | true => rfl
        | false => exact absurd ⟨rfl, rfl, h⟩ hrecv
      have hown : sp.prereleases none = .ok true := by
        have := (preOk (sp, none)).eq; simp only [names] at hn; rw [hn] at this; exact this
      rw [spec_filter_none sp true items hown hc]
      have eF : (fun x : α × Ver => mcmp (sp, none) x.2 && (x.2.isPre && !true)) = fun _ => false := by
        funext x; simp
      have eY : (fun x : α × Ver => mcmp (sp, none) x.2 && !(x.2.isPre && !true)) = fun x => mcmp (sp, none) x.2 := by
        funext x; simp
      have eA : (fun x : α × Ver => !(x.2.isPre && !(specEffective sp none none)) && mcmp (sp, none) x.2) =
          fun x => mcmp (sp, none) x.2 := by
        funext x; simp [specEffective, hn]
      simp only [eF, eY, eA]
      simp
    · obtain ⟨b, hb⟩ : ∃ b, (match p with | some b => some b | none => ov) = some b := by
        cases h : (match p with | some b => some b | none => ov) with
        | none => exact absurd h hex
        | some b => exact ⟨b, rfl⟩
      rw [spec_filter_some sp ov p b items hb hc]
      have : specEffective sp ov p = b := by
        cases p with
        | some c => simp only [Option.some.injEq] at hb; simp [specEffective, hb]
        | none => simp only at hb; simp [specEffective, hb]
      simp [accb, this]

/-- **The empty set: `filter` returns exactly what `contains` accepts, except that with no setting at all
(no call argument, no override) it returns the pre-releases if and only if there is no final release.** -/
theorem empty_set_fallback {α} (pre p : Option Bool) (items : List (α × Ver)) :
    (⟨[], pre⟩ : SpecSet).filter [] p items = .ok (
      let accepted := (items.filter fun x => isOkTrue ((⟨[], pre⟩ : SpecSet).contains [] x.2 p false)).map (·.1)
      if (p = none ∧ pre = none) ∧ accepted = [] then items.map (·.1) else accepted) := by
  have heff : effective ⟨[], pre⟩ p = (match p with | some b => some b | none => pre) := by
    cases p <;> cases pre <;> rfl
  have hacc : ∀ x : α × Ver, isOkTrue ((⟨[], pre⟩ : SpecSet).contains [] x.2 p false) =
      !(x.2.isPre && !(truthy (effective ⟨[], pre⟩ p))) := by
    intro x
    rw [contains_eq_admits p (List.Perm.refl _) (by intro m hm; cases hm), isOkTrue_ok]
    simp only [admits, List.all_nil]
    cases h1 : truthy (effective ⟨[], pre⟩ p) <;> cases h2 : x.2.isPre <;> simp
  simp only [hacc]
  simp only [SpecSet.filter, resolve_ok (S := ⟨[], pre⟩) p (List.Perm.refl _), ok_bind, List.isEmpty_nil,
    Bool.not_true, Bool.false_eq_true, ↓reduceIte, pure_eq_ok]
  have h1 := emptyLoop_fst (effective ⟨[], pre⟩ p) items [] []
  simp only [List.nil_append] at h1
  by_cases hnone : p = none ∧ pre = none
  · obtain ⟨rfl, rfl⟩ := hnone
    have he : effective ⟨[], none⟩ none = none := rfl
    simp only [he, truthy, Option.getD_none, Bool.not_false, Bool.and_true, and_self, true_and,
      Option.isNone_none, Bool.and_true] at h1 ⊢
    by_cases hfin : (items.filter fun x => !x.2.isPre).map (·.1) = []
    · have hall : ∀ x ∈ items, (x.2.isPre && !(truthy (none : Option Bool))) = true := by
        intro x hx
        have := List.filter_eq_nil_iff.mp (List.map_eq_nil_iff.mp hfin) x hx
        simpa [truthy] using this
      have h2 := emptyLoop_snd_all none items [] hall
      simp only [List.nil_append] at h2
      rw [show emptyLoop none items [] [] = ((emptyLoop none items [] []).1, (emptyLoop none items [] []).2) from rfl]
      simp only [h1, h2, hfin, List.isEmpty_nil, Bool.true_and, ↓reduceIte]
      cases items with
      | nil => simp
      | cons x r => simp
    · rw [show emptyLoop none items [] [] = ((emptyLoop none items [] []).1, (emptyLoop none items [] []).2) from rfl]
      simp only [h1, hfin, ↓reduceIte]
      have : ((items.filter fun x => !x.2.isPre).map (·.1)).isEmpty = false := by
        cases h : (items.filter fun x => !x.2.isPre).map (·.1) with
        | nil => exact absurd h hfin
        | cons _ _ => rfl
      simp [this]
  · simp only [hnone, false_and, ↓reduceIte]
    rw [show emptyLoop (effective ⟨[], pre⟩ p) items [] [] =
      ((emptyLoop (effective ⟨[], pre⟩ p) items [] []).1, (emptyLoop (effective ⟨[], pre⟩ p) items [] []).2) from rfl]
    simp only [h1]
    have hsome : (effective ⟨[], pre⟩ p).isNone = false := by
      rw [heff]
      cases p with
      | some b => rfl
      | none => cases pre with
        | some b => rfl
        | none => exact absurd ⟨rfl, rfl⟩ hnone
    simp [hsome]

/-! ## 4. `installed=True` -/

/-- **Once past the gate, `contains(installed=True)` judges a pre-release candidate by its base version** -/
theorem installed_uses_base (T : SpecSet) (it it' : List Member) (v vb : Ver) (p : Option Bool)
    (hp : it.Perm T.specs) (hp' : it'.Perm T.specs) (hv : v.isPre = true) (hb : version v.base = .ok vb)
    (hen : truthy (effective T p) = true) (hc : ∀ m ∈ T.specs, CmpOk m vb) :
    T.contains it v p true = T.contains it' vb (some true) false := by
  rw [contains_installed p hp hv hb hc, contains_eq_admits (some true) hp' hc]
  have e : effective T (some true) = some true := rfl
  simp only [hen, ↓reduceIte]
  simp only [admits, e, truthy, Option.getD_some, Bool.not_true, Bool.false_and, Bool.false_eq_true, ↓reduceIte]

/-- for a final release `installed` changes nothing -/
theorem installed_final (T : SpecSet) (it : List Member) (v : Ver) (p : Option Bool) (hv : v.isPre = false) :
    T.contains it v p true = T.contains it v p false := by
  simp [SpecSet.contains, hv]

/-! ## 5. histories of assignments to `.prereleases` -/

def Ev.isSet : Ev → Bool
  | .set _ => true
  | .call => false

/-- written from the statement: the value of the last assignment in the history, else the constructor's -/
def lastAssigned (init : Option Bool) (h : List Ev) : Option Bool :=
  match h.reverse.find? Ev.isSet with
  | some (.set b) => b
  | _ => init

/-- **after any history of assignments and reading calls the object is in the state of a fresh object
constructed with the last assigned value** -/
theorem history_last_write_wins (init : Option Bool) (h : List Ev) : runHist init h = lastAssigned init h := by
  unfold runHist lastAssigned
  induction h generalizing init with
  | nil => rfl
  | cons e r ih =>
    rw [List.foldl_cons, ih, List.reverse_cons, List.find?_append]
    cases hf : r.reverse.find? Ev.isSet with
    | some x =>
      have hx := List.find?_some hf
      cases x with
      | set b => rfl
      | call => simp [Ev.isSet] at hx
    | none =>
      cases e with
      | set b => simp [Ev.isSet, Ev.step]
      | call => simp [Ev.isSet, Ev.step]

theorem lastWrite_eq (init : Option Bool) (h : List Ev) : lastWrite init h = runHist init h := by
  unfold runHist
  induction h generalizing init with
  | nil => rfl
  | cons e r ih => cases e <;> simp [lastWrite, Ev.step, ih]

/-- reading calls (`.prereleases`, `contains`, `filter`, `str`, `hash`, `==`) do not change the state -/
theorem calls_do_not_write (init : Option Bool) (h : List Ev) (hc : ∀ e ∈ h, e = Ev.call) : runHist init h = init := by
  unfold runHist
  induction h generalizing init with
  | nil => rfl
  | cons e r ih =>
    have := hc e (by simp); subst this
    exact ih init (fun e he => hc e (by simp [he]))

/-- every observation after a history equals the observation on the fresh object -/
theorem history_observations {α} (T : SpecSet) (h : List Ev) (it : List Member) (v : Ver) (p : Option Bool)
    (inst : Bool) (items : List (α × Ver)) :
    let T' : SpecSet := { T with pre := runHist T.pre h }
    let F : SpecSet := ⟨T.specs, lastAssigned T.pre h⟩
    T'.prereleases it = F.prereleases it ∧ T'.contains it v p inst = F.contains it v p inst ∧
    T'.filter it p items = F.filter it p items ∧ T'.str it = F.str it ∧ T'.eq F = F.eq F := by
  intro T' F
  have e : T' = F := by simp [T', F, history_last_write_wins]
  rw [e]
  exact ⟨rfl, rfl, rfl, rfl, rfl⟩

/-! ## 6. from strings: no hypothesis left -/

/-- `filter` = `contains`, for every set parsed from a string and every list of parsed candidates -/
theorem set_filter_is_filter_of_strings {α} (s : Str) (pre : Option Bool) (T : SpecSet)
    (hT : SSet.ofString s pre = .ok T) (hne : T.specs ≠ []) (it it' : List Member)
    (hp : it.Perm T.specs) (hp' : it'.Perm T.specs) (p : Option Bool) (items : List (α × Ver))
    (hitems : ∀ x ∈ items, V.WF x.2) :
    T.filter it p items =
      .ok ((items.filter fun x => isOkTrue (T.contains it' x.2 p false)).map (·.1)) :=
  set_filter_is_filter T hne it it' hp hp' p items
    (fun m hm x hx => cmpOk_of_readable (ofString_readable hT m hm) (hitems x hx))

/-- the `Specifier.filter` rule, for every specifier `Specifier(str, prereleases=ov)` can produce -/
theorem spec_filter_fallback_of_strings {α} (s : Str) (sp : Spec) (hsp : parseSpec s = some sp)
    (ov p : Option Bool) (items : List (α × Ver)) (hitems : ∀ x ∈ items, V.WF x.2) :
    sp.filter ov p items = .ok (
      let acc := fun q => (items.filter fun x => isOkTrue (sp.contains ov x.2 q)).map (·.1)
      if p = none ∧ ov = none ∧ names sp = false then
        (if acc none = [] then acc (some true) else acc none)
      else acc p) := by
  apply spec_filter_fallback
  intro x hx
  obtain ⟨v, w, hr⟩ := C03.parse_readClause s sp hsp
  exact cmpOk_of_readable (m := (sp, ov)) (by simp [Readable, hr]) (hitems x hx)

/-- the gate as an equation, from strings: `contains` is "enabled-or-final, and every member's operator holds" -/
theorem contains_eq_policy_of_strings (s : Str) (pre : Option Bool) (T : SpecSet) (hT : SSet.ofString s pre = .ok T)
    (cs : Str) (c : Ver) (hc : scan cs = some c) (it : List Member) (hp : it.Perm T.specs) (p : Option Bool) :
    T.contains it c p false =
      .ok (if !(truthy (effective T p)) && c.isPre then false else T.specs.all fun m => mcmp m c) :=
  contains_eq_admits p hp (fun m hm => cmpOk_of_readable (ofString_readable hT m hm) (V.scan_wf cs c hc))

/-! ## non-vacuity -/

private def sp (s : String) : Spec := (parseSpec (Py.ofString s)).getD ⟨.eq, []⟩
private def ver (s : String) : Ver := (scan (Py.ofString s)).getD ⟨0, [], none, none, none, none⟩
private def items (l : List String) : List (Nat × Ver) := (List.range l.length).zip (l.map ver)

example : names (sp ">=1.0a1") = true ∧ names (sp ">=1.0") = false ∧ names (sp "!=1.0a1") = false ∧
    names (sp "==1.*") = false ∧ names (sp "===1.0.dev1") = true ∧ names (sp "===foo") = false := by decide
-- the gate fires: `>=1.0` rejects 1.1a1 by default, accepts it when enabled, `>=1.0a1` enables it by itself
example : (sp ">=1.0").contains none (ver "1.1a1") none = .ok false ∧
    (sp ">=1.0").contains none (ver "1.1a1") (some true) = .ok true ∧
    (sp ">=1.0").contains (some true) (ver "1.1a1") none = .ok true ∧
    (sp ">=1.0a1").contains none (ver "1.1a1") none = .ok true := by decide
-- the fallback receivers: no setting -> pre-release comes back; explicit False (override or argument) -> nothing
example : (sp ">=1.0").filter none none (items ["1.1a1"]) = .ok [0] ∧
    (sp ">=1.0").filter (some false) none (items ["1.1a1"]) = .ok [] ∧
    (sp ">=1.0").filter none (some false) (items ["1.1a1"]) = .ok [] ∧
    (sp ">=1.0").filter none none (items ["1.1a1", "1.2", "0.9"]) = .ok [1] := by decide
example : (⟨[], none⟩ : SpecSet).filter [] none (items ["1.1a1", "1.0.dev1"]) = .ok [0, 1] ∧
    (⟨[], none⟩ : SpecSet).filter [] none (items ["1.1a1", "1.0"]) = .ok [1] ∧
    (⟨[], some false⟩ : SpecSet).filter [] none (items ["1.1a1"]) = .ok [] := by decide
example : CmpOk (sp ">=1.0", none) (ver "1.1a1") := ⟨true, by decide⟩
-- installed: 1.1a1 is judged as 1.1 by `>=1.1`
example : (⟨[(sp ">=1.1", none)], none⟩ : SpecSet).contains [(sp ">=1.1", none)] (ver "1.1a1") (some true) false = .ok false ∧
    (⟨[(sp ">=1.1", none)], none⟩ : SpecSet).contains [(sp ">=1.1", none)] (ver "1.1a1") (some true) true = .ok true := by decide
example : runHist (some true) [.set none, .call, .set (some false), .call] = some false := by decide

end C06
