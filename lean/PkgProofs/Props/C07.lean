import PkgProofs.Lemmas.MarkerEval
import PkgProofs.Lemmas.MarkerParse
import PkgProofs.Lemmas.MarkerLexParse
import PkgProofs.Lemmas.MarkerWf
/-!
# C07 — Marker evaluation follows PEP 508 semantics

Model: `Mk.evaluate` (= `Marker.evaluate`: `buildEnv`, `_evaluate_markers`' `groups` loop, `_eval_op`,
`_normalize`), `Mk.parseFull` (the recursive-descent parser, generic in the token stream).
Spec: `Pep508.Formula.eval`, `Pep508.atomSem`, `Pep508.effEnv`, `Pep508.Expr` (concrete syntax).
External: `Mk.Ext` (`specMatch`, `canonName`) — arbitrary in every theorem.

All statements quantify over arbitrary nesting depth, list length, strings and environments.
-/
namespace C07
open Py Mk Pep508 MkEval MkParse MkFmt MkLex MkLexP MkWf
set_option linter.unusedSimpArgs false

/-! ### 1. The `groups` algorithm computes the value of the or-of-ands formula the list denotes -/

/-- **`_evaluate_markers` = value of the formula**, for every valuation of the comparisons (which may
raise) and every nesting: the eager loop returns the formula's boolean value, and when a comparison
raises, the exception of the first failing comparison (left to right). -/
theorem groups_is_or_of_ands (ν : Atom → Res Bool) (l : List M) (f : Formula) (h : formulaOf l = some f) :
    evalMarkers ν l = f.eval ν := by
  unfold evalMarkers; exact list_eq ν l f h

/-! ### 2. One comparison -/

/-- **`_eval_op` = the statement's comparison**: specifier matching when `specMatch` answers, else the
ordinary Python string operator (`markers._operators`, regenerated from the source), else
`UndefinedComparison`. -/
theorem eval_op_dispatch (X : Ext) (l op r : Str) : evalOp X l op r = compare X l op r := by
  unfold evalOp Pep508.compare
  cases X.specMatch op r l with
  | some b => rfl
  | none =>
    simp only
    by_cases h1 : op = s_lt
    · subst h1; simp [Gen.MarkerTok.opTable, List.lookup, strOp, applyOp, s_lt, s_le, s_eq, s_ne, s_ge, s_gt, s_in, s_not_in]
    by_cases h2 : op = s_le
    · subst h2; simp [Gen.MarkerTok.opTable, List.lookup, strOp, applyOp, s_lt, s_le, s_eq, s_ne, s_ge, s_gt, s_in, s_not_in]
    by_cases h3 : op = s_eq
    · subst h3; simp [Gen.MarkerTok.opTable, List.lookup, strOp, applyOp, s_lt, s_le, s_eq, s_ne, s_ge, s_gt, s_in, s_not_in]
    by_cases h4 : op = s_ne
    · subst h4; simp [Gen.MarkerTok.opTable, List.lookup, strOp, applyOp, s_lt, s_le, s_eq, s_ne, s_ge, s_gt, s_in, s_not_in]
    by_cases h5 : op = s_ge
    · subst h5; simp [Gen.MarkerTok.opTable, List.lookup, strOp, applyOp, s_lt, s_le, s_eq, s_ne, s_ge, s_gt, s_in, s_not_in]
    by_cases h6 : op = s_gt
    · subst h6; simp [Gen.MarkerTok.opTable, List.lookup, strOp, applyOp, s_lt, s_le, s_eq, s_ne, s_ge, s_gt, s_in, s_not_in]
    by_cases h7 : op = s_in
    · subst h7; simp [Gen.MarkerTok.opTable, List.lookup, strOp, applyOp, s_lt, s_le, s_eq, s_ne, s_ge, s_gt, s_in, s_not_in]
    by_cases h8 : op = s_not_in
    · subst h8; simp [Gen.MarkerTok.opTable, List.lookup, strOp, applyOp, s_lt, s_le, s_eq, s_ne, s_ge, s_gt, s_in, s_not_in]
    have e1 : (op == s_lt) = false := by simpa using h1
    have e2 : (op == s_le) = false := by simpa using h2
    have e3 : (op == s_eq) = false := by simpa using h3
    have e4 : (op == s_ne) = false := by simpa using h4
    have e5 : (op == s_ge) = false := by simpa using h5
    have e6 : (op == s_gt) = false := by simpa using h6
    have e7 : (op == s_in) = false := by simpa using h7
    have e8 : (op == s_not_in) = false := by simpa using h8
    simp only [s_lt, s_le, s_eq, s_ne, s_ge, s_gt, s_in, s_not_in] at e1 e2 e3 e4 e5 e6 e7 e8
    simp [Gen.MarkerTok.opTable, List.lookup, strOp, s_lt, s_le, s_eq, s_ne, s_ge, s_gt, s_in, s_not_in, e1, e2, e3, e4, e5, e6, e7, e8]

/-- the operators without a string fallback raise `UndefinedComparison` exactly when `specMatch` has no answer -/
theorem undefined_comparison_iff (X : Ext) (l op r : Str) (h : strOp op l r = none) :
    evalOp X l op r = .error .undefinedComparison ↔ X.specMatch op r l = none := by
  rw [eval_op_dispatch]; unfold Pep508.compare
  cases X.specMatch op r l <;> simp [h]

theorem envFun_some {env : Env} {k v : Str} (h : envFun env k = some v) : lookupEnv env k = .ok v := by
  unfold envFun at h; unfold lookupEnv
  split at h <;> simp_all

theorem normalize_eq (X : Ext) (l r k : Str) : normalize X l r k = (norm X k l, norm X k r) := by
  unfold normalize norm; split <;> rfl

/-- **the variable may be on either side**: whichever side the variable is on, the left operand of the
comparison is the left operand of the operator. -/
theorem either_side (X : Ext) (env : Env) (k s v op : Str) (h : envFun env k = some v) :
    evalAtom X env ⟨.var k, op, .val s⟩ = compare X (norm X k v) op (norm X k s) ∧
    evalAtom X env ⟨.val s, op, .var k⟩ = compare X (norm X k s) op (norm X k v) := by
  have hl := envFun_some h
  constructor <;>
    simp [evalAtom, operands, Node.value, hl, normalize_eq, eval_op_dispatch, bind, Except.bind, Except.map]

/-- a comparison between a variable and a literal (either order) has the statement's meaning -/
theorem evalAtom_refines (X : Ext) (env : Env) (a : Atom) (r : Res Bool)
    (h : atomSem X (envFun env) a = some r) : evalAtom X env a = r := by
  obtain ⟨lhs, op, rhs⟩ := a
  cases lhs with
  | var k => cases rhs with
    | var _ => simp [atomSem] at h
    | val s =>
      simp only [atomSem, Option.map_eq_some_iff] at h
      obtain ⟨v, hv, rfl⟩ := h
      exact (either_side X env k s v op hv).1
  | val s => cases rhs with
    | val _ => simp [atomSem] at h
    | var k =>
      simp only [atomSem, Option.map_eq_some_iff] at h
      obtain ⟨v, hv, rfl⟩ := h
      exact (either_side X env k s v op hv).2

/-- **comparisons involving `extra` are made on normalised names, on both sides** — hence they do not
depend on how either name is spelled. -/
theorem extra_normalised_both_sides (X : Ext) (env : Env) (s v op : Str) (h : envFun env s_extra = some v) :
    evalAtom X env ⟨.var s_extra, op, .val s⟩ = compare X (X.canonName v) op (X.canonName s) ∧
    evalAtom X env ⟨.val s, op, .var s_extra⟩ = compare X (X.canonName s) op (X.canonName v) := by
  have := either_side X env s_extra s v op h
  simpa [norm] using this

theorem extra_spelling_irrelevant (X : Ext) (env env' : Env) (s s' v v' op : Str)
    (h : envFun env s_extra = some v) (h' : envFun env' s_extra = some v')
    (hs : X.canonName s = X.canonName s') (hv : X.canonName v = X.canonName v') :
    evalAtom X env ⟨.var s_extra, op, .val s⟩ = evalAtom X env' ⟨.var s_extra, op, .val s'⟩ ∧
    evalAtom X env ⟨.val s, op, .var s_extra⟩ = evalAtom X env' ⟨.val s', op, .var s_extra⟩ := by
  rw [(extra_normalised_both_sides X env s v op h).1, (extra_normalised_both_sides X env s v op h).2,
    (extra_normalised_both_sides X env' s' v' op h').1, (extra_normalised_both_sides X env' s' v' op h').2, hs, hv]
  exact ⟨rfl, rfl⟩

/-! ### 3. The effective environment -/

/-- **environment construction = the statement's effective environment**: detected values overridden by
the supplied mapping, `extra` defaulting to empty and `None` read as empty, a `python_full_version`
ending in `+` completed with `local`. -/
theorem env_effective (dflt : List (Str × Str)) (supplied : Option Env) (env : Env)
    (h : buildEnv dflt supplied = .ok env) (k : Str) : envFun env k = effEnv dflt supplied k :=
  MkEval.env_effective dflt supplied env h k

/-- the environment can be built whenever `python_full_version` has a string value -/
theorem buildEnv_ok (dflt : List (Str × Str)) (supplied : Option Env) (v : Str)
    (h : effEnv dflt supplied s_pfv = some v) : ∃ env, buildEnv dflt supplied = .ok env := by
  rw [buildEnv_eq, cur1_get dflt supplied s_pfv]
  have hx : s_pfv ≠ s_extra := by decide
  unfold effEnv at h
  cases hL : rawLookup dflt supplied s_pfv with
  | none => simp [hL] at h
  | some o =>
    cases o with
    | none => simp [hL, hx] at h
    | some w =>
      simp only
      by_cases hw : endsWith w [43] = true
      · exact ⟨_, by rw [if_pos hw]⟩
      · exact ⟨_, by rw [if_neg hw]⟩

/-! ### 4. `evaluate` = value of the formula under the statement's semantics -/

def atoms : Formula → List Atom
  | .atom a => [a]
  | .and l r => atoms l ++ atoms r
  | .or l r => atoms l ++ atoms r

theorem eval_congr (ν₁ ν₂ : Atom → Res Bool) : (f : Formula) → (∀ a ∈ atoms f, ν₁ a = ν₂ a) → f.eval ν₁ = f.eval ν₂
  | .atom a, h => h a (by simp [atoms])
  | .and l r, h => by
    simp only [Formula.eval]
    rw [eval_congr ν₁ ν₂ l (fun a ha => h a (by simp [atoms, ha])),
        eval_congr ν₁ ν₂ r (fun a ha => h a (by simp [atoms, ha]))]
  | .or l r, h => by
    simp only [Formula.eval]
    rw [eval_congr ν₁ ν₂ l (fun a ha => h a (by simp [atoms, ha])),
        eval_congr ν₁ ν₂ r (fun a ha => h a (by simp [atoms, ha]))]

/-- the statement's meaning of a comparison in the effective environment -/
def sem (X : Ext) (dflt : List (Str × Str)) (supplied : Option Env) (a : Atom) : Res Bool :=
  (atomSem X (effEnv dflt supplied) a).getD (.error .undefinedEnvironmentName)

/-- **Refinement.** For every marker list denoting a formula `f` whose comparisons are between a defined
variable and a literal (either order), `Marker.evaluate` returns the boolean value of `f` under the
statement's comparison semantics in the statement's effective environment (and raises what the first
failing comparison raises). -/
theorem evaluate_refines (X : Ext) (dflt : List (Str × Str)) (supplied : Option Env) (m : List M) (f : Formula)
    (hf : formulaOf m = some f) (env : Env) (hb : buildEnv dflt supplied = .ok env)
    (hd : ∀ a ∈ atoms f, (atomSem X (effEnv dflt supplied) a).isSome) :
    evaluate X dflt supplied m = f.eval (sem X dflt supplied) := by
  unfold evaluate
  simp only [hb, bind, Except.bind]
  rw [groups_is_or_of_ands _ m f hf]
  apply eval_congr
  intro a ha
  have hfun : envFun env = effEnv dflt supplied := funext (env_effective dflt supplied env hb)
  have := hd a ha
  cases hs : atomSem X (effEnv dflt supplied) a with
  | none => simp [hs] at this
  | some r =>
    rw [evalAtom_refines X env a r (by rw [hfun]; exact hs)]
    simp [sem, hs]

/-- **`evaluate` is a function of the marker and the effective environment only** -/
theorem pure_of_effective_env (X : Ext) (d₁ d₂ : List (Str × Str)) (s₁ s₂ : Option Env) (m : List M) (f : Formula)
    (hf : formulaOf m = some f) (e₁ e₂ : Env) (h₁ : buildEnv d₁ s₁ = .ok e₁) (h₂ : buildEnv d₂ s₂ = .ok e₂)
    (hd : ∀ a ∈ atoms f, (atomSem X (effEnv d₁ s₁) a).isSome)
    (heq : effEnv d₁ s₁ = effEnv d₂ s₂) :
    evaluate X d₁ s₁ m = evaluate X d₂ s₂ m := by
  rw [evaluate_refines X d₁ s₁ m f hf e₁ h₁ hd, evaluate_refines X d₂ s₂ m f hf e₂ h₂ (by rw [← heq]; exact hd)]
  unfold sem; rw [heq]


/-! ### 5. Precedence and grouping: the parser on the token sequence of an expression -/

/-- **`and` binds tighter than `or`, parentheses group** (token level).  For every expression — any
nesting, with arbitrary redundant parentheses — the recursive-descent parser, run on the expression's
token sequence, returns a list that denotes exactly the expression's formula. -/
theorem parse_precedence (e : Expr) (hp : ∀ a ∈ exprAtoms e, PlainAtom a) :
    ∃ l, parseToks e.toks = .ok l ∧ formulaOf l = some e.sem := by
  refine ⟨lst e, ?_, formulaOf_lst e⟩
  rw [toks_eq]
  exact parse_print (lst e) e.sem (formulaOf_lst e) (by rw [atoms_lst]; exact hp)

/-- every list the parser returns (on any token stream, characters included) denotes a formula -/
theorem parse_denotes_formula_tokens (e : Expr) (hp : ∀ a ∈ exprAtoms e, PlainAtom a) :
    parseToks e.toks = .ok (lst e) := by
  rw [toks_eq]; exact parse_print (lst e) e.sem (formulaOf_lst e) (by rw [atoms_lst]; exact hp)

/-- **Precedence and grouping at character level, canonical layout.**  The real entry point — the
context-sensitive tokenizer (regenerated rules, `\b`) and the parser on characters — run on the expression's
token sequence spelled with single spaces (none inside parentheses), returns a list denoting exactly the
expression's formula.  (Every other layout — white space, quote style, PEP 345 spellings, more parentheses —:
`C07.marker_parse_render_layout` in C07Layout.lean.) -/
theorem parse_precedence_char (e : Expr) (hc : ∀ a ∈ exprAtoms e, CanonAtom a) :
    ∃ l, parse (spell e.toks) = .ok l ∧ formulaOf l = some e.sem := by
  refine ⟨lst e, ?_, formulaOf_lst e⟩
  rw [toks_eq]
  exact parse_spell_print (lst e) e.sem (formulaOf_lst e) (by rw [atoms_lst]; exact hc)

/-! ### 6. `Marker.__init__`'s normalisation does not change the meaning of variable/literal comparisons -/

/-- a comparison between one variable and one literal -/
def OneVar (a : Atom) : Prop := a.lhs.isVar ≠ a.rhs.isVar

theorem atomSem_normAtom (X : Ext) (hc : ∀ s, X.canonName (X.canonName s) = X.canonName s)
    (env : Str → Option Str) (a : Atom) (h : OneVar a) : atomSem X env (normAtom X a) = atomSem X env a := by
  obtain ⟨l, o, r⟩ := a
  cases l with
  | var k => cases r with
    | var _ => simp [OneVar, Node.isVar] at h
    | val s =>
      by_cases hk : k = s_extra
      · subst hk; simp [normAtom, isExtraVar, atomSem, norm, Node.value, hc]
      · have : (k == s_extra) = false := by simpa using hk
        simp [normAtom, isExtraVar, this]
  | val s => cases r with
    | val _ => simp [OneVar, Node.isVar] at h
    | var k =>
      by_cases hk : k = s_extra
      · subst hk; simp [normAtom, isExtraVar, atomSem, norm, Node.value, hc]
      · have : (k == s_extra) = false := by simpa using hk
        simp [normAtom, isExtraVar, this]

theorem atoms_map (g : Atom → Atom) : (f : Formula) → atoms (MkParse.Formula.map g f) = (atoms f).map g
  | .atom a => rfl
  | .and l r => by simp [MkParse.Formula.map, atoms, atoms_map g l, atoms_map g r]
  | .or l r => by simp [MkParse.Formula.map, atoms, atoms_map g l, atoms_map g r]

/-- the `Marker` for the list the parser builds for an expression evaluates to the expression's formula -/
theorem evaluate_lst (X : Ext) (hc : ∀ s, X.canonName (X.canonName s) = X.canonName s)
    (dflt : List (Str × Str)) (supplied : Option Env) (e : Expr) (h1 : ∀ a ∈ atoms e.sem, OneVar a)
    (hd : ∀ a ∈ atoms e.sem, (atomSem X (effEnv dflt supplied) a).isSome)
    (env : Env) (hb : buildEnv dflt supplied = .ok env) :
    evaluate X dflt supplied (normalizeExtra X (lst e)) = e.sem.eval (sem X dflt supplied) := by
  have hf : formulaOf (normalizeExtra X (lst e)) = some (MkParse.Formula.map (normAtom X) e.sem) := by
    have := fOfL_norm X (lst e)
    rw [show fOfL (lst e) = some e.sem from formulaOf_lst e] at this
    simpa [formulaOf] using this
  rw [evaluate_refines X dflt supplied _ _ hf env hb ?_, eval_map]
  · apply eval_congr
    intro a ha
    simp only [sem, atomSem_normAtom X hc _ a (h1 a ha)]
  · intro a ha
    rw [atoms_map] at ha
    obtain ⟨b, hb1, rfl⟩ := List.mem_map.mp ha
    rw [atomSem_normAtom X hc _ b (h1 b hb1)]
    exact hd b hb1

/-- **End to end (token level).** For every expression over variable/literal comparisons, the `Marker`
built from its token sequence (parse, then `_normalize_extra_values`) evaluates in every environment to the
boolean value of the expression's formula under the statement's comparison semantics. -/
theorem marker_evaluate_refines (X : Ext) (hc : ∀ s, X.canonName (X.canonName s) = X.canonName s)
    (dflt : List (Str × Str)) (supplied : Option Env) (e : Expr)
    (hp : ∀ a ∈ exprAtoms e, PlainAtom a) (h1 : ∀ a ∈ atoms e.sem, OneVar a)
    (hd : ∀ a ∈ atoms e.sem, (atomSem X (effEnv dflt supplied) a).isSome)
    (env : Env) (hb : buildEnv dflt supplied = .ok env) :
    ∃ l, parseToks e.toks = .ok l ∧
      evaluate X dflt supplied (normalizeExtra X l) = e.sem.eval (sem X dflt supplied) :=
  ⟨lst e, parse_denotes_formula_tokens e hp, evaluate_lst X hc dflt supplied e h1 hd env hb⟩

/-- **End to end (character level, canonical layout).**  `Marker(text).evaluate(environment)`, where `text`
is the expression spelled with single spaces, is the boolean value of the expression's formula under the
statement's comparison semantics in the statement's effective environment. -/
theorem marker_of_text_refines (X : Ext) (hc : ∀ s, X.canonName (X.canonName s) = X.canonName s)
    (dflt : List (Str × Str)) (supplied : Option Env) (e : Expr)
    (hcan : ∀ a ∈ exprAtoms e, CanonAtom a) (h1 : ∀ a ∈ atoms e.sem, OneVar a)
    (hd : ∀ a ∈ atoms e.sem, (atomSem X (effEnv dflt supplied) a).isSome)
    (env : Env) (hb : buildEnv dflt supplied = .ok env) :
    ∃ m, mkMarker X (spell e.toks) = .ok m ∧ evaluate X dflt supplied m = e.sem.eval (sem X dflt supplied) := by
  refine ⟨normalizeExtra X (lst e), ?_, evaluate_lst X hc dflt supplied e h1 hd env hb⟩
  unfold mkMarker
  rw [toks_eq, parse_spell_print (lst e) e.sem (formulaOf_lst e) (by rw [atoms_lst]; exact hcan)]
  rfl

/-! ### 7. Every constructed marker -/

/-- **Whatever text `Marker(src)` accepts** (any layout, nesting, quote style, variable spelling), the
constructed marker denotes a formula `f`, and `evaluate` returns the value of `f` under the model's
comparison function in the built environment; if moreover every comparison of `f` is between a defined
variable and a literal, that value is the statement's (`sem`). -/
theorem constructed_marker_refines (X : Ext) (src : Str) (m : List M) (h : mkMarker X src = .ok m)
    (dflt : List (Str × Str)) (supplied : Option Env) (env : Env) (hb : buildEnv dflt supplied = .ok env) :
    ∃ f, formulaOf m = some f ∧ evaluate X dflt supplied m = f.eval (evalAtom X env) ∧
      ((∀ a ∈ atoms f, (atomSem X (effEnv dflt supplied) a).isSome) →
        evaluate X dflt supplied m = f.eval (sem X dflt supplied)) := by
  unfold mkMarker at h
  cases hp : parse src with
  | error e => simp [hp, Except.map] at h
  | ok l =>
    simp only [hp, Except.map, Except.ok.injEq] at h
    subst h
    obtain ⟨hf, _⟩ := parse_wf src l hp
    obtain ⟨f, hf⟩ := Option.isSome_iff_exists.mp hf
    have hf' : formulaOf (normalizeExtra X l) = some (MkParse.Formula.map (normAtom X) f) := by
      have := fOfL_norm X l
      rw [show fOfL l = some f from hf] at this
      simpa [formulaOf] using this
    refine ⟨_, hf', ?_, fun hd => evaluate_refines X dflt supplied _ _ hf' env hb hd⟩
    unfold evaluate
    simp only [hb, bind, Except.bind]
    exact groups_is_or_of_ands _ _ _ hf'

/-! ### Non-vacuity: the hypotheses above are satisfiable by a non-trivial value -/
section Examples

def os_name : Str := [111, 115, 95, 110, 97, 109, 101]
def a1 : Atom := ⟨.var os_name, s_eq, .val [97]⟩              -- os_name == "a"
def a2 : Atom := ⟨.val [98], s_in, .var s_extra⟩              -- "b" in extra
def a3 : Atom := ⟨.var s_pfv, [62, 61], .val [51, 46, 56]⟩    -- python_full_version >= "3.8"
def a4 : Atom := ⟨.var s_extra, s_not_in, .val [65, 95, 98]⟩  -- extra not in "A_b"
/-- `a1 or a2 and ((a3 or a4))` -/
def exE : Expr := .or (.atom a1) (.and (.atom a2) (.paren (.paren (.or (.atom a3) (.atom a4)))))
/-- a toy instance of the external interface -/
def X0 : Ext := ⟨fun _ _ _ => none, fun s => s.map lowerAscii⟩
def dflt0 : List (Str × Str) := [(os_name, [97]), (s_pfv, [51, 46, 57, 43])]

instance (a : Atom) : Decidable (OneVar a) := by unfold OneVar; infer_instance

example : ∀ a ∈ exprAtoms exE, PlainAtom a := by decide
example : ∀ a ∈ exprAtoms exE, CanonAtom a := by decide
example : parseToks exE.toks = .ok (lst exE) := by rfl
example : formulaOf (lst exE) = some (.or (.atom a1) (.and (.atom a2) (.or (.atom a3) (.atom a4)))) := by decide
example : ∀ a ∈ atoms exE.sem, OneVar a := by decide
example : ∀ a ∈ atoms exE.sem, (atomSem X0 (effEnv dflt0 none) a).isSome := by decide
example : (buildEnv dflt0 none).toOption.isSome := by decide
example : evaluate X0 dflt0 none (normalizeExtra X0 (lst exE)) = .ok true := by rfl
/-- `python_full_version = "3.9+"` is completed to `3.9+local`, `extra` defaults to the empty string -/
example : effEnv dflt0 none s_pfv = some [51, 46, 57, 43, 108, 111, 99, 97, 108] ∧ effEnv dflt0 none s_extra = some [] := by decide
/-- `~=` has no string fallback -/
example : evalOp X0 [97] [126, 61] [98] = .error .undefinedComparison := by rfl
/-- the character-level parser on `os_name=='a'or"b"in extra and((python_full_version>="3.8"))` -/
example : (parse [111,115,95,110,97,109,101,61,61,39,97,39,111,114,34,98,34,105,110,32,101,120,116,114,97,32,97,110,100,
    40,40,112,121,116,104,111,110,95,102,117,108,108,95,118,101,114,115,105,111,110,62,61,34,51,46,56,34,41,41]).toOption.map str
    = some [111,115,95,110,97,109,101,32,61,61,32,34,97,34,32,111,114,32,34,98,34,32,105,110,32,101,120,116,114,97,32,97,110,100,32,
      112,121,116,104,111,110,95,102,117,108,108,95,118,101,114,115,105,111,110,32,62,61,32,34,51,46,56,34] := by decide +kernel

end Examples

end C07
