import PkgModel.Marker
import PkgModel.Spec.Pep508
/-!
# C07 — Marker evaluation follows PEP 508 semantics
-/
namespace C07
open Py Mk Pep508

end C07
