import PkgProofs.Lemmas.RxSpelling
import PkgProofs.Props.C02
import PkgProofs.Props.C12
/-!
# C12 (continued) — the scanner all models use accepts exactly the language of `Version._regex`

`V.scan` is the hand-written scanner; `C02` proves it accepts `s` iff `s` is the rendering of a valid
`Spelling`.  `RxK.Ctx.M_version_iff_spelling` proves the same of the spec regex `Pep440Rx.version`, for
*any* class table that satisfies `Kinds.consistent` — the only fact about the generated tables used here
is `C12.version_classes_verified`.  With `C12.version_language` (bisimulation certificate between the
spec regex and the regex regenerated from the working tree) this closes the chain

  `V.scan s` accepts  ⇔  spec regex accepts `s`  ⇔  the regenerated `Version._regex` accepts `s`

for every string of code points.
-/
namespace C12
open Rx Py V

/-- the regenerated class table of `Version._regex`, with its certificate of consistency -/
def versionCtx : RxK.Ctx :=
  { n := Gen.VersionRx.nClasses, kinds := Gen.VersionRx.kinds, ranges := Gen.VersionRx.ranges,
    ok := version_classes_verified }

/-- the spec regex accepts exactly the renderings of valid spellings (every string of code points) -/
theorem spec_rx_iff_spelling (s : Str) (hs : ∀ cp ∈ s, cp < 0x110000) :
    accepts Gen.VersionRx.ranges (Pep440Rx.version Gen.VersionRx.kinds) s = true ↔
    ∃ sp : Spelling.Spelling, Spelling.Valid sp = true ∧ Spelling.render sp = s := by
  exact (versionCtx.accepts_iff_M (Pep440Rx.version Gen.VersionRx.kinds) s hs).trans
    versionCtx.M_version_iff_spelling

/-- **the scanner accepts exactly the language of the spec regex** -/
theorem scan_accepts_iff_spec_rx (s : Str) (hs : ∀ cp ∈ s, cp < 0x110000) :
    scan s ≠ none ↔ accepts Gen.VersionRx.ranges (Pep440Rx.version Gen.VersionRx.kinds) s = true := by
  rw [spec_rx_iff_spelling s hs]
  constructor
  · intro h
    cases hv : scan s with
    | none => exact absurd hv h
    | some v =>
      obtain ⟨sp, h1, h2, _⟩ := C02.scan_sound s v hv
      exact ⟨sp, h1, h2⟩
  · rintro ⟨sp, h1, rfl⟩
    rw [C02.scan_render sp h1]; simp

/-- **the scanner accepts exactly what the regenerated `Version._regex` accepts** -/
theorem scan_accepts_iff_source_regex (s : Str) (hs : ∀ cp ∈ s, cp < 0x110000) :
    (scan s).isSome = accepts Gen.VersionRx.ranges Gen.VersionRx.rx s := by
  rw [version_language s hs, Bool.eq_iff_iff, ← scan_accepts_iff_spec_rx s hs]
  cases scan s <;> simp

/-- strings with a code point outside Unicode are rejected by both sides (so the hypothesis `hs` only
excludes inputs that are not Python strings) -/
theorem scan_rejects_non_unicode (s : Str) (cp : Nat) (hm : cp ∈ s) (hcp : 0x110000 ≤ cp) : scan s = none := by
  cases hv : scan s with
  | none => rfl
  | some v =>
    exfalso
    obtain ⟨sp, h1, h2, _⟩ := C02.scan_sound s v hv
    have hm' : versionCtx.M (Pep440Rx.version versionCtx.kinds) s :=
      versionCtx.M_version_iff_spelling.mpr ⟨sp, h1, h2⟩
    have := hm'.1 cp hm
    omega

/-! ### non-vacuity -/

example : scan (ofString " v1!01.0.0-C.2_R3dev-4+AbC_01 ") ≠ none ∧
    accepts Gen.VersionRx.ranges (Pep440Rx.version Gen.VersionRx.kinds) (ofString " v1!01.0.0-C.2_R3dev-4+AbC_01 ") = true := by
  decide +kernel
example : scan (ofString "1.0-") = none ∧
    accepts Gen.VersionRx.ranges (Pep440Rx.version Gen.VersionRx.kinds) (ofString "1.0-") = false := by
  decide +kernel
-- the ambiguous tree: accepted on both sides
example : scan (ofString "1.0a-1") ≠ none ∧
    accepts Gen.VersionRx.ranges Gen.VersionRx.rx (ofString "1.0a-1") = true := by decide +kernel

end C12
