import PkgProofs.Lemmas.RxSpelling
import PkgProofs.Lemmas.ParseClause
import PkgProofs.Props.C02
import PkgProofs.Props.C12
/-!
# C12 (continued) — the scanner all models use accepts exactly the language of `Version._regex`

`V.scan` is the hand-written scanner; `C02` proves it accepts `s` iff `s` is the rendering of a valid
`Spelling`.  `RxK.Ctx.M_version_iff_spelling` proves the same of the spec regex `Pep440Rx.version`, for
*any* class table that satisfies `Kinds.consistent` — the only fact about the generated tables used here
is `C12.version_classes_verified`.  With `C12.version_language` (bisimulation certificate between the
spec regex and the regex regenerated from the working tree) this closes the chain

  `V.scan s` accepts  ⇔  spec regex accepts `s`  ⇔  the regenerated `Version._regex` accepts `s`

for every string of code points.  The second half does the same for the specifier scanner `S.parseSpec`
and `Specifier._regex` (`parseSpec_accepts_iff_spec_rx`, `parseSpec_accepts_iff_source_regex`).

Nothing here evaluates the generated tables: `RxK.Ctx` is instantiated with `version_classes_verified` /
`specifier_classes_verified`, so the theorems survive any regeneration that keeps those certificates and
`version_language` / `specifier_language` true.
-/
namespace C12
open Rx Py V

/-- the regenerated class table of `Version._regex`, with its certificate of consistency -/
def versionCtx : RxK.Ctx :=
  { n := Gen.VersionRx.nClasses, kinds := Gen.VersionRx.kinds, ranges := Gen.VersionRx.ranges,
    ok := version_classes_verified }

/-- the spec regex accepts exactly the renderings of valid spellings (every string of code points) -/
theorem spec_rx_iff_spelling (s : Str) (hs : ∀ cp ∈ s, cp < 0x110000) :
    accepts Gen.VersionRx.ranges (Pep440Rx.version Gen.VersionRx.kinds) s = true ↔
    ∃ sp : Spelling.Spelling, Spelling.Valid sp = true ∧ Spelling.render sp = s := by
  exact (versionCtx.accepts_iff_M (Pep440Rx.version Gen.VersionRx.kinds) s hs).trans
    versionCtx.M_version_iff_spelling

/-- **the scanner accepts exactly the language of the spec regex** -/
theorem scan_accepts_iff_spec_rx (s : Str) (hs : ∀ cp ∈ s, cp < 0x110000) :
    scan s ≠ none ↔ accepts Gen.VersionRx.ranges (Pep440Rx.version Gen.VersionRx.kinds) s = true := by
  rw [spec_rx_iff_spelling s hs]
  constructor
  · intro h
    cases hv : scan s with
    | none => exact absurd hv h
    | some v =>
      obtain ⟨sp, h1, h2, _⟩ := C02.scan_sound s v hv
      exact ⟨sp, h1, h2⟩
  · rintro ⟨sp, h1, rfl⟩
    rw [C02.scan_render sp h1]; simp

/-- **the scanner accepts exactly what the regenerated `Version._regex` accepts** -/
theorem scan_accepts_iff_source_regex (s : Str) (hs : ∀ cp ∈ s, cp < 0x110000) :
    (scan s).isSome = accepts Gen.VersionRx.ranges Gen.VersionRx.rx s := by
  rw [version_language s hs, Bool.eq_iff_iff, ← scan_accepts_iff_spec_rx s hs]
  cases scan s <;> simp

/-- strings with a code point outside Unicode are rejected by both sides (so the hypothesis `hs` only
excludes inputs that are not Python strings) -/
theorem scan_rejects_non_unicode (s : Str) (cp : Nat) (hm : cp ∈ s) (hcp : 0x110000 ≤ cp) : scan s = none := by
  cases hv : scan s with
  | none => rfl
  | some v =>
    exfalso
    obtain ⟨sp, h1, h2, _⟩ := C02.scan_sound s v hv
    have hm' : versionCtx.M (Pep440Rx.version versionCtx.kinds) s :=
      versionCtx.M_version_iff_spelling.mpr ⟨sp, h1, h2⟩
    have := hm'.1 cp hm
    omega

/-! ### the specifier scanner

`S.parseSpec` is the hand-written scanner for `Specifier._regex` + `Specifier.__init__` that C03/C04/C11 use.
Both it (`RxK.parse_iff`, from its definition and the `Spelling` lemmas about `V.scanCore`) and the spec regex
(`RxK.Ctx.M_specifier_iff`, for any class table satisfying `Kinds.consistent`) accept exactly: white space, one
of the eight operators, white space, a body that operator permits (`RxK.Body`), white space. -/

/-- the regenerated class table of `Specifier._regex`, with its certificate of consistency -/
def specifierCtx : RxK.Ctx :=
  { n := Gen.SpecifierRx.nClasses, kinds := Gen.SpecifierRx.kinds, ranges := Gen.SpecifierRx.ranges,
    ok := specifier_classes_verified }

/-- **the specifier scanner accepts exactly the language of the spec regex** -/
theorem parseSpec_accepts_iff_spec_rx (s : Str) (hs : ∀ cp ∈ s, cp < 0x110000) :
    (S.parseSpec s).isSome = accepts Gen.SpecifierRx.ranges (Pep440Rx.specifier Gen.SpecifierRx.kinds) s := by
  rw [Bool.eq_iff_iff, RxK.parse_iff]
  exact ((specifierCtx.accepts_iff_M (Pep440Rx.specifier Gen.SpecifierRx.kinds) s hs).trans
    (specifierCtx.M_specifier_iff hs)).symm

/-- **the specifier scanner accepts exactly what the regenerated `Specifier._regex` accepts** -/
theorem parseSpec_accepts_iff_source_regex (s : Str) (hs : ∀ cp ∈ s, cp < 0x110000) :
    (S.parseSpec s).isSome = accepts Gen.SpecifierRx.ranges Gen.SpecifierRx.rx s := by
  rw [specifier_language s hs]; exact parseSpec_accepts_iff_spec_rx s hs

/-! ### non-vacuity -/

example : scan (ofString " v1!01.0.0-C.2_R3dev-4+AbC_01 ") ≠ none ∧
    accepts Gen.VersionRx.ranges (Pep440Rx.version Gen.VersionRx.kinds) (ofString " v1!01.0.0-C.2_R3dev-4+AbC_01 ") = true := by
  decide +kernel
example : scan (ofString "1.0-") = none ∧
    accepts Gen.VersionRx.ranges (Pep440Rx.version Gen.VersionRx.kinds) (ofString "1.0-") = false := by
  decide +kernel
-- the ambiguous tree: accepted on both sides
example : scan (ofString "1.0a-1") ≠ none ∧
    accepts Gen.VersionRx.ranges Gen.VersionRx.rx (ofString "1.0a-1") = true := by decide +kernel

-- specifier clauses: wildcard, local label only after `==`, `~=` needs two release components, `===` anything
example : [ofString " == v1!1.00.* ", ofString "==1.0+ab.1", ofString ">=1.0+ab.1", ofString "~=1", ofString "~=1.0",
      ofString "===foo;", ofString "=== fo+o", ofString "<1.0a-1", ofString ">1.0.*", ofString "==1.0 .*"].map
      (fun s => ((S.parseSpec s).isSome,
        accepts Gen.SpecifierRx.ranges (Pep440Rx.specifier Gen.SpecifierRx.kinds) s,
        accepts Gen.SpecifierRx.ranges Gen.SpecifierRx.rx s)) =
    [(true, true, true), (true, true, true), (false, false, false), (false, false, false), (true, true, true),
     (false, false, false), (true, true, true), (true, true, true), (false, false, false), (false, false, false)] := by
  decide +kernel

end C12
