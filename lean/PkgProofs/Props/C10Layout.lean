import PkgProofs.Props.C09Layout
/-!
# C10 — interchangeable markers, character level, any layout

`C10` states interchangeability of equal `Marker`s through `str` (token level: `C09.same_tokens_same_eval`).  Here the
statement is carried to the **texts**: two layouts of one formula (`C07.WF`: any admissible white space, either quote
style per literal, any accepted spelling per variable, any amount of parentheses that keeps the grouping) are both
accepted by `Marker(text)`, and the two markers **evaluate identically in every environment** — the same boolean or the
same exception, whatever the default environment and the supplied overrides are (including environments for which
building the environment itself raises).  With `C09.eq_hash_layout_independent` (same string, equal, same hash for
layouts that differ in redundant parentheses) this is "equal objects behave identically" for markers written
differently.
-/
namespace C10
open Py Mk Pep508 MkParse MkFmt MkLex MkLexP MkWf MkLay C07 C09

theorem formulaOf_normalize (X : Ext) (l : List M) (f : Formula) (h : formulaOf l = some f) :
    formulaOf (normalizeExtra X l) = some (MkParse.Formula.map (normAtom X) f) := by
  have := fOfL_norm X l
  rw [show fOfL l = some f from h] at this
  simpa [formulaOf] using this

/-- `Marker(text)` of a well-formed layout of `t` denotes `t` with `extra` values normalised -/
theorem mkMarker_layout (X : Ext) (t : Formula) (ℓ : MkLayout) (h : WF t ℓ) :
    ∃ m, mkMarker X (renderL t ℓ) = .ok m ∧ formulaOf m = some (MkParse.Formula.map (normAtom X) t) := by
  obtain ⟨m0, hp, hf, _⟩ := C07.marker_parse_render_layout t ℓ h
  refine ⟨normalizeExtra X m0, ?_, formulaOf_normalize X m0 t hf⟩
  simp [mkMarker, hp, Except.map]

/-- evaluation only depends on the formula a marker denotes -/
theorem evaluate_of_formula (X : Ext) (dflt : List (Str × Str)) (supplied : Option Env) (m₁ m₂ : List M) (f : Formula)
    (h₁ : formulaOf m₁ = some f) (h₂ : formulaOf m₂ = some f) :
    evaluate X dflt supplied m₁ = evaluate X dflt supplied m₂ := by
  unfold evaluate
  cases hb : buildEnv dflt supplied with
  | error e => rfl
  | ok env =>
    simp only [bind, Except.bind]
    rw [C07.groups_is_or_of_ands _ _ _ h₁, C07.groups_is_or_of_ands _ _ _ h₂]

/-- **Two ways of writing one marker are interchangeable** (character level): both texts are accepted and the
markers return the same answer — value or exception — for every default environment and every override. -/
theorem marker_layouts_interchangeable (X : Ext) (t : Formula) (ℓ₁ ℓ₂ : MkLayout) (h₁ : WF t ℓ₁) (h₂ : WF t ℓ₂) :
    ∃ m₁ m₂, mkMarker X (renderL t ℓ₁) = .ok m₁ ∧ mkMarker X (renderL t ℓ₂) = .ok m₂ ∧
      ∀ dflt supplied, evaluate X dflt supplied m₁ = evaluate X dflt supplied m₂ := by
  obtain ⟨m₁, e₁, f₁⟩ := mkMarker_layout X t ℓ₁ h₁
  obtain ⟨m₂, e₂, f₂⟩ := mkMarker_layout X t ℓ₂ h₂
  exact ⟨m₁, m₂, e₁, e₂, fun d s => evaluate_of_formula X d s m₁ m₂ _ f₁ f₂⟩

/-- … and so are two formulas whose comparisons agree after `_normalize_extra_values` (`extra == "Foo_Bar"` /
`extra == "foo-bar"`), in any two layouts -/
theorem marker_extra_spellings_interchangeable (X : Ext) (t₁ t₂ : Formula) (ℓ₁ ℓ₂ : MkLayout) (h₁ : WF t₁ ℓ₁)
    (h₂ : WF t₂ ℓ₂) (ht : MkParse.Formula.map (normAtom X) t₁ = MkParse.Formula.map (normAtom X) t₂) :
    ∃ m₁ m₂, mkMarker X (renderL t₁ ℓ₁) = .ok m₁ ∧ mkMarker X (renderL t₂ ℓ₂) = .ok m₂ ∧
      ∀ dflt supplied, evaluate X dflt supplied m₁ = evaluate X dflt supplied m₂ := by
  obtain ⟨m₁, e₁, f₁⟩ := mkMarker_layout X t₁ ℓ₁ h₁
  obtain ⟨m₂, e₂, f₂⟩ := mkMarker_layout X t₂ ℓ₂ h₂
  rw [← ht] at f₂
  exact ⟨m₁, m₂, e₁, e₂, fun d s => evaluate_of_formula X d s m₁ m₂ _ f₁ f₂⟩

/-! non-vacuity: `C07.layA`, `C07.layB` are two different well-formed layouts of `C07.exT` (different white space, quote
styles, variable spellings, parentheses), so their texts differ and the theorem applies -/
example : WF exT layA ∧ WF exT layB ∧ renderL exT layA ≠ renderL exT layB := by decide +kernel

end C10
