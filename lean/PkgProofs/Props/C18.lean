import PkgModel.Email
namespace C18
end C18
