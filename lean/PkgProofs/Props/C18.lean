import PkgModel.Email
import PkgModel.Spec.Metadata
import PkgProofs.Lemmas.Assoc
import PkgProofs.Lemmas.Utf8
/-!
# C18 — `parse_email` is a lossless, typed partition of the document

The model (`PkgModel/Email.lean`) starts at what `email.parser` presents: the header list in document order
(names as spelled; values as `str` or as the byte chunks of a `Header` object) and the payload.  All theorems
quantify over arbitrary such documents and over every iteration order of `frozenset(parsed.keys())`.
-/
namespace C18
open Py Gen.Meta Meta Email

/-! ### 0. the regenerated tables are the specification's -/

/-- `_EMAIL_TO_RAW_MAPPING` maps exactly the 30 lower-cased header names of the core metadata specification to
their `RawMetadata` keys, and `_STRING_FIELDS` / `_LIST_FIELDS` / `_DICT_FIELDS` carry the declared types -/
theorem mapping_table :
    (∀ f : Field, aget (lowerStr (MetaSpec.headerName f)) emailToRaw = some f.rawName) ∧
    emailToRaw.length = Field.all.length ∧
    (∀ f : Field, stringFields.contains f.rawName = (MetaSpec.fieldType f == .str) ∧
                  listFields.contains f.rawName = (MetaSpec.fieldType f == .list) ∧
                  dictFields.contains f.rawName = (MetaSpec.fieldType f == .dict)) ∧
    stringFields.length + listFields.length + dictFields.length + 1 = Field.all.length := by
  refine ⟨?_, by decide +kernel, ?_, by decide +kernel⟩
  · intro f; cases f <;> decide +kernel
  · intro f; cases f <;> decide +kernel

/-! ### 1. folds of dict assignments -/

section Fold
variable {β : Type}

def updStep (upd : Str → Option (Str × β)) (a : List (Str × β)) (n : Str) : List (Str × β) :=
  match upd n with
  | some (k, v) => aset k v a
  | none => a

theorem aget_fold_miss (upd : Str → Option (Str × β)) (k : Str) (ns : List Str) :
    ∀ acc, (∀ n ∈ ns, ∀ v, upd n ≠ some (k, v)) → aget k (ns.foldl (updStep upd) acc) = aget k acc := by
  induction ns with
  | nil => intro acc _; rfl
  | cons n r ih =>
    intro acc h
    simp only [List.foldl_cons]
    rw [ih _ (fun m hm => h m (List.mem_cons_of_mem _ hm))]
    unfold updStep
    cases hu : upd n with
    | none => rfl
    | some p =>
      obtain ⟨k', v⟩ := p
      have : k' ≠ k := by
        rintro rfl; exact h n List.mem_cons_self v hu
      exact aget_aset_ne (fun e => this e.symm) v acc

theorem aget_fold_hit (upd : Str → Option (Str × β)) (k : Str) (val : β) (ns : List Str) :
    ∀ acc, (∃ n ∈ ns, upd n = some (k, val)) → (∀ n ∈ ns, ∀ v, upd n = some (k, v) → v = val) →
      aget k (ns.foldl (updStep upd) acc) = some val := by
  induction ns with
  | nil => intro acc h; obtain ⟨n, hn, _⟩ := h; cases hn
  | cons n r ih =>
    intro acc hex hcons
    simp only [List.foldl_cons]
    have hcr : ∀ m ∈ r, ∀ v, upd m = some (k, v) → v = val := fun m hm => hcons m (List.mem_cons_of_mem _ hm)
    by_cases hr : ∃ m ∈ r, upd m = some (k, val)
    · exact ih _ hr hcr
    · have hmiss : ∀ m ∈ r, ∀ v, upd m ≠ some (k, v) := by
        intro m hm v hv
        have := hcr m hm v hv
        subst this
        exact hr ⟨m, hm, hv⟩
      rw [aget_fold_miss upd k r _ hmiss]
      obtain ⟨m, hm, hu⟩ := hex
      have : m = n := by
        cases hm with
        | head => rfl
        | tail _ hm' => exact absurd ⟨m, hm', hu⟩ hr
      subst this
      simp only [updStep, hu, aget_aset_self]
end Fold

/-! ### 2. the header loop as two independent folds; look-ups in its result -/

def rawUpd (doc : Doc) (n : Str) : Option (Str × Val) :=
  match classify doc (lowerStr n) with
  | .raw k v => some (k, v)
  | .unparsed _ => none

def unpUpd (doc : Doc) (n : Str) : Option (Str × List UVal) :=
  match classify doc (lowerStr n) with
  | .raw _ _ => none
  | .unparsed vals => some (lowerStr n, vals.map .str)

theorem foldl_step (doc : Doc) (ns : List Str) : ∀ (a : Dict) (b : Unparsed),
    ns.foldl (step doc) (a, b) = (ns.foldl (updStep (rawUpd doc)) a, ns.foldl (updStep (unpUpd doc)) b) := by
  induction ns with
  | nil => intro a b; rfl
  | cons n r ih =>
    intro a b
    simp only [List.foldl_cons]
    have : step doc (a, b) n = (updStep (rawUpd doc) a n, updStep (unpUpd doc) b n) := by
      simp only [step, updStep, rawUpd, unpUpd]
      cases classify doc (lowerStr n) <;> rfl
    rw [this, ih]

theorem headerLoop_eq (doc : Doc) (order : List Str) :
    headerLoop doc order = (order.foldl (updStep (rawUpd doc)) [], order.foldl (updStep (unpUpd doc)) []) :=
  foldl_step doc order [] []

/-- `_EMAIL_TO_RAW_MAPPING` maps different header names to different keys -/
theorem emailToRaw_values_nodup : (emailToRaw.map (·.2)).Nodup := by decide +kernel

theorem aget_mem {β} {k : Str} {v : β} {d : List (Str × β)} (h : aget k d = some v) : (k, v) ∈ d := by
  induction d with
  | nil => cases h
  | cons p r ih =>
    obtain ⟨k', v'⟩ := p
    by_cases e : k' = k
    · simp only [aget, e, if_true, Option.some.injEq] at h; subst e h; exact List.mem_cons_self
    · simp only [aget, e, if_false] at h; exact List.mem_cons_of_mem _ (ih h)

theorem fst_eq_of_nodup_snd {β} [DecidableEq β] {d : List (Str × β)} (hn : (d.map (·.2)).Nodup) {a b : Str} {k : β}
    (ha : (a, k) ∈ d) (hb : (b, k) ∈ d) : a = b := by
  induction d with
  | nil => cases ha
  | cons p r ih =>
    simp only [List.map_cons, List.nodup_cons, List.mem_map, not_exists, not_and] at hn
    cases ha with
    | head =>
      cases hb with
      | head => rfl
      | tail _ hb => exact absurd rfl (hn.1 (b, k) hb)
    | tail _ ha =>
      cases hb with
      | head => exact absurd rfl (hn.1 (a, k) ha)
      | tail _ hb => exact ih hn.2 ha hb

theorem emailToRaw_inj {l1 l2 k : Str} (h1 : aget l1 emailToRaw = some k) (h2 : aget l2 emailToRaw = some k) :
    l1 = l2 :=
  fst_eq_of_nodup_snd emailToRaw_values_nodup (aget_mem h1) (aget_mem h2)

/-- a name goes to `raw` only under the key `_EMAIL_TO_RAW_MAPPING` assigns to it -/
theorem classify_raw_key {doc : Doc} {l k : Str} {v : Val} (h : classify doc l = .raw k v) :
    aget l emailToRaw = some k := by
  unfold classify at h
  simp only at h
  split at h
  · cases h
  · split at h
    · cases h
    · rename_i rawName hget
      rw [hget]
      repeat' split at h
      all_goals first
        | (cases h; done)
        | (cases h; rfl)

theorem rawUpd_consistent {doc : Doc} {n1 n2 k : Str} {v1 v2 : Val}
    (h1 : rawUpd doc n1 = some (k, v1)) (h2 : rawUpd doc n2 = some (k, v2)) : v1 = v2 := by
  unfold rawUpd at h1 h2
  cases hc1 : classify doc (lowerStr n1) with
  | unparsed _ => rw [hc1] at h1; cases h1
  | raw k1 w1 =>
    cases hc2 : classify doc (lowerStr n2) with
    | unparsed _ => rw [hc2] at h2; cases h2
    | raw k2 w2 =>
      rw [hc1] at h1; rw [hc2] at h2
      simp only [Option.some.injEq, Prod.mk.injEq] at h1 h2
      obtain ⟨rfl, rfl⟩ := h1
      obtain ⟨rfl, rfl⟩ := h2
      have := emailToRaw_inj (classify_raw_key hc1) (classify_raw_key hc2)
      rw [this] at hc1
      rw [hc1] at hc2
      simp only [Cls.raw.injEq] at hc2
      exact hc2.2

/-- **look-up in the raw dict after the loop** -/
theorem raw_lookup_iff (doc : Doc) (order : List Str) (k : Str) (v : Val) :
    aget k (headerLoop doc order).1 = some v ↔ ∃ n ∈ order, classify doc (lowerStr n) = .raw k v := by
  rw [headerLoop_eq]
  simp only
  have hupd : ∀ n w, rawUpd doc n = some (k, w) ↔ classify doc (lowerStr n) = .raw k w := by
    intro n w
    unfold rawUpd
    cases classify doc (lowerStr n) with
    | unparsed _ => simp
    | raw k' w' => simp only [Option.some.injEq, Prod.mk.injEq, Cls.raw.injEq]
  constructor
  · intro h
    by_cases hex : ∃ n ∈ order, ∃ w, rawUpd doc n = some (k, w)
    · obtain ⟨n, hn, w, hw⟩ := hex
      have := aget_fold_hit (rawUpd doc) k w order [] ⟨n, hn, hw⟩
        (fun m _ w' hw' => rawUpd_consistent hw' hw)
      rw [this] at h
      cases h
      exact ⟨n, hn, (hupd n _).mp hw⟩
    · have := aget_fold_miss (rawUpd doc) k order [] (fun n hn w hw => hex ⟨n, hn, w, hw⟩)
      rw [this] at h
      cases h
  · rintro ⟨n, hn, hc⟩
    exact aget_fold_hit (rawUpd doc) k v order [] ⟨n, hn, (hupd n v).mpr hc⟩
      (fun m _ w' hw' => rawUpd_consistent hw' ((hupd n v).mpr hc))

/-- **look-up in the unparsed dict after the loop** -/
theorem unparsed_lookup_iff (doc : Doc) (order : List Str) (l : Str) (vs : List UVal) :
    aget l (headerLoop doc order).2 = some vs ↔
      ∃ n ∈ order, lowerStr n = l ∧ ∃ vals, classify doc l = .unparsed vals ∧ vs = vals.map .str := by
  rw [headerLoop_eq]
  simp only
  have hupd : ∀ n w, unpUpd doc n = some (l, w) ↔
      lowerStr n = l ∧ ∃ vals, classify doc l = .unparsed vals ∧ w = vals.map .str := by
    intro n w
    unfold unpUpd
    cases hc : classify doc (lowerStr n) with
    | raw k' w' =>
      simp only [reduceCtorEq, false_iff, not_and, not_exists]
      rintro rfl vals hv; rw [hc] at hv; cases hv
    | unparsed vals =>
      simp only [Option.some.injEq, Prod.mk.injEq]
      constructor
      · rintro ⟨rfl, rfl⟩; exact ⟨rfl, vals, hc, rfl⟩
      · rintro ⟨rfl, vals', hv, rfl⟩
        rw [hc] at hv; cases hv; exact ⟨rfl, rfl⟩
  have hcons : ∀ n1 n2 w1 w2, unpUpd doc n1 = some (l, w1) → unpUpd doc n2 = some (l, w2) → w1 = w2 := by
    intro n1 n2 w1 w2 h1 h2
    obtain ⟨_, vals1, hv1, rfl⟩ := (hupd n1 w1).mp h1
    obtain ⟨_, vals2, hv2, rfl⟩ := (hupd n2 w2).mp h2
    rw [hv1] at hv2; cases hv2; rfl
  constructor
  · intro h
    by_cases hex : ∃ n ∈ order, ∃ w, unpUpd doc n = some (l, w)
    · obtain ⟨n, hn, w, hw⟩ := hex
      have := aget_fold_hit (unpUpd doc) l w order [] ⟨n, hn, hw⟩ (fun m _ w' hw' => hcons _ _ _ _ hw' hw)
      rw [this] at h
      cases h
      exact ⟨n, hn, (hupd n _).mp hw⟩
    · have := aget_fold_miss (unpUpd doc) l order [] (fun n hn w hw => hex ⟨n, hn, w, hw⟩)
      rw [this] at h
      cases h
  · rintro ⟨n, hn, hc⟩
    exact aget_fold_hit (unpUpd doc) l vs order [] ⟨n, hn, (hupd n vs).mpr hc⟩
      (fun m _ w' hw' => hcons _ _ _ _ hw' ((hupd n vs).mpr hc))

/-! ### 3. what the loop decides for one header name -/

/-- all values of a (lower-cased) name, decoded, in document order -/
def vals (doc : Doc) (l : Str) : List Str := ((getAll doc l).map decodeVal).map (·.1)

/-- every value of the name is a `str` or decodes as strict UTF-8 -/
def allValid (doc : Doc) (l : Str) : Bool := ((getAll doc l).map decodeVal).all (·.2)

def labels (vs : List Str) : List Str := vs.map fun p => (labelUrl p).1

theorem parseProjectUrls_spec (vs : List Str) : ∀ acc : List (Str × Str),
    parseProjectUrls vs acc =
      if (labels vs).Nodup ∧ ∀ x ∈ labels vs, x ∉ acc.map (·.1) then some (acc ++ vs.map labelUrl) else none := by
  induction vs with
  | nil => intro acc; simp [parseProjectUrls, labels]
  | cons p r ih =>
    intro acc
    simp only [parseProjectUrls, labels, List.map_cons, List.nodup_cons, List.mem_cons, forall_eq_or_imp]
    by_cases hc : (acc.map (·.1)).contains (labelUrl p).1 = true
    · have : (labelUrl p).1 ∈ acc.map (·.1) := List.contains_iff_mem.mp hc
      simp only [hc, if_true]
      rw [if_neg]
      intro h; exact h.2.1 this
    · have hn : (labelUrl p).1 ∉ acc.map (·.1) := fun h => hc (List.contains_iff_mem.mpr h)
      simp only [hc, Bool.false_eq_true, if_false]
      rw [ih]
      simp only [labels, List.map_append, List.map_cons, List.map_nil, List.mem_append, List.mem_cons,
        List.not_mem_nil, or_false, not_or, List.append_assoc, List.singleton_append]
      by_cases hgoal : ((¬(labelUrl p).1 ∈ List.map (fun p => (labelUrl p).1) r) ∧
          (List.map (fun p => (labelUrl p).1) r).Nodup) ∧
          ¬(labelUrl p).1 ∈ List.map (fun x => x.1) acc ∧
          ∀ x ∈ List.map (fun p => (labelUrl p).1) r, ¬x ∈ List.map (fun x => x.1) acc
      · rw [if_pos hgoal, if_pos]
        refine ⟨hgoal.1.2, fun x hx => ⟨hgoal.2.2 x hx, ?_⟩⟩
        rintro rfl; exact hgoal.1.1 hx
      · rw [if_neg hgoal, if_neg]
        rintro ⟨hnd, hall⟩
        apply hgoal
        refine ⟨⟨?_, hnd⟩, hn, fun x hx => (hall x hx).1⟩
        intro hmem; exact (hall _ hmem).2 rfl

/-- `_parse_project_urls`: a dict in document order when the labels are distinct, else `KeyError` -/
theorem parseProjectUrls_nil (vs : List Str) :
    parseProjectUrls vs [] = if (labels vs).Nodup then some (vs.map labelUrl) else none := by
  rw [parseProjectUrls_spec]; simp

theorem tables_disjoint :
    (stringFields.all fun k => !listFields.contains k && !(k == keywordsKey) && !(k == projectUrlsKey)) = true ∧
    (listFields.all fun k => !(k == keywordsKey) && !(k == projectUrlsKey)) = true ∧
    (keywordsKey == projectUrlsKey) = false ∧
    aget (ofString "keywords") emailToRaw = some keywordsKey ∧
    aget (ofString "project-url") emailToRaw = some projectUrlsKey ∧
    aget (ofString "description") emailToRaw = some descriptionKey ∧
    stringFields.contains descriptionKey = true := by decide +kernel

/-- **no loss (unparsed side)**: whatever goes to `unparsed` goes there with all its values, in document order -/
theorem unparsed_keeps_all_values {doc : Doc} {l : Str} {vs : List Str} (h : classify doc l = .unparsed vs) :
    vs = vals doc l := by
  unfold classify at h
  simp only at h
  repeat' split at h
  all_goals first
    | (cases h; rfl)
    | cases h

/-- **typed / no loss (raw side)**: a name goes to `raw` only when all its values decode, under the key of
`_EMAIL_TO_RAW_MAPPING`, with the declared type, and the value is (a re-arrangement of) all header values:
the single value of a string field; all values of a list field in document order; the comma-split of the
single Keywords value; the label → URL dict of all Project-URL values, whose labels are distinct. -/
theorem typed {doc : Doc} {l k : Str} {v : Val} (h : classify doc l = .raw k v) :
    allValid doc l = true ∧ aget l emailToRaw = some k ∧
    ((stringFields.contains k = true ∧ ∃ s, v = .str s ∧ vals doc l = [s]) ∨
     (listFields.contains k = true ∧ v = .list (vals doc l)) ∨
     (k = keywordsKey ∧ ∃ s, vals doc l = [s] ∧ v = .list (parseKeywords s)) ∨
     (k = projectUrlsKey ∧ v = .dict ((vals doc l).map labelUrl) ∧ (labels (vals doc l)).Nodup)) := by
  have hk := classify_raw_key h
  refine ⟨?_, hk, ?_⟩
  · unfold classify at h
    simp only at h
    split at h
    · cases h
    · rename_i hv; simpa [allValid] using hv
  · unfold classify at h
    simp only [hk] at h
    have hone : ∀ xs : List Str, xs.length = 1 → xs = [xs.headD []] := by
      intro xs hx
      match xs, hx with
      | [x], _ => rfl
    split at h
    · cases h
    · split at h
      · rename_i hc
        simp only [Bool.and_eq_true, beq_iff_eq] at hc
        cases h
        exact .inl ⟨hc.1, _, rfl, hone _ hc.2⟩
      · split at h
        · rename_i hc
          cases h
          exact .inr (.inl ⟨hc, rfl⟩)
        · split at h
          · rename_i hc
            simp only [Bool.and_eq_true, beq_iff_eq] at hc
            cases h
            exact .inr (.inr (.inl ⟨hc.1, _, hone _ hc.2, rfl⟩))
          · split at h
            · rename_i hc
              simp only [beq_iff_eq] at hc
              rw [parseProjectUrls_nil] at h
              split at h
              · rename_i d hd
                by_cases hnd : (labels (vals doc l)).Nodup
                · rw [show (List.map (fun x => x.fst) (List.map decodeVal (getAll doc l))) = vals doc l from rfl,
                    if_pos hnd, Option.some.injEq] at hd
                  cases h
                  exact .inr (.inr (.inr ⟨hc, by rw [← hd], hnd⟩))
                · rw [show (List.map (fun x => x.fst) (List.map decodeVal (getAll doc l))) = vals doc l from rfl,
                    if_neg hnd] at hd
                  cases hd
              · cases h
            · cases h

theorem string_field_excl {k : Str} (h : stringFields.contains k = true) :
    listFields.contains k = false ∧ (k == keywordsKey) = false ∧ (k == projectUrlsKey) = false := by
  have := List.all_eq_true.mp tables_disjoint.1 k (List.contains_iff_mem.mp h)
  simp only [Bool.and_eq_true, Bool.not_eq_true'] at this
  exact ⟨this.1.1, this.1.2, this.2⟩

/-- **undecodable bytes**: one value that is not valid UTF-8 sends the name, with all its values, to `unparsed` -/
theorem bad_bytes_unparsed {doc : Doc} {l : Str} (h : allValid doc l = false) :
    classify doc l = .unparsed (vals doc l) := by
  unfold classify
  simp only [show ((getAll doc l).map decodeVal).all (·.2) = allValid doc l from rfl, h, Bool.not_false, if_true]
  rfl

theorem bad_chunk_invalid {doc : Doc} {n l : Str} {chunks : List (List Nat)} {b : List Nat}
    (hm : (n, HVal.hdr chunks) ∈ doc.hdrs) (hl : lowerStr n = l) (hb : b ∈ chunks) (hbad : utf8Decode b = none) :
    allValid doc l = false := by
  have h1 : HVal.hdr chunks ∈ getAll doc l := by
    simp only [getAll, List.mem_map, List.mem_filter, beq_iff_eq]
    exact ⟨(n, .hdr chunks), ⟨hm, hl⟩, rfl⟩
  have h2 : (decodeVal (.hdr chunks)).2 = false := by
    simp only [decodeVal]
    apply Bool.eq_false_iff.mpr
    intro hall
    have := List.all_eq_true.mp hall (decodeChunk b) (List.mem_map_of_mem hb)
    simp only [decodeChunk, hbad] at this
    cases this
  apply Bool.eq_false_iff.mpr
  intro hall
  have := List.all_eq_true.mp hall (decodeVal (.hdr chunks)) (List.mem_map_of_mem h1)
  rw [h2] at this
  cases this

/-- … where "does not decode" means, by `Utf8.utf8Decode_none_iff`, that the chunk is not the UTF-8 encoding of any
sequence of Unicode scalar values -/
theorem bad_chunk_not_utf8 {doc : Doc} {n l : Str} {chunks : List (List Nat)} {b : List Nat}
    (hm : (n, HVal.hdr chunks) ∈ doc.hdrs) (hl : lowerStr n = l) (hb : b ∈ chunks)
    (hbad : ∀ s : Str, s.all Utf8.isScalar = true → Utf8.encode s ≠ b) :
    classify doc l = .unparsed (vals doc l) :=
  bad_bytes_unparsed (bad_chunk_invalid hm hl hb ((Utf8.utf8Decode_none_iff b).mpr hbad))

/-- **unknown names** go to `unparsed` with all their values -/
theorem unknown_unparsed {doc : Doc} {l : Str} (h : aget l emailToRaw = none) :
    classify doc l = .unparsed (vals doc l) := by
  unfold classify
  simp only [h]
  split <;> rfl

/-- **a single-use field that repeats** (a string field or Keywords given zero or several times among the
headers of that name) goes to `unparsed` with all its values -/
theorem repeat_single_use_unparsed {doc : Doc} {l k : Str} (hk : aget l emailToRaw = some k)
    (hs : stringFields.contains k = true ∨ k = keywordsKey) (hlen : (getAll doc l).length ≠ 1) :
    classify doc l = .unparsed (vals doc l) := by
  have hl : ((((getAll doc l).map decodeVal).map (·.1)).length == 1) = false := by
    simp only [List.length_map, beq_eq_false_iff_ne, ne_eq]; exact hlen
  unfold classify
  simp only [hk, hl, Bool.and_false, Bool.false_eq_true, if_false]
  split
  · rfl
  · rcases hs with hs | hs
    · obtain ⟨h1, _, h3⟩ := string_field_excl hs
      simp only [h1, h3, Bool.false_eq_true, if_false]
      rfl
    · subst hs
      have h1 : listFields.contains keywordsKey = false := by decide +kernel
      have h3 : (keywordsKey == projectUrlsKey) = false := tables_disjoint.2.2.1
      simp only [h1, h3, Bool.false_eq_true, if_false]
      rfl

/-- **duplicate Project-URL labels** send all Project-URL values to `unparsed` -/
theorem dup_label_unparsed {doc : Doc} {l : Str} (hk : aget l emailToRaw = some projectUrlsKey)
    (hd : ¬ (labels (vals doc l)).Nodup) : classify doc l = .unparsed (vals doc l) := by
  have h0 : stringFields.contains projectUrlsKey = false := by decide +kernel
  have h1 : listFields.contains projectUrlsKey = false := by decide +kernel
  have h2 : (projectUrlsKey == keywordsKey) = false := by decide +kernel
  unfold classify
  simp only [hk, h0, h1, h2, Bool.false_and, Bool.false_eq_true, if_false, beq_self_eq_true, if_true,
    parseProjectUrls_nil]
  rw [show (List.map (fun x => x.fst) (List.map decodeVal (getAll doc l))) = vals doc l from rfl, if_neg hd]
  split <;> rfl

/-- and conversely a well-formed recognised field does go to `raw` (so `typed` is not vacuous):
a string field given once, a list field given any number of times -/
theorem string_once_raw {doc : Doc} {l k s : Str} (hv : allValid doc l = true) (hk : aget l emailToRaw = some k)
    (hs : stringFields.contains k = true) (hone : vals doc l = [s]) : classify doc l = .raw k (.str s) := by
  unfold classify
  have hv' : ((getAll doc l).map decodeVal).all (·.2) = true := hv
  have hone' : ((getAll doc l).map decodeVal).map (·.1) = [s] := hone
  simp only [hv', hk, hs, hone', Bool.not_true, Bool.false_eq_true, if_false, List.length_singleton,
    beq_self_eq_true, Bool.and_self, if_true, List.headD_cons]

theorem list_field_raw {doc : Doc} {l k : Str} (hv : allValid doc l = true) (hk : aget l emailToRaw = some k)
    (hs : listFields.contains k = true) : classify doc l = .raw k (.list (vals doc l)) := by
  have hns : stringFields.contains k = false := by
    cases h : stringFields.contains k with
    | false => rfl
    | true => rw [(string_field_excl h).1] at hs; cases hs
  unfold classify
  have hv' : ((getAll doc l).map decodeVal).all (·.2) = true := hv
  simp only [hv', hk, hs, hns, Bool.not_true, Bool.false_eq_true, if_false, Bool.false_and, if_true]
  rfl

/-! ### 4. the partition after the header loop -/

/-- `order` enumerates the names `parsed.keys()` lists (any order, any multiplicity) -/
def Enumerates (order : List Str) (doc : Doc) : Prop := ∀ n, n ∈ order ↔ n ∈ doc.names

theorem lower_mem_order {doc : Doc} {order : List Str} (ho : Enumerates order doc) {l : Str}
    (hl : l ∈ doc.names.map lowerStr) : ∃ n ∈ order, lowerStr n = l := by
  obtain ⟨n, hn, rfl⟩ := List.mem_map.mp hl
  exact ⟨n, (ho n).mpr hn, rfl⟩

/-- **partition (header loop)**: every header name present, lower-cased, is in exactly one of the two dicts —
in `raw` under its `RawMetadata` key with the classified value, or in `unparsed` with all its values -/
theorem loop_partition (doc : Doc) (order : List Str) (ho : Enumerates order doc) (l : Str)
    (hl : l ∈ doc.names.map lowerStr) :
    (∃ k v, classify doc l = .raw k v ∧ aget k (headerLoop doc order).1 = some v ∧
        aget l (headerLoop doc order).2 = none) ∨
    (classify doc l = .unparsed (vals doc l) ∧
        aget l (headerLoop doc order).2 = some ((vals doc l).map .str) ∧
        ∀ k, aget l emailToRaw = some k → aget k (headerLoop doc order).1 = none) := by
  obtain ⟨n, hn, hnl⟩ := lower_mem_order ho hl
  cases hc : classify doc l with
  | raw k v =>
    refine .inl ⟨k, v, rfl, (raw_lookup_iff doc order k v).mpr ⟨n, hn, by rw [hnl]; exact hc⟩, ?_⟩
    cases hu : aget l (headerLoop doc order).2 with
    | none => rfl
    | some vs =>
      obtain ⟨_, _, _, vals', hv, _⟩ := (unparsed_lookup_iff doc order l vs).mp hu
      rw [hc] at hv; cases hv
  | unparsed vs =>
    have hvs := unparsed_keeps_all_values hc
    subst hvs
    refine .inr ⟨rfl, (unparsed_lookup_iff doc order l _).mpr ⟨n, hn, hnl, _, hc, rfl⟩, fun k hk => ?_⟩
    cases hr : aget k (headerLoop doc order).1 with
    | none => rfl
    | some v =>
      obtain ⟨m, _, hm⟩ := (raw_lookup_iff doc order k v).mp hr
      have := emailToRaw_inj (classify_raw_key hm) hk
      rw [this, hc] at hm
      cases hm

/-- **no invention (header loop)**: every key of the two dicts comes from a header name that is present -/
theorem loop_no_invention (doc : Doc) (order : List Str) (ho : Enumerates order doc) :
    (∀ k v, aget k (headerLoop doc order).1 = some v →
        ∃ l ∈ doc.names.map lowerStr, classify doc l = .raw k v) ∧
    (∀ l vs, aget l (headerLoop doc order).2 = some vs →
        l ∈ doc.names.map lowerStr ∧ vs = (vals doc l).map .str) := by
  constructor
  · intro k v h
    obtain ⟨n, hn, hc⟩ := (raw_lookup_iff doc order k v).mp h
    exact ⟨lowerStr n, List.mem_map_of_mem ((ho n).mp hn), hc⟩
  · intro l vs h
    obtain ⟨n, hn, hnl, vals', hc, hvs⟩ := (unparsed_lookup_iff doc order l vs).mp h
    refine ⟨hnl ▸ List.mem_map_of_mem ((ho n).mp hn), ?_⟩
    rw [hvs, unparsed_keeps_all_values hc]

/-- **iteration order is irrelevant**: two enumerations of the header names give the same two dicts (as maps) -/
theorem order_irrelevant (doc : Doc) (o1 o2 : List Str) (h1 : Enumerates o1 doc) (h2 : Enumerates o2 doc) (k : Str) :
    aget k (headerLoop doc o1).1 = aget k (headerLoop doc o2).1 ∧
    aget k (headerLoop doc o1).2 = aget k (headerLoop doc o2).2 := by
  have hmem : ∀ n, n ∈ o1 ↔ n ∈ o2 := fun n => (h1 n).trans (h2 n).symm
  constructor
  · cases h : aget k (headerLoop doc o1).1 with
    | some v =>
      obtain ⟨n, hn, hc⟩ := (raw_lookup_iff doc o1 k v).mp h
      exact ((raw_lookup_iff doc o2 k v).mpr ⟨n, (hmem n).mp hn, hc⟩).symm
    | none =>
      cases h' : aget k (headerLoop doc o2).1 with
      | none => rfl
      | some v =>
        obtain ⟨n, hn, hc⟩ := (raw_lookup_iff doc o2 k v).mp h'
        rw [(raw_lookup_iff doc o1 k v).mpr ⟨n, (hmem n).mpr hn, hc⟩] at h
        cases h
  · cases h : aget k (headerLoop doc o1).2 with
    | some v =>
      obtain ⟨n, hn, hc⟩ := (unparsed_lookup_iff doc o1 k v).mp h
      exact ((unparsed_lookup_iff doc o2 k v).mpr ⟨n, (hmem n).mp hn, hc⟩).symm
    | none =>
      cases h' : aget k (headerLoop doc o2).2 with
      | none => rfl
      | some v =>
        obtain ⟨n, hn, hc⟩ := (unparsed_lookup_iff doc o2 k v).mp h'
        rw [(unparsed_lookup_iff doc o1 k v).mpr ⟨n, (hmem n).mpr hn, hc⟩] at h
        cases h

/-! ### 5. the body -/

def strOf : Val → Str
  | .str s => s
  | _ => []

theorem empty_body_ignored (acc : Dict × Unparsed) : mergeBody acc [] = acc := by
  simp [mergeBody]

theorem extendDescription_lookup (u : Unparsed) (xs : List UVal) (k : Str) :
    aget k (extendDescription u xs) =
      if descriptionKey = k then some ((aget descriptionKey u).getD [] ++ xs) else aget k u := by
  simp only [extendDescription, aget_aset]

/-- **body / description rule** for a non-empty decodable body `s`: other keys are untouched; if `raw` holds a
Description header, header and body both move to `unparsed["description"]` (after whatever is there); if the
Description headers are already in `unparsed`, the body is appended; otherwise the body is the description -/
theorem body_description_rule (acc : Dict × Unparsed) (s : Str) (hs : s ≠ []) :
    (∀ k, k ≠ descriptionKey →
      aget k (mergeBody acc s).1 = aget k acc.1 ∧ aget k (mergeBody acc s).2 = aget k acc.2) ∧
    (match aget descriptionKey acc.1, aget descriptionKey acc.2 with
     | some v, u =>
       aget descriptionKey (mergeBody acc s).1 = none ∧
       aget descriptionKey (mergeBody acc s).2 = some (u.getD [] ++ [.str (strOf v), .str s])
     | none, some u =>
       aget descriptionKey (mergeBody acc s).1 = none ∧
       aget descriptionKey (mergeBody acc s).2 = some (u ++ [.str s])
     | none, none =>
       aget descriptionKey (mergeBody acc s).1 = some (.str s) ∧
       aget descriptionKey (mergeBody acc s).2 = none) := by
  have he : s.isEmpty = false := by cases s <;> simp_all
  constructor
  · intro k hk
    have hk' : ¬ descriptionKey = k := fun e => hk e.symm
    simp only [mergeBody, he, Bool.false_eq_true, if_false]
    cases h1 : aget descriptionKey acc.1 with
    | some v => simp only [aget_adel, extendDescription_lookup, hk', if_false, and_self]
    | none =>
      cases h2 : aget descriptionKey acc.2 with
      | some u => simp only [extendDescription_lookup, hk', if_false, and_self]
      | none => simp only [aget_aset, hk', if_false, and_self]
  · simp only [mergeBody, he, Bool.false_eq_true, if_false]
    cases h1 : aget descriptionKey acc.1 with
    | some v =>
      simp only [aget_adel_self, extendDescription_lookup, if_true, true_and]
      cases v <;> rfl
    | none =>
      cases h2 : aget descriptionKey acc.2 with
      | some u => simp only [h1, h2, extendDescription_lookup, if_true, Option.getD_some, and_self]
      | none => simp only [h2, aget_aset_self, and_self]

/-- how the final dicts relate to the dicts after the header loop -/
def Rel (acc r : Dict × Unparsed) : Prop :=
  (∀ k, k ≠ descriptionKey → aget k r.1 = aget k acc.1 ∧ aget k r.2 = aget k acc.2) ∧
  ((aget descriptionKey r.1 = aget descriptionKey acc.1 ∧ aget descriptionKey r.2 = aget descriptionKey acc.2) ∨
   (aget descriptionKey r.1 = none ∧ (aget descriptionKey r.2).isSome = true) ∨
   (aget descriptionKey acc.1 = none ∧ aget descriptionKey acc.2 = none ∧
     (aget descriptionKey r.1).isSome = true ∧ aget descriptionKey r.2 = none))

theorem mergeBody_rel (acc : Dict × Unparsed) (s : Str) : Rel acc (mergeBody acc s) := by
  by_cases hs : s = []
  · subst hs; rw [empty_body_ignored]; exact ⟨fun _ _ => ⟨rfl, rfl⟩, .inl ⟨rfl, rfl⟩⟩
  · obtain ⟨h1, h2⟩ := body_description_rule acc s hs
    refine ⟨h1, ?_⟩
    cases ha : aget descriptionKey acc.1 with
    | some v => rw [ha] at h2; exact .inr (.inl ⟨h2.1, by rw [h2.2]; rfl⟩)
    | none =>
      cases hb : aget descriptionKey acc.2 with
      | some u => rw [ha, hb] at h2; exact .inr (.inl ⟨h2.1, by rw [h2.2]; rfl⟩)
      | none => rw [ha, hb] at h2; exact .inr (.inr ⟨rfl, rfl, by rw [h2.1]; rfl, h2.2⟩)

/-- **undecodable body**: it goes to `unparsed["description"]` as the `bytes` it is, together with a Description
header if `raw` holds one — the name never stays in both dicts -/
theorem bad_body_rule (doc : Doc) (order : List Str) (b : List Nat) (r : Dict × Unparsed)
    (hp : doc.payload = .bytes b) (hb : utf8Decode b = none) (h : parseEmail doc order = .ok r) :
    aget descriptionKey r.1 = none ∧
    aget descriptionKey r.2 = some
      ((aget descriptionKey (headerLoop doc order).2).getD [] ++
        (match aget descriptionKey (headerLoop doc order).1 with
         | some v => [.str (strOf v), .bytes b]
         | none => [.bytes b])) ∧
    ∀ k, k ≠ descriptionKey → aget k r.1 = aget k (headerLoop doc order).1 ∧ aget k r.2 = aget k (headerLoop doc order).2 := by
  unfold parseEmail at h
  split at h
  · cases h
  · simp only [hp, hb] at h
    cases ha : aget descriptionKey (headerLoop doc order).1 with
    | some v =>
      rw [ha] at h
      simp only [Except.ok.injEq] at h
      subst h
      refine ⟨aget_adel_self _ _, ?_, fun k hk => ?_⟩
      · simp only [extendDescription_lookup, if_true]; cases v <;> rfl
      · have hk' : ¬ descriptionKey = k := fun e => hk e.symm
        simp only [aget_adel, extendDescription_lookup, hk', if_false, and_self]
    | none =>
      rw [ha] at h
      simp only [Except.ok.injEq] at h
      subst h
      refine ⟨ha, ?_, fun k hk => ?_⟩
      · simp only [extendDescription_lookup, if_true]
      · have hk' : ¬ descriptionKey = k := fun e => hk e.symm
        simp only [extendDescription_lookup, hk', if_false, and_self]

theorem parseEmail_rel {doc : Doc} {order : List Str} {r : Dict × Unparsed}
    (h : parseEmail doc order = .ok r) : Rel (headerLoop doc order) r := by
  cases hp : doc.payload with
  | other =>
    unfold parseEmail at h
    split at h
    · cases h
    · simp only [hp] at h; cases h
  | str s =>
    unfold parseEmail at h
    split at h
    · cases h
    · simp only [hp, Except.ok.injEq] at h; subst h; exact mergeBody_rel _ s
  | bytes b =>
    cases hb : utf8Decode b with
    | some s =>
      unfold parseEmail at h
      split at h
      · cases h
      · simp only [hp, hb, Except.ok.injEq] at h; subst h; exact mergeBody_rel _ s
    | none =>
      obtain ⟨h1, h2, h3⟩ := bad_body_rule doc order b r hp hb h
      exact ⟨h3, .inr (.inl ⟨h1, by rw [h2]; rfl⟩)⟩

/-! ### 6. the property theorems on `parse_email`'s result -/

theorem description_name : aget descriptionKey emailToRaw = some descriptionKey := by decide +kernel

theorem key_description_iff {l k : Str} (hk : aget l emailToRaw = some k) : k = descriptionKey ↔ l = descriptionKey := by
  constructor
  · rintro rfl; exact emailToRaw_inj hk description_name
  · rintro rfl; rw [description_name] at hk; cases hk; rfl

/-- **C18, partition.**  Every header name present (case-insensitively) ends up under exactly one of the two
returned dicts: in `unparsed` under its lower-cased name (and then its `RawMetadata` key is not in `raw`), or in
`raw` under the key `_EMAIL_TO_RAW_MAPPING` gives it (and then not in `unparsed`) — whatever the body is. -/
theorem partition (doc : Doc) (order : List Str) (r : Dict × Unparsed) (ho : Enumerates order doc)
    (h : parseEmail doc order = .ok r) (l : Str) (hl : l ∈ doc.names.map lowerStr) :
    ((aget l r.2).isSome = true ∧ ∀ k, aget l emailToRaw = some k → aget k r.1 = none) ∨
    (aget l r.2 = none ∧ ∃ k, aget l emailToRaw = some k ∧ (aget k r.1).isSome = true) := by
  obtain ⟨hother, hdesc⟩ := parseEmail_rel h
  have lp := loop_partition doc order ho l hl
  by_cases hld : l = descriptionKey
  · subst hld
    rcases hdesc with ⟨h1, h2⟩ | ⟨h1, h2⟩ | ⟨h1, h2, _, _⟩
    · rcases lp with ⟨k, v, hc, hr, hu⟩ | ⟨hc, hu, hr⟩
      · have hk := classify_raw_key hc
        have : k = descriptionKey := (key_description_iff hk).mpr rfl
        subst this
        exact .inr ⟨by rw [h2, hu], _, hk, by rw [h1, hr]; rfl⟩
      · refine .inl ⟨by rw [h2, hu]; rfl, fun k hk => ?_⟩
        have : k = descriptionKey := (key_description_iff hk).mpr rfl
        subst this
        rw [h1]; exact hr _ hk
    · refine .inl ⟨h2, fun k hk => ?_⟩
      have : k = descriptionKey := (key_description_iff hk).mpr rfl
      subst this
      exact h1
    · rcases lp with ⟨k, v, hc, hr, hu⟩ | ⟨hc, hu, hr⟩
      · have hk := classify_raw_key hc
        have : k = descriptionKey := (key_description_iff hk).mpr rfl
        subst this
        rw [h1] at hr; cases hr
      · rw [h2] at hu; cases hu
  · have hu := (hother l hld).2
    rcases lp with ⟨k, v, hc, hr, hun⟩ | ⟨hc, hun, hr⟩
    · have hk := classify_raw_key hc
      have hkd : k ≠ descriptionKey := fun e => hld ((key_description_iff hk).mp e)
      exact .inr ⟨by rw [hu, hun], k, hk, by rw [(hother k hkd).1, hr]; rfl⟩
    · refine .inl ⟨by rw [hu, hun]; rfl, fun k hk => ?_⟩
      have hkd : k ≠ descriptionKey := fun e => hld ((key_description_iff hk).mp e)
      rw [(hother k hkd).1]; exact hr k hk

/-- **C18, no loss, no invention** (names other than Description; for Description see the body rules).
A present name is either in `unparsed` with *all* its decoded values in document order, or in `raw` with the
classified value (`typed` says how that value is made of all the header values); and nothing else is in the dicts. -/
theorem no_loss_no_invention (doc : Doc) (order : List Str) (r : Dict × Unparsed) (ho : Enumerates order doc)
    (h : parseEmail doc order = .ok r) :
    (∀ l, l ∈ doc.names.map lowerStr → l ≠ descriptionKey →
      (classify doc l = .unparsed (vals doc l) ∧ aget l r.2 = some ((vals doc l).map .str)) ∨
      (∃ k v, classify doc l = .raw k v ∧ aget k r.1 = some v)) ∧
    (∀ k v, k ≠ descriptionKey → aget k r.1 = some v → ∃ l ∈ doc.names.map lowerStr, classify doc l = .raw k v) ∧
    (∀ l vs, l ≠ descriptionKey → aget l r.2 = some vs →
      l ∈ doc.names.map lowerStr ∧ vs = (vals doc l).map .str) := by
  obtain ⟨hother, _⟩ := parseEmail_rel h
  obtain ⟨hn1, hn2⟩ := loop_no_invention doc order ho
  refine ⟨fun l hl hld => ?_, fun k v hk hv => ?_, fun l vs hl hv => ?_⟩
  · rcases loop_partition doc order ho l hl with ⟨k, v, hc, hr, _⟩ | ⟨hc, hu, _⟩
    · have hkd : k ≠ descriptionKey := fun e => hld ((key_description_iff (classify_raw_key hc)).mp e)
      exact .inr ⟨k, v, hc, by rw [(hother k hkd).1, hr]⟩
    · exact .inl ⟨hc, by rw [(hother l hld).2, hu]⟩
  · rw [(hother k hk).1] at hv; exact hn1 k v hv
  · rw [(hother l hl).2] at hv; exact hn2 l vs hv

/-- the first header value for which `email.header.decode_header` itself raises -/
def firstErr (doc : Doc) : Option Str :=
  doc.hdrs.findSome? (fun h => match h.2 with | .err c => some c | _ => none)

/-- **C18, never raises** — except where the standard library does: `parse_email` raises only what
`decode_header` raised for a header value, or the `AssertionError` of a payload that is neither `str` nor `bytes` -/
theorem raises_iff (doc : Doc) (order : List Str) (c : Str) :
    parseEmail doc order = .error c ↔
      firstErr doc = some c ∨ (firstErr doc = none ∧ doc.payload = .other ∧ c = ofString "AssertionError") := by
  unfold parseEmail firstErr
  cases hf : doc.hdrs.findSome? (fun h => match h.2 with | .err c => some c | _ => none) with
  | some c' => simp
  | none =>
    simp only [reduceCtorEq, false_or, true_and]
    cases hp : doc.payload with
    | other => simp [eq_comm]
    | str s => simp
    | bytes b =>
      simp only [reduceCtorEq, false_and, iff_false]
      cases utf8Decode b with
      | some s => simp
      | none => cases aget descriptionKey (headerLoop doc order).1 <;> simp

theorem never_raises (doc : Doc) (order : List Str) (h1 : firstErr doc = none) (h2 : doc.payload ≠ .other) :
    ∃ r, parseEmail doc order = .ok r := by
  cases h : parseEmail doc order with
  | ok r => exact ⟨r, rfl⟩
  | error c =>
    rcases (raises_iff doc order c).mp h with h' | ⟨_, h', _⟩
    · rw [h1] at h'; cases h'
    · exact absurd h' h2

theorem mergeBody_congr (a b : Dict × Unparsed) (s : Str)
    (h : ∀ k, aget k a.1 = aget k b.1 ∧ aget k a.2 = aget k b.2) (k : Str) :
    aget k (mergeBody a s).1 = aget k (mergeBody b s).1 ∧ aget k (mergeBody a s).2 = aget k (mergeBody b s).2 := by
  simp only [mergeBody]
  split
  · exact h k
  · rw [← (h descriptionKey).1, ← (h descriptionKey).2]
    cases aget descriptionKey a.1 with
    | some v => simp only [aget_adel, extendDescription_lookup, (h k).1, (h k).2, (h descriptionKey).2, and_self]
    | none =>
      cases h2 : aget descriptionKey a.2 with
      | some u => simp only [extendDescription_lookup, (h k).1, (h k).2, ← (h descriptionKey).2, h2, and_self]
      | none => simp only [aget_aset, (h k).1, (h k).2, and_self]

/-- **C18 / C20, iteration order**: the result, as a pair of maps, does not depend on the order in which the
`frozenset` of header names is visited -/
theorem result_order_irrelevant (doc : Doc) (o1 o2 : List Str) (h1 : Enumerates o1 doc) (h2 : Enumerates o2 doc)
    (r1 r2 : Dict × Unparsed) (e1 : parseEmail doc o1 = .ok r1) (e2 : parseEmail doc o2 = .ok r2) (k : Str) :
    aget k r1.1 = aget k r2.1 ∧ aget k r1.2 = aget k r2.2 := by
  have hacc := order_irrelevant doc o1 o2 h1 h2
  unfold parseEmail at e1 e2
  split at e1
  · cases e1
  · rename_i hf
    simp only [hf] at e2
    cases hp : doc.payload with
    | other => simp only [hp] at e1; cases e1
    | str s =>
      simp only [hp, Except.ok.injEq] at e1 e2
      subst e1 e2
      exact mergeBody_congr _ _ s hacc k
    | bytes b =>
      simp only [hp] at e1 e2
      cases hb : utf8Decode b with
      | some s =>
        simp only [hb, Except.ok.injEq] at e1 e2
        subst e1 e2
        exact mergeBody_congr _ _ s hacc k
      | none =>
        simp only [hb] at e1 e2
        rw [← (hacc descriptionKey).1] at e2
        cases hd : aget descriptionKey (headerLoop doc o1).1 with
        | some v =>
          simp only [hd, Except.ok.injEq] at e1 e2
          subst e1 e2
          simp only [aget_adel, extendDescription_lookup, (hacc k).1, (hacc k).2, (hacc descriptionKey).2, and_self]
        | none =>
          simp only [hd, Except.ok.injEq] at e1 e2
          subst e1 e2
          simp only [extendDescription_lookup, (hacc k).1, (hacc k).2, (hacc descriptionKey).2, and_self]

/-! ### 7. non-vacuity: a document that exercises every branch -/

deriving instance DecidableEq for Except

namespace Ex
def S := ofString

/-- Name twice (different case), a list field with a `Header` value, an unknown header, a summary with an
invalid byte, keywords, duplicate Project-URL labels, a Description header *and* a body -/
def doc1 : Doc where
  hdrs := [ (S "Name", .str (S "foo")), (S "NAME", .str (S "bar")),
            (S "Classifier", .str (S "a")), (S "classifier", .hdr [[0xc3, 0xa9]]),
            (S "X-Foo", .str (S "x")), (S "Summary", .hdr [[0x61, 0xff]]),
            (S "Keywords", .str (S "a , b")),
            (S "Project-URL", .str (S "Home, u")), (S "Project-URL", .str (S "Home , v")),
            (S "Home-page", .str (S "h")),
            (S "Description", .str (S "hdr")) ]
  payload := .str (S "body")

example : Enumerates doc1.names doc1 := fun _ => Iff.rfl

example : parseEmail doc1 doc1.names = .ok
    ( [ (S "home_page", .str (S "h")), (S "keywords", .list [S "a", S "b"]),
        (S "classifiers", .list [S "a", [0xe9]]) ],
      [ (S "description", [.str (S "hdr"), .str (S "body")]),
        (S "project-url", [.str (S "Home, u"), .str (S "Home , v")]),
        (S "summary", [.str [0x61, 0xff]]), (S "x-foo", [.str (S "x")]),
        (S "name", [.str (S "foo"), .str (S "bar")]) ] ) := by decide +kernel

/-- the same with an undecodable body: the Description header leaves `raw` too -/
example : (parseEmail { doc1 with payload := .bytes [0x62, 0xff] } doc1.names.reverse).map
      (fun r => (aget descriptionKey r.1, aget descriptionKey r.2)) =
    .ok (none, some [.str (S "hdr"), .bytes [0x62, 0xff]]) := by decide +kernel

example : parseEmail { doc1 with payload := .other } doc1.names = .error (S "AssertionError") := by decide +kernel

/-- strict UTF-8: boundaries of the well-formedness table -/
example : utf8Decode [0xed, 0x9f, 0xbf] = some [0xd7ff] ∧ utf8Decode [0xed, 0xa0, 0x80] = none ∧
    utf8Decode [0xf4, 0x8f, 0xbf, 0xbf] = some [0x10ffff] ∧ utf8Decode [0xf4, 0x90, 0x80, 0x80] = none ∧
    utf8Decode [0xc0, 0x80] = none ∧ utf8Decode [0xe0, 0x9f, 0xbf] = none ∧ utf8Decode [0xe0, 0xa0, 0x80] = some [0x800] ∧
    utf8Decode [0xf0, 0x8f, 0xbf, 0xbf] = none ∧ utf8Decode [0xf0, 0x90, 0x80, 0x80] = some [0x10000] ∧
    utf8Decode [0xc2] = none := by decide +kernel
end Ex
end C18
