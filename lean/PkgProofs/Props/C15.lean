import PkgProofs.Lemmas.TagLists
/-!
# C15 — interpreter tag sequences are complete, duplicate-free and priority ordered

Model: `Tags.cpythonTags`, `compatibleTags`, `genericTags`, `sysTags`, `cpythonAbis` (`PkgModel/Tags.lean`,
the functions the correspondence check runs against `packaging.tags`).
Spec: `TagSpec.cpythonSpec`, `compatibleSpec`, `genericSpec`, `defaultAbisSpec` (`PkgModel/Spec/Tags.lean`).

All statements quantify over arbitrary version numbers, ABI lists and platform lists (unbounded lengths).
-/
namespace C15
open Py Tags TagSpec TagL

/-- the ABI list `cpython_tags` works with: the caller's, or the configuration's default -/
def resolvedAbis (cfg : Cfg) (ver : List Nat) : Option (List Str) → List Str
  | some a => a
  | none => if ver.length > 1 then cpythonAbis cfg ver else []

/-! ### 1. Refinement: model = spec -/

theorem versionNodot_take (ver : List Nat) (hv : ver.length = 1 ∨ ver.length = 2) :
    versionNodot (ver.take 2) = versionNodot ver := by
  rw [List.take_of_length_le (by omega)]

/-- `cpython_tags` on the resolved inputs (defaults filled in) is the statement's sequence -/
theorem cpython_resolved (cfg : Cfg) (verO : Option (List Nat)) (abisO platsO : Option (List Str))
    (hv : (versionOrDefault cfg verO).length = 1 ∨ (versionOrDefault cfg verO).length = 2) :
    cpythonTags cfg verO abisO platsO =
      cpythonSpec (versionOrDefault cfg verO) (resolvedAbis cfg (versionOrDefault cfg verO) abisO)
        (platformsOrDefault cfg platsO) := by
  cases abisO with
  | some a =>
    simp only [resolvedAbis]
    unfold cpythonTags cpythonSpec
    simp only [remove_explicit, abi3Applies_eq _ _ hv, rangeDown_eq, versionNodot_take _ hv, cpInterp]
  | none =>
    simp only [resolvedAbis]
    unfold cpythonTags cpythonSpec
    simp only [remove_explicit, abi3Applies_eq _ _ hv, rangeDown_eq, versionNodot_take _ hv, cpInterp]

theorem versionOrDefault_some (cfg : Cfg) (ver : List Nat) (h : ver ≠ []) : versionOrDefault cfg (some ver) = ver := by
  cases ver with
  | nil => exact absurd rfl h
  | cons _ _ => rfl

theorem platformsOrDefault_some (cfg : Cfg) (p : List Str) : platformsOrDefault cfg (some p) = p := rfl

/-- **cpython_tags = the statement's sequence**, for every one- or two-component version, every ABI list and
    every platform list (including the empty one, which yields no tags — this needed the fix of the
    `platforms or platform_tags()` default, DESIGN §8 row 24). -/
theorem cpython_eq_spec (cfg : Cfg) (ver : List Nat) (abis plats : List Str)
    (hv : ver.length = 1 ∨ ver.length = 2) :
    cpythonTags cfg (some ver) (some abis) (some plats) = cpythonSpec ver abis plats := by
  have hne : ver ≠ [] := by intro h; subst h; simp at hv
  have := cpython_resolved cfg (some ver) (some abis) (some plats)
    (by rw [versionOrDefault_some _ _ hne]; exact hv)
  rw [this, versionOrDefault_some _ _ hne, platformsOrDefault_some]; rfl

example : cpythonTags ⟨[3, 12], sCpython, .none, .none, .none, .none, .none, false, false, true, .none, []⟩
    (some [3, 3]) (some [[99, 112, 51, 51, 109]]) (some [[112]])
    = [⟨[99, 112, 51, 51], [99, 112, 51, 51, 109], [112]⟩, ⟨[99, 112, 51, 51], sAbi3, [112]⟩,
       ⟨[99, 112, 51, 51], sNone, [112]⟩, ⟨[99, 112, 51, 50], sAbi3, [112]⟩] := by decide

/-- an explicitly empty platform list yields no tags at all (it is *not* replaced by the detected platforms) -/
theorem cpython_empty_platforms (cfg : Cfg) (ver : List Nat) (abis : List Str)
    (hv : ver.length = 1 ∨ ver.length = 2) :
    cpythonTags cfg (some ver) (some abis) (some []) = [] := by
  rw [cpython_eq_spec cfg ver abis [] hv]; simp [cpythonSpec]

theorem cpythonAbis_not_explicit (cfg : Cfg) (ver : List Nat) :
    ∀ a ∈ cpythonAbis cfg ver, a ≠ sAbi3 ∧ a ≠ sNone := by
  intro a ha
  have hcp : ∃ r, a = 99 :: 112 :: r := by
    unfold cpythonAbis at ha
    simp only [sCp] at ha
    split at ha
    · simp at ha; exact ⟨_, ha⟩
    · split at ha
      · simp at ha; rcases ha with ha | ha <;> exact ⟨_, ha⟩
      · simp at ha; exact ⟨_, ha⟩
  obtain ⟨r, rfl⟩ := hcp
  simp [sAbi3, sNone]

/-- all arguments defaulted: the sequence for the running interpreter's version, its default ABIs and the
    detected platforms -/
theorem cpython_defaults (cfg : Cfg) (hv : cfg.sysVersion.length = 2) :
    cpythonTags cfg none none none = cpythonSpec cfg.sysVersion (cpythonAbis cfg cfg.sysVersion) cfg.detected := by
  have hr : resolvedAbis cfg cfg.sysVersion none = cpythonAbis cfg cfg.sysVersion := by
    simp [resolvedAbis, hv]
  have := cpython_resolved cfg none none none (by simp [versionOrDefault, hv])
  simpa [versionOrDefault, hr, platformsOrDefault] using this

/-! #### compatible_tags -/

theorem pyRange_eq (ver : List Nat) (hv : ver.length = 1 ∨ ver.length = 2) :
    pyInterpreterRange ver = pyRange ver := by
  match ver, hv with
  | [x], _ => simp [pyInterpreterRange, pyRange]
  | [x, y], _ => simp [pyInterpreterRange, pyRange, versionNodot, rangeDown_eq]
  | [], h => simp at h
  | _ :: _ :: _ :: _, h => simp at h

/-- `if interpreter:` — `None` and the empty string give no interpreter-specific tag -/
def givenInterp : Option Str → Option Str
  | some (c :: cs) => some (c :: cs)
  | _ => none

theorem compatible_resolved (cfg : Cfg) (verO : Option (List Nat)) (interp : Option Str)
    (platsO : Option (List Str))
    (hv : (versionOrDefault cfg verO).length = 1 ∨ (versionOrDefault cfg verO).length = 2) :
    compatibleTags cfg verO interp platsO =
      compatibleSpec (versionOrDefault cfg verO) (givenInterp interp) (platformsOrDefault cfg platsO) := by
  unfold compatibleTags compatibleSpec
  simp only [pyRange_eq _ hv]
  match interp with
  | none => rfl
  | some [] => rfl
  | some (c :: cs) => rfl

/-- **compatible_tags = the statement's sequence** for every version, interpreter and platform list -/
theorem compatible_eq_spec (cfg : Cfg) (ver : List Nat) (interp : Option Str) (plats : List Str)
    (hv : ver.length = 1 ∨ ver.length = 2) :
    compatibleTags cfg (some ver) interp (some plats) = compatibleSpec ver (givenInterp interp) plats := by
  have hne : ver ≠ [] := by intro h; subst h; simp at hv
  have := compatible_resolved cfg (some ver) interp (some plats) (by rw [versionOrDefault_some _ _ hne]; exact hv)
  rw [this, versionOrDefault_some _ _ hne, platformsOrDefault_some]

example : compatibleTags ⟨[3, 12], sCpython, .none, .none, .none, .none, .none, false, false, true, .none, []⟩
    (some [3, 1]) (some [120]) (some [[112]])
    = [⟨[112, 121, 51, 49], sNone, [112]⟩, ⟨[112, 121, 51], sNone, [112]⟩, ⟨[112, 121, 51, 48], sNone, [112]⟩,
       ⟨[120], sNone, sAny⟩,
       ⟨[112, 121, 51, 49], sNone, sAny⟩, ⟨[112, 121, 51], sNone, sAny⟩, ⟨[112, 121, 51, 48], sNone, sAny⟩] := by decide

/-- with an empty platform list only the `-none-any` tags remain -/
theorem compatible_empty_platforms (cfg : Cfg) (ver : List Nat) (interp : Option Str)
    (hv : ver.length = 1 ∨ ver.length = 2) :
    ∀ t ∈ compatibleTags cfg (some ver) interp (some []), t.plat = sAny := by
  rw [compatible_eq_spec cfg ver interp [] hv]
  intro t ht
  simp only [compatibleSpec, List.map_nil, List.mem_append, List.mem_map, List.mem_flatMap, List.not_mem_nil,
    and_false, exists_false, false_or] at ht
  rcases ht with ht | ⟨v, _, rfl⟩
  · cases hgi : givenInterp interp with
    | none => simp [hgi] at ht
    | some i => simp [hgi] at ht; subst ht; rfl
  · rfl

/-! #### generic_tags -/

theorem generic_resolved (cfg : Cfg) (interp : Str) (abis : List Str) (platsO : Option (List Str))
    (hi : interp ≠ []) :
    genericTags cfg (some interp) (some abis) platsO =
      .ok (genericSpec interp abis (platformsOrDefault cfg platsO)) := by
  cases interp with
  | nil => exact absurd rfl hi
  | cons c cs =>
    unfold genericTags genericSpec
    by_cases h : sNone ∈ abis
    · have : abis.contains sNone = true := List.contains_iff_mem.mpr h
      simp [this, h, bind, Except.bind, pure, Except.pure]
    · have : abis.contains sNone = false := by
        cases hc : abis.contains sNone
        · rfl
        · exact absurd (List.contains_iff_mem.mp hc) h
      simp [this, h, bind, Except.bind, pure, Except.pure]

/-- **generic_tags = the statement's sequence** for every interpreter, ABI list and platform list -/
theorem generic_eq_spec (cfg : Cfg) (interp : Str) (abis plats : List Str) (hi : interp ≠ []) :
    genericTags cfg (some interp) (some abis) (some plats) = .ok (genericSpec interp abis plats) := by
  rw [generic_resolved cfg interp abis (some plats) hi, platformsOrDefault_some]

example : genericTags ⟨[3, 12], sCpython, .none, .none, .none, .none, .none, false, false, true, .none, []⟩
    (some [120]) (some [[97]]) (some [[112], [113]])
    = .ok [⟨[120], [97], [112]⟩, ⟨[120], [97], [113]⟩, ⟨[120], sNone, [112]⟩, ⟨[120], sNone, [113]⟩] := by decide

/-! #### sys_tags -/

/-- the interpreter `sys_tags` passes to `compatible_tags` -/
def sysCompatInterp (cfg : Cfg) : Option Str :=
  if interpreterName cfg == sPp then some sPp3
  else if interpreterName cfg == sCp then some (sCp ++ interpreterVersion cfg)
  else none

/-- `sys_tags` is the interpreter-specific sequence followed by the compatible sequence -/
theorem sys_is_concat (cfg : Cfg) :
    sysTags cfg =
      (if interpreterName cfg == sCp then Except.ok (cpythonTags cfg none none none)
       else genericTags cfg none none none).map
        (fun first => first ++ compatibleTags cfg none (sysCompatInterp cfg) none) := by
  unfold sysTags sysCompatInterp
  by_cases h : (interpreterName cfg == sCp) = true
  · simp [h, bind, Except.bind, pure, Except.pure, Except.map]
  · simp only [h, bind, Except.bind, pure, Except.pure, Except.map]
    cases genericTags cfg none none none <;> rfl

/-- for a CPython interpreter, in terms of the statement's sequences -/
theorem sys_eq_spec_cpython (cfg : Cfg) (hn : interpreterName cfg = sCp) (hv : cfg.sysVersion.length = 2) :
    sysTags cfg = .ok (cpythonSpec cfg.sysVersion (cpythonAbis cfg cfg.sysVersion) cfg.detected ++
      compatibleSpec cfg.sysVersion (some (sCp ++ interpreterVersion cfg)) cfg.detected) := by
  have hne : (sCp == sPp) = false := by decide
  rw [sys_is_concat, hn]
  simp only [beq_self_eq_true, if_true, Except.map, cpython_defaults cfg hv]
  rw [compatible_resolved cfg none _ none (by simp [versionOrDefault, hv])]
  have h2 : ¬ ([99, 112] : Str) = sPp := by decide
  simp [sysCompatInterp, hn, versionOrDefault, platformsOrDefault, givenInterp, sCp, h2]

/-! ### 2. Within each block platforms keep the caller's order

Every sequence is a concatenation of blocks, one per (interpreter, ABI) head, and each block is the platform
list in the caller's order (`TagL.blocks`); this holds for *all* inputs (defaults, repeats, empty lists). -/

/-- the (interpreter, ABI) heads of the statement's cpython sequence, in priority order -/
def cpythonHeads (ver : List Nat) (abis : List Str) : List (Str × Str) :=
  (givenAbis abis).map (fun a => (cpInterp ver, a))
  ++ (if abi3Ok ver (givenAbis abis) then [(cpInterp ver, sAbi3)] else [])
  ++ [(cpInterp ver, sNone)]
  ++ (if abi3Ok ver (givenAbis abis) then
        (olderMinors (ver.getD 1 0) 2).map fun z => (cpInterp [ver.getD 0 0, z], sAbi3)
      else [])

theorem cpythonSpec_blocks (ver : List Nat) (abis plats : List Str) :
    cpythonSpec ver abis plats = blocks (cpythonHeads ver abis) plats := by
  unfold cpythonSpec cpythonHeads
  simp only [blocks_append, blocks_map_fst, blocks_single]
  by_cases h : abi3Ok ver (givenAbis abis) = true
  · simp only [h, if_true, blocks_single]
    simp [blocks, List.flatMap_map]
  · simp [h, blocks]

theorem cpython_platform_order_kept (cfg : Cfg) (verO : Option (List Nat)) (abisO platsO : Option (List Str))
    (hv : (versionOrDefault cfg verO).length = 1 ∨ (versionOrDefault cfg verO).length = 2) :
    ∃ heads, cpythonTags cfg verO abisO platsO = blocks heads (platformsOrDefault cfg platsO) :=
  ⟨_, by rw [cpython_resolved cfg verO abisO platsO hv, cpythonSpec_blocks]⟩

theorem compatible_platform_order_kept (cfg : Cfg) (verO : Option (List Nat)) (interp : Option Str)
    (platsO : Option (List Str)) :
    ∃ heads tail, compatibleTags cfg verO interp platsO = blocks heads (platformsOrDefault cfg platsO) ++ tail
      ∧ ∀ t ∈ tail, t.plat = sAny := by
  refine ⟨(pyInterpreterRange (versionOrDefault cfg verO)).map (fun v => (v, sNone)),
    (match interp with
      | some (c :: cs) => [mkTag (c :: cs) sNone sAny]
      | _ => []) ++ (pyInterpreterRange (versionOrDefault cfg verO)).map (fun v => mkTag v sNone sAny), ?_, ?_⟩
  · unfold compatibleTags
    simp only [blocks, List.flatMap_map, List.append_assoc]
    cases interp with
    | none => rfl
    | some i => cases i <;> rfl
  · intro t ht
    simp only [List.mem_append, List.mem_map] at ht
    rcases ht with ht | ⟨v, _, rfl⟩
    · match interp, ht with
      | some (c :: cs), ht => simp at ht; subst ht; rfl
      | none, ht => simp at ht
      | some [], ht => simp at ht
    · rfl

theorem generic_platform_order_kept (cfg : Cfg) (interp : Option Str) (abisO platsO : Option (List Str))
    (l : List Tag) (h : genericTags cfg interp abisO platsO = .ok l) :
    ∃ heads, l = blocks heads (platformsOrDefault cfg platsO) := by
  unfold genericTags at h
  cases abisO with
  | some abis =>
    simp only [bind, Except.bind, pure, Except.pure, Except.ok.injEq] at h
    exact ⟨(if abis.contains sNone then abis else abis ++ [sNone]).map (fun a => (_, a)), by rw [← h, blocks_map_fst]⟩
  | none =>
    cases hg : genericAbi cfg with
    | error e => simp [hg, bind, Except.bind] at h
    | ok abis =>
      simp only [hg, bind, Except.bind, pure, Except.pure, Except.ok.injEq] at h
      exact ⟨(if abis.contains sNone then abis else abis ++ [sNone]).map (fun a => (_, a)), by rw [← h, blocks_map_fst]⟩

/-! ### 3. No tag is repeated when the inputs have no repeats -/

theorem versionNodot_noUpper (v : List Nat) : ∀ c ∈ versionNodot v, isUpperAscii c = false := by
  intro c hc
  simp only [versionNodot, List.mem_flatten, List.mem_map] at hc
  obtain ⟨l, ⟨n, _, rfl⟩, hc⟩ := hc
  exact dec_noUpper n c hc

theorem lower_cpInterp (v : List Nat) : lowerStr (cpInterp v) = cpInterp v := by
  apply lowerStr_eq_self
  intro c hc
  simp only [cpInterp, List.mem_append] at hc
  rcases hc with hc | hc
  · simp [sCp] at hc; rcases hc with rfl | rfl <;> decide
  · exact versionNodot_noUpper v c hc

theorem cpInterp_minor_inj (x y z : Nat) (h : cpInterp [x, y] = cpInterp [x, z]) : y = z := by
  simp only [cpInterp, versionNodot, List.map_cons, List.map_nil, List.flatten_cons, List.flatten_nil,
    List.append_nil] at h
  exact dec_inj (List.append_cancel_left (List.append_cancel_left h))

theorem lower_given_ne (abis : List Str) (hnd : abis.Nodup) (x : Str) (hx : x = sAbi3 ∨ x = sNone)
    (hc : ∀ a ∈ abis, lowerStr a = x → a = x) : ∀ a ∈ givenAbis abis, lowerStr a ≠ x := by
  intro a ha hl
  rw [givenAbis_eq_filter abis (List.nodup_iff_count_le_one.mp hnd _) (List.nodup_iff_count_le_one.mp hnd _)] at ha
  simp only [List.mem_filter, Bool.and_eq_true, bne_iff_ne, ne_eq] at ha
  have := hc a ha.1 hl
  rcases hx with rfl | rfl
  · exact ha.2.1 this
  · exact ha.2.2 this

theorem nodup_cpythonHeads (ver : List Nat) (abis : List Str) (hv : ver.length = 1 ∨ ver.length = 2)
    (ha : (abis.map lowerStr).Nodup)
    (hc3 : ∀ a ∈ abis, lowerStr a = sAbi3 → a = sAbi3) (hcn : ∀ a ∈ abis, lowerStr a = sNone → a = sNone) :
    ((cpythonHeads ver abis).map key).Nodup := by
  have hnd : abis.Nodup := List.Nodup.of_map _ ha
  have hg : ((givenAbis abis).map lowerStr).Nodup := by
    rw [givenAbis_eq_filter abis (List.nodup_iff_count_le_one.mp hnd _) (List.nodup_iff_count_le_one.mp hnd _)]
    exact List.Nodup.sublist (List.Sublist.map _ List.filter_sublist) ha
  have h3 := lower_given_ne abis hnd sAbi3 (Or.inl rfl) hc3
  have hn := lower_given_ne abis hnd sNone (Or.inr rfl) hcn
  have hL3 : lowerStr sAbi3 = sAbi3 := by decide
  have hLn : lowerStr sNone = sNone := by decide
  have hne : sAbi3 ≠ sNone := by decide
  -- the given-ABI heads
  have hG : (((givenAbis abis).map (fun a => (cpInterp ver, a))).map key).Nodup := by
    have : ((givenAbis abis).map (fun a => (cpInterp ver, a))).map key
        = ((givenAbis abis).map lowerStr).map (fun b => (lowerStr (cpInterp ver), b)) := by
      simp [key, Function.comp_def]
    rw [this]
    exact List.Nodup.map (fun a b hab => by simpa using hab) hg
  unfold cpythonHeads
  by_cases hok : abi3Ok ver (givenAbis abis) = true
  · -- two-component version, abi3 applies
    obtain ⟨x, y, rfl⟩ : ∃ x y, ver = [x, y] := by
      match ver, hok with
      | [x, y], _ => exact ⟨x, y, rfl⟩
      | [], h => simp [abi3Ok] at h
      | [_], h => simp [abi3Ok] at h
      | _ :: _ :: _ :: _, h => simp [abi3Ok] at h
    simp only [hok, if_true, List.map_append, List.map_cons, List.map_nil, List.map_map, List.getD_cons_zero,
      List.getD_cons_succ]
    have hM : ((olderMinors y 2).map (key ∘ fun z => (cpInterp [x, z], sAbi3))).Nodup := by
      apply List.Nodup.map_on _ (nodup_olderMinors y 2)
      intro a _ b _ hab
      simp only [Function.comp, key, Prod.mk.injEq, lower_cpInterp] at hab
      exact cpInterp_minor_inj x a b hab.1
    rw [List.nodup_append]
    refine ⟨?_, hM, ?_⟩
    · rw [List.nodup_append]
      refine ⟨?_, by simp, ?_⟩
      · rw [List.nodup_append]
        refine ⟨by simpa [List.map_map] using hG, by simp, ?_⟩
        intro p hp q hq
        simp only [List.mem_map, Function.comp] at hp
        obtain ⟨a, ha', rfl⟩ := hp
        simp only [List.mem_singleton] at hq; subst hq
        simp only [key, ne_eq, Prod.mk.injEq, hL3, not_and]
        intro _; exact h3 a ha'
      · intro p hp q hq
        simp only [List.mem_singleton] at hq; subst hq
        simp only [List.mem_append, List.mem_map, Function.comp, List.mem_singleton] at hp
        rcases hp with ⟨a, ha', rfl⟩ | rfl
        · simp only [key, ne_eq, Prod.mk.injEq, hLn, not_and]
          intro _; exact hn a ha'
        · simp only [key, ne_eq, Prod.mk.injEq, hL3, hLn, not_and]
          intro _; exact hne
    · intro p hp q hq
      simp only [List.mem_map, Function.comp] at hq
      obtain ⟨z, hz, rfl⟩ := hq
      have hzy : z < y := (mem_olderMinors.mp hz).2
      simp only [List.mem_append, List.mem_map, Function.comp, List.mem_singleton] at hp
      rcases hp with (⟨a, ha', rfl⟩ | rfl) | rfl
      · simp only [key, ne_eq, Prod.mk.injEq, hL3, not_and]
        intro _; exact h3 a ha'
      · simp only [key, ne_eq, Prod.mk.injEq, hL3, lower_cpInterp, not_and, and_true]
        intro h; have := cpInterp_minor_inj x y z h; omega
      · simp only [key, ne_eq, Prod.mk.injEq, hL3, hLn, not_and]
        intro _; exact fun h => hne h.symm
  · simp only [hok, Bool.false_eq_true, if_false, List.append_nil, List.map_append, List.map_cons, List.map_nil]
    rw [List.nodup_append]
    refine ⟨hG, by simp, ?_⟩
    intro p hp q hq
    simp only [List.mem_map] at hp
    obtain ⟨_, ⟨a, ha', rfl⟩, rfl⟩ := hp
    simp only [List.mem_singleton] at hq; subst hq
    simp only [key, ne_eq, Prod.mk.injEq, hLn, not_and]
    intro _; exact hn a ha'

/-- `cpython_tags` repeats no tag when, after lower-casing, neither the ABIs nor the platforms have repeats
    (and no ABI is a differently-cased spelling of `abi3`/`none`) -/
theorem cpython_nodup (cfg : Cfg) (ver : List Nat) (abis plats : List Str)
    (hv : ver.length = 1 ∨ ver.length = 2)
    (ha : (abis.map lowerStr).Nodup) (hpl : (plats.map lowerStr).Nodup)
    (hc3 : ∀ a ∈ abis, lowerStr a = sAbi3 → a = sAbi3) (hcn : ∀ a ∈ abis, lowerStr a = sNone → a = sNone) :
    (cpythonTags cfg (some ver) (some abis) (some plats)).Nodup := by
  rw [cpython_eq_spec cfg ver abis plats hv, cpythonSpec_blocks]
  exact nodup_blocks _ _ (nodup_cpythonHeads ver abis hv ha hc3 hcn) hpl

example : ([[99, 112, 51, 56], sAbi3].map lowerStr).Nodup ∧ ([[112], [113]].map lowerStr).Nodup := by decide

/-! #### compatible_tags: no repeats -/

theorem lower_py (v : List Nat) : lowerStr (sPy ++ versionNodot v) = sPy ++ versionNodot v := by
  apply lowerStr_eq_self
  intro c hc
  simp only [List.mem_append] at hc
  rcases hc with hc | hc
  · simp [sPy] at hc; rcases hc with rfl | rfl <;> decide
  · exact versionNodot_noUpper v c hc

theorem lower_pyRange (ver : List Nat) : ∀ v ∈ pyRange ver, lowerStr v = v := by
  intro v hv
  match ver, hv with
  | [x], hv =>
    simp only [pyRange, List.mem_singleton] at hv; subst hv
    simpa [versionNodot] using lower_py [x]
  | [x, y], hv =>
    simp only [pyRange, List.mem_cons, List.mem_map] at hv
    rcases hv with rfl | rfl | ⟨z, _, rfl⟩
    · simpa [versionNodot] using lower_py [x, y]
    · simpa [versionNodot] using lower_py [x]
    · simpa [versionNodot] using lower_py [x, z]
  | [], hv => simp [pyRange] at hv
  | _ :: _ :: _ :: _, hv => simp [pyRange] at hv

theorem nodup_pyRange (ver : List Nat) : (pyRange ver).Nodup := by
  match ver with
  | [x] => simp [pyRange]
  | [x, y] =>
    simp only [pyRange, List.nodup_cons, List.mem_cons, List.mem_map, not_or, not_exists, not_and]
    refine ⟨⟨?_, ?_⟩, ?_, ?_⟩
    · intro h
      exact dec_ne_nil y (List.append_right_eq_self.mp h)
    · intro z hz h
      have := dec_inj (List.append_cancel_left h)
      have := (mem_olderMinors.mp hz).2
      omega
    · intro z _ h
      exact dec_ne_nil z (List.append_right_eq_self.mp h)
    · apply List.Nodup.map_on _ (nodup_olderMinors y 0)
      intro a _ b _ hab
      exact dec_inj (List.append_cancel_left hab)
  | [] => simp [pyRange]
  | _ :: _ :: _ :: _ => simp [pyRange]

/-- `compatible_tags` repeats no tag when the platforms have no repeats after lower-casing, `any` is not
    among them, and the interpreter is not itself one of the `py*` names of the range -/
theorem compatible_nodup (cfg : Cfg) (ver : List Nat) (interp : Option Str) (plats : List Str)
    (hv : ver.length = 1 ∨ ver.length = 2)
    (hpl : (plats.map lowerStr).Nodup) (hany : sAny ∉ plats.map lowerStr)
    (hi : ∀ i, givenInterp interp = some i → lowerStr i ∉ pyRange ver) :
    (compatibleTags cfg (some ver) interp (some plats)).Nodup := by
  rw [compatible_eq_spec cfg ver interp plats hv]
  unfold compatibleSpec
  have hLn : lowerStr sNone = sNone := by decide
  have hLa : lowerStr sAny = sAny := by decide
  have hA : ((pyRange ver).flatMap fun v => plats.map fun p => mkTag v sNone p).Nodup := by
    have := nodup_blocks ((pyRange ver).map fun v => (v, sNone)) plats ?_ hpl
    · simpa [blocks, List.flatMap_map] using this
    · rw [List.map_map]
      apply List.Nodup.map_on _ (nodup_pyRange ver)
      intro a ha b hb hab
      simp only [Function.comp, key, Prod.mk.injEq, lower_pyRange ver a ha, lower_pyRange ver b hb] at hab
      exact hab.1
  have hC : ((pyRange ver).map fun v => mkTag v sNone sAny).Nodup := by
    apply List.Nodup.map_on _ (nodup_pyRange ver)
    intro a ha b hb hab
    simp only [mkTag, Tag.mk.injEq, lower_pyRange ver a ha, lower_pyRange ver b hb] at hab
    exact hab.1
  have hAplat : ∀ t ∈ ((pyRange ver).flatMap fun v => plats.map fun p => mkTag v sNone p), t.plat ≠ sAny := by
    intro t ht
    simp only [List.mem_flatMap, List.mem_map] at ht
    obtain ⟨v, _, p, hp, rfl⟩ := ht
    intro h
    exact hany (List.mem_map.mpr ⟨p, hp, h⟩)
  rw [List.nodup_append]
  refine ⟨?_, hC, ?_⟩
  · rw [List.nodup_append]
    refine ⟨hA, ?_, ?_⟩
    · cases givenInterp interp <;> simp
    · intro a ha b hb
      have hb' : b.plat = sAny := by
        cases hgi : givenInterp interp with
        | none => simp [hgi] at hb
        | some i => simp [hgi] at hb; subst hb; exact hLa
      intro hab; subst hab
      exact hAplat a ha hb'
  · intro a ha b hb hab
    subst hab
    simp only [List.mem_map] at hb
    obtain ⟨v, hvm, rfl⟩ := hb
    simp only [List.mem_append] at ha
    rcases ha with ha | ha
    · exact hAplat _ ha hLa
    · cases hgi : givenInterp interp with
      | none => simp [hgi] at ha
      | some i =>
        simp only [hgi, List.mem_singleton] at ha
        simp only [mkTag, Tag.mk.injEq, lower_pyRange ver v hvm] at ha
        exact hi i hgi (ha.1 ▸ hvm)

/-! #### generic_tags: no repeats -/

/-! #### the hypotheses of the no-repeat theorems are needed (known finding `c15_colliding_inputs`)

Inputs without repeats that collide with a tag the functions add themselves do produce repeats: the full statement
"no tag is repeated when the inputs have no repeats" is false of model and implementation at these witnesses. -/

/-- `compatible_tags((3, 9), interpreter="py39", platforms=["x"])` repeats `py39-none-any` -/
theorem compatible_repeats_interp_in_py_range :
    ¬ (compatibleTags ⟨[3, 12], sCpython, .none, .none, .none, .none, .none, false, false, true, .none, []⟩
        (some [3, 9]) (some [112, 121, 51, 57]) (some [[120]])).Nodup := by decide

/-- `compatible_tags((3, 1), interpreter="x", platforms=["any"])` repeats every `pyXY-none-any` -/
theorem compatible_repeats_platform_any :
    ¬ (compatibleTags ⟨[3, 12], sCpython, .none, .none, .none, .none, .none, false, false, true, .none, []⟩
        (some [3, 1]) (some [120]) (some [sAny])).Nodup := by decide

/-- `cpython_tags((3, 9), abis=["ABI3"], platforms=["x"])` repeats `cp39-abi3-x` -/
theorem cpython_repeats_abi3_other_case :
    ¬ (cpythonTags ⟨[3, 12], sCpython, .none, .none, .none, .none, .none, false, false, true, .none, []⟩
        (some [3, 9]) (some [[65, 66, 73, 51]]) (some [[120]])).Nodup := by decide

theorem generic_nodup (cfg : Cfg) (interp : Str) (abis plats : List Str) (hi : interp ≠ [])
    (ha : (abis.map lowerStr).Nodup) (hpl : (plats.map lowerStr).Nodup)
    (hcn : ∀ a ∈ abis, lowerStr a = sNone → a = sNone) :
    ∃ l, genericTags cfg (some interp) (some abis) (some plats) = .ok l ∧ l.Nodup := by
  refine ⟨_, generic_eq_spec cfg interp abis plats hi, ?_⟩
  unfold genericSpec
  have hLn : lowerStr sNone = sNone := by decide
  have := nodup_blocks ((abis ++ if sNone ∈ abis then [] else [sNone]).map fun a => (interp, a)) plats ?_ hpl
  · rw [← blocks_map_fst]; exact this
  · rw [List.map_map]
    have hinj : ((abis ++ if sNone ∈ abis then [] else [sNone]).map lowerStr).Nodup := by
      by_cases h : sNone ∈ abis
      · simpa [h] using ha
      · simp only [h, if_false, List.map_append, List.map_cons, List.map_nil, hLn]
        rw [List.nodup_append]
        refine ⟨ha, by simp, ?_⟩
        intro a ham b hb
        simp only [List.mem_singleton] at hb; subst hb
        simp only [List.mem_map] at ham
        obtain ⟨a', ha', rfl⟩ := ham
        intro hl
        exact h (hcn a' ha' hl ▸ ha')
    have : (abis ++ if sNone ∈ abis then [] else [sNone]).map (key ∘ fun a => (interp, a))
        = ((abis ++ if sNone ∈ abis then [] else [sNone]).map lowerStr).map (fun b => (lowerStr interp, b)) := by
      simp [key, Function.comp_def]
    rw [this]
    exact List.Nodup.map (fun a b hab => by simpa using hab) hinj

/-! ### 4. Boundaries -/

/-- when abi3 does not apply the sequence is exactly: the given ABIs, then `none` -/
theorem cpythonSpec_without_abi3 (ver : List Nat) (abis plats : List Str) (h : abi3Ok ver (givenAbis abis) = false) :
    cpythonSpec ver abis plats =
      blocks ((givenAbis abis).map (fun a => (cpInterp ver, a)) ++ [(cpInterp ver, sNone)]) plats := by
  rw [cpythonSpec_blocks]; simp [cpythonHeads, h]

/-- abi3 only from 3.2 on: for 2.x, 3.0 and 3.1 the sequence is the given ABIs and `none`, nothing else -/
theorem abi3_from_3_2_only (cfg : Cfg) (x y : Nat) (abis plats : List Str) (h : x < 3 ∨ (x = 3 ∧ y < 2)) :
    cpythonTags cfg (some [x, y]) (some abis) (some plats) =
      blocks ((givenAbis abis).map (fun a => (cpInterp [x, y], a)) ++ [(cpInterp [x, y], sNone)]) plats := by
  rw [cpython_eq_spec cfg [x, y] abis plats (Or.inr rfl)]
  apply cpythonSpec_without_abi3
  have h1 : ¬ (x > 3) := by omega
  have h2 : ¬ (x = 3 ∧ 2 ≤ y) := by omega
  simp [abi3Ok, h1]
  intro hx hy; exact absurd ⟨hx, hy⟩ h2

/-- … and from 3.2 on (not free-threaded) every minor from the current one down to 2 gets an abi3 tag on
    every platform, newest first by `cpython_eq_spec` -/
theorem abi3_down_to_3_2 (cfg : Cfg) (x y : Nat) (abis plats : List Str) (h : x > 3 ∨ (x = 3 ∧ y ≥ 2))
    (hft : freeThreaded (givenAbis abis) = false) (z : Nat) (hz : 2 ≤ z ∧ z ≤ y) (p : Str) (hp : p ∈ plats) :
    mkTag (cpInterp [x, z]) sAbi3 p ∈ cpythonTags cfg (some [x, y]) (some abis) (some plats) := by
  rw [cpython_eq_spec cfg [x, y] abis plats (Or.inr rfl), cpythonSpec_blocks, mem_blocks]
  have hok : abi3Ok [x, y] (givenAbis abis) = true := by
    simp only [abi3Ok, hft, Bool.not_false, Bool.and_true, Bool.or_eq_true, decide_eq_true_eq, Bool.and_eq_true,
      beq_iff_eq]
    omega
  by_cases hzy : z = y
  · subst hzy
    exact ⟨(cpInterp [x, z], sAbi3), by simp [cpythonHeads, hok], p, hp, rfl⟩
  · refine ⟨(cpInterp [x, z], sAbi3), ?_, p, hp, rfl⟩
    simp only [cpythonHeads, hok, if_true, List.mem_append, List.mem_map]
    right
    exact ⟨z, mem_olderMinors.mpr (by simp; omega), by simp⟩

/-- never abi3 for free-threaded ABIs -/
theorem no_abi3_when_threaded (cfg : Cfg) (ver : List Nat) (abis plats : List Str)
    (hv : ver.length = 1 ∨ ver.length = 2) (hft : freeThreaded (givenAbis abis) = true) :
    cpythonTags cfg (some ver) (some abis) (some plats) =
      blocks ((givenAbis abis).map (fun a => (cpInterp ver, a)) ++ [(cpInterp ver, sNone)]) plats := by
  rw [cpython_eq_spec cfg ver abis plats hv]
  apply cpythonSpec_without_abi3
  match ver with
  | [x, y] => simp [abi3Ok, hft]
  | [] => rfl
  | [_] => rfl
  | _ :: _ :: _ :: _ => rfl

example : freeThreaded (givenAbis [[99, 112, 51, 49, 51, 116], sAbi3]) = true := by decide

/-- a major-only version yields only the given ABIs and `none` -/
theorem major_only_yields_given_abis_and_none (cfg : Cfg) (x : Nat) (abis plats : List Str) :
    cpythonTags cfg (some [x]) (some abis) (some plats) =
      blocks ((givenAbis abis).map (fun a => (cpInterp [x], a)) ++ [(cpInterp [x], sNone)]) plats := by
  rw [cpython_eq_spec cfg [x] abis plats (Or.inl rfl)]
  exact cpythonSpec_without_abi3 _ _ _ rfl

/-! ### 5. Default ABI list as a table of the configuration -/

def cfgDebug (cfg : Cfg) : Bool :=
  cfg.pyDebug.truthy || (cfg.pyDebug.isNone && (cfg.hasRefcount || cfg.hasDebugExt))
def cfgGil (cfg : Cfg) : Bool := cfg.gilDisabled.truthy
def cfgPymalloc (cfg : Cfg) : Bool := cfg.withPymalloc.truthy || cfg.withPymalloc.isNone
def cfgWide (cfg : Cfg) : Bool := cfg.unicodeSize == .int 4 || (cfg.unicodeSize.isNone && cfg.maxUnicodeWide)

/-- `_cpython_abis` for every two-component version and every configuration (debug via `Py_DEBUG` or, when
    unset, `gettotalrefcount`/`_d.pyd`; free-threading from 3.13; pymalloc before 3.8; wide unicode before 3.3;
    from 3.8 a debug build also accepts the non-debug ABI) -/
theorem default_abis_table (cfg : Cfg) (x y : Nat) :
    cpythonAbis cfg [x, y] =
      defaultAbisSpec (x, y) (cfgDebug cfg) (cfgGil cfg) (cfgPymalloc cfg) (cfgWide cfg) := by
  unfold cpythonAbis defaultAbisSpec cfgDebug cfgGil cfgPymalloc cfgWide
  simp only [tupGe, tupLt_pair, Bool.not_not, versionNodot, List.take, List.map_cons, List.map_nil,
    List.flatten_cons, List.flatten_nil, List.append_nil]
  generalize (cfg.pyDebug.truthy || cfg.pyDebug.isNone && (cfg.hasRefcount || cfg.hasDebugExt)) = D
  generalize cfg.gilDisabled.truthy = G
  generalize (cfg.withPymalloc.truthy || cfg.withPymalloc.isNone) = M
  generalize (cfg.unicodeSize == CV.int 4 || cfg.unicodeSize.isNone && cfg.maxUnicodeWide) = W
  have key : ∀ b, (decide (x > 3) || (x == 3 && decide (y ≥ b))) = true →
      ∀ c, c ≤ b → (decide (x > 3) || (x == 3 && decide (y ≥ c))) = true := by
    intro b hb c hc
    simp only [Bool.or_eq_true, decide_eq_true_eq, Bool.and_eq_true, beq_iff_eq] at hb ⊢
    omega
  rcases Bool.eq_false_or_eq_true (decide (x > 3) || (x == 3 && decide (y ≥ 13))) with h13 | h13 <;>
  rcases Bool.eq_false_or_eq_true (decide (x > 3) || (x == 3 && decide (y ≥ 8))) with h8 | h8 <;>
  rcases Bool.eq_false_or_eq_true (decide (x > 3) || (x == 3 && decide (y ≥ 3))) with h3 | h3 <;>
  first
  | (have h := key 13 h13 8 (by omega); rw [h8] at h; exact Bool.noConfusion h)
  | (have h := key 8 h8 3 (by omega); rw [h3] at h; exact Bool.noConfusion h)
  | (have h := key 13 h13 3 (by omega); rw [h3] at h; exact Bool.noConfusion h)
  | (simp only [h13, h8, h3]
     cases D <;> cases G <;> cases M <;> cases W <;> simp [sCp, List.append_assoc])

/-! ### 6. Regenerated table -/

/-- `INTERPRETER_SHORT_NAMES` as regenerated from the source is the PEP 425 abbreviation table -/
theorem short_names_table :
    Gen.TagTables.interpreterShortNames =
      [(ofString "python", ofString "py"), (ofString "cpython", ofString "cp"), (ofString "pypy", ofString "pp"),
       (ofString "ironpython", ofString "ip"), (ofString "jython", ofString "jy")] := by decide

end C15
