import PkgModel.Specifier
import PkgModel.Spec.Admits
import PkgProofs.Props.C01
/-!
# C03 — `Specifier.contains` implements the PEP 440 operator semantics

Model: `S.Spec.compare` / `S.Spec.contains` (`PkgModel/Specifier.lean`) — the code path with its string
detours.  Spec: `Pep440.admits` (`PkgModel/Spec/Admits.lean`).

The comparisons re-parse rendered versions (`Version(prospective.public)`, `Version(spec.base_version)`, …).
That "re-parsing a rendered version gives it back" is C02's theorem; here it is an explicit hypothesis
(`hscan`/`hpub`/`hbase` below, all three instances of `C02.scan_str`) so that it can be discharged by one `exact`.
-/
namespace C03
open V Py S Pep440

/-- `Version(v.base_version)` as a structure -/
def baseVer (v : Ver) : Ver := ⟨v.epoch, v.release, none, none, none, none⟩

/-! ### the six Python operators in terms of the PEP 440 order (C01) -/

theorem lt_cmp (a b : Ver) : a.lt b = isLT (cmp a b) := by
  rw [(C01.ops_agree a b).1, C01.cmp_eq_pep440]; cases cmp a b <;> rfl
theorem le_cmp (a b : Ver) : a.le b = !isGT (cmp a b) := by
  rw [(C01.ops_agree a b).2.1, C01.cmp_eq_pep440]; cases cmp a b <;> rfl
theorem gt_cmp (a b : Ver) : a.gt b = isGT (cmp a b) := by
  rw [(C01.ops_agree a b).2.2.1, C01.cmp_eq_pep440]; cases cmp a b <;> rfl
theorem ge_cmp (a b : Ver) : a.ge b = !isLT (cmp a b) := by
  rw [(C01.ops_agree a b).2.2.2, C01.cmp_eq_pep440]; cases cmp a b <;> rfl
theorem eq_cmp (a b : Ver) : a.eq b = isEQ (cmp a b) := by
  rw [(C01.eq_agrees a b).1, C01.cmp_eq_pep440]; cases cmp a b <;> rfl

/-- two base versions are equal as versions iff epoch and zero-padded release agree -/
theorem base_eq (a b : Ver) : (baseVer a).eq (baseVer b) = sameRelease a b := by
  rw [eq_cmp]
  simp only [cmp, baseVer, phase, preNum, postCmp, devCmp, localCmp, sameRelease]
  have h4 : compare 4 4 = Ordering.eq := by decide
  have h0 : compare 0 0 = Ordering.eq := by decide
  rw [h4, h0]
  by_cases he : a.epoch = b.epoch
  · have : compare a.epoch b.epoch = .eq := Nat.compare_eq_eq.mpr he
    rw [this]; simp only [he, beq_self_eq_true, Bool.true_and]
    cases padCmp a.release b.release <;> rfl
  · have hne : (a.epoch == b.epoch) = false := by simpa using he
    rw [hne]
    rcases Nat.lt_or_gt_of_ne he with h | h
    · rw [Nat.compare_eq_lt.mpr h]; rfl
    · rw [Nat.compare_eq_gt.mpr h]; rfl

section ops
variable {WF : Ver → Prop}

/-! ### `<=`, `>=`, `==V`, `!=V`, `<`, `>`: C01 facts plus re-parsing -/

theorem le_eq_spec (hpub : ∀ v, WF v → scan v.public = some (pub v))
    (c v : Ver) (raw : Str) (wc : WF c) (hv : scan raw = some v) :
    compareLE c raw = .ok (admits .le v false raw c) := by
  simp [compareLE, version, hpub c wc, hv, admits, le_cmp, bind, Except.bind, pure, Except.pure]

theorem ge_eq_spec (hpub : ∀ v, WF v → scan v.public = some (pub v))
    (c v : Ver) (raw : Str) (wc : WF c) (hv : scan raw = some v) :
    compareGE c raw = .ok (admits .ge v false raw c) := by
  simp [compareGE, version, hpub c wc, hv, admits, ge_cmp, bind, Except.bind, pure, Except.pure]

theorem eq_eq_spec (hpub : ∀ v, WF v → scan v.public = some (pub v))
    (c v : Ver) (raw : Str) (wc : WF c) (hv : scan raw = some v) (hnw : endsWith raw [46, 42] = false) :
    compareEqual c raw = .ok (admits .eq v false raw c) := by
  cases hl : v.loc.isNone <;>
    simp [compareEqual, version, hpub c wc, hv, hnw, hl, admits, eq_cmp, bind, Except.bind, pure, Except.pure]

theorem ne_eq_spec (hpub : ∀ v, WF v → scan v.public = some (pub v))
    (c v : Ver) (raw : Str) (wc : WF c) (hv : scan raw = some v) (hnw : endsWith raw [46, 42] = false) :
    compareNotEqual c raw = .ok (admits .ne v false raw c) := by
  have h := eq_eq_spec hpub c v raw wc hv hnw
  simp [compareNotEqual, h, admits, bind, Except.bind, pure, Except.pure]

/-- `<V` -/
theorem lt_eq_spec (hbase : ∀ v, WF v → scan v.base = some (baseVer v))
    (c v : Ver) (raw : Str) (wc : WF c) (wv : WF v) (hv : scan raw = some v) :
    compareLT c raw = .ok (admits .lt v false raw c) := by
  simp only [compareLT, version, hv, hbase c wc, hbase v wv, base_eq, lt_cmp, admits, bind, Except.bind, pure,
    Except.pure]
  cases isLT (cmp c v) <;> cases v.isPre <;> cases c.isPre <;> cases sameRelease c v <;> rfl

/-- what `_compare_greater_than` computes, on structures -/
def gtCode (c v : Ver) : Bool :=
  isGT (cmp c v) && !(!v.isPost && c.isPost && sameRelease c v) && !(c.loc.isSome && sameRelease c v)

theorem localStr_isSome (c : Ver) : c.localStr.isSome = c.loc.isSome := by
  cases h : c.loc <;> simp [Ver.localStr, h]

theorem gt_eq_code (hbase : ∀ v, WF v → scan v.base = some (baseVer v))
    (c v : Ver) (raw : Str) (wc : WF c) (wv : WF v) (hv : scan raw = some v) :
    compareGT c raw = .ok (gtCode c v) := by
  simp only [compareGT, version, hv, hbase c wc, hbase v wv, base_eq, gt_cmp, gtCode, localStr_isSome, bind,
    Except.bind, pure, Except.pure]
  cases isGT (cmp c v) <;> cases v.isPost <;> cases c.isPost <;> cases sameRelease c v <;> cases c.loc.isSome <;> rfl

/-- the class of inputs on which `>V` departs from the statement: a candidate with a local label that has V's
release but is not V itself plus a label (DESIGN §8 row 4) -/
def gtDefect (c v : Ver) : Bool := c.loc.isSome && sameRelease c v && !isEQ (cmp (pub c) v)

theorem cmp_eq_sameRelease (a b : Ver) (h : isEQ (cmp a b) = true) : sameRelease (pub a) b = true := by
  simp only [cmp] at h
  simp only [sameRelease, pub]
  rcases Nat.lt_trichotomy a.epoch b.epoch with he | he | he
  · rw [Nat.compare_eq_lt.mpr he] at h; simp [Ordering.then, isEQ] at h
  · rw [Nat.compare_eq_eq.mpr he] at h
    simp only [he, beq_self_eq_true, Bool.true_and]
    revert h; cases padCmp a.release b.release <;> simp [Ordering.then, isEQ]
  · rw [Nat.compare_eq_gt.mpr he] at h; simp [Ordering.then, isEQ] at h

/-- **`>V` (partial).**  Full statement `compareGT c raw = .ok (admits .gt v false raw c)` fails on the present
code exactly on `gtDefect` (see `gt_defect_witness`). -/
theorem gt_eq_spec_partial (hbase : ∀ v, WF v → scan v.base = some (baseVer v))
    (c v : Ver) (raw : Str) (wc : WF c) (wv : WF v) (hv : scan raw = some v) (hcls : gtDefect c v = false) :
    compareGT c raw = .ok (admits .gt v false raw c) := by
  rw [gt_eq_code hbase c v raw wc wv hv]
  congr 1
  simp only [gtCode, admits, localVersionOf]
  simp only [gtDefect] at hcls
  have himp := cmp_eq_sameRelease (pub c) v
  have hpp : sameRelease (pub (pub c)) v = sameRelease c v := rfl
  rw [hpp] at himp
  cases hL : c.loc.isSome <;> cases hS : sameRelease c v <;> cases hE : isEQ (cmp (pub c) v) <;>
    simp_all

end ops

/-- `===S`: string equality, case-insensitively, with the candidate's normalised string -/
theorem arbitrary_eq_spec (v c : Ver) (raw : Str) :
    compareArbitrary c raw = .ok (admits .arbitrary v false raw c) := rfl

end C03
