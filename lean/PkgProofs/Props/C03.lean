import PkgModel.Specifier
import PkgModel.Spec.Admits
import PkgProofs.Props.C01
import PkgProofs.Lemmas.ScanStr
import PkgProofs.Lemmas.SpecSplit
/-!
# C03 — `Specifier.contains` implements the PEP 440 operator semantics

Model: `S.Spec.compare` / `S.Spec.contains` (`PkgModel/Specifier.lean`) — the code path with its string
detours.  Spec: `Pep440.admits` (`PkgModel/Spec/Admits.lean`).

The comparisons re-parse rendered versions (`Version(prospective.public)`, `Version(spec.base_version)`, …).
That "re-parsing a rendered version gives it back" is C02's theorem `V.scan_str`; `reparse_public` and
`reparse_base` below are its two instances used here.  Candidates are well formed (`V.WF`): that is what
`scan` returns (`V.scan_wf`).
-/
namespace C03
open V Py S Pep440

/-- `Version(v.base_version)` as a structure -/
def baseVer (v : Ver) : Ver := ⟨v.epoch, v.release, none, none, none, none⟩

/-! ### the six Python operators in terms of the PEP 440 order (C01) -/

theorem lt_cmp (a b : Ver) : a.lt b = isLT (cmp a b) := by
  rw [(C01.ops_agree a b).1, C01.cmp_eq_pep440]; cases cmp a b <;> rfl
theorem le_cmp (a b : Ver) : a.le b = !isGT (cmp a b) := by
  rw [(C01.ops_agree a b).2.1, C01.cmp_eq_pep440]; cases cmp a b <;> rfl
theorem gt_cmp (a b : Ver) : a.gt b = isGT (cmp a b) := by
  rw [(C01.ops_agree a b).2.2.1, C01.cmp_eq_pep440]; cases cmp a b <;> rfl
theorem ge_cmp (a b : Ver) : a.ge b = !isLT (cmp a b) := by
  rw [(C01.ops_agree a b).2.2.2, C01.cmp_eq_pep440]; cases cmp a b <;> rfl
theorem eq_cmp (a b : Ver) : a.eq b = isEQ (cmp a b) := by
  rw [(C01.eq_agrees a b).1, C01.cmp_eq_pep440]; cases cmp a b <;> rfl

/-- two base versions are equal as versions iff epoch and zero-padded release agree -/
theorem baseVer_eq (a b : Ver) : (baseVer a).eq (baseVer b) = sameRelease a b := by
  rw [eq_cmp]
  simp only [cmp, baseVer, phase, preNum, postCmp, devCmp, localCmp, sameRelease]
  have h4 : compare 4 4 = Ordering.eq := by decide
  have h0 : compare 0 0 = Ordering.eq := by decide
  rw [h4, h0]
  by_cases he : a.epoch = b.epoch
  · have : compare a.epoch b.epoch = .eq := Nat.compare_eq_eq.mpr he
    rw [this]; simp only [he, beq_self_eq_true, Bool.true_and]
    cases padCmp a.release b.release <;> rfl
  · have hne : (a.epoch == b.epoch) = false := by simpa using he
    rw [hne]
    rcases Nat.lt_or_gt_of_ne he with h | h
    · rw [Nat.compare_eq_lt.mpr h]; rfl
    · rw [Nat.compare_eq_gt.mpr h]; rfl

theorem baseVer_cmp (a b : Ver) : isEQ (cmp (baseVer a) (baseVer b)) = sameRelease a b := by
  rw [← eq_cmp]; exact baseVer_eq a b

/-! ### re-parsing rendered versions (instances of `V.scan_str`) -/

theorem wf_release {v : Ver} (h : WF v) : v.release ≠ [] := by
  simp only [WF, Ver.wf, Bool.and_eq_true] at h
  intro e; rw [e] at h; simp at h

theorem wf_pub (v : Ver) (h : WF v) : WF (pub v) := by
  simp only [WF, Ver.wf, Bool.and_eq_true] at h ⊢
  exact ⟨h.1, rfl⟩

theorem wf_base (v : Ver) (h : WF v) : WF (baseVer v) := by
  simp only [WF, Ver.wf, Bool.and_eq_true] at h ⊢
  exact ⟨h.1, rfl⟩

theorem pub_str (v : Ver) : (pub v).str = v.public := by
  simp [Ver.str, Ver.localStr, pub, Ver.public, Ver.base]

theorem base_str (v : Ver) : (baseVer v).str = v.base := by
  simp [Ver.str, Ver.localStr, baseVer, Ver.public, Ver.base]

theorem str_noloc (v : Ver) (h : v.loc = none) : v.str = v.public := by
  simp [Ver.str, Ver.localStr, h]

theorem reparse_public (v : Ver) (h : WF v) : scan v.public = some (pub v) := by
  rw [← pub_str]; exact scan_str _ (wf_pub v h)

theorem reparse_base (v : Ver) (h : WF v) : scan v.base = some (baseVer v) := by
  rw [← base_str]; exact scan_str _ (wf_base v h)

/-- `N!1.2.3` with the epoch written out (also when it is 0): the text `_version_join` produces -/
theorem scan_epoch_release (e r0 : Nat) (ns : List Nat) :
    scan (dec e ++ [33] ++ renderRelease (r0 :: ns)) = some ⟨e, r0 :: ns, none, none, none, none⟩ := by
  have hrest := scanRest_render e r0 ns none none none none rfl
  simp only [preS, postS, devS, locS, List.append_nil] at hrest
  have hnd : NoDigit (tailS (ns.map dec)) := by
    have := noDigit_tailS (ns.map dec) [] (by intro c hc; simp at hc)
    simpa using this
  have hr0 := optNum_dec r0 _ hnd
  have hnb : NoDigit (33 :: (dec r0 ++ tailS (ns.map dec))) := by
    intro c hc; simp at hc; subst hc; decide
  have hcore : scanCore (dec e ++ (33 :: (dec r0 ++ tailS (ns.map dec)))) =
      some (⟨e, r0 :: ns, none, none, none, none⟩, []) := by
    rw [scanCore_eq, stripV_dec, optNum_dec e _ hnb]
    simp only [epochStep, hr0, hrest]
  have hstr : dec e ++ [33] ++ renderRelease (r0 :: ns) = dec e ++ (33 :: (dec r0 ++ tailS (ns.map dec))) := by
    simp [renderRelease, join_dot]
  obtain ⟨d, ds, hd, hdd⟩ := dec_head e
  have hws : (dec e ++ (33 :: (dec r0 ++ tailS (ns.map dec)))).dropWhile isWs =
      dec e ++ (33 :: (dec r0 ++ tailS (ns.map dec))) := by
    simp [hd, isWs_digit hdd]
  simp [scan, hstr, hws, hcore]

/-! ### `<=`, `>=`, `==V`, `!=V`, `<`, `>`: C01 facts plus re-parsing -/

theorem le_eq_spec (c v : Ver) (raw : Str) (wc : WF c) (hv : scan raw = some v) :
    compareLE c raw = .ok (admits .le v false raw c) := by
  simp [compareLE, version, reparse_public c wc, hv, admits, le_cmp, bind, Except.bind, pure, Except.pure]

theorem ge_eq_spec (c v : Ver) (raw : Str) (wc : WF c) (hv : scan raw = some v) :
    compareGE c raw = .ok (admits .ge v false raw c) := by
  simp [compareGE, version, reparse_public c wc, hv, admits, ge_cmp, bind, Except.bind, pure, Except.pure]

theorem eq_eq_spec (c v : Ver) (raw : Str) (wc : WF c) (hv : scan raw = some v)
    (hnw : endsWith raw [46, 42] = false) :
    compareEqual c raw = .ok (admits .eq v false raw c) := by
  cases hl : v.loc.isNone <;>
    simp [compareEqual, version, reparse_public c wc, hv, hnw, hl, admits, eq_cmp, bind, Except.bind, pure,
      Except.pure]

theorem ne_eq_spec (c v : Ver) (raw : Str) (wc : WF c) (hv : scan raw = some v)
    (hnw : endsWith raw [46, 42] = false) :
    compareNotEqual c raw = .ok (admits .ne v false raw c) := by
  have h := eq_eq_spec c v raw wc hv hnw
  simp [compareNotEqual, h, admits, bind, Except.bind, pure, Except.pure]

/-- `<V` -/
theorem lt_eq_spec (c v : Ver) (raw : Str) (wc : WF c) (hv : scan raw = some v) :
    compareLT c raw = .ok (admits .lt v false raw c) := by
  have wv := scan_wf raw v hv
  simp only [compareLT, version, hv, reparse_base c wc, reparse_base v wv, baseVer_eq, lt_cmp, admits, bind,
    Except.bind, pure, Except.pure]
  cases isLT (cmp c v) <;> cases v.isPre <;> cases c.isPre <;> cases sameRelease c v <;> rfl

theorem localStr_isSome (c : Ver) : c.localStr.isSome = c.loc.isSome := by
  cases h : c.loc <;> simp [Ver.localStr, h]

/-- `>V` -/
theorem gt_eq_spec (c v : Ver) (raw : Str) (wc : WF c) (hv : scan raw = some v) :
    compareGT c raw = .ok (admits .gt v false raw c) := by
  have wv := scan_wf raw v hv
  simp only [compareGT, version, hv, reparse_base c wc, reparse_base v wv, reparse_public c wc, baseVer_eq, baseVer_cmp, gt_cmp,
    eq_cmp, admits, localVersionOf, localStr_isSome, bind, Except.bind, pure, Except.pure]
  cases isGT (cmp c v) <;> cases v.isPost <;> cases c.isPost <;> cases sameRelease c v <;> cases c.loc.isSome <;>
    cases isEQ (cmp (pub c) v) <;> rfl

/-- `===S`: string equality, case-insensitively, with the candidate's normalised string -/
theorem arbitrary_eq_spec (v c : Ver) (raw : Str) :
    compareArbitrary c raw = .ok (admits .arbitrary v false raw c) := rfl

/-! ### `==V.*`, `!=V.*`: from token lists of rendered strings to "zero-padded prefix" -/

theorem canon_public (c : Ver) (wc : WF c) : canonNoStrip c.public = .ok c.public := by
  simp [canonNoStrip, canonicalizeVersion, reparse_public c wc, Ver.canon, pub_str]

theorem canon_text (t : Str) (v : Ver) (hv : scan t = some v) : canonNoStrip t = .ok v.str := by
  simp [canonNoStrip, canonicalizeVersion, hv, Ver.canon]

theorem endsWith_wild (t : Str) : endsWith (t ++ [46, 42]) [46, 42] = true := by
  simp [endsWith, startsWith]

theorem take_wild (t : Str) : (t ++ [46, 42]).take ((t ++ [46, 42]).length - 2) = t := by
  apply List.take_left'; simp

def Bare (v : Ver) : Prop := v.pre = none ∧ v.post = none ∧ v.dev = none ∧ v.loc = none

theorem sufToks_bare {v : Ver} (h : Bare v) : SS.sufToks v = [] := by
  obtain ⟨h1, h2, h3, _⟩ := h
  simp [SS.sufToks, SS.preTok, SS.postTok, SS.devTok, h1, h2, h3]

/-- `==V.*` -/
theorem eq_wild_eq_spec (c v : Ver) (t : Str) (wc : WF c) (hv : scan t = some v) (hb : Bare v) :
    compareEqual c (t ++ [46, 42]) = .ok (admits .eq v true (t ++ [46, 42]) c) := by
  have wv := scan_wf t v hv
  have hsv : versionSplit v.str = (v.epoch :: v.release).map dec := by
    rw [str_noloc v hb.2.2.2, SS.versionSplit_public v (wf_release wv), sufToks_bare hb, List.append_nil]
  have hsc := SS.versionSplit_public c (wf_release wc)
  have hX : ∀ x ∈ SS.sufToks c, isDigitStr x = false := fun x hx => (SS.sufToks_class c x hx).1
  have hpad := SS.pad_take (c.epoch :: c.release) (v.epoch :: v.release) (SS.sufToks c) hX
  simp only [compareEqual, endsWith_wild, take_wild, canon_public c wc, canon_text t v hv, if_true, bind,
    Except.bind, pure, Except.pure, hsv, hsc]
  congr 1
  rw [hpad]
  simp only [admits, if_true, prefixMatch, zeroPadPrefix]
  rw [SS.nat_beq_comm]

/-- `!=V.*` -/
theorem ne_wild_eq_spec (c v : Ver) (t : Str) (wc : WF c) (hv : scan t = some v) (hb : Bare v) :
    compareNotEqual c (t ++ [46, 42]) = .ok (admits .ne v true (t ++ [46, 42]) c) := by
  have h := eq_wild_eq_spec c v t wc hv hb
  simp [compareNotEqual, h, admits, bind, Except.bind, pure, Except.pure]

/-! ### `~=V` -/

theorem dropLast_cons_ne {α} (a : α) (l : List α) (h : l ≠ []) : (a :: l).dropLast = a :: l.dropLast := by
  cases l with
  | nil => exact absurd rfl h
  | cons b bs => rfl

/-- `~=V`: `>=V` and `==P.*`, `P` being `V`'s epoch and release minus the last component -/
theorem compat_eq_spec (c v : Ver) (raw : Str) (wc : WF c) (hv : scan raw = some v) (hloc : v.loc = none)
    (h2 : 2 ≤ v.release.length) :
    compareCompatible c raw = .ok (admits .compatible v false raw c) := by
  have wv := scan_wf raw v hv
  have hrel := wf_release wv
  have hsplit : versionSplit v.str = (v.epoch :: v.release).map dec ++ SS.sufToks v := by
    rw [str_noloc v hloc, SS.versionSplit_public v hrel]
  have htw : ((v.epoch :: v.release).map dec ++ SS.sufToks v).takeWhile isNotSuffix =
      (v.epoch :: v.release).map dec :=
    SS.takeWhile_notSuffix _ _ (fun x hx => (SS.sufToks_class v x hx).2)
  have hdl : ((v.epoch :: v.release).map dec).dropLast = dec v.epoch :: (v.release.dropLast).map dec := by
    rw [← List.map_dropLast, dropLast_cons_ne _ _ hrel]; rfl
  obtain ⟨r0, ns, hr⟩ : ∃ r0 ns, v.release.dropLast = r0 :: ns := by
    cases h : v.release.dropLast with
    | nil => have := congrArg List.length h; simp at this; omega
    | cons a as => exact ⟨a, as, rfl⟩
  have hscanp := scan_epoch_release v.epoch r0 ns
  have hbare : Bare (⟨v.epoch, r0 :: ns, none, none, none, none⟩ : Ver) := ⟨rfl, rfl, rfl, rfl⟩
  have hw := eq_wild_eq_spec c _ _ wc hscanp hbare
  have hge := ge_eq_spec c v raw wc hv
  simp only [compareCompatible, canon_text raw v hv, hsplit, htw, hdl, versionJoin, hr, hge, bind, Except.bind,
    pure, Except.pure]
  have hj : dec v.epoch ++ [33] ++ join [46] (List.map dec (r0 :: ns)) ++ [46, 42] =
      dec v.epoch ++ [33] ++ renderRelease (r0 :: ns) ++ [46, 42] := rfl
  rw [hj, hw]
  have h1 : admits .compatible v false raw c = (admits .ge v false raw c && prefixMatch v.epoch (r0 :: ns) c) := by
    simp only [admits, hr]
  rw [h1]
  cases admits .ge v false raw c <;> simp [admits]

/-! ### the property: `contains` with pre-releases enabled equals the PEP 440 definition -/

/-- What "the operator's grammar admits the clause" gives: the text after the operator reads (`V.scan`) as the
version `v`; a trailing `.*` only after `==`/`!=` and only on a bare release; a local label only after
`==`/`!=`; at least two release components after `~=`; anything after `===`.
(`Specifier._regex` enforces exactly these; C12 proves that language against PEP 440.) -/
inductive Clause : Spec → Ver → Bool → Prop
  | plain (op : S.Op) (raw : Str) (v : Ver) (hop : op ≠ .arbitrary) (hv : scan raw = some v)
      (hnw : op = .eq ∨ op = .ne → endsWith raw [46, 42] = false) (hloc : v.loc ≠ none → op = .eq ∨ op = .ne)
      (hcompat : op = .compatible → 2 ≤ v.release.length) : Clause ⟨op, raw⟩ v false
  | wild (op : S.Op) (t : Str) (v : Ver) (hop : op = .eq ∨ op = .ne) (hv : scan t = some v) (hb : Bare v) :
      Clause ⟨op, t ++ [46, 42]⟩ v true
  | arbitrary (raw : Str) (v : Ver) : Clause ⟨.arbitrary, raw⟩ v false

/-- one lemma per operator, assembled -/
theorem compare_eq_spec (sp : Spec) (v : Ver) (wild : Bool) (c : Ver) (hcl : Clause sp v wild) (wc : WF c) :
    sp.compare c = .ok (admits sp.op v wild sp.ver c) := by
  cases hcl with
  | plain op raw v hop hv hnw hloc hcompat =>
    cases op with
    | compatible =>
      have hl : v.loc = none := by
        cases h : v.loc with
        | none => rfl
        | some l => have := hloc (by simp [h]); simp at this
      exact compat_eq_spec c v raw wc hv hl (hcompat rfl)
    | eq => exact eq_eq_spec c v raw wc hv (hnw (.inl rfl))
    | ne => exact ne_eq_spec c v raw wc hv (hnw (.inr rfl))
    | le => exact le_eq_spec c v raw wc hv
    | ge => exact ge_eq_spec c v raw wc hv
    | lt => exact lt_eq_spec c v raw wc hv
    | gt => exact gt_eq_spec c v raw wc hv
    | arbitrary => exact absurd rfl hop
  | wild op t v hop hv hb =>
    rcases hop with rfl | rfl
    · exact eq_wild_eq_spec c v t wc hv hb
    · exact ne_wild_eq_spec c v t wc hv hb
  | arbitrary raw v => exact arbitrary_eq_spec v c raw

/-- **C03.**  For every clause the grammar admits (any spelling of its version), every candidate `scan` can
return, and whatever override the specifier was constructed with: `contains(candidate, prereleases=True)` is
the PEP 440 definition of the operator.  No exception escapes. -/
theorem contains_eq_spec (sp : Spec) (v : Ver) (wild : Bool) (c : Ver) (override : Option Bool)
    (hcl : Clause sp v wild) (wc : WF c) :
    sp.contains override c (some true) = .ok (admits sp.op v wild sp.ver c) := by
  simp only [Spec.contains, Bool.not_true, Bool.and_false, Bool.false_eq_true, if_false, bind, Except.bind, pure,
    Except.pure]
  exact compare_eq_spec sp v wild c hcl wc

/-- the same through the specifier's own setting: `Specifier(s, prereleases=True).contains(c)` / `c in …` -/
theorem contains_override_eq_spec (sp : Spec) (v : Ver) (wild : Bool) (c : Ver)
    (hcl : Clause sp v wild) (wc : WF c) :
    sp.contains (some true) c none = .ok (admits sp.op v wild sp.ver c) := by
  simp only [Spec.contains, Spec.prereleases, Bool.not_true, Bool.and_false, Bool.false_eq_true, if_false, bind,
    Except.bind, pure, Except.pure]
  exact compare_eq_spec sp v wild c hcl wc

/-! ### from `Specifier._spec` to `Clause`: the decidable reading `Pep440.readClause` -/

theorem endsWith_split (s : Str) (h : endsWith s [46, 42] = true) : ∃ t, s = t ++ [46, 42] := by
  unfold endsWith at h
  have hr : s = s.reverse.reverse := (List.reverse_reverse s).symm
  cases hs : s.reverse with
  | nil => rw [hs] at h; simp [startsWith] at h
  | cons a t1 =>
    cases t1 with
    | nil => rw [hs] at h; simp [startsWith] at h
    | cons b t2 =>
      rw [hs] at h; simp [startsWith] at h
      obtain ⟨ha, hb⟩ := h; subst ha; subst hb
      refine ⟨t2.reverse, ?_⟩
      rw [hr, hs]; simp

/-- whatever `readClause` accepts is a clause in the sense of `contains_eq_spec` -/
theorem readClause_sound (sp : Spec) (v : Ver) (w : Bool) (h : readClause sp = some (v, w)) : Clause sp v w := by
  obtain ⟨op, raw⟩ := sp
  unfold readClause at h
  by_cases hop : op = .arbitrary
  · subst hop
    simp at h
    obtain ⟨rfl, rfl⟩ := h
    exact .arbitrary raw _
  · have hop' : (op == S.Op.arbitrary) = false := by simpa using hop
    simp only [hop', Bool.false_eq_true, if_false] at h
    cases hw : ((op == S.Op.eq || op == S.Op.ne) && endsWith raw [46, 42]) with
    | true =>
      simp only [hw, if_true] at h
      cases hs : scan (raw.take (raw.length - 2)) with
      | none => simp [hs] at h
      | some v' =>
        simp only [hs] at h
        split at h
        · rename_i hc
          simp only [Option.some.injEq, Prod.mk.injEq] at h
          obtain ⟨rfl, rfl⟩ := h
          simp only [Bool.and_eq_true, Bool.or_eq_true, beq_iff_eq] at hw
          obtain ⟨t, ht⟩ := endsWith_split raw hw.2
          subst ht
          rw [take_wild] at hs
          simp only [Bool.not_true, Bool.false_or, Bool.and_eq_true, Option.isNone_iff_eq_none] at hc
          exact .wild op t v' hw.1 hs ⟨hc.1.1.1.1.1, hc.1.1.1.1.2, hc.1.1.1.2, hc.1.1.2⟩
        · cases h
    | false =>
      simp only [hw, Bool.false_eq_true, if_false] at h
      cases hs : scan raw with
      | none => simp [hs] at h
      | some v' =>
        simp only [hs] at h
        split at h
        · rename_i hc
          simp only [Option.some.injEq, Prod.mk.injEq] at h
          obtain ⟨rfl, rfl⟩ := h
          simp only [Bool.not_false, Bool.true_or, Bool.true_and, Bool.and_eq_true,
            Bool.or_eq_true, beq_iff_eq, bne_iff_ne, ne_eq, decide_eq_true_eq,
            Option.isNone_iff_eq_none] at hc
          refine .plain op raw v' hop hs ?_ ?_ ?_
          · intro hopeq
            have h1 : (op == S.Op.eq || op == S.Op.ne) = true := by
              rcases hopeq with rfl | rfl <;> rfl
            rw [h1, Bool.true_and] at hw; exact hw
          · intro hl
            rcases hc.1 with (h1 | h1) | h1
            · exact absurd h1 hl
            · exact .inl h1
            · exact .inr h1
          · intro hcomp
            rcases hc.2 with h1 | h1
            · exact absurd hcomp h1
            · exact h1
        · cases h

/-! ### from `Specifier.__init__` to `readClause` -/

theorem scanCore_no_ws (t : Str) (x : Ver × Str) (h : scanCore t = some x) : t.dropWhile isWs = t := by
  cases t with
  | nil => rfl
  | cons c cs =>
    by_cases hw : isWs c = true
    · exfalso
      have hb : c = 32 ∨ (9 ≤ c ∧ c ≤ 13) := by simpa [isWs] using hw
      have hl : (lowerAscii c == 118) = false := by
        have : isUpperAscii c = false := by simp [isUpperAscii]; omega
        simp [lowerAscii, this]; omega
      have hd : isDigit c = false := by simp [isDigit]; omega
      rw [scanCore_eq] at h
      simp [stripV, hl, optNum, spanDigits, hd] at h
    · simp [List.dropWhile, hw]

theorem scan_of_scanCore (t : Str) (v : Ver) (h : scanCore t = some (v, [])) : scan t = some v := by
  simp [scan, scanCore_no_ws t _ h, h]

/-- **whatever `Specifier.__init__` stores reads as a clause** -/
theorem parse_readClause (s : Str) (sp : Spec) (hp : parseSpec s = some sp) :
    ∃ v w, readClause sp = some (v, w) := by
  unfold parseSpec at hp
  split at hp
  · cases hp
  · rename_i op r _
    simp only at hp
    by_cases hop : op = .arbitrary
    · subst hop
      simp only [beq_self_eq_true, if_true] at hp
      split at hp
      · injection hp with hp; subst hp
        exact ⟨⟨0, [], none, none, none, none⟩, false, by simp [readClause]⟩
      · cases hp
    · have hop' : (op == S.Op.arbitrary) = false := by simpa using hop
      simp only [hop', Bool.false_eq_true, if_false] at hp
      split at hp
      · rename_i v hsc
        split at hp
        · rename_i hform
          injection hp with hp; subst hp
          refine ⟨v, (op == S.Op.eq || op == S.Op.ne) && endsWith (stripBy isWs r) [46, 42], ?_⟩
          simp only [readClause, hop', Bool.false_eq_true, if_false, scan_of_scanCore _ v hsc]
          exact if_pos hform
        · cases hp
      · cases hp

/-- **C03, from the strings.**  For every string `s` that `Specifier` accepts and every string `cs` that `Version`
accepts, `Specifier(s).contains(cs, prereleases=True)` is the PEP 440 definition of the operator applied to the
version the clause names (`readClause`) and to the candidate; no exception escapes. -/
theorem contains_eq_spec_strings (s cs : Str) (sp : Spec) (c : Ver) (override : Option Bool)
    (hp : parseSpec s = some sp) (hc : scan cs = some c) :
    ∃ v w, readClause sp = some (v, w) ∧
      sp.contains override c (some true) = .ok (admits sp.op v w sp.ver c) := by
  obtain ⟨v, w, hr⟩ := parse_readClause s sp hp
  exact ⟨v, w, hr, contains_eq_spec sp v w c override (readClause_sound sp v w hr) (scan_wf cs c hc)⟩

/-! ### non-vacuity: concrete clauses and candidates on every branch -/

def mk (rel : List Nat) (pre : Option (PreL × Nat) := none) (post dev : Option Nat := none)
    (loc : Option (List LSeg) := none) (epoch : Nat := 0) : Ver :=
  { epoch := epoch, release := rel, pre := pre, post := post, dev := dev, loc := loc }

/-- the answer of a comparison, `false` if it raised -/
def okTrue : R Bool → Bool
  | .ok b => b
  | .error _ => false
def okFalse : R Bool → Bool
  | .ok b => !b
  | .error _ => false

-- `==1!1.0.0.*` admits `1!1` (zero padding) and `1!1.0.0rc1`, not `1.0.0` (epoch) nor `1!1.0.1`
example : Clause ⟨.eq, ofString "1!1.0.0" ++ [46, 42]⟩ (mk [1, 0, 0] (epoch := 1)) true :=
  .wild .eq (ofString "1!1.0.0") (mk [1, 0, 0] (epoch := 1)) (.inl rfl) (by decide +kernel) ⟨rfl, rfl, rfl, rfl⟩
example : admits .eq (mk [1, 0, 0] (epoch := 1)) true [] (mk [1] (epoch := 1)) = true ∧
          admits .eq (mk [1, 0, 0] (epoch := 1)) true [] (mk [1, 0, 0] (pre := some (.rc, 1)) (epoch := 1)) = true ∧
          admits .eq (mk [1, 0, 0] (epoch := 1)) true [] (mk [1, 0, 0]) = false ∧
          admits .eq (mk [1, 0, 0] (epoch := 1)) true [] (mk [1, 0, 1] (epoch := 1)) = false := by decide +kernel
-- `~=1.0.POST1` (any spelling) means `>=1.0.post1, ==1.*`: it admits 1.1 — this failed before C03-fix-1
example : Clause ⟨.compatible, ofString "1.0.POST1"⟩ (mk [1, 0] (post := some 1)) false :=
  .plain .compatible (ofString "1.0.POST1") (mk [1, 0] (post := some 1)) (by decide) (by decide +kernel)
    (by decide) (by decide) (by decide)
example : okTrue ((⟨.compatible, ofString "1.0.POST1"⟩ : Spec).compare (mk [1, 1])) = true := by decide +kernel
example : okTrue ((⟨.compatible, ofString "v1.0"⟩ : Spec).compare (mk [1, 5])) = true := by decide +kernel
-- `>1.0.post1` admits `1.0.post2+x`, `>1.0a1` admits `1.0+x` (failed before C03-fix-2); `>1.0` rejects `1.0+x`
example : okTrue ((⟨.gt, ofString "1.0.post1"⟩ : Spec).compare
    (mk [1, 0] (post := some 2) (loc := some [.str [120]]))) = true := by decide +kernel
example : okTrue ((⟨.gt, ofString "1.0a1"⟩ : Spec).compare (mk [1, 0] (loc := some [.str [120]]))) = true := by
  decide +kernel
example : okFalse ((⟨.gt, ofString "1.0"⟩ : Spec).compare (mk [1, 0] (loc := some [.str [120]]))) = true := by
  decide +kernel
-- `<1.0` rejects `1.0.dev0` and `1.0a1` but `<1.0rc1` admits `1.0a1`; `>1.0` rejects `1.0.post1`
example : okFalse ((⟨.lt, ofString "1.0"⟩ : Spec).compare (mk [1, 0] (dev := some 0))) = true ∧
          okTrue ((⟨.lt, ofString "1.0"⟩ : Spec).compare (mk [0, 9] (dev := some 0))) = true ∧
          okTrue ((⟨.lt, ofString "1.0rc1"⟩ : Spec).compare (mk [1, 0] (pre := some (.a, 1)))) = true ∧
          okFalse ((⟨.gt, ofString "1.0"⟩ : Spec).compare (mk [1, 0, 0] (post := some 1))) = true ∧
          okTrue ((⟨.gt, ofString "1.0.post1"⟩ : Spec).compare (mk [1, 0] (post := some 2))) = true := by
  decide +kernel
example : WF (mk [1, 0] (post := some 2) (loc := some [.str [120]])) := by decide
-- the hypotheses of `contains_eq_spec_strings` on a clause with white space, `v`, epoch and wildcard
example : parseSpec (ofString " == v1!1.00.* ") = some ⟨.eq, ofString "v1!1.00.*"⟩ ∧
          readClause ⟨.eq, ofString "v1!1.00.*"⟩ = some (mk [1, 0] (epoch := 1), true) ∧
          scan (ofString "1!1.0.5rc1+X") = some (mk [1, 0, 5] (pre := some (.rc, 1)) (loc := some [.str [120]]) (epoch := 1)) := by
  decide +kernel

end C03
