import PkgModel.Specifier
import PkgModel.Spec.Admits
import PkgProofs.Props.C01
/-!
# C03 — `Specifier.contains` implements the PEP 440 operator semantics
-/
namespace C03
open V Py S Pep440

/-- `===S`: string equality, case-insensitively, with the candidate's normalised string -/
theorem arbitrary_eq_spec (v c : Ver) (raw : Str) :
    compareArbitrary c raw = .ok (admits .arbitrary v false raw c) := rfl

end C03
