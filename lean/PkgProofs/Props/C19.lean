import PkgProofs.Props.C19.Tables
import PkgProofs.Props.C19.Unicode
import PkgProofs.Lemmas.LicModel
/-!
# C19 — licence expressions are validated and canonicalised per SPDX

Model: `Lic.canon` (`PkgModel/License.lean`) mirrors `canonicalize_license_expression` step by step.
Spec: `Spdx.lex`, `Spdx.WF` (a recursive-descent recogniser of the SPDX grammar over the bundled tables)
and `Spdx.canon` (`PkgModel/Spec/Spdx.lean`), written from the statement.
All theorems quantify over arbitrary strings of code points (unbounded length and nesting).
-/
namespace C19
open Py Lic Spdx LicL LicW LicP LicR LicM

/-- the regenerated tables have the shape the statement and the code both rely on -/
theorem table_wellformed :
    Gen.SpdxTables.licenses.all entryOk = true ∧ Gen.SpdxTables.exceptions.all entryOk = true ∧
    distinctKeys (keys Gen.SpdxTables.licenses) = true ∧ distinctKeys (keys Gen.SpdxTables.exceptions) = true ∧
    plusClosed Gen.SpdxTables.licenses = true :=
  ⟨licenses_entries_ok, exceptions_entries_ok, licenses_distinct, exceptions_distinct, licenses_plus_closed⟩

/-! ### refinement: the implementation computes the reference semantics, for every input string -/

/-- **model = spec**: `canonicalize_license_expression(s)` returns the SPDX canonical form of `s` when `s`
is a well-formed SPDX expression over the bundled tables, and raises `InvalidLicenseExpression` otherwise. -/
theorem canon_eq_spec (s : Str) : Lic.canon s = Spdx.canon (Spdx.lex s) := by
  unfold Lic.canon
  by_cases he : s = []
  · subst he; rfl
  · have hne : s.isEmpty = false := by cases s <;> simp_all
    simp only [hne, Bool.false_eq_true, if_false]
    rw [split_lower, lex_eq]
    have hok := split_pad_ok s
    generalize split (pad s) = ws at hok
    have hpass := passes_eq ws hok 0 .lp none rfl
    unfold canonT Spdx.canon
    rw [WF_eq_goC, ← hpass]
    cases hst : structGo (ws.map lowerStr) 0 .lp with
    | false => simp
    | true =>
      simp only [Bool.not_true, Bool.false_eq_true, if_false, Bool.true_and]
      cases hn : normGo (ws.zip (ws.map lowerStr)) none with
      | none => simp
      | some r =>
        have h1 := norm_eq ws hok none false rfl r hn
        have h2 := norm_ok ws hok none r hn
        simp only [Option.map_some, Option.isSome_some, if_true, ← h1]
        rw [tighten_join r (fun x hx => wordOK_ctok (h2 x hx))]

/-- accepted ⇔ well-formed SPDX (the full statement; no excluded class) -/
theorem accepts_iff_spdx_wf (s : Str) : Lic.accepts s = Spdx.WF (Spdx.lex s) := by
  unfold Lic.accepts
  rw [canon_eq_spec]
  unfold Spdx.canon
  cases Spdx.WF (Spdx.lex s) <;> rfl

example : Lic.accepts [40, 40, 77, 73, 84, 41, 41] = true := by decide +kernel          -- "((MIT))"
example : Lic.accepts [77, 73, 84, 32, 65, 78, 68, 32, 40, 41] = false := by decide +kernel   -- "MIT AND ()"

end C19
