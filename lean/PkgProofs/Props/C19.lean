import PkgProofs.Props.C19.Tables
import PkgProofs.Props.C19.Unicode
import PkgProofs.Lemmas.LicModel
import PkgProofs.Lemmas.LicCanon
/-!
# C19 — licence expressions are validated and canonicalised per SPDX

Model: `Lic.canon` (`PkgModel/License.lean`) mirrors `canonicalize_license_expression` step by step.
Spec: `Spdx.lex`, `Spdx.WF` (a recursive-descent recogniser of the SPDX grammar over the bundled tables)
and `Spdx.canon` (`PkgModel/Spec/Spdx.lean`), written from the statement.
All theorems quantify over arbitrary strings of code points (unbounded length and nesting).
-/
namespace C19
open Py Lic Spdx LicL LicW LicP LicR LicM LicC

/-- the regenerated tables have the shape the statement and the code both rely on -/
theorem table_wellformed :
    Gen.SpdxTables.licenses.all entryOk = true ∧ Gen.SpdxTables.exceptions.all entryOk = true ∧
    distinctKeys (keys Gen.SpdxTables.licenses) = true ∧ distinctKeys (keys Gen.SpdxTables.exceptions) = true ∧
    plusClosed Gen.SpdxTables.licenses = true :=
  ⟨licenses_entries_ok, exceptions_entries_ok, licenses_distinct, exceptions_distinct, licenses_plus_closed⟩

/-! ### refinement: the implementation computes the reference semantics, for every input string -/

/-- **model = spec**: `canonicalize_license_expression(s)` returns the SPDX canonical form of `s` when `s`
is a well-formed SPDX expression over the bundled tables, and raises `InvalidLicenseExpression` otherwise. -/
theorem canon_eq_spec (s : Str) : Lic.canon s = Spdx.canon (Spdx.lex s) := by
  unfold Lic.canon
  by_cases he : s = []
  · subst he; rfl
  · have hne : s.isEmpty = false := by cases s <;> simp_all
    simp only [hne, Bool.false_eq_true, if_false]
    rw [split_lower, lex_eq]
    have hok := split_pad_ok s
    generalize split (pad s) = ws at hok
    have hpass := passes_eq ws hok 0 .lp none rfl
    unfold canonT Spdx.canon
    rw [WF_eq_goC, ← hpass]
    cases hst : structGo (ws.map lowerStr) 0 .lp with
    | false => simp
    | true =>
      simp only [Bool.not_true, Bool.false_eq_true, if_false, Bool.true_and]
      cases hn : normGo (ws.zip (ws.map lowerStr)) none with
      | none => simp
      | some r =>
        have h1 := norm_eq ws hok none false rfl r hn
        have h2 := norm_ok ws hok none r hn
        simp only [Option.map_some, Option.isSome_some, if_true, ← h1]
        rw [tighten_join r (fun x hx => wordOK_ctok (h2 x hx))]

/-- accepted ⇔ well-formed SPDX (the full statement; no excluded class) -/
theorem accepts_iff_spdx_wf (s : Str) : Lic.accepts s = Spdx.WF (Spdx.lex s) := by
  unfold Lic.accepts
  rw [canon_eq_spec]
  unfold Spdx.canon
  cases Spdx.WF (Spdx.lex s) <;> rfl

example : Lic.accepts [40, 40, 77, 73, 84, 41, 41] = true := by decide +kernel          -- "((MIT))"
example : Lic.accepts [77, 73, 84, 32, 65, 78, 68, 32, 40, 41] = false := by decide +kernel   -- "MIT AND ()"

/-- the recursive-descent recogniser of the statement and the one-pass check of the implementation
accept the same token lists (the key lemma behind `accepts_iff_spdx_wf`) -/
theorem recogniser_is_machine (ts : List Tok) : Spdx.WF ts = goC ts 0 .lp := WF_eq_goC ts

/-- the recogniser decides the declarative SPDX grammar `Spdx.Compound` (simple, simple WITH exception,
AND, OR, parentheses), so "accepted" can be read off the grammar directly -/
theorem WF_iff_compound (ts : List Tok) : Spdx.WF ts = true ↔ Spdx.Compound ts := LicP.WF_iff_compound ts

/-- accepted ⇔ the token list of the input is derivable in the SPDX grammar -/
theorem accepts_iff_grammar (s : Str) : Lic.accepts s = true ↔ Spdx.Compound (Spdx.lex s) := by
  rw [accepts_iff_spdx_wf]; exact WF_iff_compound _

/-! ### what an accepted result looks like -/

theorem spec_some {ts : List Tok} {r : Str} (h : Spdx.canon ts = some r) :
    Spdx.WF ts = true ∧ r = render ((canonWords ts false).map spell) := by
  unfold Spdx.canon at h
  split at h
  · rename_i hw; simp only [Option.some.injEq] at h; exact ⟨hw, h.symm⟩
  · simp at h

/-- **structure preserved**: an accepted result is the rendering (single spaces, tight parentheses,
upper-case operators) of the input's own token list with every identifier in its official spelling and every
`LicenseRef-` suffix kept; lexing the result gives exactly that token list back, which has the same
shape (parentheses, operators, identifier positions) as the input's. -/
theorem canon_structure_preserved (s r : Str) (h : Lic.canon s = some r) :
    r = render ((canonWords (lex s) false).map spell) ∧
    lex r = canonWords (lex s) false ∧
    (lex r).map shape = (lex s).map shape := by
  rw [canon_eq_spec] at h
  obtain ⟨hwf, hr⟩ := spec_some h
  rw [WF_eq_goC] at hwf
  have hp := canonWords_props (lex s) (lex_srcOK s) 0 .lp hwf
  simp only [show isWith Kind.lp = false from rfl] at hp
  have hlex : lex r = canonWords (lex s) false := by rw [hr]; exact relex _ hp.1
  exact ⟨hr, hlex, by rw [hlex, canonWords_shape]⟩

example : Lic.canon [40, 32, 109, 105, 116, 32, 41, 32, 111, 114, 32, 108, 105, 99, 101, 110, 115, 101, 114, 101, 102, 45, 88]
    = some [40, 77, 73, 84, 41, 32, 79, 82, 32, 76, 105, 99, 101, 110, 115, 101, 82, 101, 102, 45, 88] := by
  decide +kernel   -- "( mit ) or licenseref-X"  ↦  "(MIT) OR LicenseRef-X"

/-- **idempotent**: a result is accepted and is its own canonical form -/
theorem canon_idem (s r : Str) (h : Lic.canon s = some r) : Lic.canon r = some r := by
  have hs := canon_structure_preserved s r h
  rw [canon_eq_spec] at h ⊢
  obtain ⟨hwf, _⟩ := spec_some h
  rw [WF_eq_goC] at hwf
  have hp := canonWords_props (lex s) (lex_srcOK s) 0 .lp hwf
  simp only [show isWith Kind.lp = false from rfl] at hp
  unfold Spdx.canon canonToks
  rw [hs.2.1, WF_eq_goC, hp.2.1, hp.2.2]
  simp only [if_true]
  rw [← hs.1]

/-- **insensitive to case and spacing**: two strings whose token lists agree up to ASCII case
(outside `LicenseRef-` suffixes) — whatever the white space between tokens and around parentheses —
are both rejected or have the same result. -/
theorem case_space_insensitive (s t : Str) (h : (lex s).map foldTok = (lex t).map foldTok) :
    Lic.canon s = Lic.canon t := by
  rw [canon_eq_spec, canon_eq_spec, ← canon_fold (lex s), ← canon_fold (lex t), h]

-- "mit  or\tLicenseRef-x" and " MIT OR licenseref-x " satisfy the hypothesis
example : (lex [109, 105, 116, 32, 32, 111, 114, 9, 76, 105, 99, 101, 110, 115, 101, 82, 101, 102, 45, 120]).map foldTok =
    (lex [32, 77, 73, 84, 32, 79, 82, 32, 108, 105, 99, 101, 110, 115, 101, 114, 101, 102, 45, 120, 32]).map foldTok := by
  decide +kernel

/-- only the documented exception: the model has no other failure mode, and every accepted result is a
string without leading/trailing blank that the function accepts again (see `canon_idem`) -/
theorem rejects_iff_not_wf (s : Str) : Lic.canon s = none ↔ Spdx.WF (lex s) = false := by
  rw [canon_eq_spec]; unfold Spdx.canon
  cases Spdx.WF (lex s) <;> simp

end C19
