import PkgProofs.Props.C19.Tables
import PkgProofs.Props.C19.Unicode
/-!
# C19 — licence expressions are validated and canonicalised per SPDX
-/
namespace C19
open Py Lic

/-- the regenerated tables have the shape the statement and the code both rely on -/
theorem table_wellformed :
    Gen.SpdxTables.licenses.all entryOk = true ∧ Gen.SpdxTables.exceptions.all entryOk = true ∧
    distinctKeys (keys Gen.SpdxTables.licenses) = true ∧ distinctKeys (keys Gen.SpdxTables.exceptions) = true ∧
    plusClosed Gen.SpdxTables.licenses = true :=
  ⟨licenses_entries_ok, exceptions_entries_ok, licenses_distinct, exceptions_distinct, licenses_plus_closed⟩

end C19
