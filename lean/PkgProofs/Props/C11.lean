import PkgProofs.Props.C02
import PkgProofs.Props.C03
/-!
# C11 — every entry point fails only with its documented exception

The models make every exception site explicit (`Option` / `Except String` whose string is the class of
the exception that would escape).  The theorems here say that, on the model, nothing but the
documented outcome is reachable.  That the model's exception sites are *all* the sites there are is
established by the correspondence and by the `only_documented` law on the real code, not here.

Per-area statements that live next to their models and are audited as part of this property:
`C02.canon_never_raises`, `C14.wheel_never_raw`, `C14.reject_*`, `C17.raises_only_from_components`,
`C17.never_raises_if_components_clean`, `C18.raises_iff`, `C18.never_raises`, `C19.canon_eq_spec`
(the licence model is total: `none` is `InvalidLicenseExpression`), `C07.undefined_comparison_iff`,
`C16.elf_*`.
-/
namespace C11
open Py V S

/-- `canonicalize_version` never raises, for any string and either flag value -/
theorem canonicalize_version_never_raises (s : Str) (b : Bool) : (canonicalizeVersion s b).isSome = true :=
  C02.canon_never_raises s b

/-- `Version(s)` either yields a value or `InvalidVersion` (`none`); re-rendering and re-parsing a parsed
version cannot fail, so none of the internal `Version(str(...))` calls of the library can raise -/
theorem version_reparse_never_raises (s : Str) (v : Ver) (h : scan s = some v) :
    scan v.str = some v ∧ (∃ w, scan v.public = some w) ∧ (∃ w, scan v.base = some w) := by
  have hw := scan_wf s v h
  exact ⟨scan_str v hw, ⟨_, C02.scan_public v hw⟩, ⟨_, C02.scan_base v hw⟩⟩

/-- the `.prereleases` property never raises (after fix 15cbec1: an unparsable `===` text names no pre-release) -/
theorem prereleases_never_raises (sp : Spec) (ov : Option Bool) : ∃ b, sp.prereleases ov = .ok b := by
  unfold Spec.prereleases
  cases ov with
  | some b => exact ⟨b, rfl⟩
  | none =>
    simp only
    split
    · split
      · exact ⟨_, rfl⟩
      · exact ⟨false, rfl⟩
    · exact ⟨false, rfl⟩

/-- a parsed specifier compares any valid candidate without an exception -/
theorem compare_no_escape (s cs : Str) (sp : Spec) (c : Ver)
    (hp : parseSpec s = some sp) (hc : scan cs = some c) : ∃ b, sp.compare c = .ok b := by
  obtain ⟨v, w, _, h⟩ := C03.contains_eq_spec_strings s cs sp c none hp hc
  refine ⟨Pep440.admits sp.op v w sp.ver c, ?_⟩
  simpa [Spec.contains, bind, Except.bind, pure, Except.pure] using h

/-- **`Specifier(s).contains(candidate, prereleases)`** returns a Boolean for every accepted specifier, every
valid candidate, every override and every call argument — no `InvalidVersion`/`ValueError` escapes -/
theorem contains_no_escape (s cs : Str) (sp : Spec) (c : Ver) (ov pre : Option Bool)
    (hp : parseSpec s = some sp) (hc : scan cs = some c) : ∃ b, sp.contains ov c pre = .ok b := by
  obtain ⟨r, hr⟩ := compare_no_escape s cs sp c hp hc
  obtain ⟨p, hpre⟩ := prereleases_never_raises sp ov
  unfold Spec.contains
  cases pre with
  | some b =>
    simp only [bind, Except.bind, pure, Except.pure]
    split
    · exact ⟨false, rfl⟩
    · exact ⟨r, hr⟩
  | none =>
    simp only [hpre, bind, Except.bind]
    split
    · exact ⟨false, rfl⟩
    · exact ⟨r, hr⟩

-- non-vacuity: a non-version `===` clause and a pre-release candidate
example : (parseSpec (ofString "===foo")).isSome = true ∧ (scan (ofString "1.0a1")).isSome = true := by decide

end C11
