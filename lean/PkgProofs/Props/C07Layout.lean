import PkgProofs.Props.C07
import PkgProofs.Lemmas.MarkerLayoutParse
/-!
# C07 — precedence and grouping at character level, **any layout**

`C07.parse_precedence_char` / `C07.marker_of_text_refines` cover the canonical spelling (single spaces,
canonical names, double quotes).  Here the same is proved for every way of writing a formula that the tokenizer
admits:

* a run of white space (space / tab, the `WS` rule) at the start, at the end (optionally followed by one newline), on both sides of every operator,
  of `and` / `or`, inside every parenthesis and between `not` and `in` — possibly empty wherever two word
  characters do not meet (`NoMerge`), non-empty between `not` and `in`;
* every literal delimited by `"` or by `'` (the delimiter must not occur in it);
* every variable written in any spelling of the `VARIABLE` rule that `process_env_var` maps to it
  (`os.name`, `sys.platform`, `platform.version`, `platform.machine`, `platform.python_implementation`,
  `python_implementation`, and the canonical names);
* any number of parentheses around comparisons, groups and the whole expression — at least where the grammar
  needs them (`Grouped`: an `or` under `and`, a right operand that is itself an `and`/`or` chain).

Model: `Mk.parse` (tokenizer with the regenerated rules and `\b`, recursive descent), `Mk.mkMarker`, `Mk.evaluate`.
-/
namespace C07
open Py Mk Pep508 MkEval MkParse MkFmt MkLex MkLexP MkWf MkLay
set_option linter.unusedSimpArgs false

/-! ### layouts -/

/-- a layout of a marker text: leading white space, the layout of the expression, trailing white space, and
whether a final newline follows (the `END` rule's `$` matches before it) -/
structure MkLayout where
  lead : Str
  body : ExprLay
  trail : Str
  nl : Bool := false
  deriving DecidableEq, Repr

/-- the formula `t` written according to the layout `ℓ` -/
def renderL (t : Formula) (ℓ : MkLayout) : Str := ℓ.lead ++ (renderE ℓ.body t ++ (ℓ.trail ++ nlTail ℓ.nl))

def isParen : ExprLay → Bool
  | .paren _ _ _ => true
  | _ => false

/-- binding strength of a formula: or 0 < and 1 < comparison 2 -/
def fLevel : Formula → Nat
  | .atom _ => 2
  | .and _ _ => 1
  | .or _ _ => 0

/-- binding strength of a formula as written: anything in parentheses is a primary -/
def lev (ℓ : ExprLay) (t : Formula) : Nat := if isParen ℓ then 2 else fLevel t

/-- **parentheses are written at least where the grammar needs them** (`and` binds tighter than `or`, both
associate to the left): an operand of `and` is not a bare `or`; a right operand is not a bare chain of the same
operator (nor, under `and`, any bare chain) -/
def Grouped : ExprLay → Formula → Prop
  | .paren _ ℓ _, t => Grouped ℓ t
  | .atom _, .atom _ => True
  | .bin ℓl _ _ ℓr, .and l r => Grouped ℓl l ∧ Grouped ℓr r ∧ 1 ≤ lev ℓl l ∧ 2 ≤ lev ℓr r
  | .bin ℓl _ _ ℓr, .or l r => Grouped ℓl l ∧ Grouped ℓr r ∧ 1 ≤ lev ℓr r
  | _, _ => False

/-- a well-formed layout of `t` -/
def WF (t : Formula) (ℓ : MkLayout) : Prop :=
  WsRun ℓ.lead ∧ WsRun ℓ.trail ∧ FitsLex ℓ.body t ∧ Grouped ℓ.body t

/-! ### the list the parser builds denotes the formula -/

def junk : Atom := ⟨.val [], [], .val []⟩

/-- the expression with explicit parentheses that the layout writes -/
def toExpr : ExprLay → Formula → Expr
  | .paren _ ℓ _, t => .paren (toExpr ℓ t)
  | .atom _, .atom a => .atom a
  | .bin ℓl _ _ ℓr, .and l r => .and (toExpr ℓl l) (toExpr ℓr r)
  | .bin ℓl _ _ ℓr, .or l r => .or (toExpr ℓl l) (toExpr ℓr r)
  | _, _ => .atom junk

theorem toExpr_level : (ℓ : ExprLay) → (t : Formula) → Grouped ℓ t → (toExpr ℓ t).level = lev ℓ t
  | .paren _ _ _, _, _ => by simp [toExpr, Expr.level, lev, isParen]
  | .atom _, .atom _, _ => by simp [toExpr, Expr.level, lev, isParen, fLevel]
  | .atom _, .and _ _, h => by simp [Grouped] at h
  | .atom _, .or _ _, h => by simp [Grouped] at h
  | .bin _ _ _ _, .atom _, h => by simp [Grouped] at h
  | .bin _ _ _ _, .and _ _, _ => by simp [toExpr, Expr.level, lev, isParen, fLevel]
  | .bin _ _ _ _, .or _ _, _ => by simp [toExpr, Expr.level, lev, isParen, fLevel]

theorem toExpr_sem : (ℓ : ExprLay) → (t : Formula) → Grouped ℓ t → (toExpr ℓ t).sem = t
  | .paren _ ℓ _, t, h => by simp only [Grouped] at h; simp [toExpr, Expr.sem, toExpr_sem ℓ t h]
  | .atom _, .atom _, _ => by simp [toExpr, Expr.sem]
  | .atom _, .and _ _, h => by simp [Grouped] at h
  | .atom _, .or _ _, h => by simp [Grouped] at h
  | .bin _ _ _ _, .atom _, h => by simp [Grouped] at h
  | .bin ℓl _ _ ℓr, .and l r, h => by
    simp only [Grouped] at h; simp [toExpr, Expr.sem, toExpr_sem ℓl l h.1, toExpr_sem ℓr r h.2.1]
  | .bin ℓl _ _ ℓr, .or l r, h => by
    simp only [Grouped] at h; simp [toExpr, Expr.sem, toExpr_sem ℓl l h.1, toExpr_sem ℓr r h.2.1]

theorem flat_eq_lst : (ℓ : ExprLay) → (t : Formula) → Grouped ℓ t → flat ℓ t = lst (toExpr ℓ t)
  | .paren _ ℓ _, t, h => by simp only [Grouped] at h; simp [flat, toExpr, lst, flat_eq_lst ℓ t h]
  | .atom _, .atom _, _ => by simp [flat, toExpr, lst]
  | .atom _, .and _ _, h => by simp [Grouped] at h
  | .atom _, .or _ _, h => by simp [Grouped] at h
  | .bin _ _ _ _, .atom _, h => by simp [Grouped] at h
  | .bin ℓl _ _ ℓr, .and l r, h => by
    simp only [Grouped] at h
    obtain ⟨gl, gr, h1, h2⟩ := h
    have e1 : ¬ (toExpr ℓl l).level < 1 := by rw [toExpr_level ℓl l gl]; omega
    have e2 : ¬ (toExpr ℓr r).level ≤ 1 := by rw [toExpr_level ℓr r gr]; omega
    simp [flat, toExpr, lst, e1, e2, flat_eq_lst ℓl l gl, flat_eq_lst ℓr r gr]
  | .bin ℓl _ _ ℓr, .or l r, h => by
    simp only [Grouped] at h
    obtain ⟨gl, gr, h1⟩ := h
    have e2 : ¬ (toExpr ℓr r).level ≤ 0 := by rw [toExpr_level ℓr r gr]; omega
    simp [flat, toExpr, lst, e2, flat_eq_lst ℓl l gl, flat_eq_lst ℓr r gr]

/-- **`and` binds tighter than `or`, parentheses group**: the list built for a grouped layout denotes the formula -/
theorem formulaOf_flat (ℓ : ExprLay) (t : Formula) (h : Grouped ℓ t) : formulaOf (flat ℓ t) = some t := by
  rw [flat_eq_lst ℓ t h, formulaOf_lst, toExpr_sem ℓ t h]

/-! ### the theorem -/

/-- **Precedence and grouping at character level, any layout.**  For every formula `t` and every well-formed
layout `ℓ` of it — any admissible white space, either quote style per literal, any accepted spelling per variable,
any amount of parentheses — the real entry point (tokenizer with the regenerated rules and `\b`, then the parser)
accepts the text and returns a list `m` that denotes **exactly `t`**: the same and/or structure, the same
comparisons with the variables under their canonical names, the same operators and the same literals. -/
theorem marker_parse_render_layout (t : Formula) (ℓ : MkLayout) (h : WF t ℓ) :
    ∃ m, Mk.parse (renderL t ℓ) = .ok m ∧ formulaOf m = some t ∧ m = flat ℓ.body t := by
  obtain ⟨h0, h3, hl, hg⟩ := h
  exact ⟨flat ℓ.body t, parse_renderE ℓ.body t hl ℓ.lead ℓ.trail h0 h3 ℓ.nl, formulaOf_flat ℓ.body t hg, rfl⟩

/-- the lexical half alone (no condition on where parentheses are): the parser accepts and returns `flat` — one
nested list per pair of parentheses, the operands of unparenthesised `and` / `or` in a row (which `formulaOf` then
reads with `and` binding tighter than `or`, left to right) -/
theorem marker_parse_render_lex (t : Formula) (ℓ : MkLayout) (h0 : WsRun ℓ.lead) (h3 : WsRun ℓ.trail) (hl : FitsLex ℓ.body t) :
    Mk.parse (renderL t ℓ) = .ok (flat ℓ.body t) :=
  parse_renderE ℓ.body t hl ℓ.lead ℓ.trail h0 h3 ℓ.nl

theorem atomsL_flat : (ℓ : ExprLay) → (t : Formula) → Grouped ℓ t → atomsL (flat ℓ t) = atoms t
  | .paren _ ℓ _, t, h => by simp only [Grouped] at h; simp [flat, atomsL, atomsM, atomsL_flat ℓ t h]
  | .atom _, .atom _, _ => by simp [flat, atomsL, atomsM, atoms]
  | .atom _, .and _ _, h => by simp [Grouped] at h
  | .atom _, .or _ _, h => by simp [Grouped] at h
  | .bin _ _ _ _, .atom _, h => by simp [Grouped] at h
  | .bin ℓl _ _ ℓr, .and l r, h => by
    simp only [Grouped] at h
    simp [flat, atomsL_append, atomsL, atomsM, atoms, atomsL_flat ℓl l h.1, atomsL_flat ℓr r h.2.1]
  | .bin ℓl _ _ ℓr, .or l r, h => by
    simp only [Grouped] at h
    simp [flat, atomsL_append, atomsL, atomsM, atoms, atomsL_flat ℓl l h.1, atomsL_flat ℓr r h.2.1]

/-- the variables of a formula that has a layout are canonical names, its operators are among the ten -/
theorem wf_atoms_canonical (t : Formula) (ℓ : MkLayout) (h : WF t ℓ) : ∀ a ∈ atoms t, VarOpCanon a := by
  obtain ⟨m, hp, _, rfl⟩ := marker_parse_render_layout t ℓ h
  have hw := (parse_wf _ _ hp).2
  rw [atomsL_flat ℓ.body t h.2.2.2] at hw
  exact hw

/-! ### corollaries: evaluation does not depend on the layout -/

theorem formulaOf_norm_flat (X : Ext) (ℓ : ExprLay) (t : Formula) (h : Grouped ℓ t) :
    formulaOf (normalizeExtra X (flat ℓ t)) = some (MkParse.Formula.map (normAtom X) t) := by
  have := fOfL_norm X (flat ℓ t)
  rw [show fOfL (flat ℓ t) = some t from formulaOf_flat ℓ t h] at this
  simpa [formulaOf] using this

/-- `Marker(text)` for a laid-out formula: the constructor succeeds and the marker denotes the formula with the
names compared with `extra` normalised -/
theorem mkMarker_layout (X : Ext) (t : Formula) (ℓ : MkLayout) (h : WF t ℓ) :
    ∃ m, mkMarker X (renderL t ℓ) = .ok m ∧ formulaOf m = some (MkParse.Formula.map (normAtom X) t) ∧
      m = normalizeExtra X (flat ℓ.body t) := by
  obtain ⟨m, hp, _, rfl⟩ := marker_parse_render_layout t ℓ h
  exact ⟨_, by simp [mkMarker, hp, Except.map], formulaOf_norm_flat X _ t h.2.2.2, rfl⟩

/-- **two layouts of the same formula evaluate identically in every environment** — whatever the white space,
the quote style, the spelling of the variables and the redundant parentheses; exceptions included -/
theorem eval_layout_independent (X : Ext) (t : Formula) (ℓ₁ ℓ₂ : MkLayout) (h₁ : WF t ℓ₁) (h₂ : WF t ℓ₂)
    (dflt : List (Str × Str)) (supplied : Option Env) :
    ∃ m₁ m₂, mkMarker X (renderL t ℓ₁) = .ok m₁ ∧ mkMarker X (renderL t ℓ₂) = .ok m₂ ∧
      evaluate X dflt supplied m₁ = evaluate X dflt supplied m₂ ∧
      ∀ ν : Atom → Res Bool, evalMarkers ν m₁ = evalMarkers ν m₂ := by
  obtain ⟨m₁, e₁, f₁, _⟩ := mkMarker_layout X t ℓ₁ h₁
  obtain ⟨m₂, e₂, f₂, _⟩ := mkMarker_layout X t ℓ₂ h₂
  have key : ∀ ν : Atom → Res Bool, evalMarkers ν m₁ = evalMarkers ν m₂ := fun ν => by
    rw [groups_is_or_of_ands ν m₁ _ f₁, groups_is_or_of_ands ν m₂ _ f₂]
  refine ⟨m₁, m₂, e₁, e₂, ?_, key⟩
  unfold evaluate
  cases buildEnv dflt supplied with
  | error e => rfl
  | ok env => simp only [bind, Except.bind, key]

/-- **End to end, any layout.**  `Marker(text).evaluate(environment)`, where `text` is the formula in any
well-formed layout, is the boolean value of the formula under the statement's comparison semantics in the
statement's effective environment (via `C07.evaluate_refines`). -/
theorem marker_of_layout_refines (X : Ext) (hc : ∀ s, X.canonName (X.canonName s) = X.canonName s)
    (dflt : List (Str × Str)) (supplied : Option Env) (t : Formula) (ℓ : MkLayout) (h : WF t ℓ)
    (h1 : ∀ a ∈ atoms t, OneVar a) (hd : ∀ a ∈ atoms t, (atomSem X (effEnv dflt supplied) a).isSome)
    (env : Env) (hb : buildEnv dflt supplied = .ok env) :
    ∃ m, mkMarker X (renderL t ℓ) = .ok m ∧ evaluate X dflt supplied m = t.eval (sem X dflt supplied) := by
  obtain ⟨m, e, _, rfl⟩ := mkMarker_layout X t ℓ h
  refine ⟨_, e, ?_⟩
  have hs := toExpr_sem ℓ.body t h.2.2.2
  have := evaluate_lst X hc dflt supplied (toExpr ℓ.body t) (by rw [hs]; exact h1) (by rw [hs]; exact hd) env hb
  rw [hs, ← flat_eq_lst ℓ.body t h.2.2.2] at this
  exact this

/-! ### decidability (for the examples) -/

instance decFitsLex : (ℓ : ExprLay) → (t : Formula) → Decidable (FitsLex ℓ t)
  | .paren w1 ℓ w2, t => by
    have := decFitsLex ℓ t
    show Decidable (WsRun w1 ∧ WsRun w2 ∧ FitsLex ℓ t); infer_instance
  | .atom L, .atom a => by show Decidable (FitsAtom a L); infer_instance
  | .atom _, .and _ _ => by show Decidable False; infer_instance
  | .atom _, .or _ _ => by show Decidable False; infer_instance
  | .bin _ _ _ _, .atom _ => by show Decidable False; infer_instance
  | .bin ℓl w1 w2 ℓr, .and l r => by
    have := decFitsLex ℓl l; have := decFitsLex ℓr r
    show Decidable (FitsLex ℓl l ∧ FitsLex ℓr r ∧ WsRun w1 ∧ WsRun w2 ∧
      NoMerge (renderE ℓl l) w1 s_and ∧ NoMerge s_and w2 (renderE ℓr r)); infer_instance
  | .bin ℓl w1 w2 ℓr, .or l r => by
    have := decFitsLex ℓl l; have := decFitsLex ℓr r
    show Decidable (FitsLex ℓl l ∧ FitsLex ℓr r ∧ WsRun w1 ∧ WsRun w2 ∧
      NoMerge (renderE ℓl l) w1 s_or ∧ NoMerge s_or w2 (renderE ℓr r)); infer_instance

instance decGrouped : (ℓ : ExprLay) → (t : Formula) → Decidable (Grouped ℓ t)
  | .paren _ ℓ _, t => by have := decGrouped ℓ t; show Decidable (Grouped ℓ t); infer_instance
  | .atom _, .atom _ => by show Decidable True; infer_instance
  | .atom _, .and _ _ => by show Decidable False; infer_instance
  | .atom _, .or _ _ => by show Decidable False; infer_instance
  | .bin _ _ _ _, .atom _ => by show Decidable False; infer_instance
  | .bin ℓl _ _ ℓr, .and l r => by
    have := decGrouped ℓl l; have := decGrouped ℓr r
    show Decidable (Grouped ℓl l ∧ Grouped ℓr r ∧ 1 ≤ lev ℓl l ∧ 2 ≤ lev ℓr r); infer_instance
  | .bin ℓl _ _ ℓr, .or l r => by
    have := decGrouped ℓl l; have := decGrouped ℓr r
    show Decidable (Grouped ℓl l ∧ Grouped ℓr r ∧ 1 ≤ lev ℓr r); infer_instance

instance (t : Formula) (ℓ : MkLayout) : Decidable (WF t ℓ) := by unfold WF; infer_instance

/-! ### Non-vacuity: two very different layouts of one formula -/
section LayoutExamples

def v_os_dot : Str := [111, 115, 46, 110, 97, 109, 101]
def v_extra : Str := [101, 120, 116, 114, 97]
/-- `a1 or a2 and (a3 or a4)` with the comparisons of the examples of C07.lean -/
def exT : Formula := .or (.atom a1) (.and (.atom a2) (.or (.atom a3) (.atom a4)))

/-- `  os.name=='a'or"b"in extra and(python_full_version>="3.8"<TAB>or extra not <TAB> in 'A_b' )<TAB><LF>`:
PEP 345 spelling, both quote styles, no white space where none is needed, tabs, a two-space-and-tab `not in`,
a final newline -/
def layA : MkLayout :=
  ⟨[32, 32],
   .bin (.atom ⟨.spelled v_os_dot, [], [], [], .quoted 39⟩) [] []
     (.bin (.atom ⟨.quoted 34, [], [], [32], .spelled v_extra⟩) [32] []
       (.paren [] (.bin (.atom ⟨.spelled s_pfv, [], [], [], .quoted 34⟩) [9] [32]
                        (.atom ⟨.spelled v_extra, [32], [32, 9, 32], [32], .quoted 39⟩)) [32])),
   [9], true⟩

/-- `((os_name == "a") or ("b" in extra) and ((python_full_version >= "3.8" or extra not in "A_b")))`:
canonical names and quotes, redundant parentheses around comparisons, a group and the whole -/
def layB : MkLayout :=
  ⟨[],
   .paren [] (.bin (.paren [] (.atom ⟨.spelled os_name, [32], [], [32], .quoted 34⟩) []) [32] [32]
     (.bin (.paren [] (.atom ⟨.quoted 34, [32], [], [32], .spelled v_extra⟩) []) [32] [32]
       (.paren [] (.paren [] (.bin (.atom ⟨.spelled s_pfv, [32], [], [32], .quoted 34⟩) [32] [32]
                        (.atom ⟨.spelled v_extra, [32], [32], [32], .quoted 34⟩)) []) []))) [],
   [], false⟩

example : renderL exT layA = [32, 32, 111, 115, 46, 110, 97, 109, 101, 61, 61, 39, 97, 39, 111, 114, 34, 98, 34, 105, 110, 32, 101, 120, 116, 114, 97, 32, 97, 110, 100, 40, 112, 121, 116, 104, 111, 110, 95, 102, 117, 108, 108, 95, 118, 101, 114, 115, 105, 111, 110, 62, 61, 34, 51, 46, 56, 34, 9, 111, 114, 32, 101, 120, 116, 114, 97, 32, 110, 111, 116, 32, 9, 32, 105, 110, 32, 39, 65, 95, 98, 39, 32, 41, 9, 10] := by decide +kernel
example : renderL exT layB = [40, 40, 111, 115, 95, 110, 97, 109, 101, 32, 61, 61, 32, 34, 97, 34, 41, 32, 111, 114, 32, 40, 34, 98, 34, 32, 105, 110, 32, 101, 120, 116, 114, 97, 41, 32, 97, 110, 100, 32, 40, 40, 112, 121, 116, 104, 111, 110, 95, 102, 117, 108, 108, 95, 118, 101, 114, 115, 105, 111, 110, 32, 62, 61, 32, 34, 51, 46, 56, 34, 32, 111, 114, 32, 101, 120, 116, 114, 97, 32, 110, 111, 116, 32, 105, 110, 32, 34, 65, 95, 98, 34, 41, 41, 41] := by decide +kernel
example : WF exT layA := by decide +kernel
example : WF exT layB := by decide +kernel
/-- the parser's lists differ (nesting), the formula is the same -/
example : M.beqL (flat layA.body exT) (flat layB.body exT) = false := by decide +kernel
example : formulaOf (flat layA.body exT) = some exT ∧ formulaOf (flat layB.body exT) = some exT := by decide
/-- an `or` written bare under `and` is *not* a layout of `and _ (or _ _)` (and the parser would read it otherwise) -/
example : ¬ Grouped (.bin (.atom ⟨.spelled os_name, [], [], [], .quoted 34⟩) [32] [32]
    (.bin (.atom ⟨.spelled os_name, [], [], [], .quoted 34⟩) [32] [32] (.atom ⟨.spelled os_name, [], [], [], .quoted 34⟩)))
    (.and (.atom a1) (.or (.atom a1) (.atom a1))) := by decide
/-- white space may not be dropped between two words: `extra and` needs its space -/
example : ¬ NoMerge v_extra [] s_and := by decide +kernel
/-- the kernel runs the real tokenizer and parser on layout A (cross-check of the theorem at one point) -/
example : ((Mk.parse (renderL exT layA)).toOption.map fun m => M.beqL m (flat layA.body exT)) = some true := by decide +kernel
example : (evaluate X0 dflt0 none (normalizeExtra X0 (flat layA.body exT))).toOption = some true := by decide +kernel

end LayoutExamples

end C07
