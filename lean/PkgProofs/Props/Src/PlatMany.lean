import PkgProofs.Props.Src.PlatGlibc
/-!
# Translated source of `_manylinux.platform_tags` = the model `Plat.manylinuxTags` (C16)

Three nested loops with a yield accumulator and hoisted locals (`glibc_minor`, `too_old_glibc2`, `min_minor`,
`glibc_version`, `tag`, `legacy_tag`): the `forIn` state is a tuple of which only the yield component matters.  The loop
lemmas below (`forIn_inv`, `forIn_bind_app`, `forIn_bind_app_ex`) take a projection of the state and never mention the text
of a loop body; the body is found by unification with the goal.  Every version that reaches `_is_compatible` is a pair of
naturals (`manyMaxList_nonneg`), which is what `_is_compatible_eq_model` needs.
-/
namespace Src
open PyRt PyRx Py Plat Elf
set_option linter.unusedSimpArgs false

/-! ### `for` loops whose state is a tuple of hoisted locals: invariants over the processed prefix -/

/-- a loop that never breaks, with an invariant `R (items processed so far) state` -/
theorem forIn_inv {σ : Type} (l : List PyVal) (f : PyVal → σ → M (ForInStep σ)) (R : List PyVal → σ → Prop)
    (h : ∀ pre x post, l = pre ++ x :: post → ∀ s, R pre s → ∃ s', f x s = .ok (.yield s') ∧ R (pre ++ [x]) s')
    (init : σ) (h0 : R [] init) : ∃ s', forIn l init f = (.ok s' : M σ) ∧ R l s' := by
  suffices H : ∀ (rest pre : List PyVal) (s : σ), l = pre ++ rest → R pre s →
      ∃ s', forIn rest s f = (.ok s' : M σ) ∧ R l s' from H l [] init rfl h0
  intro rest
  induction rest with
  | nil =>
    intro pre s hl hs
    refine ⟨s, by simp, ?_⟩
    rw [hl, List.append_nil]; exact hs
  | cons x xs ih =>
    intro pre s hl hs
    obtain ⟨s1, h1, hs1⟩ := h pre x xs hl s hs
    obtain ⟨s2, h2, hs2⟩ := ih (pre ++ [x]) s1 (by rw [hl]; simp) hs1
    exact ⟨s2, by simp only [List.forIn_cons, h1, ok_bind]; exact h2, hs2⟩

theorem forIn_bind_inv {σ β : Type} (l : List PyVal) (init : σ) (f : PyVal → σ → M (ForInStep σ)) (g : σ → M β) (r : M β)
    (R : List PyVal → σ → Prop)
    (h : ∀ pre x post, l = pre ++ x :: post → ∀ s, R pre s → ∃ s', f x s = .ok (.yield s') ∧ R (pre ++ [x]) s')
    (h0 : R [] init) (hg : ∀ s', R l s' → g s' = r) : (forIn l init f >>= g) = r := by
  obtain ⟨s', hs, hR⟩ := forIn_inv l f R h init h0
  rw [hs, ok_bind]; exact hg s' hR

/-- the state has a component (selected by `y`) that grows by `k item` in each iteration; the other components are
arbitrary (hoisted locals); the loop is followed by `g` -/
theorem forIn_bind_app {σ α β : Type} (l : List PyVal) (init : σ) (f : PyVal → σ → M (ForInStep σ)) (g : σ → M β) (r : M β)
    (y : σ → List α) (k : PyVal → List α)
    (h : ∀ x ∈ l, ∀ s, ∃ s', f x s = .ok (.yield s') ∧ y s' = y s ++ k x)
    (hg : ∀ s', y s' = y init ++ l.flatMap k → g s' = r) : (forIn l init f >>= g) = r := by
  refine forIn_bind_inv l init f g r (fun pre s => y s = y init ++ pre.flatMap k) ?_ (by simp) hg
  intro pre x post hl s hs
  obtain ⟨s', h1, h2⟩ := h x (by rw [hl]; simp) s
  exact ⟨s', h1, by rw [h2, hs]; simp⟩

/-- the same inside another loop body: the continuation ends in `ForInStep.yield` -/
theorem forIn_bind_app_ex {σ τ α : Type} (l : List PyVal) (init : σ) (f : PyVal → σ → M (ForInStep σ))
    (g : σ → M (ForInStep τ)) (P : τ → Prop) (y : σ → List α) (k : PyVal → List α)
    (h : ∀ x ∈ l, ∀ s, ∃ s', f x s = .ok (.yield s') ∧ y s' = y s ++ k x)
    (hg : ∀ s', y s' = y init ++ l.flatMap k → ∃ t, g s' = .ok (.yield t) ∧ P t) :
    ∃ t, (forIn l init f >>= g) = .ok (.yield t) ∧ P t := by
  obtain ⟨s', hs, hR⟩ := forIn_inv l f (fun pre s => y s = y init ++ pre.flatMap k) (by
    intro pre x post hl s hs
    obtain ⟨s', h1, h2⟩ := h x (by rw [hl]; simp) s
    exact ⟨s', h1, by rw [h2, hs]; simp⟩) init (by simp)
  obtain ⟨t, ht, hP⟩ := hg s' hR
  exact ⟨t, by rw [hs, ok_bind]; exact ht, hP⟩

/-! ### run-time pieces of the loop body -/

theorem tuple_n_ofPair (v : Int × Int) : PyPlat.tuple_n (ofPair v) (.int 2) = .ok (ofPair v) := by
  simp [PyPlat.tuple_n, ofPair]

theorem format_int (i : Int) : format (.int i) = .ok (fmtInt i) := by
  simp only [format, fmtInt, pure_ok]
  by_cases h : i < 0
  · have : i.natAbs = (-i).toNat := by omega
    simp [h, this]
  · simp [h]

theorem format_star_manylinux (a m : Int) :
    PySet.format_star [ofString "manylinux_", ofString "_", []] (.tuple [.int a, .int m]) =
      .ok (.str (sManylinux_ ++ fmtInt a ++ us ++ fmtInt m)) := by
  simp only [PySet.format_star, iterate_tuple, ok_bind, PySet.formatStar, format_int, pure_ok,
    show ofString "manylinux_" = sManylinux_ from by decide, show ofString "_" = us from by decide, List.append_nil,
    List.append_assoc]

theorem is_compatible_lit (env : Env) (cfg : LCfg) (exe : Str) (he : LinuxEnv env cfg exe) (arch : Str) (a m : Int)
    (ha : 0 ≤ a) (hm : 0 ≤ m) :
    Gen.PySrc._is_compatible env (.str arch) (.tuple [.int a, .int m]) = .ok (.bool (isCompatible cfg arch (a, m))) :=
  _is_compatible_eq_model env cfg exe he arch (a, m) ha hm

theorem dictLookup_legacy (a m : Int) (ha : 0 ≤ a) (hm : 0 ≤ m) :
    dictLookup [(PyVal.tuple [PyVal.int 2, PyVal.int 17], PyVal.str (ofString "manylinux2014")),
        (PyVal.tuple [PyVal.int 2, PyVal.int 12], PyVal.str (ofString "manylinux2010")),
        (PyVal.tuple [PyVal.int 2, PyVal.int 5], PyVal.str (ofString "manylinux1"))] (.tuple [.int a, .int m]) =
      (legacyAlias (a, m)).map .str := by
  obtain ⟨a, rfl⟩ := Int.eq_ofNat_of_zero_le ha
  obtain ⟨m, rfl⟩ := Int.eq_ofNat_of_zero_le hm
  have h1 : ¬ ((a : Int) < 0) := by omega
  have h2 : ¬ ((m : Int) < 0) := by omega
  simp only [dictLookup, PyVal.eq, eqList, eq_int, Bool.and_true, legacyAlias, h1, h2, decide_false, Bool.or_self,
    Bool.false_eq_true, if_false, Int.toNat_natCast, Gen.TagTables.legacyManylinuxMap, List.lookup,
    show ofString "manylinux2014" = [109, 97, 110, 121, 108, 105, 110, 117, 120, 50, 48, 49, 52] from by decide,
    show ofString "manylinux2010" = [109, 97, 110, 121, 108, 105, 110, 117, 120, 50, 48, 49, 48] from by decide,
    show ofString "manylinux1" = [109, 97, 110, 121, 108, 105, 110, 117, 120, 49] from by decide]
  have e : ∀ x y : Nat, ((x : Int) == (a : Int) && (y : Int) == (m : Int)) = ((a, m) == (x, y)) := by
    intro x y
    rw [Bool.eq_iff_iff]
    simp only [Bool.and_eq_true, beq_iff_eq, Prod.mk.injEq]
    omega
  have e17 : ((2 : Int) == (a : Int) && (17 : Int) == (m : Int)) = ((a, m) == (2, 17)) := e 2 17
  have e12 : ((2 : Int) == (a : Int) && (12 : Int) == (m : Int)) = ((a, m) == (2, 12)) := e 2 12
  have e5 : ((2 : Int) == (a : Int) && (5 : Int) == (m : Int)) = ((a, m) == (2, 5)) := e 2 5
  rw [e17, e12, e5]
  cases (a, m) == (2, 17) <;> cases (a, m) == (2, 12) <;> cases (a, m) == (2, 5) <;> rfl


theorem gdict_contains_legacy (a m : Int) (ha : 0 ≤ a) (hm : 0 ≤ m) :
    PyPlat.gdict_contains [(PyVal.tuple [PyVal.int 2, PyVal.int 17], PyVal.str (ofString "manylinux2014")),
        (PyVal.tuple [PyVal.int 2, PyVal.int 12], PyVal.str (ofString "manylinux2010")),
        (PyVal.tuple [PyVal.int 2, PyVal.int 5], PyVal.str (ofString "manylinux1"))] (.tuple [.int a, .int m]) =
      .ok (.bool (legacyAlias (a, m)).isSome) := by
  simp only [PyPlat.gdict_contains, hashable, Bool.not_true, Bool.false_eq_true, if_false, dictLookup_legacy a m ha hm,
    pure_ok, Option.isSome_map]

theorem gdict_getitem_legacy (a m : Int) (ha : 0 ≤ a) (hm : 0 ≤ m) :
    PyPlat.gdict_getitem [(PyVal.tuple [PyVal.int 2, PyVal.int 17], PyVal.str (ofString "manylinux2014")),
        (PyVal.tuple [PyVal.int 2, PyVal.int 12], PyVal.str (ofString "manylinux2010")),
        (PyVal.tuple [PyVal.int 2, PyVal.int 5], PyVal.str (ofString "manylinux1"))] Option.none (.tuple [.int a, .int m]) =
      (match legacyAlias (a, m) with | some l => .ok (.str l) | none => .error "KeyError") := by
  simp only [PyPlat.gdict_getitem, hashable, Bool.not_true, Bool.false_eq_true, if_false, dictLookup_legacy a m ha hm]
  cases legacyAlias (a, m) <;> rfl

theorem gdict_getitem_last_minor (major : Int) :
    PyPlat.gdict_getitem [] (some (PyVal.int 50)) (.int major) = .ok (.int (lastGlibcMinor major)) := by
  simp [PyPlat.gdict_getitem, hashable, dictLookup, lastGlibcMinor, Gen.TagTables.lastGlibcMinorTable,
    Gen.TagTables.lastGlibcMinorDefault]

/-! ### the model, loop by loop -/

/-- what one `(major, minor)` contributes for `arch` -/
def manyInner (cfg : LCfg) (arch : Str) (v : Int × Int) : List Str :=
  (if isCompatible cfg arch v then [sManylinux_ ++ fmtInt v.1 ++ us ++ fmtInt v.2 ++ us ++ arch] else [])
  ++ (match legacyAlias v with
      | some l => if isCompatible cfg arch v then [l ++ us ++ arch] else []
      | none => [])

/-- the oldest glibc 2 still supported for `arch`, exclusive -/
def tooOldGlibc2 (arch : Str) : Int × Int := if arch == sX86_64 || arch == sI686 then (2, 4) else (2, 16)

def manyMinMinor (arch : Str) (gmax : Int × Int) : Int :=
  if gmax.1 == (tooOldGlibc2 arch).1 then (tooOldGlibc2 arch).2 else -1

def manyMax (cfg : LCfg) (arch : Str) (gmax : Int × Int) : List Str :=
  (downFrom gmax.2 (manyMinMinor arch gmax)).flatMap fun minor => manyInner cfg arch (gmax.1, minor)

def manyMaxList (cur : Int × Int) : List (Int × Int) :=
  cur :: (downFrom (cur.1 - 1) 1).map fun major => (major, lastGlibcMinor major)

theorem manylinuxTags_eq (cfg : LCfg) (archs : List Str) :
    manylinuxTags cfg archs =
      if !haveCompatibleAbi cfg archs then [] else
      archs.flatMap fun arch => (manyMaxList (getGlibcVersion cfg.confstr cfg.ctypesVersion)).flatMap (manyMax cfg arch) := by
  rfl

theorem manyMinMinor_ge (arch : Str) (gmax : Int × Int) : -1 ≤ manyMinMinor arch gmax := by
  unfold manyMinMinor tooOldGlibc2
  split <;> split <;> simp

theorem parseGlibcVersion_cases (s : Str) :
    parseGlibcVersion s = (-1, -1) ∨ (0 ≤ (parseGlibcVersion s).1 ∧ 0 ≤ (parseGlibcVersion s).2) := by
  unfold parseGlibcVersion
  simp only
  split
  · exact Or.inl rfl
  · split
    · split
      · exact Or.inl rfl
      · exact Or.inr ⟨by simp, by simp⟩
    · exact Or.inl rfl

theorem getGlibcVersion_cases (c v : Option Str) :
    getGlibcVersion c v = (-1, -1) ∨ (0 ≤ (getGlibcVersion c v).1 ∧ 0 ≤ (getGlibcVersion c v).2) := by
  unfold getGlibcVersion
  split
  · exact Or.inl rfl
  · exact parseGlibcVersion_cases _

/-- every version the loops hand to `_is_compatible` is a pair of naturals -/
theorem manyMaxList_nonneg (c v : Option Str) (arch : Str) (gmax : Int × Int)
    (hg : gmax ∈ manyMaxList (getGlibcVersion c v)) (minor : Int)
    (hm : minor ∈ downFrom gmax.2 (manyMinMinor arch gmax)) : 0 ≤ gmax.1 ∧ 0 ≤ minor := by
  have hge := manyMinMinor_ge arch gmax
  rw [mem_downFrom] at hm
  refine ⟨?_, by omega⟩
  simp only [manyMaxList, List.mem_cons, List.mem_map] at hg
  rcases hg with rfl | ⟨major, hmaj, rfl⟩
  · rcases getGlibcVersion_cases c v with h | h
    · rw [h] at hm hge; simp at hm; omega
    · exact h.1
  · rw [mem_downFrom] at hmaj; simp; omega


theorem _manylinux.platform_tags_eq_model (env : Env) (cfg : LCfg) (exe : Str) (he : LinuxEnv env cfg exe) (archs : List Str) :
    Gen.PySrc._manylinux.platform_tags env (ofStrs archs) = .ok (.iter ((manylinuxTags cfg archs).map .str)) := by
  rw [manylinuxTags_eq]
  unfold Gen.PySrc._manylinux.platform_tags
  simp only [he.exePath, ok_bind, _have_compatible_abi_eq_model env cfg exe he, truthy_bool]
  cases hab : haveCompatibleAbi cfg archs
  · simp
  · simp only [Bool.not_true, Bool.false_eq_true, if_false, _get_glibc_version_eq_model env cfg exe he, ok_bind, tuple_n_ofPair,
      getitem_ofPair_zero, sub_int, range3_downFrom, iterate_iter]
    generalize hcur : getGlibcVersion cfg.confstr cfg.ctypesVersion = cur
    -- the first loop builds `glibc_max_list`
    refine forIn_bind_inv _ _ _ _ _
      (fun pre s => s.2 = PyVal.list (ofPair cur :: pre.map fun x => match x with
        | .int major => ofPair (major, lastGlibcMinor major) | _ => .none)) ?_ (by simp) ?_
    · intro pre x post hl s hs
      have hx : x ∈ List.map PyVal.int (downFrom (cur.1 - 1) 1) := by rw [hl]; simp
      simp only [List.mem_map] at hx
      obtain ⟨major, _, rfl⟩ := hx
      simp only [gdict_getitem_last_minor, ok_bind, hs, list_append_list, pure_ok]
      exact ⟨_, rfl, by simp [ofPair]⟩
    · intro s1 hs1
      have hml : s1.2 = PyVal.list ((manyMaxList cur).map ofPair) := by
        rw [hs1]; simp [manyMaxList, List.map_map, Function.comp_def]
      simp only [hml, ofStrs, iterate_list, ok_bind]
      refine forIn_bind_app _ _ _ _ _ (fun s : PyVal × PyVal × PyVal × PyVal × PyVal × PyVal × List PyVal => s.2.2.2.2.2.2)
        (fun x => match x with | .str arch => ((manyMaxList cur).flatMap (manyMax cfg arch)).map PyVal.str | _ => []) ?_ ?_
      · -- one architecture
        intro x hx s
        simp only [List.mem_map] at hx
        obtain ⟨arch, _, rfl⟩ := hx
        have hcont : contains (PyVal.tuple [PyVal.str (ofString "x86_64"), PyVal.str (ofString "i686")]) (.str arch) =
            .ok (arch == sX86_64 || arch == sI686) := by
          simp [contains, show ofString "x86_64" = sX86_64 from by decide, show ofString "i686" = sI686 from by decide]
        simp only [hcont, ok_bind, iterate_list]
        have hmm : ∀ a b : Int, manyMinMinor arch (a, b) =
            if (a == 2) = true then (if (arch == sX86_64 || arch == sI686) = true then 4 else 16) else -1 := by
          intro a b
          simp only [manyMinMinor, tooOldGlibc2]
          split <;> simp
        cases hxa : (arch == sX86_64 || arch == sI686) <;> simp only [Bool.false_eq_true, if_false, if_true] <;> (
          refine forIn_bind_app_ex _ _ _ _ _ (fun s : PyVal × PyVal × PyVal × PyVal × PyVal × List PyVal => s.2.2.2.2.2)
             (fun gm => match gm with | .tuple [.int a, .int b] => (manyMax cfg arch (a, b)).map PyVal.str | _ => []) ?_ ?_
          · -- one maximal version
            intro gm hgm s2
            simp only [List.mem_map] at hgm
            obtain ⟨⟨a, b⟩, hgmem, rfl⟩ := hgm
            simp only [ofPair, getitem_tuple_zero, getitem_tuple_one, ok_bind, eq_int, range3_downFrom, iterate_iter]
            have hmm' := hmm a b
            cases h2 : (a == 2) <;> simp only [Bool.false_eq_true, if_false, if_true] <;> (
              simp only [hxa, h2, Bool.false_eq_true, if_false, if_true] at hmm'
              refine forIn_bind_app_ex _ _ _ _ _ (fun s : PyVal × PyVal × PyVal × PyVal × List PyVal => s.2.2.2.2)
                (fun x => match x with | .int m => (manyInner cfg arch (a, m)).map PyVal.str | _ => []) ?_ ?_
              · -- one minor version
                intro x hx s3
                simp only [List.mem_map] at hx
                obtain ⟨m, hm, rfl⟩ := hx
                obtain ⟨ha, hm0⟩ := manyMaxList_nonneg cfg.confstr cfg.ctypesVersion arch (a, b) (by rw [hcur]; exact hgmem) m
                  (by rw [hmm']; exact hm)
                simp only [format_star_manylinux, is_compatible_lit env cfg exe he arch a m ha hm0,
                  gdict_contains_legacy a m ha hm0, ok_bind, truthy_bool, format_str]
                cases hc : isCompatible cfg arch (a, m) <;> cases hl : legacyAlias (a, m) <;>
                  simp only [Option.isSome_none, Option.isSome_some, Bool.false_eq_true, if_false, if_true, pure_ok, ok_bind,
                    gdict_getitem_legacy a m ha hm0, format_str, manyInner, hc, hl] <;>
                  exact ⟨_, rfl, by simp [show ofString "_" = us from by decide]⟩
              · intro s' hs'
                simp only [pure_ok]
                refine ⟨_, rfl, ?_⟩
                simp only [hs', manyMax, hmm', List.flatMap_map, List.map_flatMap])
          · intro s' hs'
            simp only [pure_ok]
            refine ⟨_, rfl, ?_⟩
            simp only [hs', List.flatMap_map, List.map_flatMap, ofPair])
      · intro s' hs'
        simp only [pure_ok, hs', List.nil_append, List.flatMap_map, List.map_flatMap]

theorem _manylinux.platform_tags_translated : Gen.PySrc._manylinux.platform_tags_supported = true := rfl

/-! ### the hypotheses are satisfiable, and the result is not trivial -/

private theorem isPolicy_policyValue'' (p : Policy) : IsPolicy (policyValue p) p := by
  cases p with
  | absent => rfl
  | func d r => exact ⟨_, rfl, by simp [lookupField]⟩
  | legacy m1 m2 m3 =>
    refine ⟨_, rfl, ?_⟩
    cases m1 <;> cases m2 <;> cases m3 <;> simp [lookupField]

private theorem linuxEnv_of'' (cfg : LCfg) (exe : Str) : LinuxEnv (linuxEnvOf cfg exe) cfg exe where
  exePath := by rfl
  musl := by simp [linuxEnvOf, env_call, env_get, env_call.find, row, PyVal.eq, eqList]
  elf := by simp [linuxEnvOf, env_call, env_get, env_call.find, row, PyVal.eq, eqList]
  confstr := by simp [linuxEnvOf, env_call, env_get, env_call.find, row, PyVal.eq, eqList]
  ctypes := by simp [linuxEnvOf, env_call, env_get, env_call.find, row, PyVal.eq, eqList]
  policy := ⟨policyValue cfg.policy, by rfl, isPolicy_policyValue'' _⟩

/-- a glibc 2.18 machine whose policy module vetoes `manylinux2014` (2.17) on x86_64 -/
def manyExampleCfg : LCfg :=
  { exe := none, confstr := some (ofString "glibc 2.18"), ctypesVersion := none,
    policy := .func none [((2, 17, ofString "x86_64"), some false)], ldStderr := [] }

example : LinuxEnv (linuxEnvOf manyExampleCfg (ofString "/usr/bin/python3")) manyExampleCfg (ofString "/usr/bin/python3") :=
  linuxEnv_of'' _ _

example : (manylinuxTags manyExampleCfg [ofString "x86_64"]).take 3 =
    [ofString "manylinux_2_18_x86_64", ofString "manylinux_2_16_x86_64", ofString "manylinux_2_15_x86_64"] := by
  decide +kernel

example : (manylinuxTags manyExampleCfg [ofString "x86_64"]).length = 15 := by decide +kernel

example : ∃ l, Gen.PySrc._manylinux.platform_tags (linuxEnvOf manyExampleCfg (ofString "/usr/bin/python3"))
      (ofStrs [ofString "x86_64"]) = .ok (.iter l) ∧ l.length = 15 :=
  ⟨_, _manylinux.platform_tags_eq_model _ _ _ (linuxEnv_of'' _ _) _, by
    rw [List.length_map]; decide +kernel⟩

end Src
