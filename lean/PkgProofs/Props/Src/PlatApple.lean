import PkgProofs.Props.Src.PlatEnv
/-!
# Translated source of `tags.mac_platforms` / `tags.ios_platforms` = the model (`Plat.macPlatforms`, `Plat.iosPlatforms`)

Stated for every environment table that answers the Apple probes as `AppleEnv` says.  The version strings the table holds
must be `PlainText` (ASCII, no `+ - _`): there the run-time's `int()` and the model's `pyInt` read the same
(`parseInt_plain`).  The escaping exceptions (`ValueError` of `int()`, `IndexError` of `version[1]` / `version[0]`) are
part of the statement (`ofPlatResult`).

The `for` loops of `mac_platforms` carry a tuple of hoisted locals as their state; `forIn_lens` and friends reason about
such a loop through a projection `get` of the state (here: the yield list), whatever the shape of the tuple.
-/
namespace Src
open PyRt PyRx Py Plat Elf

/-! ## `int()` of the run-time vs `pyInt` of the model -/

theorem isSpacePy_eq_ascii (c : Nat) (h : c < 128) : isSpacePy c = isSpaceAscii c := by
  simp only [isSpacePy, isSpaceAscii]
  have h1 : (c == 0x85) = false := by simp; omega
  have h2 : (c == 0xa0) = false := by simp; omega
  have h3 : (c == 0x1680) = false := by simp; omega
  have h4 : (decide (0x2000 ≤ c) && decide (c ≤ 0x200a)) = false := by simp; omega
  have h5 : (c == 0x2028) = false := by simp; omega
  have h6 : (c == 0x2029) = false := by simp; omega
  have h7 : (c == 0x202f) = false := by simp; omega
  have h8 : (c == 0x205f) = false := by simp; omega
  have h9 : (c == 0x3000) = false := by simp; omega
  simp only [h1, h2, h3, h4, h5, h6, h7, h8, h9, Bool.or_false]
  by_cases a : c = 32
  · subst a; decide
  · have e : (c == 32) = false := by simpa using a
    simp only [e, Bool.false_or]
    by_cases b : 9 ≤ c ∧ c ≤ 13
    · have : ¬ (28 ≤ c) := by omega
      simp [b, this]
    · by_cases d : 28 ≤ c
      · have : ¬ (c ≤ 13) := by omega
        simp [d, this]; omega
      · simp [d]

theorem dropWhile_congr_mem {α} (p q : α → Bool) (l : List α) (h : ∀ x ∈ l, p x = q x) :
    l.dropWhile p = l.dropWhile q := by
  induction l with
  | nil => rfl
  | cons a as ih =>
    simp only [List.dropWhile_cons, h a (List.mem_cons_self ..)]
    rw [ih (fun x hx => h x (List.mem_cons_of_mem _ hx))]

theorem mem_dropWhile {α} (p : α → Bool) (l : List α) : ∀ x ∈ l.dropWhile p, x ∈ l :=
  fun _ hx => (List.dropWhile_sublist p).subset hx

theorem mem_stripBy (p : Nat → Bool) (s : Str) : ∀ x ∈ stripBy p s, x ∈ s := by
  intro x hx
  simp only [stripBy, List.mem_reverse] at hx
  have := mem_dropWhile p _ x hx
  simp only [List.mem_reverse] at this
  exact mem_dropWhile p _ x this

theorem strip_eq_stripBy_ascii (s : Str) (h : ∀ c ∈ s, c < 128) : strip s = stripBy isSpaceAscii s := by
  simp only [strip, stripBy]
  rw [dropWhile_congr_mem isSpacePy isSpaceAscii s (fun x hx => isSpacePy_eq_ascii x (h x hx))]
  rw [dropWhile_congr_mem isSpacePy isSpaceAscii _ (fun x hx => isSpacePy_eq_ascii x (h x (by
    simp only [List.mem_reverse] at hx
    exact mem_dropWhile _ _ x hx)))]

theorem splitOn_no_sep (c : Nat) (s : Str) (h : c ∉ s) : Py.splitOn c s = [s] := by
  induction s with
  | nil => rfl
  | cons x xs ih =>
    have hx : (x == c) = false := by
      simp only [List.mem_cons, not_or] at h
      simpa using fun e => h.1 e.symm
    have := ih (fun hm => h (List.mem_cons_of_mem _ hm))
    simp [Py.splitOn, hx, this]

theorem filter_no_underscore (s : Str) (h : (95 : Nat) ∉ s) : s.filter (· != 95) = s := by
  rw [List.filter_eq_self]
  intro a ha
  simp only [bne_iff_ne, ne_eq]
  intro e; subst e; exact h ha

theorem isDigitStr_strip_self (s : Str) (h : isDigitStr s = true) : stripBy isSpaceAscii s = s := by
  simp only [isDigitStr, Bool.and_eq_true, List.all_eq_true] at h
  have hd := h.2
  have nsp : ∀ c, isDigit c = true → isSpaceAscii c = false := by
    intro c hc
    simp only [isDigit, Bool.and_eq_true, decide_eq_true_eq] at hc
    simp [isSpaceAscii]; omega
  have dw : ∀ l : Str, (∀ c ∈ l, isDigit c = true) → l.dropWhile isSpaceAscii = l := by
    intro l hl
    cases l with
    | nil => rfl
    | cons a as => simp [nsp a (hl a (List.mem_cons_self ..))]
  simp only [stripBy]
  rw [dw s hd, dw s.reverse (fun c hc => hd c (by simpa using hc)), List.reverse_reverse]

/-- under `PlainText` the run-time's `int()` reads exactly what the model's `pyInt` reads -/
theorem parseInt_plain (s : Str) (h : PlainText s) : parseInt s = (pyInt s).map Int.ofNat := by
  have hascii : ∀ c ∈ s, c < 128 := fun c hc => (h c hc).1
  have ht : ∀ c ∈ stripBy isSpaceAscii s, c ≠ 43 ∧ c ≠ 45 ∧ c ≠ 95 :=
    fun c hc => (h c (mem_stripBy _ _ c hc)).2
  simp only [parseInt, pyInt, strip_eq_stripBy_ascii s hascii]
  by_cases hd : isDigitStr s = true
  · have e := isDigitStr_strip_self s hd
    simp only [hd, if_true, e]
    simp only [isDigitStr] at hd
    simp [hd]
  · simp only [hd, Bool.false_eq_true, if_false]
    generalize stripBy isSpaceAscii s = t at ht
    have h95 : (95 : Nat) ∉ t := fun hm => (ht 95 hm).2.2 rfl
    have hbody : ∀ (m : Bool × Str), m = (false, t) →
        (if isUnderscoreDigits m.2 = true then
          some (if m.1 = true then -((undec (m.2.filter (· != 95)) : Nat) : Int) else ((undec (m.2.filter (· != 95)) : Nat) : Int))
         else none) = Option.map Int.ofNat (if (!t.isEmpty && t.all isDigit) = true then some (undec t) else none) := by
      intro m hm
      subst hm
      simp only [isUnderscoreDigits, splitOn_no_sep 95 t h95, List.all_cons, List.all_nil, Bool.and_true,
        filter_no_underscore t h95, Bool.false_eq_true, if_false, isDigitStr]
      by_cases hq : (!t.isEmpty && t.all isDigit) = true
      · simp [hq]
      · simp [hq]
    apply hbody
    cases t with
    | nil => rfl
    | cons a as =>
      have ha := ht a (List.mem_cons_self ..)
      split
      · rename_i d heq; simp only [List.cons.injEq] at heq; exact absurd heq.1 ha.2.1
      · rename_i d heq; simp only [List.cons.injEq] at heq; exact absurd heq.1 ha.1
      · rfl

theorem int_plain (s : Str) (h : PlainText s) :
    int_ (.str s) = (match pyInt s with | some n => .ok (.int (n : Int)) | none => .error valueError) := by
  simp only [int_, parseInt_plain s h]
  cases pyInt s <;> rfl

/-! ## `tuple(map(int, s.split(".")[:2]))` = `parseVersionTuple` -/

theorem mapM_int_plain (l : List Str) (h : ∀ s ∈ l, PlainText s) :
    PyRt.mapM int_ (l.map .str) =
      (match l.mapM pyInt with | some v => .ok (v.map ofNat) | none => .error valueError) := by
  induction l with
  | nil => rfl
  | cons x xs ih =>
    have hx := int_plain x (h x (List.mem_cons_self ..))
    have hxs := ih (fun s hs => h s (List.mem_cons_of_mem _ hs))
    simp only [List.map_cons, PyRt.mapM, hx, hxs, List.mapM_cons]
    cases pyInt x with
    | none => rfl
    | some n =>
      cases List.mapM pyInt xs with
      | none => rfl
      | some v => rfl

theorem plain_of_mem_splitOn (c : Nat) (s : Str) (h : PlainText s) : ∀ p ∈ (Py.splitOn c s), PlainText p :=
  fun p hp x hx => h x (PyRx.mem_of_mem_splitOn c s p hp x hx)

/-- the value of `tuple(map(int, s.split(".")[:2]))` -/
def verResult (s : Str) : M PyVal :=
  match parseVersionTuple s with
  | some v => .ok (ofVersion v)
  | none => .error valueError

theorem parse_version_steps (s : Str) (h : PlainText s) :
    (str_split (.str s) (.str (ofString ".")) = .ok (.list ((Py.splitOn 46 s).map .str))) ∧
    (getslice (.list ((Py.splitOn 46 s).map .str)) .none (.int 2) = .ok (.list (((Py.splitOn 46 s).take 2).map .str))) ∧
    (map_ int_ (.list (((Py.splitOn 46 s).take 2).map .str)) =
      (match parseVersionTuple s with | some v => .ok (.iter (v.map ofNat)) | none => .error valueError)) := by
  refine ⟨str_split_single s 46, ?_, ?_⟩
  · rw [show (PyVal.int 2) = PyVal.int ((2 : Nat) : Int) from rfl, getslice_list_to, List.map_take]
  · have hm := mapM_int_plain ((Py.splitOn 46 s).take 2)
      (fun p hp => plain_of_mem_splitOn 46 s h p (List.mem_of_mem_take hp))
    simp only [map_, genexp, iterate_list, ok_bind, hm, parseVersionTuple]
    cases List.mapM pyInt (List.take 2 (Py.splitOn 46 s)) <;> rfl

/-- the whole expression, in continuation form (`jp` is the rest of the function) -/
theorem parse_version_jp {α} (s : Str) (h : PlainText s) (jp : PyVal → M α) :
    (do let a ← str_split (.str s) (.str (ofString "."))
        let b ← getslice a .none (.int 2)
        let c ← map_ int_ b
        let d ← tuple_ c
        jp d) = (verResult s >>= jp) := by
  obtain ⟨h1, h2, h3⟩ := parse_version_steps s h
  simp only [h1, ok_bind, h2, h3, verResult]
  cases parseVersionTuple s with
  | none => rfl
  | some v => simp [ofVersion]

theorem parseVersionTuple_length (s : Str) (v : List Nat) (h : parseVersionTuple s = some v) :
    v.length = 1 ∨ v.length = 2 := by
  simp only [parseVersionTuple] at h
  have hne := splitOn_ne_nil 46 s
  rcases hs : Py.splitOn 46 s with _ | ⟨a, _ | ⟨b, rest⟩⟩
  · exact absurd hs hne
  · rw [hs] at h
    simp only [List.take, List.mapM_cons, List.mapM_nil] at h
    cases ha : pyInt a <;> simp [ha] at h
    subst h; simp
  · rw [hs] at h
    simp only [List.take, List.mapM_cons, List.mapM_nil] at h
    cases ha : pyInt a <;> simp [ha] at h
    cases hb : pyInt b <;> simp [hb] at h
    subst h; simp

/-! ## small run-time facts -/

theorem str_replace_dash (m : Str) :
    str_replace (.str m) (.str (ofString "-")) (.str (ofString "_")) =
      .ok (.str (m.map fun c => if c == 45 then 95 else c)) := by
  simp only [str_replace, show ofString "-" = [45] from rfl, show ofString "_" = [95] from rfl, pure_ok]
  congr 2
  induction m with
  | nil => rfl
  | cons x xs ih =>
    simp only [List.flatMap_cons, List.map_cons, ih]
    by_cases hx : x = 45 <;> simp [hx]

theorem cmpSeq_le_nats (a b : List Nat) : cmpSeq .le (a.map ofNat) (b.map ofNat) = .ok (!Tags.tupLt b a) := by
  induction a generalizing b with
  | nil => cases b <;> simp [cmpSeq, Tags.tupLt, Cmp.onLen]
  | cons x xs ih =>
    cases b with
    | nil => simp [cmpSeq, Tags.tupLt, Cmp.onLen]
    | cons y ys =>
      simp only [List.map_cons, cmpSeq, Tags.tupLt, ofNat, eq_int]
      by_cases h : x = y
      · subst h; simp [ih]
      · have h1 : ((x : Int) == (y : Int)) = false := by simp; omega
        have h2 : (y == x) = false := by simpa using (fun e => h e.symm)
        simp [h1, h2, cmp, asInt, Cmp.onInt]
        by_cases hxy : x ≤ y
        · have : ¬ y < x := by omega
          simp [hxy, this]
        · have : y < x := by omega
          simp [hxy, this]

theorem cmp_tuple_le (a b : List Nat) : cmp .le (ofVersion a) (ofVersion b) = .ok (tLe a b) := by
  simp [ofVersion, cmp, cmpSeq_le_nats, tLe, tLt]

theorem cmp_tuple_ge' (a b : List Nat) : cmp .ge (ofVersion a) (ofVersion b) = .ok (tLe b a) := by
  rw [cmp_tuple_ge]; rfl

/-- `range(a, b, -1)` for `a = n - 1`, `b = lo - 1` -/
theorem range_down' (a b : Int) (n lo : Nat) (ha : a = (n : Int) - 1) (hb : b = (lo : Int) - 1) :
    range3 (.int a) (.int b) (.int (-1)) = .ok (.iter ((Tags.rangeDown n lo).map ofNat)) := by
  subst ha hb; exact range_down n lo

theorem eq_version (a b : List Nat) : PyVal.eq (ofVersion a) (ofVersion b) = (a == b) := by
  simp only [ofVersion, PyVal.eq]
  induction a generalizing b with
  | nil => cases b <;> simp [eqList]
  | cons x xs ih =>
    cases b with
    | nil => simp [eqList]
    | cons y ys => 
      have e : (((x : Nat) : Int) == ((y : Nat) : Int)) = (x == y) := by
        by_cases h : x = y
        · subst h; simp
        · have h1 : ((x : Int) == (y : Int)) = false := by simp; omega
          have h2 : (x == y) = false := by simpa using h
          rw [h1, h2]
      simp [eqList, ih, ofNat, e]

/-! ## `ios_platforms` -/

theorem getitem_tuple_nil (k : Int) : getitem (.tuple []) (.int k) = .error indexError := by
  simp only [getitem, asInt, normIndex, List.length_nil]
  by_cases h : 0 ≤ k
  · simp [h]
  · have : ¬ ((-k).toNat ≤ 0) := by omega
    simp [h, this]

theorem getitem_tuple_single_one (x : PyVal) : getitem (.tuple [x]) (.int 1) = .error indexError := by
  simp [getitem, asInt, normIndex]

theorem forIn_nats_append {α : Type} (l : List Nat) (init : List α) (f : PyVal → List α → M (ForInStep (List α)))
    (k : Nat → List α) (h : ∀ n ∈ l, ∀ s, f (ofNat n) s = .ok (.yield (s ++ k n))) :
    forIn (l.map ofNat) init f = (.ok (init ++ l.flatMap k) : M (List α)) := by
  rw [forIn_append_ok _ _ _ (fun x => match x with | .int i => k i.toNat | _ => [])]
  · simp [List.flatMap_map, ofNat]
  · intro x hx s
    simp only [List.mem_map] at hx
    obtain ⟨n, hn, rfl⟩ := hx
    rw [h n hn s]; simp [ofNat]

theorem flatMap_single {α β} (f : α → β) (l : List α) : l.flatMap (fun m => [f m]) = l.map f := by
  induction l with
  | nil => rfl
  | cons x xs ih => simp [List.flatMap_cons, ih]

theorem ios_given (env : Env) (v : List Nat) (multi : Str) :
    Gen.PySrc.ios_platforms env (ofVersion v) (.str multi) = ofPlatResult (iosPlatformsL v multi) := by
  unfold Gen.PySrc.ios_platforms
  simp only [ofVersion, isNone_tuple, isNone_str, Bool.false_eq_true, if_false, str_replace_dash, ok_bind, pure_ok]
  simp only [iosPlatformsL]
  generalize (multi.map fun c => if (c == 45) = true then 95 else c) = M
  rcases v with _ | ⟨a, _ | ⟨b, rest⟩⟩
  · simp [getitem_tuple_nil, ofPlatResult, indexError]
  · simp only [List.map_cons, List.map_nil, ofNat, getitem_tuple_zero, ok_bind, cmp, asInt, Cmp.onInt, pure_ok]
    by_cases h : a < 12
    · have : (a : Int) < 12 := by omega
      simp [this, h, ofPlatResult]
    · have : ¬ (a : Int) < 12 := by omega
      simp [this, h, ofPlatResult, getitem_tuple_single_one, indexError]
  · simp only [List.map_cons, ofNat, getitem_tuple_zero, getitem_tuple_one, ok_bind, cmp, asInt, Cmp.onInt, pure_ok,
      format_nat, format_str, sub_int]
    by_cases h : a < 12
    · have : (a : Int) < 12 := by omega
      simp [this, h, ofPlatResult]
    · have h' : ¬ (a : Int) < 12 := by omega
      have r1 := range_down' ((b : Int) - 1) (-1) b 0 rfl (by simp)
      have r2 := range_down' ((a : Int) - 1) 11 a 12 rfl (by simp)
      have r3 := range_down' 9 (-1) 10 0 (by simp) (by simp)
      simp only [h', decide_false, Bool.false_eq_true, if_false, r1, r2, r3, ok_bind, iterate_iter]
      rw [forIn_nats_append _ _ _ (fun m => [PyVal.str (iosTag a m M)])
        (by intro n _ s; simp [ofNat, iosTag, sIos_, us, ofString])]
      simp only [ok_bind]
      rw [forIn_nats_append _ _ _ (fun mj => (Tags.rangeDown 10 0).map fun m => PyVal.str (iosTag mj m M))
        (by
          intro mj _ s
          rw [forIn_nats_append _ _ _ (fun m => [PyVal.str (iosTag mj m M)])
            (by intro n _ s; simp [ofNat, iosTag, sIos_, us, ofString])]
          simp [flatMap_single])]
      simp [h, ofPlatResult, List.map_flatMap, flatMap_single, Function.comp_def]
      simp [iosTag, sIos_, us, ofString]

theorem getitem_tuple_two (a b c : PyVal) (l) : getitem (.tuple (a :: b :: c :: l)) (.int 2) = .ok c := by
  simp [getitem, asInt, normIndex]
theorem getitem_tuple_three (a b c d : PyVal) (l) : getitem (.tuple (a :: b :: c :: d :: l)) (.int 3) = .ok d := by
  simp [getitem, asInt, normIndex]

theorem ios_platforms_eq_model (env : Env) (verStr cpu compat0 : Str) (is32 : Bool) (iosRelease iosMultiarch : Str)
    (he : AppleEnv env verStr cpu compat0 is32 iosRelease iosMultiarch) (version : Option (Nat × Nat))
    (multiarch : Option Str) (hr : PlainText iosRelease) :
    Gen.PySrc.ios_platforms env (ofOptVer version) (ofOptStr multiarch) =
      ofPlatResult (iosPlatforms iosRelease iosMultiarch version multiarch) := by
  obtain ⟨x1, x3, x4, hios⟩ := he.iosVer
  -- the multiarch default
  have hmulti : ∀ v : List Nat, Gen.PySrc.ios_platforms env (ofVersion v) (ofOptStr multiarch) =
      ofPlatResult (iosPlatformsL v (match multiarch with | some m => m | none => iosMultiarch)) := by
    intro v
    cases multiarch with
    | some m => exact ios_given env v m
    | none =>
      rw [← ios_given env v iosMultiarch]
      unfold Gen.PySrc.ios_platforms
      simp only [ofVersion, ofOptStr, isNone_tuple, isNone_none, isNone_str, Bool.false_eq_true, if_false, if_true,
        he.multiarch, ok_bind]
  cases version with
  | some ab =>
    obtain ⟨a, b⟩ := ab
    exact hmulti [a, b]
  | none =>
    obtain ⟨h1, h2, h3⟩ := parse_version_steps iosRelease hr
    simp only [iosPlatforms]
    cases hp : parseVersionTuple iosRelease with
    | none =>
      unfold Gen.PySrc.ios_platforms
      simp only [hp] at h3
      simp only [ofOptVer, isNone_none, if_true, hios, PyPlat.unpack_n, PyRt.unpack, iterate_tuple, ok_bind, pure_ok,
        List.length_cons, List.length_nil, show Int.toNat 4 = 4 from rfl, show ((0 + 1 + 1 + 1 + 1 : Nat) == 4) = true from rfl,
        getitem_tuple_zero, getitem_tuple_one, getitem_tuple_two, getitem_tuple_three, h1, h2, h3, err_bind]
      rfl
    | some v =>
      unfold Gen.PySrc.ios_platforms
      simp only [hp] at h3
      simp only [ofOptVer, isNone_none, if_true, hios, PyPlat.unpack_n, PyRt.unpack, iterate_tuple, ok_bind, pure_ok,
        List.length_cons, List.length_nil, show Int.toNat 4 = 4 from rfl, show ((0 + 1 + 1 + 1 + 1 : Nat) == 4) = true from rfl,
        getitem_tuple_zero, getitem_tuple_one, getitem_tuple_two, getitem_tuple_three, h1, h2, h3, tuple_iter]
      refine Eq.trans ?_ (hmulti v)
      unfold Gen.PySrc.ios_platforms
      simp only [ofVersion, isNone_tuple, Bool.false_eq_true, if_false, pure_ok]

/-! ## loops whose state is a tuple of hoisted locals: only the yield list (a projection `get` of the state) matters -/

/-- what one iteration does, seen through `get`: it goes on (no `break`/`return`) and appends `v` -/
def StepAppends {σ α : Type} (get : σ → List α) (old : List α) (v : List α) (t : ForInStep σ) : Prop :=
  ∃ s', t = ForInStep.yield s' ∧ get s' = old ++ v

theorem forIn_lens {σ α : Type} (get : σ → List α) (l : List PyVal) (f : PyVal → σ → M (ForInStep σ)) (k : PyVal → List α)
    (h : ∀ x ∈ l, ∀ s, ∃ t, f x s = .ok t ∧ StepAppends get (get s) (k x) t) :
    ∀ s0, ∃ s', forIn l s0 f = (.ok s' : M σ) ∧ get s' = get s0 ++ l.flatMap k := by
  induction l with
  | nil => intro s0; exact ⟨s0, by simp, by simp⟩
  | cons x xs ih =>
    intro s0
    obtain ⟨t, ht, s1, rfl, hg1⟩ := h x (List.mem_cons_self ..) s0
    obtain ⟨s', hs', hg'⟩ := ih (fun y hy s => h y (List.mem_cons_of_mem _ hy) s) s1
    refine ⟨s', ?_, ?_⟩
    · simp only [List.forIn_cons, ht]; exact hs'
    · rw [hg', hg1, List.flatMap_cons, List.append_assoc]

/-- a loop followed by the rest of the block, when the rest only depends on the yield list -/
theorem forIn_lens_bind {σ α τ : Type} (get : σ → List α) (l : List PyVal) (f : PyVal → σ → M (ForInStep σ))
    (k : PyVal → List α) (init : σ) (rest : σ → M τ) (P : τ → Prop)
    (hbody : ∀ x ∈ l, ∀ s, ∃ t, f x s = .ok t ∧ StepAppends get (get s) (k x) t)
    (hrest : ∀ s', get s' = get init ++ l.flatMap k → ∃ t, rest s' = .ok t ∧ P t) :
    ∃ t, (forIn l init f >>= rest) = .ok t ∧ P t := by
  obtain ⟨s', hs', hg⟩ := forIn_lens get l f k hbody init
  rw [hs']
  exact hrest s' hg

theorem forIn_lens_eq {σ α τ : Type} (get : σ → List α) (l : List PyVal) (f : PyVal → σ → M (ForInStep σ))
    (k : PyVal → List α) (init : σ) (rest : σ → M τ) (R : M τ)
    (hbody : ∀ x ∈ l, ∀ s, ∃ t, f x s = .ok t ∧ StepAppends get (get s) (k x) t)
    (hrest : ∀ s', get s' = get init ++ l.flatMap k → rest s' = R) :
    (forIn l init f >>= rest) = R := by
  obtain ⟨s', hs', hg⟩ := forIn_lens get l f k hbody init
  rw [hs']
  exact hrest s' hg

/-- one iteration of a `for minor/major in range(...)` loop of `mac_platforms`: `_mac_binary_formats`, then the loop over
the formats; `hbf` evaluates the call, `g n f` is the tag for loop value `n` and format `f` -/
local macro "mac_outer_body" hbf:term:max g:term:max : tactic => `(tactic| (
  intro x hx s
  simp only [List.mem_map] at hx
  obtain ⟨n, _, hxn⟩ := hx
  subst hxn
  simp only [$hbf:term, ok_bind, ofStrs, iterate_list]
  refine forIn_lens_bind (fun s => s.2) _ _ (fun y => match y with
    | .str f => [PyVal.str ($g n f)] | _ => []) _ _ _ ?_ ?_
  · intro y hy t
    simp only [List.mem_map] at hy
    obtain ⟨f, _, hyf⟩ := hy
    subst hyf
    simp only [ofNat, format_nat, show (PyVal.int 10) = PyVal.int ((10 : Nat) : Int) from rfl,
      show (PyVal.int 0) = PyVal.int ((0 : Nat) : Int) from rfl, format_str, ok_bind]
    exact ⟨_, rfl, _, rfl, by simp [macTag, sMacosx_, us, ofString]⟩
  · intro s' hs'
    refine ⟨_, rfl, _, rfl, ?_⟩
    simp [hs', ofNat, List.flatMap_map, flatMap_single]))

theorem mac_given (env : Env) (verStr cpu compat0 : Str) (is32 : Bool) (iosRelease iosMultiarch : Str)
    (he : AppleEnv env verStr cpu compat0 is32 iosRelease iosMultiarch) (v : List Nat) (arch : Str) :
    Gen.PySrc.mac_platforms env (ofVersion v) (.str arch) = ofPlatResult (macPlatformsL v arch) := by
  obtain ⟨mid, hmac⟩ := he.macVer
  unfold Gen.PySrc.mac_platforms
  have h100 : (PyVal.tuple [PyVal.int 10, PyVal.int 0]) = ofVersion [10, 0] := rfl
  have h110 : (PyVal.tuple [PyVal.int 11, PyVal.int 0]) = ofVersion [11, 0] := rfl
  simp only [hmac, unpack3, iterate_tuple, ok_bind, pure_ok, h100, h110, cmp_tuple_le, cmp_tuple_lt, cmp_tuple_ge', PyRt.le, PyRt.lt]
  simp only [ofVersion, isNone_tuple, isNone_str, Bool.false_eq_true, if_false, truthy_bool, eq_str,
    show ofString "x86_64" = sX86_64 from rfl]
  by_cases c1 : Tags.tupLt v [11, 0] = true
  · have c2 : tLe [11, 0] v = false := by simp [tLe, tLt, c1]
    by_cases c0 : tLe [10, 0] v = true
    · rcases v with _ | ⟨a, _ | ⟨m, rest⟩⟩
      · simp [tLe, tLt, Tags.tupLt] at c0
      · simp [c0, c1, c2, getitem_tuple_single_one, macPlatformsL, ofPlatResult, indexError, tLt]
      · simp only [c0, c1, c2, if_true, ok_bind, List.map_cons, ofNat, getitem_tuple_one, Bool.false_eq_true, if_false,
          range_down' (m : Int) (-1) (m + 1) 0 (by simp) (by simp), iterate_iter]
        have hbf : ∀ n : Nat, Gen.PySrc._mac_binary_formats (.tuple [.int 10, ofNat n]) (.str arch) =
            .ok (ofStrs (macBinaryFormats [10, n] arch)) := fun n => _mac_binary_formats_eq_model [10, n] arch
        simp only [truthy_bool, if_true]
        refine forIn_lens_eq (fun s => s.2.2.2.2) _ _
          (fun x => match x with
            | .int i => (macBinaryFormats [10, i.toNat] arch).map fun f => PyVal.str (macTag 10 i.toNat f)
            | _ => []) _ _ _ ?_ ?_
        · mac_outer_body hbf (fun n f => macTag 10 n f)
        · intro s' hs'
          simp only [hs', macPlatformsL, c0, c1, c2, tLt, Bool.and_self, if_true, Bool.false_eq_true, if_false, ofPlatResult,
            List.nil_append, List.flatMap_map, ofNat, Int.toNat_natCast, List.map_flatMap, List.map_map, Function.comp_def]
    · simp [c0, c1, c2, macPlatformsL, ofPlatResult, tLt]
  · have c1' : Tags.tupLt v [11, 0] = false := by simpa using c1
    have c2 : tLe [11, 0] v = true := by simp [tLe, tLt, c1']
    obtain ⟨a, rest, rfl⟩ : ∃ a rest, v = a :: rest := by
      cases v with
      | nil => simp [Tags.tupLt] at c1
      | cons a rest => exact ⟨a, rest, rfl⟩
    simp only [c1', c2, if_true, ok_bind, List.map_cons, ofNat, getitem_tuple_zero,
      range_down' (a : Int) 10 (a + 1) 11 (by simp) (by simp), iterate_iter,
      range_down' 16 3 17 4 (by simp) (by simp)]
    have hc : (if tLe [10, 0] (a :: rest) = true then Except.ok (PyVal.bool false)
        else Except.ok (PyVal.bool (tLe [10, 0] (a :: rest)))) = (.ok (.bool false) : M PyVal) := by
      cases tLe [10, 0] (a :: rest) <;> rfl
    simp only [hc, ok_bind, truthy_bool, Bool.false_eq_true, if_false]
    have hbf : ∀ n : Nat, Gen.PySrc._mac_binary_formats (.tuple [.int 10, ofNat n]) (.str arch) =
        .ok (ofStrs (macBinaryFormats [10, n] arch)) := fun n => _mac_binary_formats_eq_model [10, n] arch
    have hbf0 : ∀ n : Nat, Gen.PySrc._mac_binary_formats (.tuple [ofNat n, .int 0]) (.str arch) =
        .ok (ofStrs (macBinaryFormats [n, 0] arch)) := fun n => _mac_binary_formats_eq_model [n, 0] arch
    refine forIn_lens_eq (fun s => s.2.2.2.2) _ _
      (fun x => match x with
        | .int i => (macBinaryFormats [i.toNat, 0] arch).map fun f => PyVal.str (macTag i.toNat 0 f)
        | _ => []) _ _ _ ?_ ?_
    · mac_outer_body hbf0 (fun n f => macTag n 0 f)
    · intro s2 hs2
      by_cases hx : arch = sX86_64
      · have hx' : (arch == sX86_64) = true := by simpa using hx
        simp only [hx', if_true]
        refine forIn_lens_eq (fun s => s.2.2.2.2) _ _
          (fun x => match x with
            | .int i => (macBinaryFormats [10, i.toNat] arch).map fun f => PyVal.str (macTag 10 i.toNat f)
            | _ => []) _ _ _ ?_ ?_
        · mac_outer_body hbf (fun n f => macTag 10 n f)
        · intro s3 hs3
          simp only [hs3, hs2, macPlatformsL, c1', c2, tLt, Bool.and_false, if_true, Bool.false_eq_true, if_false, ofPlatResult,
            List.nil_append, List.flatMap_map, ofNat, Int.toNat_natCast, List.map_flatMap, List.map_map, Function.comp_def,
            hx', List.getD_cons_zero, List.map_append]
      · have hx' : (arch == sX86_64) = false := by simpa using hx
        simp only [hx', Bool.false_eq_true, if_false]
        refine forIn_lens_eq (fun s => s.2.2.2) _ _
          (fun x => match x with
            | .int i => [PyVal.str (macTag 10 i.toNat sUniversal2)]
            | _ => []) _ _ _ ?_ ?_
        · intro x hx s
          simp only [List.mem_map] at hx
          obtain ⟨n, _, rfl⟩ := hx
          simp only [ofNat, format_nat, show (PyVal.int 10) = PyVal.int ((10 : Nat) : Int) from rfl, format_str, ok_bind]
          exact ⟨_, rfl, _, rfl, by simp [macTag, sMacosx_, us, ofString, sUniversal2]⟩
        · intro s3 hs3
          simp only [hs3, hs2, macPlatformsL, c1', c2, tLt, Bool.and_false, if_true, Bool.false_eq_true, if_false, ofPlatResult,
            List.nil_append, List.flatMap_map, ofNat, Int.toNat_natCast, List.map_flatMap, List.map_map, Function.comp_def,
            hx', List.getD_cons_zero, List.map_append, flatMap_single]

/-! ## `mac_platforms` -/

theorem mac_platforms_eq_model (env : Env) (verStr cpu compat0 : Str) (is32 : Bool) (iosRelease iosMultiarch : Str)
    (he : AppleEnv env verStr cpu compat0 is32 iosRelease iosMultiarch) (version : Option (Nat × Nat)) (arch : Option Str)
    (hv : PlainText verStr) (hc : PlainText compat0) :
    Gen.PySrc.mac_platforms env (ofOptVer version) (ofOptStr arch) =
      ofPlatResult (macPlatforms verStr cpu compat0 is32 version arch) := by
  obtain ⟨mid, hmac⟩ := he.macVer
  have hcompat := he.compat0
  simp only [macCompatKey] at hcompat
  have hArch : ∀ v : List Nat, Gen.PySrc.mac_platforms env (ofVersion v) (ofOptStr arch) =
      ofPlatResult (macPlatformsL v (match arch with | some a => a | none => macArch cpu is32)) := by
    intro v
    cases arch with
    | some a => exact mac_given env verStr cpu compat0 is32 iosRelease iosMultiarch he v a
    | none =>
      rw [← mac_given env verStr cpu compat0 is32 iosRelease iosMultiarch he v (macArch cpu is32)]
      unfold Gen.PySrc.mac_platforms
      simp only [hmac, unpack3, iterate_tuple, ok_bind, pure_ok, ofVersion, ofOptStr, isNone_tuple, isNone_none, isNone_str,
        Bool.false_eq_true, if_false, if_true, he.is32, _mac_arch_eq_model]
  cases version with
  | some ab =>
    obtain ⟨a, b⟩ := ab
    exact hArch [a, b]
  | none =>
    obtain ⟨h1, h2, h3⟩ := parse_version_steps verStr hv
    obtain ⟨k1, k2, k3⟩ := parse_version_steps compat0 hc
    simp only [macPlatforms]
    cases hp : parseVersionTuple verStr with
    | none =>
      unfold Gen.PySrc.mac_platforms
      simp only [hp] at h3
      simp only [ofOptVer, isNone_none, if_true, hmac, unpack3, iterate_tuple, ok_bind, pure_ok, h1, h2, h3, err_bind]
      rfl
    | some v =>
      simp only [hp] at h3
      have h1016 : PyVal.eq (PyVal.tuple (List.map ofNat v)) (PyVal.tuple [PyVal.int 10, PyVal.int 16]) = (v == [10, 16]) :=
        eq_version v [10, 16]
      by_cases hq : v = [10, 16]
      · subst hq
        have hq' : (([10, 16] : List Nat) == [10, 16]) = true := by decide
        unfold Gen.PySrc.mac_platforms
        simp only [ofOptVer, isNone_none, if_true, hmac, unpack3, iterate_tuple, ok_bind, pure_ok, h1, h2, h3,
          tuple_iter, h1016, hq', PyPlat.env_read, hcompat, k1, k2, k3]
        cases hw : parseVersionTuple compat0 with
        | none => simp only [err_bind]; rfl
        | some w =>
          simp only [ok_bind, tuple_iter]
          refine Eq.trans ?_ (hArch w)
          unfold Gen.PySrc.mac_platforms
          simp only [hmac, unpack3, iterate_tuple, ok_bind, pure_ok, ofVersion, isNone_tuple, Bool.false_eq_true, if_false]
      · have hq' : (v == [10, 16]) = false := by simpa using hq
        unfold Gen.PySrc.mac_platforms
        simp only [ofOptVer, isNone_none, if_true, hmac, unpack3, iterate_tuple, ok_bind, pure_ok, h1, h2, h3,
          tuple_iter, h1016, hq', Bool.false_eq_true, if_false]
        refine Eq.trans ?_ (hArch v)
        unfold Gen.PySrc.mac_platforms
        simp only [hmac, unpack3, iterate_tuple, ok_bind, pure_ok, ofVersion, isNone_tuple, Bool.false_eq_true, if_false]

theorem mac_platforms_translated : Gen.PySrc.mac_platforms_supported = true := rfl
theorem ios_platforms_translated : Gen.PySrc.ios_platforms_supported = true := rfl

/-! ## non-vacuity: a concrete table with the five keys -/

/-- a concrete table for the Apple probes (the shape `harness/srccall.py` sends) -/
def appleEnvOf (verStr cpu compat0 : Str) (is32 : Bool) (iosRelease iosMultiarch : Str) : Env :=
  [("platform.mac_ver", .list [row [] (.tuple [.str verStr, .tuple [.str [], .tuple [.str [], .str [], .str []], .str []], .str cpu])]),
   (macCompatKey, .str compat0),
   ("_32_BIT_INTERPRETER", .bool is32),
   ("platform.ios_ver", .list [row [] (.tuple [.str (ofString "iOS"), .str iosRelease, .str (ofString "iPhone13,2"), .bool false])]),
   ("sys.implementation._multiarch", .str iosMultiarch)]

theorem appleEnvOf_ok (verStr cpu compat0 : Str) (is32 : Bool) (iosRelease iosMultiarch : Str) :
    AppleEnv (appleEnvOf verStr cpu compat0 is32 iosRelease iosMultiarch) verStr cpu compat0 is32 iosRelease iosMultiarch where
  macVer := ⟨.tuple [.str [], .tuple [.str [], .str [], .str []], .str []], by simp [appleEnvOf, env_call, env_get, env_call.find, row, PyVal.eq, eqList, macCompatKey]⟩
  compat0 := by simp [appleEnvOf, env_get, macCompatKey]
  is32 := by simp [appleEnvOf, env_get, macCompatKey]
  iosVer := ⟨.str (ofString "iOS"), .str (ofString "iPhone13,2"), .bool false, by simp [appleEnvOf, env_call, env_get, env_call.find, row, PyVal.eq, eqList, macCompatKey]⟩
  multiarch := by simp [appleEnvOf, env_get, macCompatKey]

instance (s : Str) : Decidable (PlainText s) := by unfold PlainText; infer_instance

example : PlainText (ofString "10.16") ∧ PlainText (ofString "12.6.1") ∧ PlainText (ofString "16.4") := by
  refine ⟨?_, ?_, ?_⟩ <;> decide

/-- the hypotheses of `mac_platforms_eq_model` hold for a concrete table (macOS 12 reporting `10.16`, arm64) -/
example : Gen.PySrc.mac_platforms (appleEnvOf (ofString "10.16") sArm64 (ofString "12.6.1") false (ofString "16.4") (ofString "arm64-iphoneos"))
      (ofOptVer none) (ofOptStr none) =
    ofPlatResult (macPlatforms (ofString "10.16") sArm64 (ofString "12.6.1") false none none) :=
  mac_platforms_eq_model _ _ _ _ _ _ _ (appleEnvOf_ok ..) none none (by decide) (by decide)

example : Gen.PySrc.ios_platforms (appleEnvOf (ofString "10.16") sArm64 (ofString "12.6.1") false (ofString "16.4") (ofString "arm64-iphoneos"))
      (ofOptVer none) (ofOptStr none) =
    ofPlatResult (iosPlatforms (ofString "16.4") (ofString "arm64-iphoneos") none none) :=
  ios_platforms_eq_model _ (ofString "10.16") sArm64 (ofString "12.6.1") false _ _ (appleEnvOf_ok ..) none none (by decide)

/-- and the model's answer there is a non-empty list of tags, not an exception -/
example : (match macPlatforms (ofString "10.16") sArm64 (ofString "12.6.1") false none none with
    | .ok (_ :: _) => true | _ => false) = true := by decide +kernel
example : (match iosPlatforms (ofString "16.4") (ofString "arm64-iphoneos") none none with
    | .ok (_ :: _) => true | _ => false) = true := by decide +kernel

/-- the error paths are reached too: a one-component `platform.mac_ver()` version `"11"` ends in `version[1]` -/
example : (match macPlatforms (ofString "11") sArm64 [] false none none with
    | .error e => e == "IndexError" | _ => false) = true := by decide +kernel
example : (match macPlatforms (ofString "11.x") sArm64 [] false none none with
    | .error e => e == "ValueError" | _ => false) = true := by decide +kernel
example : (match iosPlatforms (ofString "16") (ofString "arm64-iphoneos") none none with
    | .error e => e == "IndexError" | _ => false) = true := by decide +kernel

end Src
