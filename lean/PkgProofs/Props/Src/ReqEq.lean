import PkgProofs.Props.Src.ReqObj
import PkgProofs.Props.Src.SSetBuild
import PkgProofs.Props.Src.MarkerFmt
import PkgProofs.Props.Src.MarkerInit
import PkgProofs.Props.Src.ReqParseMain
import PkgProofs.Props.Src.Names
import PkgProofs.Lemmas.ReqBasic
import PkgProofs.Lemmas.ReqParsed
import PkgProofs.Lemmas.ReqSSet
import PkgProofs.Lemmas.PyRx
import PkgProofs.Props.C05
namespace Src
open PyRt Py

theorem reqeq_translated :
    (Gen.PySrc.Requirement.__eq___supported && Gen.PySrc.Requirement.__init___supported) = true := rfl

/-! ## sets of strings -/

theorem eq_plain_str (a b : Str) : PyRx.eq_plain (.str a) (.str b) = .ok (.bool (a == b)) := by
  simp [PyRx.eq_plain, PyRt.eq]

theorem memM_plain (x : Str) (l : List Str) :
    PyRx.memM PyRx.eq_plain (.str x) (l.map .str) = .ok (l.contains x) := by
  induction l with
  | nil => rfl
  | cons y ys ih =>
    simp only [List.map_cons, PyRx.memM, eq_plain_str, PyRt.ok_bind, truthy_bool, ih, List.contains_cons]
    by_cases h : y = x
    · subst h; simp
    · have h' : (y == x) = false := by simpa using h
      have h'' : (x == y) = false := by simpa using (fun e : x = y => h e.symm)
      simp [h', h'']

theorem subsetM_plain (lb la : List Str) :
    PySet.subsetM PyRx.eq_plain (lb.map .str) (la.map .str) = .ok (la.all fun x => lb.contains x) := by
  induction la with
  | nil => rfl
  | cons x xs ih =>
    simp only [List.map_cons, PySet.subsetM, memM_plain, PyRt.ok_bind, ih, List.all_cons]
    cases lb.contains x <;> rfl

@[simp] theorem setItems_mkSet_set (l : List PyVal) : PyRx.setItems (PyRx.mkSet "set" l) = some l := by rfl

/-- `a == b` on two `set[str]` -/
theorem set_eq_strs (la lb : List Str) :
    PySet.set_eq PyRx.eq_plain (PyRx.mkSet "set" (la.map .str)) (PyRx.mkSet "set" (lb.map .str)) =
      .ok (.bool (la.length == lb.length && la.all fun x => lb.contains x)) := by
  simp only [PySet.set_eq, setItems_mkSet_set, subsetM_plain, List.length_map]
  by_cases h : la.length = lb.length <;> simp [h]

/-- for duplicate-free lists "same size and included" is mutual inclusion -/
theorem sizeSubset_eq_setEq (la lb : List Str) (ha : la.Nodup) (hb : lb.Nodup) :
    (la.length == lb.length && la.all fun x => lb.contains x) = Req.setEq la lb := by
  rw [Bool.eq_iff_iff, ReqL.setEq_iff]
  simp only [Bool.and_eq_true, beq_iff_eq, List.all_eq_true, List.contains_iff_mem]
  constructor
  · rintro ⟨hl, hs⟩ x
    exact ⟨hs x, fun hx => SSet.subset_of_length_le la lb ha hb hs (by omega) hx⟩
  · intro h
    have hp : la.Perm lb := (List.perm_ext_iff_of_nodup ha hb).mpr h
    exact ⟨hp.length_eq, fun x hx => (h x).mp hx⟩

/-! ## the specifier set: `Req.key` and `SSet.key` induce the same equality -/

theorem keys_ofReqSpec (l : List S.Spec) : SSet.keys (ofReqSpec l).specs = l.map SSet.key := by
  simp [ofReqSpec, SSet.keys, List.map_map, Function.comp_def]

theorem map_key_enc (l : List S.Spec) : l.map Req.key = (l.map SSet.key).map ReqSSet.enc := by
  simp [List.map_map, Function.comp_def, ReqSSet.key_enc]

/-- the two formulations of "members pairwise non-equal as `Specifier`s" -/
theorem wf_ofReqSpec_iff (l : List S.Spec) : C05.WF (ofReqSpec l) ↔ (l.map Req.key).Nodup := by
  unfold C05.WF
  rw [keys_ofReqSpec, map_key_enc]
  constructor
  · intro h
    exact List.Nodup.map_on (fun a _ b _ e => ReqSSet.enc_inj a b e) h
  · intro h
    exact List.Nodup.of_map _ h

theorem mem_map_key_iff (l : List S.Spec) (k : SSet.CKey) : ReqSSet.enc k ∈ l.map Req.key ↔ k ∈ l.map SSet.key := by
  rw [map_key_enc]
  constructor
  · intro h
    obtain ⟨k', hk', e⟩ := List.mem_map.mp h
    rw [← ReqSSet.enc_inj _ _ e]; exact hk'
  · intro h; exact List.mem_map.mpr ⟨k, h, rfl⟩

/-- `SpecifierSet.__eq__` of the `SpecifierSet` model is the requirement model's `specEq` on sets with distinct keys -/
theorem sset_eq_specEq (la lb : List S.Spec) (ha : (la.map Req.key).Nodup) (hb : (lb.map Req.key).Nodup) :
    (ofReqSpec la).eq (ofReqSpec lb) = Req.specEq la lb := by
  rw [Bool.eq_iff_iff, C05.eq_iff ((wf_ofReqSpec_iff la).mpr ha) ((wf_ofReqSpec_iff lb).mpr hb), ReqL.specEq_iff,
    keys_ofReqSpec, keys_ofReqSpec]
  constructor
  · intro h k
    rw [map_key_enc, map_key_enc]
    constructor
    · intro hk
      obtain ⟨k', hk', rfl⟩ := List.mem_map.mp hk
      exact List.mem_map.mpr ⟨k', (h k').mp hk', rfl⟩
    · intro hk
      obtain ⟨k', hk', rfl⟩ := List.mem_map.mp hk
      exact List.mem_map.mpr ⟨k', (h k').mpr hk', rfl⟩
  · intro h k
    rw [← mem_map_key_iff, ← mem_map_key_iff]
    exact h _

/-! ## `Requirement.__eq__` -/

/-- the value of the `marker` attribute -/
def ofOptMarker : Option (List Mk.M) → PyVal
  | none => .none
  | some m => PyMk.ofMarker m

theorem getattr_req_marker' (r : Req.Requirement) : getattr (ofReq r) "marker" = .ok (ofOptMarker r.marker) := by
  rw [getattr_req_marker]; cases r.marker <;> rfl

/-- `self.marker == other.marker` as the translator writes it: `None` is compared as a constant, a `Marker` by its
`__eq__` (`NotImplemented` is `False` after the reflected attempt) -/
theorem marker_eq_model (ma mb : Option (List Mk.M)) :
    (if PyRt.isNone (ofOptMarker ma) then (pure (PyRt.eq (ofOptMarker ma) (ofOptMarker mb)) : M PyVal)
     else (do pure (PyRt.eqResult false (← Gen.PySrc.Marker.__eq__ (ofOptMarker ma) (ofOptMarker mb))))) =
      .ok (.bool (Req.markerEq ma mb)) := by
  cases ma with
  | none =>
    cases mb with
    | none => rfl
    | some b => simp [ofOptMarker, PyRt.eq, PyMk.ofMarker, PyVal.eq, Req.markerEq]
  | some a =>
    have hn : PyRt.isNone (ofOptMarker (some a)) = false := by rfl
    cases mb with
    | none =>
      have h := Marker.__eq___not_marker a .none (by rfl)
      simp only [hn, ofOptMarker, h, PyRt.ok_bind]
      rfl
    | some b =>
      simp only [hn, ofOptMarker, Marker.__eq___eq_model, PyRt.ok_bind]
      rfl

theorem eq_ofOptStr (a b : Option Str) : PyRt.eq (ofOptStr a) (ofOptStr b) = .bool (a == b) := by
  cases a <;> cases b <;> simp [ofOptStr, PyRt.eq, PyVal.eq]

theorem canonicalize_name_false (s : Str) :
    Gen.PySrc.canonicalize_name (.str s) (.bool false) = .ok (.str (Names.canon s)) := by
  rw [canonicalize_name_eq_model]; rfl

/-- **`Requirement.__eq__` on two `Requirement`s is the model's `Req.eq`**, for requirements as the constructor builds
them (`ofParsed_wf`): `extras` without repetitions, the members of `specifier` pairwise non-equal.  (The hypotheses are
needed: the run-time compares sets by size and inclusion, the model by mutual inclusion, and the two differ on lists with
repetitions, which represent no Python set.) -/
theorem Requirement.__eq___eq_model (a b : Req.Requirement) (ha : a.extras.Nodup) (hb : b.extras.Nodup)
    (hsa : (a.spec.map Req.key).Nodup) (hsb : (b.spec.map Req.key).Nodup) :
    Gen.PySrc.Requirement.__eq__ (ofReq a) (ofReq b) = .ok (.bool (Req.eq a b)) := by
  have hi : isinstance (ofReq b) ["Requirement"] = true := by rfl
  have hm := marker_eq_model a.marker b.marker
  simp only [PyRt.pure_ok] at hm
  simp only [Gen.PySrc.Requirement.__eq__, hi, getattr_req_name, getattr_req_url, getattr_req_extras,
    getattr_req_specifier, getattr_req_marker', PyRt.ok_bind, PyRt.pure_ok, truthy_bool, canonicalize_name_false,
    set_eq_strs, sizeSubset_eq_setEq _ _ ha hb, SpecifierSet.__eq___eq_model, sset_eq_specEq _ _ hsa hsb, eqResult,
    eq_ofOptStr, hm, PyRt.eq, eq_str, Bool.not_true, Bool.false_eq_true, if_false]
  unfold Req.eq
  cases Names.canon a.name == Names.canon b.name <;> cases Req.setEq a.extras b.extras <;>
    cases Req.specEq a.spec b.spec <;> cases (a.url == b.url) <;> rfl

/-- anything that is not a `Requirement` on the right: `NotImplemented` -/
theorem Requirement.__eq___other (a : Req.Requirement) (o : PyVal) (h : PyRt.isinstance o ["Requirement"] = false) :
    Gen.PySrc.Requirement.__eq__ (ofReq a) o = .ok .notImpl := by
  simp [Gen.PySrc.Requirement.__eq__, h]

end Src
