import PkgProofs.Props.Src.ReqObj
import PkgProofs.Props.Src.SSetBuild
import PkgProofs.Props.Src.MarkerFmt
import PkgProofs.Props.Src.MarkerInit
import PkgProofs.Props.Src.ReqParseMain
import PkgProofs.Props.Src.Names
import PkgProofs.Lemmas.ReqBasic
import PkgProofs.Lemmas.ReqParsed
import PkgProofs.Lemmas.ReqSSet
import PkgProofs.Lemmas.PyRx
import PkgProofs.Props.C05
/-!
# Translated source of `Requirement.__eq__` and `Requirement.__init__` = the model (`Req.eq`, `Req.parse`)

* `Src.Requirement.__eq___eq_model`: on two `Requirement` objects (`Src.ofReq`) the translated `__eq__` answers `Req.eq`.
  The Python code short-circuits, the model is a plain `&&`; all five comparisons are total on these objects.  The
  run-time compares sets by *size and inclusion* (`PySet.set_eq`), the model by *mutual inclusion* (`Req.setEq`,
  `Req.specEq`): the same on lists that represent sets, hence the hypotheses `extras.Nodup` and
  `(spec.map Req.key).Nodup` (equivalently `C05.WF (ofReqSpec spec)`, `Src.wf_ofReqSpec_iff`).  The constructor establishes
  them (`Src.ofParsed_wf`, `Src.parse_wf`), they cannot be dropped (`Src.eq_needs_nodup_extras`, `Src.eq_needs_nodup_spec`).
* `Src.Requirement.__init___eq_model`: `Requirement(src)` is `Req.parse src`; the oracle (`_normalize_extra_values` calls
  `canonicalize_name` through it) answers as the library does (`O.canon = Names.canon`).  The model's
  `Err.rawInvalidVersion` and `Err.fuel` never occur (`Src.parseSource_error`, `Src.mkSpecSet_eq`), so the only exception
  is `InvalidRequirement`.

The `__init__` proof splits on the model values the code branches on (`p.marker`, the parsed clauses) and normalises all
branches with one lemma set, so some of its arguments are unused in each branch.
-/
set_option linter.unusedSimpArgs false
namespace Src
open PyRt Py

theorem reqeq_translated :
    (Gen.PySrc.Requirement.__eq___supported && Gen.PySrc.Requirement.__init___supported) = true := rfl

/-! ## sets of strings -/

theorem ReqEq.eq_plain_str (a b : Str) : PyRx.eq_plain (.str a) (.str b) = .ok (.bool (a == b)) := by
  simp [PyRx.eq_plain, PyRt.eq]

theorem memM_plain (x : Str) (l : List Str) :
    PyRx.memM PyRx.eq_plain (.str x) (l.map .str) = .ok (l.contains x) := by
  induction l with
  | nil => rfl
  | cons y ys ih =>
    simp only [List.map_cons, PyRx.memM, ReqEq.eq_plain_str, PyRt.ok_bind, truthy_bool, ih, List.contains_cons]
    by_cases h : y = x
    · subst h; simp
    · have h' : (y == x) = false := by simpa using h
      have h'' : (x == y) = false := by simpa using (fun e : x = y => h e.symm)
      simp [h', h'']

theorem subsetM_plain (lb la : List Str) :
    PySet.subsetM PyRx.eq_plain (lb.map .str) (la.map .str) = .ok (la.all fun x => lb.contains x) := by
  induction la with
  | nil => rfl
  | cons x xs ih =>
    simp only [List.map_cons, PySet.subsetM, memM_plain, PyRt.ok_bind, ih, List.all_cons]
    cases lb.contains x <;> rfl

@[simp] theorem ReqEq.setItems_mkSet_set (l : List PyVal) : PyRx.setItems (PyRx.mkSet "set" l) = some l := by rfl

/-- `a == b` on two `set[str]` -/
theorem set_eq_strs (la lb : List Str) :
    PySet.set_eq PyRx.eq_plain (PyRx.mkSet "set" (la.map .str)) (PyRx.mkSet "set" (lb.map .str)) =
      .ok (.bool (la.length == lb.length && la.all fun x => lb.contains x)) := by
  simp only [PySet.set_eq, ReqEq.setItems_mkSet_set, subsetM_plain, List.length_map]
  by_cases h : la.length = lb.length <;> simp [h]

/-- for duplicate-free lists "same size and included" is mutual inclusion -/
theorem sizeSubset_eq_setEq (la lb : List Str) (ha : la.Nodup) (hb : lb.Nodup) :
    (la.length == lb.length && la.all fun x => lb.contains x) = Req.setEq la lb := by
  rw [Bool.eq_iff_iff, ReqL.setEq_iff]
  simp only [Bool.and_eq_true, beq_iff_eq, List.all_eq_true, List.contains_iff_mem]
  constructor
  · rintro ⟨hl, hs⟩ x
    exact ⟨hs x, fun hx => SSet.subset_of_length_le la lb ha hb hs (by omega) hx⟩
  · intro h
    have hp : la.Perm lb := (List.perm_ext_iff_of_nodup ha hb).mpr h
    exact ⟨hp.length_eq, fun x hx => (h x).mp hx⟩

/-! ## the specifier set: `Req.key` and `SSet.key` induce the same equality -/

theorem keys_ofReqSpec (l : List S.Spec) : SSet.keys (ofReqSpec l).specs = l.map SSet.key := by
  simp [ofReqSpec, SSet.keys, List.map_map, Function.comp_def]

theorem map_key_enc (l : List S.Spec) : l.map Req.key = (l.map SSet.key).map ReqSSet.enc := by
  simp [List.map_map, Function.comp_def, ReqSSet.key_enc]

/-- the two formulations of "members pairwise non-equal as `Specifier`s" -/
theorem wf_ofReqSpec_iff (l : List S.Spec) : C05.WF (ofReqSpec l) ↔ (l.map Req.key).Nodup := by
  unfold C05.WF
  rw [keys_ofReqSpec, map_key_enc]
  constructor
  · intro h
    rw [List.Nodup, List.pairwise_map]
    exact List.Pairwise.imp (fun hne e => hne (ReqSSet.enc_inj _ _ e)) h
  · intro h
    rw [List.Nodup, List.pairwise_map] at h
    exact List.Pairwise.imp (fun hne e => hne (congrArg ReqSSet.enc e)) h

theorem mem_map_key_iff (l : List S.Spec) (k : SSet.CKey) : ReqSSet.enc k ∈ l.map Req.key ↔ k ∈ l.map SSet.key := by
  rw [map_key_enc]
  constructor
  · intro h
    obtain ⟨k', hk', e⟩ := List.mem_map.mp h
    rw [← ReqSSet.enc_inj _ _ e]; exact hk'
  · intro h; exact List.mem_map.mpr ⟨k, h, rfl⟩

/-- `SpecifierSet.__eq__` of the `SpecifierSet` model is the requirement model's `specEq` on sets with distinct keys -/
theorem sset_eq_specEq (la lb : List S.Spec) (ha : (la.map Req.key).Nodup) (hb : (lb.map Req.key).Nodup) :
    (ofReqSpec la).eq (ofReqSpec lb) = Req.specEq la lb := by
  rw [Bool.eq_iff_iff, C05.eq_iff ((wf_ofReqSpec_iff la).mpr ha) ((wf_ofReqSpec_iff lb).mpr hb), ReqL.specEq_iff,
    keys_ofReqSpec, keys_ofReqSpec]
  constructor
  · intro h k
    rw [map_key_enc, map_key_enc]
    constructor
    · intro hk
      obtain ⟨k', hk', rfl⟩ := List.mem_map.mp hk
      exact List.mem_map.mpr ⟨k', (h k').mp hk', rfl⟩
    · intro hk
      obtain ⟨k', hk', rfl⟩ := List.mem_map.mp hk
      exact List.mem_map.mpr ⟨k', (h k').mpr hk', rfl⟩
  · intro h k
    rw [← mem_map_key_iff, ← mem_map_key_iff]
    exact h _

/-! ## `Requirement.__eq__` -/

/-- the value of the `marker` attribute -/
def ofOptMarker : Option (List Mk.M) → PyVal
  | none => .none
  | some m => PyMk.ofMarker m

theorem getattr_req_marker' (r : Req.Requirement) : getattr (ofReq r) "marker" = .ok (ofOptMarker r.marker) := by
  rw [getattr_req_marker]; cases r.marker <;> rfl

/-- `self.marker == other.marker` as the translator writes it: `None` is compared as a constant, a `Marker` by its
`__eq__` (`NotImplemented` is `False` after the reflected attempt) -/
theorem marker_eq_model (ma mb : Option (List Mk.M)) :
    (if PyRt.isNone (ofOptMarker ma) then (pure (PyRt.eq (ofOptMarker ma) (ofOptMarker mb)) : M PyVal)
     else (do pure (PyRt.eqResult false (← Gen.PySrc.Marker.__eq__ (ofOptMarker ma) (ofOptMarker mb))))) =
      .ok (.bool (Req.markerEq ma mb)) := by
  cases ma with
  | none =>
    cases mb with
    | none => rfl
    | some b => simp [ofOptMarker, PyRt.eq, PyMk.ofMarker, PyVal.eq, Req.markerEq]
  | some a =>
    cases mb with
    | none =>
      have h := Marker.__eq___not_marker a .none (by rfl)
      simp only [ofOptMarker, h, PyRt.ok_bind]
      rfl
    | some b =>
      simp only [ofOptMarker, Marker.__eq___eq_model, PyRt.ok_bind]
      rfl

theorem ReqEq.eq_ofOptStr (a b : Option Str) : PyRt.eq (ofOptStr a) (ofOptStr b) = .bool (a == b) := by
  cases a <;> cases b <;> simp [ofOptStr, PyRt.eq, PyVal.eq]

theorem ReqEq.eqResult_bool (d b : Bool) : PyRt.eqResult d (.bool b) = .bool b := by rfl
theorem ReqEq.eq_str_str (a b : Str) : PyRt.eq (.str a) (.str b) = .bool (a == b) := by simp [PyRt.eq]

theorem canonicalize_name_false (s : Str) :
    Gen.PySrc.canonicalize_name (.str s) (.bool false) = .ok (.str (Names.canon s)) := by
  rw [canonicalize_name_eq_model]; rfl

/-- **`Requirement.__eq__` on two `Requirement`s is the model's `Req.eq`**, for requirements as the constructor builds
them (`ofParsed_wf`): `extras` without repetitions, the members of `specifier` pairwise non-equal.  (The hypotheses are
needed: the run-time compares sets by size and inclusion, the model by mutual inclusion, and the two differ on lists with
repetitions, which represent no Python set.) -/
theorem Requirement.__eq___eq_model (a b : Req.Requirement) (ha : a.extras.Nodup) (hb : b.extras.Nodup)
    (hsa : (a.spec.map Req.key).Nodup) (hsb : (b.spec.map Req.key).Nodup) :
    Gen.PySrc.Requirement.__eq__ (ofReq a) (ofReq b) = .ok (.bool (Req.eq a b)) := by
  have hi : isinstance (ofReq b) ["Requirement"] = true := by rfl
  have hm := marker_eq_model a.marker b.marker
  simp only [PyRt.pure_ok] at hm
  simp only [Gen.PySrc.Requirement.__eq__, hi, getattr_req_name, getattr_req_url, getattr_req_extras,
    getattr_req_specifier, getattr_req_marker', PyRt.ok_bind, PyRt.pure_ok, truthy_bool, canonicalize_name_false,
    set_eq_strs, sizeSubset_eq_setEq _ _ ha hb, SpecifierSet.__eq___eq_model, sset_eq_specEq _ _ hsa hsb, ReqEq.eqResult_bool,
    ReqEq.eq_ofOptStr, hm, ReqEq.eq_str_str, Bool.not_true, Bool.false_eq_true, if_false]
  unfold Req.eq
  cases Names.canon a.name == Names.canon b.name <;> cases Req.setEq a.extras b.extras <;>
    cases Req.specEq a.spec b.spec <;> cases (a.url == b.url) <;> rfl

/-- what `Requirement.__init__` after parsing yields, spelled out -/
theorem ofParsed_ok {p : Req.Parsed} {r : Req.Requirement} (h : Req.ofParsed p = .ok r) :
    ∃ spec, Req.mkSpecSet p.specifier = .ok spec ∧
      r = { name := p.name, url := if p.url.isEmpty then none else some p.url, extras := Req.dedup p.extras,
            spec := spec, marker := p.marker.map (Mk.normalizeExtra Req.X) } := by
  unfold Req.ofParsed at h
  cases hs : Req.mkSpecSet p.specifier with
  | error e => rw [hs] at h; cases h
  | ok spec =>
    rw [hs] at h
    injection h with h
    exact ⟨spec, rfl, h.symm⟩

/-- **the constructor establishes the hypotheses of `Requirement.__eq___eq_model`** -/
theorem ofParsed_wf {p : Req.Parsed} {r : Req.Requirement} (h : Req.ofParsed p = .ok r) :
    r.extras.Nodup ∧ (r.spec.map Req.key).Nodup := by
  obtain ⟨spec, hs, rfl⟩ := ofParsed_ok h
  obtain ⟨sps, _, rfl⟩ := ReqWf.mkSpecSet_inv _ _ hs
  exact ⟨ReqL.nodup_dedup _, ReqWf.specSet_nodup _⟩

theorem parse_wf {src : Str} {r : Req.Requirement} (h : Req.parse src = .ok r) :
    r.extras.Nodup ∧ (r.spec.map Req.key).Nodup := by
  unfold Req.parse at h
  cases hp : Req.parseSource src with
  | error e => rw [hp] at h; cases h
  | ok p => rw [hp] at h; exact ofParsed_wf h

/-- the same with the hypothesis on the specifier sets in the `SpecifierSet` model's words -/
theorem Requirement.__eq___eq_model' (a b : Req.Requirement) (ha : a.extras.Nodup) (hb : b.extras.Nodup)
    (hsa : C05.WF (ofReqSpec a.spec)) (hsb : C05.WF (ofReqSpec b.spec)) :
    Gen.PySrc.Requirement.__eq__ (ofReq a) (ofReq b) = .ok (.bool (Req.eq a b)) :=
  Requirement.__eq___eq_model a b ha hb ((wf_ofReqSpec_iff _).mp hsa) ((wf_ofReqSpec_iff _).mp hsb)

/-- the hypotheses cannot be dropped: a list with a repetition (which no Python set is) is as large as it is long for the
run-time and as large as its set of elements for the model -/
theorem eq_needs_nodup_extras :
    let a : Req.Requirement := ⟨[97], none, [[120], [120]], [], none⟩
    let b : Req.Requirement := ⟨[97], none, [[120]], [], none⟩
    Gen.PySrc.Requirement.__eq__ (ofReq a) (ofReq b) = .ok (.bool false) ∧ Req.eq a b = true :=
  ⟨by rfl, by decide⟩

theorem eq_needs_nodup_spec :
    let a : Req.Requirement := ⟨[97], none, [], [⟨.eq, [49]⟩, ⟨.eq, [49]⟩], none⟩
    let b : Req.Requirement := ⟨[97], none, [], [⟨.eq, [49]⟩], none⟩
    Gen.PySrc.Requirement.__eq__ (ofReq a) (ofReq b) = .ok (.bool false) ∧ Req.eq a b = true :=
  ⟨by rfl, by decide⟩

/-- `Requirement.__eq__` on two constructed requirements -/
theorem Requirement.__eq___parsed {s t : Str} {a b : Req.Requirement} (ha : Req.parse s = .ok a)
    (hb : Req.parse t = .ok b) :
    Gen.PySrc.Requirement.__eq__ (ofReq a) (ofReq b) = .ok (.bool (Req.eq a b)) :=
  Requirement.__eq___eq_model a b (parse_wf ha).1 (parse_wf hb).1 (parse_wf ha).2 (parse_wf hb).2

/-! ## the parser raises nothing but `ParserSyntaxError` -/

/-- not the `InvalidVersion` escaping from hashing (the parser never hashes anything) -/
def NR {α} (x : Req.Res α) : Prop := x ≠ .error .rawInvalidVersion

theorem NR_ok {α} (a : α) : NR (.ok a : Req.Res α) := by intro h; cases h
theorem NR_inv {α} : NR (.error .invalidRequirement : Req.Res α) := by intro h; cases h
theorem NR_fuel {α} : NR (.error .fuel : Req.Res α) := by intro h; cases h
theorem NR_bind {α β} {x : Req.Res α} {f : α → Req.Res β} (hx : NR x) (hf : ∀ a, NR (f a)) : NR (x >>= f) := by
  cases x with
  | error e => intro h; exact hx (by cases e <;> first | rfl | cases h)
  | ok a => exact hf a

theorem nr_extrasLoop : ∀ (f : Nat) (acc : List Str) (st : Mk.St), NR (Req.extrasLoop f acc st) := by
  intro f
  induction f with
  | zero => intro acc st; exact NR_fuel
  | succ f ih =>
    intro acc st
    simp only [Req.extrasLoop]
    repeat' split
    all_goals first | exact NR_inv | exact NR_ok _ | exact ih _ _

theorem nr_parseExtrasList (f : Nat) (st : Mk.St) : NR (Req.parseExtrasList f st) := by
  simp only [Req.parseExtrasList]
  split
  · exact NR_ok _
  · exact nr_extrasLoop _ _ _

theorem nr_parseExtras (f : Nat) (st : Mk.St) : NR (Req.parseExtras f st) := by
  simp only [Req.parseExtras]
  split
  · exact NR_ok _
  · refine NR_bind (nr_parseExtrasList _ _) ?_
    rintro ⟨ex, st'⟩
    dsimp only
    split
    · exact NR_inv
    · exact NR_ok _

theorem nr_versionMany : ∀ (f : Nat) (acc : Str) (st : Mk.St), NR (Req.versionMany f acc st) := by
  intro f
  induction f with
  | zero => intro acc st; exact NR_fuel
  | succ f ih =>
    intro acc st
    simp only [Req.versionMany]
    repeat' split
    all_goals first | exact NR_inv | exact NR_ok _ | exact ih _ _

theorem nr_parseSpecifier (f : Nat) (st : Mk.St) : NR (Req.parseSpecifier f st) := by
  simp only [Req.parseSpecifier]
  split
  · refine NR_bind (nr_versionMany _ _ _) ?_
    rintro ⟨s, st'⟩
    dsimp only
    split
    · exact NR_inv
    · exact NR_ok _
  · refine NR_bind (nr_versionMany _ _ _) ?_
    rintro ⟨s, st'⟩
    exact NR_ok _

theorem nr_parseReqMarker (f : Nat) (st : Mk.St) : NR (Req.parseReqMarker f st) := by
  simp only [Req.parseReqMarker]
  repeat' split
  all_goals first | exact NR_inv | exact NR_ok _ | exact NR_fuel

theorem nr_parseDetails (f : Nat) (st : Mk.St) : NR (Req.parseDetails f st) := by
  simp only [Req.parseDetails]
  split
  · split
    · exact NR_inv
    · split
      · exact NR_ok _
      · split
        · exact NR_inv
        · split
          · exact NR_ok _
          · refine NR_bind (nr_parseReqMarker _ _) ?_
            rintro ⟨m, st'⟩
            exact NR_ok _
  · refine NR_bind (nr_parseSpecifier _ _) ?_
    rintro ⟨s, st'⟩
    dsimp only
    split
    · exact NR_ok _
    · refine NR_bind (nr_parseReqMarker _ _) ?_
      rintro ⟨m, st''⟩
      exact NR_ok _

theorem nr_parseRequirement (f : Nat) (st : Mk.St) : NR (Req.parseRequirement f st) := by
  simp only [Req.parseRequirement]
  split
  · exact NR_inv
  · refine NR_bind (nr_parseExtras _ _) ?_
    rintro ⟨ex, st'⟩
    refine NR_bind (nr_parseDetails _ _) ?_
    rintro ⟨url, spec, marker, st''⟩
    dsimp only
    split
    · exact NR_ok _
    · exact NR_inv

/-- `parse_requirement` fails with `ParserSyntaxError` only (`Src.parseSource_ne_fuel` excludes the model's fuel) -/
theorem parseSource_error {src : Str} {e : Req.Err} (h : Req.parseSource src = .error e) : e = .invalidRequirement := by
  cases e with
  | invalidRequirement => rfl
  | rawInvalidVersion => exact absurd h (nr_parseRequirement _ _)
  | fuel => exact absurd h (parseSource_ne_fuel src)

/-! ## `Requirement.__init__`: the field assignments -/

/-- `set(list of str)`: the run-time's first-occurrence deduplication is `Req.dedup` -/
theorem dedupM_plain_acc (l acc : List Str) :
    PyRx.dedupM PyRx.eq_plain (acc.map .str) (l.map .str) =
      .ok ((acc ++ (Req.dedup l).filter fun x => !acc.contains x).map .str) := by
  induction l generalizing acc with
  | nil => simp [PyRx.dedupM, Req.dedup]
  | cons y ys ih =>
    simp only [List.map_cons, PyRx.dedupM, memM_plain, PyRt.ok_bind, Req.dedup, List.filter_cons]
    cases hy : acc.contains y with
    | true =>
      simp only [if_true, Bool.not_true, Bool.false_eq_true, if_false, ih acc, List.filter_filter]
      congr 3
      apply List.filter_congr
      intro x _
      have hy' : y ∈ acc := by simpa using hy
      by_cases hx : x ∈ acc
      · simp [hx]
      · have hne : x ≠ y := by rintro rfl; exact hx hy'
        simp [hx, hne]
    | false =>
      have hm : acc.map PyVal.str ++ [PyVal.str y] = (acc ++ [y]).map PyVal.str := by simp
      simp only [Bool.false_eq_true, if_false, Bool.not_false, if_true, hm, ih (acc ++ [y]), List.filter_filter]
      congr 2
      rw [List.append_assoc, List.singleton_append]
      congr 2
      apply List.filter_congr
      intro x _
      simp only [List.contains_append, List.contains_cons, List.contains_nil, Bool.or_false, Bool.not_or, bne,
        Bool.and_comm]

theorem dedupM_plain (l : List Str) :
    PyRx.dedupM PyRx.eq_plain [] (l.map .str) = .ok ((Req.dedup l).map .str) := by
  have h := dedupM_plain_acc l []
  have hf : (Req.dedup l).filter (fun x => !([] : List Str).contains x) = Req.dedup l :=
    List.filter_eq_self.mpr (by simp)
  rw [List.nil_append, hf] at h
  exact h

/-- `set(parsed.extras)` -/
theorem set_of_strs (l : List Str) :
    PyRx.set_of "set" PyRx.eq_plain (.list (l.map .str)) = .ok (PyRx.mkSet "set" ((Req.dedup l).map .str)) := by
  simp [PyRx.set_of, PyRx.setItems, dedupM_plain]

/-- `xs or []` for a list -/
theorem ReqEq.list_or_nil (l : List PyVal) :
    (if truthy (.list l) then (Except.ok (.list l) : M PyVal) else Except.ok (.list [])) = .ok (.list l) := by
  cases l <;> rfl

/-- `s or None` for a string -/
theorem ReqEq.str_or_none (s : Str) :
    (if truthy (.str s) then (Except.ok (.str s) : M PyVal) else Except.ok .none) =
      .ok (ofOptStr (if s.isEmpty then none else some s)) := by
  cases s <;> rfl

/-- hashing never raises, so `Req.mkSpecSet` fails only on a clause that is no specifier -/
theorem mkSpecSet_eq (s : Str) :
    Req.mkSpecSet s = match SSet.parseAll (SSet.clauses s) with
      | none => .error .invalidRequirement
      | some sps => .ok (Req.specSet sps) := by
  unfold Req.mkSpecSet
  show (match SSet.parseAll (SSet.clauses s) with
    | none => _ | some sps => _) = _
  cases SSet.parseAll (SSet.clauses s) with
  | none => rfl
  | some sps =>
    have : (sps.all fun sp => (Req.ckey sp).isSome) = true := List.all_eq_true.mpr fun sp _ => ReqWf.ckey_isSome sp
    simp [this]

/-- `SpecifierSet(s)` of the `SpecifierSet` model is the set the requirement model holds -/
theorem ofString_none_eq (s : Str) :
    SSet.ofString s none = match SSet.parseAll (SSet.clauses s) with
      | none => .error "InvalidSpecifier"
      | some sps => .ok (ofReqSpec (Req.specSet sps)) := by
  rw [C05.ofString_total]
  cases SSet.parseAll (SSet.clauses s) with
  | none => rfl
  | some sps =>
    have h := ReqSSet.foldl_insert_eq sps []
    simp only [List.map_nil] at h
    simp only [SSet.fromList, h, ofReqSpec, Req.specSet]

/-- `SpecifierSet(parsed.specifier)` inside its `try` -/
theorem specifier_init (s : Str) :
    Gen.PySrc.SpecifierSet.__init__ (.obj "SpecifierSet" []) (.str s) PyVal.none =
      match Req.mkSpecSet s with
      | .ok spec => .ok (ofSSet (ofReqSpec spec))
      | .error _ => .error "InvalidSpecifier" := by
  have h := SpecifierSet.__init___str s none
  rw [show ofOptBool none = PyVal.none from rfl] at h
  rw [h, ofString_none_eq, mkSpecSet_eq]
  cases SSet.parseAll (SSet.clauses s) <;> rfl

mutual
theorem normM_congr (X Y : Mk.Ext) (h : X.canonName = Y.canonName) : (m : Mk.M) → Mk.normM X m = Mk.normM Y m
  | .atom a => by simp [Mk.normM, Mk.normAtom, h]
  | .bool s => by simp [Mk.normM]
  | .list l => by simp [Mk.normM, normalizeExtra_congr X Y h l]
theorem normalizeExtra_congr (X Y : Mk.Ext) (h : X.canonName = Y.canonName) :
    (l : List Mk.M) → Mk.normalizeExtra X l = Mk.normalizeExtra Y l
  | [] => by simp [Mk.normalizeExtra]
  | m :: ms => by simp [Mk.normalizeExtra, normM_congr X Y h m, normalizeExtra_congr X Y h ms]
end

/-- only `canonicalize_name` of the oracle matters for `_normalize_extra_values` -/
theorem normalizeExtra_oracle (O : PyMk.Oracle) (hO : O.canon = Names.canon) (l : List Mk.M) :
    Mk.normalizeExtra O.toExt l = Mk.normalizeExtra Req.X l :=
  normalizeExtra_congr _ _ hO l

/-! ## `Requirement.__init__` -/

@[simp] theorem getattr_parsed_name (p : Req.Parsed) : getattr (PyPar.ofParsed p) "name" = .ok (.str p.name) := by rfl
@[simp] theorem getattr_parsed_url (p : Req.Parsed) : getattr (PyPar.ofParsed p) "url" = .ok (.str p.url) := by rfl
@[simp] theorem getattr_parsed_extras (p : Req.Parsed) :
    getattr (PyPar.ofParsed p) "extras" = .ok (.list (p.extras.map .str)) := by rfl
@[simp] theorem getattr_parsed_specifier (p : Req.Parsed) :
    getattr (PyPar.ofParsed p) "specifier" = .ok (.str p.specifier) := by rfl
@[simp] theorem getattr_parsed_marker (p : Req.Parsed) :
    getattr (PyPar.ofParsed p) "marker" = .ok (match p.marker with | none => .none | some m => PyMk.ofML m) := by rfl

/-- a `try` block that assigns a local runs as a `StateT` layer over `M` -/
theorem ReqEq.pure_stateT_apply {σ α : Type} (a : α) (s : σ) : (pure a : StateT σ M α) s = .ok (a, s) := by rfl

theorem ReqEq.catches_self (e : PyExc) : PyRt.catches e e = true := by simp [PyRt.catches]

theorem parse_eq (src : Str) :
    Req.parse src = match Req.parseSource src with
      | .ok p => Req.ofParsed p
      | .error e => .error e := by
  unfold Req.parse
  cases Req.parseSource src <;> rfl

theorem ofParsed_eq (p : Req.Parsed) :
    Req.ofParsed p = match SSet.parseAll (SSet.clauses p.specifier) with
      | none => .error .invalidRequirement
      | some sps => .ok { name := p.name, url := if p.url.isEmpty then none else some p.url,
                          extras := Req.dedup p.extras, spec := Req.specSet sps,
                          marker := p.marker.map (Mk.normalizeExtra Req.X) } := by
  unfold Req.ofParsed
  rw [mkSpecSet_eq]
  cases SSet.parseAll (SSet.clauses p.specifier) <;> rfl

/-- **`Requirement(requirement_string)` is the model's `Req.parse`**: the initialised object, or `InvalidRequirement`
(`ParserSyntaxError` and `InvalidSpecifier` re-raised).  The oracle's `canonicalize_name` is the library's. -/
theorem Requirement.__init___eq_model (O : PyMk.Oracle) (hO : O.canon = Names.canon) (src : Str) :
    Gen.PySrc.Requirement.__init__ O.ext (.obj "Requirement" []) (.str src) =
      match Req.parse src with
      | .ok r => .ok (ofReq r)
      | .error .rawInvalidVersion => .error "InvalidVersion"
      | .error _ => .error "InvalidRequirement" := by
  unfold Gen.PySrc.Requirement.__init__
  rw [parse_requirement_eq_parseSource, parse_eq]
  cases hp : Req.parseSource src with
  | error e =>
    cases parseSource_error hp
    simp [ReqEq.catches_self, ReqEq.pure_stateT_apply]
  | ok p =>
    have hspec := specifier_init p.specifier
    rw [mkSpecSet_eq] at hspec
    have hn : ∀ m, isNone (PyMk.ofML m) = false := fun _ => rfl
    simp only [ofParsed_eq]
    -- the model values the code branches on; then one lemma set normalises every branch, and what is left is the
    -- evaluation of `setattr` on a literal field list
    cases hm : p.marker <;> cases hs : SSet.parseAll (SSet.clauses p.specifier) <;> rw [hs] at hspec <;>
      simp only [ReqEq.pure_stateT_apply, PyRt.tryCatch_ok', PyRt.tryCatch_err', PyRt.ok_bind, PyRt.err_bind, PyRt.pure_ok,
        PyRt.throw_err, getattr_parsed_name, getattr_parsed_url, getattr_parsed_extras, getattr_parsed_specifier,
        getattr_parsed_marker, hm, hn, isNone_none, Bool.not_true, Bool.not_false, Bool.false_eq_true, if_true, if_false,
        ReqEq.str_or_none, ReqEq.list_or_nil, set_of_strs, hspec, ReqEq.catches_self, setattr, setField,
        _normalize_extra_values_eq_model, normalizeExtra_oracle O hO] <;>
      rfl

/-- the model's constructor fails with `invalidRequirement` only: the `InvalidVersion` and fuel cases of `Req.Err` are
unreachable -/
theorem parse_error {src : Str} {e : Req.Err} (h : Req.parse src = .error e) : e = .invalidRequirement := by
  rw [parse_eq] at h
  cases hp : Req.parseSource src with
  | error e' =>
    rw [hp] at h
    injection h with h
    exact h ▸ parseSource_error hp
  | ok p =>
    rw [hp] at h
    simp only [ofParsed_eq] at h
    cases hs : SSet.parseAll (SSet.clauses p.specifier) with
    | none => rw [hs] at h; injection h with h; exact h.symm
    | some sps => rw [hs] at h; cases h

/-- so `Requirement(src)` raises nothing but `InvalidRequirement` -/
theorem Requirement.__init___eq_model' (O : PyMk.Oracle) (hO : O.canon = Names.canon) (src : Str) :
    Gen.PySrc.Requirement.__init__ O.ext (.obj "Requirement" []) (.str src) =
      match Req.parse src with
      | .ok r => .ok (ofReq r)
      | .error _ => .error "InvalidRequirement" := by
  rw [Requirement.__init___eq_model O hO]
  cases h : Req.parse src with
  | ok r => rfl
  | error e => cases parse_error h; rfl

/-- anything that is not a `Requirement` on the right: `NotImplemented` -/
theorem Requirement.__eq___other (a : Req.Requirement) (o : PyVal) (h : PyRt.isinstance o ["Requirement"] = false) :
    Gen.PySrc.Requirement.__eq__ (ofReq a) o = .ok .notImpl := by
  simp [Gen.PySrc.Requirement.__eq__, h]

end Src
