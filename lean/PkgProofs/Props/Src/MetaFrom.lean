import PkgProofs.Props.Src.MetaGet
import PkgModel.PyX7
import PkgProofs.Lemmas.ReqBasic
/-!
# Translated source of `Metadata.from_raw`, `Metadata.from_email`, `_Validator._invalid_metadata`,
`InvalidMetadata.__init__` = the model's `Meta.fromRaw` / `Meta.fromEmail`  (x7)

These functions handle exception *objects* and run in `PyX7.MX = Except PyX7.Exc` (see `PkgModel/PyX7.lean`).

Main statements (all without side conditions on the key *strings*: the loop looks a key up in the class dictionary first, so the
record's attribute names `toStringLossy k` are only ever computed for field names):

* `Metadata.__getattr__dyn_eq_model` — the dispatcher `getattr(ins, key)` for a field name is `Meta.getattr`;
* `Metadata.from_raw_eq_model` — `OutcomeRel (from_raw (extOf6 o) (ofDict data) validate) (Meta.fromRaw o (ksOf data) data validate)`;
* `ksOf_perm` — the order the translated code visits (`ksOf data`) is a permutation of `Meta.fieldsToCheck data`;
* `Metadata.from_email_eq_model` — the same against `Meta.fromEmail`, `parse_email` answering through the oracle.

Hypotheses on the initial dict `data` (they are inherited by every later `_raw`, which only loses keys: `RawSub`):
`hnd` keys pairwise distinct (a Python dict; also what makes `ksOf` duplicate-free); `hw`/`hs` the side conditions of
`_Validator.__get___eq_model` for every field's raw value; `hesc` no converter lets an exception *named* `InvalidMetadata`
(or a subclass) escape as "any other class" — the model tells `Exc.invalid` from `Exc.escape "InvalidMetadata"`, an
`except InvalidMetadata` clause cannot (example at the end of the file); for `from_email` also `hgrp`: what escapes from
`from_raw` as a legacy class is not an `ExceptionGroup` (it would be caught by `except ExceptionGroup` and has no `.exceptions`).

Brittle spots if the generated text changes: `valid_list`/`list_index_valid`, `union_req`, `diff_mv` quote literals of the
generated code (`_VALID_METADATA_VERSIONS`, `_REQUIRED_ATTRS`, `{"metadata_version"}`); the proof of `from_raw_eq_model` abstracts the
prologue `try` by its type (`generalize … : MX (Unit × PyVal × PyVal × PyVal × PyVal)`), and the loop state is the 7-tuple
`(exceptions, validator, exc, field_metadata_version, field_age, field, ins)`.
-/
namespace Src
open PyRt Py PyMeta PyMd PyX7 Gen.Meta GetP
set_option linter.unusedSimpArgs false

theorem from_translated :
    (Gen.PySrc.InvalidMetadata.__init___supported && Gen.PySrc._Validator._invalid_metadata_supported &&
     Gen.PySrc.Metadata.from_raw_supported && Gen.PySrc.Metadata.from_email_supported) = true := rfl

/-- an `InvalidMetadata` object: its class and `.field` -/
def ofInvalid (field : Str) : PyVal := .obj "InvalidMetadata" [("field", .str field)]
/-- an `ExceptionGroup` of `InvalidMetadata` objects -/
def ofGroup (fields : List Str) : PyVal := .obj "ExceptionGroup" [("exceptions", .tuple (fields.map ofInvalid))]
/-- a `RawMetadata` dict -/
def ofDict (d : Meta.Dict) : PyVal := .dict (d.map fun p => (.str p.1, ofVal p.2))

/-! ### the monad `MX` -/
namespace FromP

@[simp] theorem okX_bind {α β} (a : α) (f : α → MX β) : (Except.ok a >>= f) = f a := by rfl
@[simp] theorem errX_bind {α β} (e : Exc) (f : α → MX β) : ((Except.error e : MX α) >>= f) = .error e := by rfl
@[simp] theorem pureX_ok {α} (a : α) : (pure a : MX α) = .ok a := by rfl
@[simp] theorem throwX_err {α} (e : Exc) : (throw e : MX α) = .error e := by rfl
@[simp] theorem tryCatchX_ok {α} (a : α) (h : Exc → MX α) : tryCatchThe Exc (Except.ok a : MX α) h = .ok a := by rfl
@[simp] theorem tryCatchX_err {α} (e : Exc) (h : Exc → MX α) : tryCatchThe Exc (Except.error e : MX α) h = h e := by rfl
@[simp] theorem tryCatchX_ok' {α} (a : α) (h : Exc → MX α) : MonadExcept.tryCatch (Except.ok a : MX α) h = .ok a := by rfl
@[simp] theorem tryCatchX_err' {α} (e : Exc) (h : Exc → MX α) : MonadExcept.tryCatch (Except.error e : MX α) h = h e := by rfl
@[simp] theorem liftX_ok {α} (a : α) : liftX (Except.ok a : M α) = .ok a := by rfl
@[simp] theorem liftX_err {α} (e : PyExc) : liftX (Except.error e : M α) = .error (.cls e) := by rfl
@[simp] theorem monadLift_ok {α} (a : α) : (MonadLift.monadLift (Except.ok a : M α) : MX α) = .ok a := by rfl
@[simp] theorem monadLift_err {α} (e : PyExc) : (MonadLift.monadLift (Except.error e : M α) : MX α) = .error (.cls e) := by rfl
@[simp] theorem liftM_ok {α} (a : α) : (liftM (Except.ok a : M α) : MX α) = .ok a := by rfl
@[simp] theorem raise_obj_err {α} (v : PyVal) : (raise_obj v : MX α) = .error (.obj v) := by rfl

end FromP
open FromP

theorem InvalidMetadata.__init___eq_model (field msg : PyVal) :
    Gen.PySrc.InvalidMetadata.__init__ (.obj "InvalidMetadata" []) field msg = .ok (.obj "InvalidMetadata" [("field", field)]) := by
  rfl

theorem _Validator._invalid_metadata_eq_model (f : Field) (msg cause : PyVal) :
    Gen.PySrc._Validator._invalid_metadata (validatorOf f) msg cause = .ok (ofInvalid f.emailName) := by
  rfl

/-! ### the descriptor table -/

theorem descriptors_all :
    Gen.PySrc.Metadata.__descriptors = Field.all.map (fun f => (f.rawName, validatorOf f)) := by rfl

/-- the generated descriptor table is the model's field table -/
theorem descriptors_eq (k : Str) :
    (Gen.PySrc.Metadata.__descriptors.find? (fun kv => kv.1 == k)).map (·.2) = (Meta.fieldOfRaw k).map validatorOf := by
  rw [descriptors_all, List.find?_map, Meta.fieldOfRaw]
  have : ((fun kv : Str × PyVal => kv.1 == k) ∘ fun f : Field => (f.rawName, validatorOf f)) = fun f : Field => decide (f.rawName = k) := by
    funext f; show (f.rawName == k) = decide (f.rawName = k)
    by_cases h : f.rawName = k <;> simp [h]
  rw [this]
  cases Field.all.find? (fun f => decide (f.rawName = k)) <;> rfl

theorem fieldOfRaw_some (k : Str) (f : Field) (h : Meta.fieldOfRaw k = some f) : k = f.rawName := by
  have := List.find?_some h
  simp at this; exact this.symm

theorem fieldOfRaw_rawName (f : Field) : Meta.fieldOfRaw f.rawName = some f := by cases f <;> decide +kernel

theorem class_dict_get_field (k : Str) (f : Field) (h : Meta.fieldOfRaw k = some f) :
    class_dict_get Gen.PySrc.Metadata.__descriptors (.str k) = .ok (validatorOf f) := by
  have := descriptors_eq k
  rw [h] at this
  simp only [class_dict_get, hashable, Bool.not_true, Bool.false_eq_true, if_false, pure_ok]
  cases hf : Gen.PySrc.Metadata.__descriptors.find? (fun kv => kv.1 == k) with
  | none => simp [hf] at this
  | some kv => simp [hf] at this; simp [this]

theorem class_dict_get_unknown (k : Str) (h : Meta.fieldOfRaw k = none) :
    class_dict_get Gen.PySrc.Metadata.__descriptors (.str k) = .ok .none := by
  have := descriptors_eq k
  rw [h] at this
  simp only [class_dict_get, hashable, Bool.not_true, Bool.false_eq_true, if_false, pure_ok]
  cases hf : Gen.PySrc.Metadata.__descriptors.find? (fun kv => kv.1 == k) with
  | none => rfl
  | some kv => simp [hf] at this

/-! ### what the converters raise -/

theorem oneVerdict_invalid (fld n : Str) (v : Meta.Verdict) (k : Str → Meta.Val)
    (h : Meta.oneVerdict fld v k = .error (.invalid n)) : n = fld := by
  cases v <;> simp [Meta.oneVerdict] at h; exact h.symm

theorem mapVerdicts_invalid (fld n : Str) (p : Str → Meta.Verdict) (l : List Str)
    (h : Meta.mapVerdicts fld p l = .error (.invalid n)) : n = fld := by
  induction l with
  | nil => simp [Meta.mapVerdicts] at h
  | cons s r ih =>
    simp only [Meta.mapVerdicts] at h
    cases hp : p s with
    | ok c =>
      rw [hp] at h
      cases hr : Meta.mapVerdicts fld p r with
      | ok x => rw [hr] at h; simp [Except.map] at h
      | error e => rw [hr] at h; simp [Except.map] at h; exact ih (by rw [hr, h])
    | bad => rw [hp] at h; simp at h; exact h.symm
    | esc c => rw [hp] at h; simp at h

theorem map_list_invalid (fld n : Str) (p : Str → Meta.Verdict) (l : List Str)
    (h : (Meta.mapVerdicts fld p l).map Meta.Val.list = .error (.invalid n)) : n = fld := by
  cases hr : Meta.mapVerdicts fld p l with
  | ok x => rw [hr] at h; simp [Except.map] at h
  | error e => rw [hr] at h; simp [Except.map] at h; exact mapVerdicts_invalid fld n p l (by rw [hr, h])

theorem conv_invalid (o : Meta.Oracle) (f : Field) (ov : Option Meta.Val) (n : Str)
    (h : Meta.conv o f ov = .error (.invalid n)) : n = f.emailName := by
  simp only [Meta.conv] at h
  generalize ov.getD .none = v at h
  split at h
  · cases f <;> simp only [Meta.process] at h
    case metadata_version =>
      cases v <;> simp only [Meta.procMetadataVersion] at h <;> (try split at h) <;> simp at h <;> exact h.symm
    case name =>
      cases v <;> simp only [Meta.procName, Meta.tyErr] at h <;> (try split at h) <;>
        first | exact oneVerdict_invalid _ _ _ _ h | (simp at h; try exact h.symm)
    case version =>
      cases v <;> simp only [Meta.procVersion, Meta.tyErr] at h <;> (try split at h) <;>
        first | exact oneVerdict_invalid _ _ _ _ h | (simp at h; try exact h.symm)
    case summary =>
      cases v <;> simp only [Meta.procSummary, Meta.tyErr] at h <;> (try split at h) <;> simp at h <;> exact h.symm
    case description_content_type =>
      cases v <;> simp only [Meta.procContentType, Meta.tyErr] at h <;> (try split at h) <;> (try split at h) <;> simp at h <;> exact h.symm
    case dynamic =>
      cases v <;> simp only [Meta.procDynamic, Meta.tyErr] at h <;> (try split at h) <;> simp at h <;> exact h.symm
    case provides_extra =>
      cases v <;> simp only [Meta.procProvidesExtra, Meta.tyErr] at h <;>
        first | exact map_list_invalid _ _ _ _ h | simp at h
    case requires_python =>
      cases v <;> simp only [Meta.procRequiresPython, Meta.tyErr] at h <;>
        first | exact oneVerdict_invalid _ _ _ _ h | simp at h
    case requires_dist =>
      cases v <;> simp only [Meta.procRequiresDist, Meta.tyErr] at h <;>
        first | exact map_list_invalid _ _ _ _ h | simp at h
    case license_expression =>
      cases v <;> simp only [Meta.procLicenseExpression, Meta.tyErr] at h <;>
        first | exact oneVerdict_invalid _ _ _ _ h | simp at h
    case license_files =>
      cases v <;> simp only [Meta.procLicenseFiles, Meta.tyErr] at h <;> (try split at h) <;> simp at h <;> exact h.symm
    all_goals simp at h
  · simp at h

/-- the converter of `metadata_version` answers a member of the version list -/
theorem conv_mv_ok (o : Meta.Oracle) (ov : Option Meta.Val) (v : Meta.Val)
    (h : Meta.conv o .metadata_version ov = .ok v) : ∃ s, v = .str s ∧ validVersions.contains s = true := by
  have hr : Meta.isRequired .metadata_version = true := by decide
  simp only [Meta.conv, hr, Bool.true_or, if_true, Meta.process] at h
  generalize ov.getD .none = w at h
  cases w <;> simp only [Meta.procMetadataVersion] at h <;> (try split at h) <;> simp at h
  next s hs => exact ⟨s, h.symm, by simpa using hs⟩

/-- an absent raw value never makes a converter raise anything but `InvalidMetadata` -/
theorem conv_none_escape (o : Meta.Oracle) (f : Field) (c : Str) : Meta.conv o f none ≠ .error (.escape c) := by
  intro h
  cases hr : Meta.isRequired f with
  | false => simp [Meta.conv, hr] at h
  | true =>
    cases f <;> first
      | (exact absurd hr (by decide))
      | (simp [Meta.conv, Meta.process, Meta.procMetadataVersion, Meta.procName, Meta.procVersion, hr] at h)

/-! ### the dispatcher `getattr(ins, key)` -/

theorem catches_ne (h e : PyExc) (hc : catches h e = false) : (e == h) = false := by
  simp only [catches, Bool.or_eq_false_iff] at hc
  exact hc.1

/-- `getattr(ins, key)` for a field name: the instance dict first, then the descriptor -/
theorem Metadata.__getattr__dyn_eq_model (o : Meta.Oracle) (k : Str) (f : Field) (inst : PyVal) (st : Meta.St)
    (hk : Meta.fieldOfRaw k = some f) (hrel : InstRel inst st)
    (hw : WellTyped f ((Meta.aget f.rawName st.raw).getD .none))
    (hs : SaneOracle o f ((Meta.aget f.rawName st.raw).getD .none))
    (hesc : ∀ c, Meta.conv o f (Meta.aget f.rawName st.raw) = .error (.escape c) →
      catches "InvalidMetadata" (toStringLossy c) = false) :
    match Meta.getattr o k st with
    | (.ok v, st') => ∃ inst', Gen.PySrc.Metadata.__getattr__dyn (extOf6 o) inst (.str k)
          = .ok (.tuple [viewOfField f v, inst']) ∧ InstRel inst' st'
    | (.error (.invalid n), st') => n = f.emailName ∧ st' = st ∧
        Gen.PySrc.Metadata.__getattr__dyn (extOf6 o) inst (.str k) = .error (.obj (ofInvalid f.emailName))
    | (.error (.escape c), st') => st' = st ∧ catches "InvalidMetadata" (toStringLossy c) = false ∧
        Gen.PySrc.Metadata.__getattr__dyn (extOf6 o) inst (.str k) = .error (.cls (toStringLossy c)) := by
  have hkf := fieldOfRaw_some k f hk
  subst hkf
  have hget := _Validator.__get___eq_model o f inst (.obj "type" []) st hrel hw hs
  obtain ⟨fs, d, rfl, hraw, hnd, hlk, hcache⟩ := hrel
  have hl : inst_lookup (.obj "Metadata" fs) (.str f.rawName) =
      .ok (match Meta.aget f.rawName st.cache with | some v => .tuple [viewOfField f v] | none => .none) := by
    simp only [inst_lookup, hcache f, pure_ok]
    cases Meta.aget f.rawName st.cache <;> rfl
  have hinst : isinstance (validatorOf f) ["_Validator"] = true := by rfl
  unfold Gen.PySrc.Metadata.__getattr__dyn
  simp only [Meta.getattr, hl, monadLift_ok, liftM_ok, okX_bind]
  cases hc : Meta.aget f.rawName st.cache with
  | some v =>
    simp only [isNone_tuple, Bool.not_false, if_true, getitem_tuple_zero, liftM_ok, monadLift_ok, okX_bind, pureX_ok]
    exact ⟨_, rfl, ⟨fs, d, rfl, hraw, hnd, hlk, hcache⟩⟩
  | none =>
    simp only [isNone_none, Bool.not_true, Bool.false_eq_true, if_false, hk, class_dict_get_field _ _ hk, liftM_ok,
      monadLift_ok, okX_bind, hinst]
    unfold Meta.descGet at hget ⊢
    cases hconv : Meta.conv o f (Meta.aget f.rawName st.raw) with
    | ok v =>
      simp only [hconv] at hget ⊢
      obtain ⟨inst', h1, h2⟩ := hget
      exact ⟨inst', by simp only [h1, pureX_ok], h2⟩
    | error e =>
      simp only [hconv] at hget ⊢
      cases e with
      | invalid n =>
        have hn := conv_invalid o f _ n hconv
        refine ⟨hn, rfl, ?_⟩
        simp only [hget, excName, beq_self_eq_true, if_true, _Validator._invalid_metadata_eq_model, liftM_ok, monadLift_ok,
          okX_bind, raise_obj_err]
      | escape c =>
        refine ⟨rfl, hesc c hconv, ?_⟩
        have := catches_ne _ _ (hesc c hconv)
        simp only [hget, excName, this, Bool.false_eq_true, if_false, throwX_err]

/-! ### run-time facts used by `from_raw` -/

theorem list_index_strs (l : List Str) (s : Str) :
    list_index (.list (l.map .str)) (.str s) =
      match Meta.indexOf s l with | some i => .ok (.int i) | none => .error valueError := by
  have : ∀ l : List Str, (l.map PyVal.str).findIdx? (fun y => PyVal.eq y (.str s)) = Meta.indexOf s l := by
    intro l
    induction l with
    | nil => rfl
    | cons x xs ih =>
      simp only [List.map_cons, List.findIdx?_cons, eq_str, Meta.indexOf, ih]
      by_cases h : x = s <;> simp [h]
  simp only [list_index, this]
  cases Meta.indexOf s l <;> rfl

theorem valid_list : PyVal.list [.str (ofString "1.0"), .str (ofString "1.1"), .str (ofString "1.2"), .str (ofString "2.1"),
    .str (ofString "2.2"), .str (ofString "2.3"), .str (ofString "2.4")] = .list (validVersions.map .str) := by rfl

theorem list_index_valid (s : Str) :
    list_index (PyVal.list [.str (ofString "1.0"), .str (ofString "1.1"), .str (ofString "1.2"), .str (ofString "2.1"),
      .str (ofString "2.2"), .str (ofString "2.3"), .str (ofString "2.4")]) (.str s) =
      match Meta.ageOf s with | some i => .ok (.int i) | none => .error valueError := by
  rw [valid_list, list_index_strs]; rfl

theorem cmp_gt_nat (a b : Nat) : cmp .gt (.int a) (.int b) = .ok (decide (a > b)) := by
  simp only [cmp, asInt, Cmp.onInt, pure_ok]
  congr 1
  simp

@[simp] theorem getitem_tuple_one (x y : PyVal) (l : List PyVal) : getitem (.tuple (x :: y :: l)) (.int 1) = .ok y := by
  simp [getitem, asInt, normIndex]

/-! ### the validation loop against `Meta.loop` -/

theorem loop_sim_k {σ β : Type} (o : Meta.Oracle) (age : Option Nat) (ks : List Str)
    (R : σ → Meta.St → List Str → Prop) (f : PyVal → σ → MX (ForInStep σ)) (k : σ → MX β) (Q : MX β → Prop)
    (hstep : ∀ key s st errs, R s st errs → match Meta.checkKey o age key st with
       | (.error c, _) => f (.str key) s = .error (.cls (toStringLossy c))
       | (.ok none, st') => ∃ s', f (.str key) s = .ok (.yield s') ∧ R s' st' errs
       | (.ok (some n), st') => ∃ s', f (.str key) s = .ok (.yield s') ∧ R s' st' (errs ++ [n]))
    (s : σ) (st : Meta.St) (errs : List Str) (hR : R s st errs)
    (hk : match Meta.loop o age ks st errs with
       | .error c => Q (.error (.cls (toStringLossy c)))
       | .ok (st', errs') => ∀ s', R s' st' errs' → Q (k s')) :
    Q (forIn (ks.map PyVal.str) s f >>= k) := by
  induction ks generalizing s st errs with
  | nil =>
    simp only [Meta.loop] at hk
    simpa using hk s hR
  | cons key ks ih =>
    have h1 := hstep key s st errs hR
    simp only [Meta.loop] at hk
    simp only [List.map_cons, List.forIn_cons]
    generalize Meta.checkKey o age key st = r at h1 hk
    obtain ⟨r1, st'⟩ := r
    cases r1 with
    | error c => simp only at h1 hk; simpa [h1] using hk
    | ok on =>
      cases on with
      | none =>
        simp only at h1 hk
        obtain ⟨s', h2, h3⟩ := h1
        simp only [h2, okX_bind]
        exact ih s' st' errs h3 hk
      | some n =>
        simp only at h1 hk
        obtain ⟨s', h2, h3⟩ := h1
        simp only [h2, okX_bind]
        exact ih s' st' _ h3 hk

/-! ### the keys the loop visits -/

/-- `frozenset(keys) | _REQUIRED_ATTRS - {"metadata_version"}` as the run-time enumerates it -/
def keyList (ks : List Str) : List Str :=
  (ks ++ requiredAttrs.filter (fun r => !ks.contains r)).filter (· != Meta.mvKey)

/-- the order in which the translated loop visits the keys: `sorted(frozenset(raw) | _REQUIRED_ATTRS - {"metadata_version"}, key=str)` -/
def ksOf (data : Meta.Dict) : List Str := sortBy strLe (keyList (Meta.akeys data))

theorem memPlain_strs (y : Str) (ks : List Str) : memPlain (.str y) (ks.map .str) = ks.contains y := by
  induction ks with
  | nil => rfl
  | cons x xs ih =>
    simp only [memPlain, List.map_cons, List.any_cons, eq_str, List.contains_cons] at ih ⊢
    rw [ih]
    by_cases h : x = y
    · subst h; simp
    · have e1 : (x == y) = false := by simpa using h
      have e2 : (y == x) = false := by simpa using fun e : y = x => h e.symm
      simp [e1, e2]

theorem set_of_keys_rawD (d : List (Str × PyVal)) :
    set_of_keys (.dict (rawD d)) = .ok (PyRx.mkSet "frozenset" ((d.map (·.1)).map .str)) := by
  simp [set_of_keys, rawD, List.map_map, Function.comp_def]

theorem union_req (ks : List Str) :
    set_union_plain (PyRx.mkSet "frozenset" (ks.map .str))
      (PyRx.mkSet "frozenset" [.str (ofString "metadata_version"), .str (ofString "name"), .str (ofString "version")]) =
      .ok (PyRx.mkSet "frozenset" ((ks ++ requiredAttrs.filter (fun r => !ks.contains r)).map .str)) := by
  have h1 : [PyVal.str (ofString "metadata_version"), .str (ofString "name"), .str (ofString "version")]
      = requiredAttrs.map PyVal.str := by rfl
  rw [h1]
  simp only [set_union_plain, PyRx.mkSet, PyRx.setItems, pure_ok, List.map_append, List.filter_map]
  congr 6
  refine congrArg _ (List.filter_congr ?_)
  intro x _
  simp [memPlain_strs]

theorem diff_mv (l : List Str) :
    set_diff_plain (PyRx.mkSet "frozenset" (l.map .str)) (PyRx.mkSet "set" [.str (ofString "metadata_version")]) =
      .ok (PyRx.mkSet "frozenset" ((l.filter (· != Meta.mvKey)).map .str)) := by
  simp only [set_diff_plain, PyRx.mkSet, PyRx.setItems, pure_ok, List.filter_map]
  congr 6
  refine List.filter_congr ?_
  intro x _
  have : Meta.mvKey = ofString "metadata_version" := by decide
  simp only [Function.comp, memPlain, List.any_cons, List.any_nil, eq_str, Bool.or_false, this]
  by_cases h : x = ofString "metadata_version"
  · subst h; simp
  · have e1 : (ofString "metadata_version" == x) = false := by simpa using fun e : ofString "metadata_version" = x => h e.symm
    have e2 : (x != ofString "metadata_version") = true := by simpa using h
    simp [e1, e2]

theorem mf_strsOf_strs (l : List Str) : PySet.strsOf (l.map .str) = some l := by
  induction l with
  | nil => rfl
  | cons x xs ih => simp [PySet.strsOf, ih]

theorem mf_sorted_strs (l : List Str) :
    sorted_key_str (PyRx.mkSet "frozenset" (l.map .str)) = .ok (.list ((sortBy strLe l).map .str)) := by
  simp [sorted_key_str, PySet.sorted_, PyRx.mkSet, PyRx.setItems, mf_strsOf_strs]

/-! membership and duplicates of `keyList` -/

theorem mem_keyList (ks : List Str) (x : Str) :
    x ∈ keyList ks ↔ (x ∈ ks ∨ x ∈ requiredAttrs) ∧ x ≠ Meta.mvKey := by
  simp only [keyList, List.mem_filter, List.mem_append, bne_iff_ne, ne_eq, Bool.not_eq_true', List.contains_eq_mem,
    decide_eq_false_iff_not]
  constructor
  · rintro ⟨h | ⟨h, _⟩, h2⟩ <;> simp [h, h2]
  · rintro ⟨h | h, h2⟩
    · exact ⟨Or.inl h, h2⟩
    · by_cases hx : x ∈ ks
      · exact ⟨Or.inl hx, h2⟩
      · exact ⟨Or.inr ⟨h, hx⟩, h2⟩

theorem nodup_keyList (ks : List Str) (h : ks.Nodup) : (keyList ks).Nodup := by
  unfold keyList
  refine List.Nodup.sublist List.filter_sublist ?_
  rw [List.nodup_append]
  refine ⟨h, List.Nodup.sublist List.filter_sublist (by decide), ?_⟩
  intro a ha b hb hab
  subst hab
  simp only [List.mem_filter, Bool.not_eq_true', List.contains_eq_mem, decide_eq_false_iff_not] at hb
  exact hb.2 ha

theorem keyList_perm (ks ks' : List Str) (h : ks.Nodup) (h' : ks'.Nodup)
    (hm : ∀ x, x ≠ Meta.mvKey → (x ∈ ks ↔ x ∈ ks')) : (keyList ks).Perm (keyList ks') := by
  rw [List.perm_ext_iff_of_nodup (nodup_keyList ks h) (nodup_keyList ks' h')]
  intro x
  rw [mem_keyList, mem_keyList]
  by_cases hx : x = Meta.mvKey
  · simp [hx]
  · simp [hx, hm x hx]

theorem mem_dedup (l : List Str) (x : Str) : x ∈ Meta.dedup l ↔ x ∈ l := by
  induction l with
  | nil => simp [Meta.dedup]
  | cons y r ih =>
    simp only [Meta.dedup, List.mem_cons, List.mem_filter, ih, bne_iff_ne, ne_eq]
    by_cases h : x = y <;> simp [h]

theorem nodup_dedup (l : List Str) : (Meta.dedup l).Nodup := by
  induction l with
  | nil => simp [Meta.dedup]
  | cons y r ih =>
    simp only [Meta.dedup, List.nodup_cons, List.mem_filter, bne_self_eq_false, Bool.false_eq_true, and_false,
      not_false_eq_true, true_and]
    exact List.Nodup.sublist List.filter_sublist ih

theorem ksOf_perm (data : Meta.Dict) (hnd : (data.map (·.1)).Nodup) : (ksOf data).Perm (Meta.fieldsToCheck data) := by
  refine (ReqL.sortBy_perm _ _).trans ?_
  have h2 : (Meta.fieldsToCheck data).Nodup := List.Nodup.sublist List.filter_sublist (nodup_dedup _)
  have hnd' : (Meta.akeys data).Nodup := hnd
  rw [List.perm_ext_iff_of_nodup (nodup_keyList _ hnd') h2]
  intro x
  simp only [mem_keyList, Meta.fieldsToCheck, List.mem_filter, mem_dedup, List.mem_append, bne_iff_ne, ne_eq]

/-! ### states -/

/-- `instance._raw` only ever loses keys -/
def RawSub (data : Meta.Dict) (st : Meta.St) : Prop :=
  ∀ f : Field, Meta.aget f.rawName st.raw = none ∨ Meta.aget f.rawName st.raw = Meta.aget f.rawName data

theorem wellTyped_none (f : Field) : WellTyped f .none := by simp [WellTyped]
theorem sane_none (o : Meta.Oracle) (f : Field) : SaneOracle o f .none := by cases f <;> trivial

theorem getattr_raw (o : Meta.Oracle) (k : Str) (st : Meta.St) :
    (Meta.getattr o k st).2.raw = st.raw ∨ (Meta.getattr o k st).2.raw = Meta.adel k st.raw := by
  unfold Meta.getattr
  cases Meta.aget k st.cache with
  | some v => exact Or.inl rfl
  | none =>
    cases hf : Meta.fieldOfRaw k with
    | none => simp only; split <;> exact Or.inl rfl
    | some f =>
      have := fieldOfRaw_some k f hf
      subst this
      simp only [Meta.descGet]
      cases Meta.conv o f (Meta.aget f.rawName st.raw) with
      | ok v => exact Or.inr rfl
      | error e => exact Or.inl rfl

theorem rawSub_of_raw (data : Meta.Dict) (st st' : Meta.St) (k : Str) (h : RawSub data st)
    (hr : st'.raw = st.raw ∨ st'.raw = Meta.adel k st.raw) : RawSub data st' := by
  intro f
  cases hr with
  | inl e => rw [e]; exact h f
  | inr e =>
    rw [e, aget_adel]
    by_cases hk : f.rawName = k
    · simp [hk]
    · simp only [hk, if_false]; exact h f

theorem aget_map_ofVal (k : Str) (data : Meta.Dict) :
    Meta.aget k (data.map fun p => (p.1, ofVal p.2)) = (Meta.aget k data).map ofVal := by
  induction data with
  | nil => rfl
  | cons x xs ih =>
    simp only [List.map_cons, Meta.aget, ih]
    by_cases h : x.1 = k <;> simp [h]

theorem instRel_init (data : Meta.Dict) (hnd : (data.map (·.1)).Nodup) :
    InstRel (.obj "Metadata" [("_raw", ofDict data)]) { raw := data, cache := [] } := by
  refine ⟨_, data.map (fun p => (p.1, ofVal p.2)), rfl, ?_, ?_, ?_, ?_⟩
  · simp [lookupField, ofDict, rawD, List.map_map, Function.comp_def]
  · simpa [List.map_map, Function.comp_def] using hnd
  · intro k; rw [dictLookup_rawD, aget_map_ofVal]
  · intro g
    have h1 : ("_raw" == toStringLossy g.rawName) = false := by simpa using fun e => attr_ne_raw g e.symm
    simp [lookupField, Meta.aget, h1]

/-- the hypotheses of the dispatcher lemma follow from those on the initial data -/
theorem dyn_sub (o : Meta.Oracle) (data : Meta.Dict)
    (hw : ∀ f, WellTyped f ((Meta.aget f.rawName data).getD .none))
    (hs : ∀ f, SaneOracle o f ((Meta.aget f.rawName data).getD .none))
    (hesc : ∀ f c, Meta.conv o f (Meta.aget f.rawName data) = .error (.escape c) →
      catches "InvalidMetadata" (toStringLossy c) = false)
    (k : Str) (f : Field) (inst : PyVal) (st : Meta.St)
    (hk : Meta.fieldOfRaw k = some f) (hrel : InstRel inst st) (hsub : RawSub data st) :
    match Meta.getattr o k st with
    | (.ok v, st') => ∃ inst', Gen.PySrc.Metadata.__getattr__dyn (extOf6 o) inst (.str k)
          = .ok (.tuple [viewOfField f v, inst']) ∧ InstRel inst' st'
    | (.error (.invalid n), st') => n = f.emailName ∧ st' = st ∧
        Gen.PySrc.Metadata.__getattr__dyn (extOf6 o) inst (.str k) = .error (.obj (ofInvalid f.emailName))
    | (.error (.escape c), st') => st' = st ∧ catches "InvalidMetadata" (toStringLossy c) = false ∧
        Gen.PySrc.Metadata.__getattr__dyn (extOf6 o) inst (.str k) = .error (.cls (toStringLossy c)) := by
  apply Metadata.__getattr__dyn_eq_model o k f inst st hk hrel
  · cases hsub f with
    | inl e => rw [e]; exact wellTyped_none f
    | inr e => rw [e]; exact hw f
  · cases hsub f with
    | inl e => rw [e]; exact sane_none o f
    | inr e => rw [e]; exact hs f
  · intro c hc
    cases hsub f with
    | inl e => rw [e] at hc; exact absurd hc (conv_none_escape o f c)
    | inr e => rw [e] at hc; exact hesc f c hc

theorem mvKey_eq : Meta.mvKey = ofString "metadata_version" := by decide

theorem valid_facts (s : Str) (h : validVersions.contains s = true) : (∃ a, Meta.ageOf s = some a) ∧ s.isEmpty = false := by
  simp only [validVersions, List.contains_eq_mem, List.mem_cons, List.not_mem_nil, or_false, decide_eq_true_eq] at h
  rcases h with rfl | rfl | rfl | rfl | rfl | rfl | rfl <;> exact ⟨⟨_, rfl⟩, by decide⟩

theorem prologue_ok (o : Meta.Oracle) (data : Meta.Dict) (v : Meta.Val) (st1 : Meta.St)
    (h : Meta.getattr o Meta.mvKey { raw := data, cache := [] } = (.ok v, st1)) :
    ∃ s, v = .str s ∧ validVersions.contains s = true := by
  have hf : Meta.fieldOfRaw Meta.mvKey = some .metadata_version := by decide +kernel
  simp only [Meta.getattr, Meta.aget, hf, Meta.descGet] at h
  cases hc : Meta.conv o .metadata_version (Meta.aget Field.metadata_version.rawName data) with
  | ok w =>
    rw [hc] at h
    simp only [Prod.mk.injEq, Except.ok.injEq] at h
    rw [← h.1]
    exact conv_mv_ok o _ w hc
  | error e => rw [hc] at h; simp at h

theorem mem_keys_iff_aget {β} (k : Str) (d : List (Str × β)) : k ∈ d.map (·.1) ↔ Meta.aget k d ≠ none := by
  induction d with
  | nil => simp [Meta.aget]
  | cons x xs ih =>
    by_cases h : x.1 = k
    · simp [Meta.aget, h]
    · have : ¬ k = x.1 := fun e => h e.symm
      simp [Meta.aget, h, this, ih]

theorem keys_after (data : Meta.Dict) (d1 : List (Str × PyVal)) (st1 : Meta.St)
    (hlk1 : ∀ k : Str, dictLookup (rawD d1) (.str k) = (Meta.aget k st1.raw).map ofVal)
    (hraw : st1.raw = data ∨ st1.raw = Meta.adel Meta.mvKey data) :
    ∀ x, x ≠ Meta.mvKey → (x ∈ d1.map (·.1) ↔ x ∈ Meta.akeys data) := by
  intro x hx
  have h1 := hlk1 x
  rw [dictLookup_rawD] at h1
  have h2 : Meta.aget x st1.raw = Meta.aget x data := by
    cases hraw with
    | inl e => rw [e]
    | inr e => rw [e, aget_adel, if_neg hx]
  rw [mem_keys_iff_aget, Meta.akeys, mem_keys_iff_aget, h1, h2]
  cases Meta.aget x data <;> simp

theorem diff_req (ks : List Str) :
    set_diff_plain (PyRx.mkSet "frozenset" ((ks ++ requiredAttrs.filter (fun r => !ks.contains r)).map .str))
      (PyRx.mkSet "set" [.str (ofString "metadata_version")]) = .ok (PyRx.mkSet "frozenset" ((keyList ks).map .str)) :=
  diff_mv _

theorem catchesX_invalid (x : Str) : catchesX "InvalidMetadata" (.obj (ofInvalid x)) = true := by
  simp [catchesX, excClass, ofInvalid, className, catches]
@[simp] theorem excValue_obj (v : PyVal) : excValue (.obj v) = v := by rfl
theorem catchesX_cls (h c : PyExc) : catchesX h (.cls c) = catches h c := by rfl

theorem continue_run {σ α : Type} (s : σ) : (ContinueT.continue : ContinueT (StateT σ MX) α) s = .ok (none, s) := by rfl
theorem optT_run_pure {σ α : Type} (a : α) (s : σ) : (OptionT.run (pure a) : StateT σ MX (Option α)) s = .ok (some a, s) := by rfl
theorem runK_none {α β : Type} (k1 : Unit → β) (k2 : α → β) : Continue.runK (none : Option α) k1 k2 = k1 () := by rfl
theorem runK_some {α β : Type} (a : α) (k1 : Unit → β) (k2 : α → β) : Continue.runK (some a) k1 k2 = k2 a := by rfl
theorem isinstance_none : isinstance .none ["_Validator"] = false := by rfl
theorem isinstance_validator (f : Field) : isinstance (validatorOf f) ["_Validator"] = true := by rfl
theorem getattr_added (f : Field) : getattr (validatorOf f) "added" = .ok (.str f.added) := by rfl
theorem liftM_err {α} (e : PyExc) : (liftM (Except.error e : M α) : MX α) = .error (.cls e) := by rfl
theorem bound_obj (c : String) (fs) : bound (.obj c fs) = .ok (.obj c fs) := by rfl
theorem bound_int (i : Int) : bound (.int i) = .ok (.int i) := by rfl
theorem valueError_str : toStringLossy (ofString "ValueError") = valueError := by decide
theorem catches_valueError : catches "InvalidMetadata" valueError = false := by decide

/-- the source's `(metadata_version, metadata_age)` against the model's `age` -/
def AgeRel (mv ma : PyVal) : Option Nat → Prop
  | none => truthy mv = false
  | some a => truthy mv = true ∧ ma = .int a

/-! ### `from_raw` -/

/-- how an outcome of the model appears as the result of the translated function -/
def OutcomeRel (r : MX PyVal) : Meta.Outcome → Prop
  | .ok st => ∃ inst, r = .ok inst ∧ InstRel inst st
  | .group errs => r = .error (.obj (ofGroup errs))
  | .raised c => r = .error (.cls (toStringLossy c))

theorem Metadata.from_raw_eq_model (o : Meta.Oracle) (data : Meta.Dict) (validate : Bool)
    (hnd : (data.map (·.1)).Nodup)
    (hw : ∀ f, WellTyped f ((Meta.aget f.rawName data).getD .none))
    (hs : ∀ f, SaneOracle o f ((Meta.aget f.rawName data).getD .none))
    (hesc : ∀ f c, Meta.conv o f (Meta.aget f.rawName data) = .error (.escape c) →
      catches "InvalidMetadata" (toStringLossy c) = false) :
    OutcomeRel (Gen.PySrc.Metadata.from_raw (extOf6 o) (ofDict data) (.bool validate))
      (Meta.fromRaw o (ksOf data) data validate) := by
  have hrel0 := instRel_init data hnd
  have hsub0 : RawSub data { raw := data, cache := [] } := fun f => Or.inr rfl
  have hdyn := dyn_sub o data hw hs hesc Meta.mvKey .metadata_version _ _ (by decide +kernel) hrel0 hsub0
  have hraw1 := getattr_raw o Meta.mvKey { raw := data, cache := [] }
  have hpok := prologue_ok o data
  unfold Gen.PySrc.Metadata.from_raw Meta.fromRaw
  cases validate with
  | false =>
    simp only [ofDict, dict_copy, setattr, setField, pure_ok, liftM_ok, okX_bind, truthy_bool, Bool.false_eq_true, if_false,
      pureX_ok, Bool.not_false, if_true, OutcomeRel]
    exact ⟨_, rfl, hrel0⟩
  | true =>
    simp only [dict_copy, setattr, setField, pure_ok, liftM_ok, okX_bind, truthy_bool, if_true, Bool.not_true,
      Bool.false_eq_true, if_false, ofDict]
    simp only [ofDict] at hdyn
    generalize hT : (tryCatch _ _ : MX (Unit × PyVal × PyVal × PyVal × PyVal)) = T
    have hpro : match Meta.prologue o { raw := data, cache := [] } with
        | .error c => T = .error (.cls (toStringLossy c))
        | .ok (age, errs0, st1) => ∃ mv ma ins1, T = .ok ((), .list (errs0.map ofInvalid), mv, ma, ins1) ∧
            InstRel ins1 st1 ∧ RawSub data st1 ∧ AgeRel mv ma age ∧ (st1.raw = data ∨ st1.raw = Meta.adel Meta.mvKey data) := by
      rw [← hT]
      simp only [Meta.prologue]
      generalize hg : Meta.getattr o Meta.mvKey { raw := data, cache := [] } = r at hdyn hraw1 hpok ⊢
      rw [mvKey_eq] at hdyn
      obtain ⟨r1, st1⟩ := r
      have hsub1 := rawSub_of_raw data _ st1 _ hsub0 hraw1
      cases r1 with
      | error e =>
        cases e with
        | invalid n =>
          simp only at hdyn
          obtain ⟨hn, hst, hd⟩ := hdyn
          simp only [hd, errX_bind, tryCatchX_err', tryCatchX_err, catchesX_invalid, if_true, excValue_obj, list_append_list,
            liftM_ok, okX_bind, pureX_ok, List.nil_append]
          subst hn hst
          exact ⟨_, _, _, rfl, hrel0, hsub0, rfl, Or.inl rfl⟩
        | escape c =>
          simp only at hdyn
          obtain ⟨hst, hcc, hd⟩ := hdyn
          simp only [hd, errX_bind, tryCatchX_err', tryCatchX_err, catchesX_cls, hcc, Bool.false_eq_true, if_false, throwX_err]
      | ok v =>
        obtain ⟨s, rfl, hsv⟩ := hpok v st1 rfl
        obtain ⟨⟨a, ha⟩, hne⟩ := valid_facts s hsv
        simp only at hdyn
        obtain ⟨inst1, hd1, hrel1⟩ := hdyn
        have hview : viewOfField .metadata_version (.str s) = .str s := by rfl
        simp only [hd1, okX_bind, getitem_tuple_zero, getitem_tuple_one, liftM_ok, hview, list_index_valid, ha, pureX_ok,
          tryCatchX_ok, tryCatchX_ok']
        exact ⟨_, _, _, rfl, hrel1, hsub1, ⟨by simp [hne], rfl⟩, hraw1⟩
    clear hT hdyn hraw1 hpok
    cases hP : Meta.prologue o { raw := data, cache := [] } with
    | error c =>
      rw [hP] at hpro
      simp only [hpro, errX_bind, OutcomeRel]
    | ok res =>
      obtain ⟨age, errs0, st1⟩ := res
      rw [hP] at hpro
      obtain ⟨mv, ma, ins1, hTe, hrel1, hsub1, hage, hraw1⟩ := hpro
      obtain ⟨fs1, d1, rfl, hlr1, hnd1, hlk1, hc1⟩ := id hrel1
      have hga : getattr (.obj "Metadata" fs1) "_raw" = .ok (.dict (rawD d1)) := by simp [getattr, hlr1]
      have hks : sortBy strLe (keyList (d1.map (·.1))) = ksOf data :=
        ReqL.sortStr_perm_invariant (keyList_perm _ _ hnd1 hnd (keys_after data d1 st1 hlk1 hraw1))
      simp only [hTe, okX_bind, hga, liftM_ok, set_of_keys_rawD, union_req, diff_req, mf_sorted_strs, iterate_list, hks]
      refine loop_sim_k o age (ksOf data)
        (fun s st errs => ∃ v e fmv fa fld ins, s = (.list (errs.map ofInvalid), v, e, fmv, fa, fld, ins) ∧
          InstRel ins st ∧ RawSub data st) _ _ (fun r => OutcomeRel r _) ?_ _ st1 errs0
        ⟨_, _, _, _, _, _, rfl, hrel1, hsub1⟩ ?_
      · -- one key
        intro key s st errs hR
        obtain ⟨v, e, fmv, fa, fld, ins, rfl, hrel, hsub⟩ := hR
        simp only [Meta.checkKey]
        cases hf : Meta.fieldOfRaw key with
        | none =>
          simp only [class_dict_get_unknown key hf, liftM_ok, okX_bind, isinstance_none, Bool.not_false, if_true,
            InvalidMetadata.__init___eq_model, list_append_list, continue_run, tryCatchX_ok', tryCatchX_ok, runK_none, pureX_ok]
          simp only [List.map_append, List.map_cons, List.map_nil]
          exact ⟨_, rfl, _, _, _, _, _, _, rfl, hrel, hsub⟩
        | some f =>
          have hdyn := dyn_sub o data hw hs hesc key f ins st hf hrel hsub
          have hraw := getattr_raw o key st
          generalize Meta.getattr o key st = r at hdyn hraw
          obtain ⟨r1, st'⟩ := r
          simp only at hraw
          simp only [class_dict_get_field key f hf, liftM_ok, okX_bind, isinstance_validator, Bool.not_true, Bool.false_eq_true,
            if_false]
          cases age with
          | none =>
            simp only [AgeRel] at hage
            simp only [hage, Bool.false_eq_true, if_false]
            cases r1 with
            | ok w =>
              simp only at hdyn ⊢
              obtain ⟨inst', hd, hrel'⟩ := hdyn
              simp only [hd, okX_bind, getitem_tuple_one, liftM_ok, optT_run_pure, tryCatchX_ok', tryCatchX_ok, pureX_ok]
              exact ⟨_, rfl, _, _, _, _, _, _, rfl, hrel', rawSub_of_raw data st st' key hsub hraw⟩
            | error ee =>
              cases ee with
              | invalid n =>
                simp only at hdyn ⊢
                obtain ⟨hn, hst, hd⟩ := hdyn
                subst hn hst
                simp only [hd, errX_bind, tryCatchX_err', tryCatchX_err, catchesX_invalid, if_true, excValue_obj, list_append_list,
                  liftM_ok, okX_bind, pureX_ok, optT_run_pure, bound_obj, List.map_append, List.map_cons, List.map_nil]
                exact ⟨_, rfl, _, _, _, _, _, _, rfl, hrel, hsub⟩
              | escape c =>
                simp only at hdyn ⊢
                obtain ⟨hst, hcc, hd⟩ := hdyn
                simp only [hd, errX_bind, tryCatchX_err', tryCatchX_err, catchesX_cls, hcc, Bool.false_eq_true, if_false, throwX_err]
          | some a =>
            obtain ⟨hmv, rfl⟩ := hage
            simp only [hmv, if_true, getattr_added, liftM_ok, okX_bind, list_index_valid]
            cases hfa : Meta.ageOf f.added with
            | none =>
              simp only [liftM_err, errX_bind, tryCatchX_err', tryCatchX_err, catchesX_cls, catches_valueError, Bool.false_eq_true,
                if_false, throwX_err, valueError_str]
            | some fa' =>
              simp only [liftM_ok, okX_bind, bound_int, cmp_gt_nat, decide_eq_true_eq]
              by_cases hgt : fa' > a
              · simp only [hgt, if_true]
                generalize hcd : const_dict_getitem _ (PyVal.str key) = cd
                have hcd' : cd = .ok (.str f.emailName) := by
                  rw [← hcd]
                  have hkf := fieldOfRaw_some key f hf
                  subst hkf
                  cases f <;> rfl
                subst hcd'
                simp only [liftM_ok, okX_bind, InvalidMetadata.__init___eq_model, list_append_list, continue_run, tryCatchX_ok',
                  tryCatchX_ok, pureX_ok, List.map_append, List.map_cons, List.map_nil]
                exact ⟨_, rfl, _, _, _, _, _, _, rfl, hrel, hsub⟩
              · simp only [hgt, if_false]
                cases r1 with
            | ok w =>
              simp only at hdyn ⊢
              obtain ⟨inst', hd, hrel'⟩ := hdyn
              simp only [hd, okX_bind, getitem_tuple_one, liftM_ok, optT_run_pure, tryCatchX_ok', tryCatchX_ok, pureX_ok]
              exact ⟨_, rfl, _, _, _, _, _, _, rfl, hrel', rawSub_of_raw data st st' key hsub hraw⟩
            | error ee =>
              cases ee with
              | invalid n =>
                simp only at hdyn ⊢
                obtain ⟨hn, hst, hd⟩ := hdyn
                subst hn hst
                simp only [hd, errX_bind, tryCatchX_err', tryCatchX_err, catchesX_invalid, if_true, excValue_obj, list_append_list,
                  liftM_ok, okX_bind, pureX_ok, optT_run_pure, bound_obj, List.map_append, List.map_cons, List.map_nil]
                exact ⟨_, rfl, _, _, _, _, _, _, rfl, hrel, hsub⟩
              | escape c =>
                simp only at hdyn ⊢
                obtain ⟨hst, hcc, hd⟩ := hdyn
                simp only [hd, errX_bind, tryCatchX_err', tryCatchX_err, catchesX_cls, hcc, Bool.false_eq_true, if_false, throwX_err]
      · cases hL : Meta.loop o age (ksOf data) st1 errs0 with
        | error c => simp only [OutcomeRel]
        | ok res =>
          obtain ⟨st', errs'⟩ := res
          simp only
          intro s' hs'
          obtain ⟨v, e, fmv, fa, fld, ins, rfl, hrel', _⟩ := hs'
          cases errs' with
          | nil =>
            simp only [List.map_nil, truthy_list, List.isEmpty_nil, Bool.not_true, Bool.false_eq_true, if_false, pureX_ok,
              OutcomeRel]
            exact ⟨_, rfl, hrel'⟩
          | cons x xs =>
            simp only [List.map_cons, truthy_list, List.isEmpty_cons, Bool.not_false, if_true, exception_group, pure_ok,
              Bool.false_eq_true, if_false, liftM_ok, okX_bind, raise_obj_err, errX_bind, OutcomeRel, ofGroup]

/-! ### `from_email` -/

/-- two oracles that differ at most in what `parse_email` answers -/
def AgreeButParse (e1 e2 : PyRt.Oracle) : Prop := ∀ name args, name ≠ "parse_email" → e1 name args = e2 name args

namespace FromP

theorem _process_name_congr (e1 e2 : PyRt.Oracle) (h : AgreeButParse e1 e2) (self v : PyVal) :
    Gen.PySrc._Validator._process_name e1 self v = Gen.PySrc._Validator._process_name e2 self v := by
  have c0 : ∀ args, ext_call e1 "utils.canonicalize_name" args = ext_call e2 "utils.canonicalize_name" args := fun args => h _ args (by decide)
  have c1 : ∀ args, ext_call e1 "version_module.parse" args = ext_call e2 "version_module.parse" args := fun args => h _ args (by decide)
  have c2 : ∀ args, ext_call e1 "specifiers.SpecifierSet" args = ext_call e2 "specifiers.SpecifierSet" args := fun args => h _ args (by decide)
  have c3 : ∀ args, ext_call e1 "requirements.Requirement" args = ext_call e2 "requirements.Requirement" args := fun args => h _ args (by decide)
  have c4 : ∀ args, ext_call e1 "licenses.canonicalize_license_expression" args = ext_call e2 "licenses.canonicalize_license_expression" args := fun args => h _ args (by decide)
  have c5 : ∀ args, ext_call e1 "str.lower" args = ext_call e2 "str.lower" args := fun args => h _ args (by decide)
  have c6 : ∀ args, ext_call e1 "pathlib.PurePosixPath" args = ext_call e2 "pathlib.PurePosixPath" args := fun args => h _ args (by decide)
  have c7 : ∀ args, ext_call e1 "pathlib.PureWindowsPath" args = ext_call e2 "pathlib.PureWindowsPath" args := fun args => h _ args (by decide)
  have c8 : ∀ args, ext_call e1 "PurePosixPath.is_absolute" args = ext_call e2 "PurePosixPath.is_absolute" args := fun args => h _ args (by decide)
  have c9 : ∀ args, ext_call e1 "PureWindowsPath.is_absolute" args = ext_call e2 "PureWindowsPath.is_absolute" args := fun args => h _ args (by decide)
  have c10 : ∀ args, ext_call e1 "PureWindowsPath.as_posix" args = ext_call e2 "PureWindowsPath.as_posix" args := fun args => h _ args (by decide)
  have c11 : ∀ args, ext_call e1 "EmailMessage.set_content_type" args = ext_call e2 "EmailMessage.set_content_type" args := fun args => h _ args (by decide)
  unfold Gen.PySrc._Validator._process_name
  simp only [c0, c1, c2, c3, c4, c5, c6, c7, c8, c9, c10, c11]

theorem _process_version_congr (e1 e2 : PyRt.Oracle) (h : AgreeButParse e1 e2) (self v : PyVal) :
    Gen.PySrc._Validator._process_version e1 self v = Gen.PySrc._Validator._process_version e2 self v := by
  have c0 : ∀ args, ext_call e1 "utils.canonicalize_name" args = ext_call e2 "utils.canonicalize_name" args := fun args => h _ args (by decide)
  have c1 : ∀ args, ext_call e1 "version_module.parse" args = ext_call e2 "version_module.parse" args := fun args => h _ args (by decide)
  have c2 : ∀ args, ext_call e1 "specifiers.SpecifierSet" args = ext_call e2 "specifiers.SpecifierSet" args := fun args => h _ args (by decide)
  have c3 : ∀ args, ext_call e1 "requirements.Requirement" args = ext_call e2 "requirements.Requirement" args := fun args => h _ args (by decide)
  have c4 : ∀ args, ext_call e1 "licenses.canonicalize_license_expression" args = ext_call e2 "licenses.canonicalize_license_expression" args := fun args => h _ args (by decide)
  have c5 : ∀ args, ext_call e1 "str.lower" args = ext_call e2 "str.lower" args := fun args => h _ args (by decide)
  have c6 : ∀ args, ext_call e1 "pathlib.PurePosixPath" args = ext_call e2 "pathlib.PurePosixPath" args := fun args => h _ args (by decide)
  have c7 : ∀ args, ext_call e1 "pathlib.PureWindowsPath" args = ext_call e2 "pathlib.PureWindowsPath" args := fun args => h _ args (by decide)
  have c8 : ∀ args, ext_call e1 "PurePosixPath.is_absolute" args = ext_call e2 "PurePosixPath.is_absolute" args := fun args => h _ args (by decide)
  have c9 : ∀ args, ext_call e1 "PureWindowsPath.is_absolute" args = ext_call e2 "PureWindowsPath.is_absolute" args := fun args => h _ args (by decide)
  have c10 : ∀ args, ext_call e1 "PureWindowsPath.as_posix" args = ext_call e2 "PureWindowsPath.as_posix" args := fun args => h _ args (by decide)
  have c11 : ∀ args, ext_call e1 "EmailMessage.set_content_type" args = ext_call e2 "EmailMessage.set_content_type" args := fun args => h _ args (by decide)
  unfold Gen.PySrc._Validator._process_version
  simp only [c0, c1, c2, c3, c4, c5, c6, c7, c8, c9, c10, c11]

theorem _process_dynamic_congr (e1 e2 : PyRt.Oracle) (h : AgreeButParse e1 e2) (self v : PyVal) :
    Gen.PySrc._Validator._process_dynamic e1 self v = Gen.PySrc._Validator._process_dynamic e2 self v := by
  have c0 : ∀ args, ext_call e1 "utils.canonicalize_name" args = ext_call e2 "utils.canonicalize_name" args := fun args => h _ args (by decide)
  have c1 : ∀ args, ext_call e1 "version_module.parse" args = ext_call e2 "version_module.parse" args := fun args => h _ args (by decide)
  have c2 : ∀ args, ext_call e1 "specifiers.SpecifierSet" args = ext_call e2 "specifiers.SpecifierSet" args := fun args => h _ args (by decide)
  have c3 : ∀ args, ext_call e1 "requirements.Requirement" args = ext_call e2 "requirements.Requirement" args := fun args => h _ args (by decide)
  have c4 : ∀ args, ext_call e1 "licenses.canonicalize_license_expression" args = ext_call e2 "licenses.canonicalize_license_expression" args := fun args => h _ args (by decide)
  have c5 : ∀ args, ext_call e1 "str.lower" args = ext_call e2 "str.lower" args := fun args => h _ args (by decide)
  have c6 : ∀ args, ext_call e1 "pathlib.PurePosixPath" args = ext_call e2 "pathlib.PurePosixPath" args := fun args => h _ args (by decide)
  have c7 : ∀ args, ext_call e1 "pathlib.PureWindowsPath" args = ext_call e2 "pathlib.PureWindowsPath" args := fun args => h _ args (by decide)
  have c8 : ∀ args, ext_call e1 "PurePosixPath.is_absolute" args = ext_call e2 "PurePosixPath.is_absolute" args := fun args => h _ args (by decide)
  have c9 : ∀ args, ext_call e1 "PureWindowsPath.is_absolute" args = ext_call e2 "PureWindowsPath.is_absolute" args := fun args => h _ args (by decide)
  have c10 : ∀ args, ext_call e1 "PureWindowsPath.as_posix" args = ext_call e2 "PureWindowsPath.as_posix" args := fun args => h _ args (by decide)
  have c11 : ∀ args, ext_call e1 "EmailMessage.set_content_type" args = ext_call e2 "EmailMessage.set_content_type" args := fun args => h _ args (by decide)
  unfold Gen.PySrc._Validator._process_dynamic
  simp only [c0, c1, c2, c3, c4, c5, c6, c7, c8, c9, c10, c11]

theorem _process_provides_extra_congr (e1 e2 : PyRt.Oracle) (h : AgreeButParse e1 e2) (self v : PyVal) :
    Gen.PySrc._Validator._process_provides_extra e1 self v = Gen.PySrc._Validator._process_provides_extra e2 self v := by
  have c0 : ∀ args, ext_call e1 "utils.canonicalize_name" args = ext_call e2 "utils.canonicalize_name" args := fun args => h _ args (by decide)
  have c1 : ∀ args, ext_call e1 "version_module.parse" args = ext_call e2 "version_module.parse" args := fun args => h _ args (by decide)
  have c2 : ∀ args, ext_call e1 "specifiers.SpecifierSet" args = ext_call e2 "specifiers.SpecifierSet" args := fun args => h _ args (by decide)
  have c3 : ∀ args, ext_call e1 "requirements.Requirement" args = ext_call e2 "requirements.Requirement" args := fun args => h _ args (by decide)
  have c4 : ∀ args, ext_call e1 "licenses.canonicalize_license_expression" args = ext_call e2 "licenses.canonicalize_license_expression" args := fun args => h _ args (by decide)
  have c5 : ∀ args, ext_call e1 "str.lower" args = ext_call e2 "str.lower" args := fun args => h _ args (by decide)
  have c6 : ∀ args, ext_call e1 "pathlib.PurePosixPath" args = ext_call e2 "pathlib.PurePosixPath" args := fun args => h _ args (by decide)
  have c7 : ∀ args, ext_call e1 "pathlib.PureWindowsPath" args = ext_call e2 "pathlib.PureWindowsPath" args := fun args => h _ args (by decide)
  have c8 : ∀ args, ext_call e1 "PurePosixPath.is_absolute" args = ext_call e2 "PurePosixPath.is_absolute" args := fun args => h _ args (by decide)
  have c9 : ∀ args, ext_call e1 "PureWindowsPath.is_absolute" args = ext_call e2 "PureWindowsPath.is_absolute" args := fun args => h _ args (by decide)
  have c10 : ∀ args, ext_call e1 "PureWindowsPath.as_posix" args = ext_call e2 "PureWindowsPath.as_posix" args := fun args => h _ args (by decide)
  have c11 : ∀ args, ext_call e1 "EmailMessage.set_content_type" args = ext_call e2 "EmailMessage.set_content_type" args := fun args => h _ args (by decide)
  unfold Gen.PySrc._Validator._process_provides_extra
  simp only [c0, c1, c2, c3, c4, c5, c6, c7, c8, c9, c10, c11]

theorem _process_requires_python_congr (e1 e2 : PyRt.Oracle) (h : AgreeButParse e1 e2) (self v : PyVal) :
    Gen.PySrc._Validator._process_requires_python e1 self v = Gen.PySrc._Validator._process_requires_python e2 self v := by
  have c0 : ∀ args, ext_call e1 "utils.canonicalize_name" args = ext_call e2 "utils.canonicalize_name" args := fun args => h _ args (by decide)
  have c1 : ∀ args, ext_call e1 "version_module.parse" args = ext_call e2 "version_module.parse" args := fun args => h _ args (by decide)
  have c2 : ∀ args, ext_call e1 "specifiers.SpecifierSet" args = ext_call e2 "specifiers.SpecifierSet" args := fun args => h _ args (by decide)
  have c3 : ∀ args, ext_call e1 "requirements.Requirement" args = ext_call e2 "requirements.Requirement" args := fun args => h _ args (by decide)
  have c4 : ∀ args, ext_call e1 "licenses.canonicalize_license_expression" args = ext_call e2 "licenses.canonicalize_license_expression" args := fun args => h _ args (by decide)
  have c5 : ∀ args, ext_call e1 "str.lower" args = ext_call e2 "str.lower" args := fun args => h _ args (by decide)
  have c6 : ∀ args, ext_call e1 "pathlib.PurePosixPath" args = ext_call e2 "pathlib.PurePosixPath" args := fun args => h _ args (by decide)
  have c7 : ∀ args, ext_call e1 "pathlib.PureWindowsPath" args = ext_call e2 "pathlib.PureWindowsPath" args := fun args => h _ args (by decide)
  have c8 : ∀ args, ext_call e1 "PurePosixPath.is_absolute" args = ext_call e2 "PurePosixPath.is_absolute" args := fun args => h _ args (by decide)
  have c9 : ∀ args, ext_call e1 "PureWindowsPath.is_absolute" args = ext_call e2 "PureWindowsPath.is_absolute" args := fun args => h _ args (by decide)
  have c10 : ∀ args, ext_call e1 "PureWindowsPath.as_posix" args = ext_call e2 "PureWindowsPath.as_posix" args := fun args => h _ args (by decide)
  have c11 : ∀ args, ext_call e1 "EmailMessage.set_content_type" args = ext_call e2 "EmailMessage.set_content_type" args := fun args => h _ args (by decide)
  unfold Gen.PySrc._Validator._process_requires_python
  simp only [c0, c1, c2, c3, c4, c5, c6, c7, c8, c9, c10, c11]

theorem _process_requires_dist_congr (e1 e2 : PyRt.Oracle) (h : AgreeButParse e1 e2) (self v : PyVal) :
    Gen.PySrc._Validator._process_requires_dist e1 self v = Gen.PySrc._Validator._process_requires_dist e2 self v := by
  have c0 : ∀ args, ext_call e1 "utils.canonicalize_name" args = ext_call e2 "utils.canonicalize_name" args := fun args => h _ args (by decide)
  have c1 : ∀ args, ext_call e1 "version_module.parse" args = ext_call e2 "version_module.parse" args := fun args => h _ args (by decide)
  have c2 : ∀ args, ext_call e1 "specifiers.SpecifierSet" args = ext_call e2 "specifiers.SpecifierSet" args := fun args => h _ args (by decide)
  have c3 : ∀ args, ext_call e1 "requirements.Requirement" args = ext_call e2 "requirements.Requirement" args := fun args => h _ args (by decide)
  have c4 : ∀ args, ext_call e1 "licenses.canonicalize_license_expression" args = ext_call e2 "licenses.canonicalize_license_expression" args := fun args => h _ args (by decide)
  have c5 : ∀ args, ext_call e1 "str.lower" args = ext_call e2 "str.lower" args := fun args => h _ args (by decide)
  have c6 : ∀ args, ext_call e1 "pathlib.PurePosixPath" args = ext_call e2 "pathlib.PurePosixPath" args := fun args => h _ args (by decide)
  have c7 : ∀ args, ext_call e1 "pathlib.PureWindowsPath" args = ext_call e2 "pathlib.PureWindowsPath" args := fun args => h _ args (by decide)
  have c8 : ∀ args, ext_call e1 "PurePosixPath.is_absolute" args = ext_call e2 "PurePosixPath.is_absolute" args := fun args => h _ args (by decide)
  have c9 : ∀ args, ext_call e1 "PureWindowsPath.is_absolute" args = ext_call e2 "PureWindowsPath.is_absolute" args := fun args => h _ args (by decide)
  have c10 : ∀ args, ext_call e1 "PureWindowsPath.as_posix" args = ext_call e2 "PureWindowsPath.as_posix" args := fun args => h _ args (by decide)
  have c11 : ∀ args, ext_call e1 "EmailMessage.set_content_type" args = ext_call e2 "EmailMessage.set_content_type" args := fun args => h _ args (by decide)
  unfold Gen.PySrc._Validator._process_requires_dist
  simp only [c0, c1, c2, c3, c4, c5, c6, c7, c8, c9, c10, c11]

theorem _process_license_expression_congr (e1 e2 : PyRt.Oracle) (h : AgreeButParse e1 e2) (self v : PyVal) :
    Gen.PySrc._Validator._process_license_expression e1 self v = Gen.PySrc._Validator._process_license_expression e2 self v := by
  have c0 : ∀ args, ext_call e1 "utils.canonicalize_name" args = ext_call e2 "utils.canonicalize_name" args := fun args => h _ args (by decide)
  have c1 : ∀ args, ext_call e1 "version_module.parse" args = ext_call e2 "version_module.parse" args := fun args => h _ args (by decide)
  have c2 : ∀ args, ext_call e1 "specifiers.SpecifierSet" args = ext_call e2 "specifiers.SpecifierSet" args := fun args => h _ args (by decide)
  have c3 : ∀ args, ext_call e1 "requirements.Requirement" args = ext_call e2 "requirements.Requirement" args := fun args => h _ args (by decide)
  have c4 : ∀ args, ext_call e1 "licenses.canonicalize_license_expression" args = ext_call e2 "licenses.canonicalize_license_expression" args := fun args => h _ args (by decide)
  have c5 : ∀ args, ext_call e1 "str.lower" args = ext_call e2 "str.lower" args := fun args => h _ args (by decide)
  have c6 : ∀ args, ext_call e1 "pathlib.PurePosixPath" args = ext_call e2 "pathlib.PurePosixPath" args := fun args => h _ args (by decide)
  have c7 : ∀ args, ext_call e1 "pathlib.PureWindowsPath" args = ext_call e2 "pathlib.PureWindowsPath" args := fun args => h _ args (by decide)
  have c8 : ∀ args, ext_call e1 "PurePosixPath.is_absolute" args = ext_call e2 "PurePosixPath.is_absolute" args := fun args => h _ args (by decide)
  have c9 : ∀ args, ext_call e1 "PureWindowsPath.is_absolute" args = ext_call e2 "PureWindowsPath.is_absolute" args := fun args => h _ args (by decide)
  have c10 : ∀ args, ext_call e1 "PureWindowsPath.as_posix" args = ext_call e2 "PureWindowsPath.as_posix" args := fun args => h _ args (by decide)
  have c11 : ∀ args, ext_call e1 "EmailMessage.set_content_type" args = ext_call e2 "EmailMessage.set_content_type" args := fun args => h _ args (by decide)
  unfold Gen.PySrc._Validator._process_license_expression
  simp only [c0, c1, c2, c3, c4, c5, c6, c7, c8, c9, c10, c11]

theorem _process_license_files_congr (e1 e2 : PyRt.Oracle) (h : AgreeButParse e1 e2) (self v : PyVal) :
    Gen.PySrc._Validator._process_license_files e1 self v = Gen.PySrc._Validator._process_license_files e2 self v := by
  have c0 : ∀ args, ext_call e1 "utils.canonicalize_name" args = ext_call e2 "utils.canonicalize_name" args := fun args => h _ args (by decide)
  have c1 : ∀ args, ext_call e1 "version_module.parse" args = ext_call e2 "version_module.parse" args := fun args => h _ args (by decide)
  have c2 : ∀ args, ext_call e1 "specifiers.SpecifierSet" args = ext_call e2 "specifiers.SpecifierSet" args := fun args => h _ args (by decide)
  have c3 : ∀ args, ext_call e1 "requirements.Requirement" args = ext_call e2 "requirements.Requirement" args := fun args => h _ args (by decide)
  have c4 : ∀ args, ext_call e1 "licenses.canonicalize_license_expression" args = ext_call e2 "licenses.canonicalize_license_expression" args := fun args => h _ args (by decide)
  have c5 : ∀ args, ext_call e1 "str.lower" args = ext_call e2 "str.lower" args := fun args => h _ args (by decide)
  have c6 : ∀ args, ext_call e1 "pathlib.PurePosixPath" args = ext_call e2 "pathlib.PurePosixPath" args := fun args => h _ args (by decide)
  have c7 : ∀ args, ext_call e1 "pathlib.PureWindowsPath" args = ext_call e2 "pathlib.PureWindowsPath" args := fun args => h _ args (by decide)
  have c8 : ∀ args, ext_call e1 "PurePosixPath.is_absolute" args = ext_call e2 "PurePosixPath.is_absolute" args := fun args => h _ args (by decide)
  have c9 : ∀ args, ext_call e1 "PureWindowsPath.is_absolute" args = ext_call e2 "PureWindowsPath.is_absolute" args := fun args => h _ args (by decide)
  have c10 : ∀ args, ext_call e1 "PureWindowsPath.as_posix" args = ext_call e2 "PureWindowsPath.as_posix" args := fun args => h _ args (by decide)
  have c11 : ∀ args, ext_call e1 "EmailMessage.set_content_type" args = ext_call e2 "EmailMessage.set_content_type" args := fun args => h _ args (by decide)
  unfold Gen.PySrc._Validator._process_license_files
  simp only [c0, c1, c2, c3, c4, c5, c6, c7, c8, c9, c10, c11]

theorem _process_description_content_type_congr (e1 e2 : PyRt.Oracle) (h : AgreeButParse e1 e2) (self v : PyVal) :
    Gen.PySrc._Validator._process_description_content_type e1 self v = Gen.PySrc._Validator._process_description_content_type e2 self v := by
  have c0 : ∀ args, ext_call e1 "utils.canonicalize_name" args = ext_call e2 "utils.canonicalize_name" args := fun args => h _ args (by decide)
  have c1 : ∀ args, ext_call e1 "version_module.parse" args = ext_call e2 "version_module.parse" args := fun args => h _ args (by decide)
  have c2 : ∀ args, ext_call e1 "specifiers.SpecifierSet" args = ext_call e2 "specifiers.SpecifierSet" args := fun args => h _ args (by decide)
  have c3 : ∀ args, ext_call e1 "requirements.Requirement" args = ext_call e2 "requirements.Requirement" args := fun args => h _ args (by decide)
  have c4 : ∀ args, ext_call e1 "licenses.canonicalize_license_expression" args = ext_call e2 "licenses.canonicalize_license_expression" args := fun args => h _ args (by decide)
  have c5 : ∀ args, ext_call e1 "str.lower" args = ext_call e2 "str.lower" args := fun args => h _ args (by decide)
  have c6 : ∀ args, ext_call e1 "pathlib.PurePosixPath" args = ext_call e2 "pathlib.PurePosixPath" args := fun args => h _ args (by decide)
  have c7 : ∀ args, ext_call e1 "pathlib.PureWindowsPath" args = ext_call e2 "pathlib.PureWindowsPath" args := fun args => h _ args (by decide)
  have c8 : ∀ args, ext_call e1 "PurePosixPath.is_absolute" args = ext_call e2 "PurePosixPath.is_absolute" args := fun args => h _ args (by decide)
  have c9 : ∀ args, ext_call e1 "PureWindowsPath.is_absolute" args = ext_call e2 "PureWindowsPath.is_absolute" args := fun args => h _ args (by decide)
  have c10 : ∀ args, ext_call e1 "PureWindowsPath.as_posix" args = ext_call e2 "PureWindowsPath.as_posix" args := fun args => h _ args (by decide)
  have c11 : ∀ args, ext_call e1 "EmailMessage.set_content_type" args = ext_call e2 "EmailMessage.set_content_type" args := fun args => h _ args (by decide)
  unfold Gen.PySrc._Validator._process_description_content_type
  simp only [c0, c1, c2, c3, c4, c5, c6, c7, c8, c9, c10, c11]

theorem _process__dyn_congr (e1 e2 : PyRt.Oracle) (h : AgreeButParse e1 e2) (self v : PyVal) :
    Gen.PySrc._Validator._process__dyn e1 self v = Gen.PySrc._Validator._process__dyn e2 self v := by
  unfold Gen.PySrc._Validator._process__dyn
  simp only [_process_name_congr e1 e2 h, _process_version_congr e1 e2 h, _process_dynamic_congr e1 e2 h, _process_provides_extra_congr e1 e2 h, _process_requires_python_congr e1 e2 h, _process_requires_dist_congr e1 e2 h, _process_license_expression_congr e1 e2 h, _process_license_files_congr e1 e2 h, _process_description_content_type_congr e1 e2 h]

theorem __get___congr (e1 e2 : PyRt.Oracle) (h : AgreeButParse e1 e2) (self i ow : PyVal) :
    Gen.PySrc._Validator.__get__ e1 self i ow = Gen.PySrc._Validator.__get__ e2 self i ow := by
  unfold Gen.PySrc._Validator.__get__
  simp only [_process__dyn_congr e1 e2 h]

theorem __getattr__dyn_congr (e1 e2 : PyRt.Oracle) (h : AgreeButParse e1 e2) (i k : PyVal) :
    Gen.PySrc.Metadata.__getattr__dyn e1 i k = Gen.PySrc.Metadata.__getattr__dyn e2 i k := by
  unfold Gen.PySrc.Metadata.__getattr__dyn
  simp only [__get___congr e1 e2 h]

theorem from_raw_congr (e1 e2 : PyRt.Oracle) (h : AgreeButParse e1 e2) (d v : PyVal) :
    Gen.PySrc.Metadata.from_raw e1 d v = Gen.PySrc.Metadata.from_raw e2 d v := by
  unfold Gen.PySrc.Metadata.from_raw
  simp only [__getattr__dyn_congr e1 e2 h]

theorem forIn_append_sim (ks : List Str) (f : PyVal → PyVal → MX (ForInStep PyVal))
    (hstep : ∀ k acc, f (.str k) (.list acc) = .ok (.yield (.list (acc ++ [ofInvalid k])))) (acc : List PyVal) :
    forIn (ks.map PyVal.str) (PyVal.list acc) f = .ok (.list (acc ++ ks.map ofInvalid)) := by
  induction ks generalizing acc with
  | nil => simp
  | cons k ks ih => simp only [List.map_cons, List.forIn_cons, hstep, okX_bind, ih, List.append_assoc, List.cons_append, List.nil_append]

theorem mf_unpack2_tuple (a b : PyVal) : unpack2 (.tuple [a, b]) = .ok (a, b) := by rfl
theorem dict_keys_dict (kvs : List (PyVal × PyVal)) : dict_keys (.dict kvs) = .ok (.iter (kvs.map (·.1))) := by rfl
theorem dict_contains_str (kvs : List (PyVal × PyVal)) (k : Str) :
    dict_contains (.dict kvs) (.str k) = .ok (dictLookup kvs (.str k)).isSome := by rfl
theorem getattr_group (l : List PyVal) : getattr (.obj "ExceptionGroup" [("exceptions", .tuple l)]) "exceptions" = .ok (.tuple l) := by rfl
theorem catchesX_group (l : List PyVal) : catchesX "ExceptionGroup" (.obj (.obj "ExceptionGroup" [("exceptions", .tuple l)])) = true := by
  simp [catchesX, excClass, className, catches]

end FromP

theorem fromRaw_group_ne (o : Meta.Oracle) (ks : List Str) (data : Meta.Dict) (v : Bool) (errs : List Str)
    (h : Meta.fromRaw o ks data v = .group errs) : errs ≠ [] := by
  unfold Meta.fromRaw at h
  dsimp only at h
  split at h
  · simp at h
  · split at h
    · simp at h
    · split at h <;> simp at h
      rw [← h]; simp

theorem Metadata.from_email_eq_model (o : Meta.Oracle) (ext : PyRt.Oracle) (d : PyVal) (raw : Meta.Dict)
    (unparsedKeys : List Str) (ukvs : List (PyVal × PyVal)) (validate : Bool)
    (hext : AgreeButParse ext (extOf6 o))
    (hparse : ext "parse_email" [d] = .ok (.tuple [ofDict raw, .dict ukvs]))
    (hkeys : ukvs.map (·.1) = unparsedKeys.map .str)
    (hnd : (raw.map (·.1)).Nodup)
    (hw : ∀ f, WellTyped f ((Meta.aget f.rawName raw).getD .none))
    (hs : ∀ f, SaneOracle o f ((Meta.aget f.rawName raw).getD .none))
    (hesc : ∀ f c, Meta.conv o f (Meta.aget f.rawName raw) = .error (.escape c) →
      catches "InvalidMetadata" (toStringLossy c) = false)
    (hgrp : ∀ c, Meta.fromRaw o (ksOf raw) raw validate = .raised c → catches "ExceptionGroup" (toStringLossy c) = false) :
    OutcomeRel (Gen.PySrc.Metadata.from_email ext d (.bool validate))
      (Meta.fromEmail o (ksOf raw) raw unparsedKeys validate) := by
  have hmain := Metadata.from_raw_eq_model o raw validate hnd hw hs hesc
  have hne := fromRaw_group_ne o (ksOf raw) raw validate
  unfold Gen.PySrc.Metadata.from_email Meta.fromEmail
  simp only [ext_call, hparse, liftM_ok, okX_bind, mf_unpack2_tuple, from_raw_congr ext (extOf6 o) hext, truthy_bool]
  generalize Gen.PySrc.Metadata.from_raw (extOf6 o) (ofDict raw) (.bool validate) = r at hmain ⊢
  generalize Meta.fromRaw o (ksOf raw) raw validate = out at hmain hgrp hne ⊢
  cases validate with
  | false =>
    simp only [Bool.false_eq_true, if_false, Bool.false_and]
    cases out with
    | ok st =>
      obtain ⟨inst, rfl, hrel⟩ := hmain
      exact ⟨inst, by rfl, hrel⟩
    | group errs =>
      simp only [OutcomeRel] at hmain ⊢
      subst hmain
      cases errs with
      | nil => exact absurd rfl (hne [] rfl)
      | cons x xs =>
        simp only [ofGroup, errX_bind, tryCatchX_err', tryCatchX_err, catchesX_group, if_true, excValue_obj, getattr_group,
          liftM_ok, okX_bind, exception_group, List.map_cons, List.isEmpty_cons, Bool.false_eq_true, if_false, pure_ok,
          raise_obj_err]
    | raised c =>
      simp only [OutcomeRel] at hmain ⊢
      subst hmain
      simp only [errX_bind, tryCatchX_err', tryCatchX_err, catchesX_cls, hgrp c rfl, Bool.false_eq_true, if_false, throwX_err]
  | true =>
    simp only [if_true, Bool.true_and, dict_keys_dict, hkeys, liftM_ok, okX_bind, iterate_iter]
    rw [forIn_append_sim]
    · cases unparsedKeys with
      | nil =>
        simp only [List.map_nil, List.append_nil, truthy_list, List.isEmpty_nil, Bool.not_true, Bool.false_eq_true, if_false,
          okX_bind]
        cases out with
        | ok st =>
          obtain ⟨inst, rfl, hrel⟩ := hmain
          exact ⟨inst, by rfl, hrel⟩
        | group errs =>
          simp only [OutcomeRel] at hmain ⊢
          subst hmain
          cases errs with
          | nil => exact absurd rfl (hne [] rfl)
          | cons x xs =>
            simp only [ofGroup, errX_bind, tryCatchX_err', tryCatchX_err, catchesX_group, if_true, excValue_obj, getattr_group,
              liftM_ok, okX_bind, exception_group, List.map_cons, List.isEmpty_cons, Bool.false_eq_true, if_false, pure_ok,
              raise_obj_err]
        | raised c =>
          simp only [OutcomeRel] at hmain ⊢
          subst hmain
          simp only [errX_bind, tryCatchX_err', tryCatchX_err, catchesX_cls, hgrp c rfl, Bool.false_eq_true, if_false, throwX_err]
      | cons u us =>
        simp only [List.map_cons, List.nil_append, truthy_list, List.isEmpty_cons, Bool.not_false, if_true, okX_bind,
          exception_group, Bool.false_eq_true, if_false, pure_ok, liftM_ok, raise_obj_err, errX_bind, OutcomeRel, ofGroup]
    · intro k acc
      simp only [dict_contains_str, liftM_ok, okX_bind, ite_self, InvalidMetadata.__init___eq_model, list_append_list,
        pureX_ok, ofInvalid]

/-! ### non-vacuity -/

def data0 : Meta.Dict :=
  [(ofString "metadata_version", .str (ofString "2.1")), (ofString "name", .str (ofString "foo")),
   (ofString "version", .str (ofString "1.0"))]

theorem data0_nodup : (data0.map (·.1)).Nodup := by decide

theorem data0_wt : ∀ f, WellTyped f ((Meta.aget f.rawName data0).getD .none) := by
  intro f; cases f <;> exact True.intro

theorem data0_sane : ∀ f, SaneOracle idOracle f ((Meta.aget f.rawName data0).getD .none) := by
  intro f
  cases f <;> first
    | exact True.intro
    | (show ∀ cls, _ = _ → _; intro cls h; exact absurd h (by simp [idOracle]))

theorem data0_conv (f : Field) : ∃ v, Meta.conv idOracle f (Meta.aget f.rawName data0) = .ok v := by
  cases f <;> exact ⟨_, rfl⟩

theorem data0_esc : ∀ f c, Meta.conv idOracle f (Meta.aget f.rawName data0) = .error (.escape c) →
    catches "InvalidMetadata" (toStringLossy c) = false := by
  intro f c h
  obtain ⟨v, hv⟩ := data0_conv f
  rw [hv] at h
  cases h

theorem data0_outcome : Meta.fromRaw idOracle (ksOf data0) data0 true =
    .ok { raw := [], cache := [(ofString "version", .str (ofString "1.0")), (ofString "name", .str (ofString "foo")),
                               (ofString "metadata_version", .str (ofString "2.1"))] } := by rfl

/-- the hypotheses of `Metadata.from_raw_eq_model` hold for a small complete record, and the theorem then says: -/
example : ∃ inst, Gen.PySrc.Metadata.from_raw (extOf6 idOracle) (ofDict data0) (.bool true) = .ok inst ∧
    InstRel inst { raw := [], cache := [(ofString "version", .str (ofString "1.0")), (ofString "name", .str (ofString "foo")),
                                        (ofString "metadata_version", .str (ofString "2.1"))] } := by
  have := Metadata.from_raw_eq_model idOracle data0 true data0_nodup data0_wt data0_sane data0_esc
  rw [data0_outcome] at this
  exact this

/-- a record without `name`: the group of one `InvalidMetadata("name")` -/
example : Gen.PySrc.Metadata.from_raw (extOf6 idOracle)
      (ofDict [(ofString "metadata_version", .str (ofString "2.1")), (ofString "version", .str (ofString "1.0"))]) (.bool true)
    = .error (.obj (ofGroup [ofString "name"])) := by
  have := Metadata.from_raw_eq_model idOracle
    [(ofString "metadata_version", .str (ofString "2.1")), (ofString "version", .str (ofString "1.0"))] true (by decide)
    (by intro f; cases f <;> exact True.intro)
    (by intro f
        cases f <;> first
          | exact True.intro
          | (show ∀ cls, _ = _ → _; intro cls h; exact absurd h (by simp [idOracle])))
    (by intro f c h
        have : ∃ e, Meta.conv idOracle f (Meta.aget f.rawName
            [(ofString "metadata_version", .str (ofString "2.1")), (ofString "version", .str (ofString "1.0"))]) = e ∧
            ∀ c, e ≠ .error (.escape c) := by
          cases f <;> exact ⟨_, rfl, fun c h => by cases h⟩
        obtain ⟨e, he, hne⟩ := this
        rw [he] at h
        exact absurd h (hne c))
  exact this

/-- an oracle for `from_email`: `parse_email(d)` answers `(raw, unparsed)` -/
def extEmail (o : Meta.Oracle) (raw : Meta.Dict) (ukvs : List (PyVal × PyVal)) : PyRt.Oracle := fun name args =>
  if name == "parse_email" then .ok (.tuple [ofDict raw, .dict ukvs]) else extOf6 o name args

theorem extEmail_agree (o : Meta.Oracle) (raw : Meta.Dict) (ukvs : List (PyVal × PyVal)) :
    AgreeButParse (extEmail o raw ukvs) (extOf6 o) := by
  intro name args h
  simp [extEmail, h]

/-- the hypotheses of `Metadata.from_email_eq_model` hold (no unparsed keys): the instance -/
example : ∃ inst, Gen.PySrc.Metadata.from_email (extEmail idOracle data0 []) (.str []) (.bool true) = .ok inst ∧
    InstRel inst { raw := [], cache := [(ofString "version", .str (ofString "1.0")), (ofString "name", .str (ofString "foo")),
                                        (ofString "metadata_version", .str (ofString "2.1"))] } := by
  have := Metadata.from_email_eq_model idOracle (extEmail idOracle data0 []) (.str []) data0 [] [] true
    (extEmail_agree _ _ _) rfl rfl data0_nodup data0_wt data0_sane data0_esc
    (by intro c h; rw [data0_outcome] at h; cases h)
  simp only [Meta.fromEmail, List.isEmpty_nil, Bool.not_true, Bool.and_false, Bool.false_eq_true, if_false, data0_outcome] at this
  exact this

/-- … and with an unparsed key the group names it, whatever `raw` is -/
example : Gen.PySrc.Metadata.from_email (extEmail idOracle data0 [(.str (ofString "x-unknown"), .list [])]) (.str []) (.bool true)
    = .error (.obj (ofGroup [ofString "x-unknown"])) := by
  have := Metadata.from_email_eq_model idOracle (extEmail idOracle data0 [(.str (ofString "x-unknown"), .list [])]) (.str []) data0
    [ofString "x-unknown"] _ true (extEmail_agree _ _ _) rfl rfl data0_nodup data0_wt data0_sane data0_esc
    (by intro c h; rw [data0_outcome] at h; cases h)
  exact this

/-! ### why `hesc` and `hgrp`

The model keeps "`InvalidMetadata` raised by the converter" (`Exc.invalid`) and "a component parser let *some* class escape"
(`Exc.escape cls`) apart even when `cls` is `InvalidMetadata` itself; Python's `except InvalidMetadata` (and the translated code)
cannot.  `SaneOracle` does not exclude such an oracle, so the hypothesis is stated. -/

def oBad : Meta.Oracle := { idOracle with name := fun _ => .esc (ofString "InvalidMetadata") }

example : (∀ f, SaneOracle oBad f ((Meta.aget f.rawName data0).getD .none)) ∧
    Meta.fromRaw oBad (ksOf data0) data0 true = .raised (ofString "InvalidMetadata") ∧
    Gen.PySrc.Metadata.from_raw (extOf6 oBad) (ofDict data0) (.bool true) = .error (.obj (ofGroup [ofString "name"])) := by
  refine ⟨?_, by rfl, by rfl⟩
  intro f
  cases f <;> first
    | exact True.intro
    | (show ∀ cls, _ = _ → _; intro cls h
       first | (simp [oBad, idOracle] at h; subst h; decide) | (simp [oBad, idOracle] at h))

/-- `hgrp`: a legacy exception of class `ExceptionGroup` escaping from `from_raw` has no `.exceptions` to re-wrap -/
def oBadG : Meta.Oracle := { idOracle with name := fun _ => .esc (ofString "ExceptionGroup") }

example : Meta.fromEmail oBadG (ksOf data0) data0 [] true = .raised (ofString "ExceptionGroup") ∧
    Gen.PySrc.Metadata.from_email (extEmail oBadG data0 []) (.str []) (.bool true) = .error (.cls "AttributeError") := by
  exact ⟨by rfl, by rfl⟩

end Src
