import PkgModel.Generated.PySrc
import PkgModel.PyObj
import PkgProofs.Lemmas.PyRt
import PkgProofs.Lemmas.SrcRobust
import PkgProofs.Lemmas.SrcLoops
/-!
# Translated source of `packaging.version._cmpkey` = `V.cmpkey`
-/
namespace Src
open PyRt Py V

theorem _cmpkey_translated : Gen.PySrc._cmpkey_supported = true := rfl

theorem eq_zero_ofNat (n : Nat) : PyVal.eq (ofNat n) (.int 0) = (n == 0) := by
  simp only [ofNat, eq_int]
  cases n with
  | zero => rfl
  | succ k => simp; omega

/-- the trailing-zero strip: `itertools.dropwhile(lambda x: x == 0, reversed(release))` -/
theorem dropwhile_zero (r : List Nat) :
    dropwhile (fun x => do pure (PyRt.eq x (PyVal.int 0))) (.iter (r.map ofNat).reverse) =
      .ok (.iter ((r.reverse.dropWhile (· == 0)).map ofNat)) := by
  rw [dropwhile_iter _ (fun v => PyVal.eq v (.int 0))]
  · simp only [← List.map_reverse, List.dropWhile_map]
    congr 4
    funext n
    exact eq_zero_ofNat n
  · intro x _; rfl

theorem local_key (l : List LSeg) :
    genexp (fun i => if PyRt.isinstance i ["int"] = true then Except.ok (PyVal.tuple [i, PyVal.str (Py.ofString "")])
          else Except.ok (PyVal.tuple [PyVal.negInf, i]))
        (.tuple (l.map ofLSeg)) = .ok (.iter (l.map ofKSeg)) := by
  rw [genexp_ok _ (fun i => if PyRt.isinstance i ["int"] then PyVal.tuple [i, .str []] else .tuple [.negInf, i]) _ _ (by rfl)]
  · simp only [List.map_map]
    congr 2
    apply List.map_congr_left
    intro s _
    cases s <;> simp [ofLSeg, ofKSeg, isinstance, className]
  · intro x _
    split <;> simp [ofString]

theorem fuelOf_succ' (l : List PyVal) : fuelOf l = (4 * sizeL l + 15) + 1 := by simp [fuelOf]

/-! ### trailing zeros by an index loop walking back from the end -/

/-- the loop test `k > 0 and r[k - 1] == 0` on the index -/
def tzC (r : List Nat) : PyVal → Bool
  | .int (Int.ofNat (j + 1)) => r.getD j 1 == 0
  | _ => false
def tzS : PyVal → PyVal
  | .int k => .int (k - 1)
  | x => x
def tzM : PyVal → Nat
  | .int k => k.toNat
  | _ => 0
def tzI (r : List Nat) (s : PyVal) : Prop := ∃ k : Nat, k ≤ r.length ∧ s = .int k

theorem tzC_zero (r : List Nat) : tzC r (.int ((0 : Nat) : Int)) = false := by rfl
theorem tzC_succ (r : List Nat) (k : Nat) : tzC r (.int ((k + 1 : Nat) : Int)) = (r.getD k 1 == 0) := by rfl
theorem tzS_succ (k : Nat) : tzS (.int ((k + 1 : Nat) : Int)) = .int ((k : Nat) : Int) := by
  simp only [tzS]; congr 1; omega

theorem dropTrailingZeros_snoc_zero (l : List Nat) : dropTrailingZeros (l ++ [0]) = dropTrailingZeros l := by
  simp [dropTrailingZeros]
theorem dropTrailingZeros_snoc_nz (l : List Nat) (x : Nat) (h : x ≠ 0) : dropTrailingZeros (l ++ [x]) = l ++ [x] := by
  simp [dropTrailingZeros, h]

theorem tz_end (r : List Nat) : ∀ (n k : Nat), k ≤ n → k ≤ r.length →
    ∃ j : Nat, whileEnd (tzC r) tzS n (.int ((k : Nat) : Int)) = .int ((j : Nat) : Int) ∧ r.take j = dropTrailingZeros (r.take k) := by
  intro n
  induction n with
  | zero => intro k hk _; have : k = 0 := by omega
            subst this; exact ⟨0, rfl, by simp [dropTrailingZeros]⟩
  | succ n ih =>
    intro k hk hlen
    cases k with
    | zero => exact ⟨0, by simp only [whileEnd, tzC_zero]; rfl, by simp [dropTrailingZeros]⟩
    | succ k =>
      have hk' : k < r.length := by omega
      have htake : r.take (k + 1) = r.take k ++ [r[k]] := by
        rw [List.take_add_one]; simp [List.getElem?_eq_getElem hk']
      have hget : r.getD k 1 = r[k] := by simp [List.getD_eq_getElem?_getD, List.getElem?_eq_getElem hk']
      by_cases hz : r[k] = 0
      · have hc : tzC r (.int ((k + 1 : Nat) : Int)) = true := by rw [tzC_succ, hget, hz]; rfl
        obtain ⟨j, h1, h2⟩ := ih k (by omega) (by omega)
        refine ⟨j, ?_, ?_⟩
        · simp only [whileEnd, hc, if_true, tzS_succ]; exact h1
        · rw [h2, htake, hz, dropTrailingZeros_snoc_zero]
      · have hc : tzC r (.int ((k + 1 : Nat) : Int)) = false := by
          rw [tzC_succ, hget]; simpa using hz
        refine ⟨k + 1, by simp only [whileEnd, hc]; rfl, ?_⟩
        rw [htake, dropTrailingZeros_snoc_nz _ _ hz]


theorem getitem_tuple_nat (l : List PyVal) (i : Nat) (h : i < l.length) :
    getitem (.tuple l) (.int i) = .ok (l.getD i .none) := by
  simp [getitem, asInt, normIndex, h]


/-- `_cmpkey(epoch, release, pre, post, dev, local)` on the fields of a `_Version` builds the model's key.
Two ways of stripping the trailing zeros of the release are accepted: the `reversed`/`dropwhile` pipeline, and an index `while`
loop walking back from the end (read through `PyRt.while_fuel`, which only asks what one iteration computes). -/
theorem _cmpkey_eq_model (v : Ver) :
    Gen.PySrc._cmpkey (.int v.epoch) (ofRelease v.release) (ofOptPre v.pre) (ofTagged (ofString "post") v.post)
        (ofTagged (ofString "dev") v.dev) (ofLocal v.loc) = .ok (ofKey (cmpkey v)) := by
  first
  | (
      unfold Gen.PySrc._cmpkey
      simp only [ofRelease, reversed_tuple, ok_bind, dropwhile_zero, list_iter, reversed_list, tuple_iter, List.map_reverse]
      rcases v with ⟨epoch, release, pre, post, dev, loc⟩
      cases pre <;> cases post <;> cases dev <;> cases loc <;>
        simp [ofOptPre, ofTagged, ofLocal, ofKey, cmpkey, ofExt, ofPre, local_key, ofRelease, dropTrailingZeros]
      done
    )
  | (
      unfold Gen.PySrc._cmpkey
      rw [fuelOf_succ']
      unfold Gen.PySrc._cmpkey__fuel
      simp only [ofRelease, len_tuple, ok_bind, List.length_map]
      rw [(while_fuel _ (tzC v.release) tzS (tzI v.release) tzM ?hstop ?hgo ?hI ?hμ (List.range _) (.int v.release.length) ?hinit ?hlen).1]
      case hstop =>
        intro i s d hs hc
        obtain ⟨k, hk, rfl⟩ := hs
        cases k with
        | zero => simp [gt, cmp, asInt, Cmp.onInt]
        | succ j =>
          obtain ⟨x, hx⟩ : ∃ x, v.release[j]? = some x := ⟨v.release[j], List.getElem?_eq_getElem (by omega)⟩
          have hj : j < (v.release.map ofNat).length := by simp; omega
          rw [tzC_succ] at hc
          simp only [List.getD_eq_getElem?_getD, hx, Option.getD_some] at hc
          have hx0 : ¬ x = 0 := by simpa using hc
          simp [gt, cmp, asInt, Cmp.onInt, sub_int, getitem_tuple_nat _ _ hj, PyRt.eq, hx, ofNat, hx0]
      case hgo =>
        intro i s d hs hc
        obtain ⟨k, hk, rfl⟩ := hs
        cases k with
        | zero => exact absurd hc (by simp [tzC])
        | succ j =>
          obtain ⟨x, hx⟩ : ∃ x, v.release[j]? = some x := ⟨v.release[j], List.getElem?_eq_getElem (by omega)⟩
          have hj : j < (v.release.map ofNat).length := by simp; omega
          rw [tzC_succ] at hc
          simp only [List.getD_eq_getElem?_getD, hx, Option.getD_some] at hc
          have hx0 : x = 0 := by simpa using hc
          simp [gt, cmp, asInt, Cmp.onInt, sub_int, getitem_tuple_nat _ _ hj, PyRt.eq, hx, ofNat, hx0, tzS]
      case hI =>
        intro s hs hc
        obtain ⟨k, hk, rfl⟩ := hs
        cases k with
        | zero => exact absurd hc (by simp [tzC])
        | succ j => exact ⟨j, by omega, tzS_succ j⟩
      case hμ =>
        intro s hs hc
        obtain ⟨k, hk, rfl⟩ := hs
        cases k with
        | zero => exact absurd hc (by simp [tzC])
        | succ j => rw [tzS_succ]; simp [tzM]
      case hinit => exact ⟨_, Nat.le_refl _, rfl⟩
      case hlen =>
        simp only [tzM, Int.toNat_natCast, List.length_range, sizeL, size, List.length_map]
        have : sizeL (v.release.map ofNat) = v.release.length := by
          induction v.release with
          | nil => rfl
          | cons a as ih => simp [sizeL, size, ofNat, ih]; omega
        omega
      obtain ⟨j, hj1, hj2⟩ := tz_end v.release v.release.length v.release.length (Nat.le_refl _) (Nat.le_refl _)
      simp only [tzM, Int.toNat_natCast, hj1, ok_bind, Bool.not_true, Bool.false_eq_true, if_false, getslice_tuple_to, tuple_tuple,
        ← List.map_take, hj2, List.take_length]
      rcases v with ⟨epoch, release, pre, post, dev, loc⟩
      cases pre <;> cases post <;> cases dev <;> cases loc <;>
        simp [ofOptPre, ofTagged, ofLocal, ofKey, cmpkey, ofExt, ofPre, local_key, ofRelease]
    )

end Src
