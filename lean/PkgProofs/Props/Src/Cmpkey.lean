import PkgModel.Generated.PySrc
import PkgModel.PyObj
import PkgProofs.Lemmas.PyRt
import PkgProofs.Lemmas.SrcRobust
import PkgProofs.Lemmas.SrcLoops
import PkgProofs.Lemmas.SrcTrailing
/-!
# Translated source of `packaging.version._cmpkey` = `V.cmpkey`
-/
namespace Src
open PyRt Py V

theorem _cmpkey_translated : Gen.PySrc._cmpkey_supported = true := rfl

theorem eq_zero_ofNat (n : Nat) : PyVal.eq (ofNat n) (.int 0) = (n == 0) := by
  simp only [ofNat, eq_int]
  cases n with
  | zero => rfl
  | succ k => simp; omega

/-- the trailing-zero strip: `itertools.dropwhile(lambda x: x == 0, reversed(release))` -/
theorem dropwhile_zero (r : List Nat) :
    dropwhile (fun x => do pure (PyRt.eq x (PyVal.int 0))) (.iter (r.map ofNat).reverse) =
      .ok (.iter ((r.reverse.dropWhile (· == 0)).map ofNat)) := by
  rw [dropwhile_iter _ (fun v => PyVal.eq v (.int 0))]
  · simp only [← List.map_reverse, List.dropWhile_map]
    congr 4
    funext n
    exact eq_zero_ofNat n
  · intro x _; rfl

theorem local_key (l : List LSeg) :
    genexp (fun i => if PyRt.isinstance i ["int"] = true then Except.ok (PyVal.tuple [i, PyVal.str (Py.ofString "")])
          else Except.ok (PyVal.tuple [PyVal.negInf, i]))
        (.tuple (l.map ofLSeg)) = .ok (.iter (l.map ofKSeg)) := by
  rw [genexp_ok _ (fun i => if PyRt.isinstance i ["int"] then PyVal.tuple [i, .str []] else .tuple [.negInf, i]) _ _ (by rfl)]
  · simp only [List.map_map]
    congr 2
    apply List.map_congr_left
    intro s _
    cases s <;> simp [ofLSeg, ofKSeg, isinstance, className]
  · intro x _
    split <;> simp [ofString]

/-- `_cmpkey(epoch, release, pre, post, dev, local)` on the fields of a `_Version` builds the model's key.
Two ways of stripping the trailing zeros of the release are accepted: the `reversed`/`dropwhile` pipeline, and an index `while`
loop walking back from the end (read through `PyRt.while_fuel`, which only asks what one iteration computes). -/
theorem _cmpkey_eq_model (v : Ver) :
    Gen.PySrc._cmpkey (.int v.epoch) (ofRelease v.release) (ofOptPre v.pre) (ofTagged (ofString "post") v.post)
        (ofTagged (ofString "dev") v.dev) (ofLocal v.loc) = .ok (ofKey (cmpkey v)) := by
  first
  | (
      unfold Gen.PySrc._cmpkey
      simp only [ofRelease, reversed_tuple, ok_bind, dropwhile_zero, list_iter, reversed_list, tuple_iter, List.map_reverse]
      rcases v with ⟨epoch, release, pre, post, dev, loc⟩
      cases pre <;> cases post <;> cases dev <;> cases loc <;>
        simp [ofOptPre, ofTagged, ofLocal, ofKey, cmpkey, ofExt, ofPre, local_key, ofRelease, dropTrailingZeros]
      done
    )
  | (
      unfold Gen.PySrc._cmpkey
      rw [fuelOf_succ']
      unfold Gen.PySrc._cmpkey__fuel
      simp only [ofRelease, len_tuple, ok_bind, List.length_map]
      rw [(while_fuel _ (tzC v.release) tzS (tzI v.release) tzM ?hstop ?hgo ?hI ?hμ (List.range _) (.int v.release.length) ?hinit ?hlen).1]
      case hstop =>
        intro i s d hs hc
        obtain ⟨k, hk, rfl⟩ := hs
        cases k with
        | zero => simp [gt, cmp, asInt, Cmp.onInt]
        | succ j =>
          obtain ⟨x, hx⟩ : ∃ x, v.release[j]? = some x := ⟨v.release[j], List.getElem?_eq_getElem (by omega)⟩
          have hj : j < (v.release.map ofNat).length := by simp; omega
          rw [tzC_succ] at hc
          simp only [List.getD_eq_getElem?_getD, hx, Option.getD_some] at hc
          have hx0 : ¬ x = 0 := by simpa using hc
          simp [gt, cmp, asInt, Cmp.onInt, sub_int, getitem_tuple_nat _ _ hj, PyRt.eq, hx, ofNat, hx0]
      case hgo =>
        intro i s d hs hc
        obtain ⟨k, hk, rfl⟩ := hs
        cases k with
        | zero => exact absurd hc (by simp [tzC])
        | succ j =>
          obtain ⟨x, hx⟩ : ∃ x, v.release[j]? = some x := ⟨v.release[j], List.getElem?_eq_getElem (by omega)⟩
          have hj : j < (v.release.map ofNat).length := by simp; omega
          rw [tzC_succ] at hc
          simp only [List.getD_eq_getElem?_getD, hx, Option.getD_some] at hc
          have hx0 : x = 0 := by simpa using hc
          simp [gt, cmp, asInt, Cmp.onInt, sub_int, getitem_tuple_nat _ _ hj, PyRt.eq, hx, ofNat, hx0, tzS]
      case hI =>
        intro s hs hc
        obtain ⟨k, hk, rfl⟩ := hs
        cases k with
        | zero => exact absurd hc (by simp [tzC])
        | succ j => exact ⟨j, by omega, tzS_succ j⟩
      case hμ =>
        intro s hs hc
        obtain ⟨k, hk, rfl⟩ := hs
        cases k with
        | zero => exact absurd hc (by simp [tzC])
        | succ j => rw [tzS_succ]; simp [tzM]
      case hinit => exact ⟨_, Nat.le_refl _, rfl⟩
      case hlen =>
        simp only [tzM, Int.toNat_natCast, List.length_range, sizeL, size, List.length_map]
        have : sizeL (v.release.map ofNat) = v.release.length := by
          induction v.release with
          | nil => rfl
          | cons a as ih => simp [sizeL, size, ofNat, ih]; omega
        omega
      obtain ⟨j, hj1, hj2⟩ := tz_end v.release v.release.length v.release.length (Nat.le_refl _) (Nat.le_refl _)
      simp only [tzM, Int.toNat_natCast, hj1, ok_bind, Bool.not_true, Bool.false_eq_true, if_false, getslice_tuple_to, tuple_tuple,
        ← List.map_take, hj2, List.take_length]
      rcases v with ⟨epoch, release, pre, post, dev, loc⟩
      cases pre <;> cases post <;> cases dev <;> cases loc <;>
        simp [ofOptPre, ofTagged, ofLocal, ofKey, cmpkey, ofExt, ofPre, local_key, ofRelease]
    )

end Src
