import PkgModel.Generated.PySrc
import PkgModel.PyObj
import PkgProofs.Lemmas.PyRt
/-!
# Translated source of `packaging.version._cmpkey` = `V.cmpkey`
-/
namespace Src
open PyRt Py V

theorem _cmpkey_translated : Gen.PySrc._cmpkey_supported = true := rfl

theorem eq_zero_ofNat (n : Nat) : PyVal.eq (ofNat n) (.int 0) = (n == 0) := by
  simp only [ofNat, eq_int]
  cases n with
  | zero => rfl
  | succ k => simp; omega

/-- the trailing-zero strip: `itertools.dropwhile(lambda x: x == 0, reversed(release))` -/
theorem dropwhile_zero (r : List Nat) :
    dropwhile (fun x => do pure (PyRt.eq x (PyVal.int 0))) (.iter (r.map ofNat).reverse) =
      .ok (.iter ((r.reverse.dropWhile (· == 0)).map ofNat)) := by
  rw [dropwhile_iter _ (fun v => PyVal.eq v (.int 0))]
  · simp only [← List.map_reverse, List.dropWhile_map]
    congr 4
    funext n
    exact eq_zero_ofNat n
  · intro x _; rfl

theorem local_key (l : List LSeg) :
    genexp (fun i => if PyRt.isinstance i ["int"] = true then Except.ok (PyVal.tuple [i, PyVal.str (Py.ofString "")])
          else Except.ok (PyVal.tuple [PyVal.negInf, i]))
        (.tuple (l.map ofLSeg)) = .ok (.iter (l.map ofKSeg)) := by
  rw [genexp_ok _ (fun i => if PyRt.isinstance i ["int"] then PyVal.tuple [i, .str []] else .tuple [.negInf, i]) _ _ (by rfl)]
  · simp only [List.map_map]
    congr 2
    apply List.map_congr_left
    intro s _
    cases s <;> simp [ofLSeg, ofKSeg, isinstance, className]
  · intro x _
    split <;> simp [ofString]

/-- `_cmpkey(epoch, release, pre, post, dev, local)` on the fields of a `_Version` builds the model's key -/
theorem _cmpkey_eq_model (v : Ver) :
    Gen.PySrc._cmpkey (.int v.epoch) (ofRelease v.release) (ofOptPre v.pre) (ofTagged (ofString "post") v.post)
        (ofTagged (ofString "dev") v.dev) (ofLocal v.loc) = .ok (ofKey (cmpkey v)) := by
  unfold Gen.PySrc._cmpkey
  simp only [ofRelease, reversed_tuple, ok_bind, dropwhile_zero, list_iter, reversed_list, tuple_iter, List.map_reverse]
  rcases v with ⟨epoch, release, pre, post, dev, loc⟩
  cases pre <;> cases post <;> cases dev <;> cases loc <;>
    simp [ofOptPre, ofTagged, ofLocal, ofKey, cmpkey, ofExt, ofPre, local_key, ofRelease, dropTrailingZeros]

end Src
