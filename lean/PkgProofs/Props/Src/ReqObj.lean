import PkgModel.Requirement
import PkgModel.PyMarker
import PkgProofs.Props.Src.SSetMember
/-!
# How a `Req.Requirement` of the model appears as a Python `Requirement` object (shared by the `Src.Requirement.*` theorems)
-/
namespace Src
open PyRt Py

/-- the `SpecifierSet` a requirement holds: members without an override, no override on the set -/
def ofReqSpec (ms : List S.Spec) : SSet.SpecSet := ⟨ms.map fun sp => (sp, none), none⟩

/-- a `Requirement` instance; attributes in the order `__init__` sets them -/
def ofReq (r : Req.Requirement) : PyVal :=
  .obj "Requirement" [("name", .str r.name), ("url", ofOptStr r.url), ("extras", PyRx.mkSet "set" (r.extras.map .str)),
    ("specifier", ofSSet (ofReqSpec r.spec)),
    ("marker", match r.marker with | none => .none | some m => PyMk.ofMarker m)]

@[simp] theorem getattr_req_name (r : Req.Requirement) : getattr (ofReq r) "name" = .ok (.str r.name) := by rfl
@[simp] theorem getattr_req_url (r : Req.Requirement) : getattr (ofReq r) "url" = .ok (ofOptStr r.url) := by rfl
@[simp] theorem getattr_req_extras (r : Req.Requirement) :
    getattr (ofReq r) "extras" = .ok (PyRx.mkSet "set" (r.extras.map .str)) := by rfl
@[simp] theorem getattr_req_specifier (r : Req.Requirement) :
    getattr (ofReq r) "specifier" = .ok (ofSSet (ofReqSpec r.spec)) := by rfl
@[simp] theorem getattr_req_marker (r : Req.Requirement) :
    getattr (ofReq r) "marker" = .ok (match r.marker with | none => .none | some m => PyMk.ofMarker m) := by rfl
@[simp] theorem className_ofReq (r : Req.Requirement) : className (ofReq r) = "Requirement" := by rfl

end Src
