import PkgProofs.Props.Src.Metadata
import PkgProofs.Props.Src.X7Payload
import PkgProofs.Lemmas.Assoc
import PkgProofs.Lemmas.ReqBasic
import PkgModel.PyX9
/-!
# Translated source of `packaging.metadata.parse_email` = the model's `Email.parseEmail` (x9)

`Gen.PySrc.parse_email ext data` is the Lean translation of the current Python source.  The standard-library parser is an
oracle call whose answer is a message value (`obj "Message" …`, see `PkgModel/PyX7.lean`); `MsgRel` says which `Email.Doc`
such a value presents.  The two result dicts are compared with the model's association lists through look-ups
(`DictRel`, `UnparsedRel`): Python keeps insertion order, the model's `aset` puts a key in front, positions are not related.
-/
namespace Src
open PyRt Py PyX7 PyX9 Email Meta MetaP
set_option linter.unusedSimpArgs false
set_option linter.unusedVariables false

theorem parse_email_translated : Gen.PySrc.parse_email_supported = true := rfl
theorem _get_payload__io_translated : Gen.PySrc._get_payload__io_supported = true := rfl

/-! ## what the theorems assume: the encodings -/

/-- a header value as `get_all` presents it -/
def encHVal : HVal → PyVal
  | .str s => .str s
  | .hdr chunks => .obj "Header" [("chunks", .list (chunks.map PyElf.ofBytes))]
  | .err c => .obj "HeaderErr" [("cls", .str c)]

/-- the header list of the message: `(name, value)` in document order -/
def encHdrs (doc : Doc) : List PyVal := doc.hdrs.map fun h => .tuple [.str h.1, encHVal h.2]

/-- `get_payload()` of a message parsed from a `str`: a `str`, or something that is not a `str` (`Payload.other`) -/
def PayRelStr (v : PyVal) (p : Payload) : Prop :=
  (∃ s, p = .str s ∧ v = .str s) ∨ (p = .other ∧ isinstance v ["str"] = false)

/-- `get_payload(decode=True)` (no `Content-Transfer-Encoding` header left) of a message parsed from `bytes`: a `bytes`
object, or something that is not `bytes` (`Payload.other`) -/
def PayRelBytes (v : PyVal) (p : Payload) : Prop :=
  (∃ b, p = .bytes b ∧ v = PyElf.ofBytes b ∧ ∀ x ∈ b, x < 256) ∨ (p = .other ∧ isinstance v ["bytes"] = false)

/-- the message value `m` presents the document `doc` (`isStr`: the source was a `str`): its `headers` field is the header
list of `doc`, its `payload` (`str` source) / `decoded` (`bytes` source) field is `doc.payload` -/
def MsgRel (m : PyVal) (doc : Doc) (isStr : Bool) : Prop :=
  ∃ fs, m = .obj "Message" fs ∧ lookupField fs "headers" = some (.list (encHdrs doc)) ∧
    (if isStr then ∃ v, lookupField fs "payload" = some v ∧ PayRelStr v doc.payload
     else ∃ v, lookupField fs "decoded" = some v ∧ PayRelBytes v doc.payload)

/-- the bytes of every `Header` chunk are bytes (so that the document is the image of a real message) -/
def ChunksOK (doc : Doc) : Prop := ∀ h ∈ doc.hdrs, ∀ cs, h.2 = .hdr cs → ∀ b ∈ cs, ∀ x ∈ b, x < 256

/-- first occurrences, in order, after the members of `acc` (what `frozenset(list)` keeps: `PyRx.dedupM`) -/
def dedupAcc : List Str → List Str → List Str
  | acc, [] => acc
  | acc, x :: xs => if x ∈ acc then dedupAcc acc xs else dedupAcc (acc ++ [x]) xs

/-- the order in which the translated loop visits the header names: `sorted(frozenset(parsed.keys()))` -/
def orderOf (doc : Doc) : List Str := sortBy strLe (dedupAcc [] doc.names)

def encVal : Val → PyVal
  | .none => .none
  | .str s => .str s
  | .list l => .list (l.map .str)
  | .dict d => dictOf d

def encUVal : UVal → PyVal
  | .str s => .str s
  | .bytes b => PyElf.ofBytes b

def encUList (l : List UVal) : PyVal := .list (l.map encUVal)

/-- a Python dict with `str` keys as the image of a typed association list -/
def encKVs {β : Type} (enc : β → PyVal) (ks : List (Str × β)) : List (PyVal × PyVal) := ks.map fun p => (.str p.1, enc p.2)

/-- the items `kvs` of a Python dict and the model's association list `d` agree: `kvs` has pairwise distinct `str` keys and
values in the image of `enc` (`kvs = encKVs enc ks`, `ks` without repeated key), and every look-up gives the same answer -/
def ARel {β : Type} (enc : β → PyVal) (kvs : List (PyVal × PyVal)) (d : List (Str × β)) : Prop :=
  ∃ ks, kvs = encKVs enc ks ∧ (ks.map (·.1)).Nodup ∧ ∀ k, aget k ks = aget k d

def DictRel (kvs : List (PyVal × PyVal)) (d : Dict) : Prop := ARel encVal kvs d
def UnparsedRel (kvs : List (PyVal × PyVal)) (u : Unparsed) : Prop := ARel encUList kvs u

end Src
