import PkgProofs.Props.Src.Metadata
import PkgProofs.Props.Src.X7Payload
import PkgProofs.Lemmas.Assoc
import PkgProofs.Lemmas.ReqBasic
import PkgModel.PyX9
/-!
# Translated source of `packaging.metadata.parse_email` = the model's `Email.parseEmail` (x9)

`Gen.PySrc.parse_email ext data` is the Lean translation of the current Python source.  The standard-library parser is an
oracle call whose answer is a message value (`obj "Message" …`, see `PkgModel/PyX7.lean`); `MsgRel` says which `Email.Doc`
such a value presents.  The two result dicts are compared with the model's association lists through look-ups
(`DictRel`, `UnparsedRel`): Python keeps insertion order, the model's `aset` puts a key in front, positions are not related.
-/
namespace Src
open PyRt Py PyX7 PyX9 Email Meta MetaP
set_option linter.unusedSimpArgs false
set_option linter.unusedVariables false

theorem parse_email_translated : Gen.PySrc.parse_email_supported = true := rfl
theorem _get_payload__io_translated : Gen.PySrc._get_payload__io_supported = true := rfl

/-! ## what the theorems assume: the encodings -/

/-- a header value as `get_all` presents it -/
def encHVal : HVal → PyVal
  | .str s => .str s
  | .hdr chunks => .obj "Header" [("chunks", .list (chunks.map PyElf.ofBytes))]
  | .err c => .obj "HeaderErr" [("cls", .str c)]

/-- the header list of the message: `(name, value)` in document order -/
def encHdrs (doc : Doc) : List PyVal := doc.hdrs.map fun h => .tuple [.str h.1, encHVal h.2]

/-- `get_payload()` of a message parsed from a `str`: a `str`, or something that is not a `str` (`Payload.other`) -/
def PayRelStr (v : PyVal) (p : Payload) : Prop :=
  (∃ s, p = .str s ∧ v = .str s) ∨ (p = .other ∧ isinstance v ["str"] = false)

/-- `get_payload(decode=True)` (no `Content-Transfer-Encoding` header left) of a message parsed from `bytes`: a `bytes`
object, or something that is not `bytes` (`Payload.other`) -/
def PayRelBytes (v : PyVal) (p : Payload) : Prop :=
  (∃ b, p = .bytes b ∧ v = PyElf.ofBytes b ∧ ∀ x ∈ b, x < 256) ∨ (p = .other ∧ isinstance v ["bytes"] = false)

/-- the message value `m` presents the document `doc` (`isStr`: the source was a `str`): its `headers` field is the header
list of `doc`, its `payload` (`str` source) / `decoded` (`bytes` source) field is `doc.payload` -/
def MsgRel (m : PyVal) (doc : Doc) (isStr : Bool) : Prop :=
  ∃ fs, m = .obj "Message" fs ∧ lookupField fs "headers" = some (.list (encHdrs doc)) ∧
    (if isStr then ∃ v, lookupField fs "payload" = some v ∧ PayRelStr v doc.payload
     else ∃ v, lookupField fs "decoded" = some v ∧ PayRelBytes v doc.payload)

/-- the bytes of every `Header` chunk are bytes (so that the document is the image of a real message) -/
def ChunksOK (doc : Doc) : Prop := ∀ h ∈ doc.hdrs, ∀ cs, h.2 = .hdr cs → ∀ b ∈ cs, ∀ x ∈ b, x < 256

/-- first occurrences, in order, after the members of `acc` (what `frozenset(list)` keeps: `PyRx.dedupM`) -/
def dedupAcc : List Str → List Str → List Str
  | acc, [] => acc
  | acc, x :: xs => if x ∈ acc then dedupAcc acc xs else dedupAcc (acc ++ [x]) xs

/-- the order in which the translated loop visits the header names: `sorted(frozenset(parsed.keys()))` -/
def orderOf (doc : Doc) : List Str := sortBy strLe (dedupAcc [] doc.names)

def encVal : Val → PyVal
  | .none => .none
  | .str s => .str s
  | .list l => .list (l.map .str)
  | .dict d => dictOf d

def encUVal : UVal → PyVal
  | .str s => .str s
  | .bytes b => PyElf.ofBytes b

def encUList (l : List UVal) : PyVal := .list (l.map encUVal)

/-- a Python dict with `str` keys as the image of a typed association list -/
def encKVs {β : Type} (enc : β → PyVal) (ks : List (Str × β)) : List (PyVal × PyVal) := ks.map fun p => (.str p.1, enc p.2)

/-- the items `kvs` of a Python dict and the model's association list `d` agree: `kvs` has pairwise distinct `str` keys and
values in the image of `enc` (`kvs = encKVs enc ks`, `ks` without repeated key), and every look-up gives the same answer -/
def ARel {β : Type} (enc : β → PyVal) (kvs : List (PyVal × PyVal)) (d : List (Str × β)) : Prop :=
  ∃ ks, kvs = encKVs enc ks ∧ (ks.map (·.1)).Nodup ∧ ∀ k, aget k ks = aget k d

def DictRel (kvs : List (PyVal × PyVal)) (d : Dict) : Prop := ARel encVal kvs d
def UnparsedRel (kvs : List (PyVal × PyVal)) (u : Unparsed) : Prop := ARel encUList kvs u

/-! ## `_get_payload` with the message as state -/


def runS {α : Type} (x : SM α) (m : PyVal) : Except PyExc α × PyVal := (ExceptT.run x).run m

theorem runSM_eq (x : SM PyVal) (m : PyVal) : runSM x m = runS x m := rfl
theorem runS_bind {α β : Type} (x : SM α) (f : α → SM β) (m : PyVal) :
    runS (x >>= f) m = match runS x m with
      | (.ok a, m') => runS (f a) m'
      | (.error e, m') => (.error e, m') := by
  simp only [runS, bind, ExceptT.bind, ExceptT.run, ExceptT.mk, StateT.bind, StateT.run]
  cases h : x m with
  | mk a s => cases a <;> rfl
theorem runS_pure {α : Type} (a : α) (m : PyVal) : runS (pure a : SM α) m = (.ok a, m) := rfl
theorem runS_throw {α : Type} (e : PyExc) (m : PyVal) : runS (throw e : SM α) m = (.error e, m) := rfl
theorem runS_get (m : PyVal) : runS (get : SM PyVal) m = (.ok m, m) := rfl
theorem runS_set (v m : PyVal) : runS (set v : SM PUnit) m = (.ok ⟨⟩, v) := rfl
theorem runS_lift {α : Type} (x : M α) (m : PyVal) : runS (liftM x : SM α) m = (x, m) := rfl
theorem runS_tryCatch {α : Type} (x : SM α) (h : PyExc → SM α) (m : PyVal) :
    runS (tryCatch x h) m = match runS x m with
      | (.ok a, m') => (.ok a, m')
      | (.error e, m') => runS (h e) m' := by
  simp only [runS, tryCatch, tryCatchThe, MonadExceptOf.tryCatch, ExceptT.tryCatch, ExceptT.run, ExceptT.mk, StateT.bind, StateT.run, bind]
  cases h : x m with
  | mk a s => cases a <;> rfl

/-- the message after `del msg["content-transfer-encoding"]` -/
def delCTE (fs : List (String × PyVal)) (hs : List PyVal) : PyVal :=
  .obj "Message" (setField fs "headers" (.list (hs.filter fun x =>
    lowerStr (headerName x) != lowerStr (ofString "content-transfer-encoding"))))

theorem x9_isinstance_bytes (b : List Nat) : isinstance (PyElf.ofBytes b) ["bytes"] = true := by rfl
theorem x9_isinstance_bytes_str (b : List Nat) : isinstance (PyElf.ofBytes b) ["str"] = false := by rfl
theorem x9_isinstance_str_bytes (s : Str) : isinstance (.str s) ["bytes"] = false := by rfl

/-- `_get_payload(msg, source)` for a `str` source: the outcome of the model's `getPayload`; the message is unchanged -/
theorem _get_payload__io_eq_model_str (fs : List (String × PyVal)) (src : Str) (v : PyVal) (p : Payload)
    (hp : lookupField fs "payload" = some v) (hv : PayRelStr v p) :
    runSM (Gen.PySrc._get_payload__io (.str src)) (.obj "Message" fs) =
      ((match getPayload p with
        | .ok s => .ok (.str s)
        | .error c => .error (toStringLossy c)), .obj "Message" fs) := by
  unfold Gen.PySrc._get_payload__io
  simp only [x7_isinstance_str, truthy_bool, if_true, runSM_eq, runS_bind, runS_get, runS_lift,
    msg_get_payload, Bool.false_eq_true, if_false, getattr_obj, hp, pure_ok]
  rcases hv with ⟨s, rfl, rfl⟩ | ⟨rfl, h⟩
  · simp only [x7_isinstance_str, Bool.not_true, Bool.false_eq_true, if_false, runS_pure, getPayload]
  · simp only [h, Bool.not_false, if_true, runS_bind, runS_throw, getPayload]
    rfl

/-- `_get_payload(msg, source)` for a source that is not a `str`: the `Content-Transfer-Encoding` headers are deleted from the
message (also when the call raises), then `get_payload(decode=True)` must be `bytes`, decoded strictly as UTF-8 -/
theorem _get_payload__io_eq_model_bytes (fs : List (String × PyVal)) (hs : List PyVal) (source v : PyVal) (p : Payload)
    (hsrc : isinstance source ["str"] = false)
    (hh : lookupField fs "headers" = some (.list hs)) (hd : lookupField fs "decoded" = some v) (hv : PayRelBytes v p) :
    runSM (Gen.PySrc._get_payload__io source) (.obj "Message" fs) =
      ((match getPayload p with
        | .ok s => .ok (.str s)
        | .error c => .error (toStringLossy c)), delCTE fs hs) := by
  unfold Gen.PySrc._get_payload__io
  have hdel : msg_del (.obj "Message" fs) (.str (ofString "content-transfer-encoding")) = .ok (delCTE fs hs) := by
    simp [msg_del, msgHeaders, hh, delCTE]
  have hget : msg_get_payload (delCTE fs hs) (.bool true) = .ok v := by
    simp only [delCTE, msg_get_payload, truthy_bool, if_true, hasHeader_after_del "Message" fs hs _ hh, Bool.false_eq_true, if_false,
      getattr_obj, lookupField_setField']
    simp [hd]
  simp only [hsrc, truthy_bool, if_true, runSM_eq, runS_bind, runS_get, runS_lift, runS_set,
    Bool.false_eq_true, if_false, hdel, hget]
  rcases hv with ⟨b, rfl, rfl, hb256⟩ | ⟨rfl, h⟩
  · have hb : PyElf.bytesOf (PyElf.ofBytes b) = some b := PyElf.bytesOf_ofBytes b hb256
    simp only [x9_isinstance_bytes, Bool.not_true, Bool.false_eq_true, if_false, bytes_decode_utf8, hb, getPayload]
    cases utf8Decode b with
    | some s => rfl
    | none => rfl
  · simp only [h, Bool.not_false, if_true, runS_bind, runS_throw, getPayload]
    rfl


/-- `_get_payload(msg, source)` on a message that presents `doc`: the model's outcome, and the message afterwards -/
theorem _get_payload__io_eq_model (m data : PyVal) (doc : Doc) (isStr : Bool) (hm : MsgRel m doc isStr)
    (hdata : if isStr then ∃ s, data = .str s else ∃ b, data = PyElf.ofBytes b) :
    ∃ fs, m = .obj "Message" fs ∧ lookupField fs "headers" = some (.list (encHdrs doc)) ∧
      runSM (Gen.PySrc._get_payload__io data) m =
        ((match getPayload doc.payload with
          | .ok s => .ok (.str s)
          | .error c => .error (toStringLossy c)), if isStr then m else delCTE fs (encHdrs doc)) := by
  obtain ⟨fs, rfl, hh, hp⟩ := hm
  refine ⟨fs, rfl, hh, ?_⟩
  cases isStr with
  | true =>
    simp only [if_true] at hp hdata ⊢
    obtain ⟨v, hv, hr⟩ := hp
    obtain ⟨s, rfl⟩ := hdata
    exact _get_payload__io_eq_model_str fs s v doc.payload hv hr
  | false =>
    simp only [Bool.false_eq_true, if_false] at hp hdata ⊢
    obtain ⟨v, hv, hr⟩ := hp
    obtain ⟨b, rfl⟩ := hdata
    exact _get_payload__io_eq_model_bytes fs _ _ v doc.payload (x9_isinstance_bytes_str b) hh hv hr

/-! ## dicts with `str` keys against association lists -/

theorem dictLookup_encKVs {β : Type} (enc : β → PyVal) (ks : List (Str × β)) (k : Str) :
    dictLookup (encKVs enc ks) (.str k) = (aget k ks).map enc := by
  induction ks with
  | nil => rfl
  | cons p r ih =>
    obtain ⟨k', v⟩ := p
    simp only [encKVs, List.map_cons, dictLookup, eq_str, aget] at ih ⊢
    by_cases h : k' = k
    · simp [h]
    · have h1 : (k' == k) = false := by simpa using h
      simp [h1, h, ih]

/-- `d[k] = v` on the typed list: an existing key keeps its position, a new one goes last -/
def setK {β : Type} (k : Str) (v : β) : List (Str × β) → List (Str × β)
  | [] => [(k, v)]
  | (k', x) :: r => if k' = k then (k', v) :: r else (k', x) :: setK k v r

def eraseK {β : Type} (k : Str) : List (Str × β) → List (Str × β)
  | [] => []
  | (k', x) :: r => if k' = k then r else (k', x) :: eraseK k r

theorem dictSet_encKVs {β : Type} (enc : β → PyVal) (ks : List (Str × β)) (k : Str) (v : β) :
    dictSet (encKVs enc ks) (.str k) (enc v) = encKVs enc (setK k v ks) := by
  induction ks with
  | nil => rfl
  | cons p r ih =>
    obtain ⟨k', x⟩ := p
    simp only [encKVs, List.map_cons, dictSet, eq_str, setK] at ih ⊢
    by_cases h : k' = k
    · simp [h]
    · have h1 : (k' == k) = false := by simpa using h
      simp [h1, h, ih]

theorem dictErase_encKVs {β : Type} (enc : β → PyVal) (ks : List (Str × β)) (k : Str) :
    dictErase (encKVs enc ks) (.str k) = encKVs enc (eraseK k ks) := by
  induction ks with
  | nil => rfl
  | cons p r ih =>
    obtain ⟨k', x⟩ := p
    simp only [encKVs, List.map_cons, dictErase, eq_str, eraseK] at ih ⊢
    by_cases h : k' = k
    · simp [h]
    · have h1 : (k' == k) = false := by simpa using h
      simp [h1, h, ih]

theorem aget_setK {β : Type} (k k' : Str) (v : β) (ks : List (Str × β)) :
    aget k' (setK k v ks) = if k = k' then some v else aget k' ks := by
  induction ks with
  | nil => simp [setK, aget]
  | cons p r ih =>
    obtain ⟨k'', x⟩ := p
    simp only [setK]
    by_cases h : k'' = k
    · subst h
      by_cases h2 : k'' = k' <;> simp [aget, h2]
    · simp only [h, if_false, aget, ih]
      by_cases h2 : k'' = k'
      · have : ¬ k = k' := fun e => h (h2.trans e.symm)
        simp [h2, this]
      · simp [h2]

theorem mem_keys_setK {β : Type} (k k' : Str) (v : β) (ks : List (Str × β)) :
    k' ∈ (setK k v ks).map (·.1) ↔ k' = k ∨ k' ∈ ks.map (·.1) := by
  induction ks with
  | nil => simp [setK]
  | cons p r ih =>
    obtain ⟨k'', x⟩ := p
    simp only [setK]
    by_cases h : k'' = k
    · subst h; simp
    · simp only [h, if_false, List.map_cons, List.mem_cons, ih]
      constructor
      · rintro (h1 | h1 | h1) <;> simp [h1]
      · rintro (h1 | h1 | h1) <;> simp [h1]

theorem nodup_setK {β : Type} (k : Str) (v : β) (ks : List (Str × β)) (h : (ks.map (·.1)).Nodup) :
    ((setK k v ks).map (·.1)).Nodup := by
  induction ks with
  | nil => simp [setK]
  | cons p r ih =>
    obtain ⟨k'', x⟩ := p
    simp only [List.map_cons, List.nodup_cons] at h
    simp only [setK]
    by_cases h1 : k'' = k
    · simp only [h1, if_true, List.map_cons, List.nodup_cons]; rw [← h1]; exact h
    · simp only [h1, if_false, List.map_cons, List.nodup_cons]
      refine ⟨fun e => ?_, ih h.2⟩
      rcases (mem_keys_setK k k'' v r).mp e with e | e
      · exact h1 e
      · exact h.1 e

theorem mem_keys_eraseK {β : Type} (k k' : Str) (ks : List (Str × β)) (h : k' ∈ (eraseK k ks).map (·.1)) :
    k' ∈ ks.map (·.1) := by
  induction ks with
  | nil => simp [eraseK] at h
  | cons p r ih =>
    obtain ⟨k'', x⟩ := p
    simp only [eraseK] at h
    by_cases h1 : k'' = k
    · simp only [h1, if_true] at h; simp [h]
    · simp only [h1, if_false, List.map_cons, List.mem_cons] at h ⊢
      exact h.elim .inl (fun e => .inr (ih e))

theorem nodup_eraseK {β : Type} (k : Str) (ks : List (Str × β)) (h : (ks.map (·.1)).Nodup) :
    ((eraseK k ks).map (·.1)).Nodup := by
  induction ks with
  | nil => simp [eraseK]
  | cons p r ih =>
    obtain ⟨k'', x⟩ := p
    simp only [List.map_cons, List.nodup_cons] at h
    simp only [eraseK]
    by_cases h1 : k'' = k
    · simp only [h1, if_true]; exact h.2
    · simp only [h1, if_false, List.map_cons, List.nodup_cons]
      exact ⟨fun e => h.1 (mem_keys_eraseK k k'' r e), ih h.2⟩

theorem aget_none_of_not_mem {β : Type} (k : Str) (ks : List (Str × β)) (h : k ∉ ks.map (·.1)) : aget k ks = none := by
  induction ks with
  | nil => rfl
  | cons p r ih =>
    obtain ⟨k'', x⟩ := p
    simp only [List.map_cons, List.mem_cons, not_or] at h
    have : ¬ k'' = k := fun e => h.1 e.symm
    simp [aget, this, ih h.2]

theorem aget_eraseK {β : Type} (k k' : Str) (ks : List (Str × β)) (h : (ks.map (·.1)).Nodup) :
    aget k' (eraseK k ks) = if k = k' then none else aget k' ks := by
  induction ks with
  | nil => simp [eraseK, aget]
  | cons p r ih =>
    obtain ⟨k'', x⟩ := p
    simp only [List.map_cons, List.nodup_cons] at h
    simp only [eraseK]
    by_cases h1 : k'' = k
    · subst h1
      by_cases h2 : k'' = k'
      · subst h2; simp [aget_none_of_not_mem _ _ h.1]
      · simp [aget, h2]
    · simp only [h1, if_false, aget, ih h.2]
      by_cases h2 : k'' = k'
      · have : ¬ k = k' := fun e => h1 (h2.trans e.symm)
        simp [h2, this]
      · simp [h2]

theorem ARel_nil {β : Type} (enc : β → PyVal) : ARel enc [] ([] : List (Str × β)) := ⟨[], rfl, by simp, fun _ => rfl⟩

theorem ARel_lookup {β : Type} {enc : β → PyVal} {kvs : List (PyVal × PyVal)} {d : List (Str × β)} (h : ARel enc kvs d) (k : Str) :
    dictLookup kvs (.str k) = (aget k d).map enc := by
  obtain ⟨ks, rfl, _, h3⟩ := h
  rw [dictLookup_encKVs, h3]

theorem ARel_congr {β : Type} {enc : β → PyVal} {kvs : List (PyVal × PyVal)} {d d' : List (Str × β)} (h : ARel enc kvs d)
    (he : ∀ k, aget k d = aget k d') : ARel enc kvs d' := by
  obtain ⟨ks, h1, h2, h3⟩ := h
  exact ⟨ks, h1, h2, fun k => (h3 k).trans (he k)⟩

theorem ARel_set {β : Type} {enc : β → PyVal} {kvs : List (PyVal × PyVal)} {d : List (Str × β)} (h : ARel enc kvs d) (k : Str) (v : β) :
    ARel enc (dictSet kvs (.str k) (enc v)) (aset k v d) := by
  obtain ⟨ks, rfl, h2, h3⟩ := h
  refine ⟨setK k v ks, dictSet_encKVs enc ks k v, nodup_setK k v ks h2, fun k' => ?_⟩
  rw [aget_setK, aget_aset, h3]

theorem ARel_erase {β : Type} {enc : β → PyVal} {kvs : List (PyVal × PyVal)} {d : List (Str × β)} (h : ARel enc kvs d) (k : Str) :
    ARel enc (dictErase kvs (.str k)) (adel k d) := by
  obtain ⟨ks, rfl, h2, h3⟩ := h
  refine ⟨eraseK k ks, dictErase_encKVs enc ks k, nodup_eraseK k ks h2, fun k' => ?_⟩
  rw [aget_eraseK _ _ _ h2, aget_adel, h3]

theorem dictSet_absent' (kvs : List (PyVal × PyVal)) (k v : PyVal) (h : dictLookup kvs k = Option.none) :
    kvs ++ [(k, v)] = dictSet kvs k v := by
  induction kvs with
  | nil => rfl
  | cons p r ih =>
    obtain ⟨k', x⟩ := p
    simp only [dictLookup] at h
    by_cases h1 : PyVal.eq k' k = true
    · simp [h1] at h
    · simp only [h1, if_false, Bool.false_eq_true] at h
      simp only [List.cons_append, dictSet, h1, if_false, Bool.false_eq_true, ih h]

/-! ## the visiting order -/

theorem eq_plain_str (a b : Str) : PyRx.eq_plain (.str a) (.str b) = .ok (.bool (decide (a = b))) := by
  simp only [PyRx.eq_plain, PyRt.eq, eq_str, pure_ok]
  by_cases h : a = b <;> simp [h]

theorem dedupM_strs (l acc : List Str) :
    PyRx.dedupM PyRx.eq_plain (acc.map .str) (l.map .str) = .ok ((dedupAcc acc l).map .str) := by
  induction l generalizing acc with
  | nil => rfl
  | cons x xs ih =>
    simp only [List.map_cons, PyRx.dedupM, PyRx.memM_ok PyRx.eq_plain PyVal.str eq_plain_str, ok_bind, dedupAcc]
    by_cases h : x ∈ acc
    · simp only [h, decide_true, if_true]; exact ih acc
    · simp only [h, decide_false, if_false, Bool.false_eq_true]
      have := ih (acc ++ [x])
      simpa using this

theorem strsOf_strs (l : List Str) : PySet.strsOf (l.map .str) = some l := by
  induction l with
  | nil => rfl
  | cons x xs ih => simp [PySet.strsOf, ih]

theorem msg_keys_enc (fs : List (String × PyVal)) (doc : Doc)
    (hh : lookupField fs "headers" = some (.list (encHdrs doc))) :
    msg_keys (.obj "Message" fs) = .ok (.list (doc.names.map .str)) := by
  simp only [msg_keys, msgHeaders, hh, pure_ok, encHdrs, Doc.names, List.map_map]
  congr 2

/-- `sorted(frozenset(parsed.keys()))` -/
theorem sorted_keys (l : List Str) :
    (do let a ← PyRx.set_of "frozenset" PyRx.eq_plain (.list (l.map .str)); PySet.sorted_ a) =
      .ok (.list ((sortBy strLe (dedupAcc [] l)).map .str)) := by
  have := dedupM_strs l []
  simp only [List.map_nil] at this
  simp only [PyRx.set_of, PyRx.setItems, iterate_list, ok_bind, this, pure_ok, PyRx.mkSet, PySet.sorted_, strsOf_strs]

theorem mem_dedupAcc (l acc : List Str) (x : Str) : x ∈ dedupAcc acc l ↔ x ∈ acc ∨ x ∈ l := by
  induction l generalizing acc with
  | nil => simp [dedupAcc]
  | cons y ys ih =>
    simp only [dedupAcc]
    by_cases h : y ∈ acc
    · simp only [h, if_true, ih, List.mem_cons]
      constructor
      · rintro (h1 | h1) <;> simp [h1]
      · rintro (h1 | h1 | h1)
        · exact .inl h1
        · exact .inl (h1 ▸ h)
        · exact .inr h1
    · simp only [h, if_false, ih, List.mem_append, List.mem_cons, List.not_mem_nil, or_false]
      constructor
      · rintro ((h1 | h1) | h1)
        · exact .inl h1
        · exact .inr (.inl h1)
        · exact .inr (.inr h1)
      · rintro (h1 | h1 | h1)
        · exact .inl (.inl h1)
        · exact .inl (.inr h1)
        · exact .inr h1

theorem nodup_dedupAcc (l acc : List Str) (h : acc.Nodup) : (dedupAcc acc l).Nodup := by
  induction l generalizing acc with
  | nil => exact h
  | cons y ys ih =>
    simp only [dedupAcc]
    by_cases h1 : y ∈ acc
    · simp only [h1, if_true]; exact ih acc h
    · simp only [h1, if_false]
      apply ih
      rw [List.nodup_append]
      exact ⟨h, by simp, fun a ha b hb => by simp at hb; subst hb; exact fun e => h1 (e ▸ ha)⟩

/-- the visiting order is an enumeration of the distinct header names: C18's "for every order" theorems apply -/
theorem orderOf_perm (doc : Doc) : (orderOf doc).Perm (Meta.dedup doc.names) := by
  refine (ReqL.sortBy_perm strLe _).trans ?_
  apply (List.perm_ext_iff_of_nodup (nodup_dedupAcc _ [] List.nodup_nil) (Meta.nodup_dedup _)).mpr
  intro x
  rw [mem_dedupAcc, Meta.mem_dedup]
  simp

theorem mem_orderOf (doc : Doc) (n : Str) (h : n ∈ orderOf doc) : n ∈ doc.names := by
  have := (orderOf_perm doc).mem_iff.mp h
  exact (Meta.mem_dedup _ _).mp this

/-! ## the loops, generic in their bodies -/

/-- the loop state (projections `praw`, `punp` to the locals `raw`, `unparsed`) presents the model's accumulator -/
def StRel {σ : Type} (praw punp : σ → PyVal) (s : σ) (acc : Dict × Unparsed) : Prop :=
  ∃ r u, praw s = .dict r ∧ punp s = .dict u ∧ DictRel r acc.1 ∧ UnparsedRel u acc.2

/-- `for h in headers`: every iteration appends the decoded value and updates `valid_encoding` -/
theorem inner_forIn {σ : Type} (pval pvalid : σ → PyVal) (body : PyVal → σ → M (ForInStep σ)) (P : HVal → Prop)
    (hstep : ∀ (hv : HVal) (s : σ) (vs : List Str) (ok : Bool), P hv → pval s = .list (vs.map .str) → pvalid s = .bool ok →
      ∃ s', body (encHVal hv) s = .ok (.yield s') ∧ pval s' = .list ((vs ++ [(decodeVal hv).1]).map .str) ∧
        pvalid s' = .bool (ok && (decodeVal hv).2)) :
    ∀ (l : List HVal) (s : σ) (vs : List Str) (ok : Bool), (∀ hv ∈ l, P hv) → pval s = .list (vs.map .str) → pvalid s = .bool ok →
      ∃ s', forIn (l.map encHVal) s body = .ok s' ∧ pval s' = .list ((vs ++ l.map fun h => (decodeVal h).1).map .str) ∧
        pvalid s' = .bool (ok && l.all fun h => (decodeVal h).2) := by
  intro l
  induction l with
  | nil => intro s vs ok _ h1 h2; exact ⟨s, rfl, by simpa using h1, by simpa using h2⟩
  | cons x xs ih =>
    intro s vs ok hP h1 h2
    obtain ⟨s1, hb, h3, h4⟩ := hstep x s vs ok (hP x (List.mem_cons_self ..)) h1 h2
    obtain ⟨s2, hf, h5, h6⟩ := ih s1 _ _ (fun y hy => hP y (List.mem_cons_of_mem _ hy)) h3 h4
    refine ⟨s2, ?_, ?_, ?_⟩
    · simp only [List.map_cons, List.forIn_cons, hb, ok_bind, hf]
    · simpa [List.append_assoc] using h5
    · simpa [Bool.and_assoc] using h6

theorem inner_forIn_bind {σ : Type} (pval pvalid : σ → PyVal) (body : PyVal → σ → M (ForInStep σ)) (k : σ → M (ForInStep τ))
    (P : HVal → Prop) (Post : M (ForInStep τ) → Prop) (l : List HVal) (s : σ)
    (hstep : ∀ (hv : HVal) (s : σ) (vs : List Str) (ok : Bool), P hv → pval s = .list (vs.map .str) → pvalid s = .bool ok →
      ∃ s', body (encHVal hv) s = .ok (.yield s') ∧ pval s' = .list ((vs ++ [(decodeVal hv).1]).map .str) ∧
        pvalid s' = .bool (ok && (decodeVal hv).2))
    (hP : ∀ hv ∈ l, P hv) (h1 : pval s = .list []) (h2 : pvalid s = .bool true)
    (hk : ∀ s', pval s' = .list ((l.map fun h => (decodeVal h).1).map .str) → pvalid s' = .bool (l.all fun h => (decodeVal h).2) →
      Post (k s')) :
    Post (forIn (l.map encHVal) s body >>= k) := by
  obtain ⟨s', hf, h3, h4⟩ := inner_forIn pval pvalid body P hstep l s [] true hP h1 h2
  rw [hf, ok_bind]
  exact hk s' (by simpa using h3) (by simpa using h4)

/-- the loop over the header names: every iteration is one `Email.step` -/
theorem outer_forIn {σ : Type} (praw punp : σ → PyVal) (body : PyVal → σ → M (ForInStep σ)) (doc : Doc)
    (hstep : ∀ (n : Str) (s : σ) (acc : Dict × Unparsed), n ∈ doc.names → StRel praw punp s acc →
      ∃ s', body (.str n) s = .ok (.yield s') ∧ StRel praw punp s' (step doc acc n)) :
    ∀ (l : List Str) (s : σ) (acc : Dict × Unparsed), (∀ n ∈ l, n ∈ doc.names) → StRel praw punp s acc →
      ∃ s', forIn (l.map .str) s body = .ok s' ∧ StRel praw punp s' (l.foldl (step doc) acc) := by
  intro l
  induction l with
  | nil => intro s acc _ h; exact ⟨s, rfl, h⟩
  | cons x xs ih =>
    intro s acc hl h
    obtain ⟨s1, hb, h1⟩ := hstep x s acc (hl x (List.mem_cons_self ..)) h
    obtain ⟨s2, hf, h2⟩ := ih s1 _ (fun y hy => hl y (List.mem_cons_of_mem _ hy)) h1
    exact ⟨s2, by simp only [List.map_cons, List.forIn_cons, hb, ok_bind, hf], h2⟩

theorem outer_forIn_bind {σ : Type} (praw punp : σ → PyVal) (body : PyVal → σ → M (ForInStep σ)) (k : σ → M PyVal) (doc : Doc)
    (Post : M PyVal → Prop) (l : List Str) (s : σ) (acc : Dict × Unparsed)
    (hstep : ∀ (n : Str) (s : σ) (acc : Dict × Unparsed), n ∈ doc.names → StRel praw punp s acc →
      ∃ s', body (.str n) s = .ok (.yield s') ∧ StRel praw punp s' (step doc acc n))
    (hl : ∀ n ∈ l, n ∈ doc.names) (hs : StRel praw punp s acc)
    (hk : ∀ s', StRel praw punp s' (l.foldl (step doc) acc) → Post (k s')) :
    Post (forIn (l.map .str) s body >>= k) := by
  obtain ⟨s', hf, h⟩ := outer_forIn praw punp body doc hstep l s acc hl hs
  rw [hf, ok_bind]
  exact hk s' h

/-! ## run-time facts used by one iteration -/

theorem lowerAscii_idem (c : Nat) : lowerAscii (lowerAscii c) = lowerAscii c := by
  by_cases h : isUpperAscii c = true
  · have h' : isUpperAscii (c + 32) = false := by
      simp only [isUpperAscii, Bool.and_eq_true, decide_eq_true_eq] at h
      simp only [isUpperAscii, Bool.and_eq_false_iff, decide_eq_false_iff_not]; right; omega
    simp [lowerAscii, h, h']
  · simp [lowerAscii, h]

theorem lowerStr_idem (s : Str) : lowerStr (lowerStr s) = lowerStr s := by
  simp [lowerStr, List.map_map, Function.comp_def, lowerAscii_idem]

/-- `parsed.get_all(name) or []` for an already lower-cased name -/
theorem msg_get_all_enc (fs : List (String × PyVal)) (doc : Doc) (n : Str)
    (hh : lookupField fs "headers" = some (.list (encHdrs doc))) :
    (do let b ← msg_get_all (.obj "Message" fs) (.str (lowerStr n)); if truthy b then pure b else pure (PyVal.list [])) =
      .ok (.list ((getAll doc (lowerStr n)).map encHVal)) := by
  have e : ((encHdrs doc).filter fun h => lowerStr (headerName h) == lowerStr (lowerStr n)).map headerValue =
      (getAll doc (lowerStr n)).map encHVal := by
    simp only [encHdrs, getAll, lowerStr_idem, List.filter_map, List.map_map]
    rfl
  simp only [msg_get_all, msgHeaders, hh, e, pure_ok, ok_bind]
  cases hg : (getAll doc (lowerStr n)).map encHVal with
  | nil => simp
  | cons a b => simp

theorem pe_const_dict_get_strs (kvs : List (PyVal × PyVal)) (t : List (Str × Str))
    (h : kvs = t.map fun p => (.str p.1, .str p.2)) (k : Str) :
    PyRx.const_dict_get kvs (.str k) .none = .ok (match aget k t with | some r => .str r | none => .none) := by
  subst h
  induction t with
  | nil => rfl
  | cons p r ih =>
    obtain ⟨a, b⟩ := p
    simp only [List.map_cons, const_dict_get_cons_str, aget]
    by_cases e : k = a
    · subst e; simp
    · have : ¬ a = k := fun e' => e e'.symm
      simp [e, this, ih]

/-! ## one iteration, the loop, the tail -/

/-- every header value is a `str` (no `email.header.Header` objects) -/
def StrOnly (doc : Doc) : Prop := ∀ h ∈ doc.hdrs, ∃ s, h.2 = .str s

/-- what `parseEmail` does after the header loop -/
def parseTail (doc : Doc) (acc : Dict × Unparsed) : Except Str (Dict × Unparsed) :=
  match doc.payload with
  | .other => .error (ofString "AssertionError")
  | .str s => .ok (mergeBody acc s)
  | .bytes b =>
    match utf8Decode b with
    | some s => .ok (mergeBody acc s)
    | none =>
      match aget descriptionKey acc.1 with
      | some v =>
        let hdr : Str := match v with | .str s => s | _ => []
        .ok (adel descriptionKey acc.1, extendDescription acc.2 [.str hdr, .bytes b])
      | none => .ok (acc.1, extendDescription acc.2 [.bytes b])

theorem parseEmail_strOnly (doc : Doc) (h : StrOnly doc) (order : List Str) :
    parseEmail doc order = parseTail doc (headerLoop doc order) := by
  unfold parseEmail parseTail
  split
  · rename_i c hc
    obtain ⟨x, hx, hxc⟩ := List.exists_of_findSome?_eq_some hc
    obtain ⟨s, hs⟩ := h x hx
    simp [hs] at hxc
  · rfl

/-- the tail by the outcome of `getPayload` -/
theorem parseTail_eq (doc : Doc) (acc : Dict × Unparsed) :
    parseTail doc acc = match getPayload doc.payload with
      | .ok s => .ok (mergeBody acc s)
      | .error _ =>
        match doc.payload with
        | .bytes b =>
          (match aget descriptionKey acc.1 with
           | some v => .ok (adel descriptionKey acc.1,
               extendDescription acc.2 [.str (match v with | .str s => s | _ => []), .bytes b])
           | none => .ok (acc.1, extendDescription acc.2 [.bytes b]))
        | _ => .error (ofString "AssertionError") := by
  unfold parseTail
  cases hpl : doc.payload with
  | other => rfl
  | str s => rfl
  | bytes b =>
    simp only [getPayload]
    cases utf8Decode b <;> rfl

theorem catches_value_assert : catches "ValueError" (toStringLossy (ofString "AssertionError")) = false := by decide

theorem x9_isinst_str3 (t : Str) : isinstance (.str t) ["Header", "HeaderErr", "str"] = true := by rfl
theorem x9_isinst_str2 (t : Str) : isinstance (.str t) ["Header", "HeaderErr"] = false := by rfl

theorem getAll_strOnly (doc : Doc) (h : StrOnly doc) (ln : Str) : ∀ hv ∈ getAll doc ln, ∃ t, hv = .str t := by
  intro hv hm
  simp only [getAll, List.mem_map, List.mem_filter] at hm
  obtain ⟨x, ⟨hx, _⟩, rfl⟩ := hm
  exact h x hx

/-- `Email.classify` on the decoded values and the `valid_encoding` flag -/
def classifyV (value : List Str) (ok : Bool) (lname : Str) : Cls :=
  if !ok then .unparsed value else
  match aget lname Gen.Meta.emailToRaw with
  | none => .unparsed value
  | some rawName =>
    if Gen.Meta.stringFields.contains rawName && value.length == 1 then .raw rawName (.str (value.headD []))
    else if Gen.Meta.listFields.contains rawName then .raw rawName (.list value)
    else if rawName == keywordsKey && value.length == 1 then .raw rawName (.list (parseKeywords (value.headD [])))
    else if rawName == projectUrlsKey then
      match parseProjectUrls value [] with
      | some d => .raw rawName (.dict d)
      | none => .unparsed value
    else .unparsed value

theorem classify_eq (doc : Doc) (ln : Str) :
    classify doc ln = classifyV ((getAll doc ln).map fun h => (decodeVal h).1) ((getAll doc ln).all fun h => (decodeVal h).2) ln := by
  simp only [classify, classifyV, List.map_map, List.all_map, Function.comp_def]
  rfl

theorem encUList_strs (vals : List Str) : encUList (vals.map .str) = .list (vals.map .str) := by
  simp [encUList, List.map_map, Function.comp_def, encUVal]

theorem dict_setitem_str (kvs : List (PyVal × PyVal)) (k : Str) (v : PyVal) :
    dict_setitem (.dict kvs) (.str k) v = .ok (.dict (dictSet kvs (.str k) v)) := by rfl

theorem unp_set {u : List (PyVal × PyVal)} {a : Unparsed} (h : UnparsedRel u a) (k : Str) (vals : List Str) :
    UnparsedRel (dictSet u (.str k) (.list (vals.map .str))) (aset k (vals.map .str) a) := by
  have := ARel_set h k (vals.map UVal.str)
  rwa [encUList_strs] at this

theorem raw_set {r : List (PyVal × PyVal)} {a : Dict} (h : DictRel r a) (k : Str) (v : Val) :
    DictRel (dictSet r (.str k) (encVal v)) (aset k v a) := ARel_set h k v

theorem int_len_one (n : Nat) : ((n : Int) == 1) = (n == 1) := by
  rw [Bool.eq_iff_iff]; simp; omega
theorem len2_ne (n : Nat) : (n + 1 + 1 == 1) = false := by simp
theorem len0_ne : ((0 : Nat) == 1) = false := by decide
theorem len1_eq : ((0 + 1 : Nat) == 1) = true := by decide

theorem getitem_map_zero (v : Str) (t : List Str) : getitem (.list (List.map PyVal.str (v :: t))) (.int 0) = .ok (.str v) := by
  simp

theorem kw_key : keywordsKey = ofString "keywords" := by decide
theorem pu_key : projectUrlsKey = ofString "project_urls" := by decide
theorem catches_keyerror : catches "KeyError" "KeyError" = true := by decide


/-! ## the description / body merge -/

/-- a `Description` header kept in `raw` is a `str` -/
def DescStr (d : Dict) : Prop := ∀ v, aget descriptionKey d = some v → ∃ s, v = .str s

theorem lf_desc : Gen.Meta.listFields.contains descriptionKey = false := by decide
theorem kw_desc : (descriptionKey == keywordsKey) = false := by decide
theorem pu_desc : (descriptionKey == projectUrlsKey) = false := by decide
theorem desc_key : ofString "description" = descriptionKey := by decide

theorem classifyV_desc (vals : List Str) (ok : Bool) (ln : Str) (v : Val)
    (h : classifyV vals ok ln = .raw descriptionKey v) : ∃ s, v = .str s := by
  unfold classifyV at h
  split at h
  · cases h
  · split at h
    · cases h
    · split at h
      · injection h with h1 h2; exact ⟨_, h2.symm⟩
      · split at h
        · rename_i hlf
          injection h with h1 h2; subst h1; rw [lf_desc] at hlf; cases hlf
        · split at h
          · rename_i hkw
            injection h with h1 h2; subst h1; rw [kw_desc] at hkw; simp at hkw
          · split at h
            · rename_i hpu
              split at h
              · injection h with h1 h2; subst h1; rw [pu_desc] at hpu; cases hpu
              · cases h
            · cases h

theorem step_descStr (doc : Doc) (acc : Dict × Unparsed) (n : Str) (h : DescStr acc.1) : DescStr (step doc acc n).1 := by
  simp only [step]
  cases hc : classify doc (lowerStr n) with
  | raw key v =>
    intro w hw
    simp only [aget_aset] at hw
    by_cases e : key = descriptionKey
    · simp only [e, if_true, Option.some.injEq] at hw
      subst hw; subst e
      rw [classify_eq] at hc
      exact classifyV_desc _ _ _ _ hc
    · simp only [e, if_false] at hw
      exact h w hw
  | unparsed vals => exact h

theorem headerLoop_descStr (doc : Doc) (order : List Str) : DescStr (headerLoop doc order).1 := by
  unfold headerLoop
  suffices ∀ acc : Dict × Unparsed, DescStr acc.1 → DescStr (order.foldl (step doc) acc).1 from
    this ([], []) (by intro v h; simp at h)
  induction order with
  | nil => intro acc h; exact h
  | cons n ns ih => intro acc h; exact ih _ (step_descStr doc acc n h)

theorem dict_contains_rel {β : Type} {enc : β → PyVal} {kvs : List (PyVal × PyVal)} {d : List (Str × β)} (h : ARel enc kvs d) (k : Str) :
    dict_contains (.dict kvs) (.str k) = .ok (aget k d).isSome := by
  simp [dict_contains, hashable, ARel_lookup h k]

theorem dict_pop_rel {β : Type} {enc : β → PyVal} {kvs : List (PyVal × PyVal)} {d : List (Str × β)} (h : ARel enc kvs d) (k : Str) (v : β)
    (hv : aget k d = some v) : dict_pop (.dict kvs) (.str k) = .ok (enc v, .dict (dictErase kvs (.str k))) := by
  simp [dict_pop, hashable, ARel_lookup h k, hv]

theorem setdefault_extend_rel {u : List (PyVal × PyVal)} {a : Unparsed} (h : UnparsedRel u a) (k : Str) (xs : List UVal) :
    ∃ u', dict_setdefault_extend (.dict u) (.str k) (.list (xs.map encUVal)) = .ok (.dict u') ∧
      UnparsedRel u' (aset k ((aget k a).getD [] ++ xs) a) := by
  cases hl : aget k a with
  | none =>
    have hlook : dictLookup u (.str k) = Option.none := by rw [ARel_lookup h k, hl]; rfl
    refine ⟨dictSet (dictSet u (.str k) (encUList [])) (.str k) (encUList ([] ++ xs)), ?_, ?_⟩
    · simp [dict_setdefault_extend, dict_setdefault, hashable, hlook, dictSet_absent' u _ _ hlook, dict_setitem, encUList]
    · refine ARel_congr (ARel_set (ARel_set h k []) k ([] ++ xs)) (fun k' => ?_)
      simp only [aget_aset, Option.getD_none]
      by_cases e : k = k' <;> simp [e]
  | some l =>
    have hlook : dictLookup u (.str k) = some (encUList l) := by rw [ARel_lookup h k, hl]; rfl
    refine ⟨dictSet u (.str k) (encUList (l ++ xs)), ?_, ?_⟩
    · simp [dict_setdefault_extend, dict_setdefault, hashable, hlook, dict_setitem, encUList]
    · simp only [Option.getD_some]; exact ARel_set h k (l ++ xs)

theorem setdefault_append_rel {u : List (PyVal × PyVal)} {a : Unparsed} (h : UnparsedRel u a) (k : Str) (x : UVal) :
    ∃ u', dict_setdefault_append (.dict u) (.str k) (encUVal x) = .ok (.dict u') ∧
      UnparsedRel u' (aset k ((aget k a).getD [] ++ [x]) a) := by
  obtain ⟨u', h1, h2⟩ := setdefault_extend_rel h k [x]
  refine ⟨u', ?_, h2⟩
  rw [← h1]
  simp only [dict_setdefault_append, dict_setdefault_extend, List.map_cons, List.map_nil]
  cases hsd : dict_setdefault (.dict u) (.str k) (.list []) with
  | error e => rfl
  | ok p =>
    simp only [ok_bind]
    cases p.1 <;> rfl

theorem item_append_rel {u : List (PyVal × PyVal)} {a : Unparsed} (h : UnparsedRel u a) (k : Str) (x : UVal) (l : List UVal)
    (hl : aget k a = some l) :
    ∃ u', dict_item_append (.dict u) (.str k) (encUVal x) = .ok (.dict u') ∧ UnparsedRel u' (aset k (l ++ [x]) a) := by
  have hlook : dictLookup u (.str k) = some (encUList l) := by rw [ARel_lookup h k, hl]; rfl
  refine ⟨dictSet u (.str k) (encUList (l ++ [x])), ?_, ARel_set h k (l ++ [x])⟩
  simp [dict_item_append, dict_getitem, hashable, hlook, dict_setitem, encUList]


theorem catches_value_value : catches "ValueError" (toStringLossy (ofString "ValueError")) = true := by decide

theorem ite_bind_same {α β : Type} (c : Prop) [Decidable c] (a b : M α) (f : α → M β) :
    (if c then a >>= f else b >>= f) = (if c then a else b) >>= f := by split <;> rfl


/-! ## `Header` objects and `decode_header` errors -/

/-- the class `decode_header` raises for this header value -/
def errCls : HVal → Option Str
  | .err c => some c
  | _ => none

/-- the chunks of a `Header` value are bytes -/
def HValOK : HVal → Prop
  | .hdr cs => ∀ b ∈ cs, ∀ x ∈ b, x < 256
  | _ => True

/-- the pair `(bin, encoding)` the chunk loop appends -/
def encChunk (b : List Nat) : PyVal :=
  .tuple [PyElf.ofBytes b, .str (if (decodeChunk b).2 then ofString "utf8" else ofString "latin1")]

theorem latin1_ne_utf8 : (ofString "latin1" == ofString "utf8") = false := by decide

theorem chunkText_encChunk (b : List Nat) (hb : ∀ x ∈ b, x < 256) : chunkText (encChunk b) = .ok (decodeChunk b) := by
  cases h : utf8Decode b with
  | some s => simp [encChunk, chunkText, PyElf.bytesOf_ofBytes b hb, decodeChunk, h]
  | none => simp [encChunk, chunkText, PyElf.bytesOf_ofBytes b hb, decodeChunk, h, latin1_ne_utf8]

theorem mapM_chunkText (l : List (List Nat)) (hl : ∀ b ∈ l, ∀ x ∈ b, x < 256) :
    (l.map encChunk).mapM chunkText = .ok (l.map decodeChunk) := by
  induction l with
  | nil => rfl
  | cons b bs ih =>
    simp only [List.map_cons, List.mapM_cons, chunkText_encChunk b (hl b (List.mem_cons_self ..)), ok_bind,
      ih (fun y hy => hl y (List.mem_cons_of_mem _ hy)), pure_ok]

/-- `str(make_header(chunks))` on the chunks the loop collected -/
theorem make_header_str_enc (l : List (List Nat)) (hl : ∀ b ∈ l, ∀ x ∈ b, x < 256) :
    make_header_str (.list (l.map encChunk)) = .ok (.str (renderChunks (l.map decodeChunk))) := by
  simp only [make_header_str, iterate_list, ok_bind, mapM_chunkText l hl, pure_ok]

/-- the chunk loop: every iteration appends `(bin, "utf8" | "latin1")` and updates `valid_encoding` -/
theorem chunk_forIn {σ : Type} (pvalid pchunks : σ → PyVal) (body : PyVal → σ → M (ForInStep σ))
    (hstep : ∀ (b : List Nat) (s : σ) (cs : List PyVal) (ok : Bool), (∀ x ∈ b, x < 256) → pvalid s = .bool ok → pchunks s = .list cs →
      ∃ s', body (.tuple [PyElf.ofBytes b, .none]) s = .ok (.yield s') ∧ pvalid s' = .bool (ok && (decodeChunk b).2) ∧
        pchunks s' = .list (cs ++ [encChunk b])) :
    ∀ (l : List (List Nat)) (s : σ) (cs : List PyVal) (ok : Bool), (∀ b ∈ l, ∀ x ∈ b, x < 256) → pvalid s = .bool ok →
      pchunks s = .list cs →
      ∃ s', forIn (l.map fun b => PyVal.tuple [PyElf.ofBytes b, .none]) s body = .ok s' ∧
        pvalid s' = .bool (ok && (l.map decodeChunk).all (·.2)) ∧ pchunks s' = .list (cs ++ l.map encChunk) := by
  intro l
  induction l with
  | nil => intro s cs ok _ h1 h2; exact ⟨s, rfl, by simpa using h1, by simpa using h2⟩
  | cons b bs ih =>
    intro s cs ok hl h1 h2
    obtain ⟨s1, hb, h3, h4⟩ := hstep b s cs ok (hl b (List.mem_cons_self ..)) h1 h2
    obtain ⟨s2, hf, h5, h6⟩ := ih s1 _ _ (fun y hy => hl y (List.mem_cons_of_mem _ hy)) h3 h4
    refine ⟨s2, ?_, ?_, ?_⟩
    · simp only [List.map_cons, List.forIn_cons, hb, ok_bind, hf]
    · simpa [Bool.and_assoc] using h5
    · simpa [List.append_assoc] using h6

theorem chunk_forIn_bind {σ τ : Type} (pvalid pchunks : σ → PyVal) (body : PyVal → σ → M (ForInStep σ)) (k : σ → M τ)
    (Post : M τ → Prop) (l : List (List Nat)) (s : σ) (ok : Bool)
    (hstep : ∀ (b : List Nat) (s : σ) (cs : List PyVal) (ok : Bool), (∀ x ∈ b, x < 256) → pvalid s = .bool ok → pchunks s = .list cs →
      ∃ s', body (.tuple [PyElf.ofBytes b, .none]) s = .ok (.yield s') ∧ pvalid s' = .bool (ok && (decodeChunk b).2) ∧
        pchunks s' = .list (cs ++ [encChunk b]))
    (hl : ∀ b ∈ l, ∀ x ∈ b, x < 256) (h1 : pvalid s = .bool ok) (h2 : pchunks s = .list [])
    (hk : ∀ s', pvalid s' = .bool (ok && (l.map decodeChunk).all (·.2)) → pchunks s' = .list (l.map encChunk) → Post (k s')) :
    Post (forIn (l.map fun b => PyVal.tuple [PyElf.ofBytes b, .none]) s body >>= k) := by
  obtain ⟨s', hf, h3, h4⟩ := chunk_forIn pvalid pchunks body hstep l s [] ok hl h1 h2
  rw [hf, ok_bind]
  exact hk s' h3 (by simpa using h4)

/-- `for h in headers` with `decode_header` errors: the first `HeaderErr` value raises its class -/
theorem inner_forIn_err {σ : Type} (pval pvalid : σ → PyVal) (body : PyVal → σ → M (ForInStep σ)) (P : HVal → Prop)
    (hstep : ∀ (hv : HVal) (s : σ) (vs : List Str) (ok : Bool), P hv → pval s = .list (vs.map .str) → pvalid s = .bool ok →
      match errCls hv with
      | some c => body (encHVal hv) s = .error (toStringLossy c)
      | none => ∃ s', body (encHVal hv) s = .ok (.yield s') ∧ pval s' = .list ((vs ++ [(decodeVal hv).1]).map .str) ∧
        pvalid s' = .bool (ok && (decodeVal hv).2)) :
    ∀ (l : List HVal) (s : σ) (vs : List Str) (ok : Bool), (∀ hv ∈ l, P hv) → pval s = .list (vs.map .str) → pvalid s = .bool ok →
      match l.findSome? errCls with
      | some c => forIn (l.map encHVal) s body = .error (toStringLossy c)
      | none => ∃ s', forIn (l.map encHVal) s body = .ok s' ∧ pval s' = .list ((vs ++ l.map fun h => (decodeVal h).1).map .str) ∧
        pvalid s' = .bool (ok && l.all fun h => (decodeVal h).2) := by
  intro l
  induction l with
  | nil => intro s vs ok _ h1 h2; exact ⟨s, rfl, by simpa using h1, by simpa using h2⟩
  | cons x xs ih =>
    intro s vs ok hP h1 h2
    have hx := hstep x s vs ok (hP x (List.mem_cons_self ..)) h1 h2
    simp only [List.findSome?_cons]
    cases he : errCls x with
    | some c =>
      simp only [he] at hx ⊢
      simp only [List.map_cons, List.forIn_cons, hx, err_bind]
    | none =>
      simp only [he] at hx ⊢
      obtain ⟨s1, hb, h3, h4⟩ := hx
      have := ih s1 _ _ (fun y hy => hP y (List.mem_cons_of_mem _ hy)) h3 h4
      cases hf : xs.findSome? errCls with
      | some c =>
        simp only [hf] at this ⊢
        simp only [List.map_cons, List.forIn_cons, hb, ok_bind, this]
      | none =>
        simp only [hf] at this ⊢
        obtain ⟨s2, hf2, h5, h6⟩ := this
        refine ⟨s2, ?_, ?_, ?_⟩
        · simp only [List.map_cons, List.forIn_cons, hb, ok_bind, hf2]
        · simpa [List.append_assoc] using h5
        · simpa [Bool.and_assoc] using h6

theorem inner_forIn_err_bind {σ τ : Type} (pval pvalid : σ → PyVal) (body : PyVal → σ → M (ForInStep σ)) (k : σ → M τ)
    (P : HVal → Prop) (Post : M τ → Prop) (l : List HVal) (s : σ)
    (hstep : ∀ (hv : HVal) (s : σ) (vs : List Str) (ok : Bool), P hv → pval s = .list (vs.map .str) → pvalid s = .bool ok →
      match errCls hv with
      | some c => body (encHVal hv) s = .error (toStringLossy c)
      | none => ∃ s', body (encHVal hv) s = .ok (.yield s') ∧ pval s' = .list ((vs ++ [(decodeVal hv).1]).map .str) ∧
        pvalid s' = .bool (ok && (decodeVal hv).2))
    (hP : ∀ hv ∈ l, P hv) (h1 : pval s = .list []) (h2 : pvalid s = .bool true)
    (herr : ∀ c, l.findSome? errCls = some c → Post (.error (toStringLossy c)))
    (hk : l.findSome? errCls = none → ∀ s', pval s' = .list ((l.map fun h => (decodeVal h).1).map .str) →
      pvalid s' = .bool (l.all fun h => (decodeVal h).2) → Post (k s')) :
    Post (forIn (l.map encHVal) s body >>= k) := by
  have := inner_forIn_err pval pvalid body P hstep l s [] true hP h1 h2
  cases hf : l.findSome? errCls with
  | some c =>
    simp only [hf] at this
    rw [this, err_bind]
    exact herr c hf
  | none =>
    simp only [hf] at this
    obtain ⟨s', hf', h3, h4⟩ := this
    rw [hf', ok_bind]
    exact hk hf s' (by simpa using h3) (by simpa using h4)

/-- the loop over the header names; an iteration whose headers contain a `HeaderErr` value raises `c0` -/
theorem outer_forIn_err {σ : Type} (praw punp : σ → PyVal) (body : PyVal → σ → M (ForInStep σ)) (doc : Doc) (c0 : PyExc)
    (hstep : ∀ (n : Str) (s : σ) (acc : Dict × Unparsed), n ∈ doc.names → StRel praw punp s acc →
      if (getAll doc (lowerStr n)).findSome? errCls = none then
        ∃ s', body (.str n) s = .ok (.yield s') ∧ StRel praw punp s' (step doc acc n)
      else body (.str n) s = .error c0) :
    ∀ (l : List Str) (s : σ) (acc : Dict × Unparsed), (∀ n ∈ l, n ∈ doc.names) → StRel praw punp s acc →
      if ∀ n ∈ l, (getAll doc (lowerStr n)).findSome? errCls = none then
        ∃ s', forIn (l.map .str) s body = .ok s' ∧ StRel praw punp s' (l.foldl (step doc) acc)
      else forIn (l.map .str) s body = .error c0 := by
  intro l
  induction l with
  | nil => intro s acc _ h; simp only [List.not_mem_nil, false_imp_iff, implies_true, if_true]; exact ⟨s, rfl, h⟩
  | cons x xs ih =>
    intro s acc hl h
    have hx := hstep x s acc (hl x (List.mem_cons_self ..)) h
    by_cases hxe : (getAll doc (lowerStr x)).findSome? errCls = none
    · simp only [hxe, if_true] at hx
      obtain ⟨s1, hb, h1⟩ := hx
      have := ih s1 _ (fun y hy => hl y (List.mem_cons_of_mem _ hy)) h1
      by_cases hall : ∀ n ∈ xs, (getAll doc (lowerStr n)).findSome? errCls = none
      · have hall' : ∀ n ∈ x :: xs, (getAll doc (lowerStr n)).findSome? errCls = none := by
          intro n hn; rcases List.mem_cons.mp hn with rfl | hn; exact hxe; exact hall n hn
        rw [if_pos hall] at this
        rw [if_pos hall']
        obtain ⟨s2, hf, h2⟩ := this
        exact ⟨s2, by simp only [List.map_cons, List.forIn_cons, hb, ok_bind, hf], h2⟩
      · have hall' : ¬ ∀ n ∈ x :: xs, (getAll doc (lowerStr n)).findSome? errCls = none :=
          fun h' => hall (fun n hn => h' n (List.mem_cons_of_mem _ hn))
        rw [if_neg hall] at this
        rw [if_neg hall']
        simp only [List.map_cons, List.forIn_cons, hb, ok_bind, this]
    · simp only [hxe, if_false] at hx
      have hall' : ¬ ∀ n ∈ x :: xs, (getAll doc (lowerStr n)).findSome? errCls = none :=
        fun h' => hxe (h' x (List.mem_cons_self ..))
      rw [if_neg hall']
      simp only [List.map_cons, List.forIn_cons, hx, err_bind]

theorem outer_forIn_err_bind {σ : Type} (praw punp : σ → PyVal) (body : PyVal → σ → M (ForInStep σ)) (k : σ → M PyVal) (doc : Doc)
    (c0 : PyExc) (Post : M PyVal → Prop) (l : List Str) (s : σ) (acc : Dict × Unparsed)
    (hstep : ∀ (n : Str) (s : σ) (acc : Dict × Unparsed), n ∈ doc.names → StRel praw punp s acc →
      if (getAll doc (lowerStr n)).findSome? errCls = none then
        ∃ s', body (.str n) s = .ok (.yield s') ∧ StRel praw punp s' (step doc acc n)
      else body (.str n) s = .error c0)
    (hl : ∀ n ∈ l, n ∈ doc.names) (hs : StRel praw punp s acc)
    (herr : (¬ ∀ n ∈ l, (getAll doc (lowerStr n)).findSome? errCls = none) → Post (.error c0))
    (hk : (∀ n ∈ l, (getAll doc (lowerStr n)).findSome? errCls = none) →
      ∀ s', StRel praw punp s' (l.foldl (step doc) acc) → Post (k s')) :
    Post (forIn (l.map .str) s body >>= k) := by
  have := outer_forIn_err praw punp body doc c0 hstep l s acc hl hs
  by_cases hall : ∀ n ∈ l, (getAll doc (lowerStr n)).findSome? errCls = none
  · rw [if_pos hall] at this
    obtain ⟨s', hf, h⟩ := this
    rw [hf, ok_bind]
    exact hk hall s' h
  · rw [if_neg hall] at this
    rw [this, err_bind]
    exact herr hall


/-- the locals of the outer loop of `parse_email` -/
abbrev St9 := PyVal × PyVal × PyVal × PyVal × PyVal × PyVal × PyVal × PyVal × PyVal

/-- the locals of the loop over the values of one header name -/
abbrev St4 := PyVal × PyVal × PyVal × PyVal

/-- all `decode_header` failures in the document raise the same class (the model raises the first one in document order, the
translated loop the first one in sorted-name order) -/
def ErrsEqual (doc : Doc) : Prop := ∀ h ∈ doc.hdrs, ∀ h' ∈ doc.hdrs, ∀ c c', h.2 = .err c → h'.2 = .err c' → c = c'

theorem errsEqual_class (doc : Doc) (h : ErrsEqual doc) : ∃ c0, ∀ x ∈ doc.hdrs, ∀ c, x.2 = .err c → c = c0 := by
  by_cases hex : ∃ x ∈ doc.hdrs, ∃ c, x.2 = .err c
  · obtain ⟨x, hx, c, hc⟩ := hex
    exact ⟨c, fun y hy c' hc' => h y hy x hx c' c hc' hc⟩
  · exact ⟨[], fun y hy c' hc' => absurd ⟨y, hy, c', hc'⟩ hex⟩

/-- `parseEmail`: the first `decode_header` error in document order, or the loop and the tail -/
theorem parseEmail_cases (doc : Doc) (order : List Str) :
    (∃ x ∈ doc.hdrs, ∃ c, x.2 = .err c ∧ parseEmail doc order = .error c) ∨
    ((∀ x ∈ doc.hdrs, errCls x.2 = none) ∧ parseEmail doc order = parseTail doc (headerLoop doc order)) := by
  unfold parseEmail parseTail
  split
  · rename_i c hc
    obtain ⟨x, hx, hxc⟩ := List.exists_of_findSome?_eq_some hc
    refine .inl ⟨x, hx, c, ?_, rfl⟩
    cases hx2 : x.2 <;> simp [hx2] at hxc
    rw [hxc]
  · rename_i hc
    refine .inr ⟨fun x hx => ?_, rfl⟩
    have := List.findSome?_eq_none_iff.mp hc x hx
    cases hx2 : x.2 <;> simp [hx2, errCls] at this ⊢

theorem mem_getAll (doc : Doc) (ln : Str) (hv : HVal) (h : hv ∈ getAll doc ln) : ∃ x ∈ doc.hdrs, x.2 = hv := by
  simp only [getAll, List.mem_map, List.mem_filter] at h
  obtain ⟨x, ⟨hx, _⟩, rfl⟩ := h
  exact ⟨x, hx, rfl⟩

theorem getAll_noErr (doc : Doc) (hno : ∀ x ∈ doc.hdrs, errCls x.2 = none) (ln : Str) :
    (getAll doc ln).findSome? errCls = none := by
  rw [List.findSome?_eq_none_iff]
  intro hv hm
  obtain ⟨x, hx, rfl⟩ := mem_getAll doc ln hv hm
  exact hno x hx

theorem getAll_ok (doc : Doc) (h : ChunksOK doc) (ln : Str) : ∀ hv ∈ getAll doc ln, HValOK hv := by
  intro hv hm
  obtain ⟨x, hx, rfl⟩ := mem_getAll doc ln hv hm
  cases hx2 : x.2 with
  | hdr cs => exact h x hx cs hx2
  | str s => trivial
  | err c => trivial

theorem mem_orderOf' (doc : Doc) (x : Str × HVal) (hx : x ∈ doc.hdrs) : x.1 ∈ orderOf doc := by
  apply (orderOf_perm doc).mem_iff.mpr
  rw [Meta.mem_dedup]
  exact List.mem_map.mpr ⟨x, hx, rfl⟩

theorem getAll_hasErr (doc : Doc) (x : Str × HVal) (hx : x ∈ doc.hdrs) (c : Str) (hc : x.2 = .err c) :
    ¬ (getAll doc (lowerStr x.1)).findSome? errCls = none := by
  intro h
  have := List.findSome?_eq_none_iff.mp h x.2 (by
    simp only [getAll, List.mem_map, List.mem_filter]
    exact ⟨x, ⟨hx, by simp⟩, rfl⟩)
  rw [hc] at this
  simp [errCls] at this

theorem x9_isinst_hdr3 (fs : List (String × PyVal)) : isinstance (.obj "Header" fs) ["Header", "HeaderErr", "str"] = true := by rfl
theorem x9_isinst_hdr2 (fs : List (String × PyVal)) : isinstance (.obj "Header" fs) ["Header", "HeaderErr"] = true := by rfl
theorem x9_isinst_err3 (fs : List (String × PyVal)) : isinstance (.obj "HeaderErr" fs) ["Header", "HeaderErr", "str"] = true := by rfl
theorem x9_isinst_err2 (fs : List (String × PyVal)) : isinstance (.obj "HeaderErr" fs) ["Header", "HeaderErr"] = true := by rfl
theorem decode_header_err (c : Str) : decode_header (.obj "HeaderErr" [("cls", .str c)]) = .error (toStringLossy c) := by rfl
theorem decode_header_hdr (cs : List (List Nat)) :
    decode_header (.obj "Header" [("chunks", .list (cs.map PyElf.ofBytes))]) =
      .ok (.list (cs.map fun b => PyVal.tuple [PyElf.ofBytes b, .none])) := by
  simp [decode_header, lookupField, List.map_map, Function.comp_def]
theorem unpack2_tuple2 (a b : PyVal) : unpack2 (.tuple [a, b]) = .ok (a, b) := by rfl
theorem catches_ude : catches "UnicodeDecodeError" "UnicodeDecodeError" = true := by decide

set_option maxHeartbeats 2000000 in
/-- **`parse_email` = `Email.parseEmail`** for every document: for `str` and for `bytes` input and every oracle `ext` that

* answers the standard-library parser call (the key is the source text of the call) with a message value presenting `doc`
  (`MsgRel`), and
* answers `str.lower` on header names like the ASCII `lowerStr` the model uses,

where the chunks of `Header` values are bytes (`ChunksOK`) and all `decode_header` failures raise the same class (`ErrsEqual`:
the model raises the first one in document order, the translated loop the first one in sorted-name order), the translated
function returns two dicts that agree look-up by look-up (`DictRel`, `UnparsedRel`) with the model's result for the visiting
order `orderOf doc` (a permutation of the distinct header names: `orderOf_perm`), or raises the model's exception class. -/
theorem parse_email_eq_model (ext : PyRt.Oracle) (data m : PyVal) (doc : Doc) (isStr : Bool)
    (hdata : if isStr then ∃ s, data = .str s else ∃ b, data = PyElf.ofBytes b)
    (hext : ext (if isStr then "email.parser.Parser(policy=email.policy.compat32).parsestr(_, headersonly=True)"
      else "email.parser.BytesParser(policy=email.policy.compat32).parsebytes(_, headersonly=True)") [data] = .ok m)
    (hm : MsgRel m doc isStr)
    (hlower : ∀ s, ext "str.lower" [.str s] = .ok (.str (lowerStr s)))
    (hchunks : ChunksOK doc) (herrs : ErrsEqual doc) :
    match parseEmail doc (orderOf doc) with
    | .ok (d, u) => ∃ r un, Gen.PySrc.parse_email ext data = .ok (.tuple [.dict r, .dict un]) ∧ DictRel r d ∧ UnparsedRel un u
    | .error c => Gen.PySrc.parse_email ext data = .error (toStringLossy c) := by
  obtain ⟨fs, rfl, hh, hrun⟩ := _get_payload__io_eq_model m data doc isStr hm hdata
  have hinst : isinstance data ["str"] = isStr := by
    cases isStr with
    | true => obtain ⟨s, rfl⟩ := hdata; rfl
    | false => obtain ⟨b, rfl⟩ := hdata; rfl
  have hparse : (if isStr = true then
        ext_call ext "email.parser.Parser(policy=email.policy.compat32).parsestr(_, headersonly=True)" [data]
      else ext_call ext "email.parser.BytesParser(policy=email.policy.compat32).parsebytes(_, headersonly=True)" [data]) =
      .ok (.obj "Message" fs) := by
    cases isStr <;> simpa [ext_call] using hext
  have hset : PyRx.set_of "frozenset" PyRx.eq_plain (.list (doc.names.map .str)) =
      .ok (PyRx.mkSet "frozenset" ((dedupAcc [] doc.names).map .str)) := by
    have := dedupM_strs doc.names []
    simp only [List.map_nil] at this
    simp only [PyRx.set_of, PyRx.setItems, iterate_list, ok_bind, this, pure_ok]
  have hsorted : PySet.sorted_ (PyRx.mkSet "frozenset" ((dedupAcc [] doc.names).map .str)) =
      .ok (.list ((orderOf doc).map .str)) := by
    simp only [PyRx.setItems, PyRx.mkSet, PySet.sorted_, strsOf_strs, pure_ok, ok_bind, orderOf]
  unfold Gen.PySrc.parse_email
  simp only [hinst, truthy_bool, ite_bind_same, hparse, ok_bind, msg_keys_enc fs doc hh, hset, hsorted, iterate_list]
  obtain ⟨c0, hc0⟩ := errsEqual_class doc herrs
  refine outer_forIn_err_bind (σ := PyVal × PyVal × PyVal × PyVal × PyVal × PyVal × PyVal × PyVal × PyVal)
    (fun s => s.2.2.2.2.2.2.2.1) (fun s => s.2.2.2.2.2.2.2.2) _ _ doc (toStringLossy c0)
    (fun x => match parseEmail doc (orderOf doc) with
      | .ok (d, u) => ∃ r un, x = .ok (.tuple [.dict r, .dict un]) ∧ DictRel r d ∧ UnparsedRel un u
      | .error c => x = .error (toStringLossy c)) (orderOf doc) _ ([], []) ?hstep (mem_orderOf doc)
      ⟨[], [], rfl, rfl, ARel_nil _, ARel_nil _⟩ ?herr ?hk
  case herr =>
    intro hex
    rcases parseEmail_cases doc (orderOf doc) with ⟨x, hx, c, hxc, hpe⟩ | ⟨hno, _⟩
    · rw [hpe]
      simp only [hc0 x hx c hxc]
    · exact absurd (fun n _ => getAll_noErr doc hno (lowerStr n)) hex
  case hstep =>
    intro n s acc hn hs
    obtain ⟨r, u, hr, hu, hdr, hur⟩ := hs
    simp only [hlower, ext_call, ok_bind, msg_get_all_enc fs doc n hh, iterate_list]
    refine inner_forIn_err_bind (σ := PyVal × PyVal × PyVal × PyVal) (fun s => s.1) (fun s => s.2.1) _ _ HValOK
      (fun (x : M (ForInStep St9)) => if (getAll doc (lowerStr n)).findSome? errCls = none then
          ∃ s', x = .ok (.yield s') ∧ StRel (fun s : St9 => s.2.2.2.2.2.2.2.1) (fun s : St9 => s.2.2.2.2.2.2.2.2) s' (step doc acc n)
        else x = .error (toStringLossy c0)) (getAll doc (lowerStr n)) _ ?hin
      (getAll_ok doc hchunks _) rfl rfl ?herr2 ?hk2
    case herr2 =>
      intro c hc
      rw [if_neg (by rw [hc]; simp)]
      obtain ⟨hv, hvm, hve⟩ := List.exists_of_findSome?_eq_some hc
      obtain ⟨x, hx, hxv⟩ := mem_getAll doc _ hv hvm
      have : hv = .err c := by cases hv <;> simp [errCls] at hve; rw [hve]
      rw [hc0 x hx c (hxv.trans this)]
    case hin =>
      intro hv s vs ok hP h1 h2
      cases hv with
      | str t =>
        simp only [errCls, encHVal, x9_isinst_str3, x9_isinst_str2, Bool.not_true, Bool.false_eq_true, if_false, h1, list_append_list,
          ok_bind, pure_ok]
        exact ⟨_, rfl, by simp [decodeVal], by simp [decodeVal, h2]⟩
      | err c =>
        simp only [errCls, encHVal, x9_isinst_err3, x9_isinst_err2, Bool.not_true, Bool.false_eq_true, if_false, if_true,
          decode_header_err, err_bind]
      | hdr cs =>
        simp only [errCls, encHVal, x9_isinst_hdr3, x9_isinst_hdr2, Bool.not_true, Bool.false_eq_true, if_false, if_true,
          decode_header_hdr, ok_bind, iterate_list]
        refine chunk_forIn_bind (σ := PyVal × PyVal × PyVal) (fun s => s.1) (fun s => s.2.1) _ _
          (fun (x : M (ForInStep St4)) => ∃ s', x = .ok (.yield s') ∧
            s'.1 = .list ((vs ++ [(decodeVal (.hdr cs)).1]).map .str) ∧ s'.2.1 = .bool (ok && (decodeVal (.hdr cs)).2))
          cs _ ok ?hch hP h2 rfl ?hk3
        case hch =>
          intro b s cs ok hb h1 h2
          simp only [unpack2_tuple2, ok_bind, bytes_decode_utf8, PyElf.bytesOf_ofBytes b hb]
          cases hd : utf8Decode b with
          | some t =>
            simp only [pure_ok, ok_bind, tryCatch_ok, tryCatch_ok', if_true, h2, list_append_list]
            exact ⟨_, rfl, by simp [decodeChunk, hd, h1], by simp [encChunk, decodeChunk, hd]⟩
          | none =>
            simp only [throw_err, err_bind, tryCatch_err, tryCatch_err', catches_ude, if_true, pure_ok, ok_bind, Bool.false_eq_true, if_false,
              h2, list_append_list]
            exact ⟨_, rfl, by simp [decodeChunk, hd], by simp [encChunk, decodeChunk, hd]⟩
        case hk3 =>
          intro s' hv1 hv2
          simp only [hv2, make_header_str_enc cs hP, ok_bind, h1, list_append_list, pure_ok]
          exact ⟨_, rfl, by simp [decodeVal], by simp [decodeVal, hv1]⟩
    case hk2 =>
      intro hnone s' hval hvalid
      rw [if_pos hnone]
      simp only at hval hvalid hr hu
      simp only [hval, hvalid, hr, hu, truthy_bool]
      simp only [step, classify_eq]
      generalize (getAll doc (lowerStr n)).map (fun h => (decodeVal h).1) = vals
      generalize (getAll doc (lowerStr n)).all (fun h => (decodeVal h).2) = okAll
      generalize lowerStr n = ln
      cases okAll with
      | false =>
        simp only [classifyV, Bool.not_false, if_true, dict_setitem_str, ok_bind, pure_ok]
        exact ⟨_, rfl, _, _, rfl, rfl, hdr, unp_set hur ln vals⟩
      | true =>
        simp only [Bool.not_true, Bool.false_eq_true, if_false]
        rw [pe_const_dict_get_strs _ Gen.Meta.emailToRaw (by rfl)]
        simp only [classifyV, Bool.not_true, Bool.false_eq_true, if_false]
        cases hrn : aget ln Gen.Meta.emailToRaw with
        | none =>
          simp only [ok_bind, isNone_none, if_true, dict_setitem_str, pure_ok]
          exact ⟨_, rfl, _, _, rfl, rfl, hdr, unp_set hur ln vals⟩
        | some rn =>
          simp only [ok_bind, isNone_str, Bool.false_eq_true, if_false]
          rw [contains_set_strs _ Gen.Meta.stringFields (by rfl), contains_set_strs _ Gen.Meta.listFields (by rfl)]
          simp only [ok_bind, pure_ok, truthy_bool, len_list, PyRt.eq, eq_int, eq_str, kw_key, pu_key, int_len_one, List.length_map,
            _parse_project_urls_eq_model]
          generalize Gen.Meta.stringFields.contains rn = bsf
          generalize Gen.Meta.listFields.contains rn = blf
          generalize (rn == ofString "keywords") = bkw
          generalize (rn == ofString "project_urls") = bpu
          generalize hpu : parseProjectUrls vals [] = pu
          rcases vals with _ | ⟨v, _ | ⟨w, t⟩⟩
          all_goals
            cases bsf <;> cases blf <;> cases bkw <;> cases bpu <;> cases pu
          all_goals
            simp only [ok_bind, err_bind, pure_ok, throw_err, truthy_bool, List.length_nil, List.length_cons, tryCatch_ok', tryCatch_err', tryCatch_ok, tryCatch_err,
              catches_keyerror, getitem_map_zero, dict_setitem_str, Bool.false_eq_true, if_false, if_true, Bool.and_true, Bool.and_false, Bool.true_and, Bool.false_and,
              _parse_keywords_eq_model, List.headD_cons, len2_ne, len0_ne, len1_eq]
          all_goals
            first
            | exact ⟨_, rfl, _, _, rfl, rfl, hdr, unp_set hur ln _⟩
            | exact ⟨_, rfl, _, _, rfl, rfl, raw_set hdr rn (.str _), hur⟩
            | exact ⟨_, rfl, _, _, rfl, rfl, raw_set hdr rn (.list _), hur⟩
            | exact ⟨_, rfl, _, _, rfl, rfl, raw_set hdr rn (.dict _), hur⟩
            | skip
  case hk =>
    intro hall s' hs'
    obtain ⟨r, u, hr, hu, hdr, hur⟩ := hs'
    simp only at hr hu
    have hpe : parseEmail doc (orderOf doc) = parseTail doc (headerLoop doc (orderOf doc)) := by
      rcases parseEmail_cases doc (orderOf doc) with ⟨x, hx, c, hxc, _⟩ | ⟨_, hpe⟩
      · exact absurd (hall x.1 (mem_orderOf' doc x hx)) (getAll_hasErr doc x hx c hxc)
      · exact hpe
    simp only [hrun, hr, hu, hpe, parseTail_eq, desc_key]
    have hds := headerLoop_descStr doc (orderOf doc)
    change DictRel r (headerLoop doc (orderOf doc)).1 at hdr
    change UnparsedRel u (headerLoop doc (orderOf doc)).2 at hur
    generalize headerLoop doc (orderOf doc) = acc at hdr hur hds ⊢
    cases hgp : getPayload doc.payload with
    | ok s =>
      -- the payload decodes to `s`
      simp only [truthy_str, mergeBody]
      cases hs : s.isEmpty with
      | true => exact ⟨r, u, by simp, hdr, hur⟩
      | false =>
        simp only [Bool.not_false, if_true, Bool.false_eq_true, if_false, dict_contains_rel hdr, ok_bind]
        cases hv : aget descriptionKey acc.1 with
        | some v =>
          obtain ⟨t, rfl⟩ := hds v hv
          obtain ⟨u', he, hrel⟩ := setdefault_extend_rel hur descriptionKey [.str t, .str s]
          simp only [List.map_cons, List.map_nil, encUVal] at he
          simp only [Option.isSome_some, if_true, dict_pop_rel hdr _ _ hv, ok_bind, encVal, he, pure_ok]
          exact ⟨_, _, rfl, ARel_erase hdr _, hrel⟩
        | none =>
          simp only [Option.isSome_none, Bool.false_eq_true, if_false, dict_contains_rel hur, ok_bind]
          cases hw : aget descriptionKey acc.2 with
          | some l =>
            obtain ⟨u', he, hrel⟩ := item_append_rel hur descriptionKey (.str s) l hw
            simp only [encUVal] at he
            simp only [Option.isSome_some, if_true, he, ok_bind, pure_ok]
            refine ⟨_, _, rfl, hdr, ?_⟩
            simpa [extendDescription, hw] using hrel
          | none =>
            simp only [Option.isSome_none, Bool.false_eq_true, if_false, dict_setitem_str, ok_bind, pure_ok]
            exact ⟨_, _, rfl, raw_set hdr descriptionKey (.str s), hur⟩
    | error c =>
      cases hpl : doc.payload with
      | other =>
        simp only [hpl, getPayload, Except.error.injEq] at hgp
        subst hgp
        simp only [catches_value_assert, Bool.false_eq_true, if_false, throw_err, err_bind]
      | str s => simp [hpl, getPayload] at hgp
      | bytes b =>
        have hd : utf8Decode b = none ∧ c = ofString "ValueError" := by
          simp only [hpl, getPayload] at hgp
          cases hd : utf8Decode b with
          | some s => simp [hd] at hgp
          | none => simp only [hd, Except.error.injEq] at hgp; exact ⟨rfl, hgp.symm⟩
        obtain ⟨hd, rfl⟩ := hd
        simp only [catches_value_value, if_true]
        -- the source was `bytes`: the message presents the body as the `decoded` field
        obtain ⟨fs', hfs, _, hp⟩ := hm
        cases hfs
        cases isStr with
        | true =>
          simp only [if_true] at hp
          obtain ⟨v, _, hv⟩ := hp
          rw [hpl] at hv
          rcases hv with ⟨s, h1, _⟩ | ⟨h1, _⟩ <;> cases h1
        | false =>
          simp only [Bool.false_eq_true, if_false] at hp hdata ⊢
          obtain ⟨v, hlv, hv⟩ := hp
          rw [hpl] at hv
          obtain ⟨bs, rfl⟩ := hdata
          rcases hv with ⟨b', h1, rfl, hb256⟩ | ⟨h1, _⟩
          · cases h1
            have hget : msg_get_payload (delCTE fs (encHdrs doc)) (.bool true) = .ok (PyElf.ofBytes b) := by
              simp only [delCTE, msg_get_payload, truthy_bool, if_true, hasHeader_after_del "Message" fs _ _ hh, Bool.false_eq_true, if_false,
                getattr_obj, lookupField_setField']
              simp [hlv]
            simp only [x9_isinstance_bytes, hget, ok_bind, dict_contains_rel hdr]
            cases hv : aget descriptionKey acc.1 with
            | some v =>
              obtain ⟨t, rfl⟩ := hds v hv
              obtain ⟨u1, he1, hrel1⟩ := setdefault_append_rel hur descriptionKey (.str t)
              obtain ⟨u2, he2, hrel2⟩ := setdefault_append_rel hrel1 descriptionKey (.bytes b)
              simp only [encUVal] at he1 he2
              simp only [Option.isSome_some, if_true, dict_pop_rel hdr _ _ hv, ok_bind, encVal, he1, he2, pure_ok]
              refine ⟨_, _, rfl, ARel_erase hdr _, ARel_congr hrel2 (fun k' => ?_)⟩
              simp only [extendDescription, aget_aset, if_true, Option.getD_some, List.append_assoc, List.cons_append, List.nil_append]
              by_cases e : descriptionKey = k' <;> simp [e]
            | none =>
              obtain ⟨u2, he2, hrel2⟩ := setdefault_append_rel hur descriptionKey (.bytes b)
              simp only [encUVal] at he2
              simp only [Option.isSome_none, Bool.false_eq_true, if_false, he2, ok_bind, pure_ok]
              exact ⟨_, _, rfl, hdr, hrel2⟩
          · cases h1


/-- the special case without `Header` objects (kept under its first name): a corollary of `parse_email_eq_model` -/
theorem parse_email_eq_model_partial (ext : PyRt.Oracle) (data m : PyVal) (doc : Doc) (isStr : Bool)
    (hdata : if isStr then ∃ s, data = .str s else ∃ b, data = PyElf.ofBytes b)
    (hext : ext (if isStr then "email.parser.Parser(policy=email.policy.compat32).parsestr(_, headersonly=True)"
      else "email.parser.BytesParser(policy=email.policy.compat32).parsebytes(_, headersonly=True)") [data] = .ok m)
    (hm : MsgRel m doc isStr)
    (hlower : ∀ s, ext "str.lower" [.str s] = .ok (.str (lowerStr s)))
    (hstr : StrOnly doc) :
    match parseEmail doc (orderOf doc) with
    | .ok (d, u) => ∃ r un, Gen.PySrc.parse_email ext data = .ok (.tuple [.dict r, .dict un]) ∧ DictRel r d ∧ UnparsedRel un u
    | .error c => Gen.PySrc.parse_email ext data = .error (toStringLossy c) := by
  refine parse_email_eq_model ext data m doc isStr hdata hext hm hlower ?_ ?_
  · intro h hh cs hcs
    obtain ⟨s, hs⟩ := hstr h hh
    rw [hs] at hcs; cases hcs
  · intro h hh h' hh' c c' hc _
    obtain ⟨s, hs⟩ := hstr h hh
    rw [hs] at hc; cases hc

/-- the hypotheses of `parse_email_eq_model` can be met (a `str` header, a `Header` object with an undecodable chunk, a body) -/
example : ∃ (ext : PyRt.Oracle) (data m : PyVal) (doc : Doc),
    (∃ s, data = .str s) ∧
    ext "email.parser.Parser(policy=email.policy.compat32).parsestr(_, headersonly=True)" [data] = .ok m ∧
    MsgRel m doc true ∧ (∀ s, ext "str.lower" [.str s] = .ok (.str (lowerStr s))) ∧ ChunksOK doc ∧ ErrsEqual doc ∧
    doc.hdrs.length = 2 := by
  let doc : Doc := ⟨[(ofString "Name", .str (ofString "foo")), (ofString "Summary", .hdr [[255], [97]])], .str (ofString "body")⟩
  let m : PyVal := .obj "Message" [("headers", .list (encHdrs doc)), ("payload", .str (ofString "body"))]
  refine ⟨fun k args => if k = "str.lower" then (match args with | [.str s] => .ok (.str (lowerStr s)) | _ => .error "TypeError") else .ok m,
    .str [], m, doc, ⟨[], rfl⟩, by simp, ⟨_, rfl, by simp [m], ?_⟩, fun s => by simp, ?_, ?_, rfl⟩
  · simp only [if_true]
    exact ⟨.str (ofString "body"), by simp [m], .inl ⟨ofString "body", rfl, rfl⟩⟩
  · intro h hh cs hcs b hb x hx
    simp only [doc, List.mem_cons, List.not_mem_nil, or_false] at hh
    rcases hh with rfl | rfl
    · cases hcs
    · cases hcs
      simp only [List.mem_cons, List.not_mem_nil, or_false] at hb
      rcases hb with rfl | rfl <;> simp only [List.mem_singleton] at hx <;> omega
  · intro h hh h' hh' c c' hc _
    simp only [doc, List.mem_cons, List.not_mem_nil, or_false] at hh
    rcases hh with rfl | rfl <;> cases hc

end Src
