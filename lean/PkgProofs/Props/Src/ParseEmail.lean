import PkgProofs.Props.Src.Metadata
import PkgProofs.Props.Src.X7Payload
import PkgProofs.Lemmas.Assoc
import PkgProofs.Lemmas.ReqBasic
import PkgModel.PyX9
/-!
# Translated source of `packaging.metadata.parse_email` = the model's `Email.parseEmail` (x9)

`Gen.PySrc.parse_email ext data` is the Lean translation of the current Python source.  The standard-library parser is an
oracle call whose answer is a message value (`obj "Message" …`, see `PkgModel/PyX7.lean`); `MsgRel` says which `Email.Doc`
such a value presents.  The two result dicts are compared with the model's association lists through look-ups
(`DictRel`, `UnparsedRel`): Python keeps insertion order, the model's `aset` puts a key in front, positions are not related.
-/
namespace Src
open PyRt Py PyX7 PyX9 Email Meta MetaP
set_option linter.unusedSimpArgs false
set_option linter.unusedVariables false

theorem parse_email_translated : Gen.PySrc.parse_email_supported = true := rfl
theorem _get_payload__io_translated : Gen.PySrc._get_payload__io_supported = true := rfl

/-! ## what the theorems assume: the encodings -/

/-- a header value as `get_all` presents it -/
def encHVal : HVal → PyVal
  | .str s => .str s
  | .hdr chunks => .obj "Header" [("chunks", .list (chunks.map PyElf.ofBytes))]
  | .err c => .obj "HeaderErr" [("cls", .str c)]

/-- the header list of the message: `(name, value)` in document order -/
def encHdrs (doc : Doc) : List PyVal := doc.hdrs.map fun h => .tuple [.str h.1, encHVal h.2]

/-- `get_payload()` of a message parsed from a `str`: a `str`, or something that is not a `str` (`Payload.other`) -/
def PayRelStr (v : PyVal) (p : Payload) : Prop :=
  (∃ s, p = .str s ∧ v = .str s) ∨ (p = .other ∧ isinstance v ["str"] = false)

/-- `get_payload(decode=True)` (no `Content-Transfer-Encoding` header left) of a message parsed from `bytes`: a `bytes`
object, or something that is not `bytes` (`Payload.other`) -/
def PayRelBytes (v : PyVal) (p : Payload) : Prop :=
  (∃ b, p = .bytes b ∧ v = PyElf.ofBytes b ∧ ∀ x ∈ b, x < 256) ∨ (p = .other ∧ isinstance v ["bytes"] = false)

/-- the message value `m` presents the document `doc` (`isStr`: the source was a `str`): its `headers` field is the header
list of `doc`, its `payload` (`str` source) / `decoded` (`bytes` source) field is `doc.payload` -/
def MsgRel (m : PyVal) (doc : Doc) (isStr : Bool) : Prop :=
  ∃ fs, m = .obj "Message" fs ∧ lookupField fs "headers" = some (.list (encHdrs doc)) ∧
    (if isStr then ∃ v, lookupField fs "payload" = some v ∧ PayRelStr v doc.payload
     else ∃ v, lookupField fs "decoded" = some v ∧ PayRelBytes v doc.payload)

/-- the bytes of every `Header` chunk are bytes (so that the document is the image of a real message) -/
def ChunksOK (doc : Doc) : Prop := ∀ h ∈ doc.hdrs, ∀ cs, h.2 = .hdr cs → ∀ b ∈ cs, ∀ x ∈ b, x < 256

/-- first occurrences, in order, after the members of `acc` (what `frozenset(list)` keeps: `PyRx.dedupM`) -/
def dedupAcc : List Str → List Str → List Str
  | acc, [] => acc
  | acc, x :: xs => if x ∈ acc then dedupAcc acc xs else dedupAcc (acc ++ [x]) xs

/-- the order in which the translated loop visits the header names: `sorted(frozenset(parsed.keys()))` -/
def orderOf (doc : Doc) : List Str := sortBy strLe (dedupAcc [] doc.names)

def encVal : Val → PyVal
  | .none => .none
  | .str s => .str s
  | .list l => .list (l.map .str)
  | .dict d => dictOf d

def encUVal : UVal → PyVal
  | .str s => .str s
  | .bytes b => PyElf.ofBytes b

def encUList (l : List UVal) : PyVal := .list (l.map encUVal)

/-- a Python dict with `str` keys as the image of a typed association list -/
def encKVs {β : Type} (enc : β → PyVal) (ks : List (Str × β)) : List (PyVal × PyVal) := ks.map fun p => (.str p.1, enc p.2)

/-- the items `kvs` of a Python dict and the model's association list `d` agree: `kvs` has pairwise distinct `str` keys and
values in the image of `enc` (`kvs = encKVs enc ks`, `ks` without repeated key), and every look-up gives the same answer -/
def ARel {β : Type} (enc : β → PyVal) (kvs : List (PyVal × PyVal)) (d : List (Str × β)) : Prop :=
  ∃ ks, kvs = encKVs enc ks ∧ (ks.map (·.1)).Nodup ∧ ∀ k, aget k ks = aget k d

def DictRel (kvs : List (PyVal × PyVal)) (d : Dict) : Prop := ARel encVal kvs d
def UnparsedRel (kvs : List (PyVal × PyVal)) (u : Unparsed) : Prop := ARel encUList kvs u

/-! ## `_get_payload` with the message as state -/


def runS {α : Type} (x : SM α) (m : PyVal) : Except PyExc α × PyVal := (ExceptT.run x).run m

theorem runSM_eq (x : SM PyVal) (m : PyVal) : runSM x m = runS x m := rfl
theorem runS_bind {α β : Type} (x : SM α) (f : α → SM β) (m : PyVal) :
    runS (x >>= f) m = match runS x m with
      | (.ok a, m') => runS (f a) m'
      | (.error e, m') => (.error e, m') := by
  simp only [runS, bind, ExceptT.bind, ExceptT.run, ExceptT.mk, StateT.bind, StateT.run]
  cases h : x m with
  | mk a s => cases a <;> rfl
theorem runS_pure {α : Type} (a : α) (m : PyVal) : runS (pure a : SM α) m = (.ok a, m) := rfl
theorem runS_throw {α : Type} (e : PyExc) (m : PyVal) : runS (throw e : SM α) m = (.error e, m) := rfl
theorem runS_get (m : PyVal) : runS (get : SM PyVal) m = (.ok m, m) := rfl
theorem runS_set (v m : PyVal) : runS (set v : SM PUnit) m = (.ok ⟨⟩, v) := rfl
theorem runS_lift {α : Type} (x : M α) (m : PyVal) : runS (liftM x : SM α) m = (x, m) := rfl
theorem runS_tryCatch {α : Type} (x : SM α) (h : PyExc → SM α) (m : PyVal) :
    runS (tryCatch x h) m = match runS x m with
      | (.ok a, m') => (.ok a, m')
      | (.error e, m') => runS (h e) m' := by
  simp only [runS, tryCatch, tryCatchThe, MonadExceptOf.tryCatch, ExceptT.tryCatch, ExceptT.run, ExceptT.mk, StateT.bind, StateT.run, bind]
  cases h : x m with
  | mk a s => cases a <;> rfl

/-- the message after `del msg["content-transfer-encoding"]` -/
def delCTE (fs : List (String × PyVal)) (hs : List PyVal) : PyVal :=
  .obj "Message" (setField fs "headers" (.list (hs.filter fun x =>
    lowerStr (headerName x) != lowerStr (ofString "content-transfer-encoding"))))

theorem x9_isinstance_bytes (b : List Nat) : isinstance (PyElf.ofBytes b) ["bytes"] = true := by rfl
theorem x9_isinstance_bytes_str (b : List Nat) : isinstance (PyElf.ofBytes b) ["str"] = false := by rfl
theorem x9_isinstance_str_bytes (s : Str) : isinstance (.str s) ["bytes"] = false := by rfl

/-- `_get_payload(msg, source)` for a `str` source: the outcome of the model's `getPayload`; the message is unchanged -/
theorem _get_payload__io_eq_model_str (fs : List (String × PyVal)) (src : Str) (v : PyVal) (p : Payload)
    (hp : lookupField fs "payload" = some v) (hv : PayRelStr v p) :
    runSM (Gen.PySrc._get_payload__io (.str src)) (.obj "Message" fs) =
      ((match getPayload p with
        | .ok s => .ok (.str s)
        | .error c => .error (toStringLossy c)), .obj "Message" fs) := by
  unfold Gen.PySrc._get_payload__io
  simp only [x7_isinstance_str, truthy_bool, if_true, runSM_eq, runS_bind, runS_get, runS_lift,
    msg_get_payload, Bool.false_eq_true, if_false, getattr_obj, hp, pure_ok]
  rcases hv with ⟨s, rfl, rfl⟩ | ⟨rfl, h⟩
  · simp only [x7_isinstance_str, Bool.not_true, Bool.false_eq_true, if_false, runS_pure, getPayload]
  · simp only [h, Bool.not_false, if_true, runS_bind, runS_throw, getPayload]
    rfl

/-- `_get_payload(msg, source)` for a source that is not a `str`: the `Content-Transfer-Encoding` headers are deleted from the
message (also when the call raises), then `get_payload(decode=True)` must be `bytes`, decoded strictly as UTF-8 -/
theorem _get_payload__io_eq_model_bytes (fs : List (String × PyVal)) (hs : List PyVal) (source v : PyVal) (p : Payload)
    (hsrc : isinstance source ["str"] = false)
    (hh : lookupField fs "headers" = some (.list hs)) (hd : lookupField fs "decoded" = some v) (hv : PayRelBytes v p) :
    runSM (Gen.PySrc._get_payload__io source) (.obj "Message" fs) =
      ((match getPayload p with
        | .ok s => .ok (.str s)
        | .error c => .error (toStringLossy c)), delCTE fs hs) := by
  unfold Gen.PySrc._get_payload__io
  have hdel : msg_del (.obj "Message" fs) (.str (ofString "content-transfer-encoding")) = .ok (delCTE fs hs) := by
    simp [msg_del, msgHeaders, hh, delCTE]
  have hget : msg_get_payload (delCTE fs hs) (.bool true) = .ok v := by
    simp only [delCTE, msg_get_payload, truthy_bool, if_true, hasHeader_after_del "Message" fs hs _ hh, Bool.false_eq_true, if_false,
      getattr_obj, lookupField_setField']
    simp [hd]
  simp only [hsrc, truthy_bool, if_true, runSM_eq, runS_bind, runS_get, runS_lift, runS_set,
    Bool.false_eq_true, if_false, hdel, hget]
  rcases hv with ⟨b, rfl, rfl, hb256⟩ | ⟨rfl, h⟩
  · have hb : PyElf.bytesOf (PyElf.ofBytes b) = some b := PyElf.bytesOf_ofBytes b hb256
    simp only [x9_isinstance_bytes, Bool.not_true, Bool.false_eq_true, if_false, bytes_decode_utf8, hb, getPayload]
    cases utf8Decode b with
    | some s => rfl
    | none => rfl
  · simp only [h, Bool.not_false, if_true, runS_bind, runS_throw, getPayload]
    rfl


/-- `_get_payload(msg, source)` on a message that presents `doc`: the model's outcome, and the message afterwards -/
theorem _get_payload__io_eq_model (m data : PyVal) (doc : Doc) (isStr : Bool) (hm : MsgRel m doc isStr)
    (hdata : if isStr then ∃ s, data = .str s else ∃ b, data = PyElf.ofBytes b) :
    ∃ fs, m = .obj "Message" fs ∧ lookupField fs "headers" = some (.list (encHdrs doc)) ∧
      runSM (Gen.PySrc._get_payload__io data) m =
        ((match getPayload doc.payload with
          | .ok s => .ok (.str s)
          | .error c => .error (toStringLossy c)), if isStr then m else delCTE fs (encHdrs doc)) := by
  obtain ⟨fs, rfl, hh, hp⟩ := hm
  refine ⟨fs, rfl, hh, ?_⟩
  cases isStr with
  | true =>
    simp only [if_true] at hp hdata ⊢
    obtain ⟨v, hv, hr⟩ := hp
    obtain ⟨s, rfl⟩ := hdata
    exact _get_payload__io_eq_model_str fs s v doc.payload hv hr
  | false =>
    simp only [Bool.false_eq_true, if_false] at hp hdata ⊢
    obtain ⟨v, hv, hr⟩ := hp
    obtain ⟨b, rfl⟩ := hdata
    exact _get_payload__io_eq_model_bytes fs _ _ v doc.payload (x9_isinstance_bytes_str b) hh hv hr

end Src
