import PkgProofs.Props.Src.PlatEnv
/-!
# Translated source of `_manylinux.py` (glibc probes, policy module, ELF ABI checks) = the model (`PkgModel/Platform.lean`, C16)

`_get_glibc_version`, `_is_compatible`, `_is_linux_armhf`, `_is_linux_i686`, `_have_compatible_abi`, for every environment
table that answers the Linux probes as the record `cfg` says (`LinuxEnv env cfg exe`).  `_manylinux.platform_tags` is in
`Src/PlatMany.lean`.
-/
namespace Src
open PyRt PyRx Py Plat Elf
set_option linter.unusedSimpArgs false

theorem _glibc_version_string_eq_model_env (env : Env) (cfg : LCfg) (exe : Str) (he : LinuxEnv env cfg exe) :
    Gen.PySrc._glibc_version_string env = .ok (ofOptStr (glibcVersionString cfg.confstr cfg.ctypesVersion)) := by
  unfold Gen.PySrc._glibc_version_string glibcVersionString
  cases h : glibcVersionStringConfstr cfg.confstr with
  | none => simp [he.confstr, he.ctypes, h, ofOptStr]
  | some v => cases v <;> simp [he.confstr, he.ctypes, h, ofOptStr]

theorem _get_glibc_version_eq_model (env : Env) (cfg : LCfg) (exe : Str) (he : LinuxEnv env cfg exe) :
    Gen.PySrc._get_glibc_version env = .ok (ofPair (getGlibcVersion cfg.confstr cfg.ctypesVersion)) := by
  unfold Gen.PySrc._get_glibc_version getGlibcVersion
  rw [_glibc_version_string_eq_model_env env cfg exe he]
  cases glibcVersionString cfg.confstr cfg.ctypesVersion with
  | none => simp [ofOptStr, ofPair]
  | some s => simp [ofOptStr, ofPair, _parse_glibc_version_eq_model]

private theorem earlyReturn_eq' {ρ α : Type} (r : ρ) :
    (EarlyReturnT.return r : EarlyReturnT ρ M α) = (Except.ok (Except.error r) : M (Except ρ α)) := by rfl
private theorem runK_ok' {ρ α β : Type} (a : α) (ret : ρ → β) (k : α → β) : EarlyReturn.runK (Except.ok a) ret k = k a := by rfl
private theorem runK_error' {ρ α β : Type} (r : ρ) (ret : ρ → β) (k : α → β) : EarlyReturn.runK (Except.error r) ret k = ret r := by
  rfl
private theorem exceptT_run_pure' {ρ α : Type} (a : α) :
    ExceptT.run (pure a : ExceptT ρ M α) = (Except.ok (Except.ok a) : M (Except ρ α)) := by rfl
private theorem exceptT_run_pure'' {ρ α : Type} (a : α) :
    ExceptT.run (pure a : EarlyReturnT ρ M α) = (Except.ok (Except.ok a) : M (Except ρ α)) := by rfl
private theorem exceptT_run_state_pure {ρ σ α : Type} (a : α) (s : σ) :
    ExceptT.run ((pure a : StateT σ (EarlyReturnT ρ M) α) s) = (Except.ok (Except.ok (a, s)) : M (Except ρ (α × σ))) := by rfl
theorem toStringLossy_ImportError : toStringLossy (ofString "ImportError") = "ImportError" := by decide

/-- `a < b` on two int pairs -/
theorem cmp_lt_pair (a b : Int × Int) : cmp .lt (ofPair a) (ofPair b) = .ok (pairLt a b) := by
  simp only [ofPair, cmp, cmpSeq, eq_int, pairLt]
  by_cases h : a.1 = b.1
  · by_cases h' : a.2 = b.2
    · simp [h, h', Cmp.onLen]
    · have : (a.2 == b.2) = false := by simpa using h'
      simp [h, this, asInt, Cmp.onInt]
  · have : (a.1 == b.1) = false := by simpa using h
    simp [this, asInt, Cmp.onInt]


theorem env_import_raise (env : Env) (name : String) (c : Str)
    (h : env_get env ("import " ++ name) = .ok (.obj "raise" [("cls", .str c)])) :
    PyPlat.env_import env name = .error (toStringLossy c) := by
  simp only [PyPlat.env_import, h, ok_bind]; rfl

theorem env_import_module (env : Env) (name : String) (fs : List (String × PyVal))
    (h : env_get env ("import " ++ name) = .ok (.obj "module" fs)) :
    PyPlat.env_import env name = .ok (.obj "module" fs) := by
  simp only [PyPlat.env_import, h, ok_bind]
  split
  · rename_i heq; simp at heq
  · rfl

theorem eq_pair (a b : Int × Int) : PyVal.eq (ofPair a) (ofPair b) = (a == b) := by
  obtain ⟨a1, a2⟩ := a
  obtain ⟨b1, b2⟩ := b
  simp only [ofPair, PyVal.eq, eqList, eq_int, Bool.and_true]
  rfl

theorem ofPair_lit (a b : Int) : PyVal.tuple [.int a, .int b] = ofPair (a, b) := rfl


@[simp] theorem hasattr_obj (c : String) (fs : List (String × PyVal)) (n : String) :
    PyPlat.hasattr (.obj c fs) n = .bool (lookupField fs n).isSome := by rfl
@[simp] theorem getitem_ofPair_zero (v : Int × Int) : getitem (ofPair v) (.int 0) = .ok (.int v.1) := by
  simp [ofPair]
@[simp] theorem getitem_ofPair_one (v : Int × Int) : getitem (ofPair v) (.int 1) = .ok (.int v.2) := by
  simp [ofPair]


/-- the call table of `manylinux_compatible` answers as the model's rule list -/
theorem callFind_rules (a b : Int) (ha : 0 ≤ a) (hb : 0 ≤ b) (arch : Str) (d : Option Bool)
    (rules : List ((Nat × Nat × Str) × Option Bool)) :
    PyPlat.callFind [.int a, .int b, .str arch] (ofOptBool d) (ofRules rules) =
      .ok (ofOptBool (match rules.lookup (a.toNat, b.toNat, arch) with | some r => r | none => d)) := by
  induction rules with
  | nil => rfl
  | cons r rs ih =>
    obtain ⟨⟨x, y, s⟩, res⟩ := r
    simp only [ofRules, List.map_cons] at ih ⊢
    simp only [PyPlat.callFind, PyVal.eq, eqList, eq_int, eq_str, Bool.and_true, List.lookup]
    have hx : ((x : Int) == a) = (a.toNat == x) := by
      rw [Bool.eq_iff_iff]; simp only [beq_iff_eq]; omega
    have hy : ((y : Int) == b) = (b.toNat == y) := by
      rw [Bool.eq_iff_iff]; simp only [beq_iff_eq]; omega
    have hs : (s == arch) = (arch == s) := by
      rw [Bool.eq_iff_iff]; simp only [beq_iff_eq]; exact eq_comm
    have hk : ((a.toNat, b.toNat, arch) == (x, y, s)) = ((a.toNat == x) && ((b.toNat == y) && (arch == s))) := by
      rfl
    rw [hx, hy, hs, hk]
    cases (a.toNat == x && (b.toNat == y && arch == s))
    · simp only [Bool.false_eq_true, if_false]; exact ih
    · simp
theorem _is_compatible_eq_model (env : Env) (cfg : LCfg) (exe : Str) (he : LinuxEnv env cfg exe) (arch : Str) (v : Int × Int) (h1 : 0 ≤ v.1) (h2 : 0 ≤ v.2) :
    Gen.PySrc._is_compatible env (.str arch) (ofPair v) = .ok (.bool (isCompatible cfg arch v)) := by
  unfold Gen.PySrc._is_compatible isCompatible
  simp only [_get_glibc_version_eq_model env cfg exe he, ok_bind, cmp_lt_pair]
  cases hlt : pairLt (getGlibcVersion cfg.confstr cfg.ctypesVersion) v
  · simp only [Bool.false_eq_true, if_false]
    obtain ⟨pv, hget, hpol⟩ := he.policy
    generalize cfg.policy = pol at hpol ⊢
    cases pol with
    | absent =>
      simp only [IsPolicy] at hpol
      subst hpol
      rw [env_import_raise env "_manylinux" _ hget]
      simp [earlyReturn_eq', runK_error', catches, toStringLossy_ImportError]
    | func dflt rules =>
      obtain ⟨fs, rfl, hf⟩ := hpol
      rw [env_import_module env "_manylinux" _ hget]
      simp only [ok_bind, exceptT_run_state_pure, tryCatch_ok']
      rw [runK_ok']
      simp only [ hasattr_obj, hf, Option.isSome_some, truthy_bool, if_true, getitem_ofPair_zero, getitem_ofPair_one,
        PyPlat.call_attr, getattr_obj, ok_bind]
      rw [callFind_rules _ _ h1 h2]
      cases hL : List.lookup (v.fst.toNat, v.snd.toNat, arch) rules with
      | none => cases dflt <;> simp [ofOptBool]
      | some r => cases r <;> simp [ofOptBool]
    | legacy m1 m2010 m2014 =>
      obtain ⟨fs, rfl, hf, hm1, hm2, hm3⟩ := hpol
      rw [env_import_module env "_manylinux" _ hget]
      simp only [ok_bind, exceptT_run_state_pure, tryCatch_ok']
      rw [runK_ok']
      simp only [ hasattr_obj, hf, hm1, hm2, hm3, Option.isSome_none, truthy_bool, Bool.false_eq_true, if_false,
        ofPair_lit, eq_pair, getattr_obj]
      cases m1 <;> cases m2010 <;> cases m2014 <;>
        (by_cases e1 : v = (2, 5) <;> by_cases e2 : v = (2, 12) <;> by_cases e3 : v = (2, 17) <;> simp_all)
  · simp

/-! ### `_is_linux_armhf`, `_is_linux_i686` -/

theorem bitand_nat (a : Nat) (i : Int) (k : Nat) (h : i = (k : Int)) :
    PyPlat.bitand (.int a) (.int i) = .ok (.int ((a &&& k : Nat))) := by
  subst h
  have ha : ¬ ((a : Int) < 0) := by omega
  have hb : ¬ ((k : Int) < 0) := by omega
  simp [PyPlat.bitand, asInt, ha, hb]

theorem eq_nat_int (a : Nat) (i : Int) (k : Nat) (h : i = (k : Int)) : PyRt.eq (.int a) (.int i) = .bool (a == k) := by
  subst h
  simp only [PyRt.eq, eq_int]
  congr 1
  rw [Bool.eq_iff_iff]; simp only [beq_iff_eq]; omega

@[simp] theorem isNone_ofHeader (f : Header) : isNone (ofHeader f) = false := by rfl
@[simp] theorem getattr_ofHeader_capacity (f : Header) : getattr (ofHeader f) "capacity" = .ok (.int f.capacity) := by rfl
@[simp] theorem getattr_ofHeader_encoding (f : Header) : getattr (ofHeader f) "encoding" = .ok (.int f.encoding) := by rfl
@[simp] theorem getattr_ofHeader_machine (f : Header) : getattr (ofHeader f) "machine" = .ok (.int f.machine) := by rfl
@[simp] theorem getattr_ofHeader_flags (f : Header) : getattr (ofHeader f) "flags" = .ok (.int f.flags) := by rfl

theorem _is_linux_armhf_eq_model (env : Env) (cfg : LCfg) (exe : Str) (he : LinuxEnv env cfg exe) :
    Gen.PySrc._is_linux_armhf env (.str exe) = .ok (.bool (isLinuxArmhf cfg)) := by
  unfold Gen.PySrc._is_linux_armhf isLinuxArmhf
  rw [he.elf]
  cases parseExe cfg with
  | none => simp [ofOptHeader, is_not_none]
  | some f =>
    simp only [ofOptHeader, ok_bind, is_not_none, isNone_ofHeader, Bool.not_false, truthy_bool, if_true, pure_ok,
      getattr_ofHeader_capacity, getattr_ofHeader_encoding, getattr_ofHeader_machine, getattr_ofHeader_flags,
      eq_nat_int _ 1 1 rfl, eq_nat_int _ 40 40 rfl, eq_nat_int _ 83886080 83886080 rfl, eq_nat_int _ 1024 1024 rfl,
      bitand_nat _ 4278190080 4278190080 rfl, bitand_nat _ 1024 1024 rfl,
      Gen.TagTables.eiClass32, Gen.TagTables.eiDataLsb, Gen.TagTables.emArm, Gen.TagTables.efArmAbiMask,
      Gen.TagTables.efArmAbiVer5, Gen.TagTables.efArmAbiFloatHard]
    cases f.capacity == 1 <;> cases f.encoding == 1 <;> cases f.machine == 40 <;>
      cases f.flags &&& 4278190080 == 83886080 <;> simp

theorem _is_linux_i686_eq_model (env : Env) (cfg : LCfg) (exe : Str) (he : LinuxEnv env cfg exe) :
    Gen.PySrc._is_linux_i686 env (.str exe) = .ok (.bool (isLinuxI686 cfg)) := by
  unfold Gen.PySrc._is_linux_i686 isLinuxI686
  rw [he.elf]
  cases parseExe cfg with
  | none => simp [ofOptHeader, is_not_none]
  | some f =>
    simp only [ofOptHeader, ok_bind, is_not_none, isNone_ofHeader, Bool.not_false, truthy_bool, if_true, pure_ok,
      getattr_ofHeader_capacity, getattr_ofHeader_encoding, getattr_ofHeader_machine,
      eq_nat_int _ 1 1 rfl, eq_nat_int _ 3 3 rfl,
      Gen.TagTables.eiClass32, Gen.TagTables.eiDataLsb, Gen.TagTables.emI386]
    cases f.capacity == 1 <;> cases f.encoding == 1 <;> simp

/-! ### `_have_compatible_abi` -/

theorem contains_ofStrs (l : List Str) (x : Str) : PyRt.contains (ofStrs l) (.str x) = .ok (l.contains x) := by
  simp only [PyRt.contains, ofStrs, pure_ok]
  congr 1
  induction l with
  | nil => rfl
  | cons a as ih =>
    simp only [List.map_cons, List.any_cons, ih, List.contains_cons, eq_str]

theorem _have_compatible_abi_eq_model (env : Env) (cfg : LCfg) (exe : Str) (he : LinuxEnv env cfg exe) (archs : List Str) :
    Gen.PySrc._have_compatible_abi env (.str exe) (ofStrs archs) = .ok (.bool (haveCompatibleAbi cfg archs)) := by
  unfold Gen.PySrc._have_compatible_abi haveCompatibleAbi
  simp only [contains_ofStrs, ok_bind, show ofString "armv7l" = sArmv7l from rfl, show ofString "i686" = sI686 from rfl]
  cases h1 : archs.contains sArmv7l
  · cases h2 : archs.contains sI686
    · simp only [Bool.false_eq_true, if_false]
      have hmem : ∀ a : Str, ([ofString "x86_64", ofString "aarch64", ofString "ppc64", ofString "ppc64le", ofString "s390x",
          ofString "loongarch64", ofString "riscv64"] : List Str).contains a = Gen.TagTables.allowedArchs.contains a := by
        intro a
        rw [Bool.eq_iff_iff]
        simp only [List.contains_iff_mem, Gen.TagTables.allowedArchs, List.mem_cons, List.not_mem_nil, or_false,
          show ofString "x86_64" = [120, 56, 54, 95, 54, 52] from by decide,
          show ofString "aarch64" = [97, 97, 114, 99, 104, 54, 52] from by decide,
          show ofString "ppc64" = [112, 112, 99, 54, 52] from by decide,
          show ofString "ppc64le" = [112, 112, 99, 54, 52, 108, 101] from by decide,
          show ofString "s390x" = [115, 51, 57, 48, 120] from by decide,
          show ofString "loongarch64" = [108, 111, 111, 110, 103, 97, 114, 99, 104, 54, 52] from by decide,
          show ofString "riscv64" = [114, 105, 115, 99, 118, 54, 52] from by decide]
        grind
      simp only [any_gen, ofStrs, iterate_list, ok_bind, pure_ok]
      rw [anyM_ok _ (fun x => match x with | .str a => Gen.TagTables.allowedArchs.contains a | _ => false)]
      · simp [List.any_map, Function.comp_def]
      · intro x hx
        simp only [List.mem_map] at hx
        obtain ⟨a, _, rfl⟩ := hx
        simp only [in_, PyRt.contains, pure_ok, ok_bind, ← hmem a]
        simp only [List.any_cons, List.any_nil, eq_str, List.contains_cons, List.contains_nil]
    · simp [_is_linux_i686_eq_model env cfg exe he]
  · simp [_is_linux_armhf_eq_model env cfg exe he]

/-! ### `range(hi, lo, -1)` = `Plat.downFrom hi lo` -/

theorem pyRangeDown_downFrom (lo : Int) : ∀ (n : Nat) (hi : Int), n = (hi - lo).toNat →
    PyRt.rangeDown n hi lo (-1) = (List.range n).map (fun (k : Nat) => PyVal.int (hi - (k : Int))) := by
  intro n
  induction n with
  | zero => intro hi _; rfl
  | succ n ih =>
    intro hi hn
    have hgt : hi > lo := by omega
    simp only [PyRt.rangeDown, hgt, if_true, List.range_succ_eq_map, List.map_cons, List.map_map]
    rw [ih (hi + -1) (by omega)]
    simp only [Function.comp_def]
    congr 1
    · congr 1; omega
    · apply List.map_congr_left
      intro k _
      congr 1
      omega

theorem range3_downFrom (hi lo : Int) :
    range3 (.int hi) (.int lo) (.int (-1)) = .ok (.iter ((downFrom hi lo).map .int)) := by
  simp only [range3, show ((-1 : Int) == 0) = false from rfl, Bool.false_eq_true, if_false,
    show ¬ ((-1 : Int) > 0) from by omega, pure_ok, pyRangeDown_downFrom lo _ hi rfl, downFrom, List.map_map, Function.comp_def]

theorem mem_downFrom (hi lo x : Int) : x ∈ downFrom hi lo ↔ lo < x ∧ x ≤ hi := by
  simp only [downFrom, List.mem_map, List.mem_range]
  constructor
  · rintro ⟨k, hk, rfl⟩; omega
  · intro h; exact ⟨(hi - x).toNat, by omega, by omega⟩

theorem downFrom_eq_nil (hi lo : Int) (h : hi ≤ lo) : downFrom hi lo = [] := by
  have : (hi - lo).toNat = 0 := by omega
  simp [downFrom, this]

/-! ### translated, and the hypotheses are satisfiable -/

theorem _get_glibc_version_translated : Gen.PySrc._get_glibc_version_supported = true := rfl
theorem _is_compatible_translated : Gen.PySrc._is_compatible_supported = true := rfl
theorem _is_linux_armhf_translated : Gen.PySrc._is_linux_armhf_supported = true := rfl
theorem _is_linux_i686_translated : Gen.PySrc._is_linux_i686_supported = true := rfl
theorem _have_compatible_abi_translated : Gen.PySrc._have_compatible_abi_supported = true := rfl


/-- a glibc 2.31 machine whose `_manylinux` module vetoes `manylinux2014` on x86_64 -/
def glibcExampleCfg : LCfg :=
  { exe := none, confstr := some (ofString "glibc 2.31"), ctypesVersion := none,
    policy := .func none [((2, 17, ofString "x86_64"), some false)], ldStderr := [] }

private theorem isPolicy_policyValue' (p : Policy) : IsPolicy (policyValue p) p := by
  cases p with
  | absent => rfl
  | func d r => exact ⟨_, rfl, by simp [lookupField]⟩
  | legacy m1 m2 m3 =>
    refine ⟨_, rfl, ?_⟩
    cases m1 <;> cases m2 <;> cases m3 <;> simp [lookupField]

/-- the concrete table `linuxEnvOf cfg exe` answers as `cfg` says (also proved in `Src/PlatMusl.lean`; restated here so
that this file stands alone) -/
private theorem linuxEnv_of' (cfg : LCfg) (exe : Str) : LinuxEnv (linuxEnvOf cfg exe) cfg exe where
  exePath := by rfl
  musl := by simp [linuxEnvOf, env_call, env_get, env_call.find, row, PyVal.eq, eqList]
  elf := by simp [linuxEnvOf, env_call, env_get, env_call.find, row, PyVal.eq, eqList]
  confstr := by simp [linuxEnvOf, env_call, env_get, env_call.find, row, PyVal.eq, eqList]
  ctypes := by simp [linuxEnvOf, env_call, env_get, env_call.find, row, PyVal.eq, eqList]
  policy := ⟨policyValue cfg.policy, by rfl, isPolicy_policyValue' _⟩

example : LinuxEnv (linuxEnvOf glibcExampleCfg (ofString "/usr/bin/python3")) glibcExampleCfg (ofString "/usr/bin/python3") :=
  linuxEnv_of' _ _
example : getGlibcVersion glibcExampleCfg.confstr glibcExampleCfg.ctypesVersion = (2, 31) := by decide +kernel
example : (0 : Int) ≤ ((2, 17) : Int × Int).1 ∧ (0 : Int) ≤ ((2, 17) : Int × Int).2 := by decide
example : isCompatible glibcExampleCfg (ofString "x86_64") (2, 17) = false := by decide +kernel
example : isCompatible glibcExampleCfg (ofString "x86_64") (2, 28) = true := by decide +kernel
example : isCompatible glibcExampleCfg (ofString "x86_64") (2, 32) = false := by decide +kernel
example : Gen.PySrc._is_compatible (linuxEnvOf glibcExampleCfg (ofString "/usr/bin/python3")) (.str (ofString "x86_64")) (ofPair (2, 17))
    = .ok (.bool false) := by
  rw [_is_compatible_eq_model _ _ _ (linuxEnv_of' _ _) _ _ (by decide) (by decide),
    show isCompatible glibcExampleCfg (ofString "x86_64") (2, 17) = false from by decide +kernel]
example : haveCompatibleAbi glibcExampleCfg [ofString "x86_64"] = true := by decide +kernel
example : haveCompatibleAbi glibcExampleCfg [ofString "armv7l"] = false := by decide +kernel

end Src
