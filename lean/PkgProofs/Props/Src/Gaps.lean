import PkgModel.Generated.PySrc
import PkgProofs.Props.Src.SpecEqual
/-!
# Translated source: small functions left over from the first round

`Specifier._compare_not_equal` / `_compare_compatible` (own `_translated` statements; their `_eq_model`
theorems are in `SpecEqual.lean`) and `_BaseVersion.__ne__`.  The `Tag` methods are in `TagObj.lean`.
-/
namespace Src
open PyRt Py V

theorem Specifier._compare_not_equal_translated : Gen.PySrc.Specifier._compare_not_equal_supported = true := rfl
theorem Specifier._compare_compatible_translated : Gen.PySrc.Specifier._compare_compatible_supported = true := rfl
theorem _BaseVersion.__ne___translated : Gen.PySrc._BaseVersion.__ne___supported = true := rfl

/-- `Version.__ne__` (defined on `_BaseVersion`): `self._key != other._key` is the model's `Ver.ne` -/
theorem _BaseVersion.__ne___eq_model (c c' : String) (h : IsVersionCls c') (a b : Ver) :
    Gen.PySrc._BaseVersion.__ne__ (ofVer c a) (ofVer c' b) = .ok (.bool (a.ne b)) := by
  simp [Gen.PySrc._BaseVersion.__ne__, isinstance_version c' h, PyRt.ne, eq_key, Ver.ne]

/-- an operand of another class: `NotImplemented` (Python then answers `True` for `!=`) -/
theorem _BaseVersion.__ne___other (self other : PyVal)
    (h : isinstance other ["_BaseVersion", "Version", "_TrimmedRelease"] = false) :
    Gen.PySrc._BaseVersion.__ne__ self other = .ok .notImpl := by
  simp [Gen.PySrc._BaseVersion.__ne__, h]

end Src
