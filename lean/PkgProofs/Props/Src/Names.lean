import PkgModel.Generated.PySrc
import PkgModel.Names
import PkgProofs.Lemmas.PyRx
/-!
# Translated source of `canonicalize_name`, `is_normalized_name` (`packaging/utils.py`) = the model (`PkgModel/Names.lean`)

The compiled patterns are resolved by the translator to regenerated data: `_validate_regex` / `_normalized_regex` to
`Gen.NameValidRx` / `Gen.NormalizedRx` run by the verified matcher `Rx.accepts` (the very terms `Names.validName` /
`Names.isNormalized` use, so the C13 theorems about their languages apply to the translated code), and
`_canonicalize_regex.sub("-", ·)` to the run-collapsing primitive over the measured separator set.
-/
namespace Src
open PyRt PyRx Py

theorem canonicalize_name_translated : Gen.PySrc.canonicalize_name_supported = true := rfl
theorem is_normalized_name_translated : Gen.PySrc.is_normalized_name_supported = true := rfl

/-- the regenerated patterns are inside the regex fragment, and `_canonicalize_regex` is `<atom>+` -/
theorem names_patterns_supported :
    Gen.NameValidRx.supported = true ∧ Gen.NormalizedRx.supported = true ∧ Gen.NameTables.canonStructureOk = true := by
  decide

/-- `canonicalize_name(name, validate=v)` for every string; the model's `none` is `InvalidName` -/
theorem canonicalize_name_eq_model (s : Str) (validate : Bool) :
    Gen.PySrc.canonicalize_name (.str s) (.bool validate) =
      match Names.canonicalizeName s validate with
      | some r => .ok (.str r)
      | none => .error "InvalidName" := by
  unfold Gen.PySrc.canonicalize_name
  have h1 : Gen.NameValidRx.supported = true := names_patterns_supported.1
  have h2 : Gen.NameTables.canonStructureOk = true := names_patterns_supported.2.2
  simp only [h1, h2, rx_test_str, show ofString "-" = [45] from rfl, sub_class_plus_dash, ok_bind, str_lower_full, pure_ok,
    truthy_bool, Names.canonicalizeName, Names.validName, Names.canon]
  cases validate <;> by_cases hacc : Rx.accepts Gen.NameValidRx.ranges Gen.NameValidRx.rx s = true <;>
    simp [hacc, is_none, is_not_none]

/-- `is_normalized_name(name)` for every string -/
theorem is_normalized_name_eq_model (s : Str) :
    Gen.PySrc.is_normalized_name (.str s) = .ok (.bool (Names.isNormalized s)) := by
  unfold Gen.PySrc.is_normalized_name
  have h1 : Gen.NormalizedRx.supported = true := names_patterns_supported.2.1
  simp only [h1, rx_test_str, ok_bind, pure_ok, Names.isNormalized, is_not_none, is_none]
  cases Rx.accepts Gen.NormalizedRx.ranges Gen.NormalizedRx.rx s <;> simp

end Src
