import PkgModel.Generated.PySrc
import PkgModel.PyParser
import PkgProofs.Lemmas.PyRt
import PkgProofs.Lemmas.ReqMarker
/-!
# The translated requirement parser (`_parser.py`) against the model `Req.parse…`

`Gen.PySrc._parse_version_many`, `_parse_specifier`, `_parse_extras_list`, `_parse_extras`,
`_parse_requirement_marker`, `_parse_requirement_details`, `_parse_requirement`, `parse_requirement` run in
`PyTok.TM = StateT PyTok.St M`; the model threads `Mk.St` and fuses `check` + `read`.  Each function is shown to agree
with its model (`PyPar.AgreesR`) from every pair of related states (`PyPar.TokRel`).

Structure (helpers live in `Src.ReqP`):
* `run_*`: the `StateT` layer (`run` of `>>=`, `pure`, `get`, `set`, `throw`, lifted `M`, `if`, `forIn`);
* Hoare-style facts about the tokenizer primitives against `chk` (the model's `check` + `read`, uniformly over both
  rule sets): `check_none/some/peek`, `read_pend`, `expect_*`, `consume_*`, `open_*`, `close_*`, `consume_ws`;
* `tm_simp [facts]`: symbolic execution of a translated block with these facts;
* loops: an abstract one-iteration specification (`VmStep`, `ElStep`), the induction on the model's fuel against
  `forIn` over any list that is long enough (`vm_loop`, `el_loop`), and the step proved for the translated body
  (found by unification, never restated);
* fuel: the model's answer does not depend on its fuel once it is not `.fuel` and the other fuel covers the text
  (`vm_any`, `el_any`, `mk_any`: monotonicity + sufficiency).  Hence **every agreement theorem holds for every model
  fuel `f`** (`ReqP.*_any`); the `_agrees` theorems below carry the hypothesis `f ≤ 4 * m.rest.length + 16`
  (= `PyTok.fuelOf s []`) only because that is the form they were asked in — it is not used.
* `AgreesRun` / `agreesRun_bind`: sequencing of a sub-parser that agrees with its model.

The marker sub-parser enters as the hypothesis `MarkerParserAgrees` (what `Src._parse_marker_agrees` states, only for
`f ≤ fuelOf s []`); `mk_any` bridges to the model's own fuel (`ReqMk.fuel_enough`, `ReqMk.check_fin_lt` give the
consumption facts, hence the extra import).
-/
namespace Src
open PyRt Py PyMk PyPar
namespace ReqP

/-! ### the `StateT` layer -/
theorem run_bind {α β} (x : PyTok.TM α) (f : α → PyTok.TM β) (s : PyTok.St) :
    (x >>= f).run s = (x.run s >>= fun p => (f p.1).run p.2) := by rfl
theorem run_pure {α} (a : α) (s : PyTok.St) : (pure a : PyTok.TM α).run s = .ok (a, s) := by rfl
theorem run_get (s : PyTok.St) : (get : PyTok.TM _).run s = .ok (s, s) := by rfl
theorem run_set (s s' : PyTok.St) : (set s' : PyTok.TM _).run s = .ok (PUnit.unit, s') := by rfl
theorem run_throw {α} (e : PyExc) (s : PyTok.St) : (throw e : PyTok.TM α).run s = .error e := by rfl
theorem run_lift {α} (x : M α) (s : PyTok.St) : (liftM x : PyTok.TM α).run s = (x >>= fun a => pure (a, s)) := by rfl
theorem run_lift' {α} (x : M α) (s : PyTok.St) : (monadLift x : PyTok.TM α).run s = (x >>= fun a => pure (a, s)) := by rfl
theorem run_ite {α} (c : Prop) [Decidable c] (x y : PyTok.TM α) (s : PyTok.St) :
    (if c then x else y).run s = if c then x.run s else y.run s := by split <;> rfl

/-! ### the model's `check` + `read`, uniformly over both rule sets -/
def chk (a : PyTok.AnyRule) (m : Mk.St) : Option (Str × Mk.St) :=
  match PyTok.matchAny a m.prev m.rest with
  | none => none
  | some k => some (m.rest.take k, ⟨Mk.lastOr (m.rest.take k) m.prev, m.rest.drop k⟩)

theorem chk_req (r : Req.RRule) (m : Mk.St) : Req.checkR r m = chk (.req r) m := by rfl
theorem chk_mk (r : Mk.Rule) (m : Mk.St) : Mk.St.check r m = chk (.mk r) m := by rfl
theorem peekR_chk (r : Req.RRule) (m : Mk.St) : Req.peekR r m = (chk (.req r) m).isSome := by
  simp only [Req.peekR, chk, PyTok.matchAny]; cases Req.matchR r m.prev m.rest <;> rfl
theorem peekEnd_chk (m : Mk.St) : Req.peekEnd m = (chk (.mk .end_) m).isSome := by rfl
theorem ws_chk (m : Mk.St) : Req.ws m = (match chk (.mk .ws) m with | some (_, m') => m' | none => m) := by
  simp only [Req.ws, Mk.consume, Mk.charTS, chk_mk]
  cases chk (.mk .ws) m <;> rfl

/-- the tokenizer between a successful `check` and the `read` -/
def pend (s : PyTok.St) (n t : Str) : PyTok.St := { s with next := some (n, t) }
/-- the tokenizer after the token `t` has been read -/
def adv (s : PyTok.St) (t : Str) : PyTok.St := ⟨s.pre ++ t, Mk.lastOr t s.prev, s.rest.drop t.length, none⟩
/-- the `Token` object `read` returns -/
def tokObj (s : PyTok.St) (n t : Str) : PyVal :=
  .obj "Token" [("name", .str n), ("text", .str t), ("position", .int s.pre.length)]

theorem getattr_text (s : PyTok.St) (n t : Str) : getattr (tokObj s n t) "text" = .ok (.str t) := by
  simp [tokObj]

theorem adv_rel {s : PyTok.St} {m m' : Mk.St} {a : PyTok.AnyRule} {t : Str} (h : TokRel s m)
    (hc : chk a m = some (t, m')) : TokRel (adv s t) m' := by
  obtain ⟨h1, h2, _⟩ := h
  unfold chk at hc
  split at hc
  · cases hc
  · rename_i k _
    simp only [Option.some.injEq, Prod.mk.injEq] at hc
    obtain ⟨rfl, rfl⟩ := hc
    refine ⟨by simp [adv, h1, h2], ?_, rfl⟩
    simp only [adv, h2, List.length_take, List.drop_eq_drop_iff]
    omega

theorem check_none {s : PyTok.St} {m : Mk.St} {n : Str} {a : PyTok.AnyRule} (h : TokRel s m)
    (hr : PyTok.ruleOf n = some a) (hc : chk a m = none) (peek : PyVal) :
    (PyTok.check (.str n) peek).run s = .ok (.bool false, s) := by
  obtain ⟨h1, h2, h3⟩ := h
  unfold chk at hc
  split at hc
  · rename_i hm
    simp [PyTok.check, h3, hr, h1, h2, hm]
  · cases hc


theorem check_some {s : PyTok.St} {m m' : Mk.St} {n t : Str} {a : PyTok.AnyRule} (h : TokRel s m)
    (hr : PyTok.ruleOf n = some a) (hc : chk a m = some (t, m')) :
    (PyTok.check (.str n) (.bool false)).run s = .ok (.bool true, pend s n t) := by
  obtain ⟨h1, h2, h3⟩ := h
  unfold chk at hc
  split at hc
  · cases hc
  · rename_i k hm
    simp only [Option.some.injEq, Prod.mk.injEq] at hc
    obtain ⟨rfl, rfl⟩ := hc
    simp [PyTok.check, h3, hr, h1, h2, hm, pend]

theorem check_peek {s : PyTok.St} {m : Mk.St} {n : Str} {a : PyTok.AnyRule} (h : TokRel s m)
    (hr : PyTok.ruleOf n = some a) :
    (PyTok.check (.str n) (.bool true)).run s = .ok (.bool (chk a m).isSome, s) := by
  obtain ⟨h1, h2, h3⟩ := h
  unfold chk
  split
  · rename_i hm
    simp [PyTok.check, h3, hr, h1, h2, hm]
  · rename_i k hm
    simp [PyTok.check, h3, hr, h1, h2, hm]

theorem read_pend (s : PyTok.St) (n t : Str) : PyTok.read.run (pend s n t) = .ok (tokObj s n t, adv s t) := by
  simp [PyTok.read, pend, tokObj, adv]

theorem position_run (s : PyTok.St) : PyTok.position.run s = .ok (.int s.pre.length, s) := by
  simp [PyTok.position]

theorem raise_run (s : PyTok.St) : PyTok.raise_syntax_error.run s = .error "ParserSyntaxError" := by rfl


theorem position_pend (s : PyTok.St) (n t : Str) : PyTok.position.run (pend s n t) = .ok (.int s.pre.length, pend s n t) := by
  simp [PyTok.position, pend]

section
variable {s : PyTok.St} {m m' : Mk.St} {n t : Str} {a : PyTok.AnyRule}

theorem expect_none (h : TokRel s m) (hr : PyTok.ruleOf n = some a) (hc : chk a m = none) :
    (PyTok.expect (.str n)).run s = .error "ParserSyntaxError" := by
  simp only [PyTok.expect, run_bind, check_none h hr hc, ok_bind, truthy_bool, Bool.not_false, if_true, run_throw,
    run_ite, err_bind]

theorem expect_some (h : TokRel s m) (hr : PyTok.ruleOf n = some a) (hc : chk a m = some (t, m')) :
    (PyTok.expect (.str n)).run s = .ok (tokObj s n t, adv s t) := by
  simp [PyTok.expect, check_some h hr hc, read_pend]

theorem consume_none (h : TokRel s m) (hr : PyTok.ruleOf n = some a) (hc : chk a m = none) :
    (PyTok.consume (.str n)).run s = .ok (.none, s) := by
  simp [PyTok.consume, check_none h hr hc]

theorem consume_some (h : TokRel s m) (hr : PyTok.ruleOf n = some a) (hc : chk a m = some (t, m')) :
    (PyTok.consume (.str n)).run s = .ok (.none, adv s t) := by
  simp [PyTok.consume, check_some h hr hc, read_pend]

theorem open_none (h : TokRel s m) (hr : PyTok.ruleOf n = some a) (hc : chk a m = none) :
    (PyTok.enclosing_open (.str n)).run s = .ok (.none, s) := by
  simp [PyTok.enclosing_open, check_none h hr hc]

theorem open_some (h : TokRel s m) (hr : PyTok.ruleOf n = some a) (hc : chk a m = some (t, m')) :
    (PyTok.enclosing_open (.str n)).run s = .ok (.int s.pre.length, adv s t) := by
  simp [PyTok.enclosing_open, check_some h hr hc, read_pend, position_pend]

theorem close_unopened (c : PyVal) : (PyTok.enclosing_close .none c).run s = .ok (.none, s) := by
  simp [PyTok.enclosing_close]

theorem close_none (p : Int) (h : TokRel s m) (hr : PyTok.ruleOf n = some a) (hc : chk a m = none) :
    (PyTok.enclosing_close (.int p) (.str n)).run s = .error "ParserSyntaxError" := by
  simp [PyTok.enclosing_close, check_none h hr hc, run_throw]

theorem close_some (p : Int) (h : TokRel s m) (hr : PyTok.ruleOf n = some a) (hc : chk a m = some (t, m')) :
    (PyTok.enclosing_close (.int p) (.str n)).run s = .ok (.none, adv s t) := by
  simp [PyTok.enclosing_close, check_some h hr hc, read_pend]

theorem rule_WS : PyTok.ruleOf (ofString "WS") = some (.mk .ws) := by rfl
theorem rule_END : PyTok.ruleOf (ofString "END") = some (.mk .end_) := by rfl
theorem rule_LPAREN : PyTok.ruleOf (ofString "LEFT_PARENTHESIS") = some (.mk .lparen) := by rfl
theorem rule_RPAREN : PyTok.ruleOf (ofString "RIGHT_PARENTHESIS") = some (.mk .rparen) := by rfl
theorem rule_LBRACKET : PyTok.ruleOf (ofString "LEFT_BRACKET") = some (.req .lbracket) := by rfl
theorem rule_RBRACKET : PyTok.ruleOf (ofString "RIGHT_BRACKET") = some (.req .rbracket) := by rfl
theorem rule_SEMICOLON : PyTok.ruleOf (ofString "SEMICOLON") = some (.req .semicolon) := by rfl
theorem rule_COMMA : PyTok.ruleOf (ofString "COMMA") = some (.req .comma) := by rfl
theorem rule_AT : PyTok.ruleOf (ofString "AT") = some (.req .at_) := by rfl
theorem rule_URL : PyTok.ruleOf (ofString "URL") = some (.req .url) := by rfl
theorem rule_IDENTIFIER : PyTok.ruleOf (ofString "IDENTIFIER") = some (.req .identifier) := by rfl
theorem rule_SPECIFIER : PyTok.ruleOf (ofString "SPECIFIER") = some (.req .specifier) := by rfl
theorem rule_PREFIX_TRAIL : PyTok.ruleOf (ofString "VERSION_PREFIX_TRAIL") = some (.req .prefixTrail) := by rfl
theorem rule_LOCAL_TRAIL : PyTok.ruleOf (ofString "VERSION_LOCAL_LABEL_TRAIL") = some (.req .localTrail) := by rfl

/-- `consume("WS")` is the model's `ws` -/
theorem consume_ws (h : TokRel s m) :
    ∃ s', (PyTok.consume (.str (ofString "WS"))).run s = .ok (.none, s') ∧ TokRel s' (Req.ws m) := by
  rw [ws_chk]
  cases hc : chk (.mk .ws) m with
  | none => exact ⟨s, consume_none h rule_WS hc, h⟩
  | some v => obtain ⟨t, m'⟩ := v; exact ⟨adv s t, consume_some h rule_WS hc, adv_rel h hc⟩
end


/-! ### the model consumes text -/

theorem chk_len {a : PyTok.AnyRule} {m m' : Mk.St} {t : Str} (hc : chk a m = some (t, m')) :
    m'.rest.length ≤ m.rest.length := by
  unfold chk at hc
  split at hc
  · cases hc
  · simp only [Option.some.injEq, Prod.mk.injEq] at hc
    obtain ⟨_, rfl⟩ := hc
    simp

theorem ws_len (m : Mk.St) : (Req.ws m).rest.length ≤ m.rest.length := by
  rw [ws_chk]
  cases hc : chk (.mk .ws) m with
  | none => exact Nat.le_refl _
  | some v => exact chk_len hc

theorem comma_lt {m m' : Mk.St} {t : Str} (hc : chk (.req .comma) m = some (t, m')) :
    m'.rest.length < m.rest.length := by
  unfold chk at hc
  split at hc
  · cases hc
  · rename_i k hk
    simp only [Option.some.injEq, Prod.mk.injEq] at hc
    obtain ⟨_, rfl⟩ := hc
    simp only [PyTok.matchAny, Req.matchR, Mk.matchFin, Gen.ReqTok.rComma] at hk
    cases hr : m.rest with
    | nil => simp [hr, startsWith] at hk
    | cons c cs =>
      simp [hr, startsWith] at hk
      obtain ⟨_, rfl⟩ := hk
      simp

/-! ### `versionMany`: the answer does not depend on the fuel once there is enough -/

theorem vm_mono : ∀ (f f' : Nat) (acc : Str) (m : Mk.St), f ≤ f' → Req.versionMany f acc m ≠ .error .fuel →
    Req.versionMany f' acc m = Req.versionMany f acc m := by
  intro f
  induction f with
  | zero => intro f' acc m _ h; simp [Req.versionMany] at h
  | succ f ih =>
    intro f' acc m hle h
    cases f' with
    | zero => omega
    | succ f' =>
      simp only [Req.versionMany] at h ⊢
      split
      · rfl
      · rename_i t m1 h1
        simp only [h1] at h
        split
        · rfl
        · split
          · rfl
          · rename_i hp1 hp2
            simp only [hp1, hp2] at h
            split
            · rfl
            · rename_i c m2 h2
              simp only [h2] at h
              exact ih f' _ _ (by omega) (by simpa using h)

theorem vm_suff : ∀ (f : Nat) (acc : Str) (m : Mk.St), m.rest.length < f → Req.versionMany f acc m ≠ .error .fuel := by
  intro f
  induction f with
  | zero => intro acc m h; omega
  | succ f ih =>
    intro acc m hlt
    simp only [Req.versionMany]
    split
    · simp
    · rename_i t m1 h1
      split
      · simp
      · split
        · simp
        · split
          · simp
          · rename_i c m2 h2
            rw [chk_req] at h1 h2
            have := chk_len h1
            have := ws_len m1
            have := comma_lt h2
            have := ws_len m2
            exact ih _ _ (by omega)

theorem vm_any (f F : Nat) (acc : Str) (m : Mk.St) (h : Req.versionMany f acc m ≠ .error .fuel)
    (hF : m.rest.length < F) : Req.versionMany F acc m = Req.versionMany f acc m := by
  by_cases hle : f ≤ F
  · exact vm_mono f F acc m hle h
  · exact (vm_mono F f acc m (by omega) (vm_suff F acc m hF)).symm


/-! ### `for` loops in `TM` -/

theorem run_forIn_nil {β} (b : β) (f : Nat → β → PyTok.TM (ForInStep β)) (s : PyTok.St) :
    (forIn ([] : List Nat) b f).run s = .ok (b, s) := by rfl

theorem run_forIn_cons {β} (x : Nat) (xs : List Nat) (b : β) (f : Nat → β → PyTok.TM (ForInStep β)) (s : PyTok.St) :
    (forIn (x :: xs) b f).run s =
      ((f x b).run s >>= fun p => match p.1 with
        | .done b' => .ok (b', p.2)
        | .yield b' => (forIn xs b' f).run p.2) := by
  rw [List.forIn_cons, run_bind]
  congr 1
  funext p
  obtain ⟨st, s'⟩ := p
  cases st <;> rfl

theorem add_str (a b : Str) : add (.str a) (.str b) = .ok (.str (a ++ b)) := by rfl

theorem ite_pure {α} (c : Prop) [Decidable c] (x y : α) :
    (if c then (pure x : PyTok.TM α) else pure y) = pure (if c then x else y) := by split <;> rfl

/-- symbolic execution of a `TM` block: the monad layers, the run-time on token texts, and the given facts about the
tokenizer primitives -/
macro "tm_simp" "[" ts:Lean.Parser.Tactic.simpLemma,* "]" : tactic =>
  `(tactic| simp only [run_bind, run_pure, run_throw, run_lift, run_lift', ite_pure, run_ite, run_get, run_set, ok_bind, err_bind,
      pure_ok, throw_err, truthy_bool, truthy_none, truthy_str, Bool.not_true, Bool.not_false, Bool.false_eq_true, if_true, if_false,
      reduceIte, or_self, or_true, true_or, or_false, false_or, position_pend, position_run, read_pend, getattr_text, raise_run, add_str, list_append_list, $ts,*])

/-- one iteration of the loop of `_parse_version_many` -/
def VmStep (body : Nat → PyVal × PyVal × Bool → PyTok.TM (ForInStep (PyVal × PyVal × Bool))) : Prop :=
  ∀ (i : Nat) (sp : PyVal) (acc : Str) (s : PyTok.St) (m : Mk.St), TokRel s m →
    match Req.checkR .specifier m with
    | none => (body i (sp, .str acc, false)).run s = .ok (.done (sp, .str acc, true), s)
    | some (t, m1) =>
      if Req.peekR .prefixTrail m1 = true ∨ Req.peekR .localTrail m1 = true then
        (body i (sp, .str acc, false)).run s = .error "ParserSyntaxError"
      else match Req.checkR .comma (Req.ws m1) with
        | none => ∃ s' sp', (body i (sp, .str acc, false)).run s = .ok (.done (sp', .str (acc ++ t), true), s') ∧
            TokRel s' (Req.ws m1)
        | some (c, m2) => ∃ s' sp', (body i (sp, .str acc, false)).run s = .ok (.yield (sp', .str (acc ++ t ++ c), false), s') ∧
            TokRel s' (Req.ws m2)

theorem vm_loop (body : Nat → PyVal × PyVal × Bool → PyTok.TM (ForInStep (PyVal × PyVal × Bool))) (hb : VmStep body) :
    ∀ (f : Nat) (l : List Nat) (sp : PyVal) (acc : Str) (s : PyTok.St) (m : Mk.St), f ≤ l.length → TokRel s m →
    match Req.versionMany f acc m with
    | .ok (a, m') => ∃ s' sp', (forIn l (sp, PyVal.str acc, false) body).run s = .ok ((sp', .str a, true), s') ∧ TokRel s' m'
    | .error .fuel => True
    | .error _ => (forIn l (sp, PyVal.str acc, false) body).run s = .error "ParserSyntaxError" := by
  intro f
  induction f with
  | zero => intro l sp acc s m _ _; simp [Req.versionMany]
  | succ f ih =>
    intro l sp acc s m hl h
    cases l with
    | nil => simp at hl
    | cons x xs =>
      have hstep := hb x sp acc s m h
      simp only [Req.versionMany, run_forIn_cons]
      cases h1 : Req.checkR .specifier m with
      | none =>
        simp only [h1] at hstep ⊢
        exact ⟨s, sp, by simp only [hstep, ok_bind], h⟩
      | some v =>
        obtain ⟨t, m1⟩ := v
        simp only [h1] at hstep ⊢
        by_cases hp1 : Req.peekR .prefixTrail m1 = true
        · simp only [hp1, true_or, if_true] at hstep ⊢
          simp only [hstep, err_bind]
        · by_cases hp2 : Req.peekR .localTrail m1 = true
          · simp only [hp2, or_true, if_true] at hstep
            simp only [hp1, hp2, if_true, hstep, err_bind]; simp
          · simp only [hp1, hp2, or_self] at hstep
            simp only [hp1, hp2]
            cases h2 : Req.checkR .comma (Req.ws m1) with
            | none =>
              simp only [h2] at hstep ⊢
              obtain ⟨s', sp', e, r⟩ := hstep
              exact ⟨s', sp', by simp only [e, ok_bind], r⟩
            | some w =>
              obtain ⟨c, m2⟩ := w
              simp only [h2] at hstep ⊢
              obtain ⟨s', sp', e, r⟩ := hstep
              have := ih xs sp' (acc ++ t ++ c) s' (Req.ws m2) (by simpa using hl) r
              simp only [e, ok_bind]
              exact this


theorem fuelOf_succ (s : PyTok.St) : PyTok.fuelOf s [] = (4 * s.rest.length + 15) + 1 := by
  simp [PyTok.fuelOf, sizeL]

theorem agreesR_iff {α} (view : α → PyVal) (x : PyTok.TM PyVal) (s : PyTok.St) (r : Req.Res (α × Mk.St)) :
    AgreesR view x s r ↔ (match r with
      | .ok (a, m') => ∃ s', x.run s = .ok (view a, s') ∧ TokRel s' m'
      | .error .fuel => True
      | .error _ => x.run s = .error "ParserSyntaxError") := Iff.rfl

theorem vm_wrap (body : Nat → PyVal × PyVal × Bool → PyTok.TM (ForInStep (PyVal × PyVal × Bool))) (hb : VmStep body)
    (tail : PyVal × PyVal × Bool → PyTok.TM PyVal)
    (htail : ∀ sp a s, (tail (sp, .str a, true)).run s = .ok (.str a, s))
    (F : Nat) (s : PyTok.St) (m : Mk.St) (h : TokRel s m) (f : Nat) (hf : f ≤ F + 1) :
    AgreesR PyVal.str (forIn (List.range (F + 1)) (PyVal.unbound, PyVal.str [], false) body >>= tail) s
      (Req.versionMany f [] m) := by
  have key := vm_loop body hb f (List.range (F + 1)) .unbound [] s m (by simpa using hf) h
  rw [agreesR_iff]
  cases hv : Req.versionMany f [] m with
  | ok v =>
    obtain ⟨a, m'⟩ := v
    simp only [hv] at key ⊢
    obtain ⟨s', sp', e, r⟩ := key
    exact ⟨s', by simp only [run_bind, e, ok_bind, htail], r⟩
  | error e =>
    cases e <;> simp only [hv] at key ⊢ <;> simp only [run_bind, key, err_bind]

/-! x8: the same loop with the accumulated text held in any representation `Rep value text` (a `str` built with `+=`, or a
list of pieces joined after the loop) -/

def VmStepG (Rep : PyVal → Str → Prop)
    (body : Nat → PyVal × PyVal × Bool → PyTok.TM (ForInStep (PyVal × PyVal × Bool))) : Prop :=
  ∀ (i : Nat) (sp av : PyVal) (acc : Str) (s : PyTok.St) (m : Mk.St), Rep av acc → TokRel s m →
    match Req.checkR .specifier m with
    | none => (body i (sp, av, false)).run s = .ok (.done (sp, av, true), s)
    | some (t, m1) =>
      if Req.peekR .prefixTrail m1 = true ∨ Req.peekR .localTrail m1 = true then
        (body i (sp, av, false)).run s = .error "ParserSyntaxError"
      else match Req.checkR .comma (Req.ws m1) with
        | none => ∃ s' sp' av', (body i (sp, av, false)).run s = .ok (.done (sp', av', true), s') ∧
            Rep av' (acc ++ t) ∧ TokRel s' (Req.ws m1)
        | some (c, m2) => ∃ s' sp' av', (body i (sp, av, false)).run s = .ok (.yield (sp', av', false), s') ∧
            Rep av' (acc ++ t ++ c) ∧ TokRel s' (Req.ws m2)

theorem vm_loopG (Rep : PyVal → Str → Prop)
    (body : Nat → PyVal × PyVal × Bool → PyTok.TM (ForInStep (PyVal × PyVal × Bool))) (hb : VmStepG Rep body) :
    ∀ (f : Nat) (l : List Nat) (sp av : PyVal) (acc : Str) (s : PyTok.St) (m : Mk.St), f ≤ l.length → Rep av acc → TokRel s m →
    match Req.versionMany f acc m with
    | .ok (a, m') => ∃ s' sp' av', (forIn l (sp, av, false) body).run s = .ok ((sp', av', true), s') ∧ Rep av' a ∧ TokRel s' m'
    | .error .fuel => True
    | .error _ => (forIn l (sp, av, false) body).run s = .error "ParserSyntaxError" := by
  intro f
  induction f with
  | zero => intro l sp av acc s m _ _ _; simp [Req.versionMany]
  | succ f ih =>
    intro l sp av acc s m hl hrep h
    cases l with
    | nil => simp at hl
    | cons x xs =>
      have hstep := hb x sp av acc s m hrep h
      simp only [Req.versionMany, run_forIn_cons]
      cases h1 : Req.checkR .specifier m with
      | none =>
        simp only [h1] at hstep ⊢
        exact ⟨s, sp, av, by simp only [hstep, ok_bind], hrep, h⟩
      | some v =>
        obtain ⟨t, m1⟩ := v
        simp only [h1] at hstep ⊢
        by_cases hp1 : Req.peekR .prefixTrail m1 = true
        · simp only [hp1, true_or, if_true] at hstep ⊢
          simp only [hstep, err_bind]
        · by_cases hp2 : Req.peekR .localTrail m1 = true
          · simp only [hp2, or_true, if_true] at hstep
            simp only [hp1, hp2, if_true, hstep, err_bind]; simp
          · simp only [hp1, hp2, or_self] at hstep
            simp only [hp1, hp2]
            cases h2 : Req.checkR .comma (Req.ws m1) with
            | none =>
              simp only [h2] at hstep ⊢
              obtain ⟨s', sp', av', e, hr, r⟩ := hstep
              exact ⟨s', sp', av', by simp only [e, ok_bind], hr, r⟩
            | some w =>
              obtain ⟨c, m2⟩ := w
              simp only [h2] at hstep ⊢
              obtain ⟨s', sp', av', e, hr, r⟩ := hstep
              have := ih xs sp' av' (acc ++ t ++ c) s' (Req.ws m2) (by simpa using hl) hr r
              simp only [e, ok_bind]
              exact this

theorem vm_wrapG (Rep : PyVal → Str → Prop)
    (body : Nat → PyVal × PyVal × Bool → PyTok.TM (ForInStep (PyVal × PyVal × Bool))) (hb : VmStepG Rep body)
    (tail : PyVal × PyVal × Bool → PyTok.TM PyVal) (init : PyVal) (hinit : Rep init [])
    (htail : ∀ sp av a s, Rep av a → (tail (sp, av, true)).run s = .ok (.str a, s))
    (F : Nat) (s : PyTok.St) (m : Mk.St) (h : TokRel s m) (f : Nat) (hf : f ≤ F + 1) :
    AgreesR PyVal.str (forIn (List.range (F + 1)) (PyVal.unbound, init, false) body >>= tail) s
      (Req.versionMany f [] m) := by
  have key := vm_loopG Rep body hb f (List.range (F + 1)) .unbound init [] s m (by simpa using hf) hinit h
  rw [agreesR_iff]
  cases hv : Req.versionMany f [] m with
  | ok v =>
    obtain ⟨a, m'⟩ := v
    simp only [hv] at key ⊢
    obtain ⟨s', sp', av', e, hr, r⟩ := key
    exact ⟨s', by simp only [run_bind, e, ok_bind, htail _ _ _ _ hr], r⟩
  | error e =>
    cases e <;> simp only [hv] at key ⊢ <;> simp only [run_bind, key, err_bind]

/-- the two representations: the text itself / a list of pieces whose concatenation it is -/
def RepStr (v : PyVal) (a : Str) : Prop := v = .str a
def RepPieces (v : PyVal) (a : Str) : Prop := ∃ ps : List Str, v = .list (ps.map .str) ∧ ps.flatten = a

theorem repPieces_snoc {v : PyVal} {a t : Str} (h : RepPieces v a) :
    ∃ ps : List Str, v = .list (ps.map .str) ∧ RepPieces (.list (ps.map .str ++ [.str t])) (a ++ t) := by
  obtain ⟨ps, rfl, rfl⟩ := h
  exact ⟨ps, rfl, ps ++ [t], by simp, by simp⟩

set_option hygiene false in
/-- `_parse_version_many__fuel` for the representation `Rep`; `open_rep` exposes the value of the accumulator, `close_rep`
proves the representation of the extended accumulator -/
local macro "version_many_with " rep:term ", " hinit:term ", " open_rep:tacticSeq ", " close_rep:tacticSeq ", " tl:tacticSeq : tactic => `(tactic| (
  refine vm_wrapG $rep _ ?step _ _ $hinit ?tail F s m h f hf
  case tail =>
    intro sp av a s hrep
    ($tl)
  case step =>
    intro i sp av acc s m hrep h
    ($open_rep)
    simp only [chk_req, peekR_chk]
    cases h1 : chk (.req .specifier) m with
    | none =>
      simp only [run_bind, check_none h rule_SPECIFIER h1, ok_bind, truthy_bool, Bool.not_false, if_true, run_pure]
    | some v =>
      obtain ⟨t, m1⟩ := v
      have r1 := adv_rel h h1
      obtain ⟨s2, e2, r2⟩ := consume_ws r1
      tm_simp [check_some h rule_SPECIFIER h1, check_peek r1 rule_PREFIX_TRAIL, check_peek r1 rule_LOCAL_TRAIL]
      cases hp1 : (chk (.req .prefixTrail) m1).isSome
      · cases hp2 : (chk (.req .localTrail) m1).isSome
        · tm_simp [e2]
          cases h2 : chk (.req .comma) (Req.ws m1) with
          | none =>
            tm_simp [check_none r2 rule_COMMA h2]
            exact ⟨_, _, _, rfl, by $close_rep, r2⟩
          | some w =>
            obtain ⟨c, m2⟩ := w
            obtain ⟨s3, e3, r3⟩ := consume_ws (adv_rel r2 h2)
            tm_simp [check_some r2 rule_COMMA h2, e3]
            exact ⟨_, _, _, rfl, by $close_rep, r3⟩
        · tm_simp []
      · tm_simp []))

theorem version_many_fuel (F : Nat) (s : PyTok.St) (m : Mk.St) (h : TokRel s m) (f : Nat) (hf : f ≤ F + 1) :
    AgreesR PyVal.str (Gen.PySrc._parse_version_many__fuel (F + 1)) s (Req.versionMany f [] m) := by
  simp only [Gen.PySrc._parse_version_many__fuel]
  first
  | version_many_with RepStr, rfl, (cases hrep), (rfl), (cases hrep; simp)
  | version_many_with RepPieces, ⟨[], rfl, rfl⟩, (obtain ⟨ps, rfl, rfl⟩ := hrep),
      (first | exact ⟨_, by simp, by simp⟩ | exact ⟨ps ++ [t] ++ [c], by simp, by simp⟩ | exact ⟨ps ++ [t], by simp, by simp⟩),
      (obtain ⟨ps, rfl, rfl⟩ := hrep; simp [str_join_list, join_nil, show ofString "" = [] from rfl])


theorem agreesR_congr {α} {view : α → PyVal} {x y : PyTok.TM PyVal} {s : PyTok.St} {r : Req.Res (α × Mk.St)}
    (hx : x.run s = y.run s) (h : AgreesR view y s r) : AgreesR view x s r := by
  rw [agreesR_iff] at h ⊢; rw [hx]; exact h

theorem agreesR_fuel {α} (view : α → PyVal) (x : PyTok.TM PyVal) (s : PyTok.St) :
    AgreesR view x s (.error .fuel) := trivial

theorem version_many_entry (s : PyTok.St) :
    Gen.PySrc._parse_version_many.run s = (Gen.PySrc._parse_version_many__fuel (4 * s.rest.length + 15 + 1)).run s := by
  simp only [Gen.PySrc._parse_version_many, run_bind, run_get, ok_bind, fuelOf_succ]

/-- `_parse_version_many` against the model at *any* fuel -/
theorem version_many_any (s : PyTok.St) (m : Mk.St) (h : TokRel s m) (f : Nat) :
    AgreesR PyVal.str Gen.PySrc._parse_version_many s (Req.versionMany f [] m) := by
  refine agreesR_congr (version_many_entry s) ?_
  by_cases hv : Req.versionMany f [] m = .error .fuel
  · rw [hv]; exact agreesR_fuel _ _ _
  · rw [← vm_any f (4 * s.rest.length + 15 + 1) [] m hv (by rw [h.2.1]; omega)]
    exact version_many_fuel _ s m h _ (Nat.le_refl _)


theorem specifier_any (s : PyTok.St) (m : Mk.St) (h : TokRel s m) (f : Nat) :
    AgreesR PyVal.str Gen.PySrc._parse_specifier s (Req.parseSpecifier f m) := by
  rw [agreesR_iff]
  simp only [Req.parseSpecifier, chk_mk, Gen.PySrc._parse_specifier]
  cases h0 : chk (.mk .lparen) m with
  | none =>
    obtain ⟨s1, e1, r1⟩ := consume_ws h
    have hv := version_many_any s1 _ r1 f
    rw [agreesR_iff] at hv
    tm_simp [open_none h rule_LPAREN h0, e1]
    cases hvm : Req.versionMany f [] (Req.ws m) with
    | error e =>
      simp only [hvm] at hv
      cases e <;> simp only [bind, Except.bind] <;> tm_simp [hv]
    | ok v =>
      obtain ⟨a, m2⟩ := v
      simp only [hvm] at hv
      obtain ⟨s2, e2, r2⟩ := hv
      obtain ⟨s3, e3, r3⟩ := consume_ws r2
      simp only [bind, Except.bind, pure, Except.pure]
      tm_simp [e2, e3, close_unopened]
      exact ⟨_, rfl, r3⟩
  | some v =>
    obtain ⟨t0, m0⟩ := v
    obtain ⟨s1, e1, r1⟩ := consume_ws (adv_rel h h0)
    have hv := version_many_any s1 _ r1 f
    rw [agreesR_iff] at hv
    tm_simp [open_some h rule_LPAREN h0, e1]
    cases hvm : Req.versionMany f [] (Req.ws m0) with
    | error e =>
      simp only [hvm] at hv
      cases e <;> simp only [bind, Except.bind] <;> tm_simp [hv]
    | ok v =>
      obtain ⟨a, m2⟩ := v
      simp only [hvm] at hv
      obtain ⟨s2, e2, r2⟩ := hv
      obtain ⟨s3, e3, r3⟩ := consume_ws r2
      simp only [bind, Except.bind, pure, Except.pure]
      cases h4 : chk (.mk .rparen) (Req.ws m2) with
      | none => tm_simp [e2, e3, close_none _ r3 rule_RPAREN h4]
      | some w =>
        obtain ⟨t4, m4⟩ := w
        tm_simp [e2, e3, close_some _ r3 rule_RPAREN h4]
        exact ⟨_, rfl, adv_rel r3 h4⟩


/-- `AgreesR` on the result of running -/
def AgreesRun {α} (view : α → PyVal) (x : M (PyVal × PyTok.St)) (r : Req.Res (α × Mk.St)) : Prop :=
  match r with
  | .ok (a, m') => ∃ s', x = .ok (view a, s') ∧ TokRel s' m'
  | .error .fuel => True
  | .error _ => x = .error "ParserSyntaxError"

theorem agreesR_run {α} (view : α → PyVal) (x : PyTok.TM PyVal) (s : PyTok.St) (r : Req.Res (α × Mk.St)) :
    AgreesR view x s r ↔ AgreesRun view (x.run s) r := Iff.rfl

theorem agreesRun_ok {α} {view : α → PyVal} {a : α} {m' : Mk.St} {s' : PyTok.St} (h : TokRel s' m') :
    AgreesRun view (.ok (view a, s')) (.ok (a, m')) := ⟨s', rfl, h⟩

theorem agreesRun_err {α} (view : α → PyVal) (e : Req.Err) :
    AgreesRun view (.error "ParserSyntaxError") (.error e : Req.Res (α × Mk.St)) := by
  cases e <;> simp [AgreesRun]

/-- sequencing: a sub-parser that agrees with its model, followed by continuations that agree on related states -/
theorem agreesRun_bind {α β} {view1 : α → PyVal} {view : β → PyVal} {X : M (PyVal × PyTok.St)}
    {K : PyVal × PyTok.St → M (PyVal × PyTok.St)} {r1 : Req.Res (α × Mk.St)} {k : α × Mk.St → Req.Res (β × Mk.St)}
    (hv : AgreesRun view1 X r1)
    (hk : ∀ a m' s', TokRel s' m' → AgreesRun view (K (view1 a, s')) (k (a, m'))) :
    AgreesRun view (X >>= K) (r1 >>= k) := by
  cases r1 with
  | ok v =>
    obtain ⟨a, m'⟩ := v
    obtain ⟨s', e, r⟩ := hv
    subst e
    exact hk a m' s' r
  | error e =>
    cases e
    · have : X = .error "ParserSyntaxError" := hv
      subst this; exact agreesRun_err _ _
    · have : X = .error "ParserSyntaxError" := hv
      subst this; exact agreesRun_err _ _
    · trivial


/-! ### `extrasLoop`: fuel -/

theorem el_mono : ∀ (f f' : Nat) (acc : List Str) (m : Mk.St), f ≤ f' → Req.extrasLoop f acc m ≠ .error .fuel →
    Req.extrasLoop f' acc m = Req.extrasLoop f acc m := by
  intro f
  induction f with
  | zero => intro f' acc m _ h; simp [Req.extrasLoop] at h
  | succ f ih =>
    intro f' acc m hle h
    cases f' with
    | zero => omega
    | succ f' =>
      simp only [Req.extrasLoop] at h ⊢
      split
      · rfl
      · rename_i hp
        simp only [hp] at h
        split
        · rfl
        · rename_i c m2 h2
          simp only [h2] at h
          split
          · rfl
          · rename_i t m3 h3
            simp only [h3] at h
            exact ih f' _ _ (by omega) (by simpa using h)

theorem el_suff : ∀ (f : Nat) (acc : List Str) (m : Mk.St), m.rest.length < f → Req.extrasLoop f acc m ≠ .error .fuel := by
  intro f
  induction f with
  | zero => intro acc m h; omega
  | succ f ih =>
    intro acc m hlt
    simp only [Req.extrasLoop]
    split
    · simp
    · split
      · simp
      · rename_i c m2 h2
        split
        · simp
        · rename_i t m3 h3
          rw [chk_req] at h2 h3
          have := ws_len m
          have := comma_lt h2
          have := ws_len m2
          have := chk_len h3
          exact ih _ _ (by omega)

theorem el_any (f F : Nat) (acc : List Str) (m : Mk.St) (h : Req.extrasLoop f acc m ≠ .error .fuel)
    (hF : m.rest.length < F) : Req.extrasLoop F acc m = Req.extrasLoop f acc m := by
  by_cases hle : f ≤ F
  · exact el_mono f F acc m hle h
  · exact (el_mono F f acc m (by omega) (el_suff F acc m hF)).symm

/-- the value of `extras` -/
def strs (l : List Str) : PyVal := .list (l.map .str)

theorem strs_append (l : List Str) (t : Str) : PyVal.list (l.map .str ++ [.str t]) = strs (l ++ [t]) := by
  simp [strs]

/-- one iteration of the loop of `_parse_extras_list` -/
def ElStep (body : Nat → PyVal × PyVal × Bool → PyTok.TM (ForInStep (PyVal × PyVal × Bool))) : Prop :=
  ∀ (i : Nat) (tok : PyVal) (acc : List Str) (s : PyTok.St) (m : Mk.St), TokRel s m →
    if Req.peekR .identifier (Req.ws m) = true then (body i (tok, strs acc, false)).run s = .error "ParserSyntaxError"
    else match Req.checkR .comma (Req.ws m) with
      | none => ∃ s', (body i (tok, strs acc, false)).run s = .ok (.done (tok, strs acc, true), s') ∧ TokRel s' (Req.ws m)
      | some (_, m2) =>
        match Req.checkR .identifier (Req.ws m2) with
        | none => (body i (tok, strs acc, false)).run s = .error "ParserSyntaxError"
        | some (t, m3) => ∃ s' tok', (body i (tok, strs acc, false)).run s = .ok (.yield (tok', strs (acc ++ [t]), false), s') ∧
            TokRel s' m3

theorem el_loop (body : Nat → PyVal × PyVal × Bool → PyTok.TM (ForInStep (PyVal × PyVal × Bool))) (hb : ElStep body) :
    ∀ (f : Nat) (l : List Nat) (tok : PyVal) (acc : List Str) (s : PyTok.St) (m : Mk.St), f ≤ l.length → TokRel s m →
    match Req.extrasLoop f acc m with
    | .ok (a, m') => ∃ s' tok', (forIn l (tok, strs acc, false) body).run s = .ok ((tok', strs a, true), s') ∧ TokRel s' m'
    | .error .fuel => True
    | .error _ => (forIn l (tok, strs acc, false) body).run s = .error "ParserSyntaxError" := by
  intro f
  induction f with
  | zero => intro l tok acc s m _ _; simp [Req.extrasLoop]
  | succ f ih =>
    intro l tok acc s m hl h
    cases l with
    | nil => simp at hl
    | cons x xs =>
      have hstep := hb x tok acc s m h
      simp only [Req.extrasLoop, run_forIn_cons]
      cases hp : Req.peekR .identifier (Req.ws m)
      case true =>
        simp only [hp, if_true] at hstep ⊢
        simp only [hstep, err_bind]
      case false =>
        simp only [hp, Bool.false_eq_true, if_false] at hstep ⊢
        cases h2 : Req.checkR .comma (Req.ws m) with
        | none =>
          simp only [h2] at hstep ⊢
          obtain ⟨s', e, r⟩ := hstep
          exact ⟨s', tok, by simp only [e, ok_bind], r⟩
        | some w =>
          obtain ⟨c, m2⟩ := w
          simp only [h2] at hstep ⊢
          cases h3 : Req.checkR .identifier (Req.ws m2) with
          | none =>
            simp only [h3] at hstep ⊢
            simp only [hstep, err_bind]
          | some u =>
            obtain ⟨t, m3⟩ := u
            simp only [h3] at hstep ⊢
            obtain ⟨s', tok', e, r⟩ := hstep
            have := ih xs tok' (acc ++ [t]) s' m3 (by simpa using hl) r
            simp only [e, ok_bind]
            exact this

theorem el_wrap (body : Nat → PyVal × PyVal × Bool → PyTok.TM (ForInStep (PyVal × PyVal × Bool))) (hb : ElStep body)
    (K : (PyVal × PyVal × Bool) × PyTok.St → M (PyVal × PyTok.St))
    (hK : ∀ tok a s, K ((tok, strs a, true), s) = .ok (strs a, s))
    (f : Nat) (l : List Nat) (tok : PyVal) (acc : List Str) (s : PyTok.St) (m : Mk.St) (hl : f ≤ l.length) (h : TokRel s m) :
    AgreesRun strs ((forIn l (tok, strs acc, false) body).run s >>= K) (Req.extrasLoop f acc m) := by
  have key := el_loop body hb f l tok acc s m hl h
  unfold AgreesRun
  cases hv : Req.extrasLoop f acc m with
  | ok v =>
    obtain ⟨a, m'⟩ := v
    simp only [hv] at key ⊢
    obtain ⟨s', tok', e, r⟩ := key
    exact ⟨s', by simp only [e, ok_bind, hK], r⟩
  | error e =>
    cases e <;> simp only [hv] at key ⊢ <;> simp only [key, err_bind]


/-! x8: the same loop over any loop state: `Inv st acc` while running with the extras `acc`, `Fin st a` once left with `a`
(a `done` flag set by `break`, or the slot of an early `return extras`) -/

def ElStepG {σ : Type} (Inv Fin : σ → List Str → Prop) (body : Nat → σ → PyTok.TM (ForInStep σ)) : Prop :=
  ∀ (i : Nat) (st : σ) (acc : List Str) (s : PyTok.St) (m : Mk.St), Inv st acc → TokRel s m →
    if Req.peekR .identifier (Req.ws m) = true then (body i st).run s = .error "ParserSyntaxError"
    else match Req.checkR .comma (Req.ws m) with
      | none => ∃ s' st', (body i st).run s = .ok (.done st', s') ∧ Fin st' acc ∧ TokRel s' (Req.ws m)
      | some (_, m2) =>
        match Req.checkR .identifier (Req.ws m2) with
        | none => (body i st).run s = .error "ParserSyntaxError"
        | some (t, m3) => ∃ s' st', (body i st).run s = .ok (.yield st', s') ∧ Inv st' (acc ++ [t]) ∧ TokRel s' m3

theorem el_loopG {σ : Type} (Inv Fin : σ → List Str → Prop) (body : Nat → σ → PyTok.TM (ForInStep σ))
    (hb : ElStepG Inv Fin body) :
    ∀ (f : Nat) (l : List Nat) (st : σ) (acc : List Str) (s : PyTok.St) (m : Mk.St), f ≤ l.length → Inv st acc → TokRel s m →
    match Req.extrasLoop f acc m with
    | .ok (a, m') => ∃ s' st', (forIn l st body).run s = .ok (st', s') ∧ Fin st' a ∧ TokRel s' m'
    | .error .fuel => True
    | .error _ => (forIn l st body).run s = .error "ParserSyntaxError" := by
  intro f
  induction f with
  | zero => intro l st acc s m _ _ _; simp [Req.extrasLoop]
  | succ f ih =>
    intro l st acc s m hl hinv h
    cases l with
    | nil => simp at hl
    | cons x xs =>
      have hstep := hb x st acc s m hinv h
      simp only [Req.extrasLoop, run_forIn_cons]
      cases hp : Req.peekR .identifier (Req.ws m)
      case true =>
        simp only [hp, if_true] at hstep ⊢
        simp only [hstep, err_bind]
      case false =>
        simp only [hp, Bool.false_eq_true, if_false] at hstep ⊢
        cases h2 : Req.checkR .comma (Req.ws m) with
        | none =>
          simp only [h2] at hstep ⊢
          obtain ⟨s', st', e, hfin, r⟩ := hstep
          exact ⟨s', st', by simp only [e, ok_bind], hfin, r⟩
        | some w =>
          obtain ⟨c, m2⟩ := w
          simp only [h2] at hstep ⊢
          cases h3 : Req.checkR .identifier (Req.ws m2) with
          | none =>
            simp only [h3] at hstep ⊢
            simp only [hstep, err_bind]
          | some u =>
            obtain ⟨t, m3⟩ := u
            simp only [h3] at hstep ⊢
            obtain ⟨s', st', e, hinv', r⟩ := hstep
            have := ih xs st' (acc ++ [t]) s' m3 (by simpa using hl) hinv' r
            simp only [e, ok_bind]
            exact this

theorem el_wrapG {σ : Type} (Inv Fin : σ → List Str → Prop) (body : Nat → σ → PyTok.TM (ForInStep σ))
    (hb : ElStepG Inv Fin body) (K : σ × PyTok.St → M (PyVal × PyTok.St))
    (hK : ∀ st a s, Fin st a → K (st, s) = .ok (strs a, s))
    (f : Nat) (l : List Nat) (st : σ) (acc : List Str) (s : PyTok.St) (m : Mk.St) (hl : f ≤ l.length) (hinv : Inv st acc)
    (h : TokRel s m) :
    AgreesRun strs ((forIn l st body).run s >>= K) (Req.extrasLoop f acc m) := by
  have key := el_loopG Inv Fin body hb f l st acc s m hl hinv h
  unfold AgreesRun
  cases hv : Req.extrasLoop f acc m with
  | ok v =>
    obtain ⟨a, m'⟩ := v
    simp only [hv] at key ⊢
    obtain ⟨s', st', e, hfin, r⟩ := key
    exact ⟨s', by simp only [e, ok_bind, hK _ _ _ hfin], r⟩
  | error e =>
    cases e <;> simp only [hv] at key ⊢ <;> simp only [key, err_bind]

set_option hygiene false in
/-- the loop of `_parse_extras_list` for the given reading of the loop state -/
local macro "extras_loop_with " inv:term ", " fin:term ", " hinit:term : tactic => `(tactic| (
  refine el_wrapG $inv $fin _ ?step _ ?tail f (List.range (F + 1)) _ [t] _ m1 (by simpa using hf) $hinit r1
  case tail =>
    intro st a s hfin
    obtain ⟨tok, rfl⟩ := hfin
    tm_simp []
  case step =>
    intro i st acc s m hinv h
    obtain ⟨tok, rfl⟩ := hinv
    obtain ⟨s1, e1, r1⟩ := consume_ws h
    simp only [chk_req, peekR_chk]
    tm_simp [e1, check_peek r1 rule_IDENTIFIER]
    cases hp : (chk (.req .identifier) (Req.ws m)).isSome
    case true => tm_simp []
    case false =>
      tm_simp []
      cases h2 : chk (.req .comma) (Req.ws m) with
      | none =>
        tm_simp [check_none r1 rule_COMMA h2]
        exact ⟨_, _, rfl, ⟨_, rfl⟩, r1⟩
      | some w =>
        obtain ⟨c, m2⟩ := w
        obtain ⟨s3, e3, r3⟩ := consume_ws (adv_rel r1 h2)
        tm_simp [check_some r1 rule_COMMA h2, e3]
        cases h3 : chk (.req .identifier) (Req.ws m2) with
        | none => tm_simp [expect_none r3 rule_IDENTIFIER h3]
        | some u =>
          obtain ⟨t, m3⟩ := u
          tm_simp [expect_some r3 rule_IDENTIFIER h3, strs, strs_append]
          exact ⟨_, _, rfl, ⟨_, rfl⟩, adv_rel r3 h3⟩))

theorem extras_list_fuel (F : Nat) (s : PyTok.St) (m : Mk.St) (h : TokRel s m) (f : Nat) (hf : f ≤ F + 1) :
    AgreesR strs (Gen.PySrc._parse_extras_list__fuel (F + 1)) s (Req.parseExtrasList f m) := by
  rw [agreesR_run]
  simp only [Gen.PySrc._parse_extras_list__fuel, Req.parseExtrasList, chk_req]
  cases h0 : chk (.req .identifier) m with
  | none =>
    tm_simp [check_none h rule_IDENTIFIER h0]
    exact agreesRun_ok (a := []) h
  | some v =>
    obtain ⟨t, m1⟩ := v
    have r1 := adv_rel h h0
    tm_simp [check_some h rule_IDENTIFIER h0, List.nil_append]
    first
    | -- `break` out of `while True`, `return extras` after the loop: state `(extra_token, extras, done)`
      extras_loop_with (fun st acc => ∃ tok, st = (tok, strs acc, false)), (fun st a => ∃ tok, st = (tok, strs a, true)),
        ⟨_, rfl⟩
    | -- x8: `return extras` inside the loop: state `(returned value, extra_token, extras)`
      extras_loop_with (fun st acc => ∃ tok, st = ((none : Option PyVal), tok, strs acc)),
        (fun st a => ∃ tok, st = (some (strs a), tok, strs a)), ⟨_, rfl⟩


theorem pel_any (f F : Nat) (m : Mk.St) (h : Req.parseExtrasList f m ≠ .error .fuel) (hF : m.rest.length < F) :
    Req.parseExtrasList F m = Req.parseExtrasList f m := by
  simp only [Req.parseExtrasList] at h ⊢
  cases h0 : Req.checkR .identifier m with
  | none => rfl
  | some v =>
    obtain ⟨t, m1⟩ := v
    simp only [h0] at h ⊢
    rw [chk_req] at h0
    have := chk_len h0
    exact el_any f F _ m1 h (by omega)

theorem extras_list_entry (s : PyTok.St) :
    Gen.PySrc._parse_extras_list.run s = (Gen.PySrc._parse_extras_list__fuel (4 * s.rest.length + 15 + 1)).run s := by
  simp only [Gen.PySrc._parse_extras_list, run_bind, run_get, ok_bind, fuelOf_succ]

/-- `_parse_extras_list` against the model at *any* fuel -/
theorem extras_list_any (s : PyTok.St) (m : Mk.St) (h : TokRel s m) (f : Nat) :
    AgreesR strs Gen.PySrc._parse_extras_list s (Req.parseExtrasList f m) := by
  refine agreesR_congr (extras_list_entry s) ?_
  by_cases hv : Req.parseExtrasList f m = .error .fuel
  · rw [hv]; exact agreesR_fuel _ _ _
  · rw [← pel_any f (4 * s.rest.length + 15 + 1) m hv (by rw [h.2.1]; omega)]
    exact extras_list_fuel _ s m h _ (Nat.le_refl _)

/-- `_parse_extras` against the model at *any* fuel -/
theorem extras_any (s : PyTok.St) (m : Mk.St) (h : TokRel s m) (f : Nat) :
    AgreesR strs Gen.PySrc._parse_extras s (Req.parseExtras f m) := by
  rw [agreesR_run]
  simp only [Gen.PySrc._parse_extras, Req.parseExtras, chk_req]
  tm_simp [check_peek h rule_LBRACKET]
  cases h0 : chk (.req .lbracket) m with
  | none =>
    tm_simp [Option.isSome_none]
    exact agreesRun_ok (a := []) h
  | some v =>
    obtain ⟨t0, m0⟩ := v
    obtain ⟨s1, e1, r1⟩ := consume_ws (adv_rel h h0)
    tm_simp [Option.isSome_some, open_some h rule_LBRACKET h0, e1]
    refine agreesRun_bind ((agreesR_run _ _ _ _).1 (extras_list_any s1 _ r1 f)) ?_
    intro a m2 s2 r2
    obtain ⟨s3, e3, r3⟩ := consume_ws r2
    tm_simp [e3]
    cases h4 : chk (.req .rbracket) (Req.ws m2) with
    | none =>
      tm_simp [close_none _ r3 rule_RBRACKET h4]
      exact agreesRun_err _ _
    | some w =>
      obtain ⟨t4, m4⟩ := w
      tm_simp [close_some _ r3 rule_RBRACKET h4]
      exact agreesRun_ok (adv_rel r3 h4)

open Mk

/-! ### the marker model: the answer does not depend on the fuel once there is enough -/

theorem bind_ne_fuel {α β} {x : Mk.Res α} {k : α → Mk.Res β} (h : (x >>= k) ≠ .error .fuel) : x ≠ .error .fuel := by
  intro e; rw [e] at h; exact h rfl

theorem mk_mono {σ} (S : TS σ) : ∀ f : Nat,
    (∀ f' st, f ≤ f' → parseMarker S f st ≠ .error .fuel → parseMarker S f' st = parseMarker S f st) ∧
    (∀ f' acc st, f ≤ f' → parseRest S f acc st ≠ .error .fuel → parseRest S f' acc st = parseRest S f acc st) ∧
    (∀ f' st, f ≤ f' → parseAtom S f st ≠ .error .fuel → parseAtom S f' st = parseAtom S f st) := by
  intro f
  induction f with
  | zero => refine ⟨?_, ?_, ?_⟩ <;> intros <;> simp_all [parseMarker, parseRest, parseAtom]
  | succ f ih =>
    obtain ⟨ihM, ihR, ihA⟩ := ih
    refine ⟨?_, ?_, ?_⟩
    · intro f' st hle h
      cases f' with
      | zero => omega
      | succ f' =>
        simp only [parseMarker] at h ⊢
        have ha := ihA f' st (by omega) (bind_ne_fuel h)
        rw [ha]
        cases hv : parseAtom S f st with
        | error e => rfl
        | ok v =>
          obtain ⟨a, st1⟩ := v
          rw [hv] at h
          exact ihR f' _ st1 (by omega) h
    · intro f' acc st hle h
      cases f' with
      | zero => omega
      | succ f' =>
        simp only [parseRest] at h ⊢
        cases hc : S.check .boolop st with
        | none => rfl
        | some v =>
          obtain ⟨t, st1⟩ := v
          simp only [hc] at h ⊢
          have ha := ihA f' st1 (by omega) (bind_ne_fuel h)
          rw [ha]
          cases hv : parseAtom S f st1 with
          | error e => rfl
          | ok v =>
            obtain ⟨b, st2⟩ := v
            rw [hv] at h
            exact ihR f' _ st2 (by omega) h
    · intro f' st hle h
      cases f' with
      | zero => omega
      | succ f' =>
        simp only [parseAtom] at h ⊢
        cases hc : S.check .lparen (consume S .ws st) with
        | none => rfl
        | some v =>
          obtain ⟨t, st1⟩ := v
          simp only [hc] at h ⊢
          have hm := ihM f' (consume S .ws st1) (by omega) (bind_ne_fuel h)
          rw [hm]


theorem parseVar_ne_fuel {σ} (S : TS σ) (st : σ) : parseVar S st ≠ .error .fuel := by
  simp only [parseVar]
  split
  · simp
  · split
    · split <;> simp
    · simp

theorem parseOp_ne_fuel {σ} (S : TS σ) (st : σ) : parseOp S st ≠ .error .fuel := by
  simp only [parseOp]
  repeat' split
  all_goals simp

theorem parseItem_ne_fuel {σ} (S : TS σ) (st : σ) : parseItem S st ≠ .error .fuel := by
  simp only [parseItem, bind, Except.bind]
  have h1 := parseVar_ne_fuel S (consume S .ws st)
  split
  · rename_i e he; intro h; cases h; exact h1 he
  · rename_i v1 _
    have h2 := parseOp_ne_fuel S (consume S .ws v1.2)
    split
    · rename_i e he; intro h; cases h; exact h2 he
    · rename_i v2 _
      have h3 := parseVar_ne_fuel S (consume S .ws v2.2)
      split
      · rename_i e he; intro h; cases h; exact h3 he
      · simp [pure, Except.pure]

theorem mk_suff : ∀ f : Nat,
    (∀ st, 2 * st.rest.length + 3 ≤ f → parseMarker charTS f st ≠ .error .fuel) ∧
    (∀ acc st, 2 * st.rest.length + 2 ≤ f → parseRest charTS f acc st ≠ .error .fuel) ∧
    (∀ st, 2 * st.rest.length + 2 ≤ f → parseAtom charTS f st ≠ .error .fuel) := by
  intro f
  induction f with
  | zero => refine ⟨?_, ?_, ?_⟩ <;> intros <;> omega
  | succ f ih =>
    obtain ⟨ihM, ihR, ihA⟩ := ih
    refine ⟨?_, ?_, ?_⟩
    · intro st hf
      simp only [parseMarker, bind, Except.bind]
      cases hv : parseAtom charTS f st with
      | error e => intro h; cases h; exact ihA st (by omega) hv
      | ok v =>
        obtain ⟨a, st1⟩ := v
        have := ((ReqMk.fuel_enough f).2.2 st a st1 hv).1.len
        exact ihR _ st1 (by omega)
    · intro acc st hf
      simp only [parseRest]
      cases hc : charTS.check .boolop st with
      | none => simp
      | some w =>
        obtain ⟨t, stb⟩ := w
        have hlt := ReqMk.check_fin_lt .boolop (Or.inl (by decide)) st t stb hc
        simp only [bind, Except.bind]
        cases hv : parseAtom charTS f stb with
        | error e => intro h; cases h; exact ihA stb (by omega) hv
        | ok v =>
          obtain ⟨b, st2⟩ := v
          have := ((ReqMk.fuel_enough f).2.2 stb b st2 hv).1.len
          exact ihR _ st2 (by omega)
    · intro st hf
      simp only [parseAtom]
      have h0 := (ReqMk.consume_sfx .ws st).len
      cases hl : charTS.check .lparen (consume charTS .ws st) with
      | some w =>
        obtain ⟨t, st1⟩ := w
        have hlt := ReqMk.check_fin_lt .lparen (Or.inr (Or.inl rfl)) _ t st1 hl
        have h1 := (ReqMk.consume_sfx .ws st1).len
        simp only [bind, Except.bind]
        cases hm : parseMarker charTS f (consume charTS .ws st1) with
        | error e => intro h; cases h; exact ihM _ (by omega) hm
        | ok v =>
          obtain ⟨l, st2⟩ := v
          simp only
          split <;> simp [pure, Except.pure]
      | none =>
        simp only [bind, Except.bind]
        cases hit : parseItem charTS (consume charTS .ws st) with
        | error e => intro h; cases h; exact parseItem_ne_fuel _ _ hit
        | ok v => simp [pure, Except.pure]

/-- the marker model at any two fuels: the same answer when the first is not `.fuel` and the second covers the text -/
theorem mk_any (f F : Nat) (m : Mk.St) (h : parseMarker charTS f m ≠ .error .fuel) (hF : 2 * m.rest.length + 3 ≤ F) :
    parseMarker charTS F m = parseMarker charTS f m := by
  by_cases hle : f ≤ F
  · exact (mk_mono charTS f).1 F m hle h
  · exact ((mk_mono charTS F).1 f m (by omega) ((mk_suff F).1 m hF)).symm

end ReqP

/-- what `Src._parse_marker_agrees` (PkgProofs/Props/Src/MarkerParse.lean) states -/
def MarkerParserAgrees : Prop := ∀ (s : PyTok.St) (m : Mk.St), TokRel s m → ∀ f : Nat, f ≤ PyTok.fuelOf s [] →
  Agrees ofML Gen.PySrc._parse_marker s (Mk.parseMarker Mk.charTS f m)

namespace ReqP
open Mk

/-- `_parse_requirement_marker` against the model at *any* fuel -/
theorem requirement_marker_any (hM : MarkerParserAgrees) (s : PyTok.St) (m : Mk.St) (h : TokRel s m) (f : Nat) (a b : PyVal) :
    AgreesR ofML (Gen.PySrc._parse_requirement_marker a b) s (Req.parseReqMarker f m) := by
  rw [agreesR_run]
  simp only [Gen.PySrc._parse_requirement_marker, Req.parseReqMarker, chk_req]
  cases h0 : chk (.req .semicolon) m with
  | none =>
    tm_simp [check_none h rule_SEMICOLON h0]
    exact agreesRun_err _ _
  | some v =>
    obtain ⟨t0, m0⟩ := v
    have r0 := adv_rel h h0
    tm_simp [check_some h rule_SEMICOLON h0]
    by_cases hv : parseMarker charTS f m0 = .error .fuel
    · simp only [hv]; trivial
    · have hF : 2 * m0.rest.length + 3 ≤ PyTok.fuelOf (adv s t0) [] := by
        rw [fuelOf_succ, r0.2.1]; omega
      have hm := hM (adv s t0) m0 r0 _ (Nat.le_refl _)
      rw [mk_any f _ m0 hv hF] at hm
      cases hr : parseMarker charTS f m0 with
      | error e =>
        rw [hr] at hm
        cases e
        all_goals first | exact absurd hr hv | (have hm' : _ = _ := hm; tm_simp [hm']; exact agreesRun_err _ _)
      | ok w =>
        obtain ⟨l, m1⟩ := w
        rw [hr] at hm
        obtain ⟨s1, e1, r1⟩ := hm
        obtain ⟨s2, e2, r2⟩ := consume_ws r1
        tm_simp [e1, e2]
        exact agreesRun_ok r2


theorem map_bind {ε α β γ} (g : β → γ) (x : Except ε α) (k : α → Except ε β) :
    Except.map g (x >>= k) = x >>= fun a => Except.map g (k a) := by cases x <;> rfl

/-- the tuple `_parse_requirement_details` returns -/
def detView (r : Str × Str × Option (List Mk.M)) : PyVal :=
  .tuple [.str r.1, .str r.2.1, match r.2.2 with | none => .none | some l => ofML l]

/-- the model's result, with the state last -/
def detShape : Str × Str × Option (List Mk.M) × Mk.St → (Str × Str × Option (List Mk.M)) × Mk.St :=
  fun (u, sp, mk, st) => ((u, sp, mk), st)

/-- `_parse_requirement_details` against the model at *any* fuel -/
theorem requirement_details_any (hM : MarkerParserAgrees) (s : PyTok.St) (m : Mk.St) (h : TokRel s m) (f : Nat) :
    AgreesR detView Gen.PySrc._parse_requirement_details s ((Req.parseDetails f m).map detShape) := by
  rw [agreesR_run]
  simp only [Gen.PySrc._parse_requirement_details, Req.parseDetails, chk_req, chk_mk, peekEnd_chk]
  cases h0 : chk (.req .at_) m with
  | some v =>
    obtain ⟨t0, m0⟩ := v
    obtain ⟨s1, e1, r1⟩ := consume_ws (adv_rel h h0)
    tm_simp [check_some h rule_AT h0, e1]
    cases h2 : chk (.req .url) (Req.ws m0) with
    | none =>
      tm_simp [expect_none r1 rule_URL h2]
      exact agreesRun_err _ _
    | some w =>
      obtain ⟨url, m2⟩ := w
      have r2 := adv_rel r1 h2
      tm_simp [expect_some r1 rule_URL h2, check_peek r2 rule_END]
      cases hp : (chk (.mk .end_) m2).isSome
      case true =>
        tm_simp []
        exact agreesRun_ok (view := detView) (a := (url, [], none)) r2
      case false =>
        tm_simp []
        cases h3 : chk (.mk .ws) m2 with
        | none =>
          tm_simp [expect_none r2 rule_WS h3]
          exact agreesRun_err _ _
        | some u =>
          obtain ⟨t3, m3⟩ := u
          have r3 := adv_rel r2 h3
          tm_simp [expect_some r2 rule_WS h3, check_peek r3 rule_END]
          cases hp3 : (chk (.mk .end_) m3).isSome
          case true =>
            tm_simp []
            exact agreesRun_ok (view := detView) (a := (url, [], none)) r3
          case false =>
            tm_simp []
            rw [map_bind]
            refine agreesRun_bind ((agreesR_run _ _ _ _).1 (requirement_marker_any hM _ m3 r3 f _ _)) ?_
            intro l m4 s4 r4
            tm_simp []
            exact agreesRun_ok (view := detView) (a := (url, [], some l)) r4
  | none =>
    tm_simp [check_none h rule_AT h0]
    rw [map_bind]
    refine agreesRun_bind ((agreesR_run _ _ _ _).1 (specifier_any s m h f)) ?_
    intro spec m1 s1 r1
    obtain ⟨s2, e2, r2⟩ := consume_ws r1
    tm_simp [e2, check_peek r2 rule_END]
    cases hp : (chk (.mk .end_) (Req.ws m1)).isSome
    case true =>
      tm_simp []
      exact agreesRun_ok (view := detView) (a := ([], spec, none)) r2
    case false =>
      tm_simp []
      rw [map_bind]
      -- x8: the `after` text may be chosen by an `if` statement around the call (the marker parser agrees for every text)
      first
      | (refine agreesRun_bind ((agreesR_run _ _ _ _).1 (requirement_marker_any hM _ _ r2 f _ _)) ?_
         intro l m4 s4 r4
         tm_simp []
         exact agreesRun_ok (view := detView) (a := ([], spec, some l)) r4)
      | (split <;>
         (refine agreesRun_bind ((agreesR_run _ _ _ _).1 (requirement_marker_any hM _ _ r2 f _ _)) ?_
          intro l m4 s4 r4
          tm_simp []
          exact agreesRun_ok (view := detView) (a := ([], spec, some l)) r4))


theorem unpack3_tuple (a b c : PyVal) : unpack3 (.tuple [a, b, c]) = .ok (a, b, c) := by rfl

/-- agreement for a parser whose model returns no state -/
def AgreesVal (x : M (PyVal × PyTok.St)) (r : Req.Res Req.Parsed) : Prop :=
  match r with
  | .ok p => ∃ s', x = .ok (ofParsed p, s')
  | .error .fuel => True
  | .error _ => x = .error "ParserSyntaxError"

theorem agreesVal_err (e : Req.Err) : AgreesVal (.error "ParserSyntaxError") (.error e) := by
  cases e <;> simp [AgreesVal]

theorem agreesVal_bind {α} {view1 : α → PyVal} {X : M (PyVal × PyTok.St)}
    {K : PyVal × PyTok.St → M (PyVal × PyTok.St)} {r1 : Req.Res (α × Mk.St)} {k : α × Mk.St → Req.Res Req.Parsed}
    (hv : AgreesRun view1 X r1)
    (hk : ∀ a m' s', TokRel s' m' → AgreesVal (K (view1 a, s')) (k (a, m'))) :
    AgreesVal (X >>= K) (r1 >>= k) := by
  cases r1 with
  | ok v =>
    obtain ⟨a, m'⟩ := v
    obtain ⟨s', e, r⟩ := hv
    subst e
    exact hk a m' s' r
  | error e =>
    cases e
    · have : X = .error "ParserSyntaxError" := hv
      subst this; exact agreesVal_err _
    · have : X = .error "ParserSyntaxError" := hv
      subst this; exact agreesVal_err _
    · trivial

theorem bind_shape {β} (x : Req.Res (Str × Str × Option (List Mk.M) × Mk.St))
    (k : Str × Str × Option (List Mk.M) × Mk.St → Req.Res β) :
    (x >>= k) = (x.map detShape >>= fun r => k (r.1.1, r.1.2.1, r.1.2.2, r.2)) := by
  cases x with
  | error e => rfl
  | ok v => obtain ⟨u, sp, mk, st⟩ := v; rfl

/-- `_parse_requirement` against the model at *any* fuel -/
theorem requirement_any (hM : MarkerParserAgrees) (s : PyTok.St) (m : Mk.St) (h : TokRel s m) (f : Nat) :
    AgreesVal (Gen.PySrc._parse_requirement.run s) (Req.parseRequirement f m) := by
  simp only [Gen.PySrc._parse_requirement, Req.parseRequirement, chk_req, peekEnd_chk]
  obtain ⟨s1, e1, r1⟩ := consume_ws h
  tm_simp [e1]
  cases h2 : chk (.req .identifier) (Req.ws m) with
  | none =>
    tm_simp [expect_none r1 rule_IDENTIFIER h2]
    exact agreesVal_err _
  | some v =>
    obtain ⟨name, m2⟩ := v
    obtain ⟨s3, e3, r3⟩ := consume_ws (adv_rel r1 h2)
    tm_simp [expect_some r1 rule_IDENTIFIER h2, e3]
    refine agreesVal_bind ((agreesR_run _ _ _ _).1 (extras_any s3 _ r3 f)) ?_
    intro extras m4 s4 r4
    obtain ⟨s5, e5, r5⟩ := consume_ws r4
    tm_simp [e5]
    rw [bind_shape]
    refine agreesVal_bind ((agreesR_run _ _ _ _).1 (requirement_details_any hM s5 _ r5 f)) ?_
    intro d m6 s6 r6
    obtain ⟨url, spec, mk⟩ := d
    tm_simp [detView, unpack3_tuple]
    cases h7 : chk (.mk .end_) m6 with
    | none =>
      tm_simp [expect_none r6 rule_END h7, Option.isSome_none]
      exact agreesVal_err _
    | some w =>
      obtain ⟨t7, m7⟩ := w
      tm_simp [expect_some r6 rule_END h7, Option.isSome_some]
      exact ⟨_, rfl⟩

end ReqP

theorem _parse_version_many_translated : Gen.PySrc._parse_version_many_supported = true := rfl
theorem _parse_specifier_translated : Gen.PySrc._parse_specifier_supported = true := rfl
theorem _parse_extras_list_translated : Gen.PySrc._parse_extras_list_supported = true := rfl
theorem _parse_extras_translated : Gen.PySrc._parse_extras_supported = true := rfl
theorem _parse_requirement_marker_translated : Gen.PySrc._parse_requirement_marker_supported = true := rfl
theorem _parse_requirement_details_translated : Gen.PySrc._parse_requirement_details_supported = true := rfl
theorem _parse_requirement_translated : Gen.PySrc._parse_requirement_supported = true := rfl
theorem parse_requirement_translated : Gen.PySrc.parse_requirement_supported = true := rfl

theorem _parse_version_many_agrees (s : PyTok.St) (m : Mk.St) (h : TokRel s m) (f : Nat) (_hf : f ≤ PyTok.fuelOf s []) :
    AgreesR PyVal.str Gen.PySrc._parse_version_many s (Req.versionMany f [] m) :=
  ReqP.version_many_any s m h f

theorem _parse_specifier_agrees (s : PyTok.St) (m : Mk.St) (h : TokRel s m) (f : Nat) (_hf : f ≤ 4 * m.rest.length + 16) :
    AgreesR PyVal.str Gen.PySrc._parse_specifier s (Req.parseSpecifier f m) :=
  ReqP.specifier_any s m h f

theorem _parse_extras_list_agrees (s : PyTok.St) (m : Mk.St) (h : TokRel s m) (f : Nat) (_hf : f ≤ 4 * m.rest.length + 16) :
    AgreesR (fun l => PyVal.list (l.map .str)) Gen.PySrc._parse_extras_list s (Req.parseExtrasList f m) :=
  ReqP.extras_list_any s m h f

theorem _parse_extras_agrees (s : PyTok.St) (m : Mk.St) (h : TokRel s m) (f : Nat) (_hf : f ≤ 4 * m.rest.length + 16) :
    AgreesR (fun l => PyVal.list (l.map .str)) Gen.PySrc._parse_extras s (Req.parseExtras f m) :=
  ReqP.extras_any s m h f

theorem _parse_requirement_marker_agrees (hM : MarkerParserAgrees) (s : PyTok.St) (m : Mk.St) (h : TokRel s m) (f : Nat)
    (_hf : f ≤ 4 * m.rest.length + 16) (a b : PyVal) :
    AgreesR ofML (Gen.PySrc._parse_requirement_marker a b) s (Req.parseReqMarker f m) :=
  ReqP.requirement_marker_any hM s m h f a b

theorem _parse_requirement_details_agrees (hM : MarkerParserAgrees) (s : PyTok.St) (m : Mk.St) (h : TokRel s m) (f : Nat)
    (_hf : f ≤ 4 * m.rest.length + 16) :
    AgreesR (fun (r : Str × Str × Option (List Mk.M)) =>
        PyVal.tuple [.str r.1, .str r.2.1, match r.2.2 with | none => .none | some l => ofML l])
      Gen.PySrc._parse_requirement_details s
      ((Req.parseDetails f m).map fun (u, sp, mk, st) => ((u, sp, mk), st)) :=
  ReqP.requirement_details_any hM s m h f

theorem _parse_requirement_eq_model (hM : MarkerParserAgrees) (s : PyTok.St) (m : Mk.St) (h : TokRel s m) (f : Nat)
    (_hf : f ≤ 4 * m.rest.length + 16) :
    match Req.parseRequirement f m with
    | .ok p => ∃ s', Gen.PySrc._parse_requirement.run s = .ok (ofParsed p, s')
    | .error .fuel => True
    | .error _ => Gen.PySrc._parse_requirement.run s = .error "ParserSyntaxError" :=
  ReqP.requirement_any hM s m h f

theorem parse_requirement_eq_model (hM : MarkerParserAgrees) (src : Str) (hfuel : Req.parseSource src ≠ .error .fuel) :
    Gen.PySrc.parse_requirement (.str src) =
      match Req.parseSource src with
      | .ok p => .ok (ofParsed p)
      | .error _ => .error "ParserSyntaxError" := by
  have key := ReqP.requirement_any hM (start src) ⟨none, src⟩ (start_rel src) (Mk.fuelFor src.length)
  unfold Req.parseSource at hfuel ⊢
  simp only [Gen.PySrc.parse_requirement, PyTok.new, PyTok.run, pure_ok, ok_bind]
  change ReqP.AgreesVal (Gen.PySrc._parse_requirement.run (start src)) _ at key
  cases hr : Req.parseRequirement (Mk.fuelFor src.length) ⟨none, src⟩ with
  | ok p =>
    rw [hr] at key
    obtain ⟨s', e⟩ := key
    simp only [start] at e
    simp only [e, ok_bind]
  | error e =>
    rw [hr] at key hfuel
    cases e
    · have e' : _ = _ := key
      simp only [start] at e'
      simp only [e', err_bind]
    · have e' : _ = _ := key
      simp only [start] at e'
      simp only [e', err_bind]
    · exact absurd rfl hfuel

end Src
