import PkgProofs.Props.Src.SSetMember
namespace Src
open PyRt Py V S
open SSet (Member SpecSet CKey key canonical_isOk)

theorem filter_translated : Gen.PySrc.SpecifierSet.filter_supported = true := rfl

/-! The auxiliary statements live in `Src.SSetFilter` (the sibling files of this round prove some facts under the same
short names). -/
namespace SSetFilter

/-! ### model side: `Spec.filter` is natural in the tags, and yields only tags it was given -/

/-- what one iteration of `Spec.filterLoop` does with its item -/
inductive FAct | skip | yield | defer

/-- the decision of one iteration of `Spec.filterLoop`: it depends on the version only, not on the tag -/
def filterAct (sp : Spec) (ov pre : Option Bool) (v : Ver) : R FAct := do
  let c ← sp.contains ov v (some (pre.getD true))
  if c then do
    let deferred ← (if v.isPre then (if pre == some true then pure false else do
          let own ← sp.prereleases ov
          pure (!own)) else pure false : R Bool)
    if deferred then pure FAct.defer else pure FAct.yield
  else pure FAct.skip

theorem filterLoop_cons {α} (sp : Spec) (ov pre : Option Bool) (tag : α) (v : Ver) (rest : List (α × Ver))
    (y fo : List α) :
    sp.filterLoop ov pre ((tag, v) :: rest) y fo = (do
      let a ← filterAct sp ov pre v
      match a with
      | .skip => sp.filterLoop ov pre rest y fo
      | .yield => sp.filterLoop ov pre rest (y ++ [tag]) fo
      | .defer => sp.filterLoop ov pre rest y (fo ++ [tag])) := by
  simp only [Spec.filterLoop, filterAct]
  cases sp.contains ov v (some (pre.getD true)) with
  | error e => rfl
  | ok c =>
    cases c with
    | false => rfl
    | true =>
      simp only [ok_bind, if_true]
      cases v.isPre
      · rfl
      · simp only [if_true]
        cases (pre == some true)
        · simp only [Bool.false_eq_true, if_false]
          cases sp.prereleases ov with
          | error e => rfl
          | ok own => cases own <;> rfl
        · rfl

/-- renaming the tags commutes with the loop -/
theorem filterLoop_map {α β} (g : α → β) (sp : Spec) (ov pre : Option Bool) (items : List (α × Ver)) :
    ∀ (y fo : List α),
    sp.filterLoop ov pre (items.map fun x => (g x.1, x.2)) (y.map g) (fo.map g) =
      (sp.filterLoop ov pre items y fo).map (fun r => (r.1.map g, r.2.map g)) := by
  induction items with
  | nil => intro y fo; rfl
  | cons x rest ih =>
    intro y fo
    obtain ⟨tag, v⟩ := x
    have h1 := ih y fo
    have h2 := ih (y ++ [tag]) fo
    have h3 := ih y (fo ++ [tag])
    simp only [List.map_append, List.map_cons, List.map_nil] at h2 h3
    simp only [List.map_cons, filterLoop_cons]
    cases filterAct sp ov pre v with
    | error e => rfl
    | ok a => cases a <;> simp only [ok_bind, h1, h2, h3]

/-- renaming the tags commutes with `Spec.filter` -/
theorem spec_filter_map {α β} (g : α → β) (sp : Spec) (ov pre : Option Bool) (items : List (α × Ver)) :
    sp.filter ov pre (items.map fun x => (g x.1, x.2)) = (sp.filter ov pre items).map (List.map g) := by
  have key : ∀ p : Option Bool,
      (do let (y, f) ← sp.filterLoop ov p (items.map fun x => (g x.1, x.2)) [] []
          if y.isEmpty && !f.isEmpty then pure f else pure y : R (List β)) =
      Except.map (List.map g) (do
          let (y, f) ← sp.filterLoop ov p items [] []
          if y.isEmpty && !f.isEmpty then pure f else pure y) := by
    intro p
    have h := filterLoop_map g sp ov p items [] []
    simp only [List.map_nil] at h
    rw [h]
    cases sp.filterLoop ov p items [] [] with
    | error e => rfl
    | ok r =>
      simp only [Except.map, ok_bind, List.isEmpty_map]
      split <;> rfl
  unfold Spec.filter
  exact key _

/-- the loop adds only tags of its items to its two lists -/
theorem filterLoop_mem {α} (sp : Spec) (ov pre : Option Bool) (items : List (α × Ver)) :
    ∀ (y fo : List α) (r : List α × List α), sp.filterLoop ov pre items y fo = .ok r →
      ∀ t, (t ∈ r.1 ∨ t ∈ r.2) → (t ∈ y ∨ t ∈ fo) ∨ ∃ x ∈ items, x.1 = t := by
  induction items with
  | nil =>
    intro y fo r h t ht
    simp only [Spec.filterLoop, pure, Except.pure, Except.ok.injEq] at h
    subst h
    exact Or.inl ht
  | cons x rest ih =>
    intro y fo r h t ht
    obtain ⟨tag, v⟩ := x
    rw [filterLoop_cons] at h
    cases ha : filterAct sp ov pre v with
    | error e => rw [ha] at h; cases h
    | ok a =>
      rw [ha] at h
      have lift : (∃ x ∈ rest, x.1 = t) → ∃ x ∈ (tag, v) :: rest, x.1 = t :=
        fun ⟨x, hx, hxt⟩ => ⟨x, List.mem_cons_of_mem _ hx, hxt⟩
      have here : t = tag → ∃ x ∈ (tag, v) :: rest, x.1 = t :=
        fun e => ⟨(tag, v), List.mem_cons_self .., e.symm⟩
      cases a with
      | skip =>
        rcases ih y fo r h t ht with h' | h'
        · exact Or.inl h'
        · exact Or.inr (lift h')
      | yield =>
        rcases ih (y ++ [tag]) fo r h t ht with h' | h'
        · simp only [List.mem_append, List.mem_singleton] at h'
          rcases h' with (h' | h') | h'
          · exact Or.inl (Or.inl h')
          · exact Or.inr (here h')
          · exact Or.inl (Or.inr h')
        · exact Or.inr (lift h')
      | defer =>
        rcases ih y (fo ++ [tag]) r h t ht with h' | h'
        · simp only [List.mem_append, List.mem_singleton] at h'
          rcases h' with h' | h' | h'
          · exact Or.inl (Or.inl h')
          · exact Or.inl (Or.inr h')
          · exact Or.inr (here h')
        · exact Or.inr (lift h')

/-- `Spec.filter` yields only tags of its items -/
theorem spec_filter_mem {α} (sp : Spec) (ov pre : Option Bool) (items : List (α × Ver)) (out : List α)
    (h : sp.filter ov pre items = .ok out) : ∀ t ∈ out, ∃ x ∈ items, x.1 = t := by
  have key : ∀ p : Option Bool,
      (do let (y, f) ← sp.filterLoop ov p items [] []
          if y.isEmpty && !f.isEmpty then pure f else pure y : R (List α)) = .ok out →
      ∀ t ∈ out, ∃ x ∈ items, x.1 = t := by
    intro p h
    cases hl : sp.filterLoop ov p items [] [] with
    | error e => rw [hl] at h; cases h
    | ok r =>
      rw [hl] at h
      have hm := filterLoop_mem sp ov p items [] [] r hl
      intro t ht
      have : t ∈ r.1 ∨ t ∈ r.2 := by
        simp only [ok_bind] at h
        split at h <;> (simp only [pure, Except.pure, Except.ok.injEq] at h; subst h)
        · exact Or.inr ht
        · exact Or.inl ht
      rcases hm t this with h' | h'
      · simp at h'
      · exact h'
  unfold Spec.filter at h
  exact key _ h

/-! ### run-time side: reading the set and its `prereleases` -/

@[simp] theorem truthy_ofOptBool (q : Option Bool) : truthy (ofOptBool q) = SSet.truthy q := by
  rcases q with _ | _ | _ <;> rfl

@[simp] theorem isNone_ofOptBool (q : Option Bool) : isNone (ofOptBool q) = q.isNone := by
  rcases q with _ | _ | _ <;> rfl

@[simp] theorem set_truthy_ofSet (l : List Member) : PySet.set_truthy (ofSet l) = !l.isEmpty := by
  simp [PySet.set_truthy]

theorem iter_ord_ofSet {env : Env} {T : SpecSet} {it : List Member} (h : Ordered env T it) :
    PySet.iter_ord env (ofSet T.specs) = .ok (.iter (it.map ofMember)) := by
  simp only [PySet.iter_ord, setItems_ofSet, pure_ok]
  rw [h]

/-- `any(s.prereleases for s in …)` over the members in the order `it` -/
theorem anyM_prereleases (it : List Member) :
    anyM (fun s => Gen.PySrc.Specifier.prereleases s) (it.map ofMember) = SSet.anyPre it := by
  induction it with
  | nil => rfl
  | cons m r ih =>
    simp only [List.map_cons, anyM, SSet.anyPre, ofMember, Specifier.prereleases_eq_model]
    cases m.1.prereleases m.2 with
    | error e => rfl
    | ok b =>
      simp only [Except.map, ok_bind, truthy_bool]
      cases b
      · simpa [ofMember] using ih
      · rfl

/-- the `prereleases` property of the set, as `filter` reads it -/
theorem filter_prereleases_aux (env : Env) (T : SpecSet) (it : List Member) (h : Ordered env T it) :
    Gen.PySrc.SpecifierSet.prereleases env (ofSSet T) = (T.prereleases it).map ofOptBool := by
  unfold Gen.PySrc.SpecifierSet.prereleases SpecSet.prereleases
  simp only [getattr_sset_pre, getattr_sset_specs, ok_bind, set_truthy_ofSet, iter_ord_ofSet h, any_gen, iterate_iter,
    anyM_prereleases, isNone_ofOptBool]
  cases T.pre with
  | some b => rfl
  | none =>
    cases T.specs.isEmpty with
    | true => rfl
    | false =>
      simp only [Option.isNone_none, Bool.not_true, Bool.not_false, Bool.false_eq_true, if_false]
      cases SSet.anyPre it <;> rfl

/-- `if prereleases is None: prereleases = self.prereleases`, then the rest of the function -/
theorem resolve_jp {α} (env : Env) (T : SpecSet) (it : List Member) (h : Ordered env T it) (pre : Option Bool)
    (jp : PyVal → M α) :
    (if isNone (ofOptBool pre) = true then do
        let p ← Gen.PySrc.SpecifierSet.prereleases env (ofSSet T)
        jp p
      else jp (ofOptBool pre)) = (do let q ← T.resolve it pre; jp (ofOptBool q)) := by
  cases pre with
  | some b => rfl
  | none =>
    simp only [ofOptBool, isNone_none, if_true, SpecSet.resolve, filter_prereleases_aux env T it h]
    cases T.prereleases it <;> rfl

/-! ### the non-empty branch: the chained member filters -/

/-- a `list` or an iterator over the given versions (what `iterable` is bound to during the chain) -/
def IsSeq (r : PyVal) (l : List Ver) : Prop := r = .list (l.map ofV) ∨ r = .iter (l.map ofV)

/-- `Specifier.filter` uses its iterable through `iterate` only -/
theorem Specifier.filter_iter (self : PyVal) (l : List PyVal) (p : PyVal) :
    Gen.PySrc.Specifier.filter self (.iter l) p = Gen.PySrc.Specifier.filter self (.list l) p := by
  unfold Gen.PySrc.Specifier.filter
  simp only [iterate_iter, iterate_list]

theorem Specifier.filter_seq (m : Member) (b : Bool) (l : List Ver) (hw : ∀ v ∈ l, WF v) (r : PyVal) (hr : IsSeq r l) :
    Gen.PySrc.Specifier.filter (ofMember m) r (.bool b) =
      (m.1.filter m.2 (some b) (l.map fun v => (v, v))).map (fun out => PyVal.iter (out.map ofV)) := by
  have := Specifier.filter_eq_model m.1 m.2 (some b) l hw
  rcases hr with rfl | rfl
  · exact this
  · rw [Specifier.filter_iter]; exact this

/-- what one iteration of the chain does, in model terms -/
def ChainStep (b : Bool) (body : PyVal → PyVal → M (ForInStep PyVal)) : Prop :=
  ∀ (m : Member) (l : List Ver), (∀ v ∈ l, WF v) → ∀ r, IsSeq r l →
    body (ofMember m) r =
      (m.1.filter m.2 (some b) (l.map fun v => (v, v))).map (fun out => ForInStep.yield (PyVal.iter (out.map ofV)))

theorem chain_loop (b : Bool) (body : PyVal → PyVal → M (ForInStep PyVal)) (hstep : ChainStep b body)
    (it : List Member) :
    ∀ (l : List Ver), (∀ v ∈ l, WF v) → ∀ r, IsSeq r l →
      (do let s ← forIn (it.map ofMember) r body
          PySet.iter_ s) =
        (SSet.filterChain it b (l.map fun v => (v, v))).map (fun out => PyVal.iter ((out.map (·.1)).map ofV)) := by
  induction it with
  | nil =>
    intro l _ r hr
    have : (l.map fun v => (v, v)).map (·.1) = l := by
      rw [List.map_map]; exact List.map_id _
    simp only [List.map_nil, List.forIn_nil, SSet.filterChain, pure_ok, ok_bind, Except.map, this]
    rcases hr with rfl | rfl <;> rfl
  | cons m rest ih =>
    intro l hw r hr
    have hnat : m.1.filter m.2 (some b) ((l.map fun v => (v, v)).map fun x => (x, x.2)) =
        (m.1.filter m.2 (some b) (l.map fun v => (v, v))).map (List.map fun v => (v, v)) := by
      rw [← spec_filter_map (fun v => (v, v))]
      simp only [List.map_map]
      rfl
    simp only [List.map_cons, List.forIn_cons, SSet.filterChain, hstep m l hw r hr, hnat]
    cases hf : m.1.filter m.2 (some b) (l.map fun v => (v, v)) with
    | error e => rfl
    | ok out =>
      have hw' : ∀ v ∈ out, WF v := by
        intro v hv
        obtain ⟨x, hx, hxv⟩ := spec_filter_mem _ _ _ _ _ hf v hv
        simp only [List.mem_map] at hx
        obtain ⟨w, hwl, rfl⟩ := hx
        exact hxv ▸ hw w hwl
      simp only [Except.map, ok_bind]
      exact ih out hw' _ (Or.inr rfl)

/-! ### the empty-set branch -/

/-- loop state of the empty-set branch: `(filtered, found_prereleases, parsed_version)` -/
abbrev EState := PyVal × PyVal × PyVal

def ofEState (fl fo : List Ver) (pv : PyVal) : EState := (.list (fl.map ofV), .list (fo.map ofV), pv)

/-- what one iteration of the empty-set loop does, in model terms -/
def EStepSpec (q : Option Bool) (body : PyVal → EState → M (ForInStep EState)) : Prop :=
  ∀ v : Ver, WF v → ∀ (pv0 : PyVal) (fl fo : List Ver),
    body (ofV v) (ofEState fl fo pv0) =
      .ok (.yield (if v.isPre && !(SSet.truthy q) then
          (if fl.isEmpty then ofEState fl (fo ++ [v]) (ofV v) else ofEState fl fo (ofV v))
        else ofEState (fl ++ [v]) fo (ofV v)))

theorem empty_loop (q : Option Bool) (body : PyVal → EState → M (ForInStep EState)) (hstep : EStepSpec q body)
    (items : List Ver) (hw : ∀ v ∈ items, WF v) :
    ∀ (pv0 : PyVal) (fl fo : List Ver), ∃ pv',
      forIn (items.map ofV) (ofEState fl fo pv0) body =
        .ok (ofEState (SSet.emptyLoop q (items.map fun v => (v, v)) fl fo).1
              (SSet.emptyLoop q (items.map fun v => (v, v)) fl fo).2 pv') := by
  induction items with
  | nil => intro pv0 fl fo; exact ⟨pv0, rfl⟩
  | cons v rest ih =>
    intro pv0 fl fo
    have hv : WF v := hw v (List.mem_cons_self ..)
    have hrest : ∀ w ∈ rest, WF w := fun w hm => hw w (List.mem_cons_of_mem _ hm)
    simp only [List.map_cons, List.forIn_cons, hstep v hv pv0 fl fo, SSet.emptyLoop, ok_bind]
    split
    · split
      · exact ih hrest (ofV v) fl (fo ++ [v])
      · exact ih hrest (ofV v) fl fo
    · exact ih hrest (ofV v) (fl ++ [v]) fo

/-- the empty-set branch: the loop, then the choice between the two lists -/
theorem empty_branch (q : Option Bool) (body : PyVal → EState → M (ForInStep EState)) (hstep : EStepSpec q body)
    (items : List Ver) (hw : ∀ v ∈ items, WF v) :
    (do let s ← forIn (items.map ofV) ((PyVal.list [], PyVal.list [], PyVal.unbound) : EState) body
        if (!truthy s.1 && truthy s.2.1 && q.isNone) = true then PySet.iter_ s.2.1 else PySet.iter_ s.1) =
      Except.map (fun l => PyVal.iter (l.map ofV))
        (if ((SSet.emptyLoop q (items.map fun v => (v, v)) [] []).1.isEmpty &&
              !(SSet.emptyLoop q (items.map fun v => (v, v)) [] []).2.isEmpty && q.isNone) = true
         then pure (SSet.emptyLoop q (items.map fun v => (v, v)) [] []).2
         else pure (SSet.emptyLoop q (items.map fun v => (v, v)) [] []).1 : R (List Ver)) := by
  obtain ⟨pv', hl⟩ := empty_loop q body hstep items hw PyVal.unbound [] []
  rw [show ((PyVal.list [], PyVal.list [], PyVal.unbound) : EState) = ofEState [] [] PyVal.unbound from rfl, hl]
  simp only [ok_bind, ofEState, truthy_list, List.isEmpty_map, Bool.not_not, PySet.iter_, iterate_list, pure_ok]
  split <;> rfl

/-! ### the empty-set branch, independent of the shape of the loop state (x8)

The two lists are read through projections `fl fo` of the state, whatever else it carries and in whatever order; the code
after the loop is any `k` that hands back the model's choice between the two lists. -/

def EInv {σ : Type} (fl fo : σ → PyVal) (s : σ) (a b : List Ver) : Prop :=
  fl s = .list (a.map ofV) ∧ fo s = .list (b.map ofV)

/-- what one iteration does to the two lists, in model terms -/
def EStepG {σ : Type} (fl fo : σ → PyVal) (q : Option Bool) (body : PyVal → σ → M (ForInStep σ)) : Prop :=
  ∀ v : Ver, WF v → ∀ (s : σ) (a b : List Ver), EInv fl fo s a b → ∃ s', body (ofV v) s = .ok (.yield s') ∧
    (if v.isPre && !(SSet.truthy q) then (if a.isEmpty then EInv fl fo s' a (b ++ [v]) else EInv fl fo s' a b)
     else EInv fl fo s' (a ++ [v]) b)

theorem empty_loop_g {σ : Type} (fl fo : σ → PyVal) (q : Option Bool) (body : PyVal → σ → M (ForInStep σ))
    (hstep : EStepG fl fo q body) (items : List Ver) (hw : ∀ v ∈ items, WF v) :
    ∀ (s : σ) (a b : List Ver), EInv fl fo s a b → ∃ s',
      forIn (items.map ofV) s body = .ok s' ∧
        EInv fl fo s' (SSet.emptyLoop q (items.map fun v => (v, v)) a b).1
          (SSet.emptyLoop q (items.map fun v => (v, v)) a b).2 := by
  induction items with
  | nil => intro s a b h; exact ⟨s, rfl, h⟩
  | cons v rest ih =>
    intro s a b h
    have hv : WF v := hw v (List.mem_cons_self ..)
    have hrest : ∀ w ∈ rest, WF w := fun w hm => hw w (List.mem_cons_of_mem _ hm)
    obtain ⟨s1, hb, h1⟩ := hstep v hv s a b h
    simp only [List.map_cons, List.forIn_cons, hb, SSet.emptyLoop, ok_bind]
    split at h1
    · split at h1
      · simp only [*, if_true]; exact ih hrest s1 _ _ h1
      · simp only [*, if_true]; exact ih hrest s1 _ _ h1
    · simp only [*]; exact ih hrest s1 _ _ h1

/-- the empty-set branch: the loop, then code that chooses between the two lists as the model does -/
theorem empty_branch_g {σ : Type} (fl fo : σ → PyVal) (q : Option Bool) (body : PyVal → σ → M (ForInStep σ))
    (k : σ → M PyVal) (s0 : σ) (h0 : EInv fl fo s0 [] [])
    (hstep : EStepG fl fo q body)
    (hk : ∀ (s : σ) (a b : List Ver), EInv fl fo s a b →
      k s = .ok (.iter ((if (a.isEmpty && !b.isEmpty && q.isNone) = true then b else a).map ofV)))
    (items : List Ver) (hw : ∀ v ∈ items, WF v) :
    (do let s ← forIn (items.map ofV) s0 body
        k s) =
      Except.map (fun l => PyVal.iter (l.map ofV))
        (if ((SSet.emptyLoop q (items.map fun v => (v, v)) [] []).1.isEmpty &&
              !(SSet.emptyLoop q (items.map fun v => (v, v)) [] []).2.isEmpty && q.isNone) = true
         then pure (SSet.emptyLoop q (items.map fun v => (v, v)) [] []).2
         else pure (SSet.emptyLoop q (items.map fun v => (v, v)) [] []).1 : R (List Ver)) := by
  obtain ⟨s', hl, hinv⟩ := empty_loop_g fl fo q body hstep items hw s0 [] [] h0
  simp only [hl, ok_bind, hk s' _ _ hinv]
  split <;> rfl

end SSetFilter

set_option hygiene false in
/-- the empty-set branch with the two lists at the given places of the loop state: one iteration and the code after the
loop are evaluated symbolically, whatever their spelling -/
local macro "empty_branch_at " fl:term ", " fo:term : tactic => `(tactic|
  (refine SSetFilter.empty_branch_g $fl $fo q _ _ _ ⟨rfl, rfl⟩ ?_ ?_ items hw
   · intro v hv s a b hinv
     obtain ⟨ha, hb⟩ := hinv
     dsimp only at ha hb
     simp only [SSetFilter.EInv, ofV, _coerce_version_eq_model, ok_bind, Version.is_prerelease_eq_model, truthy_bool, ha, hb,
       truthy_list, List.isEmpty_map, Bool.not_not, list_append_list, pure_ok]
     cases v.isPre <;> cases SSet.truthy q <;> cases a.isEmpty <;> simp [ofV]
   · intro s a b hinv
     obtain ⟨ha, hb⟩ := hinv
     dsimp only at ha hb
     simp only [ha, hb, truthy_list, List.isEmpty_map, Bool.not_not, PySet.iter_, iterate_list, pure_ok, ok_bind]
     cases hae : a.isEmpty <;> cases hbe : b.isEmpty <;> cases q.isNone <;> simp_all))

/-- `SpecifierSet.filter(iterable, prereleases)` for an iterable of `Version` objects: the versions yielded, in order -/
theorem SpecifierSet.filter_eq_model (env : Env) (T : SpecSet) (it : List Member) (h : Ordered env T it)
    (pre : Option Bool) (items : List Ver) (hw : ∀ v ∈ items, V.WF v) :
    Gen.PySrc.SpecifierSet.filter env (ofSSet T) (.list (items.map ofV)) (ofOptBool pre) =
      (T.filter it pre (items.map fun v => (v, v))).map (fun l => PyVal.iter (l.map ofV)) := by
  unfold Gen.PySrc.SpecifierSet.filter SpecSet.filter
  simp only []
  rw [SSetFilter.resolve_jp env T it h pre]
  cases T.resolve it pre with
  | error e => rfl
  | ok q =>
    simp only [ok_bind, getattr_sset_specs, SSetFilter.set_truthy_ofSet, SSetFilter.iter_ord_ofSet h, iterate_iter, iterate_list,
      SSetFilter.truthy_ofOptBool, SSetFilter.isNone_ofOptBool]
    cases hE : T.specs.isEmpty with
    | false =>
      simp only [Bool.not_false, if_true]
      refine Eq.trans (SSetFilter.chain_loop (SSet.truthy q) _ ?_ it items hw _ (Or.inl rfl)) ?_
      · intro m l hwl r hr
        simp only [SSetFilter.Specifier.filter_seq m _ l hwl r hr]
        cases m.1.filter m.2 (some (SSet.truthy q)) (l.map fun v => (v, v)) <;> rfl
      · cases SSet.filterChain it (SSet.truthy q) (items.map fun v => (v, v)) <;> rfl
    | true =>
      simp only [Bool.not_true, Bool.false_eq_true, if_false]
      -- x8: the two lists are found in the loop state by trying the positions a state of two or three locals offers
      first
        | empty_branch_at (fun s => s.1), (fun s => s.2.1)
        | empty_branch_at (fun s => s.2.1), (fun s => s.2.2)
        | empty_branch_at (fun s => s.1), (fun s => s.2.2)
        | empty_branch_at (fun s => s.1), (fun s => s.2)
        | empty_branch_at (fun s => s.2.1), (fun s => s.1)
        | empty_branch_at (fun s => s.2.2), (fun s => s.2.1)
        | empty_branch_at (fun s => s.2.2), (fun s => s.1)
        | empty_branch_at (fun s => s.2), (fun s => s.1)

end Src
