import PkgProofs.Props.Src.SSetMember
namespace Src
open PyRt Py V S
open SSet (Member SpecSet CKey key canonical_isOk)

theorem filter_translated : Gen.PySrc.SpecifierSet.filter_supported = true := rfl

/-! ### model side: `Spec.filter` is natural in the tags, and yields only tags it was given -/

/-- what one iteration of `Spec.filterLoop` does with its item -/
inductive FAct | skip | yield | defer

/-- the decision of one iteration of `Spec.filterLoop`: it depends on the version only, not on the tag -/
def filterAct (sp : Spec) (ov pre : Option Bool) (v : Ver) : R FAct := do
  let c ← sp.contains ov v (some (pre.getD true))
  if c then do
    let deferred ← (if v.isPre then (if pre == some true then pure false else do
          let own ← sp.prereleases ov
          pure (!own)) else pure false : R Bool)
    if deferred then pure FAct.defer else pure FAct.yield
  else pure FAct.skip

theorem filterLoop_cons {α} (sp : Spec) (ov pre : Option Bool) (tag : α) (v : Ver) (rest : List (α × Ver))
    (y fo : List α) :
    sp.filterLoop ov pre ((tag, v) :: rest) y fo = (do
      let a ← filterAct sp ov pre v
      match a with
      | .skip => sp.filterLoop ov pre rest y fo
      | .yield => sp.filterLoop ov pre rest (y ++ [tag]) fo
      | .defer => sp.filterLoop ov pre rest y (fo ++ [tag])) := by
  simp only [Spec.filterLoop, filterAct]
  cases sp.contains ov v (some (pre.getD true)) with
  | error e => rfl
  | ok c =>
    cases c with
    | false => rfl
    | true =>
      simp only [ok_bind, if_true]
      cases v.isPre
      · rfl
      · simp only [if_true]
        cases (pre == some true)
        · simp only [Bool.false_eq_true, if_false]
          cases sp.prereleases ov with
          | error e => rfl
          | ok own => cases own <;> rfl
        · rfl

/-- renaming the tags commutes with the loop -/
theorem filterLoop_map {α β} (g : α → β) (sp : Spec) (ov pre : Option Bool) (items : List (α × Ver)) :
    ∀ (y fo : List α),
    sp.filterLoop ov pre (items.map fun x => (g x.1, x.2)) (y.map g) (fo.map g) =
      (sp.filterLoop ov pre items y fo).map (fun r => (r.1.map g, r.2.map g)) := by
  induction items with
  | nil => intro y fo; rfl
  | cons x rest ih =>
    intro y fo
    obtain ⟨tag, v⟩ := x
    have h1 := ih y fo
    have h2 := ih (y ++ [tag]) fo
    have h3 := ih y (fo ++ [tag])
    simp only [List.map_append, List.map_cons, List.map_nil] at h2 h3
    simp only [List.map_cons, filterLoop_cons]
    cases filterAct sp ov pre v with
    | error e => rfl
    | ok a => cases a <;> simp only [ok_bind, h1, h2, h3]

/-- renaming the tags commutes with `Spec.filter` -/
theorem spec_filter_map {α β} (g : α → β) (sp : Spec) (ov pre : Option Bool) (items : List (α × Ver)) :
    sp.filter ov pre (items.map fun x => (g x.1, x.2)) = (sp.filter ov pre items).map (List.map g) := by
  unfold Spec.filter
  have h := filterLoop_map g sp ov (match pre with | some b => some b | none => ov) items [] []
  simp only [List.map_nil] at h
  simp only [h]
  cases sp.filterLoop ov (match pre with | some b => some b | none => ov) items [] [] with
  | error e => rfl
  | ok r =>
    simp only [Except.map, ok_bind, List.isEmpty_map]
    split <;> rfl

/-- the loop adds only tags of its items to its two lists -/
theorem filterLoop_mem {α} (sp : Spec) (ov pre : Option Bool) (items : List (α × Ver)) :
    ∀ (y fo : List α) (r : List α × List α), sp.filterLoop ov pre items y fo = .ok r →
      ∀ t, (t ∈ r.1 ∨ t ∈ r.2) → (t ∈ y ∨ t ∈ fo) ∨ ∃ x ∈ items, x.1 = t := by
  induction items with
  | nil =>
    intro y fo r h t ht
    simp only [Spec.filterLoop, pure, Except.pure, Except.ok.injEq] at h
    subst h
    exact Or.inl ht
  | cons x rest ih =>
    intro y fo r h t ht
    obtain ⟨tag, v⟩ := x
    rw [filterLoop_cons] at h
    cases ha : filterAct sp ov pre v with
    | error e => rw [ha] at h; cases h
    | ok a =>
      rw [ha] at h
      have lift : (∃ x ∈ rest, x.1 = t) → ∃ x ∈ (tag, v) :: rest, x.1 = t :=
        fun ⟨x, hx, hxt⟩ => ⟨x, List.mem_cons_of_mem _ hx, hxt⟩
      have here : t = tag → ∃ x ∈ (tag, v) :: rest, x.1 = t :=
        fun e => ⟨(tag, v), List.mem_cons_self .., e.symm⟩
      cases a with
      | skip =>
        rcases ih y fo r h t ht with h' | h'
        · exact Or.inl h'
        · exact Or.inr (lift h')
      | yield =>
        rcases ih (y ++ [tag]) fo r h t ht with h' | h'
        · simp only [List.mem_append, List.mem_singleton] at h'
          rcases h' with (h' | h') | h'
          · exact Or.inl (Or.inl h')
          · exact Or.inr (here h')
          · exact Or.inl (Or.inr h')
        · exact Or.inr (lift h')
      | defer =>
        rcases ih y (fo ++ [tag]) r h t ht with h' | h'
        · simp only [List.mem_append, List.mem_singleton] at h'
          rcases h' with h' | h' | h'
          · exact Or.inl (Or.inl h')
          · exact Or.inl (Or.inr h')
          · exact Or.inr (here h')
        · exact Or.inr (lift h')

/-- `Spec.filter` yields only tags of its items -/
theorem spec_filter_mem {α} (sp : Spec) (ov pre : Option Bool) (items : List (α × Ver)) (out : List α)
    (h : sp.filter ov pre items = .ok out) : ∀ t ∈ out, ∃ x ∈ items, x.1 = t := by
  unfold Spec.filter at h
  cases hl : sp.filterLoop ov (match pre with | some b => some b | none => ov) items [] [] with
  | error e => rw [hl] at h; cases h
  | ok r =>
    rw [hl] at h
    have hm := filterLoop_mem sp ov _ items [] [] r hl
    intro t ht
    have : t ∈ r.1 ∨ t ∈ r.2 := by
      simp only [ok_bind] at h
      split at h <;> (simp only [pure, Except.pure, Except.ok.injEq] at h; subst h)
      · exact Or.inr ht
      · exact Or.inl ht
    rcases hm t this with h' | h'
    · simp at h'
    · exact h'

end Src
