import PkgProofs.Props.Src.SSetMember
namespace Src
open PyRt Py V S
open SSet (Member SpecSet CKey key canonical_isOk)

theorem filter_translated : Gen.PySrc.SpecifierSet.filter_supported = true := rfl

/-! ### model side: `Spec.filter` is natural in the tags, and yields only tags it was given -/

/-- the three possible continuations of one iteration of `Spec.filterLoop` -/
theorem filterLoop_cons_cases {α} (sp : Spec) (ov pre : Option Bool) (tag : α) (v : Ver) (rest : List (α × Ver))
    (y fo : List α) :
    sp.filterLoop ov pre ((tag, v) :: rest) y fo = sp.filterLoop ov pre rest y fo ∨
    sp.filterLoop ov pre ((tag, v) :: rest) y fo = sp.filterLoop ov pre rest (y ++ [tag]) fo ∨
    sp.filterLoop ov pre ((tag, v) :: rest) y fo = sp.filterLoop ov pre rest y (fo ++ [tag]) ∨
    ∃ e, sp.filterLoop ov pre ((tag, v) :: rest) y fo = .error e := by
  sorry

end Src
