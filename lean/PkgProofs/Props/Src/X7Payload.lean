import PkgProofs.Props.Src.MetaGet
import PkgModel.PyX7
import PkgProofs.Lemmas.PyElf
/-!
# Translated source of `_get_payload` = the model's `Email.getPayload` (x7)

The `email.message.Message` enters as data (`obj "Message" fields`, see `PkgModel/PyX7.lean`).  `presents m isStr p` says which
`Email.Payload` the message presents to `_get_payload`: for a `str` source `get_payload()`, for any other source
`get_payload(decode=True)` *once the `Content-Transfer-Encoding` headers are deleted* — the deletion is part of the translated
function, so a message that still has such a header is covered (field `decoded`, not `decoded_cte`).
-/
namespace Src
open PyRt Py PyX7 Email

theorem _get_payload_translated : Gen.PySrc._get_payload_supported = true := rfl

/-- a value `get_payload` returned, as the model's `Payload` -/
def payloadOfVal (v : PyVal) : Payload :=
  match v with
  | .str s => .str s
  | v => match PyElf.bytesOf v with
    | some b => .bytes b
    | none => .other

theorem lookupField_setField' (fs : List (String × PyVal)) (n m : String) (v : PyVal) :
    lookupField (setField fs n v) m = if n = m then some v else lookupField fs m := GetP.lookupField_setField fs n m v

theorem hasHeader_after_del (c : String) (fs : List (String × PyVal)) (hs : List PyVal) (n : Str)
    (h : lookupField fs "headers" = some (.list hs)) :
    hasHeader (.obj "Message" (setField fs "headers" (.list (hs.filter fun x => lowerStr (headerName x) != lowerStr n)))) n = false := by
  simp only [hasHeader, msgHeaders, lookupField_setField', if_true]
  simp only [List.any_eq_false, List.mem_filter]
  intro x hx
  simpa using hx.2

theorem bytesOf_none_of_not_bytes (v : PyVal) (h : isinstance v ["bytes"] = false) : PyElf.bytesOf v = none := by
  unfold PyElf.bytesOf
  split
  · simp [isinstance, className] at h
  · rfl

theorem x7_isinstance_str (s : Str) : isinstance (.str s) ["str"] = true := by rfl

/-- `_get_payload(msg, source)` for a `str` source: `get_payload()` must be a `str` -/
theorem _get_payload_eq_model_str (fs : List (String × PyVal)) (src : Str) (v : PyVal)
    (hp : lookupField fs "payload" = some v) (hv : ∀ s, v = .str s ∨ isinstance v ["str"] = false) :
    Gen.PySrc._get_payload (.obj "Message" fs) (.str src) =
      match getPayload (match v with | .str s => .str s | _ => .other) with
      | .ok s => .ok (.str s)
      | .error c => .error (toStringLossy c) := by
  unfold Gen.PySrc._get_payload
  simp only [x7_isinstance_str, truthy_bool, if_true, msg_get_payload, Bool.false_eq_true, if_false, getattr_obj, hp, ok_bind]
  cases v with
  | str s => simp [x7_isinstance_str, getPayload]
  | _ =>
    rcases hv [] with h | h
    · cases h
    · simp only [h, truthy_bool, Bool.not_false, if_true, getPayload]
      rfl

/-- `_get_payload(msg, source)` for a source that is not a `str`: the `Content-Transfer-Encoding` headers are deleted, then
`get_payload(decode=True)` must be `bytes`, decoded strictly as UTF-8 (`ValueError` otherwise) -/
theorem _get_payload_eq_model_bytes (fs : List (String × PyVal)) (hs : List PyVal) (source v : PyVal)
    (hsrc : isinstance source ["str"] = false)
    (hh : lookupField fs "headers" = some (.list hs)) (hd : lookupField fs "decoded" = some v)
    (hv : (∃ b, (∀ x ∈ b, x < 256) ∧ v = PyElf.ofBytes b) ∨ isinstance v ["bytes"] = false) :
    Gen.PySrc._get_payload (.obj "Message" fs) source =
      match getPayload (match PyElf.bytesOf v with | some b => .bytes b | none => .other) with
      | .ok s => .ok (.str s)
      | .error c => .error (toStringLossy c) := by
  unfold Gen.PySrc._get_payload
  have hdel : msg_del (.obj "Message" fs) (.str (ofString "content-transfer-encoding")) =
      .ok (.obj "Message" (setField fs "headers" (.list (hs.filter fun x =>
        lowerStr (headerName x) != lowerStr (ofString "content-transfer-encoding"))))) := by
    simp [msg_del, msgHeaders, hh]
  have hget : msg_get_payload (.obj "Message" (setField fs "headers" (.list (hs.filter fun x =>
        lowerStr (headerName x) != lowerStr (ofString "content-transfer-encoding"))))) (.bool true) = .ok v := by
    simp only [msg_get_payload, truthy_bool, if_true, hasHeader_after_del "Message" fs hs _ hh, Bool.false_eq_true, if_false,
      getattr_obj, lookupField_setField']
    simp [hd]
  simp only [hsrc, truthy_bool, Bool.false_eq_true, if_false, hdel, ok_bind, hget]
  rcases hv with ⟨b, hb256, rfl⟩ | h
  · have hb : PyElf.bytesOf (PyElf.ofBytes b) = some b := PyElf.bytesOf_ofBytes b hb256
    have hi : isinstance (PyElf.ofBytes b) ["bytes"] = true := by rfl
    simp only [hi, truthy_bool, Bool.not_true, Bool.false_eq_true, if_false, bytes_decode_utf8, hb, getPayload]
    cases utf8Decode b with
    | some s => rfl
    | none => rfl
  · have hb : PyElf.bytesOf v = none := bytesOf_none_of_not_bytes v h
    simp only [h, truthy_bool, Bool.not_false, if_true, hb, getPayload]
    rfl

end Src
