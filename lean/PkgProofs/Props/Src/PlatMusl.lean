import PkgProofs.Props.Src.PlatEnv
/-!
# Translated source of `_musllinux.py` = the model (`PkgModel/Platform.lean`, C16)

* `linuxEnv_of`: the concrete table `linuxEnvOf cfg exe` answers as `cfg` says (`LinuxEnv`).
* `_parse_musl_version_eq_model`: for ASCII text the translated `_parse_musl_version` (Unicode-aware `splitlines`,
  `strip`, `\d`) is `Plat.parseMuslVersion` (ASCII `splitBy` / `stripBy` / `spanDigits`).
* `_musllinux.platform_tags_eq_model`: the generator yields `Plat.musllinuxTags` for every table satisfying `LinuxEnv`.
-/
namespace Src
open PyRt PyRx Py Plat Elf

theorem _parse_musl_version_translated : Gen.PySrc._parse_musl_version_supported = true := rfl
theorem _musllinux.platform_tags_translated : Gen.PySrc._musllinux.platform_tags_supported = true := rfl

/-! ### the concrete table satisfies the relation -/

private theorem eq_tuple_strs1 (a : Str) : PyVal.eq (.tuple [.str a]) (.tuple [.str a]) = true := by
  simp [PyVal.eq, eqList]

theorem isPolicy_policyValue (p : Policy) : IsPolicy (policyValue p) p := by
  cases p with
  | absent => rfl
  | func dflt rules => exact ⟨_, rfl, by simp⟩
  | legacy m1 m2010 m2014 =>
    refine ⟨_, rfl, ?_⟩
    cases m1 <;> cases m2010 <;> cases m2014 <;> simp

theorem linuxEnv_of (cfg : LCfg) (exe : Str) : LinuxEnv (linuxEnvOf cfg exe) cfg exe where
  exePath := by simp [linuxEnvOf, env_get]
  musl := by simp [linuxEnvOf, env_call, env_get, env_call.find, row, eq_tuple_strs1]
  elf := by simp [linuxEnvOf, env_call, env_get, env_call.find, row, eq_tuple_strs1]
  confstr := by simp [linuxEnvOf, env_call, env_get, env_call.find, row, PyVal.eq, eqList]
  ctypes := by simp [linuxEnvOf, env_call, env_get, env_call.find, row, PyVal.eq, eqList]
  policy := ⟨policyValue cfg.policy, by simp [linuxEnvOf, env_get], isPolicy_policyValue _⟩


/-! ## `_parse_musl_version` -/

/-! ### ASCII: the Unicode-aware run-time predicates are the model's -/

theorem isLineBreak_ascii : ∀ c, c < 128 → PyPlat.isLineBreak c = Plat.isLineBreak c := by decide +kernel
theorem isSpacePy_ascii : ∀ c, c < 128 → Py.isSpacePy c = Py.isSpaceAscii c := by decide +kernel

/-- `\d` as the translator sweeps it from the interpreter (Unicode `Nd`) -/
def uniDigits : List (Nat × Nat) := [(48, 57), (1632, 1641), (1776, 1785), (1984, 1993), (2406, 2415), (2534, 2543), (2662, 2671), (2790, 2799), (2918, 2927), (3046, 3055), (3174, 3183), (3302, 3311), (3430, 3439), (3558, 3567), (3664, 3673), (3792, 3801), (3872, 3881), (4160, 4169), (4240, 4249), (6112, 6121), (6160, 6169), (6470, 6479), (6608, 6617), (6784, 6793), (6800, 6809), (6992, 7001), (7088, 7097), (7232, 7241), (7248, 7257), (42528, 42537), (43216, 43225), (43264, 43273), (43472, 43481), (43504, 43513), (43600, 43609), (44016, 44025), (65296, 65305), (66720, 66729), (68912, 68921), (69734, 69743), (69872, 69881), (69942, 69951), (70096, 70105), (70384, 70393), (70736, 70745), (70864, 70873), (71248, 71257), (71360, 71369), (71472, 71481), (71904, 71913), (72016, 72025), (72784, 72793), (73040, 73049), (73120, 73129), (73552, 73561), (92768, 92777), (92864, 92873), (93008, 93017), (120782, 120831), (123200, 123209), (123632, 123641), (124144, 124153), (125264, 125273), (130032, 130041)]

/-- a class table whose only entry below 128 is `0-9` reads ASCII text like `[0-9]` -/
theorem inRanges_ascii_digit (t : List (Nat × Nat)) (ht : ∀ r ∈ t, 128 ≤ r.1) (c : Nat) (hc : c < 128) :
    inRanges ((48, 57) :: t) c = isDigit c := by
  have : t.any (fun r => decide (r.1 ≤ c) && decide (c ≤ r.2)) = false := by
    simp only [List.any_eq_false, Bool.and_eq_true, decide_eq_true_eq, not_and]
    intro r hr h1
    have := ht r hr
    omega
  simp [inRanges, isDigit, this]

private theorem dropWhile_congr_mem {α} (p q : α → Bool) (l : List α) (h : ∀ x ∈ l, p x = q x) :
    l.dropWhile p = l.dropWhile q := by
  induction l with
  | nil => rfl
  | cons x xs ih =>
    simp only [List.dropWhile_cons, h x (List.mem_cons_self ..)]
    rw [ih (fun y hy => h y (List.mem_cons_of_mem _ hy))]

private theorem takeWhile_congr_mem {α} (p q : α → Bool) (l : List α) (h : ∀ x ∈ l, p x = q x) :
    l.takeWhile p = l.takeWhile q := by
  induction l with
  | nil => rfl
  | cons x xs ih =>
    simp only [List.takeWhile_cons, h x (List.mem_cons_self ..)]
    rw [ih (fun y hy => h y (List.mem_cons_of_mem _ hy))]

private theorem mem_of_mem_dropWhile {α} (p : α → Bool) (l : List α) (x : α) (h : x ∈ l.dropWhile p) : x ∈ l :=
  (List.dropWhile_sublist p).subset h

theorem mem_of_mem_stripBy (p : Nat → Bool) (s : Str) (x : Nat) (h : x ∈ stripBy p s) : x ∈ s := by
  unfold stripBy at h
  rw [List.mem_reverse] at h
  have := mem_of_mem_dropWhile _ _ _ h
  rw [List.mem_reverse] at this
  exact mem_of_mem_dropWhile _ _ _ this

theorem stripBy_congr_mem (p q : Nat → Bool) (s : Str) (h : ∀ x ∈ s, p x = q x) : stripBy p s = stripBy q s := by
  unfold stripBy
  rw [dropWhile_congr_mem p q s h]
  congr 1
  apply dropWhile_congr_mem
  intro x hx
  rw [List.mem_reverse] at hx
  exact h x (mem_of_mem_dropWhile _ _ _ hx)

theorem strip_ascii (s : Str) (h : ∀ c ∈ s, c < 128) : Py.strip s = stripBy isSpaceAscii s :=
  stripBy_congr_mem isSpacePy isSpaceAscii s (fun x hx => isSpacePy_ascii x (h x hx))

/-! ### `splitlines` against `splitBy` -/

theorem mem_of_mem_splitBy (p : Nat → Bool) (s : Str) : ∀ q ∈ splitBy p s, ∀ x ∈ q, x ∈ s := by
  induction s with
  | nil => intro q hq x hx; simp [splitBy] at hq; subst hq; cases hx
  | cons c cs ih =>
    intro q hq x hx
    simp only [splitBy] at hq
    split at hq
    · simp only [List.mem_cons] at hq
      rcases hq with rfl | hq
      · cases hx
      · exact List.mem_cons_of_mem _ (ih q hq x hx)
    · split at hq
      · simp only [List.mem_singleton] at hq
        subst hq; simp only [List.mem_singleton] at hx; subst hx; exact List.mem_cons_self ..
      · rename_i q0 qs he
        simp only [List.mem_cons] at hq
        rcases hq with rfl | hq
        · simp only [List.mem_cons] at hx
          rcases hx with rfl | hx
          · exact List.mem_cons_self ..
          · exact List.mem_cons_of_mem _ (ih q0 (by rw [he]; exact List.mem_cons_self ..) x hx)
        · exact List.mem_cons_of_mem _ (ih q (by rw [he]; exact List.mem_cons_of_mem _ hq) x hx)

theorem splitBy_congr_mem (p q : Nat → Bool) (s : Str) (h : ∀ x ∈ s, p x = q x) : splitBy p s = splitBy q s := by
  induction s with
  | nil => rfl
  | cons c cs ih =>
    simp only [splitBy, h c (List.mem_cons_self ..), ih (fun y hy => h y (List.mem_cons_of_mem _ hy))]

theorem splitBy_ne_nil (p : Nat → Bool) (s : Str) : splitBy p s ≠ [] := by
  cases s with
  | nil => simp [splitBy]
  | cons c cs =>
    simp only [splitBy]
    split
    · simp
    · split <;> simp

/-- put the pending characters of the current line in front of the first piece -/
def withPending (cur : Str) : List Str → List Str
  | [] => [cur.reverse]
  | q :: qs => (cur.reverse ++ q) :: qs

theorem withPending_nil_splitBy (p : Nat → Bool) (s : Str) : withPending [] (splitBy p s) = splitBy p s := by
  cases hs : splitBy p s with
  | nil => exact absurd hs (splitBy_ne_nil _ s)
  | cons q qs => simp [withPending]

/-- the non-empty stripped lines -/
def keptLines (f : Str → Str) (l : List Str) : List Str := (l.map f).filter (!·.isEmpty)

theorem keptLines_cons (f : Str → Str) (x : Str) (l : List Str) :
    keptLines f (x :: l) = keptLines f [x] ++ keptLines f l := by
  simp only [keptLines, List.map_cons, List.map_nil, List.filter_cons, List.filter_nil]
  split <;> rfl

theorem keptLines_empty (f : Str → Str) (hf : f [] = []) (l : List Str) : keptLines f ([] :: l) = keptLines f l := by
  simp [keptLines, hf]

/-- `splitlines` and a split at every line-break character differ only in empty pieces (`\r\n`, the end of the text) -/
theorem keptLines_splitLines (f : Str → Str) (hf : f [] = []) (s cur : Str) :
    keptLines f (PyPlat.splitLines s cur) = keptLines f (withPending cur (splitBy PyPlat.isLineBreak s)) := by
  fun_induction PyPlat.splitLines s cur
  · rename_i cur hc
    have : cur = [] := by simpa using hc
    subst this
    simp [splitBy, withPending, keptLines, hf]
  · simp [splitBy, withPending]
  · rename_i rest cur ih
    have h13 : PyPlat.isLineBreak 13 = true := by decide
    have h10 : PyPlat.isLineBreak 10 = true := by decide
    rw [keptLines_cons, ih, withPending_nil_splitBy]
    simp only [splitBy, h13, h10, if_true, withPending, List.append_nil]
    rw [keptLines_cons f cur.reverse ([] :: _), keptLines_empty f hf]
  · rename_i c rest cur _ hb ih
    rw [keptLines_cons, ih, withPending_nil_splitBy]
    simp only [splitBy, hb, if_true, withPending, List.append_nil]
    rw [keptLines_cons f cur.reverse (splitBy _ _)]
  · rename_i c rest cur _ hb ih
    rw [ih]
    simp only [splitBy, hb, Bool.false_eq_true, if_false]
    cases splitBy PyPlat.isLineBreak rest <;> simp [withPending]

private theorem stripBy_nil (p : Nat → Bool) : stripBy p [] = [] := rfl

/-- the lines `_parse_musl_version` looks at, for ASCII text -/
theorem keptLines_ascii (s : Str) (h : ∀ c ∈ s, c < 128) :
    keptLines Py.strip (PyPlat.splitLines s []) =
      ((splitBy Plat.isLineBreak s).map (stripBy isSpaceAscii)).filter (!·.isEmpty) := by
  rw [keptLines_splitLines Py.strip rfl s [], splitBy_congr_mem _ Plat.isLineBreak s (fun x hx => isLineBreak_ascii x (h x hx))]
  rw [withPending_nil_splitBy, keptLines]
  congr 1
  apply List.map_congr_left
  intro q hq
  exact strip_ascii q (fun c hc => h c (mem_of_mem_splitBy _ s q hq c hc))

/-! ### the run-time pieces -/

theorem str_splitlines_str (s : Str) : PyPlat.str_splitlines (.str s) = .ok (.list ((PyPlat.splitLines s []).map .str)) := by rfl

theorem genexp_strip_strs (l : List Str) :
    genexp PySet.str_strip (.list (l.map .str)) = .ok (.iter ((l.map Py.strip).map .str)) := by
  rw [genexp_ok PySet.str_strip (fun v => match v with | .str s => .str (Py.strip s) | v => v) _ _ (iterate_list _)]
  · simp [List.map_map, Function.comp_def]
  · intro x hx
    simp only [List.mem_map] at hx
    obtain ⟨a, _, rfl⟩ := hx
    rfl

theorem genexpIf_truthy_strs (l : List Str) :
    genexpIf (fun n => .ok n) (fun n => .ok (.bool (truthy n))) (.iter (l.map .str)) =
      .ok (.iter ((l.filter (!·.isEmpty)).map .str)) := by
  simp only [genexpIf, iterate_iter, ok_bind]
  rw [filterM_ok (fun n => .ok (PyVal.bool (truthy n))) truthy _ (fun x _ => rfl)]
  simp only [ok_bind]
  rw [mapM_ok (fun n => .ok n) id _ (fun x _ => rfl)]
  simp only [List.map_id, pure_ok, List.filter_map]
  rfl

private theorem lt_int_int (a b : Int) : PyRt.lt (.int a) (.int b) = .ok (.bool (decide (a < b))) := by
  simp [PyRt.lt, cmp, asInt, Cmp.onInt]

private theorem getslice_str_to (s : Str) (k : Nat) : getslice (.str s) .none (.int (k : Int)) = .ok (.str (s.take k)) := by
  simp only [getslice, clampBound_none, clampBound_nat, ok_bind, pure_ok, sliceList, List.drop_zero]
  congr 2
  by_cases h : k ≤ s.length
  · rw [Nat.min_eq_left h]
  · rw [Nat.min_eq_right (by omega), List.take_of_length_le (Nat.le_refl _), List.take_of_length_le (by omega)]

theorem uniDigits_ascii (c : Nat) (hc : c < 128) : inRanges uniDigits c = isDigit c :=
  inRanges_ascii_digit _ (by decide) c hc

/-- a greedy `\d+` run on ASCII text is the model's `spanDigits` -/
theorem runDigits_ascii (s : Str) (h : ∀ c ∈ s, c < 128) :
    s.takeWhile (inRanges uniDigits) = (spanDigits s).1 ∧ s.dropWhile (inRanges uniDigits) = (spanDigits s).2 := by
  have hc : ∀ x ∈ s, inRanges uniDigits x = inRanges [(48, 57)] x := fun x hx => by
    rw [uniDigits_ascii x (h x hx), inRanges_digit]
  rw [takeWhile_congr_mem _ _ s hc, dropWhile_congr_mem _ _ s hc]
  exact takeWhile_digits s

theorem mem_of_mem_spanDigits_snd (s : Str) (x : Nat) (hx : x ∈ (spanDigits s).2) : x ∈ s := by
  rw [← (takeWhile_digits s).2] at hx
  exact mem_of_mem_dropWhile _ _ _ hx

/-- a literal word at the head of a sequence pattern -/
theorem matchSeq_lits (w : Str) (items : List SeqItem) (s : Str) (gs : List Str) :
    matchSeq (w.map .lit ++ items) s gs = if startsWith s w then matchSeq items (s.drop w.length) gs else Option.none := by
  induction w generalizing s with
  | nil => simp [startsWith]
  | cons c cs ih =>
    cases s with
    | nil => simp [matchSeq, startsWith]
    | cons x xs =>
      simp only [List.map_cons, List.cons_append, matchSeq, startsWith, ih, List.length_cons, List.drop_succ_cons]
      by_cases hx : x = c
      · subst hx; simp
      · have : (x == c) = false := by simpa using hx
        simp [this]

private theorem ne_str_str (a b : Str) : PyRt.ne (.str a) (.str b) = .bool (a != b) := by
  simp [PyRt.ne, bne]

theorem _parse_musl_version_eq_model (s : Str) (h : ∀ c ∈ s, c < 128) :
    Gen.PySrc._parse_musl_version (.str s) = .ok (ofMusl (parseMuslVersion s)) := by
  unfold Gen.PySrc._parse_musl_version parseMuslVersion
  simp only [str_splitlines_str, ok_bind, genexp_strip_strs, pure_ok, genexpIf_truthy_strs, list_iter]
  have hk := keptLines_ascii s h
  unfold keptLines at hk
  rw [hk]
  -- every line is ASCII
  have hL : ∀ l ∈ ((splitBy Plat.isLineBreak s).map (stripBy isSpaceAscii)).filter (!·.isEmpty), ∀ c ∈ l, c < 128 := by
    intro l hl c hc
    simp only [List.mem_filter, List.mem_map] at hl
    obtain ⟨⟨q, hq, rfl⟩, _⟩ := hl
    exact h c (mem_of_mem_splitBy _ s q hq c (mem_of_mem_stripBy _ q c hc))
  generalize ((splitBy Plat.isLineBreak s).map (stripBy isSpaceAscii)).filter (!·.isEmpty) = L at hL
  rcases L with _ | ⟨l0, _ | ⟨l1, tail⟩⟩
  · simp [lt_int_int, ofMusl]
  · simp [lt_int_int, ofMusl]
  · have h1 : ∀ c ∈ l1, c < 128 := hL l1 (by simp)
    have hlen : ∀ n : Nat, decide (((n + 1 + 1 : Nat) : Int) < 2) = false := fun n => by
      simp only [decide_eq_false_iff_not]; omega
    simp only [List.map_cons, len_list, List.length_cons, ok_bind, lt_int_int, truthy_bool,
      hlen, Bool.false_eq_true, if_false, getitem_list_zero, getitem_list_one,
      show (PyVal.int 4) = PyVal.int ((4 : Nat) : Int) from rfl, getslice_str_to, ne_str_str,
      show ofString "musl" = sMusl from rfl]
    by_cases hm : (l0.take 4 != sMusl) = true
    · simp [hm, ofMusl]
    · simp only [hm, Bool.false_eq_true, if_false, match_seq, pure_ok, ok_bind]
      have hpat : ∀ items, (SeqItem.lit 86 :: SeqItem.lit 101 :: SeqItem.lit 114 :: SeqItem.lit 115 :: SeqItem.lit 105 ::
          SeqItem.lit 111 :: SeqItem.lit 110 :: SeqItem.lit 32 :: items) = sVersionSp.map .lit ++ items := fun _ => rfl
      rw [hpat, matchSeq_lits]
      cases hs : startsWith l1 sVersionSp
      · simp [ofMusl]
      · have h8 : ∀ c ∈ l1.drop 8, c < 128 := fun c hc => h1 c (List.mem_of_mem_drop hc)
        have hd : sVersionSp.length = 8 := rfl
        simp only [hd, if_true, Bool.not_true, Bool.false_eq_true, if_false, matchSeq, ← uniDigits.eq_def]
        simp only [(runDigits_ascii _ h8).1, (runDigits_ascii _ h8).2]
        cases ha : (spanDigits (l1.drop 8)).1.isEmpty
        · simp only [Bool.false_eq_true, if_false]
          rcases hr : (spanDigits (l1.drop 8)).2 with _ | ⟨c, rest⟩
          · simp [matchSeq, ofMusl]
          · have hrest : ∀ x ∈ rest, x < 128 := fun x hx =>
              h8 x (mem_of_mem_spanDigits_snd _ x (by rw [hr]; exact List.mem_cons_of_mem _ hx))
            by_cases hc : c = 46
            · subst hc
              simp only [matchSeq, beq_self_eq_true, if_true, (runDigits_ascii _ hrest).1]
              cases hb : (spanDigits rest).1.isEmpty
              · simp [match_group, int_ascii_digits _ ha (spanDigits_digits _), int_ascii_digits _ hb (spanDigits_digits rest),
                  ofMusl]
              · simp [ofMusl]
            · have : (c == 46) = false := by simpa using hc
              simp [matchSeq, this]
              split <;> simp_all [ofMusl]
        · simp [ofMusl]


/-! ## `_musllinux.platform_tags` -/

private theorem flatMap_single {α β} (f : α → β) (l : List α) : l.flatMap (fun x => [f x]) = l.map f := by
  induction l with
  | nil => rfl
  | cons x xs ih => simp [List.flatMap_cons, ih]

theorem pyRangeDown_nat (n : Nat) : ∀ fuel, n + 1 ≤ fuel →
    PyRt.rangeDown fuel (n : Int) (-1) (-1) = (Tags.rangeDown (n + 1) 0).map (fun (k : Nat) => PyVal.int (k : Int)) := by
  induction n with
  | zero =>
    intro fuel hf
    obtain ⟨f, rfl⟩ : ∃ f, fuel = f + 1 := ⟨fuel - 1, by omega⟩
    cases f <;> simp [PyRt.rangeDown, Tags.rangeDown]
  | succ n ih =>
    intro fuel hf
    obtain ⟨f, rfl⟩ : ∃ f, fuel = f + 1 := ⟨fuel - 1, by omega⟩
    have h1 : ((n + 1 : Nat) : Int) > -1 := by omega
    have h2 : ((n + 1 : Nat) : Int) + -1 = (n : Int) := by omega
    rw [PyRt.rangeDown, if_pos h1, h2, ih f (by omega)]
    conv => rhs; rw [Tags.rangeDown.eq_def]
    simp

theorem range3_down_nat (n : Nat) :
    range3 (.int (n : Int)) (.int (-1)) (.int (-1)) = .ok (.iter ((Tags.rangeDown (n + 1) 0).map (fun (k : Nat) => PyVal.int (k : Int)))) := by
  simp [range3, pyRangeDown_nat n (n + 1) (Nat.le_refl _)]

theorem _musllinux.platform_tags_eq_model (env : Env) (cfg : LCfg) (exe : Str) (archs : List Str)
    (he : LinuxEnv env cfg exe) :
    Gen.PySrc._musllinux.platform_tags env (ofStrs archs) = .ok (.iter ((musllinuxTags cfg archs).map .str)) := by
  unfold Gen.PySrc._musllinux.platform_tags musllinuxTags
  simp only [he.exePath, he.musl, ok_bind, pure_ok]
  rcases getMuslVersion cfg with _ | ⟨major, minor⟩
  · simp [ofMusl]
  · simp only [ofMusl, isNone_tuple, Bool.false_eq_true, if_false, ofStrs, iterate_list, ok_bind, getitem_tuple_one,
      getitem_tuple_zero, range3_down_nat, iterate_iter, format_nat]
    rw [forIn_append_ok _ _ _ (fun x => match x with
      | .str a => (Tags.rangeDown (minor + 1) 0).map (fun m => PyVal.str (sMusllinux_ ++ dec major ++ us ++ dec m ++ us ++ a))
      | _ => [])]
    · simp [List.flatMap_map, List.map_flatMap, Function.comp_def]
    · intro x hx s
      simp only [List.mem_map] at hx
      obtain ⟨a, _, rfl⟩ := hx
      rw [forIn_append_ok _ _ _ (fun x => match x with
        | .int m => [PyVal.str (sMusllinux_ ++ dec major ++ us ++ dec m.toNat ++ us ++ a)]
        | _ => [])]
      · simp [List.flatMap_map, flatMap_single]
      · intro y hy t
        simp only [List.mem_map] at hy
        obtain ⟨m, _, rfl⟩ := hy
        simp [sMusllinux_, us, ofString]

/-! ## the hypotheses are satisfiable (and the ASCII one is needed) -/

/-- a minimal x86-64 ELF whose only program header is `PT_INTERP` → `/lib/ld-musl-x86_64.so.1` -/
def muslExe : Bytes :=
  [127, 69, 76, 70, 2, 1, 1, 0, 0, 0, 0, 0, 0, 0, 0, 0] ++            -- e_ident
  [2, 0, 62, 0, 1, 0, 0, 0] ++ toLE 8 0 ++ toLE 8 64 ++ toLE 8 0 ++   -- type, machine, version, entry, phoff, shoff
  toLE 4 0 ++ toLE 2 64 ++ toLE 2 56 ++ toLE 2 1 ++ toLE 2 0 ++ toLE 2 0 ++ toLE 2 0 ++  -- flags … shstrndx
  toLE 4 3 ++ toLE 4 4 ++ toLE 8 120 ++ toLE 8 0 ++ toLE 8 0 ++ toLE 8 25 ++ toLE 8 25 ++ toLE 8 1 ++  -- PT_INTERP
  ofString "/lib/ld-musl-x86_64.so.1" ++ [0]

/-- probes of a musl system: the loader prints its banner (with a `\r\n` and an empty line in it) -/
def muslCfg : LCfg :=
  { exe := some muslExe, confstr := none, ctypesVersion := none, policy := .absent,
    ldStderr := ofString "musl libc (x86_64)\nVersion 1.2.4\r\n\nDynamic Program Loader\nUsage: ld.so [options] [--] pathname" }

example : ∀ c ∈ muslCfg.ldStderr, c < 128 := by decide +kernel

example : Gen.PySrc._parse_musl_version (.str muslCfg.ldStderr) = .ok (.tuple [.int 1, .int 2]) := by
  rw [_parse_musl_version_eq_model _ (by decide +kernel)]
  have : parseMuslVersion muslCfg.ldStderr = some (1, 2) := by decide +kernel
  rw [this]; rfl

/-- outside ASCII the two sides differ: U+2028 is a line boundary for `str.splitlines` (and for the translated code),
the model splits at ASCII boundaries only -/
example : Gen.PySrc._parse_musl_version (.str (sMusl ++ 0x2028 :: (sVersionSp ++ [49, 46, 50]))) =
      .ok (.tuple [.int 1, .int 2]) ∧
    parseMuslVersion (sMusl ++ 0x2028 :: (sVersionSp ++ [49, 46, 50])) = none := by
  constructor
  · rfl
  · decide +kernel

example : LinuxEnv (linuxEnvOf muslCfg (ofString "/usr/bin/python3")) muslCfg (ofString "/usr/bin/python3") :=
  linuxEnv_of _ _

example : getMuslVersion muslCfg = some (1, 2) := by decide +kernel

example : Gen.PySrc._musllinux.platform_tags (linuxEnvOf muslCfg (ofString "/usr/bin/python3"))
      (ofStrs [ofString "x86_64", ofString "i686"]) =
    .ok (.iter ([ofString "musllinux_1_2_x86_64", ofString "musllinux_1_1_x86_64", ofString "musllinux_1_0_x86_64",
      ofString "musllinux_1_2_i686", ofString "musllinux_1_1_i686", ofString "musllinux_1_0_i686"].map .str)) := by
  rw [_musllinux.platform_tags_eq_model _ muslCfg _ _ (linuxEnv_of _ _)]
  have : musllinuxTags muslCfg [ofString "x86_64", ofString "i686"] =
      [ofString "musllinux_1_2_x86_64", ofString "musllinux_1_1_x86_64", ofString "musllinux_1_0_x86_64",
       ofString "musllinux_1_2_i686", ofString "musllinux_1_1_i686", ofString "musllinux_1_0_i686"] := by decide +kernel
  rw [this]

end Src
