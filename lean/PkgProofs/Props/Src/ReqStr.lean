import PkgProofs.Props.Src.ReqObj
import PkgProofs.Props.Src.SSetRead
import PkgProofs.Props.Src.MarkerFmt
import PkgProofs.Props.Src.Names
import PkgProofs.Lemmas.ReqBasic
/-!
# Translated source of `Requirement._iter_parts`, `.__str__`, `.__hash__` = the model (`Req.str`, the hashed tuple)

`_iter_parts` is a generator: the translation accumulates the yielded values; `ReqStr.parts r name` is the list of strings
the model yields, `Req.str r` their concatenation for `name = r.name` (`ReqStr.flatten_parts`).  The clauses of the
specifier set are rendered sorted, so the iteration order `it` of the frozenset that the environment prescribes is not
observable (`ReqStr.specStr_of_perm`).

Hypothesis `hu : r.url ≠ some []` of the `_iter_parts` / `__str__` theorems: the code tests `if self.url:` (truth value), the
model `match r.url with | some u => …`; they differ exactly on `url = ""`, which `Requirement.__init__` never stores
(`self.url = parsed.url or None`): `ReqStr.url_ne_of_parse`, counterexample `ReqStr.str_url_empty_differs`,
corollary without the hypothesis for parsed requirements `Requirement.__str___of_parse`.
-/
set_option linter.unusedSimpArgs false   -- x8: the simp sets list the lemmas of every accepted spelling
namespace Src
open PyRt Py
open SSet (Member SpecSet)

theorem reqstr_translated :
    (Gen.PySrc.Requirement._iter_parts_supported && Gen.PySrc.Requirement.__str___supported &&
     Gen.PySrc.Requirement.__hash___supported) = true := rfl

namespace ReqStr

/-! ### a Python `set` / `frozenset` of strings -/

@[simp] theorem setItems_mkSet_set (l : List PyVal) : PyRx.setItems (PyRx.mkSet "set" l) = some l := by rfl
@[simp] theorem setItems_mkSet_frozenset (l : List PyVal) : PyRx.setItems (PyRx.mkSet "frozenset" l) = some l := by rfl

theorem set_truthy_strs (l : List Str) : PySet.set_truthy (PyRx.mkSet "set" (l.map .str)) = !l.isEmpty := by
  simp [PySet.set_truthy]

/-- `sorted(<set of strings>)` -/
theorem sorted_set_strs (l : List Str) :
    PySet.sorted_ (PyRx.mkSet "set" (l.map .str)) = .ok (.list ((sortBy strLe l).map .str)) := by
  simp [PySet.sorted_, strsOf_strs]

/-- `frozenset(<set>)` relabels -/
theorem frozenset_of_set (eqf : PyVal → PyVal → M PyVal) (l : List PyVal) :
    PyRx.set_of "frozenset" eqf (PyRx.mkSet "set" l) = .ok (PyRx.mkSet "frozenset" l) := by
  simp [PyRx.set_of]

@[simp] theorem truthy_ofMarker (m : List Mk.M) : truthy (PyMk.ofMarker m) = true := by rfl

theorem truthy_ofOptStr (u : Option Str) : truthy (ofOptStr u) = (match u with | some s => !s.isEmpty | none => false) := by
  cases u <;> rfl

@[simp] theorem format_ofOptStr_some (s : Str) : format (ofOptStr (some s)) = .ok s := by rfl

/-- x8: `"[" + s + "]"` instead of an f-string, a list handed back through `iter(parts)` instead of `yield`s -/
@[simp] theorem add_str_str (a b : Str) : add (.str a) (.str b) = .ok (.str (a ++ b)) := by rfl
@[simp] theorem add_str_ofOptStr (a s : Str) : add (.str a) (ofOptStr (some s)) = .ok (.str (a ++ s)) := by rfl
@[simp] theorem iter__list (l : List PyVal) : PySet.iter_ (.list l) = .ok (.iter l) := by rfl

/-- the literals of `_iter_parts` as code points -/
theorem lits : ofString "[" = [91] ∧ ofString "]" = [93] ∧ ofString "," = [44] ∧ ofString "@ " = [64, 32] ∧
    ofString " " = [32] ∧ ofString "; " = [59, 32] := by decide

/-! ### the model side -/

/-- the strings `_iter_parts(name)` yields, in order -/
def parts (r : Req.Requirement) (name : Str) : List Str :=
  [name]
  ++ (if r.extras.isEmpty then [] else [[91] ++ join [44] (Req.sortedExtras r) ++ [93]])
  ++ (if r.spec.isEmpty then [] else [Req.specStr r.spec])
  ++ (match r.url with
      | some u => [[64, 32] ++ u] ++ (if r.marker.isSome then [[32]] else [])
      | none => [])
  ++ (match r.marker with
      | some m => [[59, 32] ++ Mk.str m]
      | none => [])

/-- `"".join(self._iter_parts(self.name))` of the model is the concatenation of the parts -/
theorem flatten_parts (r : Req.Requirement) : (parts r r.name).flatten = Req.str r := by
  unfold parts Req.str
  cases r.url <;> cases r.marker <;> cases r.extras.isEmpty <;> cases r.spec.isEmpty <;> simp

/-- `canonicalize_name(name)` without validation never raises -/
theorem canonicalizeName_false (s : Str) : Names.canonicalizeName s false = some (Names.canon s) := by
  simp [Names.canonicalizeName]

/-- a parsed requirement never holds the empty string as `url` (`parsed.url or None`) -/
theorem url_ne_of_parse (src : Str) (r : Req.Requirement) (h : Req.parse src = .ok r) : r.url ≠ some [] := by
  unfold Req.parse at h
  cases hs : Req.parseSource src with
  | error e => rw [hs] at h; cases h
  | ok p =>
    rw [hs] at h
    change Req.ofParsed p = .ok r at h
    unfold Req.ofParsed at h
    cases hm : Req.mkSpecSet p.specifier with
    | error e => rw [hm] at h; cases h
    | ok sp =>
      rw [hm] at h
      injection h with h
      subst h
      cases p.url <;> simp

/-- the string of the requirement's specifier set, for any enumeration of the frozenset -/
theorem specStr_of_perm (ms : List S.Spec) (it : List Member) (hp : it.Perm (ofReqSpec ms).specs) :
    (ofReqSpec ms).str it = Req.specStr ms := by
  unfold SpecSet.str Req.specStr
  have : (it.map fun m => m.1.str).Perm (ms.map S.Spec.str) := by
    have := hp.map (fun m : Member => m.1.str)
    simpa [ofReqSpec, List.map_map, Function.comp_def] using this
  rw [ReqL.sortStr_perm_invariant this]

end ReqStr
open ReqStr

theorem Requirement._iter_parts_eq_model (env : Env) (r : Req.Requirement) (it : List Member)
    (h : Ordered env (ofReqSpec r.spec) it) (hp : it.Perm (ofReqSpec r.spec).specs) (hu : r.url ≠ some [])
    (name : Str) :
    Gen.PySrc.Requirement._iter_parts env (ofReq r) (.str name) = .ok (.iter ((parts r name).map .str)) := by
  unfold Gen.PySrc.Requirement._iter_parts
  simp only [getattr_req_extras, getattr_req_url, getattr_req_marker, getattr_req_specifier, ok_bind,
    set_truthy_strs, sorted_set_strs, str_join_list, format_str, SpecifierSet.__len___eq_model,
    SpecifierSet.__str___eq_model env _ it h, specStr_of_perm r.spec it hp, eq_int, SpecSet.len]
  obtain ⟨nm, url, extras, spec, marker⟩ := r
  have hlen : ∀ l : List S.Spec, ((((ofReqSpec l).specs.length : Nat) : Int) == 0) = l.isEmpty := by
    intro l; cases l <;> simp [ofReqSpec] <;> omega
  simp only [hlen, parts, Req.sortedExtras]
  obtain ⟨l1, l2, l3, l4, l5, l6⟩ := lits
  simp only [l1, l2, l3, l4, l5, l6, truthy_ofOptStr]
  rcases url with _ | _ | ⟨c, u⟩
  · cases marker <;> cases extras.isEmpty <;> cases spec.isEmpty <;> simp [Marker.__str___eq_model]
  · exact absurd rfl hu
  · cases marker <;> cases extras.isEmpty <;> cases spec.isEmpty <;> simp [Marker.__str___eq_model]

/-- `str(requirement)`; the iteration order `it` of the specifier frozenset is not observable.  `hu`: the `url` attribute is
never the empty string (`self.url = parsed.url or None`; `ReqStr.url_ne_of_parse`) — for `url = ""` the code prints no
`@ ` part (`if self.url:`), the model's `some []` prints one (`ReqStr.str_url_empty_differs`). -/
theorem Requirement.__str___eq_model (env : Env) (r : Req.Requirement) (it : List Member)
    (h : Ordered env (ofReqSpec r.spec) it) (hp : it.Perm (ofReqSpec r.spec).specs) (hu : r.url ≠ some []) :
    Gen.PySrc.Requirement.__str__ env (ofReq r) = .ok (.str (Req.str r)) := by
  simp only [Gen.PySrc.Requirement.__str__, getattr_req_name, ok_bind,
    Requirement._iter_parts_eq_model env r it h hp hu, show ofString "" = [] from rfl, str_join_iter, join_nil,
    flatten_parts]

/-- `str(Requirement(src))` -/
theorem Requirement.__str___of_parse (env : Env) (src : Str) (r : Req.Requirement) (hr : Req.parse src = .ok r)
    (it : List Member) (h : Ordered env (ofReqSpec r.spec) it) (hp : it.Perm (ofReqSpec r.spec).specs) :
    Gen.PySrc.Requirement.__str__ env (ofReq r) = .ok (.str (Req.str r)) :=
  Requirement.__str___eq_model env r it h hp (url_ne_of_parse src r hr)

/-- why `hu` is there: with `url = ""` (which `Requirement.__init__` never stores) the translated code prints `a`, the model
`a@ ` -/
theorem ReqStr.str_url_empty_differs :
    let r : Req.Requirement := ⟨[97], some [], [], [], none⟩
    Ordered [] (ofReqSpec r.spec) [] ∧ ([] : List Member).Perm (ofReqSpec r.spec).specs ∧
      Gen.PySrc.Requirement.__str__ [] (ofReq r) = .ok (.str [97]) ∧ Req.str r = [97, 64, 32] := by
  refine ⟨by rfl, List.Perm.refl _, by rfl, by rfl⟩

/-- `hash(requirement)`, symbolic (`PyRt.hash_sym`): the tuple that is hashed -/
theorem Requirement.__hash___eq_model (r : Req.Requirement) :
    Gen.PySrc.Requirement.__hash__ (ofReq r) =
      .ok (.tuple [.str (ofString "__hash__"),
        .tuple [.str (ofString "Requirement"), .str (Names.canon r.name), PyRx.mkSet "frozenset" (r.extras.map .str),
          ofSSet (ofReqSpec r.spec), ofOptStr r.url,
          (match r.marker with | none => .none | some m => PyMk.ofMarker m)]]) := by
  simp only [Gen.PySrc.Requirement.__hash__, className_ofReq, getattr_req_name, getattr_req_extras,
    getattr_req_specifier, getattr_req_url, getattr_req_marker, ok_bind, pure_ok, canonicalize_name_eq_model,
    canonicalizeName_false, frozenset_of_set, hash_sym]
  cases r.marker <;> rfl

end Src

