import PkgProofs.Props.Src.MarkerParse
import PkgProofs.Props.Src.MarkerFmt
/-!
# `Marker.__init__` = `Mk.mkMarker`

`Marker(src)`: parse, normalise the extra names, `ParserSyntaxError` re-raised as `InvalidMarker`.  Composition of
`Src.parse_marker_eq_model'` and `Src._normalize_extra_values_eq_model`.
-/
namespace Src
open PyRt Py PyMk

theorem Marker.__init___translated : Gen.PySrc.Marker.__init___supported = true := rfl

/-- `Marker.__init__(self, src)` on a fresh instance: the initialised object, or `InvalidMarker` -/
theorem Marker.__init___eq_model (O : PyMk.Oracle) (src : Str) :
    Gen.PySrc.Marker.__init__ O.ext (.obj "Marker" []) (.str src) =
      match Mk.mkMarker O.toExt src with
      | .ok l => .ok (ofMarker l)
      | .error _ => .error "InvalidMarker" := by
  unfold Gen.PySrc.Marker.__init__
  rw [parse_marker_eq_model']
  simp only [Mk.mkMarker]
  cases h : Mk.parse src with
  | error e =>
    have hc : PyRt.catches "ParserSyntaxError" "ParserSyntaxError" = true := by decide
    simp [Except.map, hc]
  | ok l =>
    simp only [ok_bind, _normalize_extra_values_eq_model, Except.map]
    rfl

end Src
