import PkgModel.Generated.PySrc
import PkgModel.Version
import PkgProofs.Lemmas.PyRt
import PkgProofs.Lemmas.PyRx
import PkgProofs.Lemmas.SrcRobust
/-!
# Translated source of `packaging.version` = the model
-/
namespace Src
open PyRt Py V

theorem _parse_letter_version_translated : Gen.PySrc._parse_letter_version_supported = true := rfl

def ofLetterNum : Option (Str × Nat) → PyVal
  | none => .none
  | some (l, n) => .tuple [.str l, .int n]

/-- a number group as the regex captures it: absent, or a non-empty run of ASCII digits -/
def NumText : Option Str → Prop
  | none => True
  | some d => d ≠ [] ∧ d.all isDigit = true

theorem int_digits (d : Str) (h1 : d ≠ []) (h2 : d.all isDigit = true) : int_ (.str d) = .ok (.int (undec d)) := by
  have : isDigitStr d = true := by
    cases d with
    | nil => exact absurd rfl h1
    | cons c cs => simpa [isDigitStr] using h2
  simp [int_, parseInt, this]

/-- closes a goal about a lower-cased letter `l` by splitting on which alias it is (robust to how the source tests it:
`if`/`elif` chain, `in [...]`, look-up in a constant table); `hd` evaluates `int(number)` -/
macro "letter_cases " l:ident " with " hd:term : tactic => `(tactic| (
  by_cases h1 : $l = ofString "alpha"
  · subst h1; simp (config := {decide := true}) [normLetter, const_dict_get_cons_str, const_dict_get_nil, contains, $hd:term]
  by_cases h2 : $l = ofString "beta"
  · subst h2; simp (config := {decide := true}) [normLetter, const_dict_get_cons_str, const_dict_get_nil, contains, $hd:term]
  by_cases h3 : $l = ofString "c"
  · subst h3; simp (config := {decide := true}) [normLetter, const_dict_get_cons_str, const_dict_get_nil, contains, $hd:term]
  by_cases h4 : $l = ofString "pre"
  · subst h4; simp (config := {decide := true}) [normLetter, const_dict_get_cons_str, const_dict_get_nil, contains, $hd:term]
  by_cases h5 : $l = ofString "preview"
  · subst h5; simp (config := {decide := true}) [normLetter, const_dict_get_cons_str, const_dict_get_nil, contains, $hd:term]
  by_cases h6 : $l = ofString "rev"
  · subst h6; simp (config := {decide := true}) [normLetter, const_dict_get_cons_str, const_dict_get_nil, contains, $hd:term]
  by_cases h7 : $l = ofString "r"
  · subst h7; simp (config := {decide := true}) [normLetter, const_dict_get_cons_str, const_dict_get_nil, contains, $hd:term]
  simp [normLetter, const_dict_get_cons_str, const_dict_get_nil, contains, Ne.symm h1, Ne.symm h2, Ne.symm h3, Ne.symm h4, Ne.symm h5,
    Ne.symm h6, Ne.symm h7, h1, h2, h3, h4, h5, h6, h7, $hd:term]))

/-- `_parse_letter_version(letter, number)`: `letter` is `None` or any string, `number` `None` or a digit string -/
theorem _parse_letter_version_eq_model (letter number : Option Str) (hn : NumText number) :
    Gen.PySrc._parse_letter_version (ofOptStr letter) (ofOptStr number) =
      .ok (ofLetterNum (V.parseLetterVersion letter number)) := by
  unfold Gen.PySrc._parse_letter_version
  rcases letter with _ | _ | ⟨c, cs⟩
  · rcases number with _ | _ | ⟨d, ds⟩
    · simp [ofOptStr, parseLetterVersion, ofLetterNum]
    · simp [ofOptStr, parseLetterVersion, ofLetterNum]
    · simp [ofOptStr, parseLetterVersion, ofLetterNum, int_digits _ hn.1 hn.2]
  · rcases number with _ | _ | ⟨d, ds⟩
    · simp [ofOptStr, parseLetterVersion, ofLetterNum]
    · simp [ofOptStr, parseLetterVersion, ofLetterNum]
    · simp [ofOptStr, parseLetterVersion, ofLetterNum, int_digits _ hn.1 hn.2]
  · -- a non-empty letter: whatever way the spelling is normalised (`if` chain, `in [...]`, a table look-up), split on
    -- which of the seven aliases the lower-cased letter is
    have hne : (c :: cs : Str).isEmpty = false := rfl
    rcases number with _ | d
    · simp only [ofOptStr, parseLetterVersion, ofLetterNum, str_lower, int_, truthy_str, hne]
      generalize lowerStr (c :: cs) = l
      letter_cases l with int_
    · simp only [ofOptStr, parseLetterVersion, ofLetterNum, str_lower, int_digits _ hn.1 hn.2, truthy_str, hne]
      generalize lowerStr (c :: cs) = l
      letter_cases l with (int_digits _ hn.1 hn.2)

/-! ### the extraction is what the scanner computes

`V.scan` does not call `parseLetterVersion`: `scanLetterGroup` / `scanPost` produce the normalised letter and the
number while scanning.  The two theorems below say that this is `parseLetterVersion` applied to the texts the
regex groups capture (`pre_l`/`pre_n`, `post_l`/`post_n1 or post_n2`, `dev_l`/`dev_n`). -/

/-- the spelled keyword the alternation matches (group `…_l`) and the rest -/
def takeKwText {α} : List (Str × α) → Str → Option (Str × Str)
  | [], _ => none
  | (k, _) :: rest, s =>
    match dropKw k s with
    | some r => some (s.take k.length, r)
    | none => takeKwText rest s

/-- `([0-9]+)?` as text -/
def optNumText (s : Str) : Option Str × Str :=
  let (d, r) := spanDigits s
  if d.isEmpty then (none, s) else (some d, r)

/-- `[-_\.]? KW [-_\.]? ([0-9]+)?`: ((letter text, number text), rest) -/
def letterGroupTexts {α} (kws : List (Str × α)) (s : Str) : Option ((Str × Option Str) × Str) :=
  match takeKwText kws (optSep s) with
  | none => none
  | some (t, r) =>
    let (d, r') := optNumText (optSep r)
    some ((t, d), r')

theorem dropKw_take (k s r : Str) (h : dropKw k s = some r) : lowerStr (s.take k.length) = k := by
  induction k generalizing s with
  | nil => simp [lowerStr]
  | cons a k ih =>
    cases s with
    | nil => simp [dropKw] at h
    | cons c cs =>
      simp only [dropKw] at h
      split at h
      · rename_i hc
        have := ih cs h
        simp only [lowerStr] at this
        have hc' : lowerAscii c = a := by simpa using hc
        simp [lowerStr, hc', this]
      · simp at h

theorem dropKw_take_ne (k s r : Str) (hk : k ≠ []) (h : dropKw k s = some r) : s.take k.length ≠ [] := by
  cases k with
  | nil => exact absurd rfl hk
  | cons a k =>
    cases s with
    | nil => simp [dropKw] at h
    | cons c cs => simp

theorem optNum_text (s : Str) : optNum s = ((optNumText s).1.map undec, (optNumText s).2) := by
  simp only [optNum, optNumText]
  cases h : spanDigits s with
  | mk d r => cases hd : d.isEmpty <;> simp

/-- keyword tables: non-empty lower-case keywords whose normal form is the label of their tag -/
def KwsOk {α} (lab : α → Str) (kws : List (Str × α)) : Prop :=
  ∀ k a, (k, a) ∈ kws → k ≠ [] ∧ normLetter k = lab a

theorem takeKw_text {α} (lab : α → Str) (kws : List (Str × α)) (hk : KwsOk lab kws) (s : Str) :
    (match takeKw kws s with
     | some (a, r) => ∃ t, takeKwText kws s = some (t, r) ∧ t ≠ [] ∧ normLetter (lowerStr t) = lab a
     | none => takeKwText kws s = none) := by
  induction kws with
  | nil => simp [takeKw, takeKwText]
  | cons e rest ih =>
    obtain ⟨k, a⟩ := e
    simp only [takeKw, takeKwText]
    cases h : dropKw k s with
    | some r =>
      have hka := hk k a (List.mem_cons_self ..)
      exact ⟨_, rfl, dropKw_take_ne k s r hka.1 h, by rw [dropKw_take k s r h]; exact hka.2⟩
    | none => exact ih (fun k' a' hm => hk k' a' (List.mem_cons_of_mem _ hm))

/-- `scanLetterGroup` = `_parse_letter_version` of the captured texts -/
theorem scanLetterGroup_eq_parse {α} (lab : α → Str) (kws : List (Str × α)) (hk : KwsOk lab kws) (s : Str) :
    (scanLetterGroup kws s).map (fun x => ((lab x.1.1, x.1.2), x.2)) =
      (letterGroupTexts kws s).bind fun x => (parseLetterVersion (some x.1.1) x.1.2).map fun ln => (ln, x.2) := by
  have h := takeKw_text lab kws hk (optSep s)
  simp only [scanLetterGroup, letterGroupTexts]
  cases h1 : takeKw kws (optSep s) with
  | none => rw [h1] at h; simp [h]
  | some ar =>
    obtain ⟨a, r⟩ := ar
    rw [h1] at h
    obtain ⟨t, ht, hne, hl⟩ := h
    simp only [ht, optNum_text]
    cases t with
    | nil => exact absurd rfl hne
    | cons c cs =>
      cases hd : (optNumText (optSep r)).1 <;> simp [parseLetterVersion, hl]

theorem preKws_ok : KwsOk PreL.str preKws := by
  intro k l h
  simp only [preKws, List.mem_cons, Prod.mk.injEq, List.not_mem_nil, or_false] at h
  rcases h with ⟨rfl, rfl⟩ | ⟨rfl, rfl⟩ | ⟨rfl, rfl⟩ | ⟨rfl, rfl⟩ | ⟨rfl, rfl⟩ | ⟨rfl, rfl⟩ | ⟨rfl, rfl⟩ | ⟨rfl, rfl⟩ <;> decide

theorem postKws_ok : KwsOk (fun _ => ofString "post") postKws := by
  intro k a h
  simp only [postKws, List.mem_cons, Prod.mk.injEq, List.not_mem_nil, or_false] at h
  rcases h with ⟨rfl, _⟩ | ⟨rfl, _⟩ | ⟨rfl, _⟩ <;> exact ⟨by decide, by show normLetter _ = ofString "post"; decide⟩

theorem devKws_ok : KwsOk (fun _ => ofString "dev") devKws := by
  intro k a h
  simp only [devKws, List.mem_cons, Prod.mk.injEq, List.not_mem_nil, or_false] at h
  rcases h with ⟨rfl, _⟩
  exact ⟨by decide, by show normLetter _ = ofString "dev"; decide⟩

/-- the texts of `post_l` and `post_n1 or post_n2` -/
def postTexts (s : Str) : Option ((Option Str × Option Str) × Str) :=
  let implicit : Option (Str × Str) :=
    match s with
    | 45 :: r => (match optNumText r with | (some d, r') => some (d, r') | (none, _) => none)
    | _ => none
  match implicit with
  | some (d, r) => some ((none, some d), r)
  | none => (letterGroupTexts postKws s).map fun x => ((some x.1.1, x.1.2), x.2)

theorem optNumText_some (s d r : Str) (h : optNumText s = (some d, r)) : ∃ c cs, d = c :: cs := by
  simp only [optNumText] at h
  cases hs : spanDigits s with
  | mk d' r' =>
    rw [hs] at h
    cases d' with
    | nil => simp at h
    | cons c cs => simp at h; exact ⟨c, cs, h.1.symm⟩

theorem takeKwText_ne {α} (kws : List (Str × α)) (hk : ∀ k a, (k, a) ∈ kws → k ≠ []) (s t r : Str)
    (h : takeKwText kws s = some (t, r)) : t ≠ [] := by
  induction kws with
  | nil => simp [takeKwText] at h
  | cons e rest ih =>
    obtain ⟨k, a⟩ := e
    simp only [takeKwText] at h
    cases hd : dropKw k s with
    | some r' =>
      rw [hd] at h
      simp only [Option.some.injEq, Prod.mk.injEq] at h
      rw [← h.1]
      exact dropKw_take_ne k s r' (hk k a (List.mem_cons_self ..)) hd
    | none =>
      rw [hd] at h
      exact ih (fun k' a' hm => hk k' a' (List.mem_cons_of_mem _ hm)) h

theorem letterGroupTexts_ne {α} (lab : α → Str) (kws : List (Str × α)) (hk : KwsOk lab kws) (s t : Str) (d r)
    (h : letterGroupTexts kws s = some ((t, d), r)) : t ≠ [] := by
  simp only [letterGroupTexts] at h
  cases h1 : takeKwText kws (optSep s) with
  | none => rw [h1] at h; simp at h
  | some x =>
    obtain ⟨t', r'⟩ := x
    rw [h1] at h
    simp only [Option.some.injEq, Prod.mk.injEq] at h
    rw [← h.1.1]
    exact takeKwText_ne kws (fun k a hm => (hk k a hm).1) _ _ _ h1

/-- `-N` (group `post_n1`) as the scanner reads it / as text -/
def implicitNum (s : Str) : Option (Nat × Str) :=
  match s with
  | 45 :: r => (match optNum r with | (some n, r') => some (n, r') | (none, _) => none)
  | _ => none
def implicitText (s : Str) : Option (Str × Str) :=
  match s with
  | 45 :: r => (match optNumText r with | (some d, r') => some (d, r') | (none, _) => none)
  | _ => none

theorem scanPost_unfold (s : Str) : scanPost s =
    match implicitNum s with
    | some (n, r) => (some n, r)
    | none => match scanLetterGroup postKws s with
      | some ((_, n), r) => (some n, r)
      | none => (none, s) := by rfl

theorem postTexts_unfold (s : Str) : postTexts s =
    match implicitText s with
    | some (d, r) => some ((none, some d), r)
    | none => (letterGroupTexts postKws s).map fun x => ((some x.1.1, x.1.2), x.2) := by rfl

theorem implicit_text (s : Str) :
    implicitNum s = (implicitText s).map (fun x => (undec x.1, x.2)) ∧
    ∀ d r, implicitText s = some (d, r) → ∃ c cs, d = c :: cs := by
  unfold implicitNum implicitText
  split
  · rename_i r
    simp only [optNum_text]
    cases h : optNumText r with
    | mk d r' =>
      cases d with
      | none => simp
      | some d =>
        obtain ⟨x, xs, rfl⟩ := optNumText_some _ _ _ h
        simp
  · simp

/-- `scanPost` = `_parse_letter_version(post_l, post_n1 or post_n2)` of the captured texts -/
theorem scanPost_eq_parse (s : Str) :
    scanPost s = match postTexts s with
      | some ((l, d), r) => ((parseLetterVersion l d).map (·.2), r)
      | none => (none, s) := by
  have hg := scanLetterGroup_eq_parse _ postKws postKws_ok s
  -- the spelled form
  have spelled : (match scanLetterGroup postKws s with
        | some ((_, n), r) => (some n, r)
        | none => (none, s)) =
      (match (letterGroupTexts postKws s).map (fun x => ((some x.1.1, x.1.2), x.2)) with
        | some ((l, d), r) => ((parseLetterVersion l d).map (·.2), r)
        | none => (none, s)) := by
    cases h2 : letterGroupTexts postKws s with
    | none =>
      rw [h2] at hg
      cases h1 : scanLetterGroup postKws s with
      | none => rfl
      | some y => rw [h1] at hg; simp at hg
    | some x =>
      obtain ⟨⟨t, d⟩, r'⟩ := x
      have hne := letterGroupTexts_ne _ postKws postKws_ok s t d r' h2
      obtain ⟨c, cs, rfl⟩ : ∃ c cs, t = c :: cs := by
        cases t with
        | nil => exact absurd rfl hne
        | cons c cs => exact ⟨c, cs, rfl⟩
      rw [h2] at hg
      cases h1 : scanLetterGroup postKws s with
      | none => rw [h1] at hg; simp [parseLetterVersion] at hg
      | some y =>
        obtain ⟨⟨u, n⟩, r⟩ := y
        rw [h1] at hg
        simp [parseLetterVersion] at hg ⊢
        exact ⟨hg.1.2, hg.2⟩
  rw [scanPost_unfold, postTexts_unfold]
  obtain ⟨e1, e2⟩ := implicit_text s
  rw [e1]
  cases h : implicitText s with
  | none => simpa using spelled
  | some x =>
    obtain ⟨d, r⟩ := x
    obtain ⟨c, cs, rfl⟩ := e2 d r h
    simp [parseLetterVersion]

end Src
